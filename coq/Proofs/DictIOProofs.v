(* DictIOProofs.v — lemmas about Model/DictIO.v (C07). *)
Require Import Base DictIO ListLemmas.
From Coq Require Import Permutation.

(* ------------------------------------------------------------------------------------------------ *)
(*  equality tests                                                                                    *)
(* ------------------------------------------------------------------------------------------------ *)
Lemma weqb_eq : forall a b, weqb a b = true <-> a = b.
Proof.
  induction a as [|x a IH]; intros [|y b]; cbn [weqb]; split; intro H; try reflexivity; try discriminate.
  - apply andb_true_iff in H. destruct H as [H1 H2]. apply N.eqb_eq in H1. apply IH in H2. now subst.
  - inversion H; subst. rewrite N.eqb_refl. cbn. now apply IH.
Qed.
Lemma weqb_refl : forall a, weqb a a = true.
Proof. intro a. now apply weqb_eq. Qed.
Lemma weqb_neq : forall a b, weqb a b = false <-> a <> b.
Proof.
  intros a b. split.
  - intros H E. apply weqb_eq in E. congruence.
  - intro H. destruct (weqb a b) eqn:E; [apply weqb_eq in E; contradiction|reflexivity].
Qed.

Lemma path_eqb_eq : forall a b, path_eqb a b = true <-> a = b.
Proof.
  induction a as [|n|p IH]; intros [|m|q]; cbn [path_eqb]; split; intro H; try reflexivity; try discriminate.
  - apply weqb_eq in H. now subst.
  - inversion H. apply weqb_refl.
  - apply IH in H. now subst.
  - inversion H; subst. now apply IH.
Qed.
Lemma path_eqb_refl : forall a, path_eqb a a = true.
Proof. intro a. now apply path_eqb_eq. Qed.
Lemma path_eqb_neq : forall a b, a <> b -> path_eqb a b = false.
Proof. intros a b H. destruct (path_eqb a b) eqn:E; [apply path_eqb_eq in E; contradiction|reflexivity]. Qed.
Lemma tmp_neq : forall p, TmpP p <> p.
Proof. induction p as [|n|p IH]; intro H; try discriminate. inversion H. contradiction. Qed.

(* ------------------------------------------------------------------------------------------------ *)
(*  lookup / insert                                                                                   *)
(* ------------------------------------------------------------------------------------------------ *)
Lemma lookup_insert_same : forall k e d, lookup k (insert k e d) = Some e.
Proof.
  intros k e d. induction d as [|[k' e'] t IH]; cbn [insert lookup].
  - now rewrite weqb_refl.
  - destruct (weqb k k') eqn:E; cbn [lookup]; [now rewrite weqb_refl|now rewrite E].
Qed.
Lemma lookup_insert_other : forall k k' e d, k' <> k -> lookup k' (insert k e d) = lookup k' d.
Proof.
  intros k k' e d H. induction d as [|[k2 e2] t IH]; cbn [insert lookup].
  - apply weqb_neq in H. now rewrite H.
  - destruct (weqb k k2) eqn:E; cbn [lookup].
    + apply weqb_eq in E. subst k2. apply weqb_neq in H. now rewrite H.
    + destruct (weqb k' k2); [reflexivity|apply IH].
Qed.
Lemma lookup_in : forall k e d, lookup k d = Some e -> In (k, e) d.
Proof.
  intros k e d. induction d as [|[k' e'] t IH]; cbn [lookup]; [discriminate|].
  destruct (weqb k k') eqn:E; intro H.
  - apply weqb_eq in E. inversion H; subst. now left.
  - right. now apply IH.
Qed.
Lemma in_lookup : forall k e d, NoDup (map fst d) -> In (k, e) d -> lookup k d = Some e.
Proof.
  intros k e d. induction d as [|[k' e'] t IH]; cbn [map fst lookup]; intros ND H; [contradiction|].
  inversion ND as [|? ? Hn ND']; subst. destruct H as [H|H].
  - inversion H; subst. now rewrite weqb_refl.
  - destruct (weqb k k') eqn:E.
    + apply weqb_eq in E. subst k'. exfalso. apply Hn. change k with (fst (k, e)). now apply in_map.
    + now apply IH.
Qed.
Lemma lookup_none_notin : forall k d, lookup k d = None -> forall e, ~ In (k, e) d.
Proof.
  intros k d. induction d as [|[k' e'] t IH]; cbn [lookup]; intros H e Hin; [contradiction|].
  destruct (weqb k k') eqn:E; [discriminate|]. destruct Hin as [Hin|Hin].
  - inversion Hin; subst. rewrite weqb_refl in E. discriminate.
  - now apply (IH H e).
Qed.
Lemma insert_keys : forall k e d, In k (map fst d) -> map fst (insert k e d) = map fst d.
Proof.
  intros k e d. induction d as [|[k' e'] t IH]; cbn [insert map fst]; intro H; [contradiction|].
  destruct (weqb k k') eqn:E; cbn [map fst].
  - apply weqb_eq in E. now subst.
  - f_equal. apply IH. destruct H as [H|H]; [subst; rewrite weqb_refl in E; discriminate|exact H].
Qed.
Lemma insert_keys_new : forall k e d, ~ In k (map fst d) -> map fst (insert k e d) = map fst d ++ [k].
Proof.
  intros k e d. induction d as [|[k' e'] t IH]; cbn [insert map fst app]; intro H; [reflexivity|].
  destruct (weqb k k') eqn:E; cbn [map fst].
  - apply weqb_eq in E. subst. exfalso. apply H. now left.
  - f_equal. apply IH. intro Hin. apply H. now right.
Qed.
Lemma in_dec_word : forall (k : word) l, In k l \/ ~ In k l.
Proof.
  intros k l. induction l as [|x l IH]; [now right|].
  destruct (weqb k x) eqn:E.
  - apply weqb_eq in E. left. now left.
  - apply weqb_neq in E. destruct IH as [IH|IH]; [left; now right|right]. intros [H|H]; [now subst|contradiction].
Qed.
Lemma insert_nodup : forall k e d, NoDup (map fst d) -> NoDup (map fst (insert k e d)).
Proof.
  intros k e d ND. destruct (in_dec_word k (map fst d)) as [H|H].
  - now rewrite insert_keys.
  - rewrite insert_keys_new by exact H. apply (Permutation_NoDup (Permutation_cons_append (map fst d) k)).
    now constructor.
Qed.
Lemma insert_in : forall k e d x, In x (insert k e d) -> x = (k, e) \/ In x d.
Proof.
  intros k e d x. induction d as [|[k' e'] t IH]; cbn [insert]; intro H.
  - destruct H as [H|[]]. now left.
  - destruct (weqb k k'); destruct H as [H|H]; [now left|right; now right|right; now left|].
    destruct (IH H) as [H'|H']; [now left|right; now right].
Qed.

(* ------------------------------------------------------------------------------------------------ *)
(*  perm_ofb decides Permutation                                                                      *)
(* ------------------------------------------------------------------------------------------------ *)
Lemma remove_one_perm : forall w l r, remove_one w l = Some r -> Permutation l (w :: r).
Proof.
  intros w l. induction l as [|x l IH]; intros r H; cbn [remove_one] in H; [discriminate|].
  destruct (weqb w x) eqn:E.
  - apply weqb_eq in E. inversion H; subst. apply Permutation_refl.
  - destruct (remove_one w l) as [r'|]; [|discriminate]. inversion H; subst.
    eapply Permutation_trans; [apply perm_skip, IH; reflexivity|apply perm_swap].
Qed.
Lemma remove_one_in : forall w l, In w l -> exists r, remove_one w l = Some r.
Proof.
  intros w l. induction l as [|x l IH]; intro H; [contradiction|]. cbn [remove_one].
  destruct (weqb w x) eqn:E; [now exists l|]. destruct H as [H|H].
  - subst. rewrite weqb_refl in E. discriminate.
  - destruct (IH H) as [r Hr]. rewrite Hr. now exists (x :: r).
Qed.
Lemma perm_ofb_spec : forall a b, perm_ofb a b = true <-> Permutation a b.
Proof.
  induction a as [|x a IH]; intro b; cbn [perm_ofb].
  - destruct b; split; intro H; try reflexivity; try discriminate.
    + apply Permutation_nil in H. discriminate.
  - split.
    + destruct (remove_one x b) as [b'|] eqn:E; [|discriminate]. intro H. apply IH in H.
      apply remove_one_perm in E. eapply Permutation_trans; [apply perm_skip, H|now apply Permutation_sym].
    + intro H. assert (Hin : In x b) by (apply (Permutation_in _ H); now left).
      destruct (remove_one_in x b Hin) as [b' E]. rewrite E. apply IH.
      apply remove_one_perm in E. apply (Permutation_cons_inv (a := x)).
      eapply Permutation_trans; [exact H|exact E].
Qed.

(* ------------------------------------------------------------------------------------------------ *)
(*  lines / serialize                                                                                 *)
(* ------------------------------------------------------------------------------------------------ *)
Lemma lines_go_word : forall w acc rest,
  existsb (fun c => N.eqb c LF) w = false ->
  lines_go acc (w ++ LF :: rest) = strip_cr (acc ++ w) :: lines_go [] rest.
Proof.
  induction w as [|c w IH]; intros acc rest H.
  - cbn [app lines_go]. rewrite N.eqb_refl. now rewrite app_nil_r.
  - cbn [existsb] in H. apply orb_false_iff in H. destruct H as [H1 H2].
    cbn [app lines_go]. rewrite H1. rewrite IH by exact H2. now rewrite <- app_assoc.
Qed.
Lemma line_safe_nolf : forall w, line_safe w -> existsb (fun c => N.eqb c LF) w = false.
Proof.
  intros w H. unfold line_safe, line_safeb in H. apply andb_true_iff in H. destruct H as [H _].
  now apply negb_true_iff in H.
Qed.
Lemma line_safe_strip : forall w, line_safe w -> strip_cr w = w.
Proof.
  intros w H. unfold line_safe, line_safeb in H. apply andb_true_iff in H. destruct H as [_ H].
  unfold strip_cr. destruct (rev w) as [|c r]; [reflexivity|]. apply negb_true_iff in H. now rewrite H.
Qed.
Lemma lines_serialize : forall ws, Forall line_safe ws -> lines (serialize ws) = ws.
Proof.
  induction ws as [|w ws IH]; intro H; [reflexivity|].
  inversion H as [|? ? Hw Hws]; subst. unfold lines, serialize. cbn [flat_map].
  rewrite <- app_assoc. cbn [app]. rewrite lines_go_word by now apply line_safe_nolf.
  cbn [app]. rewrite line_safe_strip by exact Hw. f_equal. now apply IH.
Qed.

(* normalisation is idempotent and is `map norm_char` *)
Lemma norm_char_idem : forall c, norm_char (norm_char c) = norm_char c.
Proof.
  intro c. unfold norm_char. destruct (N.eqb c 8217 || N.eqb c 8216 || N.eqb c 65287)%bool eqn:E; [reflexivity|now rewrite E].
Qed.
Lemma normalized_map : forall w, normalized w = map norm_char w.
Proof.
  intro w. unfold normalized. destruct (existsb _ w) eqn:E; [reflexivity|].
  induction w as [|c w IH]; [reflexivity|]. cbn [existsb] in E. apply orb_false_iff in E. destruct E as [E1 E2].
  cbn [map]. apply negb_false_iff, N.eqb_eq in E1. rewrite E1. f_equal. now apply IH.
Qed.
Lemma normalized_idem : forall w, normalized (normalized w) = normalized w.
Proof.
  intro w. rewrite !normalized_map, map_map. apply map_ext. intro c. apply norm_char_idem.
Qed.

(* ------------------------------------------------------------------------------------------------ *)
(*  association lists of the file system                                                              *)
(* ------------------------------------------------------------------------------------------------ *)
Lemma assoc_set_same : forall p c l, assoc p (assoc_set p c l) = Some c.
Proof.
  intros p c l. induction l as [|[q c'] t IH]; cbn [assoc_set assoc].
  - now rewrite path_eqb_refl.
  - destruct (path_eqb p q) eqn:E; cbn [assoc]; [now rewrite path_eqb_refl|now rewrite E].
Qed.
Lemma assoc_set_other : forall p p' c l, p' <> p -> assoc p' (assoc_set p c l) = assoc p' l.
Proof.
  intros p p' c l H. induction l as [|[q c'] t IH]; cbn [assoc_set assoc].
  - now rewrite (path_eqb_neq _ _ H).
  - destruct (path_eqb p q) eqn:E; cbn [assoc].
    + apply path_eqb_eq in E. subst q. now rewrite (path_eqb_neq _ _ H).
    + destruct (path_eqb p' q); [reflexivity|apply IH].
Qed.
Lemma assoc_del_other : forall p p' l, p' <> p -> assoc p' (assoc_del p l) = assoc p' l.
Proof.
  intros p p' l H. induction l as [|[q c'] t IH]; cbn [assoc_del assoc]; [reflexivity|].
  destruct (path_eqb p q) eqn:E; cbn [assoc].
  - apply path_eqb_eq in E. subst q. now rewrite (path_eqb_neq _ _ H).
  - destruct (path_eqb p' q); [reflexivity|apply IH].
Qed.
Lemma assoc_del_same : forall p l, assoc p (assoc_del p l) = None.
Proof.
  intros p l. induction l as [|[q c'] t IH]; cbn [assoc_del assoc]; [reflexivity|].
  destruct (path_eqb p q) eqn:E; cbn [assoc]; [exact IH|now rewrite E].
Qed.
Lemma fs_read_write_same : forall p c s, fs_read p (fs_write p c s) = Some c.
Proof. intros. unfold fs_read, fs_write. cbn [files]. apply assoc_set_same. Qed.
Lemma fs_read_write_other : forall p p' c s, p' <> p -> fs_read p' (fs_write p c s) = fs_read p' s.
Proof. intros. unfold fs_read, fs_write. cbn [files]. now apply assoc_set_other. Qed.

(* ------------------------------------------------------------------------------------------------ *)
(*  dictionaries: well-formedness, extend_words, equivalence                                          *)
(* ------------------------------------------------------------------------------------------------ *)
Definition dict_equiv (d1 d2 : dict) : Prop := forall k, lookup k d1 = lookup k d2.

Section Proofs.
  Variable is_lower : N -> bool.
  Variable lower : N -> list N.
  Variable curated : dict.
  Variable iter_order : list word -> list word.
  Hypothesis iter_perm : forall l, Permutation (iter_order l) l.

  Notation wid := (word_id is_lower lower).
  Notation append_word := (append_word is_lower lower).
  Notation extend_words := (extend_words is_lower lower).
  Notation dict_from_word_list := (dict_from_word_list is_lower lower).
  Notation load_dict := (load_dict is_lower lower).
  Notation dict_at := (dict_at is_lower lower).
  Notation words_iter := (words_iter iter_order).
  Notation save_dict := (save_dict iter_order).
  Notation add_to := (add_to is_lower lower iter_order).
  Notation add_word := (add_word is_lower lower iter_order).
  Notation accepted := (accepted is_lower lower).
  Notation contains_exact_word := (contains_exact_word is_lower lower).
  Notation m_contains_exact := (m_contains_exact is_lower lower).
  Notation m_get_meta := (m_get_meta is_lower lower).
  Notation get_meta := (get_meta is_lower lower).
  Notation to_lower := (to_lower is_lower lower).
  Notation children := (children is_lower lower curated).
  Notation file_dict := (file_dict is_lower lower).
  Notation lint := (lint is_lower lower curated).
  Notation step_op := (step_op is_lower lower curated iter_order).
  Notation run := (run is_lower lower curated iter_order).
  Notation run_fs := (run_fs is_lower lower curated iter_order).

  (* every key is the id of its canonical spelling, keys are distinct, entries carry default metadata *)
  Definition dict_wf (d : dict) : Prop :=
    NoDup (map fst d) /\ forall k e, In (k, e) d -> k = wid (fst e) /\ snd e = true.

  Lemma wf_nil : dict_wf [].
  Proof. split; [constructor|intros k e []]. Qed.
  Lemma wf_append : forall d w, dict_wf d -> dict_wf (append_word d w).
  Proof.
    intros d w [ND H]. split; [now apply insert_nodup|].
    intros k e Hin. apply insert_in in Hin. destruct Hin as [Hin|Hin]; [inversion Hin; subst; now split|now apply H].
  Qed.
  Lemma extend_snoc : forall d ws w, extend_words d (ws ++ [w]) = append_word (extend_words d ws) w.
  Proof. intros. unfold DictIO.extend_words. now rewrite fold_left_app. Qed.
  Lemma wf_extend : forall ws d, dict_wf d -> dict_wf (extend_words d ws).
  Proof.
    induction ws as [|w ws IH] using rev_ind; intros d H; [exact H|].
    rewrite extend_snoc. apply wf_append. now apply IH.
  Qed.

  Lemma extend_lookup_none : forall ws d k, (forall w, In w ws -> wid w <> k) -> lookup k (extend_words d ws) = lookup k d.
  Proof.
    induction ws as [|w ws IH] using rev_ind; intros d k H; [reflexivity|].
    rewrite extend_snoc. unfold DictIO.append_word. rewrite lookup_insert_other.
    - apply IH. intros w' Hw'. apply H. apply in_or_app. now left.
    - intro E. apply (H w); [apply in_or_app; right; now left|now symmetry].
  Qed.
  Lemma extend_lookup_some : forall ws d k w, In w ws -> wid w = k ->
    exists w', In w' ws /\ wid w' = k /\ lookup k (extend_words d ws) = Some (w', true).
  Proof.
    induction ws as [|a ws IH] using rev_ind; intros d k w Hin Hk; [contradiction|].
    rewrite extend_snoc. unfold DictIO.append_word.
    destruct (weqb (wid a) k) eqn:E.
    - apply weqb_eq in E. exists a. split; [apply in_or_app; right; now left|]. split; [exact E|].
      rewrite E. apply lookup_insert_same.
    - apply weqb_neq in E. apply in_app_or in Hin. destruct Hin as [Hin|[Hin|[]]].
      + destruct (IH d k w Hin Hk) as [w' [H1 [H2 H3]]]. exists w'. split; [apply in_or_app; now left|].
        split; [exact H2|]. rewrite lookup_insert_other; [exact H3|congruence].
      + subst a. contradiction.
  Qed.
  Lemma extend_words_in : forall ws d w, In w (words_of (extend_words d ws)) -> In w ws \/ In w (words_of d).
  Proof.
    induction ws as [|a ws IH] using rev_ind; intros d w H; [now right|].
    rewrite extend_snoc in H. unfold DictIO.append_word, words_of in H. apply in_map_iff in H.
    destruct H as [[k e] [H1 H2]]. apply insert_in in H2. destruct H2 as [H2|H2].
    - inversion H2; subst k e. cbn in H1. subst w. left. apply in_or_app. right. now left.
    - destruct (IH d w) as [H|H].
      + unfold words_of. apply in_map_iff. exists (k, e). now split.
      + left. apply in_or_app. now left.
      + now right.
  Qed.

  Lemma wf_word_key : forall d w, dict_wf d -> In w (words_of d) -> In (wid w, (w, true)) d.
  Proof.
    intros d w [ND H] Hin. unfold words_of in Hin. apply in_map_iff in Hin. destruct Hin as [[k [c b]] [H1 H2]].
    cbn in H1. subst c. destruct (H k (w, b) H2) as [Hk Hb]. cbn in Hk, Hb. now subst.
  Qed.

  (* reading back a word list that is a permutation of the words of a well-formed dictionary gives that
     dictionary (as a map) — whatever order the hash map chose *)
  Lemma extend_perm_equiv : forall d ws, dict_wf d -> Permutation ws (words_of d) -> dict_equiv (extend_words [] ws) d.
  Proof.
    intros d ws Hwf P k. destruct (lookup k d) as [[c b]|] eqn:L.
    - apply lookup_in in L. destruct Hwf as [ND H]. destruct (H k (c, b) L) as [Hk Hb]. cbn in Hk, Hb. subst b.
      assert (Hc : In c ws).
      { apply (Permutation_in _ (Permutation_sym P)). unfold words_of. apply in_map_iff. exists (k, (c, true)). now split. }
      destruct (extend_lookup_some ws [] k c Hc (eq_sym Hk)) as [w' [H1 [H2 H3]]]. rewrite H3. f_equal. f_equal.
      assert (Hw' : In (wid w', (w', true)) d).
      { apply wf_word_key; [now split|]. now apply (Permutation_in _ P). }
      rewrite H2 in Hw'. apply (in_lookup _ _ _ ND) in Hw'. apply (in_lookup _ _ _ ND) in L. congruence.
    - rewrite extend_lookup_none; [reflexivity|].
      intros w Hw E. apply (Permutation_in _ P) in Hw. apply (wf_word_key _ _ Hwf) in Hw. rewrite E in Hw.
      now apply (lookup_none_notin _ _ L) in Hw.
  Qed.

  (* ---------------------------------------------------------------------------------------------- *)
  (*  running the effects of a save                                                                   *)
  (* ---------------------------------------------------------------------------------------------- *)
  Fixpoint run_opt (st : sstate) (effs : list effect) : option sstate :=
    match effs with
    | [] => Some st
    | e :: r => match step st e with Some st' => run_opt st' r | None => None end
    end.
  Fixpoint open_all (o : option path) (effs : list effect) : option path :=
    match effs with [] => o | e :: r => open_all (open_after o e) r end.

  Lemma run_opt_effects : forall effs st st', run_opt st effs = Some st' -> run_effects st effs = st'.
  Proof.
    induction effs as [|e r IH]; intros st st' H; cbn [run_opt run_effects] in *; [congruence|].
    destruct (step st e); [now apply IH|discriminate].
  Qed.
  Lemma run_opt_app : forall e1 e2 st st1, run_opt st e1 = Some st1 -> run_opt st (e1 ++ e2) = run_opt st1 e2.
  Proof.
    induction e1 as [|e r IH]; intros e2 st st1 H; cbn [run_opt app] in *; [congruence|].
    destruct (step st e); [now apply IH|discriminate].
  Qed.

  Lemma writes_concat : forall p ws, write_effects p ws = map (EWrite p) (flat_map (fun w => [w; [LF]]) ws).
  Proof. intros p ws. unfold write_effects. induction ws as [|w ws IH]; cbn [flat_map map app]; [reflexivity|now rewrite IH]. Qed.
  Lemma concat_pieces : forall ws, concat (flat_map (fun w : word => [w; [LF]]) ws) = serialize ws.
  Proof.
    induction ws as [|w ws IH]; [reflexivity|]. cbn [flat_map app concat]. unfold serialize. cbn [flat_map].
    rewrite <- app_assoc. f_equal. cbn [app]. f_equal. exact IH.
  Qed.
  Lemma run_writes : forall p bs s buf, run_opt (s, buf) (map (EWrite p) bs) = Some (s, buf ++ concat bs).
  Proof.
    intros p bs. induction bs as [|b bs IH]; intros s buf; cbn [map run_opt concat].
    - now rewrite app_nil_r.
    - cbn [step]. rewrite IH. now rewrite app_assoc.
  Qed.

  Definition with_dir (d : dpath) (s : fsys) : fsys := mkfs (if has_dir d s then dirs s else d :: dirs s) (files s).
  Lemma dpath_eqb_refl : forall d, dpath_eqb d d = true.
  Proof. now destruct d. Qed.
  Lemma has_dir_with : forall d s, has_dir d (with_dir d s) = true.
  Proof.
    intros d s. unfold with_dir. destruct (has_dir d s) eqn:E; unfold has_dir in *; cbn [dirs].
    - exact E.
    - cbn [existsb]. now rewrite dpath_eqb_refl.
  Qed.
  Lemma read_with_dir : forall d q s, fs_read q (with_dir d s) = fs_read q s.
  Proof. reflexivity. Qed.

  (* mkdir; create q; write everything (then flush): what save_dict did to the dictionary itself before
     87b8642 and does to the temporary sibling now *)
  Definition write_phase (q : path) (ws : list word) : list effect :=
    EMkdir (parent q) :: ECreate q :: write_effects q ws.
  Definition after_create (q : path) (s : fsys) : fsys := fs_write q (Clean []) (with_dir (parent q) s).
  Lemma run_write_phase : forall q ws s,
    run_opt (s, []) (write_phase q ws) = Some (after_create q s, serialize ws).
  Proof.
    intros q ws s. unfold write_phase. cbn [run_opt step]. fold (with_dir (parent q) s).
    rewrite has_dir_with. rewrite writes_concat, run_writes. cbn [app]. now rewrite concat_pieces.
  Qed.
  Definition after_flush (q : path) (ws : list word) (s : fsys) : fsys :=
    fs_write q (Clean (serialize ws)) (after_create q s).
  Lemma run_flush : forall q ws s,
    run_opt (s, []) (write_phase q ws ++ [EFlush q]) = Some (after_flush q ws s, []).
  Proof.
    intros q ws s. rewrite (run_opt_app _ _ _ _ (run_write_phase q ws s)). cbn [run_opt step].
    unfold after_flush. unfold after_create at 1. rewrite fs_read_write_same. reflexivity.
  Qed.

  Lemma read_after_flush_same : forall p ws s, fs_read p (after_flush p ws s) = Some (Clean (serialize ws)).
  Proof. intros. unfold after_flush. apply fs_read_write_same. Qed.
  Lemma read_after_flush_other : forall p p' ws s, p' <> p -> fs_read p' (after_flush p ws s) = fs_read p' s.
  Proof.
    intros p p' ws s H. unfold after_flush, after_create. rewrite !fs_read_write_other by exact H. apply read_with_dir.
  Qed.

  (* save_dict as written now = the old protocol on the temporary sibling, then sync_all and rename *)
  Lemma save_effects_eq : forall p ws,
    save_effects p ws = save_effects_old (TmpP p) ws ++ [ESync (TmpP p); ERename (TmpP p) p].
  Proof.
    intros p ws. unfold save_effects, save_effects_old. cbn [app parent]. f_equal. f_equal.
    now rewrite <- app_assoc.
  Qed.
  Lemma tmp_neq' : forall p, p <> TmpP p.
  Proof. intros p E. symmetry in E. now apply tmp_neq in E. Qed.
  (* the rename: the sibling's content becomes the dictionary's, the sibling is gone *)
  Definition renamed (p : path) (s : fsys) (c : content) : fsys :=
    mkfs (dirs s) (assoc_set p c (assoc_del (TmpP p) (files s))).
  Definition after_save (p : path) (ws : list word) (s : fsys) : fsys :=
    renamed p (after_flush (TmpP p) ws s) (Clean (serialize ws)).
  Lemma read_renamed_same : forall p s c, fs_read p (renamed p s c) = Some c.
  Proof. intros. unfold fs_read, renamed. cbn [files]. apply assoc_set_same. Qed.
  Lemma read_renamed_tmp : forall p s c, fs_read (TmpP p) (renamed p s c) = None.
  Proof.
    intros. unfold fs_read, renamed. cbn [files]. rewrite assoc_set_other by apply tmp_neq. apply assoc_del_same.
  Qed.
  Lemma read_renamed_other : forall p q s c, q <> p -> q <> TmpP p -> fs_read q (renamed p s c) = fs_read q s.
  Proof.
    intros p q s c H1 H2. unfold fs_read, renamed. cbn [files]. rewrite assoc_set_other by exact H1.
    now apply assoc_del_other.
  Qed.
  Lemma run_save : forall p ws s, run_opt (s, []) (save_effects p ws) = Some (after_save p ws s, []).
  Proof.
    intros p ws s. rewrite save_effects_eq.
    change (save_effects_old (TmpP p) ws) with (write_phase (TmpP p) ws ++ [EFlush (TmpP p)]).
    rewrite (run_opt_app _ _ _ _ (run_flush (TmpP p) ws s)). cbn [run_opt step].
    now rewrite read_after_flush_same.
  Qed.
  Lemma save_words_eq : forall p ws s, save_words p ws s = after_save p ws s.
  Proof. intros p ws s. unfold save_words. now rewrite (run_opt_effects _ _ _ (run_save p ws s)). Qed.
  Lemma read_after_save_same : forall p ws s, fs_read p (after_save p ws s) = Some (Clean (serialize ws)).
  Proof. intros. apply read_renamed_same. Qed.
  Lemma read_after_save_other : forall p q ws s, q <> p -> q <> TmpP p -> fs_read q (after_save p ws s) = fs_read q s.
  Proof.
    intros p q ws s H1 H2. unfold after_save. rewrite read_renamed_other by assumption.
    now apply read_after_flush_other.
  Qed.

  (* ---------------------------------------------------------------------------------------------- *)
  (*  save then load                                                                                  *)
  (* ---------------------------------------------------------------------------------------------- *)
  Lemma load_after_save_words : forall p ws s, Forall line_safe ws ->
    load_dict p (save_words p ws s) = Some (extend_words [] ws).
  Proof.
    intros p ws s H. rewrite save_words_eq. unfold DictIO.load_dict. rewrite read_after_save_same.
    unfold DictIO.dict_from_word_list. now rewrite lines_serialize.
  Qed.

  Lemma save_load : forall p d s, dict_wf d -> Forall line_safe (words_of d) ->
    exists d', load_dict p (save_dict p d s) = Some d' /\ dict_equiv d' d /\ dict_wf d'
               /\ Forall line_safe (words_of d').
  Proof.
    intros p d s Hwf Hsafe. unfold DictIO.save_dict, DictIO.words_iter.
    assert (Hs : Forall line_safe (iter_order (words_of d))).
    { apply Forall_forall. intros w Hw. apply (Permutation_in _ (iter_perm _)) in Hw.
      now apply (proj1 (Forall_forall _ _) Hsafe). }
    exists (extend_words [] (iter_order (words_of d))). split; [now apply load_after_save_words|].
    split; [apply extend_perm_equiv; [exact Hwf|apply iter_perm]|].
    split; [apply wf_extend, wf_nil|].
    apply Forall_forall. intros w Hw. apply extend_words_in in Hw. destruct Hw as [Hw|[]].
    now apply (proj1 (Forall_forall _ _) Hs).
  Qed.

  (* no other file changes, except that the temporary sibling is gone *)
  Lemma load_other : forall p p' d s, p' <> p -> p' <> TmpP p -> load_dict p' (save_dict p d s) = load_dict p' s.
  Proof.
    intros p p' d s H H'. unfold DictIO.save_dict, DictIO.load_dict. rewrite save_words_eq.
    now rewrite read_after_save_other.
  Qed.
  Lemma not_tmp_neq : forall q p, is_tmp q = false -> q <> TmpP p.
  Proof. intros q p H E. subst q. discriminate. Qed.

  (* ---------------------------------------------------------------------------------------------- *)
  (*  adding a word                                                                                   *)
  (* ---------------------------------------------------------------------------------------------- *)
  (* every dictionary file on disk (the temporary siblings, which are never read, excepted) loads to words
     that survive a rewrite (true of every file that was written by save_dict from line-safe words, and of
     the empty file system) *)
  Definition fs_ok (s : fsys) : Prop :=
    forall p d, is_tmp p = false -> load_dict p s = Some d -> Forall line_safe (words_of d).

  Lemma fs_ok_empty : fs_ok fs_empty.
  Proof. intros p d _ H. discriminate. Qed.

  Lemma wf_dict_at : forall p s, dict_wf (dict_at p s).
  Proof.
    intros p s. unfold DictIO.dict_at, DictIO.load_dict. destruct (fs_read p s) as [[t|t]|]; try apply wf_nil.
    unfold DictIO.dict_from_word_list. apply wf_extend, wf_nil.
  Qed.
  Lemma safe_dict_at : forall p s, fs_ok s -> is_tmp p = false -> Forall line_safe (words_of (dict_at p s)).
  Proof.
    intros p s H Hp. unfold DictIO.dict_at. destruct (load_dict p s) as [d|] eqn:E; [now apply (H p)|constructor].
  Qed.
  Lemma words_of_append : forall d w x, In x (words_of (append_word d w)) -> x = w \/ In x (words_of d).
  Proof.
    intros d w x H. unfold words_of in H. apply in_map_iff in H. destruct H as [[k e] [H1 H2]].
    apply insert_in in H2. destruct H2 as [H2|H2].
    - inversion H2; subst k e. cbn in H1. now left.
    - right. unfold words_of. apply in_map_iff. exists (k, e). now split.
  Qed.

  Lemma safe_appended : forall p w s, fs_ok s -> is_tmp p = false -> line_safe w ->
    Forall line_safe (words_of (append_word (dict_at p s) w)).
  Proof.
    intros p w s Hok Hp Hw. apply Forall_forall. intros x Hx. apply words_of_append in Hx.
    destruct Hx as [Hx|Hx]; [now subst|]. now apply (proj1 (Forall_forall _ _) (safe_dict_at p s Hok Hp)).
  Qed.

  Lemma add_to_spec : forall p w s, fs_ok s -> is_tmp p = false -> line_safe w ->
    dict_equiv (dict_at p (add_to p w s)) (append_word (dict_at p s) w)
    /\ fs_ok (add_to p w s)
    /\ forall p', p' <> p -> p' <> TmpP p -> load_dict p' (add_to p w s) = load_dict p' s.
  Proof.
    intros p w s Hok Hp Hw. unfold DictIO.add_to.
    set (D := append_word (dict_at p s) w).
    assert (HwfD : dict_wf D) by (apply wf_append, wf_dict_at).
    assert (HsD : Forall line_safe (words_of D)) by now apply safe_appended.
    destruct (save_load p D s HwfD HsD) as [d' [Hl [He [_ Hs']]]].
    split; [|split].
    - unfold DictIO.dict_at at 1. now rewrite Hl.
    - intros q d0 Hq0 Hq. destruct (path_eqb q p) eqn:E.
      + apply path_eqb_eq in E. subst q. rewrite Hl in Hq. inversion Hq; now subst.
      + assert (q <> p) by (intro; subst; rewrite path_eqb_refl in E; discriminate).
        rewrite load_other in Hq; [now apply (Hok q)|assumption|now apply not_tmp_neq].
    - intros p' Hp' Hp''. now apply load_other.
  Qed.

  Lemma dict_at_other : forall p p' w s, p' <> p -> p' <> TmpP p -> dict_at p' (add_to p w s) = dict_at p' s.
  Proof.
    intros p p' w s H H'. unfold DictIO.dict_at, DictIO.add_to. now rewrite load_other.
  Qed.

  (* ---------------------------------------------------------------------------------------------- *)
  (*  the accept decision                                                                             *)
  (* ---------------------------------------------------------------------------------------------- *)
  Lemma wid_normalized : forall t, wid (normalized t) = wid t.
  Proof. intro t. unfold DictIO.word_id. now rewrite normalized_idem. Qed.

  (* the entry stored at w's id is w up to the kind of apostrophe: w is found by the exact test *)
  Lemma exact_has : forall D w c, normalized c = normalized w -> lookup (wid w) D = Some (c, true) ->
    contains_exact_word D w = true.
  Proof.
    intros D w c Hn H. unfold DictIO.contains_exact_word. rewrite wid_normalized, H. cbn [fst]. rewrite Hn.
    apply weqb_refl.
  Qed.
  Lemma wf_lookup_dok : forall D k e, dict_wf D -> lookup k D = Some e -> snd e = true.
  Proof. intros D k e [_ H] L. apply lookup_in in L. now destruct (H k e L). Qed.

  Lemma accepted_has : forall U F w c,
    normalized c = normalized w ->
    (forall e, lookup (wid w) curated = Some e -> snd e = true) ->
    dict_wf U -> dict_wf F ->
    lookup (wid w) U = Some (c, true) \/ lookup (wid w) F = Some (c, true) ->
    accepted [curated; U; F] w = true.
  Proof.
    intros U F w c Hn Hc HU HF Hhas. unfold DictIO.accepted.
    assert (Hex : m_contains_exact [curated; U; F] w = true).
    { unfold DictIO.m_contains_exact. cbn [existsb]. destruct Hhas as [H|H].
      - rewrite (exact_has U w c Hn H). now rewrite orb_true_r.
      - rewrite (exact_has F w c Hn H). now rewrite !orb_true_r. }
    rewrite Hex. cbn [orb].
    cbn [DictIO.m_get_meta]. unfold DictIO.get_meta.
    destruct (lookup (wid w) curated) as [e|] eqn:L1; [rewrite andb_true_r; now apply Hc|].
    destruct (lookup (wid w) U) as [e|] eqn:L2; [rewrite andb_true_r; now apply (wf_lookup_dok U _ _ HU L2)|].
    destruct (lookup (wid w) F) as [e|] eqn:L3; [rewrite andb_true_r; now apply (wf_lookup_dok F _ _ HF L3)|].
    destruct Hhas; discriminate.
  Qed.

  (* the decision reads the children only at the ids of t and of to_lower t *)
  Lemma accepted_agree : forall U F U' F' t,
    (forall k, k = wid t \/ k = wid (to_lower t) -> lookup k U = lookup k U') ->
    (forall k, k = wid t \/ k = wid (to_lower t) -> lookup k F = lookup k F') ->
    accepted [curated; U; F] t = accepted [curated; U'; F'] t.
  Proof.
    intros U F U' F' t HU HF. unfold DictIO.accepted, DictIO.m_contains_exact. cbn [DictIO.m_get_meta existsb].
    unfold DictIO.get_meta, DictIO.contains_exact_word. rewrite !wid_normalized.
    rewrite <- (HU (wid t)) by now left. rewrite <- (HF (wid t)) by now left.
    rewrite <- (HU (wid (to_lower t))) by now right. rewrite <- (HF (wid (to_lower t))) by now right.
    reflexivity.
  Qed.


  (* ---------------------------------------------------------------------------------------------- *)
  (*  crash states                                                                                    *)
  (* ---------------------------------------------------------------------------------------------- *)
  (* c is `done_` followed by a prefix of `rest`: whole characters, or whole characters and a cut
     multi-byte one *)
  Definition in_pv (done_ rest : text) (c : content) : Prop :=
    exists pre post, rest = pre ++ post /\
      (c = Clean (done_ ++ pre) \/
       (c = Torn (done_ ++ pre) /\ exists x post', post = x :: post' /\ (x <? 128)%N = false)).

  Lemma pv_spec : forall rest done_ c, In c (prefix_variants done_ rest) <-> in_pv done_ rest c.
  Proof.
    induction rest as [|x r IH]; intros done_ c; cbn [prefix_variants].
    - split.
      + intros [H|[]]. subst c. exists [], []. split; [reflexivity|left]. now rewrite app_nil_r.
      + intros [pre [post [E H]]]. symmetry in E. apply app_eq_nil in E. destruct E; subst pre post.
        rewrite app_nil_r in H. destruct H as [H|[_ [x [post' [H _]]]]]; [now left|discriminate].
    - split.
      + intros [H|H].
        * subst c. exists [], (x :: r). split; [reflexivity|left]. now rewrite app_nil_r.
        * apply in_app_or in H. destruct H as [H|H].
          -- destruct (x <? 128)%N eqn:E; [contradiction|]. destruct H as [H|[]]. subst c.
             exists [], (x :: r). split; [reflexivity|right]. rewrite app_nil_r. split; [reflexivity|].
             now exists x, r.
          -- apply IH in H. destruct H as [pre [post [E H]]]. exists (x :: pre), post. split; [now subst r|].
             rewrite <- app_assoc in H. exact H.
      + intros [pre [post [E H]]]. destruct pre as [|y pre].
        * cbn [app] in E. subst post. rewrite app_nil_r in H. destruct H as [H|[H [x' [post' [E2 Hx]]]]].
          -- now left.
          -- inversion E2; subst x' post'. right. apply in_or_app. left. rewrite Hx. now left.
        * cbn [app] in E. inversion E; subst y r. right. apply in_or_app. right. apply IH.
          exists pre, post. split; [reflexivity|]. now rewrite <- app_assoc.
  Qed.
  Lemma in_pv_extend : forall d rest more c, in_pv d rest c -> in_pv d (rest ++ more) c.
  Proof.
    intros d rest more c [pre [post [E H]]]. exists pre, (post ++ more). split; [subst rest; now rewrite app_assoc|].
    destruct H as [H|[H [x [post' [E2 Hx]]]]]; [now left|right]. split; [exact H|]. exists x, (post' ++ more). now subst post.
  Qed.
  Lemma in_pv_nil : forall d c, in_pv d [] c -> c = Clean d.
  Proof.
    intros d c [pre [post [E H]]]. symmetry in E. apply app_eq_nil in E. destruct E; subst. rewrite app_nil_r in H.
    destruct H as [H|[_ [x [post' [H _]]]]]; [exact H|discriminate].
  Qed.

  Lemma crash_variants_nobuf : forall o fs, crash_variants o (fs, []) = [fs].
  Proof. intros [q|] fs; reflexivity. Qed.

  Lemma crash_variants_spec : forall p fs buf t s', fs_read p fs = Some (Clean t) ->
    In s' (crash_variants (Some p) (fs, buf)) ->
    (exists c, fs_read p s' = Some c /\ in_pv t buf c) /\ forall q, q <> p -> fs_read q s' = fs_read q fs.
  Proof.
    intros p fs buf t s' Hr H. destruct buf as [|b buf].
    - rewrite crash_variants_nobuf in H. destruct H as [H|[]]. subst s'. split; [|reflexivity].
      exists (Clean t). split; [exact Hr|]. exists [], []. split; [reflexivity|left]. now rewrite app_nil_r.
    - cbn [crash_variants] in H. rewrite Hr in H. apply in_map_iff in H. destruct H as [c [H1 H2]]. subst s'. split.
      + exists c. split; [apply fs_read_write_same|now apply pv_spec].
      + intros q Hq. now apply fs_read_write_other.
  Qed.

  Lemma crash_states_app_in : forall e1 e2 o st s',
    In s' (crash_states o st (e1 ++ e2)) ->
    In s' (crash_states o st e1) \/
    exists st1, run_opt st e1 = Some st1 /\ In s' (crash_states (open_all o e1) st1 e2).
  Proof.
    induction e1 as [|e r IH]; intros e2 o st s' H.
    - right. exists st. now split.
    - cbn [app crash_states] in H. apply in_app_or in H. destruct H as [H|H].
      + left. cbn [crash_states]. apply in_or_app. now left.
      + cbn [run_opt open_all crash_states]. destruct (step st e) as [st'|]; [|contradiction].
        destruct (IH e2 _ st' s' H) as [H'|H']; [left; apply in_or_app; now right|now right].
  Qed.
  Lemma crash_states_app_intro : forall e1 e2 o st st1 s',
    run_opt st e1 = Some st1 -> In s' (crash_states (open_all o e1) st1 e2) -> In s' (crash_states o st (e1 ++ e2)).
  Proof.
    induction e1 as [|e r IH]; intros e2 o st st1 s' Hr H.
    - cbn in Hr. inversion Hr; subst. exact H.
    - cbn [run_opt] in Hr. cbn [app crash_states]. apply in_or_app. right.
      destruct (step st e) as [st'|]; [|discriminate]. now apply (IH e2 _ st' st1).
  Qed.
  Lemma crash_states_head : forall o st effs s', In s' (crash_variants o st) -> In s' (crash_states o st effs).
  Proof. intros o st effs s' H. destruct effs; cbn [crash_states]; apply in_or_app; now left. Qed.

  (* the write loop and the flush: the file holds a prefix of what was handed over so far *)
  Lemma writes_sound : forall p bs buf fs s', fs_read p fs = Some (Clean []) ->
    In s' (crash_states (Some p) (fs, buf) (map (EWrite p) bs ++ [EFlush p])) ->
    (exists c, fs_read p s' = Some c /\ in_pv [] (buf ++ concat bs) c) /\ forall q, q <> p -> fs_read q s' = fs_read q fs.
  Proof.
    intros p bs. induction bs as [|b bs IH]; intros buf fs s' Hr H.
    - cbn [map app crash_states concat] in H. rewrite app_nil_r. apply in_app_or in H. destruct H as [H|H].
      + now apply (crash_variants_spec p fs buf []).
      + cbn [step] in H. rewrite app_nil_r, crash_variants_nobuf in H. destruct H as [H|[]]. subst s'.
        rewrite Hr. cbn [app_content app]. split.
        * exists (Clean buf). split; [apply fs_read_write_same|]. exists buf, []. split; [now rewrite app_nil_r|now left].
        * intros q Hq. now apply fs_read_write_other.
    - cbn [map app crash_states concat] in H. apply in_app_or in H. destruct H as [H|H].
      + destruct (crash_variants_spec p fs buf [] s' Hr H) as [[c [H1 H2]] H3]. split; [|exact H3].
        exists c. split; [exact H1|now apply in_pv_extend].
      + cbn [step open_after] in H. destruct (IH (buf ++ b) fs s' Hr H) as [[c [H1 H2]] H3]. split; [|exact H3].
        exists c. split; [exact H1|]. cbn [concat]. now rewrite app_assoc.
  Qed.

  Lemma open_all_writes : forall p bs o, open_all o (map (EWrite p) bs) = o.
  Proof. intros p bs. induction bs as [|b bs IH]; intro o; [reflexivity|]. cbn [map open_all open_after]. apply IH. Qed.
  Lemma open_all_write_phase : forall q ws o, open_all o (write_phase q ws) = Some q.
  Proof. intros q ws o. unfold write_phase. cbn [open_all open_after]. rewrite writes_concat. apply open_all_writes. Qed.

  Lemma read_after_create_same : forall q s, fs_read q (after_create q s) = Some (Clean []).
  Proof. intros. unfold after_create. apply fs_read_write_same. Qed.
  Lemma read_after_create_other : forall q q' s, q' <> q -> fs_read q' (after_create q s) = fs_read q' s.
  Proof. intros q q' s H. unfold after_create. rewrite fs_read_write_other by exact H. apply read_with_dir. Qed.

  (* every crash state of the create-write-flush protocol (save_dict before 87b8642; now applied to the
     temporary sibling): the file is as before, or a prefix of the new content;
     no other file changes *)
  Lemma partial_crash_sound : forall p ws s s',
    In s' (crash_states None (s, []) (save_effects_old p ws)) ->
    (fs_read p s' = fs_read p s \/ exists c, fs_read p s' = Some c /\ in_pv [] (serialize ws) c)
    /\ forall q, q <> p -> fs_read q s' = fs_read q s.
  Proof.
    intros p ws s s' H. unfold save_effects_old in H. cbn [crash_states] in H.
    rewrite crash_variants_nobuf in H. destruct H as [H|H]; [subst s'; split; [now left|reflexivity]|].
    cbn [step] in H. fold (with_dir (parent p) s) in H. rewrite crash_variants_nobuf in H.
    destruct H as [H|H]; [subst s'; split; [now left|reflexivity]|].
    rewrite has_dir_with in H. cbn [open_after] in H. fold (after_create p s) in H.
    rewrite writes_concat in H.
    destruct (writes_sound p _ [] (after_create p s) s' (read_after_create_same p s) H) as [[c [H1 H2]] H3].
    cbn [app] in H2. rewrite concat_pieces in H2. split.
    - right. now exists c.
    - intros q Hq. rewrite H3 by exact Hq. now apply read_after_create_other.
  Qed.

  Lemma partial_crash_complete : forall p ws s c, in_pv [] (serialize ws) c ->
    exists s', In s' (crash_states None (s, []) (save_effects_old p ws)) /\ fs_read p s' = Some c.
  Proof.
    intros p ws s c H. change (save_effects_old p ws) with (write_phase p ws ++ [EFlush p]).
    destruct (serialize ws) as [|b t] eqn:E.
    - apply in_pv_nil in H. subst c. exists (after_create p s). split; [|apply read_after_create_same].
      apply (crash_states_app_intro _ _ _ _ _ _ (run_write_phase p ws s)). rewrite E.
      apply crash_states_head. rewrite crash_variants_nobuf. now left.
    - exists (fs_write p c (after_create p s)). split; [|apply fs_read_write_same].
      apply (crash_states_app_intro _ _ _ _ _ _ (run_write_phase p ws s)). rewrite E, open_all_write_phase.
      apply crash_states_head. cbn [crash_variants]. rewrite read_after_create_same.
      apply in_map_iff. exists c. split; [reflexivity|]. now apply pv_spec.
  Qed.

  (* the decision function used by the model driver *)
  Lemma strip_prefix_spec : forall a b r, strip_prefix a b = Some r <-> b = a ++ r.
  Proof.
    induction a as [|x a IH]; intros b r; cbn [strip_prefix app].
    - split; intro H; [now inversion H|now subst].
    - destruct b as [|y b]; [split; intro H; discriminate|].
      destruct (N.eqb x y) eqn:E.
      + apply N.eqb_eq in E. subst y. rewrite IH. split; intro H; [now subst|now inversion H].
      + split; intro H; [discriminate|]. inversion H; subst. rewrite N.eqb_refl in E. discriminate.
  Qed.
  Lemma content_eqb_eq : forall a b, content_eqb a b = true <-> a = b.
  Proof.
    intros [x|x] [y|y]; cbn [content_eqb]; split; intro H; try discriminate;
      try (apply weqb_eq in H; now subst); inversion H; apply weqb_refl.
  Qed.
  Lemma ocontent_eqb_eq : forall a b, ocontent_eqb a b = true <-> a = b.
  Proof.
    intros [x|] [y|]; cbn [ocontent_eqb]; split; intro H; try discriminate; try reflexivity.
    - apply content_eqb_eq in H. now subst.
    - inversion H. now apply content_eqb_eq.
  Qed.
  Lemma partial_possibleb_pv : forall old total obs,
    partial_possibleb old total obs = true <-> obs = old \/ exists c, obs = Some c /\ in_pv [] total c.
  Proof.
    intros old total obs. unfold partial_possibleb. rewrite orb_true_iff, ocontent_eqb_eq. split.
    - intros [H|H]; [now left|right]. destruct obs as [[t|t]|]; [| |discriminate].
      + destruct (strip_prefix t total) as [r|] eqn:E; [|discriminate]. apply strip_prefix_spec in E.
        exists (Clean t). split; [reflexivity|]. exists t, r. split; [exact E|now left].
      + destruct (strip_prefix t total) as [[|x r]|] eqn:E; try discriminate. apply strip_prefix_spec in E.
        exists (Torn t). split; [reflexivity|]. exists t, (x :: r). split; [exact E|right]. split; [reflexivity|].
        exists x, r. split; [reflexivity|]. now apply negb_true_iff in H.
    - intros [H|[c [H1 [pre [post [E H2]]]]]]; [now left|right]. subst obs. cbn [app] in H2.
      destruct H2 as [H2|[H2 [x [post' [E2 Hx]]]]]; subst c.
      + assert (S : strip_prefix pre total = Some post) by now apply strip_prefix_spec. now rewrite S.
      + assert (S : strip_prefix pre total = Some post) by now apply strip_prefix_spec. rewrite S. subst post.
        now rewrite Hx.
  Qed.

  Lemma partial_possibleb_spec : forall p ws s obs,
    partial_possibleb (fs_read p s) (serialize ws) obs = true <->
    exists s', In s' (crash_states None (s, []) (save_effects_old p ws)) /\ fs_read p s' = obs.
  Proof.
    intros p ws s obs. rewrite partial_possibleb_pv. split.
    - intros [H|[c [H1 H2]]].
      + subst obs. exists s. split; [|reflexivity]. apply crash_states_head. rewrite crash_variants_nobuf. now left.
      + subst obs. now apply partial_crash_complete.
    - intros [s' [H1 H2]]. subst obs. destruct (partial_crash_sound p ws s s' H1) as [[H|[c [Hc Hpv]]] _].
      + now left.
      + right. now exists c.
  Qed.

  (* ---------------------------------------------------------------------------------------------- *)
  (*  save_dict as written now: temporary sibling, flush, sync_all, rename                            *)
  (* ---------------------------------------------------------------------------------------------- *)
  Lemma crash_states_app_left : forall e1 e2 o st s',
    In s' (crash_states o st e1) -> In s' (crash_states o st (e1 ++ e2)).
  Proof.
    induction e1 as [|e r IH]; intros e2 o st s' H.
    - cbn [crash_states] in H. rewrite app_nil_r in H. now apply crash_states_head.
    - cbn [app crash_states] in *. apply in_app_or in H. apply in_or_app. destruct H as [H|H]; [now left|right].
      destruct (step st e) as [st'|]; [now apply IH|contradiction].
  Qed.
  Lemma in_pv_full : forall t, in_pv [] t (Clean t).
  Proof. intro t. exists t, []. split; [now rewrite app_nil_r|now left]. Qed.

  (* every crash state of save_dict: the dictionary is as before and its temporary sibling is as before or
     holds a prefix of the new text; or the dictionary holds the complete new text and the sibling is gone.
     No other file changes. *)
  Lemma save_crash_sound : forall p ws s s',
    In s' (crash_states None (s, []) (save_effects p ws)) ->
    ((fs_read p s' = fs_read p s /\
      (fs_read (TmpP p) s' = fs_read (TmpP p) s \/ exists c, fs_read (TmpP p) s' = Some c /\ in_pv [] (serialize ws) c))
     \/ (fs_read p s' = Some (Clean (serialize ws)) /\ fs_read (TmpP p) s' = None))
    /\ forall q, q <> p -> q <> TmpP p -> fs_read q s' = fs_read q s.
  Proof.
    intros p ws s s' H. rewrite save_effects_eq in H.
    apply crash_states_app_in in H. destruct H as [H|[st1 [Hr H]]].
    - destruct (partial_crash_sound (TmpP p) ws s s' H) as [Ht Hf]. split.
      + left. split; [apply Hf, tmp_neq'|exact Ht].
      + intros q H1 H2. now apply Hf.
    - change (save_effects_old (TmpP p) ws) with (write_phase (TmpP p) ws ++ [EFlush (TmpP p)]) in Hr.
      rewrite run_flush in Hr. inversion Hr; subst st1. clear Hr.
      assert (Hfl : (fs_read p (after_flush (TmpP p) ws s) = fs_read p s /\
                (fs_read (TmpP p) (after_flush (TmpP p) ws s) = fs_read (TmpP p) s \/
                 exists c, fs_read (TmpP p) (after_flush (TmpP p) ws s) = Some c /\ in_pv [] (serialize ws) c))).
      { split; [apply read_after_flush_other, tmp_neq'|right]. exists (Clean (serialize ws)).
        split; [apply read_after_flush_same|apply in_pv_full]. }
      cbn [crash_states step] in H. rewrite !crash_variants_nobuf in H. rewrite read_after_flush_same in H.
      rewrite crash_variants_nobuf in H. cbn [app In] in H.
      destruct H as [H|[H|[H|[]]]]; subst s'.
      + split; [now left|]. intros q H1 H2. now apply read_after_flush_other.
      + split; [now left|]. intros q H1 H2. now apply read_after_flush_other.
      + fold (renamed p (after_flush (TmpP p) ws s) (Clean (serialize ws))). split.
        * right. split; [apply read_renamed_same|apply read_renamed_tmp].
        * intros q H1 H2. rewrite read_renamed_other by assumption. now apply read_after_flush_other.
  Qed.

  (* the dictionary file itself: old or complete new content at every crash point *)
  Theorem crash_save : forall p ws s s',
    In s' (crash_states None (s, []) (save_effects p ws)) ->
    fs_read p s' = fs_read p s \/ fs_read p s' = Some (Clean (serialize ws)).
  Proof.
    intros p ws s s' H. destruct (save_crash_sound p ws s s' H) as [[[H1 _]|[H1 _]] _]; [now left|now right].
  Qed.

  Lemma save_final_state : forall p ws s, In (after_save p ws s) (crash_states None (s, []) (save_effects p ws)).
  Proof.
    intros p ws s. rewrite <- (app_nil_r (save_effects p ws)).
    apply (crash_states_app_intro _ _ _ _ _ _ (run_save p ws s)). cbn [crash_states].
    rewrite crash_variants_nobuf. now left.
  Qed.

  (* the decision function used by the model driver on what a real crash left on disk *)
  Theorem crash_possibleb_spec : forall p ws s obs obstmp,
    crash_possibleb (fs_read p s) (fs_read (TmpP p) s) (serialize ws) obs obstmp = true <->
    exists s', In s' (crash_states None (s, []) (save_effects p ws)) /\ fs_read p s' = obs /\ fs_read (TmpP p) s' = obstmp.
  Proof.
    intros p ws s obs obstmp. unfold crash_possibleb. rewrite orb_true_iff, !andb_true_iff, !ocontent_eqb_eq. split.
    - intros [[H1 H2]|[H1 H2]].
      + apply (partial_possibleb_spec (TmpP p) ws s obstmp) in H2. destruct H2 as [s' [Hin Hr]].
        exists s'. split; [rewrite save_effects_eq; now apply crash_states_app_left|]. split; [|exact Hr].
        subst obs. destruct (partial_crash_sound (TmpP p) ws s s' Hin) as [_ Hf]. apply Hf, tmp_neq'.
      + subst obs obstmp. exists (after_save p ws s). split; [apply save_final_state|].
        split; [apply read_after_save_same|apply read_renamed_tmp].
    - intros [s' [Hin [H1 H2]]]. subst obs obstmp.
      destruct (save_crash_sound p ws s s' Hin) as [[[Ha Hb]|[Ha Hb]] _].
      + left. split; [exact Ha|]. apply partial_possibleb_pv. destruct Hb as [Hb|[c [Hc Hpv]]]; [now left|right].
        now exists c.
      + right. now split.
  Qed.

  (* reading back a file that holds the complete serialisation of a dictionary *)
  Lemma load_serialized : forall p s' D, dict_wf D -> Forall line_safe (words_of D) ->
    fs_read p s' = Some (Clean (serialize (words_iter D))) ->
    exists d', load_dict p s' = Some d' /\ dict_equiv d' D /\ Forall line_safe (words_of d').
  Proof.
    intros p s' D Hwf Hsafe H.
    assert (Hs : Forall line_safe (words_iter D)).
    { apply Forall_forall. intros x Hx. apply (Permutation_in _ (iter_perm _)) in Hx.
      now apply (proj1 (Forall_forall _ _) Hsafe). }
    exists (extend_words [] (words_iter D)). split; [|split].
    - unfold DictIO.load_dict. rewrite H. unfold DictIO.dict_from_word_list. now rewrite lines_serialize.
    - apply extend_perm_equiv; [exact Hwf|apply iter_perm].
    - apply Forall_forall. intros w Hw. apply extend_words_in in Hw. destruct Hw as [Hw|[]].
      now apply (proj1 (Forall_forall _ _) Hs).
  Qed.

  (* a crash during an add loses at most the word being added *)
  Theorem add_crash : forall p w s s', fs_ok s -> is_tmp p = false -> line_safe w ->
    In s' (crash_states None (s, []) (save_effects p (words_iter (append_word (dict_at p s) w)))) ->
    dict_at p s' = dict_at p s \/ dict_equiv (dict_at p s') (append_word (dict_at p s) w).
  Proof.
    intros p w s s' Hok Hp Hw H. apply crash_save in H. destruct H as [H|H].
    - left. unfold DictIO.dict_at, DictIO.load_dict. now rewrite H.
    - right. set (D := append_word (dict_at p s) w) in *.
      assert (HwfD : dict_wf D) by (apply wf_append, wf_dict_at).
      assert (HsD : Forall line_safe (words_of D)) by now apply safe_appended.
      destruct (load_serialized p s' D HwfD HsD H) as [d' [Hl [He _]]].
      unfold DictIO.dict_at at 1. now rewrite Hl.
  Qed.


  (* ---------------------------------------------------------------------------------------------- *)
  (*  histories: adds, checks, restarts and adds that die at an arbitrary crash point                  *)
  (* ---------------------------------------------------------------------------------------------- *)
  Definition op_safe (o : op) : Prop :=
    match o with AddWord _ w => line_safe w | CrashAdd _ w _ => line_safe w | _ => True end.
  (* the add an operation performs (completely, or up to some crash point) *)
  Definition op_add (o : op) : option (scope * word) :=
    match o with AddWord sc w => Some (sc, w) | CrashAdd sc w _ => Some (sc, w) | _ => None end.
  (* the dictionary at p has, at w's id, w itself or w with another kind of apostrophe *)
  Definition has_word (p : path) (w : word) (s : fsys) : Prop :=
    exists c, lookup (wid w) (dict_at p s) = Some (c, true) /\ normalized c = normalized w.

  Lemma run_fs_cons : forall s o r, run_fs s (o :: r) = run_fs (fst (step_op s o)) r.
  Proof.
    intros s o r. unfold DictIO.run_fs. cbn [DictIO.run]. destruct (step_op s o) as [s' out]. cbn [fst].
    destruct (run s' r). reflexivity.
  Qed.
  Lemma run_fs_app : forall h1 h2 s, run_fs s (h1 ++ h2) = run_fs (run_fs s h1) h2.
  Proof.
    induction h1 as [|o r IH]; intros h2 s; [reflexivity|]. cbn [app]. rewrite !run_fs_cons. apply IH.
  Qed.

  Lemma target_not_tmp : forall sc p, target sc = Some p -> is_tmp p = false.
  Proof.
    intros [|u] p H; cbn [target] in H.
    - now inversion H.
    - destruct (file_dict_name u); inversion H. reflexivity.
  Qed.

  (* what one operation does to the disk *)
  Lemma step_no_add : forall s o, op_add o = None -> fst (step_op s o) = s.
  Proof. intros s [sc w|u toks| |sc w i] H; try discriminate; reflexivity. Qed.
  Lemma step_no_target : forall s o sc w, op_add o = Some (sc, w) -> target sc = None -> fst (step_op s o) = s.
  Proof.
    intros s [sc' w'|u toks| |sc' w' i] sc w H Ht; inversion H; subst; cbn [DictIO.step_op fst].
    - unfold DictIO.add_word. now rewrite Ht.
    - unfold add_crash_states, DictIO.add_word. rewrite Ht. destruct i as [|[|i]]; reflexivity.
  Qed.
  Lemma step_add_spec : forall s o sc w p, op_add o = Some (sc, w) -> target sc = Some p -> fs_ok s -> line_safe w ->
    (dict_at p (fst (step_op s o)) = dict_at p s \/
     dict_equiv (dict_at p (fst (step_op s o))) (append_word (dict_at p s) w))
    /\ fs_ok (fst (step_op s o))
    /\ forall q, q <> p -> q <> TmpP p -> load_dict q (fst (step_op s o)) = load_dict q s.
  Proof.
    intros s o sc w p Ho Ht Hok Hw. assert (Hp : is_tmp p = false) by now apply (target_not_tmp sc).
    assert (Hadd : (dict_at p (add_word sc w s) = dict_at p s \/
                    dict_equiv (dict_at p (add_word sc w s)) (append_word (dict_at p s) w))
                   /\ fs_ok (add_word sc w s)
                   /\ forall q, q <> p -> q <> TmpP p -> load_dict q (add_word sc w s) = load_dict q s).
    { unfold DictIO.add_word. rewrite Ht. destruct (add_to_spec p w s Hok Hp Hw) as [H1 [H2 H3]].
      split; [now right|]. now split. }
    destruct o as [sc' w'|u toks| |sc' w' i]; inversion Ho; subst sc' w'; cbn [DictIO.step_op fst]; [exact Hadd|].
    destruct (nth_in_or_default i (add_crash_states is_lower lower iter_order sc w s) (add_word sc w s)) as [Hin|Hd];
      [|rewrite Hd; exact Hadd].
    set (s' := nth i (add_crash_states is_lower lower iter_order sc w s) (add_word sc w s)) in *.
    unfold add_crash_states in Hin. rewrite Ht in Hin.
    set (D := append_word (dict_at p s) w) in *.
    assert (HwfD : dict_wf D) by (apply wf_append, wf_dict_at).
    assert (HsD : Forall line_safe (words_of D)) by now apply safe_appended.
    destruct (save_crash_sound p _ s s' Hin) as [Hcases Hoth].
    assert (Hothl : forall q, q <> p -> q <> TmpP p -> load_dict q s' = load_dict q s).
    { intros q H1 H2. unfold DictIO.load_dict. now rewrite Hoth. }
    split; [now apply add_crash|]. split; [|exact Hothl].
    intros q d Hq Hl. destruct (path_eqb q p) eqn:E.
    - apply path_eqb_eq in E. subst q. destruct Hcases as [[Ha _]|[Ha _]].
      + apply (Hok p d Hp). unfold DictIO.load_dict in *. now rewrite <- Ha.
      + destruct (load_serialized p s' D HwfD HsD Ha) as [d' [Hl' [_ Hs']]]. rewrite Hl' in Hl.
        inversion Hl; now subst.
    - assert (q <> p) by (intro; subst; rewrite path_eqb_refl in E; discriminate).
      rewrite Hothl in Hl; [now apply (Hok q)|assumption|now apply not_tmp_neq].
  Qed.

  Lemma step_ok : forall s o, fs_ok s -> op_safe o -> fs_ok (fst (step_op s o)).
  Proof.
    intros s o H Ho. destruct (op_add o) as [[sc w]|] eqn:Ea; [|now rewrite step_no_add].
    destruct (target sc) as [p|] eqn:Ht; [|now rewrite (step_no_target s o sc w)].
    assert (Hw : line_safe w) by (destruct o; inversion Ea; subst; exact Ho).
    now destruct (step_add_spec s o sc w p Ea Ht H Hw) as [_ [H2 _]].
  Qed.
  Lemma run_ok : forall h s, fs_ok s -> Forall op_safe h -> fs_ok (run_fs s h).
  Proof.
    induction h as [|o r IH]; intros s H Hh; [exact H|]. inversion Hh; subst. rewrite run_fs_cons.
    apply IH; [now apply step_ok|assumption].
  Qed.

  Lemma add_establishes : forall sc w s p, fs_ok s -> line_safe w -> target sc = Some p ->
    has_word p w (add_word sc w s).
  Proof.
    intros sc w s p H Hw Ht. unfold has_word, DictIO.add_word. rewrite Ht.
    destruct (add_to_spec p w s H (target_not_tmp _ _ Ht) Hw) as [He _]. exists w. rewrite He.
    unfold DictIO.append_word. split; [apply lookup_insert_same|reflexivity].
  Qed.

  (* a later operation keeps the word, unless it adds (or dies adding) to the same file a spelling with the
     same id that differs from w in more than the kind of apostrophe *)
  Lemma step_keeps : forall p w s o, is_tmp p = false -> fs_ok s -> op_safe o -> has_word p w s ->
    (forall sc' w', op_add o = Some (sc', w') -> target sc' = Some p -> wid w' = wid w -> normalized w' = normalized w) ->
    has_word p w (fst (step_op s o)).
  Proof.
    intros p w s o Hp H Ho Hh Hcol. destruct (op_add o) as [[sc w']|] eqn:Ea; [|now rewrite step_no_add].
    destruct (target sc) as [p'|] eqn:Ht; [|now rewrite (step_no_target s o sc w')].
    assert (Hw : line_safe w') by (destruct o; inversion Ea; subst; exact Ho).
    destruct (step_add_spec s o sc w' p' Ea Ht H Hw) as [Hd [_ Hoth]].
    destruct (path_eqb p' p) eqn:E.
    - apply path_eqb_eq in E. subst p'. unfold has_word. destruct Hd as [Hd|Hd]; [now rewrite Hd|].
      rewrite Hd. unfold DictIO.append_word.
      destruct (weqb (wid w') (wid w)) eqn:Ew.
      + apply weqb_eq in Ew. exists w'. rewrite <- Ew. split; [apply lookup_insert_same|].
        now apply (Hcol sc w').
      + apply weqb_neq in Ew. rewrite lookup_insert_other by congruence. exact Hh.
    - assert (Hne : p <> p') by (intro; subst; rewrite path_eqb_refl in E; discriminate).
      unfold has_word, DictIO.dict_at. rewrite Hoth; [exact Hh|exact Hne|now apply not_tmp_neq].
  Qed.

  Lemma run_keeps : forall p w h s, is_tmp p = false -> fs_ok s -> Forall op_safe h -> has_word p w s ->
    (forall o sc' w', In o h -> op_add o = Some (sc', w') -> target sc' = Some p -> wid w' = wid w ->
       normalized w' = normalized w) ->
    has_word p w (run_fs s h).
  Proof.
    intros p w. induction h as [|o r IH]; intros s Hp H Hh Hw Hcol; [exact Hw|].
    inversion Hh; subst. rewrite run_fs_cons. apply IH.
    - exact Hp.
    - now apply step_ok.
    - assumption.
    - apply step_keeps; try assumption. intros sc' w' E. apply (Hcol o); [now left|exact E].
    - intros o' sc' w' Hin. apply Hcol. now right.
  Qed.

  (* after AddWord sc w, every later check of a document in scope accepts w — across further adds, checks,
     restarts and adds that DIE AT ANY CRASH POINT, provided the two remaining known classes are excluded
     (see the _refuted theorems): a curated entry of another dialect (FC07b), a later add to the same file of
     another spelling with the same case-folded id (F15) *)
  Theorem add_sequential : forall s0 h1 sc w h2 u p,
    fs_ok s0 ->
    Forall op_safe (h1 ++ AddWord sc w :: h2) ->
    (forall e, lookup (wid w) curated = Some e -> snd e = true) ->
    target sc = Some p ->
    (forall o sc' w', In o h2 -> op_add o = Some (sc', w') -> target sc' = Some p -> wid w' = wid w ->
       normalized w' = normalized w) ->
    (p = UserP \/ exists n, file_dict_name u = Some n /\ p = FileP n) ->
    accepted (children (run_fs s0 (h1 ++ AddWord sc w :: h2)) u) w = true.
  Proof.
    intros s0 h1 sc w h2 u p H0 Hsafe Hc Ht Hcol Hscope.
    apply Forall_app in Hsafe. destruct Hsafe as [Hs1 Hs2]. inversion Hs2 as [|? ? Hw Hs3]; subst.
    rewrite run_fs_app, run_fs_cons. cbn [DictIO.step_op fst].
    set (s1 := run_fs s0 h1). assert (H1 : fs_ok s1) by now apply run_ok.
    assert (Hhas : has_word p w (run_fs (add_word sc w s1) h2)).
    { apply run_keeps; try assumption;
        [now apply (target_not_tmp sc)|apply (step_ok s1 (AddWord sc w) H1 Hw)|now apply add_establishes]. }
    destruct Hhas as [c [Hl Hn]].
    unfold DictIO.children. apply (accepted_has _ _ _ c); try assumption; try apply wf_dict_at.
    - unfold DictIO.file_dict. destruct (file_dict_name u); [apply wf_dict_at|apply wf_nil].
    - destruct Hscope as [Hp|[n [Hn1 Hn2]]]; subst p; [now left|right]. unfold DictIO.file_dict. now rewrite Hn1.
  Qed.

  (* a word added to the dictionary of one file leaves the checks of every document with another
     dictionary file exactly as they were *)
  Theorem file_scope : forall u0 n w s u toks,
    file_dict_name u0 = Some n -> file_dict_name u <> Some n ->
    lint (add_word (SFile u0) w s) u toks = lint s u toks.
  Proof.
    intros u0 n w s u toks H0 Hu. unfold DictIO.lint, DictIO.children, DictIO.add_word. cbn [target]. rewrite H0.
    rewrite dict_at_other by discriminate.
    assert (E : file_dict u (add_to (FileP n) w s) = file_dict u s).
    { unfold DictIO.file_dict. destruct (file_dict_name u) as [n'|]; [|reflexivity].
      apply dict_at_other; [|discriminate]. intro E. inversion E. subst. now apply Hu. }
    now rewrite E.
  Qed.

  (* ... and an add changes the verdict on no word with another id *)
  Theorem other_words_unchanged : forall sc w s u t,
    fs_ok s -> line_safe w ->
    wid t <> wid w -> wid (to_lower t) <> wid w ->
    accepted (children (add_word sc w s) u) t = accepted (children s u) t.
  Proof.
    intros sc w s u t H Hw H1 H2. unfold DictIO.children, DictIO.add_word.
    destruct (target sc) as [p|] eqn:Ht; [|reflexivity].
    assert (Hp : is_tmp p = false) by now apply (target_not_tmp sc).
    assert (Hk : forall q k, is_tmp q = false -> k = wid t \/ k = wid (to_lower t) ->
                 lookup k (dict_at q (add_to p w s)) = lookup k (dict_at q s)).
    { intros q k Hq Hk. destruct (path_eqb q p) eqn:E.
      - apply path_eqb_eq in E. subst q. destruct (add_to_spec p w s H Hp Hw) as [He _]. rewrite He.
        unfold DictIO.append_word. apply lookup_insert_other. destruct Hk; subst k; congruence.
      - assert (q <> p) by (intro; subst; rewrite path_eqb_refl in E; discriminate).
        rewrite dict_at_other; [reflexivity|assumption|now apply not_tmp_neq]. }
    apply accepted_agree.
    - intros k Hkk. now apply Hk.
    - intros k Hkk. unfold DictIO.file_dict. destruct (file_dict_name u); [now apply Hk|reflexivity].
  Qed.


  (* ---------------------------------------------------------------------------------------------- *)
  (*  the per-document linter cache is transparent                                                    *)
  (* ---------------------------------------------------------------------------------------------- *)
  (* two well-formed dictionaries with the same words (as multisets) are the same map *)
  Lemma perm_words_equiv : forall U U', dict_wf U -> dict_wf U' ->
    Permutation (words_of U) (words_of U') -> dict_equiv U U'.
  Proof.
    assert (Hone : forall U U', dict_wf U -> dict_wf U' -> Permutation (words_of U) (words_of U') ->
               forall k e, lookup k U = Some e -> lookup k U' = Some e).
    { intros U U' [ND H] HU' P k [c b] L. pose proof (lookup_in _ _ _ L) as Hin.
      destruct (H k (c, b) Hin) as [Hk Hb]. cbn in Hk, Hb. subst b k.
      assert (Hc : In c (words_of U')).
      { apply (Permutation_in _ P). unfold words_of. apply in_map_iff. exists (wid c, (c, true)). now split. }
      apply (wf_word_key _ _ HU') in Hc. apply in_lookup; [apply HU'|exact Hc]. }
    intros U U' HU HU' P k. destruct (lookup k U) as [e|] eqn:L.
    - symmetry. now apply (Hone U U').
    - destruct (lookup k U') as [e|] eqn:L'; [|reflexivity].
      apply (Hone U' U HU' HU (Permutation_sym P)) in L'. congruence.
  Qed.
  Lemma child_hash_perm : forall U U', child_hash_eqb (child_words iter_order U) (child_words iter_order U') = true ->
    Permutation (words_of U) (words_of U').
  Proof.
    intros U U' H. unfold child_hash_eqb, child_words, DictIO.words_iter in H. apply perm_ofb_spec in H.
    eapply Permutation_trans; [apply Permutation_sym, iter_perm|]. eapply Permutation_trans; [exact H|apply iter_perm].
  Qed.

  Definition good_children (cs : list dict) : Prop :=
    exists U F, cs = [curated; U; F] /\ dict_wf U /\ dict_wf F.
  Definition cache_ok (c : cache) : Prop := Forall (fun e => good_children (snd e)) c.

  Lemma children_good : forall s u, good_children (children s u).
  Proof.
    intros s u. exists (dict_at UserP s), (file_dict u s). split; [reflexivity|]. split; [apply wf_dict_at|].
    unfold DictIO.file_dict. destruct (file_dict_name u); [apply wf_dict_at|apply wf_nil].
  Qed.
  Lemma cache_get_good : forall u c cs, cache_ok c -> cache_get u c = Some cs -> good_children cs.
  Proof.
    intros u c cs H. induction H as [|[u' cs'] t Hg Ht IH]; cbn [cache_get]; [discriminate|].
    destruct (url_eqb u u'); [intro E; inversion E; now subst|exact IH].
  Qed.
  Lemma cache_set_ok : forall u cs c, cache_ok c -> good_children cs -> cache_ok (cache_set u cs c).
  Proof.
    intros u cs c H Hg. unfold cache_set. constructor; [exact Hg|]. apply Forall_forall. intros e He.
    apply filter_In in He. destruct He as [He _]. now apply (proj1 (Forall_forall _ _) H).
  Qed.

  (* the children the cached linter was built with decide every token as the freshly loaded ones do *)
  Lemma cached_children_spec : forall c s u, cache_ok c ->
    good_children (cached_children is_lower lower curated iter_order c s u) /\
    forall t, accepted (cached_children is_lower lower curated iter_order c s u) t = accepted (children s u) t.
  Proof.
    intros c s u Hc. unfold cached_children.
    destruct (cache_get u c) as [old|] eqn:G; [|split; [apply children_good|reflexivity]].
    destruct (hashes_eqb iter_order old (children s u)) eqn:Hh; [|split; [apply children_good|reflexivity]].
    pose proof (cache_get_good u c old Hc G) as Hold. split; [exact Hold|].
    destruct Hold as [U [F [E [HU HF]]]]. destruct (children_good s u) as [U' [F' [E' [HU' HF']]]].
    rewrite E' in *. subst old. cbn [hashes_eqb] in Hh. apply andb_true_iff in Hh. destruct Hh as [H1 H2].
    apply child_hash_perm in H1. apply child_hash_perm in H2.
    pose proof (perm_words_equiv U U' HU HU' H1) as E1. pose proof (perm_words_equiv F F' HF HF' H2) as E2.
    intro t. apply accepted_agree; intros k _; [apply E1|apply E2].
  Qed.

  Theorem cache_transparent : forall h s c, cache_ok c ->
    snd (run_cached is_lower lower curated iter_order (s, c) h) = snd (run s h) /\
    fst (fst (run_cached is_lower lower curated iter_order (s, c) h)) = fst (run s h).
  Proof.
    induction h as [|o r IH]; intros s c Hc; [split; reflexivity|].
    cbn [run_cached DictIO.run].
    assert (Hstep : exists c', cache_ok c' /\
              step_op_cached is_lower lower curated iter_order (s, c) o = ((fst (step_op s o), c'), snd (step_op s o))).
    { destruct o as [sc w|u toks| |sc w i]; cbn [step_op_cached DictIO.step_op fst snd].
      - exists c. now split.
      - destruct (cached_children_spec c s u Hc) as [Hg Ha].
        exists (cache_set u (cached_children is_lower lower curated iter_order c s u) c).
        split; [now apply cache_set_ok|]. f_equal. unfold DictIO.lint. apply map_ext. intro t. now rewrite Ha.
      - exists []. split; [constructor|reflexivity].
      - exists []. split; [constructor|reflexivity]. }
    destruct Hstep as [c' [Hc' Hs]]. rewrite Hs. destruct (step_op s o) as [s1 out]. cbn [fst snd].
    destruct (IH s1 c' Hc') as [H1 H2].
    destruct (run_cached is_lower lower curated iter_order (s1, c') r) as [st'' outs].
    destruct (run s1 r) as [s'' outs']. cbn [fst snd] in *. split; [now f_equal|exact H2].
  Qed.

  (* a server started with no document open answers every check as if it built a new linter each time *)
  Corollary cache_transparent_fresh : forall h s,
    snd (run_cached is_lower lower curated iter_order (s, []) h) = snd (run s h) /\
    fst (fst (run_cached is_lower lower curated iter_order (s, []) h)) = run_fs s h.
  Proof. intros h s. apply cache_transparent. constructor. Qed.

  (* ---------------------------------------------------------------------------------------------- *)
  (*  add commands under the lock: every schedule is some sequential order                            *)
  (* ---------------------------------------------------------------------------------------------- *)
  Definition add_cmd (cmds : list cmd) (s : fsys) (i : nat) : fsys :=
    add_word (fst (cmd_at cmds i)) (snd (cmd_at cmds i)) s.
  Definition linv (cmds : list cmd) (s0 : fsys) (st : lstate) : Prop :=
    let '(s, holder, ord) := st in
    s = fold_left (add_cmd cmds) ord s0 /\ NoDup ord /\
    match holder with
    | Some (j, d) => d = cmd_load is_lower lower (cmd_at cmds j) s /\ ~ In j ord
    | None => True
    end.
  Lemma finished_in : forall i ord, finished i ord = true <-> In i ord.
  Proof.
    intros i ord. unfold finished. rewrite existsb_exists. split.
    - intros [x [Hin E]]. apply Nat.eqb_eq in E. now subst.
    - intro H. exists i. split; [exact H|apply Nat.eqb_refl].
  Qed.
  Lemma cmd_save_load : forall c s,
    cmd_save is_lower lower iter_order c (cmd_load is_lower lower c s) s = add_word (fst c) (snd c) s.
  Proof.
    intros [sc w] s. unfold cmd_save, cmd_load, DictIO.add_word, DictIO.add_to. cbn [fst snd].
    now destruct (target sc).
  Qed.
  Lemma lstep_inv : forall cmds s0 st i, linv cmds s0 st -> linv cmds s0 (lstep is_lower lower iter_order cmds st i).
  Proof.
    intros cmds s0 [[s holder] ord] i [Hs [Hnd Hh]]. unfold lstep.
    destruct (finished i ord) eqn:Ef; [now repeat split|].
    assert (Hni : ~ In i ord) by (intro H; apply finished_in in H; congruence).
    destruct holder as [[j d]|].
    - destruct (Nat.eqb j i) eqn:Ej; [|now repeat split].
      apply Nat.eqb_eq in Ej. subst j. destruct Hh as [Hd _]. subst d. rewrite cmd_save_load.
      split; [|split; [|exact I]].
      + rewrite fold_left_app. cbn [fold_left]. now rewrite <- Hs.
      + apply (Permutation_NoDup (Permutation_cons_append ord i)). now constructor.
    - split; [exact Hs|]. split; [exact Hnd|]. now split.
  Qed.
  (* whatever the schedule: the disk is the result of the finished commands executed one after the other in
     the order in which they finished, no command finishes twice, and a command that holds the lock has loaded
     the dictionary as it is on disk now (nobody wrote in between) *)
  Theorem locked_adds_serial : forall cmds s0 sched,
    let '(s, holder, ord) := run_locked is_lower lower iter_order cmds s0 sched in
    s = run_fs s0 (map (fun i => AddWord (fst (cmd_at cmds i)) (snd (cmd_at cmds i))) ord) /\ NoDup ord /\
    match holder with
    | Some (j, d) => d = cmd_load is_lower lower (cmd_at cmds j) s /\ ~ In j ord
    | None => True
    end.
  Proof.
    intros cmds s0 sched.
    assert (Hinv : linv cmds s0 (run_locked is_lower lower iter_order cmds s0 sched)).
    { unfold run_locked. assert (H0 : linv cmds s0 (s0, None, [])) by (repeat split; constructor).
      revert H0. generalize (s0, @None (nat * dict), @nil nat). induction sched as [|i r IH]; intros st H; [exact H|].
      cbn [fold_left]. apply IH. now apply lstep_inv. }
    destruct (run_locked is_lower lower iter_order cmds s0 sched) as [[s holder] ord].
    destruct Hinv as [Hs [Hnd Hh]]. split; [|now split]. rewrite Hs. clear.
    revert s0. induction ord as [|i r IH]; intro s0; [reflexivity|].
    cbn [map fold_left]. rewrite run_fs_cons. cbn [DictIO.step_op fst]. apply IH.
  Qed.
  (* a schedule that polls every command often enough finishes them all: two polls per command in a row
     are enough *)
  Lemma locked_adds_complete : forall cmds s0 n,
    n = length cmds ->
    snd (run_locked is_lower lower iter_order cmds s0 (flat_map (fun i => [i; i]) (seq 0 n))) = seq 0 n.
  Proof.
    intros cmds s0 n _. unfold run_locked.
    assert (H : forall k m s ord, (forall i, In i ord -> i < k) ->
               exists s', fold_left (lstep is_lower lower iter_order cmds) (flat_map (fun i => [i; i]) (seq k m)) (s, None, ord)
                          = (s', None, ord ++ seq k m)).
    { intros k m. revert k. induction m as [|m IH]; intros k s ord Hlt.
      - exists s. cbn. now rewrite app_nil_r.
      - assert (Ef : finished k ord = false).
        { destruct (finished k ord) eqn:E; [|reflexivity]. apply finished_in, Hlt in E. lia. }
        cbn [seq flat_map app fold_left].
        replace (lstep is_lower lower iter_order cmds (s, None, ord) k)
          with (s, Some (k, cmd_load is_lower lower (cmd_at cmds k) s), ord) by (unfold lstep; now rewrite Ef).
        replace (lstep is_lower lower iter_order cmds (s, Some (k, cmd_load is_lower lower (cmd_at cmds k) s), ord) k)
          with (cmd_save is_lower lower iter_order (cmd_at cmds k) (cmd_load is_lower lower (cmd_at cmds k) s) s, @None (nat * dict), ord ++ [k])
          by (unfold lstep; now rewrite Ef, Nat.eqb_refl).
        destruct (IH (S k) (cmd_save is_lower lower iter_order (cmd_at cmds k) (cmd_load is_lower lower (cmd_at cmds k) s) s) (ord ++ [k])) as [s' Hs'].
        + intros i Hi. apply in_app_or in Hi. destruct Hi as [Hi|[Hi|[]]]; [apply Hlt in Hi; lia|lia].
        + exists s'. rewrite Hs'. now rewrite <- app_assoc. }
    destruct (H 0 n s0 [] (fun i (Hi : In i []) => match Hi with end)) as [s' Hs']. now rewrite Hs'.
  Qed.

  (* ---------------------------------------------------------------------------------------------- *)
  (*  harper_wasm::Linter: the lint dictionary follows the user dictionary                            *)
  (* ---------------------------------------------------------------------------------------------- *)
  Lemma entry_eqb_eq : forall a b : entry, entry_eqb a b = true -> a = b.
  Proof.
    intros [a1 a2] [b1 b2] H. unfold entry_eqb in H. cbn [fst snd] in H. apply andb_true_iff in H. destruct H as [H1 H2].
    apply weqb_eq in H1. apply Bool.eqb_prop in H2. now subst.
  Qed.
  (* HashMap equality of two maps with distinct keys is extensional equality *)
  Lemma dict_same_equiv : forall a b, NoDup (map fst a) -> NoDup (map fst b) -> dict_same a b = true -> dict_equiv a b.
  Proof.
    intros a b Na Nb H. unfold dict_same in H. apply andb_true_iff in H. destruct H as [Hl Hf].
    apply Nat.eqb_eq in Hl. rewrite forallb_forall in Hf.
    assert (Hab : forall k e, In (k, e) a -> lookup k b = Some e).
    { intros k e Hin. specialize (Hf (k, e) Hin). cbn [fst snd] in Hf. destruct (lookup k b) as [e'|]; [|discriminate].
      apply entry_eqb_eq in Hf. now subst. }
    assert (Hincl : incl (map fst b) (map fst a)).
    { apply NoDup_length_incl; [exact Na|rewrite !map_length; lia|].
      intros k Hk. apply in_map_iff in Hk. destruct Hk as [[k' e] [E Hin]]. cbn in E. subst k'.
      apply Hab, lookup_in in Hin. change k with (fst (k, e)). now apply in_map. }
    intro k. destruct (lookup k a) as [e|] eqn:L.
    - symmetry. apply Hab. now apply lookup_in.
    - destruct (lookup k b) as [e'|] eqn:L'; [|reflexivity]. exfalso.
      apply lookup_in in L'. assert (Hk : In k (map fst a)) by (apply Hincl; change k with (fst (k, e')); now apply in_map).
      apply in_map_iff in Hk. destruct Hk as [[k' e] [E Hin]]. cbn in E. subst k'.
      apply (in_lookup _ _ _ Na) in Hin. congruence.
  Qed.

  Definition wasm_ok (st : wasm) : Prop := dict_wf (w_user st) /\ dict_equiv (w_lint st) (w_user st).
  Lemma wasm_new_ok : wasm_ok wasm_new.
  Proof. split; [apply wf_nil|intro k; reflexivity]. Qed.
  Lemma wasm_import_ok : forall st ws, wasm_ok st -> wasm_ok (import_words is_lower lower st ws).
  Proof.
    intros st ws [Hwf He]. unfold import_words.
    assert (Hwf' : dict_wf (extend_words (w_user st) ws)) by now apply wf_extend.
    destruct (dict_same (extend_words (w_user st) ws) (w_user st)) eqn:E; split; cbn [w_user w_lint]; try exact Hwf'.
    - apply (dict_same_equiv _ _ (proj1 Hwf') (proj1 Hwf)) in E. intro k. now rewrite He, E.
    - intro k. reflexivity.
  Qed.
  Lemma wasm_fold_ok : forall imports st, wasm_ok st -> wasm_ok (fold_left (import_words is_lower lower) imports st).
  Proof.
    induction imports as [|ws r IH]; intros st H; [exact H|]. cbn [fold_left]. apply IH. now apply wasm_import_ok.
  Qed.
  (* after any sequence of imports the linter checks with the dictionary that export_words shows *)
  Theorem wasm_in_sync : forall imports,
    let st := fold_left (import_words is_lower lower) imports wasm_new in
    dict_equiv (w_lint st) (w_user st) /\
    forall toks, wasm_lint is_lower lower curated st toks = map (fun t => negb (accepted [curated; w_user st] t)) toks.
  Proof.
    intro imports. cbn zeta.
    assert (Hok : wasm_ok (fold_left (import_words is_lower lower) imports wasm_new))
      by apply wasm_fold_ok, wasm_new_ok.
    destruct Hok as [_ He]. split; [exact He|]. intro toks. unfold wasm_lint. apply map_ext. intro t. f_equal.
    unfold DictIO.accepted, DictIO.m_contains_exact. cbn [DictIO.m_get_meta existsb].
    unfold DictIO.get_meta, DictIO.contains_exact_word. now rewrite !He.
  Qed.
  (* a word just imported is accepted (unless the curated dictionary lists it for another dialect: FC07b) *)
  Theorem wasm_import_accepts : forall imports ws w,
    let st := import_words is_lower lower (fold_left (import_words is_lower lower) imports wasm_new) ws in
    (forall e, lookup (wid w) curated = Some e -> snd e = true) ->
    (exists pre post, ws = pre ++ w :: post /\ forall w', In w' post -> wid w' = wid w -> normalized w' = normalized w) ->
    wasm_lint is_lower lower curated st [w] = [false].
  Proof.
    intros imports ws w. cbn zeta. intros Hc [pre [post [Ews Hpost]]].
    pose proof (wasm_in_sync (imports ++ [ws])) as Hs. cbn zeta in Hs. rewrite fold_left_app in Hs. cbn [fold_left] in Hs.
    destruct Hs as [_ Hl]. rewrite Hl. cbn [map]. f_equal. apply negb_false_iff.
    set (st0 := fold_left (import_words is_lower lower) imports wasm_new).
    assert (Hu : w_user (import_words is_lower lower st0 ws) = extend_words (w_user st0) ws).
    { unfold import_words. now destruct (dict_same _ _). }
    rewrite Hu.
    assert (Hhas : exists c, lookup (wid w) (extend_words (w_user st0) ws) = Some (c, true) /\ normalized c = normalized w).
    { clear Hu Hl. subst ws. unfold DictIO.extend_words. rewrite fold_left_app. cbn [fold_left].
      fold (extend_words (w_user st0) pre). fold (extend_words (append_word (extend_words (w_user st0) pre) w) post).
      induction post as [|a post IH] using rev_ind.
      - exists w. cbn. unfold DictIO.append_word. split; [apply lookup_insert_same|reflexivity].
      - rewrite extend_snoc. unfold DictIO.append_word at 1.
        assert (Hpost' : forall w', In w' post -> wid w' = wid w -> normalized w' = normalized w).
        { intros w' Hin. apply Hpost. apply in_or_app. now left. }
        destruct (weqb (wid a) (wid w)) eqn:Ea.
        + apply weqb_eq in Ea. exists a. rewrite <- Ea. split; [apply lookup_insert_same|].
          apply Hpost; [apply in_or_app; right; now left|exact Ea].
        + apply weqb_neq in Ea. rewrite lookup_insert_other by congruence. apply IH. exact Hpost'. }
    destruct Hhas as [c [Hl' Hn]].
    assert (Hwf : dict_wf (extend_words (w_user st0) ws)).
    { apply wf_extend. apply (wasm_fold_ok imports wasm_new wasm_new_ok). }
    unfold DictIO.accepted.
    assert (Hex : m_contains_exact [curated; extend_words (w_user st0) ws] w = true).
    { unfold DictIO.m_contains_exact. cbn [existsb]. rewrite (exact_has _ w c Hn Hl'). now rewrite orb_true_r. }
    rewrite Hex. cbn [orb DictIO.m_get_meta]. unfold DictIO.get_meta.
    destruct (lookup (wid w) curated) as [e|] eqn:L1; [rewrite andb_true_r; now apply Hc|].
    rewrite Hl'. reflexivity.
  Qed.

End Proofs.

(* ------------------------------------------------------------------------------------------------ *)
(*  the linter cache of an open document is rebuilt exactly when a child dictionary changed           *)
(* ------------------------------------------------------------------------------------------------ *)
Lemma insert_same_entry : forall k e d, lookup k d = Some e -> insert k e d = d.
Proof.
  intros k e d. induction d as [|[k' e'] t IH]; cbn [lookup insert]; intro H; [discriminate|].
  destruct (weqb k k') eqn:E.
  - apply weqb_eq in E. inversion H. now subst.
  - now rewrite IH.
Qed.
(* the child hash (sum of the per-word hashes, modelled as the multiset of words) of a well-formed
   dictionary changes with EVERY add that changes the dictionary — a new word, or a new spelling of a known
   id — whatever the two iteration orders are; and only then *)
Theorem merge_rebuild : forall (is_lower : N -> bool) (lower : N -> list N) (o1 o2 : list word -> list word),
  (forall l, Permutation (o1 l) l) -> (forall l, Permutation (o2 l) l) ->
  forall (d : dict) (w : word), dict_wf is_lower lower d ->
  (lookup (word_id is_lower lower w) d <> Some (w, true) ->
   child_hash_eqb (child_words o1 d) (child_words o2 (append_word is_lower lower d w)) = false) /\
  (lookup (word_id is_lower lower w) d = Some (w, true) ->
   append_word is_lower lower d w = d /\
   child_hash_eqb (child_words o1 d) (child_words o2 (append_word is_lower lower d w)) = true).
Proof.
  intros is_lower lower o1 o2 P1 P2 d w Hwf. split.
  - intro Hne. destruct (child_hash_eqb _ _) eqn:E; [|reflexivity]. exfalso. apply Hne.
    unfold child_hash_eqb, child_words, words_iter in E. apply perm_ofb_spec in E.
    assert (Hin : In w (words_of (append_word is_lower lower d w))).
    { unfold words_of, append_word. apply in_map_iff. exists (word_id is_lower lower w, (w, true)).
      split; [reflexivity|]. apply lookup_in, lookup_insert_same. }
    apply (Permutation_in _ (Permutation_sym (P2 _))) in Hin. apply (Permutation_in _ (Permutation_sym E)) in Hin.
    apply (Permutation_in _ (P1 _)) in Hin. apply (wf_word_key is_lower lower _ _ Hwf) in Hin.
    apply in_lookup; [apply Hwf|exact Hin].
  - intro H. assert (E : append_word is_lower lower d w = d) by (unfold append_word; now apply insert_same_entry).
    split; [exact E|]. rewrite E. unfold child_hash_eqb, child_words, words_iter. apply perm_ofb_spec.
    eapply Permutation_trans; [apply P1|apply Permutation_sym, P2].
Qed.
(* ------------------------------------------------------------------------------------------------ *)
(*  file_dict_name                                                                                    *)
(* ------------------------------------------------------------------------------------------------ *)
Definition no_pct (seg : list N) : Prop := ~ In PCT seg.

Lemma seg_inj : forall x y r r', no_pct x -> no_pct y -> x ++ PCT :: r = y ++ PCT :: r' -> x = y /\ r = r'.
Proof.
  induction x as [|c x IH]; intros [|d y] r r' Hx Hy E; cbn [app] in E.
  - inversion E. now split.
  - inversion E; subst d. exfalso. apply Hy. now left.
  - inversion E; subst c. exfalso. apply Hx. now left.
  - inversion E as [[Ecd Erest]]. subst d. destruct (IH y r r') as [Ea Eb].
    + intro H. apply Hx. now right.
    + intro H. apply Hy. now right.
    + exact Erest.
    + subst. now split.
Qed.
Lemma mangle_inj : forall a b, Forall no_pct a -> Forall no_pct b -> mangle a = mangle b -> a = b.
Proof.
  induction a as [|x a IH]; intros [|y b] Ha Hb E; unfold mangle in E; cbn [flat_map] in E.
  - reflexivity.
  - exfalso. destruct y; discriminate.
  - exfalso. destruct x; discriminate.
  - rewrite <- !app_assoc in E. cbn [app] in E.
    inversion Ha as [|? ? Hx Ha']; inversion Hb as [|? ? Hy Hb']; subst.
    destruct (seg_inj x y _ _ Hx Hy E) as [E1 E2]. subst y. f_equal. now apply IH.
Qed.
Theorem file_dict_name_inj : forall p q,
  Forall no_pct (components p) -> Forall no_pct (components q) ->
  file_dict_name (FileUrl p) = file_dict_name (FileUrl q) -> components p = components q.
Proof.
  intros p q Hp Hq E. cbn [file_dict_name] in E. apply mangle_inj; try assumption.
  destruct (mangle (components p)) as [|a l]; destruct (mangle (components q)) as [|b m]; try discriminate;
    [reflexivity|now inversion E].
Qed.

(* ------------------------------------------------------------------------------------------------ *)
(*  witnesses: where the faithful model violates the property (each replayed on the implementation)   *)
(* ------------------------------------------------------------------------------------------------ *)
(* ASCII instance of the Unicode variables (the witnesses only use ASCII letters and U+2019) *)
Definition a_is_lower (c : N) : bool := ((97 <=? c) && (c <=? 122))%N.
Definition a_lower (c : N) : list N := if ((65 <=? c) && (c <=? 90))%N then [(c + 32)%N] else [c].
Lemma id_order_perm : forall l : list word, Permutation (id_order l) l.
Proof. intro l. apply Permutation_refl. Qed.

Definition w_zorgle : word := [122; 111; 114; 103; 108; 101]%N.
Definition w_Zorgle : word := [90; 111; 114; 103; 108; 101]%N.
Definition w_flurb_nl : word := [102; 108; 10; 117; 114; 98]%N.          (* "fl\nurb" *)
Definition w_fl : word := [102; 108]%N.
Definition w_urb : word := [117; 114; 98]%N.
Definition w_blorfs : word := [98; 108; 111; 114; 102; 8217; 115]%N.      (* "blorf’s", U+2019 *)
Definition w_colour : word := [99; 111; 108; 111; 117; 114]%N.
Definition w_alpha : word := [97; 108; 112; 104; 97]%N.
Definition w_beta : word := [98; 101; 116; 97]%N.
Definition w_gamma : word := [103; 97; 109; 109; 97]%N.
Definition u_doc : url := FileUrl [47; 100; 46; 116; 120; 116]%N.          (* /d.txt *)
Definition p_a_b : list N := [47; 97; 47; 98]%N.                           (* /a/b *)
Definition p_a_pct_b : list N := [47; 97; 37; 98]%N.                       (* /a%b *)

Notation arun := (run_fs a_is_lower a_lower [] id_order).
Notation aacc := (fun cur s u t => accepted a_is_lower a_lower (children a_is_lower a_lower cur s u) t).
Notation awords := (fun p s => option_map words_of (load_dict a_is_lower a_lower p s)).

(* F15: the id is case-folded, so "Zorgle" replaces "zorgle": the file holds one of the two words and
   the first spelling is reported again *)
Lemma case_refuted :
  let s := arun fs_empty [AddWord SUser w_zorgle; AddWord SUser w_Zorgle] in
  aacc [] (arun fs_empty [AddWord SUser w_zorgle]) u_doc w_zorgle = true /\
  aacc [] s u_doc w_zorgle = false /\ awords UserP s = Some [w_Zorgle].
Proof. vm_compute. repeat split. Qed.

(* a word with a line feed reloads as two other words *)
Lemma newline_refuted :
  awords UserP (arun fs_empty [AddWord SUser w_flurb_nl]) = Some [w_fl; w_urb].
Proof. vm_compute. reflexivity. Qed.

(* FC07a, repaired by ebb53b3 (regression example): the canonical spelling is stored raw; since both sides
   of the exact test are normalised, a word with a typographic apostrophe is accepted once added, and so is
   its spelling with the ASCII apostrophe *)
Definition w_blorfs_ascii : word := [98; 108; 111; 114; 102; 39; 115]%N.    (* "blorf's" *)
Lemma apostrophe_accepted :
  line_safe w_blorfs /\ normalized w_blorfs <> w_blorfs /\
  aacc [] fs_empty u_doc w_blorfs = false /\
  aacc [] (arun fs_empty [AddWord SUser w_blorfs]) u_doc w_blorfs = true /\
  aacc [] (arun fs_empty [AddWord SUser w_blorfs]) u_doc w_blorfs_ascii = true.
Proof. vm_compute. repeat split; try reflexivity. discriminate. Qed.

(* a word the curated dictionary lists for another dialect: the token takes the curated metadata
   (first child wins), whose dialect test fails, whatever the user dictionary says *)
Definition cur_colour : dict := [(w_colour, (w_colour, false))].
Lemma dialect_refuted :
  accepted a_is_lower a_lower
    (children a_is_lower a_lower cur_colour (run_fs a_is_lower a_lower cur_colour id_order fs_empty [AddWord SUser w_colour]) u_doc)
    w_colour = false.
Proof. vm_compute. reflexivity. Qed.

(* F14, repaired by 87b8642 (history): under the OLD protocol File::create truncated the dictionary before
   anything was written: the crash state after it reloads to the EMPTY dictionary — every earlier word is
   lost, not just the one being added *)
Lemma crash_old_refuted :
  let s0 := arun fs_empty [AddWord SUser w_alpha; AddWord SUser w_beta] in
  let ws := words_iter id_order (append_word a_is_lower a_lower (dict_at a_is_lower a_lower UserP s0) w_gamma) in
  awords UserP s0 = Some [w_alpha; w_beta] /\
  exists i, (i <? length (crash_states None (s0, []) (save_effects_old UserP ws))) = true /\
            awords UserP (nth i (crash_states None (s0, []) (save_effects_old UserP ws)) s0) = Some [].
Proof. vm_compute. split; [reflexivity|]. exists 2. split; reflexivity. Qed.
(* ... and now: every crash point of the same add reloads to {alpha, beta} or {alpha, beta, gamma} *)
Lemma crash_example :
  let s0 := arun fs_empty [AddWord SUser w_alpha; AddWord SUser w_beta] in
  length (add_crash_states a_is_lower a_lower id_order SUser w_gamma s0) = 77 /\
  forallb (fun i => match awords UserP (arun s0 [CrashAdd SUser w_gamma i]) with
                    | Some ws => perm_ofb ws [w_alpha; w_beta] || perm_ofb ws [w_alpha; w_beta; w_gamma]
                    | None => false end) (seq 0 80) = true.
Proof. vm_compute. split; reflexivity. Qed.

(* F20 *)
Lemma file_dict_name_refuted :
  components p_a_b <> components p_a_pct_b /\
  file_dict_name (FileUrl p_a_b) = file_dict_name (FileUrl p_a_pct_b).
Proof. vm_compute. split; [discriminate|reflexivity]. Qed.
Lemma file_scope_refuted :
  let s := arun fs_empty [AddWord (SFile (FileUrl p_a_b)) w_zorgle] in
  aacc [] fs_empty (FileUrl p_a_pct_b) w_zorgle = false /\ aacc [] s (FileUrl p_a_pct_b) w_zorgle = true.
Proof. vm_compute. split; reflexivity. Qed.

(* harper-wasm (F15, wasm half; repaired by ba0a239): import_words used to re-synchronise the lint dictionary
   only when the word COUNT grew: after Zorgle, zorgle the linter still had Zorgle and reported zorgle *)
Definition tb_zorgle : ctable :=
  (90%N, (false, [122%N])) :: map (fun c : N => (c, (true, [c]))) [122; 111; 114; 103; 108; 101]%N.
Lemma wasm_resync_old_refuted :
  let st := import_words_old a_is_lower a_lower (import_words_old a_is_lower a_lower wasm_new [w_Zorgle]) [w_zorgle] in
  wasm_lint a_is_lower a_lower [] st [w_zorgle] = [true] /\ export_words id_order st = [w_zorgle].
Proof. vm_compute. split; reflexivity. Qed.
(* ... and now *)
Lemma wasm_resync_example :
  x_wasm tb_zorgle [] [WImport [w_Zorgle]; WImport [w_zorgle]; WLint [w_zorgle]; WExport]
  = [WONone; WONone; WOFlags [false]; WOWords [w_zorgle]].
Proof. vm_compute. reflexivity. Qed.

(* FC07f, repaired by f2dc537 (history): the OLD child hash fed the characters of all words to one hasher
   without separators: {aA, A} -> {Aa, A} could hash the same stream "AaA" *)
Lemma merge_rebuild_old_refuted_same_id :
  exists (d : dict) (w : word) (o1 o2 : list word -> list word),
    (forall l, Permutation (o1 l) l) /\ (forall l, Permutation (o2 l) l) /\
    words_of (append_word a_is_lower a_lower d w) <> words_of d /\
    child_stream_old o1 d = child_stream_old o2 (append_word a_is_lower a_lower d w).
Proof.
  exists (append_word a_is_lower a_lower (append_word a_is_lower a_lower [] [97; 65]%N) [65]%N).
  exists [65; 97]%N, (@rev word), id_order.
  split; [intro l; apply Permutation_sym, Permutation_rev|]. split; [apply id_order_perm|].
  vm_compute. split; [discriminate|reflexivity].
Qed.

(* FC07g, repaired by cfbe845 (history): without the lock two add commands for the user dictionary that are polled
   alternately both load the old (empty) dictionary; the second save overwrites the first: alpha is lost without
   any crash.  Under the lock the same schedule keeps both words (the second command waits). *)
Definition cmds_ab : list cmd := [(SUser, w_alpha); (SUser, w_beta)].
Lemma concurrent_old_refuted :
  let '(s, _, ord) := run_unlocked_old a_is_lower a_lower id_order cmds_ab fs_empty [0; 1; 0; 1] in
  ord = [0; 1] /\ awords UserP s = Some [w_beta].
Proof. vm_compute. split; reflexivity. Qed.
Lemma concurrent_example :
  let '(s, holder, ord) := run_locked a_is_lower a_lower id_order cmds_ab fs_empty [0; 1; 0; 1; 1; 0; 1] in
  ord = [0; 1] /\ holder = None /\ awords UserP s = Some [w_alpha; w_beta].
Proof. vm_compute. repeat split. Qed.
