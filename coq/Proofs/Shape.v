(* Shape.v — "tokens mean what their text says": the lexical shape of each token kind, that
   PlainEnglish::parse establishes it (for any Unicode tables obeying three laws), and the generic
   principle by which a Grouped pass preserves a per-token invariant. *)
Require Import Base Overlap OverlapProofs Tables_lexer Lexer Condense ListLemmas TokenInv CondenseInv LexerProofs
  CondPatterns3.
From Coq Require Import Lia ZArith.

(* ---------- texts ---------- *)
Definition blank (c : N) : Prop := c = 32%N \/ c = 9%N.
(* TokenKind::Space(n): lex_spaces counts 1 per ' ', lex_tabs 2 per '\t' *)
Definition space_units (txt : text) : nat := list_sum (map (fun c => if ceq c 9 then 2 else 1) txt).

Lemma slice_split {A} (l : list A) a b c : a <= b -> b <= c -> c <= length l ->
  slice l a c = slice l a b ++ slice l b c.
Proof.
  intros H1 H2 H3. unfold slice.
  replace (c - a) with ((b - a) + (c - b)) by lia.
  rewrite (firstn_plus (b - a) (c - b)). f_equal.
  rewrite skipn_skipn. replace (b - a + a) with b by lia. reflexivity.
Qed.

Lemma space_units_app a b : space_units (a ++ b) = space_units a + space_units b.
Proof. unfold space_units. rewrite map_app. apply list_sum_app. Qed.

Lemma repeat_app_n {A} (x : A) n m : repeat x n ++ repeat x m = repeat x (n + m).
Proof. induction n; cbn; congruence. Qed.

(* ---------- the Unicode laws the shape theorems need (monitored by the harness over all scalar values) ---------- *)
Definition uni_laws (u : uni) : Prop :=
  (forall c, u_lingual u c = true -> u_whitespace u c = false) /\
  (forall c, (c < 128)%N -> u_whitespace u c = (in_range 9 13 c || ceq c 32)) /\
  u_whitespace u 8217 = false.

Lemma in_range_true lo hi c : in_range lo hi c = true -> (lo <= c <= hi)%N.
Proof. unfold in_range. intros H. apply andb_prop in H. destruct H as [H1 H2]. apply N.leb_le in H1, H2. lia. Qed.
Lemma in_range_false lo hi c : (c < lo \/ hi < c)%N -> in_range lo hi c = false.
Proof.
  unfold in_range. intros [H|H]; apply andb_false_iff; [left|right]; apply N.leb_gt; exact H.
Qed.

Section Shape.
  Variable u : uni.

  Definition no_ws (txt : text) : Prop := Forall (fun c => u_whitespace u c = false) txt.

  (* the known class of finding F7: `et`, whitespace, `al.` in any capitalisation *)
  Definition et_al_text (txt : text) : Prop :=
    exists e t w a l,
      txt = e :: t :: w ++ [a; l; 46%N] /\
      eq_ignore_ascii_case e 101 = true /\ eq_ignore_ascii_case t 116 = true /\
      eq_ignore_ascii_case a 97 = true /\ eq_ignore_ascii_case l 108 = true /\
      w <> [] /\ Forall (fun c => c = 32 \/ c = 9 \/ c = 10)%N w.

  (* the literal denotes the number: decimal literals by the dec2flt grammar (exact value, which rounds to a
     FINITE f64 since b5c1992: f64_finite, see f64_finite_spec), hex as 0x<digits> *)
  Definition lit_denotes (nb : number) (lit : text) : Prop :=
    (n_radix nb = 10 /\ parse_f64 lit = Some (n_neg nb, n_mant nb, n_exp10 nb) /\
     f64_finite (n_mant nb) (n_exp10 nb) = true /\ n_precision nb = precision_of lit)
    \/ (n_radix nb = 16 /\ exists ds, lit = 48%N :: 120%N :: ds /\ ds <> [] /\
        forallb is_ascii_hexdigit ds = true /\ n_mant nb = hex_digits_val ds /\ n_neg nb = false /\
        n_exp10 nb = 0%Z /\ n_precision nb = 0).

  Definition number_shape (sfx_ok : bool) (nb : number) (txt : text) : Prop :=
    match n_suffix nb with
    | None => lit_denotes nb txt
    | Some s => sfx_ok = true /\ exists lit a b, txt = lit ++ [a; b] /\ lit_denotes nb lit /\
                                                 suffix_from_chars a b = Some s
    end.

  Definition punct_shape (p : punct) (txt : text) : Prop :=
    match p with
    | PQuote _ => exists c, txt = [c] /\ mem_n c quote_chars = true
    | PEllipsis => txt = [8230%N] \/ (2 <= length txt /\ Forall (fun c => c = 46%N) txt)
    | _ => exists c, txt = [c] /\ punct_from_char c = Some p
    end.

  (* sfx_ok: number suffixes may be present (after condense_number_suffixes);
     etal_ok: the F7 class is admitted for words (after condense_latin) *)
  Definition kind_shape (sfx_ok etal_ok : bool) (txt : text) (k : tkind) : Prop :=
    match k with
    | KWord => no_ws txt \/ (etal_ok = true /\ et_al_text txt)
    | KSpace c => Forall blank txt /\ c = space_units txt
    | KNewline c => txt = repeat 10%N c
    | KParagraphBreak => exists c, 2 <= c /\ txt = repeat 10%N c
    | KNumber nb => number_shape sfx_ok nb txt
    | KPunct p => punct_shape p txt
    | _ => True
    end.

  Definition tok_shape (sfx_ok etal_ok : bool) (src : text) (t : token) : Prop :=
    tend t <= length src /\ kind_shape sfx_ok etal_ok (tok_text src t) (tkind_of t).
  Definition Shape (sfx_ok etal_ok : bool) (src : text) (ts : list token) : Prop :=
    Forall (tok_shape sfx_ok etal_ok src) ts.

  Lemma kind_shape_mono s1 e1 s2 e2 txt k :
    (s1 = true -> s2 = true) -> (e1 = true -> e2 = true) ->
    kind_shape s1 e1 txt k -> kind_shape s2 e2 txt k.
  Proof.
    intros Hs He. destruct k; cbn [kind_shape]; auto.
    - intros [H|[H1 H2]]; [left; exact H|right; split; auto].
    - unfold number_shape. destruct (n_suffix n); auto. intros [H1 H2]. split; auto.
  Qed.

  Lemma shape_mono s1 e1 s2 e2 src ts :
    (s1 = true -> s2 = true) -> (e1 = true -> e2 = true) -> Shape s1 e1 src ts -> Shape s2 e2 src ts.
  Proof.
    intros Hs He H. eapply Forall_impl; [|exact H]. intros t [H1 H2]. split; [exact H1|].
    eapply kind_shape_mono; eauto.
  Qed.

  (* ================= what each sub-lexer establishes ================= *)
  Hypothesis laws : uni_laws u.

  Lemma ascii_not_ws c : (c < 128)%N -> in_range 9 13 c || ceq c 32 = false -> u_whitespace u c = false.
  Proof. intros H1 H2. destruct laws as [_ [L _]]. rewrite (L c H1). exact H2. Qed.

  Lemma ascii_alnum_range c : is_ascii_alphanumeric c = true ->
    ((48 <= c <= 57) \/ (65 <= c <= 90) \/ (97 <= c <= 122))%N.
  Proof.
    unfold is_ascii_alphanumeric, is_ascii_alphabetic, is_ascii_upper, is_ascii_lower, is_ascii_digit.
    intros H. apply orb_prop in H. destruct H as [H|H]; [apply orb_prop in H; destruct H as [H|H]|];
      apply in_range_true in H; lia.
  Qed.

  Lemma ascii_alnum_not_ws c : is_ascii_alphanumeric c = true -> u_whitespace u c = false.
  Proof.
    intros H. apply ascii_alnum_range in H.
    apply ascii_not_ws; [lia|]. apply orb_false_intro; [apply in_range_false; lia|apply N.eqb_neq; lia].
  Qed.

  Lemma ascii_digit_not_ws c : is_ascii_digit c = true -> u_whitespace u c = false.
  Proof. intros H. apply ascii_alnum_not_ws. unfold is_ascii_alphanumeric. rewrite H. apply orb_true_r. Qed.
End Shape.

(* ================= facts about the generated punctuation table ================= *)
Lemma from_char_not_quote c tw : punct_from_char c <> Some (PQuote tw).
Proof.
  unfold punct_from_char, currency_from_char.
  repeat match goal with |- context [if ?b then _ else _] => destruct b; [discriminate|] end.
  discriminate.
Qed.

Lemma from_char_ellipsis c : punct_from_char c = Some PEllipsis -> c = 8230%N.
Proof.
  unfold punct_from_char, currency_from_char.
  repeat match goal with
         | |- context [if N.eqb c ?k then _ else _] =>
             let E := fresh "E" in destruct (N.eqb c k) eqn:E;
             [first [discriminate | intros _; apply N.eqb_eq in E; exact E]|]
         end.
  discriminate.
Qed.

Lemma from_char_period c : punct_from_char c = Some PPeriod -> c = 46%N.
Proof.
  unfold punct_from_char, currency_from_char.
  repeat match goal with
         | |- context [if N.eqb c ?k then _ else _] =>
             let E := fresh "E" in destruct (N.eqb c k) eqn:E;
             [first [discriminate | intros _; apply N.eqb_eq in E; exact E]|]
         end.
  discriminate.
Qed.

Lemma from_char_apostrophe c : punct_from_char c = Some PApostrophe -> c = 39%N \/ c = 8217%N.
Proof.
  unfold punct_from_char, currency_from_char.
  repeat match goal with
         | |- context [if N.eqb c ?k then _ else _] =>
             let E := fresh "E" in destruct (N.eqb c k) eqn:E;
             [first [discriminate | intros _; apply N.eqb_eq in E; subst c; auto]|]
         end.
  discriminate.
Qed.

Section RawShape.
  Variable u : uni.
  Hypothesis laws : uni_laws u.
  Notation K := (kind_shape u false false).

  Lemma punct_shape_single c p : punct_from_char c = Some p -> punct_shape p [c].
  Proof.
    intros H. destruct p; cbn [punct_shape];
      try (exists c; split; [reflexivity|exact H]).
    - left. apply from_char_ellipsis in H. subst. reflexivity.
    - exfalso. exact (from_char_not_quote c _ H).
  Qed.

  Lemma shape_punctuation src n k : lex_punctuation src = Some (n, k) -> K (firstn n src) k.
  Proof.
    unfold lex_punctuation, lex_quote. destruct src as [|c r]; [discriminate|].
    destruct (mem_n c quote_chars) eqn:Q.
    - intros H. assert (n = 1 /\ k = KPunct (PQuote None)) as [-> ->] by (split; congruence).
      cbn. exists c. auto.
    - destruct (punct_from_char c) as [p|] eqn:P; [|discriminate].
      intros H. assert (n = 1 /\ k = KPunct p) as [-> ->] by (split; congruence).
      cbn [firstn kind_shape]. apply punct_shape_single. exact P.
  Qed.

  Lemma firstn_count_eq (x : N) src :
    firstn (count_while (ceq x) src) src = repeat x (count_while (ceq x) src).
  Proof.
    induction src as [|c r IH]; [reflexivity|]. cbn [count_while].
    destruct (ceq x c) eqn:E; [|reflexivity]. unfold ceq in E. apply N.eqb_eq in E. subst c.
    cbn [firstn repeat]. f_equal. exact IH.
  Qed.

  Lemma blank_repeat x n : blank x -> Forall blank (repeat x n).
  Proof. intros H. induction n; cbn; constructor; auto. Qed.
  Lemma space_units_repeat_tab n : space_units (repeat 9%N n) = n * 2.
  Proof.
    induction n as [|n IH]; [reflexivity|].
    change (space_units (repeat 9%N (S n))) with (2 + space_units (repeat 9%N n)). rewrite IH. lia.
  Qed.
  Lemma space_units_repeat_space n : space_units (repeat 32%N n) = n.
  Proof.
    induction n as [|n IH]; [reflexivity|].
    change (space_units (repeat 32%N (S n))) with (1 + space_units (repeat 32%N n)). rewrite IH. lia.
  Qed.

  Lemma shape_tabs src n k : lex_tabs src = Some (n, k) -> K (firstn n src) k.
  Proof.
    unfold lex_tabs. cbv zeta. destruct (count_while (ceq 9) src =? 0); [discriminate|].
    intros H. assert (n = count_while (ceq 9) src /\ k = KSpace (count_while (ceq 9) src * 2)) as [-> ->]
      by (split; congruence).
    rewrite firstn_count_eq. cbn [kind_shape]. split; [apply blank_repeat; right; reflexivity|].
    symmetry. apply space_units_repeat_tab.
  Qed.

  Lemma shape_spaces src n k : lex_spaces src = Some (n, k) -> K (firstn n src) k.
  Proof.
    unfold lex_spaces. cbv zeta. destruct (count_while (ceq 32) src =? 0); [discriminate|].
    intros H. assert (n = count_while (ceq 32) src /\ k = KSpace (count_while (ceq 32) src)) as [-> ->]
      by (split; congruence).
    rewrite firstn_count_eq. cbn [kind_shape]. split; [apply blank_repeat; left; reflexivity|].
    symmetry. apply space_units_repeat_space.
  Qed.

  Lemma shape_newlines src n k : lex_newlines src = Some (n, k) -> K (firstn n src) k.
  Proof.
    unfold lex_newlines. cbv zeta. destruct (count_while (ceq 10) src =? 0); [discriminate|].
    intros H. assert (n = count_while (ceq 10) src /\ k = KNewline (count_while (ceq 10) src)) as [-> ->]
      by (split; congruence).
    rewrite firstn_count_eq. reflexivity.
  Qed.

  Lemma c39_not_ws : u_whitespace u 39 = false.
  Proof. apply ascii_not_ws; [exact laws|reflexivity|reflexivity]. Qed.
  Lemma c46_not_ws : u_whitespace u 46 = false.
  Proof. apply ascii_not_ws; [exact laws|reflexivity|reflexivity]. Qed.
  Lemma c115_not_ws : u_whitespace u 115 = false.
  Proof. apply ascii_not_ws; [exact laws|reflexivity|reflexivity]. Qed.

  Lemma shape_plural_digit src n k : lex_plural_digit u src = Some (n, k) -> K (firstn n src) k.
  Proof.
    unfold lex_plural_digit. destruct src as [|c0 r1]; [discriminate|].
    destruct (is_ascii_alphanumeric c0) eqn:A0; cbn [negb]; [|discriminate].
    pose proof (ascii_alnum_not_ws u laws c0 A0) as W0.
    destruct r1 as [|c t]; [discriminate|].
    destruct (ceq c 39) eqn:C39.
    - unfold ceq in C39. apply N.eqb_eq in C39. subst c.
      destruct t as [|c' t']; [discriminate|]. destruct (ceq c' 115) eqn:C115; [|discriminate].
      unfold ceq in C115. apply N.eqb_eq in C115. subst c'.
      assert (K (firstn 3 (c0 :: 39%N :: 115%N :: t')) KWord) as G.
      { cbn. left. repeat constructor; auto using c39_not_ws, c115_not_ws. }
      destruct t' as [|d t''].
      + intros H. assert (n = 2 + 1 /\ k = KWord) as [-> ->] by (split; congruence). exact G.
      + destruct (u_alphanumeric u d); cbn [negb]; [discriminate|].
        intros H. assert (n = 2 + 1 /\ k = KWord) as [-> ->] by (split; congruence). exact G.
    - destruct (ceq c 115) eqn:C115; [|discriminate].
      unfold ceq in C115. apply N.eqb_eq in C115. subst c.
      assert (K (firstn 2 (c0 :: 115%N :: t)) KWord) as G.
      { cbn. left. repeat constructor; auto using c115_not_ws. }
      destruct t as [|d t''].
      + intros H. assert (n = 1 + 1 /\ k = KWord) as [-> ->] by (split; congruence). exact G.
      + destruct (u_alphanumeric u d); cbn [negb]; [discriminate|].
        intros H. assert (n = 1 + 1 /\ k = KWord) as [-> ->] by (split; congruence). exact G.
  Qed.

  Lemma forallb_firstn_count (p : N -> bool) l : forallb p (firstn (count_while p l) l) = true.
  Proof.
    induction l as [|x l IH]; [reflexivity|]. cbn [count_while]. destruct (p x) eqn:E; [|reflexivity].
    cbn [firstn forallb]. rewrite E, IH. reflexivity.
  Qed.

  Lemma shape_hex src n k : lex_hex_number u src = Some (n, k) -> K (firstn n src) k.
  Proof.
    unfold lex_hex_number. destruct src as [|c0 [|c1 [|c2 r]]]; try discriminate.
    destruct (ceq c0 48) eqn:E0; cbn [negb orb]; [|discriminate].
    destruct (ceq c1 120) eqn:E1; cbn [negb orb]; [|discriminate].
    destruct (is_ascii_hexdigit c2) eqn:E2; cbn [negb]; [|discriminate].
    unfold ceq in E0, E1. apply N.eqb_eq in E0, E1. subst c0 c1. cbv zeta.
    match goal with |- context [count_while is_ascii_hexdigit ?b] => set (body := b) end.
    set (kk := count_while is_ascii_hexdigit body).
    match goal with |- (if negb ?b then _ else _) = _ -> _ => destruct b; cbn [negb]; [|discriminate] end.
    match goal with |- (if ?b then _ else _) = _ -> _ => destruct b; [|discriminate] end.
    intros H. assert (n = kk + 2 /\ k = KNumber (mknumber false (hex_digits_val (firstn kk body)) 0%Z None 16 0))
      as [-> ->] by (split; congruence).
    cbn [kind_shape]. unfold number_shape. cbn [n_suffix]. right. cbn [n_radix]. split; [reflexivity|].
    exists (firstn kk body). replace (kk + 2) with (S (S kk)) by lia. cbn [firstn].
    split; [reflexivity|]. split.
    - unfold kk, body. cbn [skipn count_while]. rewrite E2. cbn [firstn]. discriminate.
    - split; [apply forallb_firstn_count|]. cbn. auto.
  Qed.

  Lemma longest_float_shape s : forall m n k, longest_float m s = Some (n, k) ->
    n <= m /\ exists neg mant ex,
      k = KNumber (mknumber neg mant ex None 10 (precision_of (firstn n s))) /\
      parse_f64 (firstn n s) = Some (neg, mant, ex) /\ f64_finite mant ex = true.
  Proof.
    induction m as [|m IH]; intros n k H; cbn [longest_float] in H; [discriminate|].
    cbv zeta in H. destruct (parse_finite (firstn (S m) s)) as [[[neg mant] ex]|] eqn:P.
    - assert (n = S m) as -> by congruence. split; [lia|]. exists neg, mant, ex. split; [congruence|].
      apply parse_finite_some. exact P.
    - destruct (IH n k H) as [L R]. split; [lia|exact R].
  Qed.

  Lemma shape_number src n k : lex_number u src = Some (n, k) -> K (firstn n src) k.
  Proof.
    unfold lex_number. destruct src as [|c0 r]; [discriminate|].
    destruct (negb (u_numeric u c0)); [discriminate|]. cbv zeta.
    match goal with |- match ?x with _ => _ end = _ -> _ => destruct x as [e|]; [|discriminate] end.
    intros H. apply longest_float_shape in H. destruct H as [L [neg [mant [ex [-> [P Fin]]]]]].
    rewrite firstn_length in L.
    assert (firstn n (firstn (S e) (c0 :: r)) = firstn n (c0 :: r)) as F.
    { rewrite firstn_firstn. f_equal. lia. }
    rewrite F in *. cbn [kind_shape]. unfold number_shape. cbn [n_suffix]. left. cbn. auto.
  Qed.

  Lemma shape_word src n k : lex_word u src = Some (n, k) -> K (firstn n src) k.
  Proof.
    unfold lex_word. cbv zeta.
    set (p := fun c => u_lingual u c || is_ascii_digit c).
    destruct (count_while p src =? 0); [discriminate|].
    intros H. assert (n = count_while p src /\ k = KWord) as [-> ->] by (split; congruence).
    cbn [kind_shape]. left. unfold no_ws.
    pose proof (count_while_all p src) as A. eapply Forall_impl; [|exact A].
    intros c Hc. unfold p in Hc. apply orb_prop in Hc. destruct Hc as [Hc|Hc].
    - destruct laws as [L _]. apply L. exact Hc.
    - apply (ascii_digit_not_ws u laws). exact Hc.
  Qed.

  Lemma some_kind_trivial (f : option (nat * tkind)) (k0 : tkind) :
    (forall n k, f = Some (n, k) -> k = k0) -> K [] k0 \/ True -> True.
  Proof. auto. Qed.

  (* every token kind the lexer can produce has its shape *)
  Theorem lex_token_shape src n k : lex_token u src = Some (n, k) -> K (firstn n src) k.
  Proof.
    unfold lex_token.
    repeat match goal with
           | |- or_else ?a _ = Some _ -> _ =>
               let E := fresh "E" in destruct a as [[n' k']|] eqn:E; cbn [or_else];
               [intros H; assert (n' = n /\ k' = k) as [-> ->] by (split; congruence); clear H|]
           end.
    - unfold lex_regexish in E. destruct src as [|c r]; [discriminate|]. destruct (ceq c 91); [|discriminate].
      destruct (regex_loop u r 1); [|discriminate]. assert (k = KRegexish) as -> by congruence. exact I.
    - apply shape_punctuation. exact E0.
    - apply shape_tabs. exact E1.
    - apply shape_spaces. exact E2.
    - apply shape_newlines. exact E3.
    - apply shape_plural_digit. exact E4.
    - apply shape_hex. exact E5.
    - unfold lex_long_decade in E6.
      destruct src as [|c0 [|c1 [|c2 [|c3 [|c4 rest]]]]]; try discriminate.
      repeat match type of E6 with (if ?b then None else _) = _ => destruct b; [discriminate|] end.
      destruct rest as [|c5 r]; [|destruct (u_alphanumeric u c5); [discriminate|]];
        (assert (k = KDecade) as -> by congruence); exact I.
    - apply shape_number. exact E7.
    - unfold lex_url in E8. destruct (position (ceq 58) src); [|discriminate].
      destruct (negb _); [discriminate|]. destruct (lex_ip_schemepart u _); [|discriminate].
      assert (k = KUrl) as -> by congruence. exact I.
    - unfold lex_email_address in E9. cbv zeta in E9.
      destruct (rposition _ _); [|discriminate]. destruct (negb _); [discriminate|].
      destruct (lex_hostname _); [|discriminate]. destruct (_ =? 0); [discriminate|].
      assert (k = KEmail) as -> by congruence. exact I.
    - unfold lex_hostname_token in E10. destruct (lex_hostname src); [|discriminate].
      destruct (_ <=? 1); [discriminate|]. destruct (negb _); [discriminate|].
      destruct (nth_error _ _); [destruct (ceq _ 46); [discriminate|]|];
        (assert (k = KHostname) as -> by congruence); exact I.
    - apply shape_word. exact E11.
    - unfold lex_catch. intros H. assert (k = KUnlintable) as -> by congruence. exact I.
  Qed.
End RawShape.
