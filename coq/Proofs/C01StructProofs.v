(* C01StructProofs.v (phase 6) — the struct-rule sites of Model/C01Struct.v never panic.
   The guard is the shape of the iterator in every case: iter_word_indices is strictly increasing and below len
   (indices_from_chain), last_<thing>_index is the last of those indices, the `[.., a, b, c]` slice pattern gives len >= 3,
   iter_sentences yields at least one piece, the sentence loops are run_on_chunk (roc_loop_total applies verbatim, from
   any start position). *)
Require Import Base Overlap TokenSeq Pattern TokenSeqProofs PatternProofs C01LenProofs C01Bodies C01BodiesProofs C01Struct.
From Coq Require Import List Arith Lia Bool NArith.
Import ListNotations.

Lemma each_chk_ok {A} (f : A -> res unit) l : (forall x, In x l -> f x = Ok tt) -> each_chk f l = Ok tt.
Proof.
  induction l as [|x r IH]; intros H; [reflexivity|]. cbn [each_chk]. rewrite (H x) by now left. cbn [bind].
  apply IH. intros y Hy. apply H. now right.
Qed.

Lemma chain_lt_In lo l n : chain_lt lo l n -> forall i, In i l -> lo <= i /\ i < n.
Proof.
  revert lo. induction l as [|a r IH]; intros lo H i Hi; [destruct Hi|].
  cbn [chain_lt] in H. destruct H as [H1 [H2 H3]]. destruct Hi as [<-|Hi]; [lia|].
  destruct (IH _ H3 i Hi). lia.
Qed.

(* neighbours of a strictly increasing chain below n *)
Lemma pairs_adjacent_In lo l n : chain_lt lo l n -> forall a b, In (a, b) (pairs_adjacent l) -> a < b /\ b < n.
Proof.
  revert lo. induction l as [|x r IH]; intros lo H a b Hin; [destruct Hin|].
  destruct r as [|y r']; [destruct Hin|]. cbn [pairs_adjacent] in Hin. cbn [chain_lt] in H.
  destruct H as [_ [Hx [Hxy [Hy HR]]]]. destruct Hin as [[= <- <-]|Hin]; [lia|].
  apply (IH (S x)); [cbn [chain_lt]; repeat split; [lia|exact Hy|exact HR]|exact Hin].
Qed.

(* ---------- AnA ---------- *)
Theorem ana_uses_total chunk : ana_uses chunk = Ok tt.
Proof.
  unfold ana_uses. apply each_chk_ok. intros [a b] Hin.
  destruct (pairs_adjacent_In 0 _ _ (word_indices_chain chunk) a b Hin) as [Hab Hb].
  unfold ana_use. cbn [fst snd].
  rewrite slice_chk_ok' by lia. cbn [bind]. rewrite slice_chk_ok' by lia. cbn [bind].
  destruct (nth_chk_ok chunk a) as [x [Ex _]]; [lia|]. rewrite Ex. cbn [bind].
  destruct (nth_chk_ok chunk b) as [y [Ey _]]; [lia|]. rewrite Ey. reflexivity.
Qed.

Theorem vowel_head_total is_upper word : exists r, vowel_head is_upper word = Ok r.
Proof.
  unfold vowel_head. destruct word as [|c w]; [rewrite andb_false_r; now eexists|].
  destruct (forallb is_upper (c :: w) && negb (is_nil (c :: w))); now eexists.
Qed.

(* ---------- LinkingVerbs ---------- *)
Lemma last_word_is_word l w : last_word l = Some w -> flag F_WORD w = true.
Proof. unfold last_word. intros H. now apply find_some in H. Qed.

Theorem linking_verbs_uses_total lv chunk : linking_verbs_uses lv chunk = Ok tt.
Proof.
  unfold linking_verbs_uses. apply each_chk_ok. intros i Hi. apply filter_In in Hi. destruct Hi as [Hi _].
  destruct (chain_lt_In 0 _ _ (word_indices_chain chunk) i Hi) as [_ Hlt].
  unfold linking_use. destruct (nth_chk_ok chunk i Hlt) as [x [Ex _]]. rewrite Ex. cbn [bind].
  rewrite slice_chk_ok' by lia. cbn [bind].
  destruct (last_word (slice chunk 0 i)) as [w|] eqn:E; [|reflexivity].
  unfold as_word_unwrap. now rewrite (last_word_is_word _ _ E).
Qed.

(* ---------- NoOxfordComma::match_to_lint ---------- *)
Lemma last_opt_In l i : last_opt l = Some i -> In i l.
Proof.
  destruct l as [|a r]; [discriminate|]. cbn [last_opt]. intros [= <-].
  revert a. induction r as [|b r IH]; intros a; [now left|]. rewrite last_cons. right. apply IH.
Qed.

Theorem last_index_body_total f mt : exists r, last_index_body f mt = Ok r.
Proof.
  unfold last_index_body. rewrite last_index_spec. cbn [bind].
  destruct (last_opt (term_indices f mt)) as [i|] eqn:E; [|now eexists].
  apply last_opt_In in E.
  destruct (chain_lt_In 0 _ _ (indices_from_chain f 0 mt) i E) as [_ Hlt]. cbn [Nat.add] in Hlt.
  destruct (nth_chk_ok mt i Hlt) as [t [Et _]]. rewrite Et. cbn [bind]. now eexists.
Qed.

(* ---------- the sentence loops ---------- *)
Section Loops.
  Variable leaf : nat -> tok -> text -> res bool.
  Variable oracle : nat -> list tok -> text -> res bool.
  Variable src : text.
  Hypothesis HO : oracle_total_on oracle src (D_any leaf src).

  Lemma roc_loop_total_any p s fuel cursor : D_any leaf src s -> 1 <= fuel -> length s + 1 <= fuel + cursor ->
    exists l, roc_loop (fun ts => matches leaf oracle p ts src) s fuel cursor = Ok l /\ ranges_ok cursor l (length s).
  Proof.
    intros Hs H1 H2.
    apply (roc_loop_total (D_any leaf src)); try assumption.
    - intros n ts H. now apply Forall_skipn.
    - intros ts Hts. apply (matches_bounded_any leaf oracle src HO p ts Hts).
  Qed.

  Lemma ranges_ok_Forall lo l n : ranges_ok lo l n ->
    Forall (fun ab : nat * nat => fst ab <= snd ab /\ snd ab <= n) l.
  Proof.
    revert lo. induction l as [|[a b] r IH]; intros lo H; [constructor|]. cbn [ranges_ok] in H.
    destruct H as [_ [H1 [H2 H3]]]. constructor; [cbn [fst snd]; lia|exact (IH _ H3)].
  Qed.

  Lemma rule_lint_chunks_total body p : (forall mt, exists r, body mt src = Ok r) ->
    forall cs, Forall (D_any leaf src) cs -> exists l, rule_lint_chunks leaf oracle body p cs src = Ok l.
  Proof.
    intros HB. induction cs as [|c r IH]; intros HF; [now exists []|].
    inversion HF as [|? ? Hc Hr]; subst. cbn [rule_lint_chunks].
    destruct (roc_loop_total_any p c (S (length c)) 0 Hc) as [rs [E R]]; [lia|lia|].
    unfold run_on_chunk, run_on_chunk_f. rewrite E. cbn [bind].
    destruct (bodies_on_total src body c rs) as [x Ex].
    { pose proof (ranges_ok_Forall _ _ _ R) as F. rewrite Forall_forall in *. intros ab Hab.
      destruct (F ab Hab) as [F1 F2]. repeat split; [exact F1|exact F2|apply HB]. }
    rewrite Ex. cbn [bind]. destruct (IH Hr) as [tl Etl]. rewrite Etl. cbn [bind]. now eexists.
  Qed.

  Lemma sentences_good toks ss : D_any leaf src toks -> iter_sentences toks = Ok ss -> Forall (D_any leaf src) ss.
  Proof.
    intros H E. apply (iter_by_pieces (D_any leaf src)) with (f := flag F_SENTTERM) (ts := toks); try assumption.
    - intros n l Hl. now apply Forall_skipn.
    - intros n l Hl. now apply Forall_firstn.
  Qed.

  (* NoOxfordComma: the whole rule returns on every document whose tokens lie inside the text *)
  Theorem no_oxford_comma_total is_comma p toks : D_any leaf src toks ->
    exists l, no_oxford_comma_lint leaf oracle is_comma p toks src = Ok l.
  Proof.
    intros H. unfold no_oxford_comma_lint, iter_sentences.
    destruct (iter_by_total (flag F_SENTTERM) toks) as [ss [E _]]. rewrite E. cbn [bind].
    apply rule_lint_chunks_total; [intros mt; apply last_index_body_total|].
    now apply (sentences_good toks).
  Qed.

  Lemma oxford_start_le skip is_comma s : oxford_start skip is_comma s <= length s.
  Proof.
    unfold oxford_start. destruct skip; [|lia]. destruct (position is_comma s) as [i|] eqn:E; [|lia].
    clear -E. revert i E. induction s as [|x r IH]; intros i E; [discriminate|]. cbn [position] in E.
    destruct (is_comma x); [injection E as <-; cbn; lia|].
    destruct (position is_comma r) as [j|]; [|discriminate]. injection E as <-. specialize (IH j eq_refl). cbn [length]. lia.
  Qed.

  (* OxfordComma: the loop returns from whatever start position the preposition test chooses; the ranges handed to
     match_to_lint are non-empty, inside the sentence, increasing *)
  Theorem oxford_loop_total skip is_comma p s : D_any leaf src s ->
    exists l, oxford_loop leaf oracle skip is_comma p s src = Ok l /\
              ranges_ok (oxford_start skip is_comma s) l (length s).
  Proof. intros H. unfold oxford_loop. apply roc_loop_total_any; [exact H|lia|lia]. Qed.

  Theorem oxford_comma_loops_total skip is_comma p toks : D_any leaf src toks ->
    exists l, oxford_comma_loops leaf oracle skip is_comma p toks src = Ok l.
  Proof.
    intros H. unfold oxford_comma_loops, iter_sentences.
    destruct (iter_by_total (flag F_SENTTERM) toks) as [ss [E _]]. rewrite E. cbn [bind].
    pose proof (sentences_good toks ss H E) as HF. clear E.
    induction ss as [|s r IH]; [now exists []|]. inversion HF as [|? ? Hs Hr]; subst. cbn [oxford_sentences].
    destruct (oxford_loop_total (skip s) is_comma p s Hs) as [x [Ex _]]. rewrite Ex. cbn [bind].
    destruct (IH Hr) as [tl Etl]. rewrite Etl. cbn [bind]. now eexists.
  Qed.
End Loops.

(* ---------- Spaces ---------- *)
Theorem spaces_kinds_total is_space sentence : spaces_kinds is_space sentence = Ok tt.
Proof.
  unfold spaces_kinds. apply each_chk_ok. intros t Ht. apply filter_In in Ht. destruct Ht as [_ Ht]. now rewrite Ht.
Qed.

Theorem spaces_tail_total is_space is_punct sentence : exists r, spaces_tail is_space is_punct sentence = Ok r.
Proof.
  unfold spaces_tail. pose proof (rev_length sentence) as HL.
  destruct (rev sentence) as [|p [|s [|w r]]]; try (now eexists).
  destruct (flag F_WORD w && is_space s && is_punct p); [|now eexists].
  cbn [length] in HL. unfold sub_chk.
  replace (length sentence <? 2) with false by (symmetry; apply Nat.ltb_ge; lia). cbn [bind].
  replace (length sentence <? 1) with false by (symmetry; apply Nat.ltb_ge; lia). cbn [bind].
  rewrite slice_chk_ok' by lia. cbn [bind].
  assert (slice sentence (length sentence - 2) (length sentence - 1) <> []) as NE.
  { intros E. apply (f_equal (@length tok)) in E. unfold slice in E. rewrite firstn_length, skipn_length in E.
    cbn [length] in E. lia. }
  destruct (hull_unwrap_ok _ NE) as [sp [Eh _]]. rewrite Eh. cbn [bind]. now eexists.
Qed.

(* ---------- SentenceCapitalization ---------- *)
(* iter_chunks / iter_sentences / iter_paragraphs always yield at least one piece (an empty list yields one empty piece) *)
Lemma iter_by_nonempty f ts cs : iter_by f ts = Ok cs -> cs <> [].
Proof.
  unfold iter_by. rewrite last_index_spec. destruct (term_indices f ts) as [|a r].
  - cbn [windows bind last_opt app]. intros [= <-]. discriminate.
  - destruct (slice_chk ts 0 (S a)) as [s|]; [|discriminate]. cbn [bind].
    destruct (windows ts (a :: r)) as [rest|]; [|discriminate]. cbn [bind last_opt].
    destruct (S (last r a) <? length ts).
    + destruct (slice_from ts (S (last r a))); [|discriminate]. cbn [bind app]. intros [= <-]. discriminate.
    + cbn [bind app]. intros [= <-]. discriminate.
Qed.

Theorem first_sentence_total para : exists s, first_sentence para = Ok s.
Proof.
  unfold first_sentence, iter_sentences. destruct (iter_by_total (flag F_SENTTERM) para) as [ss [E _]]. rewrite E. cbn [bind].
  pose proof (iter_by_nonempty _ _ _ E) as NE. destruct ss as [|s r]; [congruence|]. now exists s.
Qed.

Theorem only_sentence_total para : exists r, only_sentence para = Ok r.
Proof.
  unfold only_sentence, iter_sentences. destruct (iter_by_total (flag F_SENTTERM) para) as [ss [E _]]. rewrite E. cbn [bind].
  destruct ss as [|s [|s2 r]]; cbn [length Nat.eqb first_chk bind]; now eexists.
Qed.

(* ---------- CapitalizePersonalPronouns ---------- *)
Theorem cpp_replacement_total content : exists r, cpp_replacement content = Ok r.
Proof.
  destruct content as [|x r]; [vm_compute; now eexists|].
  unfold cpp_replacement. destruct (existsb _ cpp_forms); cbn [set_nth bind]; now eexists.
Qed.

(* ---------- MergeWords ---------- *)
Theorem single_upper_total is_upper c : exists r, single_upper is_upper c = Ok r.
Proof. unfold single_upper. destruct c as [|x [|y r]]; cbn; now eexists. Qed.

Theorem merge_words_skip_total is_upper a b : exists r, merge_words_skip is_upper a b = Ok r.
Proof.
  unfold merge_words_skip. destruct (single_upper_total is_upper a) as [x Ex]. rewrite Ex. cbn [bind].
  destruct x; [now eexists|apply single_upper_total].
Qed.

(* ---------- the statements Properties/C01.v pins ---------- *)
Lemma an_a_sites_total :
  (forall chunk, ana_uses chunk = Ok tt) /\ (forall is_upper word, exists r, vowel_head is_upper word = Ok r).
Proof. split; [exact ana_uses_total|exact vowel_head_total]. Qed.

Lemma no_oxford_comma_sites_total :
  (forall f mt, exists r, last_index_body f mt = Ok r) /\
  (forall leaf oracle (src : text), oracle_total_on oracle src (D_any leaf src) ->
   forall is_comma p toks, D_any leaf src toks ->
   exists l, no_oxford_comma_lint leaf oracle is_comma p toks src = Ok l).
Proof. split; [exact last_index_body_total|exact no_oxford_comma_total]. Qed.

Lemma oxford_comma_loop_sites_total : forall leaf oracle (src : text), oracle_total_on oracle src (D_any leaf src) ->
  (forall skip is_comma p s, D_any leaf src s ->
   exists l, oxford_loop leaf oracle skip is_comma p s src = Ok l /\ ranges_ok (oxford_start skip is_comma s) l (length s)) /\
  (forall skip is_comma p toks, D_any leaf src toks ->
   exists l, oxford_comma_loops leaf oracle skip is_comma p toks src = Ok l).
Proof.
  intros leaf oracle src HO. split; [exact (oxford_loop_total leaf oracle src HO)|exact (oxford_comma_loops_total leaf oracle src HO)].
Qed.

Lemma spaces_sites_total :
  (forall is_space sentence, spaces_kinds is_space sentence = Ok tt) /\
  (forall is_space is_punct sentence, exists r, spaces_tail is_space is_punct sentence = Ok r).
Proof. split; [exact spaces_kinds_total|exact spaces_tail_total]. Qed.

Lemma first_sentence_sites_total :
  (forall para, exists r, only_sentence para = Ok r) /\ (forall para, exists s, first_sentence para = Ok s) /\
  (forall f ts cs, iter_by f ts = Ok cs -> cs <> []).
Proof. split; [exact only_sentence_total|split; [exact first_sentence_total|exact iter_by_nonempty]]. Qed.

Lemma small_index_sites_total :
  (forall content, exists r, cpp_replacement content = Ok r) /\
  (forall is_upper a b, exists r, merge_words_skip is_upper a b = Ok r).
Proof. split; [exact cpp_replacement_total|exact merge_words_skip_total]. Qed.

(* ---------- non-vacuity: the checks of these models DO fail off the guarded path, and the guarded path is taken ---------- *)
Definition xp (a b : nat) : tok := mktok (mkspan a b) 3 0%N 0.     (* punctuation: no flag *)
Definition ex_wsw : pat := PSeq [PFlag F_WORD; PWhitespace; PFlag F_WORD].
Lemma struct_examples :
  (* AnA / LinkingVerbs on "I should\n of": the neighbours are (0,2), (2,5); an index pair that is NOT one fails *)
  (pairs_adjacent (word_indices ex_modal_toks) = [(0, 2); (2, 5)] /\ ana_uses ex_modal_toks = Ok tt /\
   ana_use ex_modal_toks (2, 7) = Panic PIndex /\ ana_use ex_modal_toks (5, 2) = Panic PIndex) /\
  (linking_verbs_uses (fun i => 1 <? i) ex_modal_toks = Ok tt /\ linking_use ex_modal_toks 6 = Panic PIndex /\
   as_word_unwrap (xs 1 2) = Panic PUnwrap) /\
  (* the sentence loops: word-whitespace-word from 0 and from the first "comma" (here: whitespace, position 1) *)
  (last_index_body (flag F_WS) ex_modal_toks = Ok (Some (mkspan 9 10)) /\ last_index_body (flag F_ADJ) ex_modal_toks = Ok None /\
   no_oxford_comma_lint ex_true ex_otrue (flag F_WS) ex_wsw ex_modal_toks ex_modal_src = Ok [Some (mkspan 1 2)] /\
   oxford_start true (flag F_WS) ex_modal_toks = 1 /\ oxford_start true (flag F_ADJ) ex_modal_toks = 6 /\
   oxford_loop ex_true ex_otrue true (flag F_WS) ex_wsw ex_modal_toks ex_modal_src = Ok [(2, 6)] /\
   oxford_loop ex_true ex_otrue false (flag F_WS) ex_wsw ex_modal_toks ex_modal_src = Ok [(0, 3)]) /\
  (* Spaces: word, space, punctuation at the end flags the space; two tokens do not reach the slice *)
  (spaces_tail (flag F_WS) (fun t => tkid t =? 3) [xw 0 1; xs 1 2; xp 2 3] = Ok (Some (mkspan 1 2)) /\
   spaces_tail (flag F_WS) (fun t => tkid t =? 3) [xs 1 2; xp 2 3] = Ok None /\ spaces_kinds (flag F_WS) ex_modal_toks = Ok tt) /\
  (* an empty paragraph has one (empty) sentence; unwrap on no sentence at all would panic *)
  (first_sentence [] = Ok [] /\ only_sentence ex_modal_toks = Ok (Some ex_modal_toks) /\ first_chk (@nil (list tok)) = Panic PUnwrap) /\
  (* i'm -> I'm; the empty word matches no form (set_nth on it would panic) *)
  (cpp_replacement (ch [105; 39; 109]) = Ok (Some (ch [73; 39; 109])) /\ cpp_replacement [] = Ok None /\
   set_nth (@nil N) 0 73%N = Panic PIndex /\
   merge_words_skip (fun c => N.eqb c 73) (ch [105]) (ch [73]) = Ok true /\
   merge_words_skip (fun c => N.eqb c 73) [] (ch [73; 73]) = Ok false /\ nth_chk (@nil N) 0 = Panic PIndex).
Proof. vm_compute. repeat split; reflexivity. Qed.

(* ================= rules that walk the document with get_token ================= *)
Lemma get_token_ok doc i : i < length doc -> exists t, get_token doc i = Some t.
Proof.
  intros H. unfold get_token. destruct (nth_error doc i) as [t|] eqn:E; [now exists t|].
  apply nth_error_None in E. lia.
Qed.

Lemma term_indices_lt f doc i : In i (term_indices f doc) -> i < length doc.
Proof.
  intros Hi. destruct (chain_lt_In 0 _ _ (indices_from_chain f 0 doc) i Hi) as [_ H]. exact H.
Qed.

Theorem adjective_of_a_uses_total is_adj skip is_of doc : adjective_of_a_uses is_adj skip is_of doc = Ok tt.
Proof.
  unfold adjective_of_a_uses. apply each_chk_ok. intros i Hi. apply term_indices_lt in Hi.
  unfold adjective_of_a_use. destruct (get_token_ok doc i Hi) as [t Et]. rewrite Et. cbn [unwrap_chk bind].
  destruct (skip t); [reflexivity|].
  destruct (get_token doc (i + 1)) as [s1|]; cbn [is_none orb]; [|reflexivity].
  destruct (get_token doc (i + 2)) as [wo|]; cbn [is_none orb]; [|reflexivity].
  destruct (get_token doc (i + 3)) as [s2|]; cbn [is_none orb]; [|reflexivity].
  destruct (get_token doc (i + 4)) as [aa|]; cbn [is_none orb]; [|reflexivity].
  cbn [unwrap_chk bind].
  destruct (negb (flag F_WS s1)); [reflexivity|]. destruct (negb (flag F_WORD wo)); [reflexivity|].
  destruct (negb (is_of wo)); [reflexivity|]. destruct (negb (flag F_WS s2)); reflexivity.
Qed.

Lemma stem_cut_ok chars k : k <= length chars -> stem_cut chars k = Ok tt.
Proof.
  intros H. unfold stem_cut, sub_chk.
  replace (length chars <? k) with false by (symmetry; apply Nat.ltb_ge; lia). cbn [bind].
  rewrite slice_chk_ok' by lia. reflexivity.
Qed.

Theorem inflected_stems_total ends_ed ends_es ends_s chars : inflected_stems ends_ed ends_es ends_s chars = Ok tt.
Proof.
  unfold inflected_stems. destruct (length chars <? 4) eqn:E; [reflexivity|]. apply Nat.ltb_ge in E.
  rewrite !stem_cut_ok by lia. destruct ends_ed, ends_es, ends_s; reflexivity.
Qed.

Theorem inflected_preps_total is_prep doc : inflected_preps is_prep doc = Ok tt.
Proof.
  unfold inflected_preps. apply each_chk_ok. intros i Hi. apply term_indices_lt in Hi.
  destruct (get_token_ok doc i Hi) as [t Et]. now rewrite Et.
Qed.

Theorem comma_space_before_total is_space t1 : exists r, comma_space_before is_space t1 = Ok r.
Proof. unfold comma_space_before. destruct t1 as [t|]; cbn [option_map]; [destruct (is_space t)|]; now eexists. Qed.

Theorem comma_fixes_uses_total is_comma is_space doc : comma_fixes_uses is_comma is_space doc = Ok tt.
Proof.
  unfold comma_fixes_uses. apply each_chk_ok. intros ci Hi. apply term_indices_lt in Hi.
  unfold comma_fixes_use, comma_toks. destruct (get_token_ok doc ci Hi) as [t Et]. rewrite Et. cbn [unwrap_chk bind].
  assert (forall k, (if k <=? ci then do a <- sub_chk ci k; do t <- unwrap_chk (get_token doc a); Ok (Some t) else Ok None)
                    = Ok (if k <=? ci then get_token doc (ci - k) else None)) as HK.
  { intros k. destruct (k <=? ci) eqn:E; [|reflexivity]. apply Nat.leb_le in E. unfold sub_chk.
    replace (ci <? k) with false by (symmetry; apply Nat.ltb_ge; lia). cbn [bind].
    destruct (get_token_ok doc (ci - k)) as [x Ex]; [lia|]. rewrite Ex. reflexivity. }
  rewrite (HK 2), (HK 1). cbn [bind fst snd].
  destruct (comma_space_before_total is_space (if 1 <=? ci then get_token doc (ci - 1) else None)) as [r Er].
  rewrite Er. reflexivity.
Qed.

Lemma get_token_sites_total :
  (forall is_adj skip is_of doc, adjective_of_a_uses is_adj skip is_of doc = Ok tt) /\
  (forall is_prep doc, inflected_preps is_prep doc = Ok tt) /\
  (forall ends_ed ends_es ends_s chars, inflected_stems ends_ed ends_es ends_s chars = Ok tt) /\
  (forall is_comma is_space doc, comma_fixes_uses is_comma is_space doc = Ok tt).
Proof.
  split; [exact adjective_of_a_uses_total|split; [exact inflected_preps_total|split; [exact inflected_stems_total|exact comma_fixes_uses_total]]].
Qed.

Definition xc (a b : nat) : tok := mktok (mkspan a b) 4 0%N 0.     (* a comma: no flag, kind id 4 *)
Lemma get_token_examples :
  (* "a of a"-shaped document: adjectives (here: words) at 0, 2, 4 — the look-ahead past the end is None, not a panic;
     an index that is NOT a token index panics on the first unwrap *)
  (term_indices (flag F_WORD) [xw 0 1; xs 1 2; xw 2 4; xs 4 5; xw 5 6] = [0; 2; 4] /\
   adjective_of_a_uses (flag F_WORD) (fun _ => false) (fun _ => true) [xw 0 1; xs 1 2; xw 2 4; xs 4 5; xw 5 6] = Ok tt /\
   adjective_of_a_use (fun _ => false) (fun _ => true) [xw 0 1] 1 = Panic PUnwrap) /\
  (* "used": all four stems; a two-letter word would underflow without the length test *)
  (inflected_stems true true true (ch [117; 115; 101; 100]) = Ok tt /\ stem_cut (ch [101; 100]) 3 = Panic PUnderflow /\
   stem_cut (ch [101; 100]) 2 = Ok tt) /\
  (* commas at 0 and 3: ci - 2 / ci - 1 are only taken when they exist *)
  (comma_fixes_uses (fun t => tkid t =? 4) (flag F_WS) [xc 0 1; xw 1 2; xs 2 3; xc 3 4] = Ok tt /\
   comma_toks [xc 0 1; xw 1 2; xs 2 3; xc 3 4] 3 = Ok (Some (xw 1 2), Some (xs 2 3), xc 3 4) /\
   comma_toks [xc 0 1; xw 1 2; xs 2 3; xc 3 4] 0 = Ok (None, None, xc 0 1) /\
   comma_toks [xc 0 1] 1 = Panic PUnwrap /\
   comma_space_before (flag F_WS) (Some (xs 2 3)) = Ok (Some (xs 2 3)) /\ unwrap_chk (@None tok) = Panic PUnwrap).
Proof. vm_compute. repeat split; reflexivity. Qed.

(* ================= SpellCheck / SpelledNumbers ================= *)
Theorem spell_check_words_total doc : spell_check_words doc = Ok tt.
Proof.
  unfold spell_check_words. apply each_chk_ok. intros t Ht. apply filter_In in Ht. destruct Ht as [_ Ht].
  unfold as_word_unwrap. now rewrite Ht.
Qed.

Theorem spell_possibilities_total {A} (poss : list A) :
  exists r, spell_possibilities poss = Ok r /\ length r <= 3.
Proof.
  unfold spell_possibilities, resize_with_panic. destruct (3 <? length poss) eqn:E.
  - apply Nat.ltb_lt in E. replace (length poss <? 3) with false by (symmetry; apply Nat.ltb_ge; lia).
    eexists. split; [reflexivity|]. rewrite firstn_length. lia.
  - apply Nat.ltb_ge in E. eexists. split; [reflexivity|exact E].
Qed.

Theorem spell_message_total {A} (poss : list A) : exists r, spell_message poss = Ok r.
Proof. unfold spell_message. destruct poss as [|x [|y r]]; cbn [length Nat.eqb last_chk bind]; now eexists. Qed.

Theorem spelled_numbers_toks_total doc : spelled_numbers_toks doc = Ok tt.
Proof.
  unfold spelled_numbers_toks. apply each_chk_ok. intros t Ht. apply filter_In in Ht. destruct Ht as [_ Ht].
  unfold as_number_unwrap. now rewrite Ht.
Qed.

(* every unwrap inside spell_out_number succeeds and fuel 4 is never exhausted: Some below 1000 (finite sweep), None above *)
Lemma spell_out_number_sweep :
  forallb (fun num => match spell_out_number 4 num with Ok (Some _) => true | _ => false end) (seq 0 1000) = true.
Proof. vm_compute. reflexivity. Qed.

Theorem spell_out_number_total num :
  spell_out_number 4 num = Ok (if 999 <? num then None else Some tt).
Proof.
  destruct (999 <? num) eqn:E.
  - cbn [spell_out_number]. now rewrite E.
  - apply Nat.ltb_ge in E. pose proof spell_out_number_sweep as H. rewrite forallb_forall in H.
    specialize (H num). rewrite in_seq in H. specialize (H ltac:(lia)).
    destruct (spell_out_number 4 num) as [[[]|]|]; [reflexivity|discriminate|discriminate].
Qed.

Theorem spelled_numbers_use_total v : v <= 999 -> spelled_numbers_use v = Ok tt.
Proof.
  intros H. unfold spelled_numbers_use. rewrite spell_out_number_total.
  replace (999 <? v) with false by (symmetry; apply Nat.ltb_ge; lia). reflexivity.
Qed.

Lemma spell_sites_total :
  lru_capacity = Ok 10000%N /\
  (forall doc, spell_check_words doc = Ok tt) /\
  (forall (poss : list text), exists r, spell_possibilities poss = Ok r /\ length r <= 3) /\
  (forall (poss : list text), exists r, spell_message poss = Ok r) /\
  (forall doc, spelled_numbers_toks doc = Ok tt) /\
  (forall num, spell_out_number 4 num = Ok (if 999 <? num then None else Some tt)) /\
  (forall v, v < 10 -> spelled_numbers_use v = Ok tt).
Proof.
  split; [reflexivity|]. split; [exact spell_check_words_total|]. split; [exact spell_possibilities_total|].
  split; [exact spell_message_total|]. split; [exact spelled_numbers_toks_total|]. split; [exact spell_out_number_total|].
  intros v H. apply spelled_numbers_use_total. lia.
Qed.

Lemma spell_examples :
  (* five possibilities are cut to three without calling the closure; growing WOULD call it *)
  (spell_possibilities [1; 2; 3; 4; 5] = Ok [1; 2; 3] /\ resize_with_panic [1; 2] 3 = Panic PUnwrap /\
   spell_message [7] = Ok (Some 7) /\ spell_message (@nil nat) = Ok None /\ last_chk (@nil nat) = Panic PUnwrap) /\
  (as_word_unwrap (xs 0 1) = Panic PUnwrap /\ spell_check_words ex_modal_toks = Ok tt /\ nonzero_new 0%N = None) /\
  (* 7, 300, 999 = 900 + 99 = 900 + (90 + 9) are spelled out; 1000 is None and unwrapping THAT panics *)
  (spelled_numbers_use 7 = Ok tt /\ spell_out_number 4 300 = Ok (Some tt) /\ spell_out_number 4 999 = Ok (Some tt) /\
   spell_out_number 4 1000 = Ok None /\ spelled_numbers_use 1000 = Panic PUnwrap /\ spell_out_number 2 999 = Panic PFuel).
Proof. vm_compute. repeat split; reflexivity. Qed.
