(* C15CompleteProofs.v — (a) the contract of fst::Map::search_with_state + levenshtein_automata in
   declarative form (what the harness monitors against brute force) and its equivalence with the
   executable `spec_stream lev` the FST theorems are stated with; (b) the completeness clause of the
   property — "for lower-case queries no word within the bound is missed" — as a theorem of its own for
   MutableDictionary (length-window argument), FstDictionary (under the contract) and MergedDictionary
   (union, compositional: children may be merged dictionaries themselves). *)
Require Import Base EditDistance DictModel Fuzzy EditDistanceProofs DictProofs FuzzyProofs ListLemmas.
From Coq Require Import Lia Permutation Sorting.Sorted.

(* ------------------------------------------------------------------------------------------ *)
(** * the stream contract, declaratively *)
(* `s` = what stream_distances_vec collects from word_map.search_with_state(&dfa) for the query string x and
   the DFA of bound d, over the fst::Map built from `words` (value = index):
   (order)    keys come in the map's order, each once: indices strictly increase;
   (sound)    every item is the index of a word within distance d, with dfa.distance = the exact distance;
   (complete) every word within distance d is streamed. *)
Definition idx_lt (a b : nat * nat) : Prop := fst a < fst b.

Definition stream_contract (words : list (text * meta)) (x : text) (d : nat) (s : list (nat * nat)) : Prop :=
  StronglySorted idx_lt s /\
  (forall i e, In (i, e) s -> exists w md, nth_error words i = Some (w, md) /\ e = lev x w /\ e <= d) /\
  (forall i w md, nth_error words i = Some (w, md) -> lev x w <= d -> exists e, In (i, e) s).

Lemma spec_stream_from_sorted levf (x : text) d : forall (ws : list (text * meta)) n,
  let s := flat_map (fun iw : nat * (text * meta) =>
                       let e := levf x (fst (snd iw)) in if e <=? d then [(fst iw, e)] else [])
                    (enum_from n ws) in
  StronglySorted idx_lt s /\ forall p, In p s -> n <= fst p.
Proof.
  induction ws as [|[w md] ws IH]; intros n; cbn [enum_from flat_map]; [split; [constructor|intros ? []]|].
  destruct (IH (S n)) as [S1 B1]. cbn [fst snd].
  destruct (levf x w <=? d); cbn [app].
  - split.
    + constructor; [exact S1|]. apply Forall_forall. intros p Hp. specialize (B1 p Hp). unfold idx_lt. cbn [fst]. lia.
    + intros p [<-|Hp]; [cbn [fst]; lia|]. specialize (B1 p Hp). lia.
  - split; [exact S1|]. intros p Hp. specialize (B1 p Hp). lia.
Qed.

Lemma idx_sorted_nodup s : StronglySorted idx_lt s -> NoDup s.
Proof.
  induction 1 as [|a l _ IH Ha]; constructor; [|exact IH].
  intros Hin. rewrite Forall_forall in Ha. specialize (Ha a Hin). unfold idx_lt in Ha. lia.
Qed.

Theorem stream_contract_iff words x d s :
  stream_contract words x d s <-> s = spec_stream lev words x d.
Proof.
  assert (Sspec : StronglySorted idx_lt (spec_stream lev words x d))
    by (apply (spec_stream_from_sorted lev x d words 0)).
  split.
  - intros (Ss & Hsound & Hcompl).
    apply (sorted_perm_eq idx_lt); [unfold idx_lt; intros; lia|exact Ss|exact Sspec|].
    apply NoDup_Permutation; [now apply idx_sorted_nodup|now apply idx_sorted_nodup|].
    intros [i e]. rewrite spec_stream_in. split; [apply Hsound|].
    intros (w & md & Hn & -> & Hle). destruct (Hcompl i w md Hn Hle) as (e' & He').
    destruct (Hsound i e' He') as (w' & md' & Hn' & -> & _).
    rewrite Hn in Hn'. injection Hn' as <- <-. exact He'.
  - intros ->. split; [exact Sspec|]. split.
    + intros i e. apply spec_stream_in.
    + intros i w md Hn Hle. exists (lev x w). apply spec_stream_in. eauto.
Qed.

(* ------------------------------------------------------------------------------------------ *)
(** * completeness for lower-case queries *)
Section Complete.
  Variable is_lower : char -> bool.
  Variable lower : char -> list char.
  Notation to_lower := (to_lower is_lower lower).
  Notation wm_wf := (wm_wf is_lower lower).

  (* the answer r of a dictionary with words `ws` misses nothing within the bound, up to the cap: every
     non-empty word within distance d of the normalised query is returned (at no more than its distance)
     unless r is full (k entries) of results that are at least as close *)
  Definition complete_for (ws : list text) (q : text) (d k : nat) (r : list fres) : Prop :=
    forall w, In w ws -> w <> [] -> lev (normalized q) w <= d -> covers r k w (lev (normalized q) w).

  Definition answers_completely (c : dict_ops) (q lq : text) (d k : nat) : Prop :=
    exists r, d_fuzzy c q lq d k = Ok r /\ complete_for (d_words c) q d k r.

  (* MutableDictionary: the length window [max(1, |q'| - d), |q'| + d] drops no non-empty word within the
     bound (lev_len); premise: the normalised query is its own CharStringExt::to_lower *)
  Theorem mut_fuzzy_complete m q d k r :
    wm_wf m -> mut_fuzzy_outcome is_lower lower m q d k r ->
    to_lower (normalized q) = normalized q ->
    complete_for (mut_words m) q d k r.
  Proof.
    intros Hwf O Hl w Hw Hne Hd.
    destruct (mut_fuzzy_sound is_lower lower m q d k r Hwf O) as (Hx & _ & _ & _ & _ & Hc).
    unfold mut_words in Hw. apply in_map_iff in Hw as ([k0 e] & <- & Hin). cbn [snd] in *.
    rewrite Hl in Hc, Hx.
    destruct (Hc k0 e Hin Hne (or_introl Hd)) as [(y & Hy & Ey)|[Hlen Hall]].
    - left. exists y. repeat split; [exact Hy|exact Ey|].
      destruct (Hx y Hy) as (_ & Hdist & _). rewrite Hdist, Ey. unfold min_dist. lia.
    - right. split; [exact Hlen|]. intros y Hy. specialize (Hall y Hy). unfold min_dist in Hall. lia.
  Qed.

  Corollary mut_answers_completely dbg m q lq d k :
    wm_wf m -> to_lower (normalized q) = normalized q ->
    answers_completely (mut_ops is_lower lower dbg m) q lq d k.
  Proof.
    intros Hwf Hl. destruct (mut_fuzzy_total is_lower lower dbg m q d k Hwf) as (r & E & O).
    exists r. split; [exact E|]. cbn [mut_ops d_words]. now apply mut_fuzzy_complete.
  Qed.

  (* FstDictionary::new(ws), under the stream contract for its word list and this bound; premise: the
     String::to_lowercase of the normalised query is the normalised query (both automata are the same) *)
  Theorem fst_answers_completely stream ws q d k :
    let f := fst_new is_lower lower ws in
    (forall x, stream (f_words f) x d = spec_stream lev (f_words f) x d) ->
    answers_completely (fst_ops is_lower lower stream f) q (normalized q) d k.
  Proof.
    intros f Hc.
    destruct (fst_fuzzy_total stream f d Hc q (normalized q) k) as (r & E & O).
    exists r. split; [exact E|]. intros w Hw Hne Hd. cbn [fst_ops d_words] in Hw.
    destruct (fst_new_in_step is_lower lower ws) as (_ & _ & _ & P). fold f in P.
    apply (Permutation_in _ P) in Hw. apply in_map_iff in Hw as ([w' md] & Ew & Hin). cbn [fst] in Ew. subst w'.
    destruct (fst_fuzzy_complete stream f d Hc q k r O w md Hin Hd) as [(y & Hy & Ey)|[Hlen Hall]].
    - left. exists y. repeat split; [exact Hy|exact Ey|].
      destruct (fst_fuzzy_sound stream f d Hc q (normalized q) k r O) as (Hx & _).
      destruct (Hx y Hy) as (_ & [Hdist|Hdist] & _); rewrite Hdist, Ey; lia.
    - right. now split.
  Qed.

  (* MergedDictionary: the union.  If every child answers completely, so does the merged dictionary — for
     every word of every child (merged_words = the children's words_iter chained) *)
  Theorem merged_answers_completely cs q lq d k :
    Forall (fun c => answers_completely c q lq d k) cs ->
    answers_completely (merged_ops cs) q lq d k.
  Proof.
    intros H.
    assert (exists rs, Forall2 (fun c r => d_fuzzy c q lq d k = Ok r /\ complete_for (d_words c) q d k r) cs rs)
      as (rs & F2).
    { induction H as [|c cs (r & E & C) _ (rs & IH)]; [exists []; constructor|].
      exists (r :: rs). constructor; [now split|exact IH]. }
    assert (F2' : Forall2 (fun c r => d_fuzzy c q lq d k = Ok r) cs rs).
    { clear -F2. induction F2 as [|c r cs rs [E _] _ IH]; constructor; assumption. }
    destruct (merged_fuzzy_spec cs q lq d k rs F2') as (E & Htop).
    exists (firstn k (isort dist_le (concat rs))). split; [exact E|].
    destruct (merged_fuzzy_sound rs k _ Htop) as (_ & _ & _ & Hcov).
    intros w Hw Hne Hd. cbn [merged_ops d_words] in Hw. unfold merged_words in Hw.
    apply in_flat_map in Hw as (c & Hc & Hw). apply Hcov.
    clear -F2 Hc Hw Hne Hd. induction F2 as [|c0 r0 cs rs [_ C] _ IH]; [contradiction|].
    destruct Hc as [->|Hc].
    - exists r0. split; [now left|]. now apply C.
    - destruct (IH Hc) as (ri & Hri & Hcv). exists ri. split; [now right|exact Hcv].
  Qed.

  (* in particular over MutableDictionary children: for a lower-case query no non-empty word of any child
     within the bound is missed by MergedDictionary::fuzzy_match, up to the cap *)
  Corollary merged_mutable_fuzzy_complete dbg ms q lq d k :
    Forall wm_wf ms -> to_lower (normalized q) = normalized q ->
    exists r, merged_fuzzy (map (mut_ops is_lower lower dbg) ms) q lq d k = Ok r /\
      forall m k0 e, In m ms -> In (k0, e) m -> e_canon e <> [] -> lev (normalized q) (e_canon e) <= d ->
        covers r k (e_canon e) (lev (normalized q) (e_canon e)).
  Proof.
    intros Hwf Hl.
    destruct (merged_answers_completely (map (mut_ops is_lower lower dbg) ms) q lq d k) as (r & E & C).
    { apply Forall_forall. intros c Hc. apply in_map_iff in Hc as (m & <- & Hm).
      rewrite Forall_forall in Hwf. now apply mut_answers_completely; [apply Hwf|]. }
    exists r. split; [exact E|]. intros m k0 e Hm Hin Hne Hd. apply C; [|exact Hne|exact Hd].
    cbn [merged_ops d_words]. unfold merged_words. apply in_flat_map.
    exists (mut_ops is_lower lower dbg m). split; [now apply in_map|].
    cbn [mut_ops d_words]. unfold mut_words. apply in_map_iff. now exists (k0, e).
  Qed.
End Complete.

(* ------------------------------------------------------------------------------------------ *)
(** * witnesses *)
(* the declarative contract is satisfiable and pins the stream: {"ab","abc","b"}, query "ab", bound 1 *)
Lemma stream_contract_example :
  let ws := [(w_ab, 2); (w_abc, 1); ([98%N], 3)] in
  stream_contract ws w_ab 1 [(0, 0); (1, 1); (2, 1)] /\
  ~ stream_contract ws w_ab 1 [(0, 0); (2, 1)] /\
  ~ stream_contract ws w_ab 1 [(0, 0); (1, 0); (2, 1)].
Proof.
  cbv zeta. split; [|split].
  - apply stream_contract_iff. vm_compute. reflexivity.
  - intros H. apply stream_contract_iff in H. vm_compute in H. discriminate.
  - intros H. apply stream_contract_iff in H. vm_compute in H. discriminate.
Qed.

(* the premises of the completeness theorems hold on a non-trivial instance: a merged dictionary of a
   MutableDictionary and an FstDictionary, lower-case query "abd", bound 1, cap 1: the one result is at
   distance 1 and every word within the bound is covered *)
Lemma complete_example :
  let m := mut_extend ascii_is_lower ascii_lower [] [(w_abc, 1); ([98%N], 3)] in
  let ws := [(w_ab, 2); (w_AB, 4)] in
  let q := [97; 98; 100]%N in
  to_lower ascii_is_lower ascii_lower (normalized q) = normalized q /\
  wm_wf ascii_is_lower ascii_lower m /\
  merged_fuzzy [mut_ops ascii_is_lower ascii_lower true m;
                fst_ops ascii_is_lower ascii_lower (spec_stream lev) (fst_new ascii_is_lower ascii_lower ws)]
               q (normalized q) 1 1 = Ok [mkfres w_abc 1 1] /\
  lev (normalized q) w_ab = 1 /\ lev (normalized q) w_abc = 1 /\
  covers [mkfres w_abc 1 1] 1 w_ab 1.
Proof.
  cbv zeta. split; [vm_compute; reflexivity|]. split; [apply mut_extend_nil_wf|].
  split; [vm_compute; reflexivity|]. split; [vm_compute; reflexivity|]. split; [vm_compute; reflexivity|].
  right. split; [reflexivity|]. intros x [<-|[]]. cbn. lia.
Qed.
