(* C03StructRootsProofs.v (phase 6) — the premise `wrules_ok` of the LintGroup::lint theorems, PROVED for every whole-document
   (struct) rule whose Lint constructions are classified by the regenerated table Tables_c03structroots.v: the span is a token's
   own span, the hull of a sub-slice, Span::new(a.start, b.end) or the 2-character suffix span of a token, and the tokens are
   tokens of the document (root: document / chunk / sentence / paragraph / helper parameter fed with such tokens).
   GIVEN the C02 token invariant — every token of the document lies inside the source (start <= end <= |source|) — every such
   span lies inside the document, with NO side condition: Span::new panics when a.start > b.end (no lint), pulled_by(2) gives
   None / panics below 2 (no lint).  The rules that are NOT classified are listed by name (computed from the table); only
   they still need a premise.  For dtoks := the concatenation of the chunks the invariant follows from doc_ok (proved). *)
From Coq Require Import List Arith NArith Bool String Lia.
Require Import Base Cache CacheProofs C03LintGroup C03LintGroupProofs C03Roots C03RootsProofs Tables_c03roots.
Require Import C03StructRoots Tables_c03structroots.
Import ListNotations.
Local Open Scope nat_scope.

Section In.
  Variable kind : Type.
  Notation toks := (list (Cache.tok kind)).

  (* THE EXPRESSION LANGUAGE STAYS INSIDE THE DOCUMENT: tokens inside [0, n] => every classified source, for every value of
     the run-time indices, denotes a span with start <= end <= n *)
  Theorem eval_dsrc_in n (ts : toks) dyn a s :
    Forall (tok_within 0 n) ts -> dsrc_classified a = true -> eval_dsrc ts dyn a = Some s -> span_in n s.
  Proof.
    intros F C E. rewrite Forall_forall in F. destruct a; cbn [dsrc_classified] in C; try discriminate; cbn [eval_dsrc] in E.
    - destruct (nth_error ts (dyn 0)) as [t|] eqn:N; cbn [option_map] in E; [|discriminate]. injection E as <-.
      apply nth_error_In in N. destruct (F t N) as (_ & A & B). now split.
    - unfold slice_chk in E. destruct ((dyn 1 <? dyn 0) || (List.length ts <? dyn 1)); [discriminate|].
      destruct (hull_of (firstn (dyn 1 - dyn 0) (skipn (dyn 0) ts))) as [[s'|]|] eqn:H; try discriminate. injection E as <-.
      assert (W : span_within 0 n s').
      { eapply (hull_of_within kind 0 n); [|exact H]. apply Forall_forall. intros t Ht. apply In_firstn_skipn in Ht. now apply F. }
      destruct W as (_ & A & B). now split.
    - destruct (nth_error ts (dyn 0)) as [a0|] eqn:N0; [|discriminate].
      destruct (nth_error ts (dyn 1)) as [b0|] eqn:N1; [|discriminate].
      destruct (span_new (sstart (snd a0)) (send (snd b0))) as [s'|] eqn:SN; [|discriminate]. injection E as <-.
      apply span_new_ok in SN. destruct SN as [-> L]. apply nth_error_In in N1. destruct (F b0 N1) as (_ & _ & B).
      split; cbn [sstart send]; lia.
    - destruct (nth_error ts (dyn 0)) as [t|] eqn:N; [|discriminate]. apply nth_error_In in N. destruct (F t N) as (_ & _ & B).
      unfold pulled_by, span_new_with_len in E. cbn [sstart send] in E.
      destruct (send (snd t) <? 2); [discriminate|]. injection E as <-. split; cbn [sstart send]; lia.
  Qed.

  (* the C02 token invariant, as the struct rules need it: the tokens the rule reads from the document lie inside its source *)
  Definition tokens_in_source (dtoks : ldoc kind -> toks) : Prop :=
    forall d, doc_ok kind d -> Forall (tok_within 0 (List.length (l_src d))) (dtoks d).

  Definition wrule_ok (r : wrule kind) : Prop :=
    forall t d, doc_ok kind d -> Forall (lint_in (List.length (l_src d))) (r t d).

  Theorem struct_wrule_in dtoks srcs sel :
    tokens_in_source dtoks -> forallb dsrc_classified srcs = true -> wrule_ok (struct_wrule dtoks srcs sel).
  Proof.
    intros HT HC t d Hd. unfold struct_wrule. apply Forall_flat_map_intro. intros [[i dyn] payload] _.
    destruct (nth_error srcs i) as [a|] eqn:N; [|constructor].
    destruct (eval_dsrc (dtoks d) dyn a) as [s|] eqn:E; [|constructor]. constructor; [|constructor].
    unfold lint_in. cbn [cl_span]. eapply eval_dsrc_in; [apply HT, Hd| |exact E].
    apply nth_error_In in N. rewrite forallb_forall in HC. now apply HC.
  Qed.

  (* for dtoks := all tokens of all chunks the invariant is a consequence of doc_ok (every chunk's hull ends inside the source) *)
  Lemma hull_of_none_nil (ts : toks) : hull_of ts = Ok None -> ts = [].
  Proof.
    destruct ts as [|t r]; [reflexivity|]. unfold hull_of. cbn [flat_map tok_points app].
    destruct (flat_map tok_points r); cbn [app]; destruct (span_new _ _); cbn [bind]; discriminate.
  Qed.
  Theorem chunk_tokens_in_source : tokens_in_source (fun d => concat (l_chunks d)).
  Proof.
    intros d Hd. apply Forall_forall. intros t Ht. apply in_concat in Ht. destruct Ht as (ts & Hts & Hin).
    destruct (Hd ts Hts) as [Hw Hb]. destruct (hull_of_total kind ts) as [o Ho]. destruct o as [sp|].
    - pose proof (chunk_within kind ts sp Hw Ho) as F. rewrite Forall_forall in F. destruct (F t Hin) as (A & B & C).
      specialize (Hb sp Ho). unfold tok_within. lia.
    - apply hull_of_none_nil in Ho. subst ts. destruct Hin.
  Qed.
End In.
Arguments tokens_in_source {kind}.
Arguments wrule_ok {kind}.

(* ---------- a struct rule of the table ---------- *)
Definition struct_table_rule (dtoks : ldoc pkind -> list (Cache.tok pkind)) (r : wrule pkind) : Prop :=
  exists row sel, In row struct_rule_bodies /\ drow_classified row = true /\ r = struct_wrule dtoks (drow_srcs row) sel.

Lemma drow_classified_srcs row : drow_classified row = true -> forallb dsrc_classified (drow_srcs row) = true.
Proof.
  unfold drow_classified, drow_srcs. intros H. apply andb_true_iff in H. destruct H as [H _].
  rewrite forallb_forall in *. intros a Ha. apply in_map_iff in Ha. destruct Ha as (s & <- & Hs).
  specialize (H s Hs). unfold dsite_classified in H. apply andb_true_iff in H. tauto.
Qed.

Theorem table_struct_rules_ok dtoks (linters : list (N * wrule pkind)) :
  tokens_in_source dtoks ->
  (forall n r, In (n, r) linters -> struct_table_rule dtoks r \/ wrule_ok r) -> wrules_ok pkind linters.
Proof.
  intros HT H n r t d Hin Hd. destruct (H n r Hin) as [(row & sel & _ & HC & ->)|HO]; [|now apply HO].
  apply struct_wrule_in; [exact HT|now apply drow_classified_srcs|exact Hd].
Qed.

(* ---------- what the table says today (re-checked on every run) ---------- *)
Definition struct_rows_unclassified : list string :=
  map d_name (filter (fun r => negb (drow_classified r)) struct_rule_bodies).
(* the rule that still needs a premise: SentenceCapitalization (`first_word.span.with_len(1)`: needs first_word.span.start < |source|,
   i.e. a non-empty word token) *)
Definition struct_rules_with_premise : list string := ["SentenceCapitalization"]%string.
Lemma struct_table_today :
  forallb (fun n => existsb (String.eqb n) struct_rules_with_premise) struct_rows_unclassified = true /\
  15 <= List.length struct_rule_bodies /\
  List.length (filter drow_classified struct_rule_bodies) + List.length struct_rows_unclassified = List.length struct_rule_bodies.
Proof. repeat split; vm_compute; try reflexivity; repeat constructor. Qed.

(* LintGroup::lint whose pattern rules are rules of the pattern table and whose whole-document rules are classified rows of the
   struct table: over every history, given the token invariant, NO premise on the rules; a premise remains only for the
   whole-document rules that are not classified rows (today: struct_rules_with_premise, and rules outside linting/*.rs) *)
Theorem table_struct_lintgroup_history_in_bounds
    (cfg : Type) (enabled : cfg -> N -> bool) (cfg_hash : cfg -> N) (tok_hash : list (Cache.tok pkind) -> N)
    (dtoks : ldoc pkind -> list (Cache.tok pkind))
    (linters : list (N * wrule pkind)) (plinters : list (N * prule pkind)) :
  tokens_in_source dtoks ->
  (forall n r, In (n, r) linters -> struct_table_rule dtoks r \/ wrule_ok r) ->
  (forall n r, In (n, r) plinters -> table_rule r) ->
  forall h st, hist_ok cfg pkind h -> cache_ok (lg_cache st) ->
    exists st' outs, lg_run cfg pkind enabled cfg_hash tok_hash linters plinters h st = Ok (st', outs) /\
                     cache_ok (lg_cache st') /\ map fst outs = hist_docs cfg pkind h /\ outs_in pkind outs.
Proof.
  intros HT HW HP. apply table_lintgroup_history_in_bounds; [|exact HP]. eapply table_struct_rules_ok; eassumption.
Qed.

(* ---------- non-vacuity: the row of MergeWords (Span::new(a.span.start, b.span.end), tokens of document.tokens()) over the
   tokens of the chunks of "ab cd ef." at 2..11 ---------- *)
Definition exs_name : string := "MergeWords"%string.
Definition exs_row : drow :=
  match find (fun r => String.eqb (d_name r) "MergeWords") struct_rule_bodies with Some r => r | None => mkdrow ""%string ""%string [] end.
Definition exs_doc : ldoc pkind := mkldoc (repeat 97%N 11) [exr_chunk] 0%N.
Definition exs_sel : dsel pkind :=
  fun _ _ => [(0, fun j => match j with 0 => 0 | _ => 2 end, 7%N);      (* a = "ab", b = "cd": 2..7 *)
              (0, fun j => match j with 0 => 4 | _ => 0 end, 7%N);      (* a = "ef", b = "ab": Span::new(8, 4) panics: no lint *)
              (1, fun j => match j with 0 => 2 | _ => 4 end, 8%N);      (* second construction: 5..10 *)
              (0, fun _ => 9, 7%N)].                                   (* no such token *)
Definition exs_rule : wrule pkind := struct_wrule (fun d => concat (l_chunks d)) (drow_srcs exs_row) exs_sel.
Example struct_table_rule_example :
  d_name exs_row = exs_name /\ drow_srcs exs_row = [DBetween; DBetween] /\
  struct_table_rule (fun d => concat (l_chunks d)) exs_rule /\
  doc_ok pkind exs_doc /\
  exs_rule 0 exs_doc = [mkclint (mkspan 2 7) 7%N; mkclint (mkspan 5 10) 8%N] /\
  eval_dsrc exr_chunk (fun j => 2 * j + 2) DHull = Some (mkspan 5 8) /\
  eval_dsrc exr_chunk (fun _ => 4) DSuffix = Some (mkspan 8 10) /\
  eval_dsrc [((0, 1%N, 0), mkspan 0 1)] (fun _ => 0) DSuffix = None /\
  (* why DWithLen1 is not classified: an empty token at the end of the source *)
  eval_dsrc [((0, 1%N, 0), mkspan 11 11)] (fun _ => 0) DWithLen1 = Some (mkspan 11 12) /\ ~ span_in 11 (mkspan 11 12).
Proof.
  split; [vm_compute; reflexivity|]. split; [vm_compute; reflexivity|].
  split.
  { exists exs_row, exs_sel. split; [|split; [vm_compute; reflexivity|reflexivity]].
    unfold exs_row. destruct (find (fun r => String.eqb (d_name r) "MergeWords") struct_rule_bodies) as [r|] eqn:Fd; [|vm_compute in Fd; discriminate].
    apply find_some in Fd. exact (proj1 Fd). }
  split.
  { intros ts [<-|[]]. split; [repeat constructor; cbn; lia|]. intros sp Ho. vm_compute in Ho. injection Ho as <-. cbn. lia. }
  repeat split; try (vm_compute; reflexivity). unfold span_in. cbn [sstart send]. lia.
Qed.
