(* C06TextProofs.v — C06 stated on TEXTS: the word tokens are the ones C02's model of Document::new_plain_english
   computes (C06Words.doc_words), not a given list.
     * the premise "tokens in bounds" of the token-level theorems is discharged by C02's tiling theorem
       (DocumentProofs.document_plain_tiling, hypothesis-free);
     * the premise single_word_token is computed: `In sp words` for `doc_words u src = Ok words`; written alone,
       a simple word (letters, or letters ' letters) IS one Word token (C06WordsProofs), so the listed forms
       draw no lint and an unlisted one is reported at [0,|w|). *)
Require Import Base Overlap Tables_lexer Lexer Condense ListLemmas TokenInv DocumentProofs.
Require Import Tables_spellnorm SpellDecision SpellDecisionProofs Tables_f24 C06Words C06WordsProofs.
From Coq Require Import Lia.

(* the Word tokens of a document lie inside its text — from C02's tiling theorem *)
Lemma word_spans_in_range a b ts : Tiling a b ts -> forall sp, In sp (word_spans ts) -> sstart sp <= send sp /\ send sp <= b.
Proof.
  intros T sp H. unfold word_spans in H. apply in_map_iff in H as (t & <- & Ht). apply filter_In in Ht as [Ht _].
  pose proof (tiling_in_range _ _ _ T) as R. pose proof (tiling_nonempty _ _ _ T) as Ne.
  rewrite Forall_forall in R, Ne. specialize (R t Ht). specialize (Ne t Ht). unfold tstart, tend in *. lia.
Qed.

Theorem doc_words_total u s :
  exists words, doc_words u s = Ok words /\ forall sp, In sp words -> span_in (length s) sp.
Proof.
  destruct (document_plain_tiling u s) as (ts & E & T & _). exists (word_spans ts). unfold doc_words. rewrite E.
  split; [reflexivity|]. intros sp H. exact (word_spans_in_range _ _ _ T sp H).
Qed.

Section TextProofs.
  Variable u : uni.
  Variable lc uc : char -> list char.
  Variable is_lower is_upper : char -> bool.
  Variable fuzzy : dict -> text -> nat -> list text.

  Definition listed_form (e : entry) (w : text) : Prop :=
    w = canon e
    \/ (normalized (canon e) = canon e /\ lower_case lc is_lower (canon e) /\ w = capitalise uc (canon e) /\
        Forall (case_regular lc uc) (firstn 1 (canon e)))
    \/ (normalized (canon e) = canon e /\ lower_case lc is_lower (canon e) /\ w = upper uc (canon e) /\
        Forall (case_regular lc uc) (canon e)).

  Lemma lint_text_unfold D d s words : doc_words u s = Ok words ->
    lint_text u lc uc is_lower is_upper fuzzy D d s = lint_doc lc uc is_lower is_upper fuzzy D d s words.
  Proof. intros E. unfold lint_text. rewrite E. reflexivity. Qed.

  (* positive half, any text: no lint of the text has the span of a Word token spelt like a listed form *)
  Theorem text_listed_accepted (HL : lower_fix lc is_lower) D d e src words sp w ls :
    dict_nodup lc is_lower D -> In e D -> dialect_ok (edialect e) d = true ->
    doc_words u src = Ok words -> In sp words -> get_content sp src = Ok w -> listed_form e w ->
    lint_text u lc uc is_lower is_upper fuzzy D d src = Ok ls ->
    forall l, In l ls -> sl_span l <> sp.
  Proof.
    intros ND Hin Hd Ew Hsp G Hw L l Hl Hs. rewrite (lint_text_unfold D d src words Ew) in L.
    destruct (listed_accepted lc uc is_lower is_upper fuzzy HL D d e src words sp w ls ND Hin Hd Hsp G Hw L) as [_ K].
    exact (K l Hl Hs).
  Qed.

  (* converse, any text: a Word token whose id no entry has is reported with exactly its span; the text never
     makes the checker panic.  No premise about the tokens: they are computed. *)
  Theorem text_unlisted_reported (H_uc : forall c, uc c <> []) (HF : fuzzy_listed fuzzy) D d src words sp w :
    dict_nodup lc is_lower D -> doc_words u src = Ok words -> In sp words -> get_content sp src = Ok w ->
    (forall e, In e D -> word_id lc is_lower (canon e) <> word_id lc is_lower w) ->
    exists ls sg, lint_text u lc uc is_lower is_upper fuzzy D d src = Ok ls /\ In (mkslint sp sg) ls.
  Proof.
    intros ND Ew Hsp G Hun. rewrite (lint_text_unfold D d src words Ew).
    destruct (doc_words_total u src) as (words' & Ew' & B). rewrite Ew in Ew'. injection Ew' as <-.
    exact (unlisted_reported lc uc is_lower is_upper fuzzy H_uc HF D d src words sp w ND B Hsp G Hun).
  Qed.

  Theorem text_total (H_uc : forall c, uc c <> []) (HF : fuzzy_listed fuzzy) D d src :
    dict_nodup lc is_lower D -> exists ls, lint_text u lc uc is_lower is_upper fuzzy D d src = Ok ls.
  Proof.
    intros ND. destruct (doc_words_total u src) as (words & Ew & B). rewrite (lint_text_unfold D d src words Ew).
    exact (lint_doc_never_panics lc uc is_lower is_upper fuzzy H_uc HF D d src words ND B).
  Qed.

  (* every lint of a text sits on one of its Word tokens, and each of its (at most three) suggestions is an entry
     of the active dialect, up to upper-casing the first character *)
  Theorem text_suggestions_in_dictionary (HF : fuzzy_listed fuzzy) D d src ls l :
    dict_nodup lc is_lower D -> lint_text u lc uc is_lower is_upper fuzzy D d src = Ok ls -> In l ls ->
    (exists words, doc_words u src = Ok words /\ In (sl_span l) words) /\
    length (sl_sugg l) <= suggestions_kept /\
    forall s, In s (sl_sugg l) ->
      exists e, In e D /\ dialect_ok (edialect e) d = true /\ (s = canon e \/ cap_first uc (canon e) = Ok s).
  Proof.
    intros ND L Hl. destruct (doc_words_total u src) as (words & Ew & _).
    rewrite (lint_text_unfold D d src words Ew) in L.
    apply (lint_doc_in lc uc is_lower is_upper fuzzy D d src words ls L l) in Hl as (sp & Hsp & W).
    pose proof W as W'. apply (lint_word_cases lc uc is_lower is_upper fuzzy) in W' as (w' & _ & _ & E & _).
    split; [exists words; rewrite E; auto|].
    exact (suggestions_in_dictionary lc uc is_lower is_upper fuzzy HF D d src sp l ND W).
  Qed.

  (* ---------- a word written alone: the premise single_word_token as the COMPUTED predicate one_word ---------- *)
  Lemma get_content_all (w : text) : get_content (mkspan 0 (length w)) w = Ok w.
  Proof. destruct w as [|c r]; [reflexivity|]. apply get_content_whole. discriminate. Qed.

  Theorem one_word_alone_accepted (HL : lower_fix lc is_lower) D d e w :
    dict_nodup lc is_lower D -> In e D -> dialect_ok (edialect e) d = true ->
    one_word u w = true -> listed_form e w ->
    lint_text u lc uc is_lower is_upper fuzzy D d w = Ok [].
  Proof.
    intros ND Hin Hd Sw Hw. rewrite (lint_text_unfold D d w _ (one_word_spec u w Sw)).
    pose proof (listed_forms_accepts lc uc is_lower HL D d e w ND Hin Hd Hw) as A.
    cbn [lint_doc]. rewrite (lint_word_accepted lc uc is_lower is_upper fuzzy D d w _ w (get_content_all w) A).
    reflexivity.
  Qed.

  Theorem one_word_alone_reported (H_uc : forall c, uc c <> []) (HF : fuzzy_listed fuzzy) D d w :
    dict_nodup lc is_lower D -> one_word u w = true ->
    (forall e, In e D -> word_id lc is_lower (canon e) <> word_id lc is_lower w) ->
    exists sg, lint_text u lc uc is_lower is_upper fuzzy D d w = Ok [mkslint (mkspan 0 (length w)) sg].
  Proof.
    intros ND Sw Hun. rewrite (lint_text_unfold D d w _ (one_word_spec u w Sw)).
    destruct (lint_word_rejected lc uc is_lower is_upper fuzzy H_uc HF D d w _ w ND (get_content_all w)
                (unlisted_rejected lc is_lower D d w Hun)) as [sg W].
    exists sg. cbn [lint_doc]. rewrite W. reflexivity.
  Qed.
End TextProofs.

(* ================= the generated table of multi-token entries (F24) ================= *)
(* every entry of the table, written alone, is NOT exactly one Word token (and the model lexer does not panic on it) *)
Lemma f24_table_check :
  forallb (fun e => negb (one_word f24_uni e) && is_ok (document_plain f24_uni e)) f24_entries = true.
Proof. vm_compute. reflexivity. Qed.

Theorem f24_entries_not_one_word e : In e f24_entries ->
  one_word f24_uni e = false /\ exists ts, document_plain f24_uni e = Ok ts.
Proof.
  intros H. pose proof f24_table_check as C. rewrite forallb_forall in C. specialize (C e H).
  apply andb_true_iff in C as [C1 C2]. apply negb_true_iff in C1. split; [exact C1|].
  destruct (document_plain f24_uni e) as [ts|]; [eauto|discriminate].
Qed.

Lemma f24_table_size : length f24_entries = f24_entry_count /\ 0 < f24_entry_count.
Proof. vm_compute. split; [reflexivity|]. repeat constructor. Qed.

(* the table's own Unicode predicates satisfy the laws of the characterisation ... *)
Lemma flag_of_true tab sel c : flag_of tab sel c = true -> In c (map fst (filter (fun p => sel (snd p)) tab)).
Proof.
  unfold flag_of. destruct (find (fun p => N.eqb (fst p) c) tab) as [p|] eqn:F; [|discriminate].
  intros H. apply find_some in F as [F1 F2]. apply N.eqb_eq in F2. subst c.
  apply in_map. apply filter_In. split; assumption.
Qed.
Definition f24_letters : list N := map fst (filter (fun p => let '(_, _, _, l) := snd p in l) f24_alphabet).
Definition f24_letter_ok (c : N) : bool :=
  u_alphabetic f24_uni c && negb (u_numeric f24_uni c) &&
  match punct_from_char c with None => true | Some _ => false end &&
  negb (mem_n c quote_chars) && negb (ceq c 9) && negb (ceq c 10) && negb (ceq c 32) && negb (is_ascii_digit c).
Lemma f24_letters_ok : forallb f24_letter_ok f24_letters = true /\ f24_letters <> [].
Proof. split; [vm_compute; reflexivity|vm_compute; discriminate]. Qed.

Lemma f24_letter_laws : letter_laws f24_uni.
Proof.
  assert (K : forall c, u_lingual f24_uni c = true -> f24_letter_ok c = true).
  { intros c H. destruct f24_letters_ok as [A _]. rewrite forallb_forall in A. apply A.
    apply (flag_of_true f24_alphabet (fun '(_, _, _, l) => l) c H). }
  unfold letter_laws. repeat split; try (intros c H; pose proof (K c H) as Q; unfold f24_letter_ok in Q;
    repeat (apply andb_true_iff in Q as [Q ?])).
  - exact Q.
  - apply negb_true_iff. assumption.
  - destruct (punct_from_char c); [discriminate|reflexivity].
  - apply negb_true_iff. assumption.
  - intros ->. discriminate.
  - intros ->. discriminate.
  - intros ->. discriminate.
  - apply negb_true_iff. assumption.
  - apply apos_cases in H as [->| ->]; vm_compute; reflexivity.
  - apply apos_cases in H as [->| ->]; vm_compute; reflexivity.
Qed.

(* ... hence no entry of the table is a simple word (letters, or letters ' letters): such a word is one Word token *)
Theorem f24_entries_not_simple e : In e f24_entries -> ~ simple_word f24_uni e.
Proof.
  intros H S. destruct (f24_entries_not_one_word e H) as [N _].
  rewrite (simple_word_one_word f24_uni f24_letter_laws e S) in N. discriminate.
Qed.

(* ---------- F24 on a text: the witness of SpellDecisionProofs.multi_token_refuted with COMPUTED tokens ---------- *)
Theorem multi_token_text_refuted :
  exists D d e ls,
    dict_nodup ascii_lc ascii_is_lower D /\ In e D /\ dialect_ok (edialect e) d = true /\
    one_word ascii_uni0 (canon e) = false /\
    doc_words ascii_uni0 (canon e) = Ok f24_words /\
    lint_text ascii_uni0 ascii_lc ascii_uc ascii_is_lower ascii_is_upper no_fuzzy D d (canon e) = Ok ls /\ ls <> [].
Proof.
  exists f24_dict, American, (mkentry w_socio_political None), [mkslint (mkspan 0 5) []].
  split; [exact f24_nodup|]. split; [left; reflexivity|]. split; [reflexivity|].
  split; [vm_compute; reflexivity|]. split; [vm_compute; reflexivity|]. split; [vm_compute; reflexivity|discriminate].
Qed.

(* ---------- non-vacuity: the laws hold for the ASCII restriction of Unicode ---------- *)
Lemma ascii_letter_laws : letter_laws ascii_uni0.
Proof.
  unfold letter_laws, ascii_uni0, u_alphanumeric; cbn [u_lingual u_alphabetic u_numeric u_whitespace].
  assert (R : forall c, is_ascii_alphabetic c = true -> (65 <= c <= 90)%N \/ (97 <= c <= 122)%N).
  { intros c H. unfold is_ascii_alphabetic, is_ascii_upper, is_ascii_lower, in_range in H.
    apply orb_prop in H as [H|H]; apply andb_true_iff in H as [H1 H2]; apply N.leb_le in H1, H2; [left|right]; split; assumption. }
  repeat split.
  - intros c H. exact H.
  - intros c H. apply R in H. unfold is_ascii_digit, in_range. apply andb_false_iff.
    destruct H as [[H1 H2]|[H1 H2]]; right; apply N.leb_gt; lia.
  - intros c H. apply R in H. unfold punct_from_char, currency_from_char.
    repeat match goal with
           | |- context [(c =? ?k)%N] => destruct (N.eqb_spec c k) as [->|_]; [exfalso; lia|]
           end. reflexivity.
  - intros c H. apply R in H. unfold mem_n, quote_chars. cbn [existsb].
    repeat match goal with
           | |- context [(c =? ?k)%N] => destruct (N.eqb_spec c k) as [->|_]; [exfalso; lia|]
           end. reflexivity.
  - apply R in H. lia.
  - apply R in H. lia.
  - apply R in H. lia.
  - intros c H. apply R in H. unfold is_ascii_digit, in_range. apply andb_false_iff.
    destruct H as [[H1 H2]|[H1 H2]]; right; apply N.leb_gt; lia.
  - apply apos_cases in H as [->| ->]; reflexivity.
  - apply apos_cases in H as [->| ->]; reflexivity.
Qed.
