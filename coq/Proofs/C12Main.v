(* C12Main.v — the final theorem: H_rules_local reduced to its residue.
   The rule list of LintGroup::new_curated is BUILT from the generated table (Tables_c12rules.struct_rules): a row whose
   shape denotes a proved schema becomes the instance `mk (body name)` of that schema for an ARBITRARY per-slice body;
   a merge_linters! row becomes remove_overlaps over the union of chunk-schema instances of its sub-rules' bodies, a
   ThenRemoveOverlaps row remove_overlaps over the instance of its inner schema; every other row is an arbitrary rule
   `other name`.  Phase 5: the UnclosedQuotes row (TokenLoop) becomes the EXACT body C12Windows.unclosed_quotes; a
   TupleWindows n / Neighbourhood 0 (n-1) row with a complete kind guard of length n in the generated `window_guards`
   becomes `guarded_rule guard (body name)` for an arbitrary body.  What is assumed: (1) para_local (other name) for the names in `residue` — computed from the table,
   pinned to ONE name (CommaFixes; five before phase 5); (2) for the bodies that run under a document-wide remove_overlaps (`ro_bodies`, pinned to ten
   names): every lint they report lies inside the slice (g0_inside).  Nothing is assumed of the pattern rules (chunk_fn). *)
From Coq Require Import List String Arith Lia Sorting.Permutation.
Require Import Base Overlap Lexer ParaSplit ParaSplitProofs C12Doc LexSplitProofs C12CondSplit
  Tables_c12rules C12RuleShapes C12Merge C12MergeProofs C12Windows C12WindowsProofs.
Import ListNotations.
Open Scope list_scope.

Definition row := (string * string * string * rule_shape * bool * list string)%type.
Definition row_subs (r : row) : list string := let '(_, _, _, _, _, s) := r in s.
Definition body := list tok -> text -> list lint.

(* the iterator a shape walks the document with *)
Definition iter_pred (s : rule_shape) : option (kind -> bool) :=
  match s with
  | IterChunks => Some is_chunk_terminator
  | IterSentences => Some is_sentence_terminator
  | IterParagraphs => Some is_paragraph_break
  | _ => None
  end.

(* a window body with a complete kind guard (Tables_c12rules.window_guards) of the width the shape says *)
Definition guarded_row (g0 : string -> body) (name : string) (n : nat) : option rule :=
  match guard_of name window_guards with
  | Some g => if Nat.eqb (length g) n && negb (Nat.eqb n 0) then Some (guarded_rule g (g0 name)) else None
  | None => None
  end.

Lemma guarded_row_local g0 name n x : guarded_row g0 name n = Some x -> para_local x.
Proof.
  unfold guarded_row. destruct (guard_of name window_guards) as [g|]; [|discriminate].
  destruct (Nat.eqb (length g) n && negb (Nat.eqb n 0)) eqn:E; [|discriminate]. intros [= <-].
  apply guarded_local. intros ->. apply andb_true_iff in E. destruct E as [E1 E2].
  apply Nat.eqb_eq in E1. cbn [length] in E1. subst n. discriminate.
Qed.

(* the rule a row denotes, given the per-slice bodies by name; None = outside every proved shape *)
Definition row_rule (g0 : string -> body) (r : row) : option rule :=
  match resolve (row_shape r) with
  | Merge =>
      match iter_pred (resolve ViaPatternLinter) with           (* the sub-rules are PatternLinters: blanket impl *)
      | Some p => Some (merge_rule (map (fun sub => schema_rule p (g0 sub)) (row_subs r)))
      | None => None
      end
  | ThenRemoveOverlaps inner =>
      match iter_pred (resolve inner) with
      | Some p => Some (then_remove_overlaps (schema_rule p (g0 (row_name r))))
      | None => None
      end
  | TokenLoop =>                                                     (* the one token loop that is modelled exactly *)
      if String.eqb (row_name r) "UnclosedQuotes" then Some unclosed_quotes else None
  | TupleWindows n => guarded_row g0 (row_name r) n
  | Neighbourhood 0 fwd => guarded_row g0 (row_name r) (S fwd)
  | s => match shape_schema s with Some mk => Some (mk (g0 (row_name r))) | None => None end
  end.

(* the bodies that run under a document-wide remove_overlaps *)
Definition row_ro_bodies (r : row) : list string :=
  match resolve (row_shape r) with
  | Merge => row_subs r
  | ThenRemoveOverlaps _ => [row_name r]
  | _ => []
  end.
Definition ro_bodies : list string := flat_map row_ro_bodies struct_rules.

Definition covered (r : row) : bool :=
  match row_rule (fun _ _ _ => []) r with Some _ => true | None => false end.
Definition residue : list string := map row_name (filter (fun r => negb (covered r)) struct_rules).

Definition curated_rules (g0 : string -> body) (other : string -> rule) : list rule :=
  map (fun r => match row_rule g0 r with Some x => x | None => other (row_name r) end) struct_rules.

Lemma iter_pred_local s p g0 : iter_pred s = Some p -> para_local (schema_rule p g0).
Proof.
  destruct s; cbn [iter_pred]; intros H; try discriminate; injection H as <-; apply schema_local.
Qed.

Lemma row_rule_local g0 r x :
  row_rule g0 r = Some x -> (forall b, In b (row_ro_bodies r) -> g0_inside (g0 b)) -> para_local x.
Proof.
  unfold row_rule, row_ro_bodies. intros H Hin.
  destruct (resolve (row_shape r)) as [| | | | | |n|back fwd| |inner] eqn:Es;
    try (destruct (shape_schema _) as [mk|] eqn:Em; [|discriminate]; injection H as <-;
         eapply shape_local; exact Em).
  - (* TokenLoop: UnclosedQuotes, exact body *)
    destruct (String.eqb (row_name r) "UnclosedQuotes"); [|discriminate]. injection H as <-.
    apply unclosed_quotes_local.
  - (* TupleWindows *) eapply guarded_row_local; exact H.
  - (* Neighbourhood *)
    destruct back; [eapply guarded_row_local; exact H|].
    cbn [shape_schema] in H. discriminate.
  - (* Merge *)
    destruct (iter_pred (resolve ViaPatternLinter)) as [p|] eqn:Ep; [|discriminate]. injection H as <-.
    apply merge_local; apply Forall_forall; intros q Hq; apply in_map_iff in Hq; destruct Hq as (sub & <- & Hsub).
    + eapply iter_pred_local; exact Ep.
    + apply schema_inside. now apply Hin.
  - (* ThenRemoveOverlaps *)
    destruct (iter_pred (resolve inner)) as [p|] eqn:Ep; [|discriminate]. injection H as <-.
    apply then_remove_overlaps_local.
    + eapply iter_pred_local; exact Ep.
    + apply schema_inside. apply Hin. now left.
Qed.

Lemma covered_spec g0 r : covered r = match row_rule g0 r with Some _ => true | None => false end.
Proof.
  unfold covered, row_rule, guarded_row.
  destruct (resolve (row_shape r)) as [| | | | | |n|back fwd| |inner]; try reflexivity;
    try (destruct (shape_schema _); reflexivity).
  - destruct (guard_of _ _) as [g|]; [|reflexivity]. destruct (_ && _); reflexivity.
  - destruct back; [|reflexivity]. destruct (guard_of _ _) as [g|]; [|reflexivity]. destruct (_ && _); reflexivity.
  - destruct inner; reflexivity.
Qed.

Theorem curated_rules_local g0 other :
  (forall name, In name residue -> para_local (other name)) ->
  (forall b, In b ro_bodies -> g0_inside (g0 b)) ->
  Forall para_local (curated_rules g0 other).
Proof.
  intros Hres Hro. unfold curated_rules. apply Forall_forall. intros x Hx.
  apply in_map_iff in Hx. destruct Hx as (r & <- & Hr).
  destruct (row_rule g0 r) as [y|] eqn:E.
  - eapply row_rule_local; [exact E|]. intros b Hb. apply Hro. unfold ro_bodies. apply in_flat_map. now exists r.
  - apply Hres. unfold residue. apply in_map. apply filter_In. split; [exact Hr|].
    rewrite (covered_spec g0), E. reflexivity.
Qed.

(* the table side, recomputed on every run: exactly ONE rule is outside every proved shape (phase 4: five), exactly ten
   bodies run under a document-wide remove_overlaps *)
Definition residue_expected : list string := ["CommaFixes"]%string.
Definition ro_bodies_expected : list string :=
  ["ToHop"; "ToHope"; "GeneralCompoundNouns"; "ImpliedInstantiatedCompoundNouns"; "ImpliedOwnershipCompoundNouns";
   "ShouldContract"; "AvoidContraction"; "CurrencyPlacement"; "LetUsRedundancy"; "NoContractionWithVerb"]%string.

Theorem residue_pinned :
  residue = residue_expected /\ ro_bodies = ro_bodies_expected /\
  length (filter covered struct_rules) + length residue_expected = length struct_rules.
Proof. repeat split; vm_compute; reflexivity. Qed.

Theorem main u :
  u_whitespace u NL = true -> u_numeric u NL = false -> u_alphabetic u NL = false -> u_lingual u NL = false ->
  forall chunk_fn (g0 : string -> body) (other : string -> rule),
  (forall name, In name residue_expected -> para_local (other name)) ->
  (forall b, In b ro_bodies_expected -> g0_inside (g0 b)) ->
  forall P D, c12_premise P -> no_leading_nl D ->
    Permutation (lints (doc_tokens u) chunk_fn (curated_rules g0 other) (P ++ D))
                (lints (doc_tokens u) chunk_fn (curated_rules g0 other) P
                 ++ map (shift_lint (length P)) (lints (doc_tokens u) chunk_fn (curated_rules g0 other) D)).
Proof.
  intros H1 H2 H3 H4 chunk_fn g0 other Hres Hro P D HP HD.
  apply (main_lexer_rules u H1 H2 H3 H4); [|exact HP|exact HD].
  destruct residue_pinned as (E1 & E2 & _).
  apply curated_rules_local; [rewrite E1|rewrite E2]; assumption.
Qed.

(* the same with the residue spelled out: ONE rule *)
Theorem main_final u :
  u_whitespace u NL = true -> u_numeric u NL = false -> u_alphabetic u NL = false -> u_lingual u NL = false ->
  forall chunk_fn (g0 : string -> body) (other : string -> rule),
  para_local (other "CommaFixes"%string) ->
  (forall b, In b ro_bodies_expected -> g0_inside (g0 b)) ->
  forall P D, c12_premise P -> no_leading_nl D ->
    Permutation (lints (doc_tokens u) chunk_fn (curated_rules g0 other) (P ++ D))
                (lints (doc_tokens u) chunk_fn (curated_rules g0 other) P
                 ++ map (shift_lint (length P)) (lints (doc_tokens u) chunk_fn (curated_rules g0 other) D)).
Proof.
  intros H1 H2 H3 H4 chunk_fn g0 other Hc Hro. apply (main u H1 H2 H3 H4); [|exact Hro].
  intros name [<-|[]]. exact Hc.
Qed.

(* the table side of phase 5 (recomputed on every run): the three guarded window bodies, and what the rows of the four
   rules that left the residue denote *)
Definition window_guards_expected : list (string * list kpat) :=
  [("AdjectiveOfA", [PWord; PWhitespace; PWord; PWhitespace; PWord]); ("MergeWords", [PWord; PWhitespace; PWord]);
   ("InflectedVerbAfterTo", [PWord; PWhitespace; PWord])]%string.
Definition row_of (name : string) : option row := find (fun r => String.eqb (row_name r) name) struct_rules.
Definition rule_of (g0 : string -> body) (name : string) : option rule :=
  match row_of name with Some r => row_rule g0 r | None => None end.

Theorem windows_pinned g0 :
  window_guards = window_guards_expected /\
  rule_of g0 "UnclosedQuotes" = Some unclosed_quotes /\
  rule_of g0 "MergeWords" = Some (guarded_rule [PWord; PWhitespace; PWord] (g0 "MergeWords"%string)) /\
  rule_of g0 "InflectedVerbAfterTo" = Some (guarded_rule [PWord; PWhitespace; PWord] (g0 "InflectedVerbAfterTo"%string)) /\
  rule_of g0 "AdjectiveOfA"
  = Some (guarded_rule [PWord; PWhitespace; PWord; PWhitespace; PWord] (g0 "AdjectiveOfA"%string)) /\
  rule_of g0 "CommaFixes" = None.
Proof. repeat split; reflexivity. Qed.

(* non-vacuity of the guarded windows: `ab cd.` BREAK `ef gh` — the guard Word, whitespace, Word passes once on each side
   and on no window that contains the break; glued = separately + shifted *)
Definition gw_A : list tok :=
  [mktok (mkspan 0 2) KWord; mktok (mkspan 2 3) KSpace; mktok (mkspan 3 5) KWord; mktok (mkspan 5 6) KPeriod;
   mktok (mkspan 6 8) KBreak].
Definition gw_B : list tok := [mktok (mkspan 0 2) KWord; mktok (mkspan 2 3) KNewline; mktok (mkspan 3 5) KWord].
Definition gw_P : text := [97; 98; 32; 99; 100; 46; 10; 10]%N.
Definition gw_D : text := [101; 102; 10; 103; 104]%N.
Lemma guarded_example :
  let r := guarded_rule [PWord; PWhitespace; PWord] whole_window in
  let spans := map (fun l => (lstart l, lend l)) in
  spans (r gw_A gw_P) = [(0, 5)] /\ spans (r gw_B gw_D) = [(0, 5)] /\
  spans (r (gw_A ++ map (shift_tok 8 5) gw_B) (gw_P ++ gw_D)) = [(0, 5); (8, 13)] /\
  length (windows 3 (gw_A ++ map (shift_tok 8 5) gw_B)) = 6.
Proof. repeat split; vm_compute; reflexivity. Qed.

(* non-vacuity: bodies that report (the first character of every slice / the whole slice), all ten remove_overlaps
   bodies inside; the residue rule (CommaFixes) as a one-token window rule; the rule list has 74 entries and on a two-paragraph
   text the merged rules really drop overlapping lints *)
Definition ex_g0 (name : string) : body :=
  fun c chars => match chars with [] => [] | _ :: _ => [mklint (mkspan 0 1) (length c); mklint (mkspan 0 (length chars)) 7] end.
Definition ex_other (name : string) : rule := window_rule 1 (fun c chars => [mklint (mkspan 0 (length chars)) 1]).

Definition ex_merge_subs : list rule :=
  [schema_rule is_chunk_terminator (ex_g0 "ToHop"); schema_rule is_chunk_terminator (ex_g0 "ToHope")].

Lemma ex_g0_inside name : g0_inside (ex_g0 name).
Proof.
  intros c chars. unfold ex_g0. destruct chars as [|x r]; [constructor|].
  constructor; [|constructor; [|constructor]]; unfold lint_inside, lstart, lend; cbn [lspan sstart send length]; lia.
Qed.

Lemma main_hyps_satisfiable :
  (forall name, In name residue_expected -> para_local (ex_other name)) /\
  (forall b, In b ro_bodies_expected -> g0_inside (ex_g0 b)) /\
  length (curated_rules ex_g0 ex_other) = 74 /\
  (let ts := [mktok (mkspan 0 2) KWord; mktok (mkspan 2 3) KComma; mktok (mkspan 3 4) KSpace; mktok (mkspan 4 6) KWord] in
   let src := [72; 105; 44; 32; 121; 111]%N in
   map (fun l => (lstart l, lend l)) (merge_rule [schema_rule is_chunk_terminator (ex_g0 "ToHop"); schema_rule is_chunk_terminator (ex_g0 "ToHope")] ts src)
   = [(0, 3); (3, 6)] /\
   length (flat_map (fun r => r ts src) [schema_rule is_chunk_terminator (ex_g0 "ToHop"); schema_rule is_chunk_terminator (ex_g0 "ToHope")]) = 8).
Proof.
  split; [intros name _; apply window_local; lia|].
  split; [intros b _; apply ex_g0_inside|].
  split; [vm_compute; reflexivity|]. split; vm_compute; reflexivity.
Qed.
