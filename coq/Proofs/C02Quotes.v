(* C02Quotes.v — Document::match_quotes on EVERY token vector (no hypothesis on the twin_loc fields the vector
   arrives with).  The quotes are paired in order of appearance, (1st,2nd), (3rd,4th) …; every paired quote
   afterwards points at an existing quote that points back.  With an odd number of quotes the last one is
   never written: it keeps the twin_loc it came with — None for every parser of harper-core (lex_quote), so
   QuotesOk holds; a vector that ARRIVES with a stale twin_loc on that last quote keeps it (the witness below:
   the limit of the statement, not reachable through any front-end of the repository). *)
Require Import Base Overlap OverlapProofs Tables_lexer Lexer Condense ListLemmas TokenInv CondenseInv LexerProofs
  CondSuffixQuotes.
From Coq Require Import List Arith Lia.
Import ListNotations.

(* the quote indices match_quotes writes, and the one it leaves alone *)
Fixpoint paired (qi : list nat) : list nat :=
  match qi with a :: b :: r => a :: b :: paired r | _ => [] end.
Fixpoint leftover (qi : list nat) : option nat :=
  match qi with a :: b :: r => leftover r | [a] => Some a | [] => None end.

Lemma paired_or_leftover : forall n qi i, length qi <= n -> In i qi -> In i (paired qi) \/ leftover qi = Some i.
Proof.
  induction n as [|n IH]; intros qi i Hl Hin.
  - destruct qi; [destruct Hin|cbn in Hl; lia].
  - destruct qi as [|a [|b r]]; [destruct Hin| |].
    + destruct Hin as [<-|[]]. right. reflexivity.
    + cbn [paired leftover]. destruct Hin as [<-|[<-|Hin]]; [left; left; reflexivity|left; right; left; reflexivity|].
      destruct (IH r i ltac:(cbn [length] in Hl; lia) Hin) as [H|H]; [left; right; right; exact H|right; exact H].
Qed.

Lemma paired_in : forall n qi i, length qi <= n -> In i (paired qi) -> In i qi.
Proof.
  induction n as [|n IH]; intros qi i Hl Hin.
  - destruct qi; [destruct Hin|cbn in Hl; lia].
  - destruct qi as [|a [|b r]]; [destruct Hin|destruct Hin|].
    cbn [paired] in Hin. destruct Hin as [<-|[<-|Hin]]; [left; reflexivity|right; left; reflexivity|].
    right; right. apply (IH r i); [cbn [length] in Hl; lia|exact Hin].
Qed.

Lemma leftover_in : forall n l x, length l <= n -> leftover l = Some x -> In x l.
Proof.
  induction n as [|n IH]; intros l x Hlen Hl.
  - destruct l; [discriminate|cbn in Hlen; lia].
  - destruct l as [|a [|b r]]; [discriminate| |].
    + cbn in Hl. injection Hl as <-. left. reflexivity.
    + cbn [leftover] in Hl. right; right. apply (IH r x); [cbn [length] in Hlen; lia|exact Hl].
Qed.

Lemma mq_loop_any : forall n qi toks,
  length qi <= n -> NoDup qi ->
  (forall i, In i qi -> exists t tw, nth_error toks i = Some t /\ quote_twin t = Some tw) ->
  exists toks', mq_loop qi toks = Ok toks' /\
    map tspan toks' = map tspan toks /\ map stripk toks' = map stripk toks /\
    (forall i, ~ In i (paired qi) -> nth_error toks' i = nth_error toks i) /\
    (forall i t j, In i (paired qi) -> nth_error toks' i = Some t -> quote_twin t = Some (Some j) ->
       j <> i /\ exists t', nth_error toks' j = Some t' /\ quote_twin t' = Some (Some i)).
Proof.
  induction n as [|n IH]; intros qi toks Hlen Hnd Hq.
  - destruct qi; [|cbn in Hlen; lia]. exists toks. cbn [mq_loop paired].
    split; [reflexivity|]. split; [reflexivity|]. split; [reflexivity|].
    split; [reflexivity|]. intros i t j [].
  - destruct qi as [|a [|b r]].
    + exists toks. cbn [mq_loop paired]. split; [reflexivity|]. split; [reflexivity|]. split; [reflexivity|].
      split; [reflexivity|]. intros i t j [].
    + exists toks. cbn [mq_loop paired]. split; [reflexivity|]. split; [reflexivity|]. split; [reflexivity|].
      split; [reflexivity|]. intros i t j [].
    + inversion Hnd as [|a0 l0 Hna Hnd1]; subst. inversion Hnd1 as [|b0 l1 Hnb Hnd2]; subst.
      assert (a <> b) as Hab by (intros ->; apply Hna; left; reflexivity).
      assert (~ In a r) as Har by (intros H; apply Hna; right; exact H).
      destruct (Hq a ltac:(left; reflexivity)) as [ta [twa [Hna0 Hqa]]].
      destruct (Hq b ltac:(right; left; reflexivity)) as [tb [twb [Hnb0 Hqb]]].
      destruct (set_twin_spec toks a b ta twa Hna0 Hqa) as [t1 [E1 [H1a [H1o [H1s H1k]]]]].
      assert (nth_error t1 b = Some tb) as Hnb1 by (rewrite H1o by congruence; exact Hnb0).
      destruct (set_twin_spec t1 b a tb twb Hnb1 Hqb) as [t2 [E2 [H2b [H2o [H2s H2k]]]]].
      assert (nth_error t2 a = Some (mktok (tspan ta) (KPunct (PQuote (Some b))))) as H2a
        by (rewrite H2o by congruence; exact H1a).
      destruct (IH r t2) as [toks' [EL [Hs [Hk [Ho Htw]]]]].
      * cbn [length] in Hlen. lia.
      * exact Hnd2.
      * intros i Hin. rewrite H2o by (intros ->; contradiction).
        rewrite H1o by (intros ->; contradiction). apply Hq. right; right; exact Hin.
      * assert (Hpr : forall i, In i (paired r) -> In i r)
          by (intros i; apply (paired_in (length r)); apply le_n).
        exists toks'. cbn [mq_loop paired]. rewrite E1. cbn [bind]. rewrite E2. cbn [bind].
        split; [exact EL|]. split; [congruence|]. split; [congruence|]. split.
        -- intros i Hni. rewrite Ho by (intros H; apply Hni; right; right; exact H).
           rewrite H2o by (intros ->; apply Hni; right; left; reflexivity).
           apply H1o. intros ->; apply Hni; left; reflexivity.
        -- intros i t j Hin Hn Hq'.
           assert (nth_error toks' a = Some (mktok (tspan ta) (KPunct (PQuote (Some b))))) as Ha'
             by (rewrite Ho by (intros H; apply Har; apply Hpr; exact H); exact H2a).
           assert (nth_error toks' b = Some (mktok (tspan tb) (KPunct (PQuote (Some a))))) as Hb'
             by (rewrite Ho by (intros H; apply Hnb; apply Hpr; exact H); exact H2b).
           destruct Hin as [<-|[<-|Hin]].
           ++ rewrite Ha' in Hn. assert (t = mktok (tspan ta) (KPunct (PQuote (Some b)))) as -> by congruence.
              unfold quote_twin in Hq'. cbn [tkind_of] in Hq'. assert (j = b) as -> by congruence.
              split; [congruence|]. eexists. split; [exact Hb'|]. reflexivity.
           ++ rewrite Hb' in Hn. assert (t = mktok (tspan tb) (KPunct (PQuote (Some a)))) as -> by congruence.
              unfold quote_twin in Hq'. cbn [tkind_of] in Hq'. assert (j = a) as -> by congruence.
              split; [congruence|]. eexists. split; [exact Ha'|]. reflexivity.
           ++ apply (Htw i t j Hin Hn Hq').
Qed.

(* quote tokens, except the token `ex`, point at existing twin quotes that point back *)
Definition QuotesOkBut (ex : option nat) (ts : list token) : Prop :=
  forall i t j, nth_error ts i = Some t -> quote_twin t = Some (Some j) -> ex <> Some i ->
    j <> i /\ exists t', nth_error ts j = Some t' /\ quote_twin t' = Some (Some i).

Definition unpaired_quote (ts : list token) : option nat := leftover (quote_indices ts 0).

Lemma quote_twin_is_quote t tw : quote_twin t = Some tw -> is_quote (tkind_of t) = true.
Proof. unfold quote_twin. destruct (tkind_of t); try discriminate. destruct p; try discriminate. reflexivity. Qed.

Lemma quote_indices_complete : forall ts i j t, nth_error ts j = Some t -> is_quote (tkind_of t) = true ->
  In (i + j) (quote_indices ts i).
Proof.
  induction ts as [|x ts IH]; intros i j t Hn Hq; [destruct j; discriminate|].
  cbn [quote_indices]. destruct j as [|j].
  - cbn in Hn. injection Hn as ->. rewrite Hq. left. lia.
  - cbn [nth_error] in Hn. specialize (IH (S i) j t Hn Hq). replace (i + S j) with (S i + j) by lia.
    destruct (is_quote (tkind_of x)); [right; exact IH|exact IH].
Qed.

(* match_quotes on ANY token vector *)
Theorem match_quotes_any : forall ts,
  exists ts', match_quotes ts = Ok ts' /\ SameButTwins ts ts' /\
    QuotesOkBut (unpaired_quote ts) ts' /\
    (forall i, unpaired_quote ts = Some i -> nth_error ts' i = nth_error ts i).
Proof.
  intros ts. set (qi := quote_indices ts 0).
  destruct (mq_loop_any (length qi) qi ts (le_n _) (quote_indices_nodup ts 0)) as [ts' [E [Hs [Hk [Ho Htw]]]]].
  - intros i Hin. apply quote_indices_in in Hin. destruct Hin as [_ [t [Hn Hq]]].
    rewrite Nat.sub_0_r in Hn. destruct (is_quote_twin t Hq) as [tw Htw]. exists t, tw. split; assumption.
  - exists ts'. split; [exact E|]. split; [split; [exact Hs|exact Hk]|]. split.
    + intros i t j Hn Hq Hex.
      assert (In i qi) as Hin.
      { (* i holds a quote in ts' hence in ts *)
        assert (exists t0, nth_error ts i = Some t0 /\ is_quote (tkind_of t0) = true) as [t0 [Hn0 Hq0]].
        { assert (nth_error (map stripk ts') i = Some (stripk t)) as M by (rewrite nth_error_map, Hn; reflexivity).
          rewrite Hk, nth_error_map in M. destruct (nth_error ts i) as [t0|] eqn:E0; [|discriminate].
          exists t0. split; [reflexivity|]. cbn [option_map] in M. injection M as M.
          apply quote_twin_is_quote in Hq. unfold stripk, strip_twin in M.
          destruct (tkind_of t) as [|p| | | | | | | | | |]; try discriminate. destruct p; try discriminate.
          destruct (tkind_of t0) as [|p0| | | | | | | | | |]; try discriminate. destruct p0; try discriminate.
          reflexivity. }
        pose proof (quote_indices_complete ts 0 i t0 Hn0 Hq0) as H. exact H. }
      destruct (paired_or_leftover (length qi) qi i (le_n _) Hin) as [Hp|Hl].
      * apply (Htw i t j Hp Hn Hq).
      * exfalso. apply Hex. exact Hl.
    + intros i Hl. apply Ho. intros Hp.
      (* a paired index is not the leftover one *)
      assert (forall n l x, length l <= n -> NoDup l -> leftover l = Some x -> ~ In x (paired l)) as K.
      { clear. induction n as [|n IH]; intros l x Hlen Hnd Hl Hp.
        - destruct l; [discriminate|cbn in Hlen; lia].
        - destruct l as [|a [|b r]]; [discriminate|destruct Hp|].
          cbn [leftover paired] in *. inversion Hnd as [|a0 l0 Hna Hnd1]; subst.
          inversion Hnd1 as [|b0 l1 Hnb Hnd2]; subst.
          assert (In x r) as Hxr by (apply (leftover_in (length r)); [apply le_n|exact Hl]).
          destruct Hp as [<-|[<-|Hp]]; [apply Hna; right; exact Hxr|apply Hnb; exact Hxr|].
          apply (IH r x); [cbn [length] in Hlen; lia|exact Hnd2|exact Hl|exact Hp]. }
      apply (K (length qi) qi i (le_n _) (quote_indices_nodup ts 0) Hl Hp).
Qed.

(* hence QuotesOk as soon as the one quote match_quotes never writes arrives without a twin — a much weaker
   premise than NoTwins (which asks it of every quote) *)
Theorem match_quotes_ok_if : forall ts,
  (forall i t, unpaired_quote ts = Some i -> nth_error ts i = Some t -> quote_twin t = Some None) ->
  exists ts', match_quotes ts = Ok ts' /\ SameButTwins ts ts' /\ QuotesOk ts'.
Proof.
  intros ts H. destruct (match_quotes_any ts) as [ts' [E [SB [QB Hl]]]].
  exists ts'. split; [exact E|]. split; [exact SB|].
  intros i t j Hn Hq. assert ({unpaired_quote ts = Some i} + {unpaired_quote ts <> Some i}) as [Eu|Nu]
    by (decide equality; apply Nat.eq_dec).
  - rewrite (Hl i Eu) in Hn. specialize (H i t Eu Hn). congruence.
  - apply (QB i t j Hn Hq Nu).
Qed.

Lemma notwins_unpaired ts : NoTwins ts ->
  forall i t, unpaired_quote ts = Some i -> nth_error ts i = Some t -> quote_twin t = Some None.
Proof.
  intros NT i t Hu Hn. unfold NoTwins in NT. rewrite Forall_forall in NT.
  assert (In i (quote_indices ts 0)) as Hin.
  { unfold unpaired_quote in Hu. apply (leftover_in (length (quote_indices ts 0))); [apply le_n|exact Hu]. }
  apply quote_indices_in in Hin. destruct Hin as [_ [t0 [Hn0 Hq0]]]. rewrite Nat.sub_0_r in Hn0.
  assert (t0 = t) as -> by congruence. destruct (is_quote_twin t Hq0) as [tw Htw]. rewrite Htw. f_equal.
  apply (NT t); [eapply nth_error_In; exact Hn|exact Htw].
Qed.

(* the limit: a single quote that arrives with a twin_loc keeps it, and it points nowhere *)
Example match_quotes_stale_witness :
  let ts := [mktok (mkspan 0 1) (KPunct (PQuote (Some 7)))] in
  match_quotes ts = Ok ts /\ unpaired_quote ts = Some 0 /\ ~ QuotesOk ts.
Proof.
  cbv zeta. split; [vm_compute; reflexivity|]. split; [vm_compute; reflexivity|].
  intros H. destruct (H 0 _ 7 eq_refl eq_refl) as [_ [t' [Hn _]]]. discriminate.
Qed.

(* non-vacuity: three quotes, the first two carrying stale twins, the third none *)
Example match_quotes_any_example :
  let q tw i := mktok (mkspan i (i + 1)) (KPunct (PQuote tw)) in
  match_quotes [q (Some 9) 0; mktok (mkspan 1 2) KWord; q (Some 0) 2; q None 3]
  = Ok [q (Some 2) 0; mktok (mkspan 1 2) KWord; q (Some 0) 2; q None 3]
  /\ unpaired_quote [q (Some 9) 0; mktok (mkspan 1 2) KWord; q (Some 0) 2; q None 3] = Some 3.
Proof. cbv zeta. split; vm_compute; reflexivity. Qed.

Print Assumptions match_quotes_any.
Print Assumptions match_quotes_ok_if.
