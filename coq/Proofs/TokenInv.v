(* TokenInv.v — the token invariants of C02 (definitions + the basic facts every pass proof uses).
   Tiling a b ts : the spans of ts are consecutive, non-empty, start at a and end at b — "the tokens tile
   [a,b) exactly, no character lost or duplicated". *)
Require Import Base Overlap Tables_lexer Lexer Condense ListLemmas.
From Coq Require Import Lia.

Inductive Tiling : nat -> nat -> list token -> Prop :=
| Tiling_nil : forall a, Tiling a a []
| Tiling_cons : forall a b t ts,
    tstart t = a -> a < tend t -> Tiling (tend t) b ts -> Tiling a b (t :: ts).

(* every token that covers characters lies inside a text of n characters *)
Definition InBounds (n : nat) (ts : list token) : Prop :=
  Forall (fun t => tstart t < tend t -> tend t <= n) ts.
(* tokens that cover characters appear in increasing, non-overlapping order *)
Definition covers_chars (t : token) : Prop := tstart t < tend t.
Inductive OrderedFrom : nat -> list token -> Prop :=
| OF_nil : forall lo, OrderedFrom lo []
| OF_zero : forall lo t ts, ~ covers_chars t -> OrderedFrom lo ts -> OrderedFrom lo (t :: ts)
| OF_cons : forall lo t ts, covers_chars t -> lo <= tstart t -> OrderedFrom (tend t) ts -> OrderedFrom lo (t :: ts).
Definition OrderedDisjoint (ts : list token) : Prop := OrderedFrom 0 ts.
(* zero-width tokens are only structural breaks *)
Definition ZeroWidthOnlyBreaks (ts : list token) : Prop :=
  Forall (fun t => tstart t = tend t ->
                   match tkind_of t with KNewline _ | KParagraphBreak => True | _ => False end) ts.

Lemma tiling_le a b ts : Tiling a b ts -> a <= b.
Proof. induction 1; lia. Qed.

Lemma tiling_app a b c xs ys : Tiling a b xs -> Tiling b c ys -> Tiling a c (xs ++ ys).
Proof. induction 1; intros H2; cbn [app]; [assumption|constructor; auto]. Qed.

Lemma tiling_app_inv a c xs ys : Tiling a c (xs ++ ys) -> exists b, Tiling a b xs /\ Tiling b c ys.
Proof.
  revert a. induction xs as [|x xs IH]; intros a H; cbn [app] in H.
  - exists a. split; [constructor|assumption].
  - inversion H; subst. destruct (IH _ H6) as [b [H1 H2]]. exists b. split; [constructor; auto|assumption].
Qed.

Lemma tiling_nonempty a b ts : Tiling a b ts -> Forall (fun t => tstart t < tend t) ts.
Proof. induction 1; constructor; auto; lia. Qed.

Lemma tiling_in_range a b ts : Tiling a b ts -> Forall (fun t => a <= tstart t /\ tend t <= b) ts.
Proof.
  induction 1; constructor.
  - apply tiling_le in H1. lia.
  - eapply Forall_impl; [|exact IHTiling]. cbn. intros. lia.
Qed.

Lemma tiling_inbounds n ts : Tiling 0 n ts -> InBounds n ts.
Proof. intros H. apply tiling_in_range in H. eapply Forall_impl; [|exact H]. cbn. intros; lia. Qed.

Lemma tiling_ordered_from a b ts lo : Tiling a b ts -> lo <= a -> OrderedFrom lo ts.
Proof.
  intros H. revert lo. induction H; intros lo Hlo; [constructor|].
  apply OF_cons; [unfold covers_chars; lia|lia|apply IHTiling; lia].
Qed.

Lemma tiling_ordered n ts : Tiling 0 n ts -> OrderedDisjoint ts.
Proof. intros H. eapply tiling_ordered_from; eauto. Qed.

Lemma tiling_no_zero_width a b ts : Tiling a b ts -> ZeroWidthOnlyBreaks ts.
Proof. intros H. apply tiling_nonempty in H. eapply Forall_impl; [|exact H]. cbn. intros; lia. Qed.

Lemma tiling_single a b k : a < b -> Tiling a b [mktok (mkspan a b) k].
Proof. intros. constructor; cbn; auto. constructor. Qed.

(* the text under a token *)
Definition tok_text (src : text) (t : token) : text := slice src (tstart t) (tend t).
