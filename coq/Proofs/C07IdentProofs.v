(* C07IdentProofs.v — the per-document state with identifier dictionaries (Model/C07Ident.v) is transparent:
   every check of a source document is made with the dictionaries on disk NOW plus the identifiers of the text
   checked, whatever adds, checks, hidden updates, restarts and crashes came before. *)
Require Import Base DictIO DictIOProofs C07Ident.
From Coq Require Import Permutation.

Section IdentProofs.
  Variable is_lower : N -> bool.
  Variable lower : N -> list N.
  Variable curated : dict.
  Variable iter_order : list word -> list word.
  Hypothesis iter_perm : forall l, Permutation (iter_order l) l.

  Notation wid := (word_id is_lower lower).
  Notation accepted := (accepted is_lower lower).
  Notation m_contains_exact := (m_contains_exact is_lower lower).
  Notation m_get_meta := (m_get_meta is_lower lower).
  Notation contains_exact_word := (contains_exact_word is_lower lower).
  Notation get_meta := (get_meta is_lower lower).
  Notation children := (children is_lower lower curated).
  Notation dict_wf := (dict_wf is_lower lower).
  Notation ident_dict := (ident_dict is_lower lower).
  Notation update_doc := (update_doc is_lower lower curated iter_order).
  Notation istep := (istep is_lower lower curated iter_order).
  Notation irun := (irun is_lower lower curated iter_order).
  Notation iref := (iref is_lower lower curated iter_order).
  Notation iref_step := (iref_step is_lower lower curated iter_order).
  Notation flags := (flags is_lower lower).
  Notation run_fs := (run_fs is_lower lower curated iter_order).
  Notation step_op := (step_op is_lower lower curated iter_order).

  (* ---- the accept decision reads its children only through lookup ---- *)
  Lemma get_meta_equiv : forall d d' t, dict_equiv d d' -> get_meta d t = get_meta d' t.
  Proof. intros d d' t E. unfold DictIO.get_meta. apply E. Qed.
  Lemma exact_equiv : forall d d' t, dict_equiv d d' -> contains_exact_word d t = contains_exact_word d' t.
  Proof. intros d d' t E. unfold DictIO.contains_exact_word. now rewrite E. Qed.
  Lemma m_get_meta_equiv : forall cs cs' t, Forall2 dict_equiv cs cs' -> m_get_meta cs t = m_get_meta cs' t.
  Proof.
    intros cs cs' t H. induction H as [|d d' r r' E _ IH]; [reflexivity|].
    cbn [DictIO.m_get_meta]. rewrite (get_meta_equiv d d' t E). now rewrite IH.
  Qed.
  Lemma m_exact_equiv : forall cs cs' t, Forall2 dict_equiv cs cs' -> m_contains_exact cs t = m_contains_exact cs' t.
  Proof.
    intros cs cs' t H. unfold DictIO.m_contains_exact. induction H as [|d d' r r' E _ IH]; [reflexivity|].
    cbn [existsb]. rewrite (exact_equiv d d' t E). now rewrite IH.
  Qed.
  Lemma accepted_equiv : forall cs cs' t, Forall2 dict_equiv cs cs' -> accepted cs t = accepted cs' t.
  Proof.
    intros cs cs' t H. unfold DictIO.accepted.
    rewrite (m_get_meta_equiv cs cs' t H), (m_exact_equiv cs cs' t H), (m_exact_equiv cs cs' _ H). reflexivity.
  Qed.

  (* an empty last child changes nothing *)
  Lemma m_get_meta_app_nil : forall cs t, m_get_meta (cs ++ [[]]) t = m_get_meta cs t.
  Proof.
    induction cs as [|d r IH]; intro t; [reflexivity|]. cbn [app DictIO.m_get_meta]. now rewrite IH.
  Qed.
  Lemma m_exact_app_nil : forall cs t, m_contains_exact (cs ++ [[]]) t = m_contains_exact cs t.
  Proof.
    intros cs t. unfold DictIO.m_contains_exact. rewrite existsb_app. cbn [existsb].
    unfold DictIO.contains_exact_word at 2. cbn [lookup]. now rewrite !orb_false_r.
  Qed.
  Lemma accepted_app_nil : forall cs t, accepted (cs ++ [[]]) t = accepted cs t.
  Proof. intros. unfold DictIO.accepted. now rewrite m_get_meta_app_nil, !m_exact_app_nil. Qed.

  (* further children can only add: what is accepted stays accepted (the first child that knows the word decides
     on the metadata, any child on the exact spelling) *)
  Lemma m_get_meta_app_some : forall cs more t e, m_get_meta cs t = Some e -> m_get_meta (cs ++ more) t = Some e.
  Proof.
    induction cs as [|d r IH]; intros more t e H; [discriminate|]. cbn [app DictIO.m_get_meta] in *.
    destruct (get_meta d t); [exact H|now apply IH].
  Qed.
  Lemma m_exact_app_mono : forall cs more t, m_contains_exact cs t = true -> m_contains_exact (cs ++ more) t = true.
  Proof. intros cs more t H. unfold DictIO.m_contains_exact in *. rewrite existsb_app, H. reflexivity. Qed.
  Lemma accepted_app_mono : forall cs more t, accepted cs t = true -> accepted (cs ++ more) t = true.
  Proof.
    intros cs more t H. unfold DictIO.accepted in *. destruct (m_get_meta cs t) as [e|] eqn:M; [|discriminate].
    rewrite (m_get_meta_app_some cs more t e M). apply andb_true_iff in H. destruct H as [H1 H2]. rewrite H1. cbn [andb].
    apply orb_true_iff in H2. apply orb_true_iff. destruct H2 as [H2|H2]; [left|right]; now apply m_exact_app_mono.
  Qed.

  Lemma dict_equiv_refl : forall d, dict_equiv d d.
  Proof. intros d k. reflexivity. Qed.
  Lemma dict_equiv_sym : forall a b, dict_equiv a b -> dict_equiv b a.
  Proof. intros a b H k. symmetry. apply H. Qed.
  Lemma dict_equiv_trans : forall a b c, dict_equiv a b -> dict_equiv b c -> dict_equiv a c.
  Proof. intros a b c H1 H2 k. now rewrite H1. Qed.

  Lemma ident_wf : forall ids, dict_wf (ident_dict ids).
  Proof. intro ids. unfold C07Ident.ident_dict. apply wf_extend, wf_nil. Qed.

  (* ---- the invariant of a document state ---- *)
  (* base = [curated; U; F] as loaded at the last rebuild; the linter's dictionary is a [curated; U'; F'] that is
     the same map, with the identifier dictionary behind it (or without it while there are no identifiers) *)
  Definition ds_inv (st : dstate) : Prop :=
    exists U F U' F',
      ds_base st = [curated; U; F] /\ dict_wf U /\ dict_wf F /\ dict_equiv U U' /\ dict_equiv F F' /\
      NoDup (map fst (ds_ident st)) /\
      (ds_dict st = [curated; U'; F'; ds_ident st] \/ (ds_ident st = [] /\ ds_dict st = [curated; U'; F'])).
  Definition icache_ok (is_src : url -> bool) (c : icache) : Prop :=
    Forall (fun e => ds_inv (snd e) /\ (is_src (fst e) = false -> ds_ident (snd e) = [])) c.

  Lemma url_eqb_eq : forall a b, url_eqb a b = true -> a = b.
  Proof.
    intros [p|p] [q|q] H; cbn [url_eqb] in H; try discriminate; apply weqb_eq in H; now subst.
  Qed.
  Lemma icache_get_ok : forall is_src u c st, icache_ok is_src c -> icache_get u c = Some st ->
    ds_inv st /\ (is_src u = false -> ds_ident st = []).
  Proof.
    intros is_src u c st H. induction H as [|[u' st'] t Hg Ht IH]; cbn [icache_get]; [discriminate|].
    destruct (url_eqb u u') eqn:E; [|exact IH]. intro X. inversion X. subst st'. apply url_eqb_eq in E. now subst u'.
  Qed.
  Lemma icache_set_ok : forall is_src u st c, icache_ok is_src c -> ds_inv st -> (is_src u = false -> ds_ident st = []) ->
    icache_ok is_src (icache_set u st c).
  Proof.
    intros is_src u st c H Hi Hp. unfold icache_set. constructor; [now split|]. apply Forall_forall. intros e He.
    apply filter_In in He. destruct He as [He _]. now apply (proj1 (Forall_forall _ _) H).
  Qed.

  (* the dictionary of the document after update_document decides every token as [curated; user; file] loaded
     now, followed by the identifier dictionary of the text (source) / alone (plain), would *)
  Lemma update_doc_spec : forall is_src c s u nd, icache_ok is_src c ->
    match nd with Some d => is_src u = true /\ NoDup (map fst d) | None => is_src u = false end ->
    let st := update_doc c s u nd in
    ds_inv st /\ (is_src u = false -> ds_ident st = []) /\
    forall t, accepted (ds_dict st) t =
              accepted (match nd with Some d => children s u ++ [d] | None => children s u end) t.
  Proof.
    intros is_src c s u nd Hc Hk. unfold C07Ident.update_doc.
    destruct (children_good is_lower lower curated s u) as [Uf [Ff [Ef [HUf HFf]]]].
    set (fresh := children s u) in *.
    set (st0 := match icache_get u c with Some st => st | None => mkds fresh [] fresh end).
    assert (H0 : ds_inv st0 /\ (is_src u = false -> ds_ident st0 = [])).
    { unfold st0. destruct (icache_get u c) as [st|] eqn:G; [now apply (icache_get_ok is_src u c)|].
      split; [|reflexivity]. exists Uf, Ff, Uf, Ff. cbn [ds_base ds_ident ds_dict].
      exact (conj Ef (conj HUf (conj HFf (conj (dict_equiv_refl _) (conj (dict_equiv_refl _)
               (conj (NoDup_nil _) (or_intror (conj eq_refl Ef)))))))). }
    set (st1 := if hashes_eqb iter_order (ds_base st0) fresh then st0 else mkds fresh [] fresh).
    (* st1: as st0, and its base is the same map as the fresh one *)
    assert (H1 : exists U F U' F',
               ds_base st1 = [curated; U; F] /\ dict_wf U /\ dict_wf F /\ dict_equiv U U' /\ dict_equiv F F' /\
               dict_equiv U Uf /\ dict_equiv F Ff /\ NoDup (map fst (ds_ident st1)) /\
               (ds_dict st1 = [curated; U'; F'; ds_ident st1] \/ (ds_ident st1 = [] /\ ds_dict st1 = [curated; U'; F'])) /\
               (is_src u = false -> ds_ident st1 = [])).
    { unfold st1. destruct (hashes_eqb iter_order (ds_base st0) fresh) eqn:Hh.
      - destruct H0 as [[U [F [U' [F' [Eb [HU [HF [EU [EF [ND Hd]]]]]]]]]] Hp].
        exists U, F, U', F'. rewrite Eb, Ef in Hh. cbn [hashes_eqb] in Hh. apply andb_true_iff in Hh. destruct Hh as [X1 X2].
        apply (child_hash_perm iter_order iter_perm) in X1. apply (child_hash_perm iter_order iter_perm) in X2.
        pose proof (perm_words_equiv is_lower lower U Uf HU HUf X1) as H. pose proof (perm_words_equiv is_lower lower F Ff HF HFf X2) as H0.
        exact (conj Eb (conj HU (conj HF (conj EU (conj EF (conj H (conj H0 (conj ND (conj Hd Hp))))))))).
      - exists Uf, Ff, Uf, Ff. cbn [ds_base ds_ident ds_dict].
        exact (conj Ef (conj HUf (conj HFf (conj (dict_equiv_refl _) (conj (dict_equiv_refl _)
                 (conj (dict_equiv_refl _) (conj (dict_equiv_refl _)
                 (conj (NoDup_nil _) (conj (or_intror (conj eq_refl Ef)) (fun _ => eq_refl)))))))))). }
    clearbody st1. clear H0 st0.
    destruct H1 as [U [F [U' [F' [Eb [HU [HF [EU [EF [EUf [EFf [ND [Hd Hp]]]]]]]]]]]]].
    assert (EU' : dict_equiv U' Uf) by (eapply dict_equiv_trans; [apply dict_equiv_sym; exact EU|exact EUf]).
    assert (EF' : dict_equiv F' Ff) by (eapply dict_equiv_trans; [apply dict_equiv_sym; exact EF|exact EFf]).
    destruct nd as [d|].
    - destruct Hk as [Hsrc NDd]. destruct (dict_same (ds_ident st1) d) eqn:Hs.
      + split; [exists U, F, U', F'; exact (conj Eb (conj HU (conj HF (conj EU (conj EF (conj ND Hd))))))|]. split; [exact Hp|].
        pose proof (dict_same_equiv _ _ ND NDd Hs) as Ed. intro t. rewrite Ef. cbn [app].
        destruct Hd as [Hd|[Hi Hd]]; rewrite Hd.
        * apply accepted_equiv. repeat constructor; try assumption; try apply dict_equiv_refl.
        * rewrite <- (accepted_app_nil [curated; U'; F'] t). cbn [app]. apply accepted_equiv.
          repeat constructor; try assumption; try apply dict_equiv_refl. intro k. rewrite <- Hi. apply Ed.
      + cbn [ds_base ds_ident ds_dict]. split.
        * exists U, F, Uf, Ff. cbn [ds_base ds_ident ds_dict].
          refine (conj Eb (conj HU (conj HF (conj EUf (conj EFf (conj NDd (or_introl _))))))). now rewrite Ef.
        * split; [intro X; congruence|reflexivity].
    - split; [exists U, F, U', F'; exact (conj Eb (conj HU (conj HF (conj EU (conj EF (conj ND Hd))))))|]. split; [exact Hp|].
      intro t. rewrite Ef. specialize (Hp Hk). destruct Hd as [Hd|[_ Hd]]; rewrite Hd.
      + rewrite Hp. change [curated; U'; F'; []] with ([curated; U'; F'] ++ [[]]). rewrite accepted_app_nil.
        apply accepted_equiv. repeat constructor; try assumption; try apply dict_equiv_refl.
      + apply accepted_equiv. repeat constructor; try assumption; try apply dict_equiv_refl.
  Qed.

  Lemma flags_ext : forall cs cs' toks, (forall t, accepted cs t = accepted cs' t) -> flags cs toks = flags cs' toks.
  Proof. intros cs cs' toks H. unfold C07Ident.flags. apply map_ext. intro t. now rewrite H. Qed.

  (* one step of the server with per-document state = one step of the stateless reference *)
  Lemma istep_spec : forall is_src s c o, icache_ok is_src c -> well_kinded is_src o ->
    exists c', icache_ok is_src c' /\ istep (s, c) o = ((fst (iref_step s o), c'), snd (iref_step s o)).
  Proof.
    intros is_src s c o Hc Hk. destruct o as [[sc w|u toks| |sc w i]|u ids toks|u ids]; cbn [C07Ident.istep C07Ident.iref_step fst snd].
    - exists c. now split.
    - cbn [well_kinded] in Hk. destruct (update_doc_spec is_src c s u None Hc Hk) as [Hi [Hp Ha]].
      exists (icache_set u (update_doc c s u None) c). split; [now apply icache_set_ok|].
      cbn [DictIO.step_op fst snd]. f_equal. unfold DictIO.lint. apply flags_ext. exact Ha.
    - exists []. split; [constructor|reflexivity].
    - exists []. split; [constructor|reflexivity].
    - cbn [well_kinded] in Hk.
      assert (Hk' : is_src u = true /\ NoDup (map fst (ident_dict ids))) by (split; [exact Hk|apply ident_wf]).
      destruct (update_doc_spec is_src c s u (Some (ident_dict ids)) Hc Hk') as [Hi [Hp Ha]].
      exists (icache_set u (update_doc c s u (Some (ident_dict ids))) c). split; [now apply icache_set_ok|].
      f_equal. apply flags_ext. exact Ha.
    - destruct ids as [ids|]; cbn [well_kinded option_map] in *.
      + assert (Hk' : is_src u = true /\ NoDup (map fst (ident_dict ids))) by (split; [exact Hk|apply ident_wf]).
        destruct (update_doc_spec is_src c s u (Some (ident_dict ids)) Hc Hk') as [Hi [Hp _]].
        exists (icache_set u (update_doc c s u (Some (ident_dict ids))) c). split; [now apply icache_set_ok|reflexivity].
      + destruct (update_doc_spec is_src c s u None Hc Hk) as [Hi [Hp _]].
        exists (icache_set u (update_doc c s u None) c). split; [now apply icache_set_ok|reflexivity].
  Qed.

  Theorem ident_transparent : forall is_src h s c, icache_ok is_src c -> Forall (well_kinded is_src) h ->
    snd (irun (s, c) h) = snd (iref s h) /\ fst (fst (irun (s, c) h)) = fst (iref s h).
  Proof.
    intros is_src. induction h as [|o r IH]; intros s c Hc Hk; [split; reflexivity|].
    inversion Hk as [|? ? Ho Hr]; subst. cbn [C07Ident.irun C07Ident.iref].
    destruct (istep_spec is_src s c o Hc Ho) as [c' [Hc' Hs]]. rewrite Hs.
    destruct (iref_step s o) as [s1 out]. cbn [fst snd].
    destruct (IH s1 c' Hc' Hr) as [H1 H2].
    destruct (irun (s1, c') r) as [st'' outs]. destruct (iref s1 r) as [s'' outs']. cbn [fst snd] in *.
    split; [now f_equal|exact H2].
  Qed.

  (* the disk only sees the add commands *)
  Fixpoint ibase (h : list iop) : list op :=
    match h with
    | [] => []
    | IBase o :: r => o :: ibase r
    | _ :: r => ibase r
    end.
  Lemma ibase_app : forall a b, ibase (a ++ b) = ibase a ++ ibase b.
  Proof. induction a as [|[o|u ids toks|u ids] r IH]; intro b; cbn [app ibase]; now rewrite ?IH. Qed.
  Lemma iref_fs : forall h s, fst (iref s h) = run_fs s (ibase h).
  Proof.
    induction h as [|o r IH]; intro s; [reflexivity|]. cbn [C07Ident.iref].
    destruct (iref_step s o) as [s1 out] eqn:E. specialize (IH s1). destruct (iref s1 r) as [s2 outs]. cbn [fst] in *.
    rewrite IH. destruct o as [o|u ids toks|u ids]; cbn [C07Ident.iref_step ibase] in *.
    - rewrite run_fs_cons. now rewrite E.
    - now inversion E.
    - now inversion E.
  Qed.
  Lemma iref_snoc : forall h s o, snd (iref s (h ++ [o])) = snd (iref s h) ++ [snd (iref_step (fst (iref s h)) o)].
  Proof.
    induction h as [|a r IH]; intros s o.
    - cbn [app C07Ident.iref fst snd]. destruct (iref_step s o). reflexivity.
    - cbn [app C07Ident.iref]. destruct (iref_step s a) as [s1 out]. specialize (IH s1 o).
      destruct (iref s1 (r ++ [o])) as [s2 outs]. destruct (iref s1 r) as [s3 outs3]. cbn [fst snd] in *. now rewrite IH.
  Qed.

  (* THE statement for a source document: after ANY history the check of the document is made with the dictionary
     files as they are now plus the identifiers of the text being checked *)
  Theorem ident_check : forall is_src h s u ids toks,
    Forall (well_kinded is_src) h -> is_src u = true ->
    snd (irun (s, []) (h ++ [LintSrc u ids toks])) =
    snd (iref s h) ++ [flags (children (run_fs s (ibase h)) u ++ [ident_dict ids]) toks].
  Proof.
    intros is_src h s u ids toks Hk Hu.
    assert (Hk' : Forall (well_kinded is_src) (h ++ [LintSrc u ids toks])).
    { apply Forall_app. split; [exact Hk|]. constructor; [exact Hu|constructor]. }
    destruct (ident_transparent is_src _ s [] (Forall_nil _) Hk') as [H _].
    transitivity (snd (iref s (h ++ [LintSrc u ids toks]))); [exact H|]. rewrite iref_snoc.
    cbn [C07Ident.iref_step snd]. now rewrite iref_fs.
  Qed.

  (* no identifier is lost: an identifier of the text is accepted whatever the dictionary files hold (premises: a
     curated entry for its id is of the right dialect — FC07b; the document has no second identifier with the
     same case-folded id and another spelling — the HashSet order would decide which one is kept) *)
  Theorem ident_kept : forall s u ids i,
    In i ids ->
    (forall i', In i' ids -> wid i' = wid i -> normalized i' = normalized i) ->
    (forall e, lookup (wid i) curated = Some e -> snd e = true) ->
    accepted (children s u ++ [ident_dict ids]) i = true.
  Proof.
    intros s u ids i Hin Hcol Hc.
    destruct (extend_lookup_some is_lower lower ids [] (wid i) i Hin eq_refl) as [c [H1 [H2 H3]]].
    fold (ident_dict ids) in H3. pose proof (Hcol c H1 H2) as Hn.
    destruct (children_good is_lower lower curated s u) as [U [F [E [HU HF]]]]. rewrite E. cbn [app].
    unfold DictIO.accepted.
    assert (Hex : m_contains_exact [curated; U; F; ident_dict ids] i = true).
    { unfold DictIO.m_contains_exact. cbn [existsb]. rewrite (exact_has is_lower lower (ident_dict ids) i c Hn H3).
      now rewrite !orb_true_r. }
    rewrite Hex. cbn [orb DictIO.m_get_meta]. unfold DictIO.get_meta.
    destruct (lookup (wid i) curated) as [e|] eqn:L1; [rewrite andb_true_r; now apply Hc|].
    destruct (lookup (wid i) U) as [e|] eqn:L2; [rewrite andb_true_r; now apply (wf_lookup_dok is_lower lower U _ _ HU L2)|].
    destruct (lookup (wid i) F) as [e|] eqn:L3; [rewrite andb_true_r; now apply (wf_lookup_dok is_lower lower F _ _ HF L3)|].
    now rewrite H3.
  Qed.

  (* accepted from then on in the comments of a source file too: C07_add_sequential with the identifiers merged *)
  Theorem ident_add_accepted : forall s0 h1 sc w h2 u p ids,
    fs_ok is_lower lower s0 ->
    Forall op_safe (ibase h1 ++ AddWord sc w :: ibase h2) ->
    (forall e, lookup (wid w) curated = Some e -> snd e = true) ->
    target sc = Some p ->
    (forall o sc' w', In o (ibase h2) -> op_add o = Some (sc', w') -> target sc' = Some p -> wid w' = wid w ->
       normalized w' = normalized w) ->
    (p = UserP \/ exists n, file_dict_name u = Some n /\ p = FileP n) ->
    accepted (children (run_fs s0 (ibase (h1 ++ IBase (AddWord sc w) :: h2))) u ++ [ident_dict ids]) w = true.
  Proof.
    intros s0 h1 sc w h2 u p ids H0 Hs Hc Ht Hcol Hsc. apply accepted_app_mono.
    rewrite ibase_app. cbn [ibase].
    now apply (add_sequential is_lower lower curated iter_order iter_perm s0 (ibase h1) sc w (ibase h2) u p).
  Qed.
End IdentProofs.

(* ---- concrete histories ---- *)
Definition u_src : url := FileUrl [47; 109; 46; 114; 115]%N.                   (* /m.rs *)
Definition w_foo_bar : word := [102; 111; 111; 95; 98; 97; 114]%N.             (* foo_bar *)
Definition w_quxly : word := [113; 117; 120; 108; 121]%N.
Definition is_src_ex (u : url) : bool := url_eqb u u_src.

(* the history of the tie: check the source (identifiers foo_bar, quxly; tokens foo_bar zorgle), add zorgle to the
   user dictionary (the command re-reads the document from disk), check again, add alpha to the FILE dictionary, check *)
Definition h_ident : list iop :=
  [LintSrc u_src [w_foo_bar; w_quxly] [w_foo_bar; w_zorgle; w_alpha];
   IBase (AddWord SUser w_zorgle); IUpdate u_src (Some [w_foo_bar; w_quxly]);
   LintSrc u_src [w_foo_bar; w_quxly] [w_foo_bar; w_zorgle; w_alpha];
   IBase (AddWord (SFile u_src) w_alpha); IUpdate u_src (Some [w_foo_bar; w_quxly]);
   LintSrc u_src [w_quxly; w_foo_bar] [w_foo_bar; w_zorgle; w_alpha; w_quxly];
   IBase (LintDoc u_doc [w_foo_bar; w_zorgle; w_alpha])].
Lemma ident_example :
  Forall (well_kinded is_src_ex) h_ident /\
  snd (irun a_is_lower a_lower [] id_order (fs_empty, []) h_ident) =
    [[false; true; true]; []; []; [false; false; true]; []; []; [false; false; false; false]; [true; false; true]] /\
  snd (iref a_is_lower a_lower [] id_order fs_empty h_ident) =
    [[false; true; true]; []; []; [false; false; true]; []; []; [false; false; false; false]; [true; false; true]].
Proof. split; [repeat constructor|]. vm_compute. split; reflexivity. Qed.

(* history: the code BEFORE 6ece0c3 lost the identifiers on the second update of an unchanged source document *)
Lemma ident_old_refuted :
  let nd := Some (ident_dict a_is_lower a_lower [w_foo_bar]) in
  let st1 := update_doc_old a_is_lower a_lower [] id_order [] fs_empty u_src nd in
  let st2 := update_doc_old a_is_lower a_lower [] id_order [(u_src, st1)] fs_empty u_src nd in
  flags a_is_lower a_lower (ds_dict st1) [w_foo_bar] = [false] /\
  flags a_is_lower a_lower (ds_dict st2) [w_foo_bar] = [true] /\
  let n1 := update_doc a_is_lower a_lower [] id_order [] fs_empty u_src nd in
  let n2 := update_doc a_is_lower a_lower [] id_order [(u_src, n1)] fs_empty u_src nd in
  flags a_is_lower a_lower (ds_dict n2) [w_foo_bar] = [false].
Proof. vm_compute. repeat split. Qed.
