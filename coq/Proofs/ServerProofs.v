(* ServerProofs.v — lemmas about Model/Server.v (property C09). *)
Require Import Base Server.

(* ================================================================================================
   1. Refutations on the faithful model (findings F17a, F17b, F28).  Witnesses are concrete; each is
      replayed on the real Backend by the harness (corpus/C09).
   ================================================================================================ *)
Definition uA : url := UFile 0 0.
Definition uB : url := UFile 0 1.
Definition tx (n : nat) : text := mktext n 0.

(* --- F17a: two did_change in flight, handled in the opposite order ------------------------------ *)
Definition reorder_history : list op := [Open uA LPlain (tx 0); Change uA (tx 1); Change uA (tx 2)].
(* handler 0 (did_open) alone; then both did_change are admitted; handler 2 runs to completion
   (8 instrs) before handler 1 *)
Definition reorder_schedule : list choice :=
  CAdmit :: repeat (CRun 0) 8 ++ [CAdmit; CAdmit] ++ repeat (CRun 2) 8 ++ repeat (CRun 1) 8.
(* the same at client-interaction granularity: both ask for the configuration, the client's answer
   to the second one is processed first *)
Definition reorder_kschedule : list kchoice :=
  [KAdmit; KRun 0; KRun 0; KAdmit; KAdmit; KRun 1; KRun 2; KRun 2; KRun 1].

Lemma reorder_refuted :
  exists y, run reorder_schedule (init reorder_history (world0 0)) = Some y /\ quiescent y /\
    exists a b, lastword (y_world y) uA = PDiag a /\ expected (y_world y) uA = PDiag b /\
                a_text a = tx 1 /\ a_text b = tx 2 /\ pubval (y_world y) uA = PDiag a.
Proof.
  eexists. split; [vm_compute; reflexivity|]. split; [split; reflexivity|].
  do 2 eexists. repeat split; vm_compute; reflexivity.
Qed.

Lemma reorder_refuted_k :
  exists y, krun reorder_kschedule (init reorder_history (world0 0)) = Some y /\ quiescent y /\
    freshb (y_world y) uA = false.
Proof. eexists. split; [vm_compute; reflexivity|]. split; [split; reflexivity|vm_compute; reflexivity]. Qed.

(* --- F17b: handlers that re-read the FILE while the buffer has unsaved changes ------------------ *)
Definition disk_world : world := set_disk [(uA, tx 9)] (world0 0).
Definition disk_history (o : op) : list op := [Open uA LPlain (tx 0); Change uA (tx 1); o].

Definition shows_disk_text (o : op) : Prop :=
  exists w, run_seq (disk_history o) disk_world = Some w /\
    exists a b, lastword w uA = PDiag a /\ expected w uA = PDiag b /\ a_text a = tx 9 /\ a_text b = tx 1.

Lemma disk_refuted :
  shows_disk_text (AddUser 5 uA) /\ shows_disk_text (AddFile 5 uA) /\ shows_disk_text (CfgChange 1 []).
Proof.
  repeat split; (eexists; split; [vm_compute; reflexivity|]; do 2 eexists; repeat split; vm_compute; reflexivity).
Qed.

(* did_save re-reads the file as well; it is harmless exactly because the client has written the
   buffer to the file before it sends the notification *)
Lemma save_rereads_disk :
  exists w, run_seq [Open uA LPlain (tx 0); Change uA (tx 1); Save uA] disk_world = Some w /\
    lookup uA (w_disk w) = Some (tx 1) /\ freshb w uA = true.
Proof. eexists. split; [vm_compute; reflexivity|]. split; vm_compute; reflexivity. Qed.

(* --- the user dictionary is global, only the document named in the command is re-linted ---------- *)
Lemma other_document_stale :
  exists w, run_seq [Open uA LPlain (tx 0); Open uB LPlain (tx 1); Save uA; Save uB; AddUser 5 uA] (world0 0) = Some w /\
    freshb w uA = true /\
    exists a b, lastword w uB = PDiag a /\ expected w uB = PDiag b /\
                dv_user (a_dict a) = [] /\ dv_user (a_dict b) = [5].
Proof.
  eexists. split; [vm_compute; reflexivity|]. split; [vm_compute; reflexivity|].
  do 2 eexists. repeat split; vm_compute; reflexivity.
Qed.

(* --- untitled buffers cannot be re-read: the command republishes the old check --------------------- *)
Lemma untitled_stale :
  exists w, run_seq [Open (UUntitled 1) LPlain (tx 0); AddUser 5 (UUntitled 1)] (world0 0) = Some w /\
    exists a b, lastword w (UUntitled 1) = PDiag a /\ expected w (UUntitled 1) = PDiag b /\
                dv_user (a_dict a) = [] /\ dv_user (a_dict b) = [5].
Proof. eexists. split; [vm_compute; reflexivity|]. do 2 eexists. repeat split; vm_compute; reflexivity. Qed.

(* --- F28: the identifier dictionary of a code document is dropped by the second update ------------ *)
Definition code_text : text := mktext 0 7.
Lemma ident_refuted :
  exists w, run_seq [Open uA LCode code_text; Change uA code_text] (world0 0) = Some w /\
    exists a b, lastword w uA = PDiag a /\ expected w uA = PDiag b /\
                a_text a = a_text b /\ dv_ident (a_dict a) = 0 /\ dv_ident (a_dict b) = 7.
Proof. eexists. split; [vm_compute; reflexivity|]. do 2 eexists. repeat split; vm_compute; reflexivity. Qed.
(* ... while the same text freshly opened is checked with its identifiers *)
Lemma ident_fresh_open :
  exists w, run_seq [Open uA LCode code_text] (world0 0) = Some w /\ freshb w uA = true.
Proof. eexists. split; vm_compute; reflexivity. Qed.
