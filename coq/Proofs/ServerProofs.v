(* ServerProofs.v — concrete runs of Model/Server.v (property C09): the refutations that remain after the
   fixes `an update with an older document version never replaces a newer text` and `the identifier
   dictionary of a source file survives later updates`, and the old witnesses, which now end well. *)
Require Import Base Server.

Definition uA : url := UFile 0 0.
Definition uB : url := UFile 0 1.
Definition tx (n : nat) : text := mktext n 0.

(* ================================================================================================
   1. F17a, what is left of it.  The version check orders the didChange handlers of a document that
      doc_state holds; it does not help where no version is compared.
   ================================================================================================ *)

(* --- two did_change in flight, handled in the opposite order: the OLD witness of F17a.  The late
       handler now returns before it touches the document; its publication shows the newer text. ---- *)
Definition reorder_history : list op := [Open uA LPlain (tx 0) 1; Change uA (tx 1) 2; Change uA (tx 2) 3].
Definition reorder_schedule : list choice :=
  CAdmit :: repeat (CRun 0) 8 ++ [CAdmit; CAdmit] ++ repeat (CRun 2) 8 ++ repeat (CRun 1) 8.
Definition reorder_kschedule : list kchoice :=
  [KAdmit; KRun 0; KRun 0; KAdmit; KAdmit; KRun 1; KRun 2; KRun 2; KRun 1].

Lemma reorder_now_fresh :
  exists y, run reorder_schedule (init reorder_history (world0 0)) = Some y /\ quiescent y /\
    freshb (y_world y) uA = true /\
    exists a, lastword (y_world y) uA = PDiag a /\ a_text a = tx 2 /\ length (s_log (y_world y)) = 3.
Proof.
  eexists. split; [vm_compute; reflexivity|]. split; [split; reflexivity|]. split; [vm_compute; reflexivity|].
  eexists. repeat split; vm_compute; reflexivity.
Qed.

Lemma reorder_now_fresh_k :
  exists y, krun reorder_kschedule (init reorder_history (world0 0)) = Some y /\ quiescent y /\
    freshb (y_world y) uA = true.
Proof. eexists. split; [vm_compute; reflexivity|]. split; [split; reflexivity|vm_compute; reflexivity]. Qed.

(* --- a did_change overtakes the did_open of its document: it finds no entry, inserts one without a
       language and removes it again (the version goes with it); the did_open then installs the older
       text ------------------------------------------------------------------------------------------ *)
Definition open_change_history : list op := [Open uA LPlain (tx 0) 1; Change uA (tx 1) 2].
Definition open_change_schedule : list choice := [CAdmit; CAdmit] ++ repeat (CRun 1) 8 ++ repeat (CRun 0) 8.

Lemma change_overtakes_open :
  exists y, run open_change_schedule (init open_change_history (world0 0)) = Some y /\ quiescent y /\
    exists a b, lastword (y_world y) uA = PDiag a /\ expected (y_world y) uA = PDiag b /\
                a_text a = tx 0 /\ a_text b = tx 1 /\ pubval (y_world y) uA = PDiag a.
Proof.
  eexists. split; [vm_compute; reflexivity|]. split; [split; reflexivity|].
  do 2 eexists. repeat split; vm_compute; reflexivity.
Qed.

(* --- a did_close overtakes the did_open: the closed document ends with diagnostics ---------------- *)
Definition close_open_history : list op := [Open uA LPlain (tx 0) 1; Close uA].
Definition close_open_schedule : list choice := [CAdmit; CAdmit; CRun 1; CRun 1] ++ repeat (CRun 0) 8.

Lemma close_overtakes_open :
  exists y, run close_open_schedule (init close_open_history (world0 0)) = Some y /\ quiescent y /\
    lookup uA (w_open (y_world y)) = None /\ expected (y_world y) uA = PEmpty /\
    exists a, lastword (y_world y) uA = PDiag a /\ pubval (y_world y) uA = PDiag a.
Proof.
  eexists. split; [vm_compute; reflexivity|]. split; [split; reflexivity|].
  split; [vm_compute; reflexivity|]. split; [vm_compute; reflexivity|].
  eexists. split; vm_compute; reflexivity.
Qed.

(* --- a did_change overtakes a did_save: the save re-reads the file (the text of the moment it was
       written) and carries no version, so nothing stops it from replacing the newer text ------------- *)
Definition save_change_history : list op := [Open uA LPlain (tx 0) 1; Save uA; Change uA (tx 1) 2].
Definition save_change_schedule : list choice :=
  CAdmit :: repeat (CRun 0) 8 ++ [CAdmit; CAdmit] ++ repeat (CRun 2) 8 ++ repeat (CRun 1) 9.

Lemma change_overtakes_save :
  exists y, run save_change_schedule (init save_change_history (world0 0)) = Some y /\ quiescent y /\
    exists a b, lastword (y_world y) uA = PDiag a /\ expected (y_world y) uA = PDiag b /\
                a_text a = tx 0 /\ a_text b = tx 1.
Proof.
  eexists. split; [vm_compute; reflexivity|]. split; [split; reflexivity|].
  do 2 eexists. repeat split; vm_compute; reflexivity.
Qed.

(* --- dictionary race: a did_change has read the dictionary files when HarperAddToUserDict (sent before
       it, for another document) writes the word; the change then installs the old dictionary.  Handled
       one at a time the same messages end well (dict_race_sequential). ------------------------------ *)
Definition dict_race_history : list op := [Open uA LPlain (tx 0) 1; AddUser 5 uB; Change uA (tx 1) 2].
Definition dict_race_schedule : list choice :=
  CAdmit :: repeat (CRun 0) 8 ++ [CAdmit; CAdmit] ++ repeat (CRun 2) 6 ++ repeat (CRun 1) 5 ++ repeat (CRun 2) 2.

Lemma dict_race :
  exists y, run dict_race_schedule (init dict_race_history (world0 0)) = Some y /\ quiescent y /\
    exists a b, lastword (y_world y) uA = PDiag a /\ expected (y_world y) uA = PDiag b /\
                a_text a = tx 1 /\ a_text b = tx 1 /\ dv_user (a_dict a) = [] /\ dv_user (a_dict b) = [5].
Proof.
  eexists. split; [vm_compute; reflexivity|]. split; [split; reflexivity|].
  do 2 eexists. repeat split; vm_compute; reflexivity.
Qed.

Lemma dict_race_sequential :
  exists w, run_seq dict_race_history (world0 0) = Some w /\ freshb w uA = true.
Proof. eexists. split; vm_compute; reflexivity. Qed.

(* --- F17f is repaired (fix "an outdated update leaves the document state alone altogether"): the version
       check is the first thing done under the doc_state lock --------------------------------------------- *)
Lemma outdated_update_noop : forall l w t e,
  s_lock w = false -> l_text l = Some t -> lookup (l_url l) (s_docs w) = Some e -> stale (l_ver l) (e_ver e) = true ->
  exec IUpdate l w = Some ([], l, w).
Proof. intros l w t e L T E S. cbn [exec]. rewrite L, T, E, S. reflexivity. Qed.

(* the old witness of F17f: an outdated did_change of a source file arrives after the user dictionary has
   changed.  The identifiers stay merged; what remains stale is the user dictionary (F17c: the command was
   for another document) - the outdated update neither repairs nor worsens it. *)
Definition code_text (n : nat) : text := mktext n 7.
Definition stale_update_history : list op :=
  [Open uA LCode (code_text 0) 1; Change uA (code_text 1) 2; Change uA (code_text 2) 3; AddUser 5 uB].
Definition stale_update_prefix : list choice :=
  CAdmit :: repeat (CRun 0) 11 ++ [CAdmit; CAdmit; CAdmit] ++ repeat (CRun 2) 8 ++ repeat (CRun 3) 5 ++ repeat (CRun 1) 6.
Definition stale_update_schedule : list choice := stale_update_prefix ++ repeat (CRun 1) 2.

Lemma stale_update_keeps_identifiers :
  exists y, run stale_update_schedule (init stale_update_history (world0 0)) = Some y /\ quiescent y /\
    exists a b, lastword (y_world y) uA = PDiag a /\ expected (y_world y) uA = PDiag b /\
                a_text a = code_text 2 /\ a_text b = code_text 2 /\
                dv_ident (a_dict a) = 7 /\ dv_ident (a_dict b) = 7 /\ a_ddict a = a_dict a.
Proof.
  eexists. split; [vm_compute; reflexivity|]. split; [split; reflexivity|].
  do 2 eexists. repeat split; vm_compute; reflexivity.
Qed.

(* HISTORY (code before 1f0bfb7, kept only for this example): the critical section with the version check
   AFTER the dictionary refresh.  In the state the schedule above reaches just before the outdated handler
   takes the lock, the old code reset dict / ident_dict / linter and returned: identifiers dropped. *)
Definition iupdate_before_1f0bfb7 (l : locals) (w : world) : option world :=
  match l_text l, lookup (l_url l) (s_docs w) with
  | Some _, Some e =>
      let e1 := rebase (mkdict (l_ud l) (l_fd l) 0) (l_snap l) e in
      if stale (l_ver l) (e_ver e1) then Some (set_docs (upsert (l_url l) e1 (s_docs w)) w) else None
  | _, _ => None
  end.

Lemma stale_update_old_dropped_identifiers :
  exists y h, run stale_update_prefix (init stale_update_history (world0 0)) = Some y /\
    find_h 1 (y_flight y) = Some h /\ h_prog h = [IUpdate; IPublish] /\
    (exists w' a, iupdate_before_1f0bfb7 (h_loc h) (y_world y) = Some w' /\ pubval w' uA = PDiag a /\ dv_ident (a_dict a) = 0) /\
    exec IUpdate (h_loc h) (y_world y) = Some ([], h_loc h, y_world y) /\
    (exists a, pubval (y_world y) uA = PDiag a /\ dv_ident (a_dict a) = 7).
Proof.
  do 2 eexists. split; [vm_compute; reflexivity|]. split; [vm_compute; reflexivity|]. split; [reflexivity|].
  split; [do 2 eexists; split; [vm_compute; reflexivity|split; vm_compute; reflexivity]|].
  split; [vm_compute; reflexivity|]. eexists. split; vm_compute; reflexivity.
Qed.

(* ================================================================================================
   2. F17b, F17c, F17d (unchanged): handlers that re-read the FILE, one handler at a time.
   ================================================================================================ *)
Definition disk_world : world := set_disk [(uA, tx 9)] (world0 0).
Definition disk_history (o : op) : list op := [Open uA LPlain (tx 0) 1; Change uA (tx 1) 2; o].

Definition shows_disk_text (o : op) : Prop :=
  exists w, run_seq (disk_history o) disk_world = Some w /\
    exists a b, lastword w uA = PDiag a /\ expected w uA = PDiag b /\ a_text a = tx 9 /\ a_text b = tx 1.

Lemma disk_refuted :
  shows_disk_text (AddUser 5 uA) /\ shows_disk_text (AddFile 5 uA) /\ shows_disk_text (CfgChange 1 []).
Proof.
  repeat split; (eexists; split; [vm_compute; reflexivity|]; do 2 eexists; repeat split; vm_compute; reflexivity).
Qed.

(* did_save re-reads the file as well; it is harmless exactly because the client has written the
   buffer to the file before it sends the notification *)
Lemma save_rereads_disk :
  exists w, run_seq [Open uA LPlain (tx 0) 1; Change uA (tx 1) 2; Save uA] disk_world = Some w /\
    lookup uA (w_disk w) = Some (tx 1) /\ freshb w uA = true.
Proof. eexists. split; [vm_compute; reflexivity|]. split; vm_compute; reflexivity. Qed.

(* --- the user dictionary is global, only the document named in the command is re-linted ---------- *)
Lemma other_document_stale :
  exists w, run_seq [Open uA LPlain (tx 0) 1; Open uB LPlain (tx 1) 1; Save uA; Save uB; AddUser 5 uA] (world0 0) = Some w /\
    freshb w uA = true /\
    exists a b, lastword w uB = PDiag a /\ expected w uB = PDiag b /\
                dv_user (a_dict a) = [] /\ dv_user (a_dict b) = [5].
Proof.
  eexists. split; [vm_compute; reflexivity|]. split; [vm_compute; reflexivity|].
  do 2 eexists. repeat split; vm_compute; reflexivity.
Qed.

(* --- untitled buffers cannot be re-read: the command republishes the old check --------------------- *)
Lemma untitled_stale :
  exists w, run_seq [Open (UUntitled 1) LPlain (tx 0) 1; AddUser 5 (UUntitled 1)] (world0 0) = Some w /\
    exists a b, lastword w (UUntitled 1) = PDiag a /\ expected w (UUntitled 1) = PDiag b /\
                dv_user (a_dict a) = [] /\ dv_user (a_dict b) = [5].
Proof. eexists. split; [vm_compute; reflexivity|]. do 2 eexists. repeat split; vm_compute; reflexivity. Qed.

(* ================================================================================================
   3. F17e is repaired: the old witness (the second update of a source file) keeps the identifiers.
   ================================================================================================ *)
Lemma ident_survives_update :
  exists w, run_seq [Open uA LCode (code_text 0) 1; Change uA (code_text 0) 2] (world0 0) = Some w /\
    freshb w uA = true /\
    exists a, lastword w uA = PDiag a /\ dv_ident (a_dict a) = 7 /\ dv_ident (a_ddict a) = 7.
Proof.
  eexists. split; [vm_compute; reflexivity|]. split; [vm_compute; reflexivity|].
  eexists. repeat split; vm_compute; reflexivity.
Qed.
