(* C12CondSpaces.v — condense_spaces, condense_newlines and newlines_to_breaks (Model/Condense.v, frozen) as
   FUNCTIONS of the token list, and their behaviour on a glued list A ++ B.
     sp_spec / nl_spec : structurally recursive readings of the two cursor loops;
     condense_spaces_fun / condense_newlines_fun : on every tiling the pass answers Ok (spec ts)
       (the proofs follow CondSpaces.cs_outer_spec / cn_outer_spec of C02 step by step, concluding an
        equation instead of the relation Grouped);
     sp_spec_app : sp_spec (A ++ B) = sp_spec A ++ sp_spec B  when neither of the LAST TWO tokens of A is a
       Space (sp_closed) — the double cursor increment after a merge passes over the two tokens behind the
       merged child without looking at them, so a Space,Space pair in the last three positions of A would
       swallow the first token(s) of B (sp_spec_app_needs_closed);
     nl_spec_app : nl_spec (A ++ B) = nl_spec A ++ nl_spec B  when B does not start with a Newline token
       (no condition on A at all);
     both commute with moving the tokens by n characters. *)
Require Import Base Overlap OverlapProofs Tables_lexer Lexer Condense ListLemmas TokenInv CondenseInv LexerProofs CondSpaces.
From Coq Require Import List Arith Lia.
Import ListNotations.

(* moving a token by n characters (the same definition as LexSplitProofs.shift_token, restated here so that
   the pass files do not depend on the lexer proofs; C12CondSplit shows they coincide) *)
Definition shift_tk (n : nat) (t : token) : token := mktok (push_by (tspan t) n) (tkind_of t).

Lemma shift_tk_kind n t : tkind_of (shift_tk n t) = tkind_of t.
Proof. reflexivity. Qed.
Lemma shift_tk_start n t : tstart (shift_tk n t) = tstart t + n.
Proof. reflexivity. Qed.
Lemma shift_tk_end n t : tend (shift_tk n t) = tend t + n.
Proof. reflexivity. Qed.

Lemma tiling_shift n : forall a b ts, Tiling a b ts -> Tiling (a + n) (b + n) (map (shift_tk n) ts).
Proof.
  induction 1 as [a|a b t ts Hs Hlt HT IH]; cbn [map]; [constructor|].
  constructor; [rewrite shift_tk_start; lia|rewrite shift_tk_end; lia|rewrite shift_tk_end; exact IH].
Qed.

Definition is_space_kind (k : tkind) : bool := match k with KSpace _ => true | _ => false end.
Definition is_newline_kind (k : tkind) : bool := match k with KNewline _ => true | _ => false end.

(* ================= condense_spaces as a function ================= *)
Definition sp_merge (s c : token) (n m : nat) : token := mktok (mkspan (tstart s) (tend c)) (KSpace (n + m)).

Fixpoint sp_spec (l : list token) : list token :=
  match l with
  | [] => []
  | start :: r1 =>
      match tkind_of start, r1 with
      | KSpace n, child :: r2 =>
          match tkind_of child with
          | KSpace m =>
              sp_merge start child n m ::
              match r2 with
              | x :: y :: r4 => x :: y :: sp_spec r4
              | _ => r2
              end
          | _ => start :: sp_spec r1
          end
      | _, _ => start :: sp_spec r1
      end
  end.

Lemma sp_spec_merge start child r2 n m :
  tkind_of start = KSpace n -> tkind_of child = KSpace m ->
  sp_spec (start :: child :: r2) = sp_merge start child n m :: firstn 2 r2 ++ sp_spec (skipn 2 r2).
Proof.
  intros Hs Hc. cbn [sp_spec]. rewrite Hs, Hc.
  destruct r2 as [|x [|y r4]]; reflexivity.
Qed.

Lemma sp_spec_keep0 start r1 :
  is_space_kind (tkind_of start) = false -> sp_spec (start :: r1) = start :: sp_spec r1.
Proof. intros H. cbn [sp_spec]. destruct (tkind_of start); try reflexivity. discriminate. Qed.

Lemma sp_spec_keep1 start child r2 :
  is_space_kind (tkind_of child) = false -> sp_spec (start :: child :: r2) = start :: child :: sp_spec r2.
Proof.
  intros H. rewrite <- (sp_spec_keep0 child r2 H). cbn [sp_spec].
  destruct (tkind_of start); try reflexivity. destruct (tkind_of child); try reflexivity. discriminate.
Qed.

Lemma sp_spec_last1 start : sp_spec [start] = [start].
Proof. cbn [sp_spec]. destruct (tkind_of start); reflexivity. Qed.

Lemma cs_outer_fun : forall fuel copy cursor a b,
  Tiling a b (skipn cursor copy) -> length (skipn cursor copy) < fuel ->
  exists upd q, cs_outer fuel copy cursor = Ok (upd, q) /\
    length upd = length (skipn cursor copy) /\
    QueueIn cursor (cursor + length upd) q /\
    remove_indices cursor q upd = sp_spec (skipn cursor copy).
Proof.
  induction fuel as [|f IH]; intros copy cursor a b HT Hf; [lia|].
  assert (Hnth : forall k, nth_error copy (cursor + k) = nth_error (skipn cursor copy) k)
    by (intros k; symmetry; apply nth_error_skipn).
  assert (Hskip : forall k, skipn (cursor + k) copy = skipn k (skipn cursor copy))
    by (intros k; rewrite skipn_skipn; f_equal; lia).
  assert (Hlen : length (skipn cursor copy) <= length copy) by (rewrite skipn_length; lia).
  assert (IH' : forall k, length (skipn k (skipn cursor copy)) < f ->
            exists upd q, cs_outer f copy (cursor + k) = Ok (upd, q) /\
              length upd = length (skipn k (skipn cursor copy)) /\
              QueueIn (cursor + k) (cursor + k + length upd) q /\
              remove_indices (cursor + k) q upd = sp_spec (skipn k (skipn cursor copy))).
  { intros k Hk. destruct (tiling_skipn _ _ _ k HT) as [a' HT'].
    rewrite <- Hskip in *. eapply IH; eassumption. }
  clear IH.
  assert (H0 : nth_error copy cursor = nth_error (skipn cursor copy) 0) by (rewrite <- Hnth; f_equal; lia).
  cbn [cs_outer]. rewrite H0. clear H0.
  remember (skipn cursor copy) as rest eqn:Hrest. clear Hrest.
  destruct rest as [|start r1]; cbn [nth_error].
  - exists [], []. split; [reflexivity|]. split; [reflexivity|]. split; [constructor|]. reflexivity.
  - destruct (tkind_of start) eqn:Hk.
    5: {
      rewrite (cs_inner_tiling (length copy) copy cursor start r1 a b n Hnth HT Hlen).
      destruct r1 as [|child r2].
      - cbn [bind]. replace (cursor + 1 + 1) with (cursor + 2) by lia.
        destruct (IH' 2) as (upd' & q' & E & L & Q & Gr); [cbn [skipn length]; cbn [length] in Hf; lia|].
        rewrite E. cbn [bind]. unfold slice. rewrite (Hskip 1). cbn [skipn] in *. rewrite firstn_nil.
        cbn [length] in L. destruct upd' as [|u upd']; [|discriminate L].
        rewrite (rebuild_same start (KSpace n) Hk).
        exists ([start] ++ [] ++ []), ([] ++ q'). split; [reflexivity|]. split; [reflexivity|].
        destruct (glue [start] [] [] cursor (cursor + 2) [] q') as [HR HQ];
          [constructor|exact Q|left; reflexivity|].
        split; [exact HQ|]. rewrite HR. rewrite remove_indices_nil. cbn [remove_indices app].
        symmetry. apply sp_spec_last1.
      - destruct (tkind_of child) eqn:Hkc.
        5: {
          rename n0 into m.
          cbn [bind]. replace (cursor + 3 + 1) with (cursor + 4) by lia.
          destruct (IH' 4) as (upd' & q' & E & L & Q & Gr);
            [cbn [length] in Hf; rewrite skipn_length; cbn [length]; lia|].
          rewrite E. cbn [bind]. unfold slice. rewrite (Hskip 1).
          replace (cursor + 4 - (cursor + 1)) with 3 by lia.
          change (skipn 4 (start :: child :: r2)) with (skipn 2 r2) in L, Gr.
          change (firstn 3 (skipn 1 (start :: child :: r2))) with (child :: firstn 2 r2).
          set (st := mktok (mkspan (tstart start) (tend child)) (KSpace (n + m))).
          exists ([st; child] ++ firstn 2 r2 ++ upd'), ([cursor + 1] ++ q').
          split; [reflexivity|].
          assert (Hl2 : length upd' = length r2 - 2) by (rewrite L, skipn_length; reflexivity).
          split; [rewrite !app_length, firstn_length; cbn [length]; lia|].
          destruct (glue [st; child] (firstn 2 r2) upd' cursor (cursor + 4) [cursor + 1] q') as [HR HQ].
          { cbn [length]. constructor; [lia|lia|constructor]. }
          { exact Q. }
          { destruct (le_lt_dec 2 (length r2)) as [Hge|Hlt].
            - right. rewrite firstn_length. cbn [length]. lia.
            - left. destruct upd'; [reflexivity|cbn [length] in Hl2; lia]. }
          split; [exact HQ|]. rewrite HR.
          assert (HR1 : remove_indices cursor [cursor + 1] [st; child] = [st]).
          { cbn [remove_indices]. replace (cursor =? cursor + 1) with false by (symmetry; apply Nat.eqb_neq; lia).
            replace (S cursor =? cursor + 1) with true by (symmetry; apply Nat.eqb_eq; lia). reflexivity. }
          rewrite HR1, Gr. rewrite (sp_spec_merge start child r2 n m Hk Hkc). reflexivity.
        }
        all:
          cbn [bind]; replace (cursor + 1 + 1) with (cursor + 2) by lia;
          (destruct (IH' 2) as (upd' & q' & E & L & Q & Gr); [cbn [skipn length]; cbn [length] in Hf; lia|]);
          rewrite E; cbn [bind]; unfold slice; rewrite (Hskip 1);
          replace (cursor + 2 - (cursor + 1)) with 1 by lia;
          cbn [skipn firstn] in *;
          rewrite (rebuild_same start (KSpace n) Hk);
          exists ([start] ++ [child] ++ upd'), ([] ++ q');
          (split; [reflexivity|]);
          (split; [cbn [app length]; lia|]);
          (destruct (glue [start] [child] upd' cursor (cursor + 2) [] q') as [HR HQ];
            [constructor|exact Q|right; cbn [length]; lia|]);
          (split; [exact HQ|]); rewrite HR; rewrite remove_indices_nil; cbn [app];
          rewrite Gr; symmetry; apply sp_spec_keep1; rewrite Hkc; reflexivity.
    }
    all:
      (destruct (IH' 1) as (upd' & q' & E & L & Q & Gr); [cbn [skipn length]; cbn [length] in Hf; lia|]);
      rewrite E; cbn [bind]; cbn [skipn] in *;
      exists ([start] ++ [] ++ upd'), ([] ++ q');
      (split; [reflexivity|]);
      (split; [cbn [app length]; lia|]);
      (destruct (glue [start] [] upd' cursor (cursor + 1) [] q') as [HR HQ];
        [constructor|exact Q|right; cbn [length]; lia|]);
      (split; [exact HQ|]); rewrite HR; rewrite remove_indices_nil; cbn [app];
      rewrite Gr; symmetry; apply sp_spec_keep0; rewrite Hk; reflexivity.
Qed.

Theorem condense_spaces_fun : forall a b ts, Tiling a b ts -> condense_spaces ts = Ok (sp_spec ts).
Proof.
  intros a b ts HT. unfold condense_spaces.
  destruct (cs_outer_fun (S (length ts)) ts 0 a b HT ltac:(cbn [skipn]; lia)) as (upd & q & E & _ & _ & Gr).
  rewrite E. cbn [bind]. cbn [skipn] in Gr. rewrite Gr. reflexivity.
Qed.

(* ---------- the boundary condition and the split ---------- *)
(* neither of the last two tokens of A is a Space *)
Definition sp_closed (A : list token) : Prop :=
  forall pre x, (A = pre ++ [x] \/ exists y, A = pre ++ [x; y]) -> is_space_kind (tkind_of x) = false.

Lemma sp_closed_suffix p S : sp_closed (p ++ S) -> sp_closed S.
Proof.
  intros H pre x [E|[y E]]; apply (H (p ++ pre) x).
  - left. rewrite E, app_assoc. reflexivity.
  - right. exists y. rewrite E, app_assoc. reflexivity.
Qed.

Lemma sp_closed_end A0 x y :
  is_space_kind (tkind_of x) = false -> is_space_kind (tkind_of y) = false -> sp_closed (A0 ++ [x; y]).
Proof.
  intros Hx Hy pre z [E|[w E]].
  - change (A0 ++ [x; y]) with (A0 ++ [x] ++ [y]) in E. rewrite app_assoc in E.
    apply app_inj_tail in E. destruct E as [_ <-]. exact Hy.
  - change (A0 ++ [x; y]) with (A0 ++ [x] ++ [y]) in E. change (pre ++ [z; w]) with (pre ++ [z] ++ [w]) in E.
    rewrite !app_assoc in E. apply app_inj_tail in E. destruct E as [E _].
    apply app_inj_tail in E. destruct E as [_ <-]. exact Hx.
Qed.

Lemma sp_spec_app : forall n A B, length A <= n -> sp_closed A -> sp_spec (A ++ B) = sp_spec A ++ sp_spec B.
Proof.
  induction n as [|n IH]; intros A B Hlen HC.
  - destruct A; [reflexivity|cbn [length] in Hlen; lia].
  - destruct A as [|start r1]; [reflexivity|]. cbn [length] in Hlen.
    assert (HC1 : sp_closed r1) by (apply (sp_closed_suffix [start]); exact HC).
    destruct (is_space_kind (tkind_of start)) eqn:Hs.
    + destruct (tkind_of start) as [| | | |ns| | | | | | |] eqn:Hk; try discriminate.
      destruct r1 as [|child r2].
      * specialize (HC [] start (or_introl eq_refl)). rewrite Hk in HC. discriminate.
      * destruct (is_space_kind (tkind_of child)) eqn:Hc.
        -- destruct (tkind_of child) as [| | | |nc| | | | | | |] eqn:Hkc; try discriminate.
           destruct r2 as [|x [|y r4]].
           ++ specialize (HC [start] child (or_introl eq_refl)). rewrite Hkc in HC. discriminate.
           ++ specialize (HC [start] child (or_intror (ex_intro _ x eq_refl))). rewrite Hkc in HC. discriminate.
           ++ cbn [app]. rewrite !(sp_spec_merge start child _ ns nc Hk Hkc).
              cbn [firstn skipn app]. f_equal. f_equal. f_equal.
              apply IH; [cbn [length] in Hlen; lia|].
              apply (sp_closed_suffix [start; child; x; y]). exact HC.
        -- cbn [app]. rewrite !sp_spec_keep1 by exact Hc. cbn [app]. f_equal. f_equal.
           apply IH; [cbn [length] in Hlen; lia|]. apply (sp_closed_suffix [child]). exact HC1.
    + cbn [app]. rewrite !sp_spec_keep0 by exact Hs. cbn [app]. f_equal. apply IH; [lia|exact HC1].
Qed.

(* the condition is needed: Space, Space, Newline followed by Space, Space *)
Example sp_spec_app_needs_closed :
  let sp i := mktok (mkspan i (i + 1)) (KSpace 1) in
  let A := [sp 0; sp 1; mktok (mkspan 2 3) (KNewline 1)] in
  let B := [sp 3; sp 4] in
  condense_spaces (A ++ B) = Ok [mktok (mkspan 0 2) (KSpace 2); mktok (mkspan 2 3) (KNewline 1); sp 3; sp 4] /\
  condense_spaces A = Ok [mktok (mkspan 0 2) (KSpace 2); mktok (mkspan 2 3) (KNewline 1)] /\
  condense_spaces B = Ok [mktok (mkspan 3 5) (KSpace 2)].
Proof. cbv zeta. repeat split; vm_compute; reflexivity. Qed.

Lemma sp_spec_shift k : forall n l, length l <= n -> sp_spec (map (shift_tk k) l) = map (shift_tk k) (sp_spec l).
Proof.
  induction n as [|n IH]; intros l Hlen.
  - destruct l; [reflexivity|cbn [length] in Hlen; lia].
  - destruct l as [|start r1]; [reflexivity|]. cbn [length] in Hlen. cbn [map].
    destruct (is_space_kind (tkind_of start)) eqn:Hs.
    + destruct (tkind_of start) as [| | | |ns| | | | | | |] eqn:Hk; try discriminate.
      destruct r1 as [|child r2].
      * cbn [map]. rewrite !sp_spec_last1. reflexivity.
      * destruct (is_space_kind (tkind_of child)) eqn:Hc.
        -- destruct (tkind_of child) as [| | | |nc| | | | | | |] eqn:Hkc; try discriminate.
           cbn [map]. rewrite (sp_spec_merge (shift_tk k start) (shift_tk k child) _ ns nc Hk Hkc).
           rewrite (sp_spec_merge start child _ ns nc Hk Hkc). cbn [map]. f_equal.
           rewrite map_app. rewrite firstn_map, skipn_map. f_equal.
           apply IH. rewrite skipn_length. cbn [length] in Hlen. lia.
        -- cbn [map]. rewrite sp_spec_keep1 by (rewrite shift_tk_kind; exact Hc).
           rewrite sp_spec_keep1 by exact Hc. cbn [map]. f_equal. f_equal.
           apply IH. cbn [length] in Hlen. lia.
    + rewrite sp_spec_keep0 by (rewrite shift_tk_kind; exact Hs). rewrite sp_spec_keep0 by exact Hs.
      cbn [map]. f_equal. apply IH. lia.
Qed.

(* ================= condense_newlines as a function ================= *)
Definition nl_count (t : token) : nat := match tkind_of t with KNewline c => c | _ => 0 end.
Definition nl_absorb (s t : token) (n : nat) : token :=
  mktok (mkspan (tstart s) (tend t)) (KNewline (nl_count s + n)).
Definition nl_flush (cur : option token) : list token := match cur with Some s => [s] | None => [] end.

(* cur = the Newline token being built (start token with the counts and span.end absorbed so far) *)
Fixpoint nl_go (cur : option token) (l : list token) : list token :=
  match l with
  | [] => nl_flush cur
  | t :: r =>
      match tkind_of t with
      | KNewline n =>
          match cur with
          | None => nl_go (Some t) r
          | Some s => nl_go (Some (nl_absorb s t n)) r
          end
      | _ => nl_flush cur ++ t :: nl_go None r
      end
  end.
Definition nl_spec (l : list token) : list token := nl_go None l.

Definition head_not_newline (l : list token) : Prop :=
  match l with [] => True | x :: _ => is_newline_kind (tkind_of x) = false end.

Lemma nl_go_keep cur t r :
  is_newline_kind (tkind_of t) = false -> nl_go cur (t :: r) = nl_flush cur ++ t :: nl_go None r.
Proof. intros H. cbn [nl_go]. destruct (tkind_of t); try reflexivity. discriminate. Qed.

Lemma nl_go_base cur tail : head_not_newline tail -> nl_go cur tail = nl_flush cur ++ nl_go None tail.
Proof.
  intros H. destruct tail as [|t r]; [cbn [nl_go nl_flush]; rewrite app_nil_r; reflexivity|].
  cbn [head_not_newline] in H. rewrite !nl_go_keep by exact H. reflexivity.
Qed.

Lemma nl_go_head tail : head_not_newline tail -> nl_go None tail = firstn 1 tail ++ nl_go None (skipn 1 tail).
Proof.
  intros H. destruct tail as [|t r]; [reflexivity|].
  cbn [head_not_newline] in H. rewrite nl_go_keep by exact H. reflexivity.
Qed.

Lemma nl_go_run : forall run ns s c tail,
  map tkind_of run = map KNewline ns -> tkind_of s = KNewline c -> head_not_newline tail ->
  nl_go (Some s) (run ++ tail)
  = mktok (mkspan (tstart s) (run_end run (tend s))) (KNewline (c + list_sum ns)) :: nl_go None tail.
Proof.
  induction run as [|x run IH]; intros ns s c tail Hm Hs Ht.
  - destruct ns; [|discriminate Hm]. cbn [app run_end]. change (list_sum []) with 0. rewrite Nat.add_0_r.
    rewrite (rebuild_same s (KNewline c) Hs). rewrite (nl_go_base (Some s) tail Ht). reflexivity.
  - destruct ns as [|n ns]; [discriminate Hm|]. cbn [map] in Hm. injection Hm as Hx Hm.
    cbn [app nl_go]. rewrite Hx.
    rewrite (IH ns (nl_absorb s x n) (c + n) tail Hm); [|unfold nl_absorb, nl_count; rewrite Hs; reflexivity|exact Ht].
    cbn [run_end]. change (list_sum (n :: ns)) with (n + list_sum ns).
    f_equal. unfold nl_absorb. cbn. f_equal. f_equal. lia.
Qed.

(* cn_inner absorbs the MAXIMAL run of Newline tokens (CondSpaces.cn_inner_spec + maximality) *)
Lemma cn_inner_max : forall r1 fuel copy cursor cnt e,
  (forall k, nth_error copy (cursor + 1 + k) = nth_error r1 k) -> length r1 < fuel ->
  exists run tail ns, r1 = run ++ tail /\ map tkind_of run = map KNewline ns /\ head_not_newline tail /\
    cn_inner fuel copy cursor cnt e =
      Ok (cursor + 1 + length run, cnt + list_sum ns, run_end run e, seq (cursor + 1) (length run)).
Proof.
  induction r1 as [|x r IH]; intros fuel copy cursor cnt e Hnth Hf;
    (destruct fuel as [|f]; [lia|]); cbn [cn_inner].
  - pose proof (Hnth 0) as H0. rewrite Nat.add_0_r in H0. cbn [nth_error] in H0.
    rewrite H0. exists [], [], []. split; [reflexivity|]. split; [reflexivity|]. split; [exact I|].
    cbn [length run_end seq]. change (list_sum []) with 0. rewrite !Nat.add_0_r. reflexivity.
  - pose proof (Hnth 0) as H0. rewrite Nat.add_0_r in H0. cbn [nth_error] in H0.
    rewrite H0. destruct (tkind_of x) eqn:Hk.
    6: {
      destruct (IH f copy (cursor + 1) (cnt + n) (tend x)) as (run & tail & ns & Er & Em & Eh & Ei).
      { intros k. replace (cursor + 1 + 1 + k) with (cursor + 1 + S k) by lia. rewrite Hnth. reflexivity. }
      { cbn [length] in Hf. lia. }
      rewrite Ei. cbn [bind]. exists (x :: run), tail, (n :: ns).
      split; [cbn [app]; congruence|]. split; [cbn [map]; congruence|]. split; [exact Eh|].
      cbn [length seq run_end]. change (list_sum (n :: ns)) with (n + list_sum ns).
      replace (cursor + 1 + 1 + length run) with (cursor + 1 + S (length run)) by lia.
      replace (cnt + n + list_sum ns) with (cnt + (n + list_sum ns)) by lia.
      replace (cursor + 1 + 1) with (S (cursor + 1)) by lia. reflexivity.
    }
    all: exists [], (x :: r), []; (split; [reflexivity|]); (split; [reflexivity|]);
      (split; [cbn [head_not_newline]; rewrite Hk; reflexivity|]);
      cbn [length run_end seq]; change (list_sum []) with 0; rewrite !Nat.add_0_r; reflexivity.
Qed.

Lemma cn_outer_fun : forall fuel copy cursor a b,
  Tiling a b (skipn cursor copy) -> length (skipn cursor copy) < fuel ->
  exists upd q, cn_outer fuel copy cursor = Ok (upd, q) /\
    length upd = length (skipn cursor copy) /\
    QueueIn cursor (cursor + length upd) q /\
    remove_indices cursor q upd = nl_go None (skipn cursor copy).
Proof.
  induction fuel as [|f IH]; intros copy cursor a b HT Hf; [lia|].
  assert (Hnth : forall k, nth_error copy (cursor + k) = nth_error (skipn cursor copy) k)
    by (intros k; symmetry; apply nth_error_skipn).
  assert (Hskip : forall k, skipn (cursor + k) copy = skipn k (skipn cursor copy))
    by (intros k; rewrite skipn_skipn; f_equal; lia).
  assert (Hlen : length (skipn cursor copy) <= length copy) by (rewrite skipn_length; lia).
  assert (IH' : forall k, length (skipn k (skipn cursor copy)) < f ->
            exists upd q, cn_outer f copy (cursor + k) = Ok (upd, q) /\
              length upd = length (skipn k (skipn cursor copy)) /\
              QueueIn (cursor + k) (cursor + k + length upd) q /\
              remove_indices (cursor + k) q upd = nl_go None (skipn k (skipn cursor copy))).
  { intros k Hk. destruct (tiling_skipn _ _ _ k HT) as [a' HT'].
    rewrite <- Hskip in *. eapply IH; eassumption. }
  clear IH.
  assert (H0 : nth_error copy cursor = nth_error (skipn cursor copy) 0) by (rewrite <- Hnth; f_equal; lia).
  cbn [cn_outer]. rewrite H0. clear H0.
  remember (skipn cursor copy) as rest eqn:Hrest. clear Hrest.
  destruct rest as [|start r1]; cbn [nth_error].
  - exists [], []. split; [reflexivity|]. split; [reflexivity|]. split; [constructor|]. reflexivity.
  - destruct (tkind_of start) eqn:Hk.
    6: {
      destruct (cn_inner_max r1 (length copy) copy cursor n (tend start)) as (run & tail & ns & Er & Em & Eh & Ei).
      { intros k. replace (cursor + 1 + k) with (cursor + S k) by lia. rewrite Hnth. reflexivity. }
      { cbn [length] in Hlen. lia. }
      subst r1. rewrite Ei. cbn [bind].
      replace (cursor + 1 + length run + 1) with (cursor + (length run + 2)) by lia.
      assert (Hsk : skipn (length run + 2) (start :: run ++ tail) = skipn 1 tail).
      { replace (length run + 2) with (S (length run + 1)) by lia.
        change (skipn (S (length run + 1)) (start :: run ++ tail)) with (skipn (length run + 1) (run ++ tail)).
        apply skipn_app_len. }
      destruct (IH' (length run + 2)) as (upd' & q' & E & L & Q & Gr).
      { rewrite Hsk, skipn_length. cbn [length] in Hf. rewrite app_length in Hf. lia. }
      rewrite Hsk in L, Gr. rewrite E. cbn [bind]. unfold slice. rewrite (Hskip 1).
      replace (cursor + (length run + 2) - (cursor + 1)) with (length run + 1) by lia.
      change (skipn 1 (start :: run ++ tail)) with (run ++ tail). rewrite firstn_app_len.
      set (st := mktok (mkspan (tstart start) (run_end run (tend start))) (KNewline (n + list_sum ns))).
      exists ((st :: run) ++ firstn 1 tail ++ upd'), (seq (cursor + 1) (length run) ++ q').
      split; [cbn [app]; rewrite <- app_assoc; reflexivity|].
      assert (Hl2 : length upd' = length tail - 1) by (rewrite L, skipn_length; reflexivity).
      split; [cbn [app length]; rewrite !app_length, firstn_length; lia|].
      destruct (glue (st :: run) (firstn 1 tail) upd' cursor (cursor + (length run + 2))
                  (seq (cursor + 1) (length run)) q') as [HR HQ].
      { cbn [length]. eapply queue_in_weaken; [|replace (cursor + S (length run)) with (cursor + 1 + length run) by lia;
                                                 apply queue_in_seq]. lia. }
      { exact Q. }
      { destruct tail as [|t tail'].
        - left. destruct upd'; [reflexivity|cbn [length] in Hl2; lia].
        - right. cbn [firstn length]. lia. }
      split; [exact HQ|]. rewrite HR.
      assert (HR1 : remove_indices cursor (seq (cursor + 1) (length run)) (st :: run) = [st]).
      { rewrite remove_indices_head; [|intros r Hin; apply in_seq in Hin; lia].
        replace (cursor + 1) with (S cursor) by lia. rewrite remove_indices_seq. reflexivity. }
      rewrite HR1, Gr. cbn [nl_go]. rewrite Hk.
      rewrite (nl_go_run run ns start n tail Em Hk Eh). fold st. cbn [app]. f_equal.
      symmetry. apply nl_go_head. exact Eh.
    }
    all:
      (destruct (IH' 1) as (upd' & q' & E & L & Q & Gr); [cbn [skipn length]; cbn [length] in Hf; lia|]);
      rewrite E; cbn [bind]; cbn [skipn] in *;
      exists ([start] ++ [] ++ upd'), ([] ++ q');
      (split; [reflexivity|]);
      (split; [cbn [app length]; lia|]);
      (destruct (glue [start] [] upd' cursor (cursor + 1) [] q') as [HR HQ];
        [constructor|exact Q|right; cbn [length]; lia|]);
      (split; [exact HQ|]); rewrite HR; rewrite remove_indices_nil; cbn [app];
      rewrite Gr; symmetry; apply (nl_go_keep None); rewrite Hk; reflexivity.
Qed.

Theorem condense_newlines_fun : forall a b ts, Tiling a b ts -> condense_newlines ts = Ok (nl_spec ts).
Proof.
  intros a b ts HT. unfold condense_newlines.
  destruct (cn_outer_fun (S (length ts)) ts 0 a b HT ltac:(cbn [skipn]; lia)) as (upd & q & E & _ & _ & Gr).
  rewrite E. cbn [bind]. cbn [skipn] in Gr. rewrite Gr. reflexivity.
Qed.

Lemma nl_go_app B : head_not_newline B -> forall A cur, nl_go cur (A ++ B) = nl_go cur A ++ nl_go None B.
Proof.
  intros HB. induction A as [|t r IH]; intros cur.
  - cbn [app nl_go]. apply nl_go_base. exact HB.
  - cbn [app nl_go]. destruct (tkind_of t); try (rewrite IH, <- app_assoc; reflexivity).
    destruct cur; apply IH.
Qed.

Theorem nl_spec_app A B : head_not_newline B -> nl_spec (A ++ B) = nl_spec A ++ nl_spec B.
Proof. intros HB. apply nl_go_app. exact HB. Qed.

(* the condition is needed: a Newline token at the start of B joins the run that ends A *)
Example nl_spec_app_needs_head :
  let nl i := mktok (mkspan i (i + 1)) (KNewline 1) in
  condense_newlines ([nl 0] ++ [nl 1]) = Ok [mktok (mkspan 0 2) (KNewline 2)] /\
  condense_newlines [nl 0] = Ok [nl 0] /\ condense_newlines [nl 1] = Ok [nl 1].
Proof. cbv zeta. repeat split; vm_compute; reflexivity. Qed.

Lemma nl_go_shift k : forall l cur,
  nl_go (option_map (shift_tk k) cur) (map (shift_tk k) l) = map (shift_tk k) (nl_go cur l).
Proof.
  induction l as [|t r IH]; intros cur.
  - destruct cur; reflexivity.
  - cbn [map nl_go]. rewrite shift_tk_kind. destruct (tkind_of t) eqn:Hk;
      try (rewrite map_app; cbn [map]; rewrite <- (IH None); destruct cur; reflexivity).
    destruct cur as [s|]; cbn [option_map].
    + rewrite <- IH. cbn [option_map]. reflexivity.
    + rewrite <- IH. reflexivity.
Qed.

Theorem nl_spec_shift k l : nl_spec (map (shift_tk k) l) = map (shift_tk k) (nl_spec l).
Proof. apply (nl_go_shift k l None). Qed.

(* ================= newlines_to_breaks ================= *)
Lemma breaks_app A B : newlines_to_breaks (A ++ B) = newlines_to_breaks A ++ newlines_to_breaks B.
Proof. apply map_app. Qed.

Lemma breaks_shift k l : newlines_to_breaks (map (shift_tk k) l) = map (shift_tk k) (newlines_to_breaks l).
Proof.
  unfold newlines_to_breaks. rewrite !map_map. apply map_ext. intros t.
  unfold newline_to_break. rewrite shift_tk_kind. destruct (tkind_of t); try reflexivity.
  destruct (2 <=? n); reflexivity.
Qed.

(* ---------- the statements without the induction bounds ---------- *)
Theorem sp_spec_split A B : sp_closed A -> sp_spec (A ++ B) = sp_spec A ++ sp_spec B.
Proof. intros H. exact (sp_spec_app (length A) A B (le_n _) H). Qed.

Theorem sp_spec_moves k l : sp_spec (map (shift_tk k) l) = map (shift_tk k) (sp_spec l).
Proof. exact (sp_spec_shift k (length l) l (le_n _)). Qed.
