(* C05EdProofs.v — edit_distance_min_alloc (Model/C05Thread.v: ed_min_alloc, the u8 rows in the thread's BUFFERS)
   NEVER PANICS, whatever the buffers hold: below the threshold (both lengths <= 254) every cell of row j is at most
   max(i, j) <= 254, so none of the three checked u8 additions overflows, and every index / index write is in
   bounds; above the threshold the call goes to edit_distance_long, which touches neither buffer.  With
   C05ThreadProofs.ed_buffers_unobservable ("same result or same panic for all buffers") this gives: the distance is a
   FUNCTION of (source, target). *)
Require Import Base Overlap Cache C05Entry C05Thread C05ThreadProofs.
From Coq Require Import List Arith NArith Bool Lia.
Import ListNotations.

Lemma nth_chk_in {A} (l : list A) i : i < length l -> exists x, nth_chk l i = Ok x /\ nth_error l i = Some x.
Proof.
  intros H. unfold nth_chk. destruct (nth_error l i) as [x|] eqn:E; [eauto|].
  apply nth_error_None in E. lia.
Qed.

Lemma set_nth_spec {A} (x : A) : forall (l : list A) i, i < length l ->
  exists l', set_nth l i x = Ok l' /\ length l' = length l /\ nth_error l' i = Some x /\
             (forall k, k <> i -> nth_error l' k = nth_error l k).
Proof.
  induction l as [|h t IH]; intros i Hi; cbn [length] in Hi; [lia|].
  destruct i as [|i']; cbn [set_nth].
  - eexists. split; [reflexivity|]. split; [reflexivity|]. split; [reflexivity|]. intros [|k] Hk; [lia|reflexivity].
  - destruct (IH i') as (t' & E & L & Hx & Hk); [lia|]. rewrite E. cbn [bind]. eexists. split; [reflexivity|].
    split; [cbn [length]; lia|]. split; [exact Hx|]. intros [|k] Hk'; [reflexivity|]. cbn [nth_error]. apply Hk. lia.
Qed.

Lemma u8_add_ok a b : (a + b <= 255)%N -> u8_add a b = Ok (a + b)%N.
Proof. intros H. unfold u8_add. destruct (N.ltb_spec 255 (a + b)); [lia|reflexivity]. Qed.

Lemma upto_length : forall k from, length (upto k from) = k.
Proof. induction k as [|k IH]; intros from; cbn [upto length]; [reflexivity|]. now rewrite IH. Qed.

Lemma upto_nth : forall k from i x, nth_error (upto k from) i = Some x -> x = (from + N.of_nat i)%N.
Proof.
  induction k as [|k IH]; intros from i x E; cbn [upto] in E; [destruct i; discriminate|].
  destruct i as [|i']; cbn [nth_error] in E.
  - injection E as <-. lia.
  - apply IH in E. lia.
Qed.

(* every cell i of the row of target position j is at most max(i, j) *)
Definition row_bound (j : nat) (r : list N) : Prop :=
  forall i x, nth_error r i = Some x -> (x <= N.of_nat (Nat.max i j))%N.
Definition row_bound_below (i0 j : nat) (r : list N) : Prop :=
  forall i x, i < i0 -> nth_error r i = Some x -> (x <= N.of_nat (Nat.max i j))%N.

Lemma ed_inner_total src tj prev j w :
  length src = w -> w <= 254 -> 1 <= j <= 254 -> length prev = S w -> row_bound (j - 1) prev ->
  forall n i0 cur, 1 <= i0 -> i0 + n = S w -> length cur = S w -> row_bound_below i0 j cur ->
  exists cur', ed_inner src tj prev (seq i0 n) cur = Ok cur' /\ length cur' = S w /\ row_bound j cur'.
Proof.
  intros Hs Hw Hj Hp Hpb. induction n as [|n IH]; intros i0 cur Hi Hn Hc Hcb.
  - cbn [seq ed_inner]. exists cur. split; [reflexivity|]. split; [exact Hc|]. intros i x E. apply Hcb; [|exact E].
    assert (i < length cur) by (apply nth_error_Some; congruence). lia.
  - cbn [seq ed_inner].
    destruct (nth_chk_in src (i0 - 1)) as (si & E1 & _); [lia|]. rewrite E1. cbn [bind]. cbv zeta.
    destruct (nth_chk_in prev i0) as (pi & E2 & N2); [lia|]. rewrite E2. cbn [bind].
    pose proof (Hpb _ _ N2) as B2.
    rewrite (u8_add_ok pi 1) by lia. cbn [bind].
    destruct (nth_chk_in cur (i0 - 1)) as (ci1 & E3 & N3); [lia|]. rewrite E3. cbn [bind].
    assert (B3 : (ci1 <= N.of_nat (Nat.max (i0 - 1) j))%N) by (apply (Hcb (i0 - 1)); [lia|exact N3]).
    rewrite (u8_add_ok ci1 1) by lia. cbn [bind].
    destruct (nth_chk_in prev (i0 - 1)) as (pi1 & E4 & N4); [lia|]. rewrite E4. cbn [bind].
    pose proof (Hpb _ _ N4) as B4.
    set (cost := if N.eqb si tj then 0%N else 1%N).
    assert (Hcost : (cost <= 1)%N) by (unfold cost; destruct (N.eqb si tj); lia).
    rewrite (u8_add_ok pi1 cost) by lia. cbn [bind].
    destruct (set_nth_spec (N.min (N.min (pi + 1) (ci1 + 1)) (pi1 + cost)) cur i0) as (cur' & E5 & L5 & X5 & K5); [lia|].
    rewrite E5. cbn [bind].
    apply IH; [lia|lia|lia|].
    intros i x Hlt E. destruct (Nat.eq_dec i i0) as [->|Hne].
    + rewrite X5 in E. injection E as <-. lia.
    + rewrite (K5 _ Hne) in E. apply Hcb; [lia|exact E].
Qed.

Lemma ed_outer_total src tgt w :
  length src = w -> w <= 254 -> length tgt <= 254 ->
  forall m j0 prev cur, 1 <= j0 -> j0 + m = S (length tgt) -> length prev = S w -> length cur = S w ->
    row_bound (j0 - 1) prev ->
    exists p c, ed_outer src tgt w (seq j0 m) prev cur = Ok (p, c) /\ length p = S w /\ length c = S w /\
                row_bound (length tgt) p.
Proof.
  intros Hs Hw Ht. induction m as [|m IH]; intros j0 prev cur Hj Hm Hp Hc Hb.
  - cbn [seq ed_outer]. exists prev, cur. split; [reflexivity|]. split; [exact Hp|]. split; [exact Hc|].
    replace (length tgt) with (j0 - 1) by lia. exact Hb.
  - cbn [seq ed_outer].
    destruct (set_nth_spec (N.of_nat j0) cur 0) as (cur0 & E1 & L1 & X1 & K1); [lia|]. rewrite E1. cbn [bind].
    destruct (nth_chk_in tgt (j0 - 1)) as (tj & E2 & _); [lia|]. rewrite E2. cbn [bind].
    destruct (ed_inner_total src tj prev j0 w Hs Hw ltac:(lia) Hp Hb w 1 cur0) as (cur1 & E3 & L3 & B3); [lia|lia|lia| |].
    { intros i x Hi E. assert (i = 0) by lia. subst i. rewrite X1 in E. injection E as <-. lia. }
    rewrite E3. cbn [bind].
    apply IH; [lia|lia|exact L3|exact Hp|].
    replace (S j0 - 1) with j0 by lia. exact B3.
Qed.

(* edit_distance_min_alloc never panics, whatever the two buffers hold; the distance fits a u8 and, below the
   threshold, is at most the longer of the two lengths *)
Theorem ed_min_alloc_total src tgt prev cur :
  exists d bufs, ed_min_alloc src tgt prev cur = Ok (d, bufs) /\ (d <= 255)%N /\
                 (length src <= 254 -> length tgt <= 254 -> (d <= N.of_nat (Nat.max (length src) (length tgt)))%N).
Proof.
  unfold ed_min_alloc. destruct ((254 <? length src) || (254 <? length tgt)) eqn:Eth.
  - eexists _, _. split; [reflexivity|]. split; [lia|]. intros H1 H2. exfalso.
    apply orb_true_iff in Eth. destruct Eth as [E|E]; apply Nat.ltb_lt in E; lia.
  - apply orb_false_iff in Eth. destruct Eth as [E1 E2]. apply Nat.ltb_ge in E1, E2.
    destruct (ed_outer_total src tgt (length src) eq_refl E1 E2 (length tgt) 1 (upto (S (length src)) 0%N)
                (resize0 cur (S (length src)))) as (p & c & E & Lp & Lc & Bp); [lia|lia|apply upto_length|apply resize0_length| |].
    { intros i x Hx. apply upto_nth in Hx. lia. }
    rewrite E. cbn [bind].
    destruct (nth_chk_in p (length src)) as (r & Er & Nr); [lia|]. rewrite Er. cbn [bind].
    pose proof (Bp _ _ Nr) as Br.
    eexists _, _. split; [reflexivity|]. split; [lia|]. intros _ _. exact Br.
Qed.

(* ... so the distance is a function of (source, target): any two calls, with any buffers, return the same number *)
Theorem ed_distance_function src tgt p1 c1 p2 c2 :
  exists d b1 b2, ed_min_alloc src tgt p1 c1 = Ok (d, b1) /\ ed_min_alloc src tgt p2 c2 = Ok (d, b2).
Proof.
  destruct (ed_min_alloc_total src tgt p1 c1) as (d1 & b1 & E1 & _).
  destruct (ed_min_alloc_total src tgt p2 c2) as (d2 & b2 & E2 & _).
  pose proof (ed_buffers_unobservable src tgt p1 c1 p2 c2) as H. rewrite E1, E2 in H. cbn in H. subst d2.
  exists d1, b1, b2. split; assumption.
Qed.

(* WithinEditDistance::matches never panics and its answer does not depend on the thread's BUFFERS *)
Theorem wed_matches_function content word k b1 b2 :
  exists r b1' b2', wed_matches content word k b1 = Ok (r, b1') /\ wed_matches content word k b2 = Ok (r, b2').
Proof.
  destruct (ed_distance_function content word (fst b1) (snd b1) (fst b2) (snd b2)) as (d & x1 & x2 & E1 & E2).
  unfold wed_matches. rewrite E1, E2. cbn [bind]. eexists _, _, _. split; reflexivity.
Qed.
