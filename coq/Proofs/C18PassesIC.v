(* C18PassesIC.v — the passes of Document::parse are ASCII-CASE-INSENSITIVE in the text, for ANY token list.

   The passes of Document::parse (C02's frozen Condense.document_passes) read the source text in exactly four
   places: NumberSuffix::from_chars behind a Number token (every ASCII casing of th/st/nd/rd is in its table),
   the two word patterns of the Latin pattern (WordSet / AnyCapitalization: eq_ignore_ascii_case against
   the ASCII words etc, vs, et, al), and the get_content of the look-up loop (length only).  Hence, for two
   texts that agree position by position up to ASCII case — or differ in characters that are not ASCII letters
   at all — every pass gives the same result (same tokens, same panic) on EVERY token list; no invariant
   about the tokens is needed (phase 3 proved this only for token lists without Number / Period tokens).

     ickey c        = the ASCII lower-case letter of c, or 0 when c is not an ASCII letter
     Ric a c        = ickey a = ickey c
     document_passes_ic : Forall2 Ric src src' -> document_passes src' t0 = document_passes src t0 *)
Require Import Base Overlap Tables_lexer Lexer Condense ListLemmas C18LexStable.
From Coq Require Import Lia.

Definition ickey (c : N) : N := if is_ascii_alphabetic c then to_ascii_lower c else 0%N.
Definition Ric (a c : N) : Prop := ickey a = ickey c.

Ltac brk1 :=
  match goal with
  | |- context[(?x <=? ?y)%N] => destruct (N.leb_spec x y); try (exfalso; lia)
  | |- context[(?x =? ?y)%N] => destruct (N.eqb_spec x y); try (exfalso; lia)
  end.
Ltac brkle :=
  match goal with
  | |- context[(?x <=? ?y)%N] => destruct (N.leb_spec x y); try (exfalso; lia)
  end.
Ltac brkeq :=
  match goal with
  | |- context[(?x =? ?y)%N] => destruct (N.eqb_spec x y); try (exfalso; lia)
  end.
Ltac unfold_ascii :=
  unfold ickey, eq_ignore_ascii_case, to_ascii_lower, is_ascii_alphabetic, is_ascii_upper, is_ascii_lower,
    in_range, ceq in *.

Lemma alpha_spec c : is_ascii_alphabetic c = true <-> ((65 <= c <= 90) \/ (97 <= c <= 122))%N.
Proof.
  unfold is_ascii_alphabetic, is_ascii_upper, is_ascii_lower, in_range.
  repeat brk1; cbn [andb orb]; split; intros X; try reflexivity; try discriminate; try lia.
Qed.

Lemma ickey_refl a : Ric a a.
Proof. reflexivity. Qed.

(* a character that is not an ASCII letter has key 0, a letter has a key in a..z *)
Lemma ickey_nonalpha c : is_ascii_alphabetic c = false -> ickey c = 0%N.
Proof. unfold ickey. intros ->. reflexivity. Qed.
Lemma ickey_alpha c : is_ascii_alphabetic c = true -> (97 <= ickey c <= 122)%N.
Proof.
  intros H. unfold ickey. rewrite H. apply alpha_spec in H. unfold to_ascii_lower, is_ascii_upper, in_range.
  repeat brk1; cbn [andb]; lia.
Qed.

(* char::eq_ignore_ascii_case against an ASCII letter only sees the key *)
Lemma eq_ic_key a y : is_ascii_alphabetic y = true -> eq_ignore_ascii_case a y = (ickey a =? ickey y)%N.
Proof.
  intros Hy. pose proof (ickey_alpha y Hy) as Ky. apply alpha_spec in Hy.
  destruct (is_ascii_alphabetic a) eqn:Ha.
  - pose proof (ickey_alpha a Ha) as Ka. apply alpha_spec in Ha. revert Ka Ky.
    unfold ickey, eq_ignore_ascii_case, to_ascii_lower, is_ascii_alphabetic, is_ascii_upper, is_ascii_lower, in_range, ceq.
    repeat brkle; cbn [andb orb]; repeat brkeq; intros; try reflexivity; try lia.
  - rewrite (ickey_nonalpha a Ha).
    assert (Na : ~ ((65 <= a <= 90) \/ (97 <= a <= 122))%N).
    { intros X. apply alpha_spec in X. congruence. }
    revert Ky.
    unfold ickey, eq_ignore_ascii_case, to_ascii_lower, is_ascii_alphabetic, is_ascii_upper, is_ascii_lower, in_range, ceq.
    repeat brkle; cbn [andb orb]; repeat brkeq; intros; try reflexivity; try lia.
Qed.

Lemma zip_ic (w : text) : Forall (fun y => is_ascii_alphabetic y = true) w ->
  forall cs cs', Forall2 Ric cs cs' -> zip_all_eq_ic cs' w = zip_all_eq_ic cs w.
Proof.
  intros Hw. induction Hw as [|y w Hy _ IH]; intros cs cs' H.
  - destruct H; reflexivity.
  - destruct H as [|a c l l' Hac Hl]; [reflexivity|]. cbn [zip_all_eq_ic].
    rewrite (eq_ic_key a y Hy), (eq_ic_key c y Hy). unfold Ric in Hac. rewrite Hac, (IH _ _ Hl). reflexivity.
Qed.

(* NumberSuffix::from_chars only sees the keys of its two characters *)
Definition suffix_of_keys (x y : N) : option num_suffix :=
  if (x =? 116)%N && (y =? 104)%N then Some SufTh else
  if (x =? 115)%N && (y =? 116)%N then Some SufSt else
  if (x =? 110)%N && (y =? 100)%N then Some SufNd else
  if (x =? 114)%N && (y =? 100)%N then Some SufRd else None.

Lemma ickey_cases c :
  (is_ascii_alphabetic c = false /\ ickey c = 0%N) \/
  ((97 <= c <= 122)%N /\ ickey c = c) \/ ((65 <= c <= 90)%N /\ ickey c = (c + 32)%N).
Proof.
  destruct (is_ascii_alphabetic c) eqn:H.
  - right. unfold ickey. rewrite H. apply alpha_spec in H. unfold to_ascii_lower, is_ascii_upper, in_range.
    destruct H as [H|H].
    + right. split; [exact H|]. repeat brk1; cbn [andb]; reflexivity.
    + left. split; [exact H|]. repeat brk1; cbn [andb]; try reflexivity; lia.
  - left. split; [reflexivity|apply ickey_nonalpha; exact H].
Qed.

Lemma nonalpha_range c : is_ascii_alphabetic c = false -> ~ ((65 <= c <= 90) \/ (97 <= c <= 122))%N.
Proof. intros H X. apply alpha_spec in X. congruence. Qed.

Lemma suffix_keys a b : suffix_from_chars a b = suffix_of_keys (ickey a) (ickey b).
Proof.
  destruct (ickey_cases a) as [[Ha ->]|[[Ha ->]|[Ha ->]]]; destruct (ickey_cases b) as [[Hb ->]|[[Hb ->]|[Hb ->]]];
    try apply nonalpha_range in Ha; try apply nonalpha_range in Hb;
    unfold suffix_from_chars, suffix_of_keys; repeat brk1; cbn [andb]; try reflexivity; try lia.
Qed.

Lemma suffix_of_chars_ic cs cs' : Forall2 Ric cs cs' -> suffix_of_chars cs' = suffix_of_chars cs.
Proof.
  intros H. destruct H as [|a c l l' Hac Hl]; [reflexivity|]. destruct Hl as [|b d l l' Hbd _]; [reflexivity|].
  cbn [suffix_of_chars]. rewrite !suffix_keys. unfold Ric in *. rewrite Hac, Hbd. reflexivity.
Qed.

(* ---------- slices of related texts ---------- *)
Lemma Forall2_firstn_ic {A B} (R : A -> B -> Prop) n : forall l l', Forall2 R l l' -> Forall2 R (firstn n l) (firstn n l').
Proof.
  induction n as [|n IH]; intros l l' H; [constructor|]. destruct H; [constructor|]. cbn [firstn]. constructor; auto.
Qed.
Lemma Forall2_slice_ic {A B} (R : A -> B -> Prop) a b l l' : Forall2 R l l' -> Forall2 R (slice l a b) (slice l' a b).
Proof. intros H. unfold slice. apply Forall2_firstn_ic. apply Forall2_skipn_c18. exact H. Qed.

Lemma if_else_congr {A} (b : bool) (x y y' : A) : y = y' -> (if b then x else y) = (if b then x else y').
Proof. intros ->. reflexivity. Qed.

Section IC.
  Variables src src' : text.
  Hypothesis HR : Forall2 Ric src src'.

  Lemma ic_len : length src' = length src.
  Proof. symmetry. exact (Forall2_length_c18 _ _ _ HR). Qed.

  Lemma get_content_ic sp :
    (exists v v', get_content sp src = Ok v /\ get_content sp src' = Ok v' /\ Forall2 Ric v v') \/
    (exists w, get_content sp src = Panic w /\ get_content sp src' = Panic w).
  Proof.
    unfold get_content, try_get_content. rewrite ic_len.
    destruct ((send sp <? sstart sp) || (length src <=? sstart sp) || (length src <? send sp)).
    - destruct (span_len sp) as [len|w]; cbn [bind]; [|right; eauto].
      destruct (len =? 0); cbn; [left; exists [], []; repeat split; constructor|right; eauto].
    - cbn [bind]. left. eexists. eexists. split; [reflexivity|]. split; [reflexivity|].
      apply Forall2_slice_ic. exact HR.
  Qed.

  (* ---------- condense_number_suffixes ---------- *)
  Lemma ns_loop_ic : forall n idx toks, ns_loop src' n idx toks = ns_loop src n idx toks.
  Proof.
    induction n as [|n IH]; intros idx toks; [reflexivity|]. cbn [ns_loop].
    destruct (nth_chk toks (idx + 1)) as [b|]; [|reflexivity]. cbn [bind].
    destruct (nth_chk toks idx) as [a|]; [|reflexivity]. cbn [bind].
    destruct (is_number (tkind_of a) && is_word (tkind_of b)); [|apply IH].
    destruct (span_len (tspan b)) as [bl|]; [|reflexivity]. cbn [bind].
    destruct (negb (bl =? 2)); [apply IH|].
    destruct (get_content_ic (tspan b)) as [(v & v' & -> & -> & HV)|(w & -> & ->)]; cbn [bind]; [|reflexivity].
    rewrite (suffix_of_chars_ic v v' HV). destruct (suffix_of_chars v) as [sfx|]; [|apply IH].
    destruct (set_suffix (tkind_of a) sfx) as [k'|]; cbn [bind]; [|reflexivity].
    destruct (set_nth toks idx (mktok (tspan a) k')) as [toks1|]; cbn [bind]; [|reflexivity].
    rewrite IH. reflexivity.
  Qed.

  Lemma suffixes_ic toks : condense_number_suffixes src' toks = condense_number_suffixes src toks.
  Proof. unfold condense_number_suffixes. rewrite ns_loop_ic. reflexivity. Qed.

  (* ---------- the Latin pattern ---------- *)
  Lemma wordset_ic words ts : Forall (Forall (fun y => is_ascii_alphabetic y = true)) words ->
    wordset_matches words src' ts = wordset_matches words src ts.
  Proof.
    intros Hw. destruct ts as [|tok r]; [reflexivity|]. cbn [wordset_matches].
    destruct (negb (is_word (tkind_of tok))); [reflexivity|].
    destruct (get_content_ic (tspan tok)) as [(v & v' & -> & -> & HV)|(w & -> & ->)]; cbn [bind]; [|reflexivity].
    assert (E : existsb (fun w => (length v' =? length w) && zip_all_eq_ic v' w) words
              = existsb (fun w => (length v =? length w) && zip_all_eq_ic v w) words).
    { pose proof (Forall2_length_c18 _ _ _ HV) as Lv.
      induction Hw as [|w ws Hw1 _ IH]; [reflexivity|]. cbn [existsb].
      rewrite (zip_ic w Hw1 v v' HV), IH. unfold text, char in *. rewrite Lv. reflexivity. }
    rewrite E. reflexivity.
  Qed.

  Lemma anycap_ic w ts : Forall (fun y => is_ascii_alphabetic y = true) w ->
    anycap_matches w src' ts = anycap_matches w src ts.
  Proof.
    intros Hw. destruct ts as [|tok r]; [reflexivity|]. cbn [anycap_matches].
    destruct (negb (is_word (tkind_of tok))); [reflexivity|].
    destruct (span_len (tspan tok)) as [l|]; cbn [bind]; [|reflexivity].
    apply if_else_congr.
    destruct (get_content_ic (tspan tok)) as [(v & v' & -> & -> & HV)|(x & -> & ->)]; cbn [bind]; [|reflexivity].
    rewrite (zip_ic w Hw v v' HV). reflexivity.
  Qed.

  Lemma latin_words_alpha :
    Forall (Forall (fun y => is_ascii_alphabetic y = true)) latin_wordset /\
    Forall (fun y => is_ascii_alphabetic y = true) latin_first /\
    Forall (fun y => is_ascii_alphabetic y = true) latin_second.
  Proof. repeat split; repeat constructor. Qed.

  Lemma latin_matches_ic ts : latin_matches src' ts = latin_matches src ts.
  Proof.
    destruct latin_words_alpha as (W & F1 & F2).
    unfold latin_matches, latin_alt1, latin_alt2.
    rewrite (wordset_ic latin_wordset ts W), (anycap_ic latin_first ts F1).
    destruct (wordset_matches latin_wordset src ts) as [n|]; cbn [bind]; [|reflexivity].
    destruct (anycap_matches latin_first src ts) as [m|]; cbn [bind].
    - destruct (m =? 0); [reflexivity|]. cbv zeta.
      destruct (count_while _ (skipn 1 ts) =? 0); [reflexivity|].
      rewrite (anycap_ic latin_second _ F2). reflexivity.
    - reflexivity.
  Qed.

  Lemma latin_ic ts : condense_latin src' ts = condense_latin src ts.
  Proof.
    unfold condense_latin, condense_pattern, find_all_matches.
    rewrite (fam_scan_congr (latin_matches src) (latin_matches src') ts 0); [reflexivity|].
    intros j. apply latin_matches_ic.
  Qed.

  (* ---------- all passes, on ANY token list ---------- *)
  Theorem document_passes_ic t0 : document_passes src' t0 = document_passes src t0.
  Proof.
    unfold document_passes.
    destruct (condense_spaces t0) as [t1|]; cbn [bind]; [|reflexivity].
    destruct (condense_newlines t1) as [t2|]; cbn [bind]; [|reflexivity]. cbv zeta.
    rewrite suffixes_ic. destruct (condense_number_suffixes src (newlines_to_breaks t2)) as [t4|]; cbn [bind]; [|reflexivity].
    change (condense_contractions src' t4) with (condense_contractions src t4).
    destruct (condense_contractions src t4) as [t5|]; cbn [bind]; [|reflexivity].
    destruct (condense_dotted_initialisms t5) as [t6|]; cbn [bind]; [|reflexivity].
    change (condense_ellipsis src' t6) with (condense_ellipsis src t6).
    destruct (condense_ellipsis src t6) as [t7|]; cbn [bind]; [|reflexivity].
    rewrite latin_ic. destruct (condense_latin src t7) as [t8|]; cbn [bind]; [|reflexivity].
    destruct (match_quotes t8) as [t9|]; cbn [bind]; [|reflexivity].
    rewrite (word_lookup_congr src src' ic_len t9). reflexivity.
  Qed.
End IC.
