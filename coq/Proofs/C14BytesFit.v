(* C14BytesFit.v — C14, phase 5: the premise `ctx_wfb c` of the prefix-freeness theorems ("every value of the context fits
   its Rust type, kinds blanked") is not a premise about contexts: it FOLLOWS, for every context LintContext::from_lint
   builds, from the same statement about its inputs — the lint (`lint_fitsb`: LintKind / u8 / usize / char ranges) and the
   document (`doc_fitsb`: the source is a Vec<char> of at most usize::MAX / 3 tokens' worth ..., token kinds carry u64 /
   u32 / usize values).  In particular the blanking (Word(None), Quote { twin_loc: None }) that keeps the unmodelled
   WordMetadata stream out of the bytes is PROVED of every context, not assumed. *)
Require Import Base Suggestion Ignore ListLemmas IgnoreProofs C14Bytes C14BytesProofs.
From Coq Require Import Lia.
Local Open Scope N_scope.

Definition lint_fitsb (l : ilint) : bool :=
  u64b (il_kind l) && uszb (length (il_sugg l)) && forallb sugg_wfb (il_sugg l) && forallb scalarb (il_msg l)
  && (il_prio l <? 256).
(* every char of the source is a u32, the source and three times the token vector have a usize length, every token kind
   — once blanked — carries values of its Rust types *)
Definition doc_fitsb (d : doc) : bool :=
  forallb u32b (dsrc d) && uszb (length (dsrc d)) && uszb (3 * length (dtoks d))
  && forallb (fun t => kind_wfb (blank_kind (tkd t))) (dtoks d).

Lemma In_firstn {A} (x : A) n : forall l, In x (firstn n l) -> In x l.
Proof.
  induction n as [|n IH]; intros [|y l] H; cbn [firstn] in H; try contradiction.
  destruct H as [<-|H]; [left; reflexivity|right; apply IH; exact H].
Qed.
Lemma In_skipn {A} (x : A) n : forall l, In x (skipn n l) -> In x l.
Proof.
  induction n as [|n IH]; intros [|y l] H; cbn [skipn] in H; try contradiction; [exact H|right; apply IH; exact H].
Qed.

Lemma get_content_sub {A} (sp : span) (src c : list A) :
  get_content sp src = Ok c -> (forall x, In x c -> In x src) /\ (length c <= length src)%nat.
Proof.
  unfold get_content, try_get_content.
  destruct ((send sp <? sstart sp)%nat || (length src <=? sstart sp)%nat || (length src <? send sp)%nat).
  - destruct (span_len sp) as [len|]; cbn [bind]; [|discriminate].
    destruct (len =? 0)%nat; cbn [bind]; [|discriminate]. intros E. injection E as <-.
    split; [intros x []|cbn [length]; lia].
  - cbn [bind]. intros E. injection E as <-. unfold slice. split.
    + intros x H. apply In_firstn, In_skipn in H. exact H.
    + rewrite firstn_length, skipn_length. lia.
Qed.

Lemma map_res_In {A B} (f : A -> res B) : forall l l', map_res f l = Ok l' ->
  forall y, In y l' -> exists x, In x l /\ f x = Ok y.
Proof.
  induction l as [|x r IH]; intros l' E y Hy; cbn [map_res] in E.
  - injection E as <-. destruct Hy.
  - destruct (f x) as [y0|] eqn:Ex; cbn [bind] in E; [|discriminate].
    destruct (map_res f r) as [ys|] eqn:Er; cbn [bind] in E; [|discriminate]. injection E as <-.
    destruct Hy as [<-|Hy]; [exists x; split; [left; reflexivity|exact Ex]|].
    destruct (IH ys eq_refl y Hy) as [x' [Hin Hx']]. exists x'. split; [right; exact Hin|exact Hx'].
Qed.
Lemma map_res_len {A B} (f : A -> res B) : forall l l', map_res f l = Ok l' -> length l' = length l.
Proof.
  induction l as [|x r IH]; intros l' E; cbn [map_res] in E.
  - injection E as <-. reflexivity.
  - destruct (f x) as [y0|]; cbn [bind] in E; [|discriminate].
    destruct (map_res f r) as [ys|] eqn:Er; cbn [bind] in E; [|discriminate]. injection E as <-.
    cbn [length]. rewrite (IH ys eq_refl). reflexivity.
Qed.

Lemma indices_from_length ts sp : forall i, (length (indices_from i ts sp) <= length ts)%nat.
Proof.
  induction ts as [|t r IH]; intros i; cbn [indices_from length]; [lia|].
  destruct (overlaps (tspan t) sp); cbn [length]; specialize (IH (S i)); lia.
Qed.
Lemma get_tokens_length ts idxs : (length (get_tokens ts idxs) <= length idxs)%nat.
Proof.
  induction idxs as [|i r IH]; cbn [get_tokens length]; [lia|].
  destruct (nth_error ts i); cbn [length]; lia.
Qed.

Lemma uszb_le a b : (a <= b)%nat -> uszb b = true -> uszb a = true.
Proof. unfold uszb, u64b. intros H Hb. apply N.ltb_lt in Hb. apply N.ltb_lt. lia. Qed.

Lemma forallb_sub {A} (p : A -> bool) l l' : (forall x, In x l' -> In x l) -> forallb p l = true -> forallb p l' = true.
Proof. intros H Hl. rewrite forallb_forall in *. intros x Hx. apply Hl, H, Hx. Qed.

(* every kind that enters a context is blanked *)
Theorem context_kinds_blanked l d c : context l d = Ok c ->
  Forall (fun f => blank_kind (fst f) = fst f) (c_toks c).
Proof.
  unfold context. destruct (context_tokens l d) as [toks|] eqn:Et; cbn [bind]; [|discriminate].
  intros E. injection E as <-. cbn [c_toks].
  unfold context_tokens in Et. destruct (context_indices l d) as [idx|]; cbn [bind] in Et; [|discriminate].
  apply Forall_forall. intros f Hf. destruct (map_res_In _ _ _ Et f Hf) as [t [_ Ef]].
  unfold fat_blanked in Ef. destruct (to_fat (dsrc d) t) as [f0|]; cbn [bind] in Ef; [|discriminate].
  injection Ef as <-. unfold blank_ftok. cbn [fst]. apply blank_kind_idem.
Qed.

Theorem context_fits l d c : context l d = Ok c -> lint_fitsb l = true -> doc_fitsb d = true -> ctx_wfb c = true.
Proof.
  intros Ec Hl Hd. unfold lint_fitsb in Hl. unfold doc_fitsb in Hd.
  repeat (match goal with H : _ && _ = true |- _ => apply andb_prop in H; destruct H end).
  unfold context in Ec. destruct (context_tokens l d) as [toks|] eqn:Et; cbn [bind] in Ec; [|discriminate].
  injection Ec as <-. unfold ctx_wfb. cbn [c_kind c_sugg c_msg c_prio c_toks].
  unfold context_tokens in Et. rewrite context_indices_nb in Et. cbn [bind] in Et.
  assert (length toks <= 3 * length (dtoks d))%nat as Hlen.
  { rewrite (map_res_len _ _ _ Et). etransitivity; [apply get_tokens_length|].
    unfold nb_indices, token_indices_intersecting. rewrite !app_length.
    pose proof (indices_from_length (dtoks d) (before_window (il_span l)) 0).
    pose proof (indices_from_length (dtoks d) (il_span l) 0).
    pose proof (indices_from_length (dtoks d) (after_window (il_span l)) 0). lia. }
  assert (forallb ftok_wfb toks = true) as Htoks.
  { apply forallb_forall. intros f Hf. destruct (map_res_In _ _ _ Et f Hf) as [t [Hin Ef]].
    apply get_tokens_In in Hin.
    unfold fat_blanked, to_fat in Ef. destruct (get_content (tspan t) (dsrc d)) as [cnt|] eqn:Eg; cbn [bind] in Ef; [|discriminate].
    injection Ef as <-. unfold ftok_wfb, blank_ftok. cbn [fst snd].
    destruct (get_content_sub _ _ _ Eg) as [Hsub Hl].
    apply andb_true_intro. split.
    - unfold charsb. apply andb_true_intro. split; [eapply uszb_le; eassumption|eapply forallb_sub; eassumption].
    - match goal with H : forallb _ (dtoks d) = true |- _ => rewrite forallb_forall in H; apply (H t Hin) end. }
  repeat (apply andb_true_intro; split); try assumption. eapply uszb_le; eassumption.
Qed.

(* a list of contexts built from fitting inputs *)
Lemma contexts_fit hist cs : contexts_of context hist cs ->
  Forall (fun ld => lint_fitsb (fst ld) = true /\ doc_fitsb (snd ld) = true) hist ->
  Forall (fun c => ctx_wfb c = true) cs.
Proof.
  intros H. induction H as [|[l d] c h t H0 Ht IH]; intros Hf; [constructor|].
  inversion Hf as [|? ? [Hl Hd] Hr]. subst. constructor; [|apply IH; exact Hr].
  cbn [fst snd] in *. eapply context_fits; eassumption.
Qed.

(* "only that lint" for the hash IgnoredLints really stores, premises on INPUTS only + SipHash on the byte strings *)
Theorem only_sip_inputs hist cs l d c ls s' ls' :
  contexts_of context hist cs -> ignore_all context stored_hash [] hist = Ok s' ->
  (forall l0, In l0 ls -> exists c0, context l0 d = Ok c0) ->
  remove_ignored context stored_hash s' ls d = Ok ls' ->
  In l ls -> context l d = Ok c ->
  ~ In c cs ->
  Forall (fun ld => lint_fitsb (fst ld) = true /\ doc_fitsb (snd ld) = true) ((l, d) :: hist) ->
  bytes_injective_on default_hasher (map enc_ctx (c :: cs)) ->
  In l ls'.
Proof.
  intros Hcs Es Hall Er Hin Ec Hnot Hfit Hinj.
  apply (only_sip hist cs l d c ls s' ls' Hcs Es Hall Er Hin Ec Hnot); [|exact Hinj].
  apply (contexts_fit ((l, d) :: hist) (c :: cs)); [|exact Hfit]. constructor; [exact Ec|exact Hcs].
Qed.
