(* C01BodiesProofs.v (phase 4) — the rule bodies of Model/C01Bodies.v return normally.
   ModalOf: for EVERY slice of tokens that lie inside the text (whatever the pattern matched): the `match words.len()`
   guards words[modal_word], words[modal_word + 1]; iter_word_indices is strictly increasing and below len, so the
   inclusive slice is in range and non-empty, hence `.span().unwrap()` is Some and inside the text.
   ProperNounCapitalizationLinter: the second lookup on the MATCHED slice finds a row because the rows are
   ExactPhrase patterns, which look only at the tokens they consume (prefix stability). *)
Require Import Base Overlap TokenSeq Pattern TokenSeqProofs PatternProofs C01LenProofs C01Bodies.
From Coq Require Import List Arith Lia Bool NArith.
Import ListNotations.

Definition in_src (n : nat) (t : tok) : Prop := sstart (tspan t) <= send (tspan t) /\ send (tspan t) <= n.
Definition span_inside (n : nat) (sp : span) : Prop := sstart sp <= send sp /\ send sp <= n.

Lemma nth_chk_ok {A} (l : list A) i : i < length l -> exists x, nth_chk l i = Ok x /\ In x l.
Proof.
  intros H. unfold nth_chk. destruct (nth_error l i) eqn:E.
  - exists a. split; [reflexivity|]. now apply nth_error_In in E.
  - apply nth_error_None in E. lia.
Qed.

Lemma in_src_hull n ts sp : Forall (in_src n) ts -> hull_unwrap ts = Ok sp -> span_inside n sp.
Proof.
  intros HF. apply hull_unwrap_in. eapply Forall_impl; [|exact HF]. intros t [H1 H2]. cbn beta. lia.
Qed.

Lemma word_indices_chain mt : chain_lt 0 (word_indices mt) (length mt).
Proof. exact (indices_from_chain (flag F_WORD) 0 mt). Qed.

Section Src.
  Variable src : text.
  Let n := length src.

  Lemma in_src_content t : in_src n t -> exists c, get_content (tspan t) src = Ok c.
  Proof. intros [H1 H2]. now apply get_content_ok. Qed.

  (* the tail of ModalOf::match_to_lint for two positions a < b < len *)
  Lemma modal_tail mt a b : Forall (in_src n) mt -> a < b -> b < length mt ->
    exists sp,
      (do sl <- slice_chk mt a (S b);
       do sp <- hull_unwrap sl;
       do t <- nth_chk mt a;
       do _c <- get_content (tspan t) src;
       do _d <- get_content sp src;
       Ok (Some sp)) = Ok (Some sp) /\ span_inside n sp.
  Proof.
    intros HF Hab Hb.
    rewrite slice_chk_ok' by lia. cbn [bind].
    assert (slice mt a (S b) <> []) as NE.
    { intros E. apply (f_equal (@length tok)) in E. unfold slice in E. rewrite firstn_length, skipn_length in E. cbn [length] in E. lia. }
    destruct (hull_unwrap_ok _ NE) as [sp [Eh _]]. rewrite Eh. cbn [bind].
    assert (span_inside n sp) as IN.
    { apply (in_src_hull n (slice mt a (S b))); [|exact Eh]. unfold slice. apply PatternProofs.Forall_firstn. now apply PatternProofs.Forall_skipn. }
    destruct (nth_chk_ok mt a) as [t [Et It]]; [lia|]. rewrite Et. cbn [bind].
    rewrite Forall_forall in HF. destruct (in_src_content t (HF t It)) as [c Ec]. rewrite Ec. cbn [bind].
    destruct IN as [I1 I2]. destruct (get_content_ok sp src I1 I2) as [d Ed]. rewrite Ed. cbn [bind].
    exists sp. split; [reflexivity|split; assumption].
  Qed.

  Theorem modal_of_body_total mt : Forall (in_src n) mt ->
    exists r, modal_of_body mt src = Ok r /\ forall sp, r = Some sp -> span_inside n sp.
  Proof.
    intros HF. unfold modal_of_body. pose proof (word_indices_chain mt) as HC.
    destruct (word_indices mt) as [|a [|b [|c [|d w]]]]; cbn [length modal_of_select bind].
    - exists None. split; [reflexivity|discriminate].
    - exists None. split; [reflexivity|discriminate].
    - cbn [chain_lt] in HC. destruct HC as [_ [Ha [Hab [Hb _]]]].
      cbn [nth_chk nth_error Nat.add bind].
      destruct (modal_tail mt a b HF) as [sp [E IN]]; [lia|lia|].
      exists (Some sp). split; [exact E|]. intros sp' [= <-]. exact IN.
    - cbn [chain_lt] in HC. destruct HC as [_ [Ha [Hab [Hb [Hbc [Hc _]]]]]].
      destruct mt as [|t0 mr]; [cbn [length] in Ha; lia|].
      cbn [last_chk bind].
      assert (In (last mr t0) (t0 :: mr)) as IL.
      { clear. revert t0. induction mr as [|x r IH]; intros t0; [now left|]. rewrite last_cons. right. apply IH. }
      pose proof HF as HF'. rewrite Forall_forall in HF'.
      destruct (in_src_content _ (HF' _ IL)) as [cl Ecl]. rewrite Ecl. cbn [bind].
      destruct (negb (text_eqb cl w_of)); [exists None; split; [reflexivity|discriminate]|].
      cbn [first_chk bind].
      destruct (flag F_ADJ t0 || flag F_DET t0); cbn [bind]; [exists None; split; [reflexivity|discriminate]|].
      cbn [nth_chk nth_error Nat.add bind].
      destruct (modal_tail (t0 :: mr) b c HF) as [sp [E IN]]; [lia|lia|].
      exists (Some sp). split; [exact E|]. intros sp' [= <-]. exact IN.
    - exists None. split; [reflexivity|discriminate].
  Qed.

  (* ---------- RepeatedWords: the slice between neighbouring word indices ---------- *)
  Lemma pairs_adjacent_uses chunk : forall lo idx, chain_lt lo idx (length chunk) ->
    all_uses chunk (pairs_adjacent idx) = Ok tt.
  Proof.
    intros lo idx. revert lo. induction idx as [|a r IH]; intros lo HC; [reflexivity|].
    destruct r as [|b r']; [reflexivity|].
    cbn [pairs_adjacent all_uses]. cbn [chain_lt] in HC. destruct HC as [_ [Ha [Hab [Hb HR]]]].
    unfold between_words_use. cbn [fst snd].
    destruct (nth_chk_ok chunk a Ha) as [x [Ex _]]. rewrite Ex. cbn [bind].
    destruct (nth_chk_ok chunk b Hb) as [y [Ey _]]. rewrite Ey. cbn [bind].
    rewrite slice_chk_ok' by lia. cbn [bind].
    apply (IH (S a)). cbn [chain_lt]. repeat split; [lia|exact Hb|exact HR].
  Qed.

  Theorem repeated_words_uses_total chunk : repeated_words_uses chunk = Ok tt.
  Proof. unfold repeated_words_uses. apply (pairs_adjacent_uses chunk 0). apply word_indices_chain. Qed.
End Src.

Lemma repeated_words_slice_total chunk : repeated_words_uses chunk = Ok tt.
Proof. exact (repeated_words_uses_total [] chunk). Qed.

(* ================= ProperNounCapitalizationLinter ================= *)
Lemma ws_go_firstn : forall ts k, ws_go ts <= k -> ws_go (firstn k ts) = ws_go ts.
Proof.
  induction ts as [|t r IH]; intros k H; [now rewrite firstn_nil|].
  cbn [ws_go] in *. destruct (flag F_WS t) eqn:E.
  - destruct k as [|k]; [lia|]. cbn [firstn ws_go]. rewrite E. f_equal. apply IH. lia.
  - destruct k as [|k]; [reflexivity|]. cbn [firstn ws_go]. now rewrite E.
Qed.

Section Local.
  Variable leaf : nat -> tok -> text -> res bool.
  Variable oracle : nat -> list tok -> text -> res bool.
  Variable src : text.
  Let M := fun (q : pat) (ts : list tok) => matches leaf oracle q ts src.

  (* a part of an ExactPhrase looks only at the tokens it consumes: the answer on a prefix that still holds them
     is the same *)
  Lemma leaf_local_prefix q ts k m : leaf_local q = true ->
    matches leaf oracle q ts src = Ok m -> m <> 0 -> m <= k -> matches leaf oracle q (firstn k ts) src = Ok m.
  Proof.
    intros HL H Hm Hk.
    destruct q; try discriminate HL; cbn [matches] in *;
      try (destruct ts as [|t r]; [cbn in H; injection H as <-; now elim Hm|];
           destruct k as [|k]; [lia|]; cbn [firstn]; exact H).
    (* WhitespacePattern *)
    injection H as <-. now rewrite ws_go_firstn.
  Qed.

  Lemma seq_go_ge toks : forall ps c r, seq_go pat M toks ps c = Ok r -> r = 0 \/ c <= r.
  Proof.
    induction ps as [|q ps IH]; intros c r H; cbn [seq_go] in H.
    - injection H as <-. now right.
    - apply bind_ok_inv in H as [rest [_ H]]. apply bind_ok_inv in H as [m [_ H]].
      destruct (m =? 0); [injection H as <-; now left|].
      destruct (IH _ _ H) as [Z|G]; [now left|right; lia].
  Qed.

  Lemma seq_local_prefix toks : forall ps, Forall (fun q => leaf_local q = true) ps ->
    forall c r k, seq_go pat M toks ps c = Ok r -> r <> 0 -> r <= k ->
    seq_go pat M (firstn k toks) ps c = Ok r.
  Proof.
    induction ps as [|q ps IH]; intros HF c r k H Hr Hk; cbn [seq_go] in *; [exact H|].
    inversion HF as [|? ? Hq HF']; subst.
    apply bind_ok_inv in H as [rest [E1 H]]. apply bind_ok_inv in H as [m [E2 H]].
    unfold slice_from in E1. destruct (length toks <? c) eqn:Ec; [discriminate|]. injection E1 as <-.
    apply Nat.ltb_ge in Ec.
    destruct (m =? 0) eqn:Em; [injection H as <-; now elim Hr|]. apply Nat.eqb_neq in Em.
    destruct (seq_go_ge _ _ _ _ H) as [Z|G]; [now elim Hr|].
    unfold slice_from. rewrite firstn_length.
    assert (Nat.min k (length toks) <? c = false) as El by (apply Nat.ltb_ge; lia).
    rewrite El. cbn [bind]. rewrite skipn_firstn_comm.
    unfold M at 1. rewrite (leaf_local_prefix q (skipn c toks) (k - c) m Hq E2 Em) by lia.
    cbn [bind]. destruct (m =? 0) eqn:Em'; [apply Nat.eqb_eq in Em'; lia|].
    now apply IH.
  Qed.

  Lemma row_local_prefix q ts k m : row_local q = true ->
    matches leaf oracle q ts src = Ok m -> m <> 0 -> m <= k -> matches leaf oracle q (firstn k ts) src = Ok m.
  Proof.
    intros HL H Hm Hk.
    destruct q; try (apply leaf_local_prefix; assumption); cbn [row_local] in HL; cbn [matches] in *.
    - apply seq_local_prefix; try assumption. apply Forall_forall. rewrite forallb_forall in HL. exact HL.
    - apply seq_local_prefix; try assumption. apply Forall_forall. rewrite forallb_forall in HL. exact HL.
  Qed.
End Local.

(* a local row never consults an oracle *)
Lemma seq_go_ext (m1 m2 : pat -> list tok -> res nat) toks : forall ps c,
  Forall (fun q => forall ts, m1 q ts = m2 q ts) ps -> seq_go pat m1 toks ps c = seq_go pat m2 toks ps c.
Proof.
  induction ps as [|q ps IH]; intros c HF; [reflexivity|]. inversion HF as [|? ? Hq HF']; subst.
  cbn [seq_go]. destruct (slice_from toks c) as [rest|w]; [|reflexivity]. cbn [bind]. rewrite Hq.
  destruct (m2 q rest) as [m|w]; [|reflexivity]. cbn [bind]. destruct (m =? 0); [reflexivity|]. now apply IH.
Qed.
Lemma leaf_local_indep leaf o1 o2 src q ts : leaf_local q = true -> matches leaf o1 q ts src = matches leaf o2 q ts src.
Proof. intros H. destruct q; try discriminate H; reflexivity. Qed.
Lemma row_local_indep leaf o1 o2 src q ts : row_local q = true -> matches leaf o1 q ts src = matches leaf o2 q ts src.
Proof.
  intros H. destruct q; try (apply leaf_local_indep; assumption); cbn [row_local] in H; cbn [matches].
  - apply seq_go_ext. apply Forall_forall. rewrite forallb_forall in H. intros q Hq ts'. now apply leaf_local_indep, H.
  - apply seq_go_ext. apply Forall_forall. rewrite forallb_forall in H. intros q Hq ts'. now apply leaf_local_indep, H.
Qed.

Section ProperNoun.
  Variable leaf : nat -> tok -> text -> res bool.
  Variable oracle : nat -> list tok -> text -> res bool.
  Variable src : text.

  Lemma row_local_total q ts : row_local q = true -> toks_good leaf src ts ->
    exists m, matches leaf oracle q ts src = Ok m /\ m <= length ts.
  Proof.
    intros HL HG. rewrite (row_local_indep leaf oracle (fun _ _ _ => Ok true) src q ts HL).
    apply matches_bounded_any; [|exact HG]. intros o ts' _. now exists true.
  Qed.

  (* the second lookup, on the matched slice itself, finds a row *)
  Lemma lookup_finds rows : Forall (fun q => row_local q = true) rows ->
    forall ts m i, toks_good leaf src ts ->
    first_go pat (fun q ts => matches leaf oracle q ts src) ts rows = Ok m -> m <> 0 ->
    exists j, lookup_go leaf oracle rows (firstn m ts) src i = Ok (Some j) /\ i <= j < i + length rows.
  Proof.
    induction rows as [|q rows IH]; intros HF ts m i HG H Hm; cbn [first_go] in H.
    - injection H as <-. now elim Hm.
    - inversion HF as [|? ? Hq HF']; subst.
      apply bind_ok_inv in H as [m0 [E0 H]]. cbn [lookup_go length].
      assert (toks_good leaf src (firstn m ts)) as HG' by now apply PatternProofs.Forall_firstn.
      destruct (row_local_total q (firstn m ts) Hq HG') as [m1 [E1 _]]. rewrite E1. cbn [bind].
      destruct (m1 =? 0) eqn:Em1; cbn [negb]; [|exists i; split; [reflexivity|lia]].
      apply Nat.eqb_eq in Em1. subst m1.
      destruct (m0 =? 0) eqn:Em0.
      + destruct (IH HF' ts m (S i) HG H Hm) as [j [Ej Hj]]. exists j. split; [exact Ej|lia].
      + injection H as <-. apply Nat.eqb_neq in Em0.
        rewrite (row_local_prefix leaf oracle src q ts m0 m0 Hq E0 Em0 (le_n _)) in E1. injection E1 as E1. now elim Em0.
  Qed.

  Lemma zip_broken_total : forall mt canon, toks_good leaf src mt -> exists b, zip_broken mt canon src = Ok b.
  Proof.
    induction mt as [|t mr IH]; intros canon HG; [now exists false|].
    destruct canon as [|c cr]; [now exists false|]. cbn [zip_broken].
    inversion HG as [|? ? Ht HR]; subst. destruct (good_content leaf src t Ht) as [e Ee]. rewrite Ee. cbn [bind].
    destruct (negb (text_eqb e c)); [now exists true|]. now apply IH.
  Qed.

  Theorem proper_noun_body_total rows canon : Forall (fun q => row_local q = true) rows ->
    forall ts m, toks_good leaf src ts ->
    matches leaf oracle (PMap rows) ts src = Ok m -> m <> 0 ->
    exists r, proper_noun_body leaf oracle rows canon (firstn m ts) src = Ok r /\
              forall sp, r = Some sp -> span_inside (length src) sp.
  Proof.
    intros HF ts m HG H Hm. cbn [matches] in H. unfold proper_noun_body, pattern_map_lookup.
    destruct (lookup_finds rows HF ts m 0 HG H Hm) as [j [Ej _]]. rewrite Ej. cbn [bind].
    assert (toks_good leaf src (firstn m ts)) as HG' by now apply PatternProofs.Forall_firstn.
    destruct (zip_broken_total (firstn m ts) (nth j canon []) HG') as [b Eb]. rewrite Eb. cbn [bind].
    destruct b; cbn [negb]; [|exists None; split; [reflexivity|discriminate]].
    destruct (firstn m ts) as [|t r] eqn:Ef.
    - cbn. exists None. split; [reflexivity|discriminate].
    - destruct (hull_total (t :: r)) as [sp [Eh W]]; [discriminate|]. rewrite Eh. cbn [bind].
      exists (Some sp). split; [reflexivity|]. intros sp' [= <-].
      apply (in_src_hull (length src) (t :: r)); [|unfold hull_unwrap; now rewrite Eh].
      eapply Forall_impl; [|exact HG']. intros t' [G1 [G2 _]]. split; assumption.
  Qed.

  (* … on every slice run_on_chunk hands to match_to_lint *)
  Theorem proper_noun_rule_total rows canon : Forall (fun q => row_local q = true) rows ->
    forall chunk l, toks_good leaf src chunk ->
    run_on_chunk leaf oracle (PMap rows) chunk src = Ok l ->
    Forall (fun ab => exists r, proper_noun_body leaf oracle rows canon (slice chunk (fst ab) (snd ab)) src = Ok r) l.
  Proof.
    intros HF chunk l HG E. unfold run_on_chunk, run_on_chunk_f in E.
    pose proof (roc_ranges_are_matches _ _ _ _ _ E) as R.
    rewrite Forall_forall in R. apply Forall_forall. intros [a b] Hin. destruct (R _ Hin) as [A [B [C Mm]]]. cbn [fst snd] in *.
    assert (toks_good leaf src (skipn a chunk)) as HG' by now apply PatternProofs.Forall_skipn.
    destruct (proper_noun_body_total rows canon HF (skipn a chunk) (b - a) HG' Mm) as [r [Er _]]; [lia|].
    exists r. exact Er.
  Qed.
End ProperNoun.

(* ================= ExactPhrase::from_document builds local rows ================= *)
Lemma exact_phrase_parts_local : forall l ps, exact_phrase_parts l = Ok ps -> forallb leaf_local ps = true.
Proof.
  induction l as [|k r IH]; intros ps H; cbn [exact_phrase_parts] in H; [injection H as <-; reflexivity|].
  apply bind_ok_inv in H as [p [Ep H]]. apply bind_ok_inv in H as [ps' [Eps H]]. injection H as <-.
  cbn [forallb]. rewrite (IH _ Eps), andb_true_r.
  destruct k; try discriminate Ep; injection Ep as <-; reflexivity.
Qed.
Lemma exact_phrase_of_local l p : exact_phrase_of l = Ok p -> row_local p = true.
Proof.
  unfold exact_phrase_of. intros H. apply bind_ok_inv in H as [ps [E H]]. injection H as <-.
  cbn [row_local]. now apply exact_phrase_parts_local with (l := l).
Qed.

(* ================= the two rules through `impl Linter for PatternLinter` ================= *)
Section RuleLintTotal.
  Variable leaf : nat -> tok -> text -> res bool.
  Variable oracle : nat -> list tok -> text -> res bool.
  Variable src : text.
  Variable body : list tok -> text -> res (option span).

  Lemma bodies_on_total chunk : forall rs,
    Forall (fun ab => fst ab <= snd ab /\ snd ab <= length chunk /\ exists r, body (slice chunk (fst ab) (snd ab)) src = Ok r) rs ->
    exists l, bodies_on body chunk src rs = Ok l.
  Proof.
    induction rs as [|[a b] rs IH]; intros HF; [now exists []|].
    inversion HF as [|? ? [H1 [H2 [r Er]]] HF']; subst. cbn [fst snd] in *. cbn [bodies_on].
    rewrite slice_chk_ok' by assumption. cbn [bind]. rewrite Er. cbn [bind].
    destruct (IH HF') as [l El]. rewrite El. cbn [bind]. now eexists.
  Qed.
End RuleLintTotal.

Require Import Tables_bodyshapes.

Section ModalOfRule.
  Variable leaf : nat -> tok -> text -> res bool.
  Variable oracle : nat -> list tok -> text -> res bool.
  Variable src : text.

  (* ModalOf on one chunk: whatever run_on_chunk hands over, match_to_lint returns *)
  Theorem modal_of_rule_total chunk l : Forall (in_src (length src)) chunk ->
    run_on_chunk leaf oracle modal_of_pattern chunk src = Ok l ->
    exists outs, bodies_on modal_of_body chunk src l = Ok outs.
  Proof.
    intros HG E. apply bodies_on_total. unfold run_on_chunk, run_on_chunk_f in E.
    pose proof (roc_ranges_are_matches _ _ _ _ _ E) as R. rewrite Forall_forall in R. apply Forall_forall.
    intros [a b] Hin. destruct (R _ Hin) as [A [B [C _]]]. cbn [fst snd] in *.
    repeat split; [lia|exact B|].
    destruct (modal_of_body_total src (slice chunk a b)) as [r [Er _]]; [|now exists r].
    unfold slice. apply PatternProofs.Forall_firstn. now apply PatternProofs.Forall_skipn.
  Qed.
End ModalOfRule.

(* ---------- the census of struct-rule panic sites (generated table) ---------- *)
From Coq Require Import String.
Open Scope string_scope.
Definition site_rule (s : String.string * String.string * String.string * String.string) : String.string := fst (fst (fst s)).
Definition count_kind (k : String.string) : nat :=
  List.length (filter (fun s => String.eqb (snd (fst s)) k) struct_rule_sites).
Definition rules_with_sites : list String.string :=
  nodup String.string_dec (map site_rule struct_rule_sites).
Definition expected_pinned : list String.string :=
  ["AdjectiveOfA::lint"; "AnA::lint"; "CapitalizePersonalPronouns::lint"; "CommaFixes::lint"; "CurrencyPlacement::lint"; "Document::get_token";
   "ExactPhrase::from_document"; "InflectedVerbAfterTo::lint"; "LinkingVerbs::lint"; "MergeWords::lint";
   "ModalOf::default"; "ModalOf::match_to_lint"; "NoOxfordComma::lint"; "NoOxfordComma::match_to_lint"; "OxfordComma::lint";
   "PatternMap::lookup"; "ProperNounCapitalizationLinter::match_to_lint"; "ProperNounCapitalizationLinter::new";
   "RepeatedWords::lint"; "SentenceCapitalization::lint"; "Spaces::lint"; "SpellCheck::lint"; "SpellCheck::new";
   "SpelledNumbers::lint"; "TokenStringExt::iter_linking_verb_indices";
   "an_a::starts_with_vowel"; "create_fns_for!"; "create_fns_on_doc!"; "currency_placement::generate_lint_for_tokens"; "iter_<thing>_indices"; "spelled_numbers::spell_out_number"].
Definition k_unwrap := "unwrap".  Definition k_expect := "expect".  Definition k_index := "index".
Definition k_span_new := "span_new".  Definition k_macro := "macro".
Lemma struct_rule_census :
  pinned_bodies = expected_pinned /\
  List.length struct_rules_all = 22 /\
  List.length struct_rules_no_site + List.length rules_with_sites = List.length struct_rules_all /\
  List.length struct_rule_sites = 63 /\
  count_kind k_unwrap + count_kind k_expect + count_kind k_index + count_kind k_span_new + count_kind k_macro = 63 /\
  List.length struct_sites_proved = 58 /\
  List.length struct_rule_sites - List.length struct_sites_proved = 5.
Proof. vm_compute. repeat split; reflexivity. Qed.

(* ---------- non-vacuity ---------- *)
Definition xw (a b : nat) : tok := mktok (mkspan a b) 1 1%N 0.     (* a Word *)
Definition xs (a b : nat) : tok := mktok (mkspan a b) 2 2%N 0.     (* whitespace *)
Definition ex_true : nat -> tok -> text -> res bool := fun _ _ _ => Ok true.
Definition ex_otrue : nat -> list tok -> text -> res bool := fun _ _ _ => Ok true.
(* "I should\n of": the newline and the space are two whitespace tokens (the F31 situation) — ModalOf flags `should\n of` *)
Definition ex_modal_src : text := ch [73; 32; 115; 104; 111; 117; 108; 100; 10; 32; 111; 102].
Definition ex_modal_toks : list tok := [xw 0 1; xs 1 2; xw 2 8; xs 8 9; xs 9 10; xw 10 12].
(* "south america" against the canonical "South America" *)
Definition ex_pn_row : pat := PExactPhrase [PAnyCap (ch [83; 111; 117; 116; 104]); PWhitespace; PAnyCap (ch [65; 109; 101; 114; 105; 99; 97])].
Definition ex_pn_canon : list (list text) := [[ch [83; 111; 117; 116; 104]; ch [32]; ch [65; 109; 101; 114; 105; 99; 97]]].
Definition ex_pn_src : text := ch [115; 111; 117; 116; 104; 32; 97; 109; 101; 114; 105; 99; 97].
Definition ex_pn_toks : list tok := [xw 0 5; xs 5 6; xw 6 13].
Lemma bodies_examples :
  Forall (in_src (List.length ex_modal_src)) ex_modal_toks /\
  rule_lint ex_true ex_otrue modal_of_body modal_of_pattern ex_modal_toks ex_modal_src = Ok [Some (mkspan 2 12)] /\
  modal_of_body (xw 0 1 :: xs 1 2 :: ex_modal_toks) ex_modal_src = Ok None /\
  exact_phrase_of [FWord (ch [83; 111; 117; 116; 104]); FSpace; FWord (ch [65; 109; 101; 114; 105; 99; 97])] = Ok ex_pn_row /\
  rule_lint ex_true ex_otrue (proper_noun_body ex_true ex_otrue [ex_pn_row] ex_pn_canon) (PMap [ex_pn_row]) ex_pn_toks ex_pn_src
    = Ok [Some (mkspan 0 13)] /\
  (* a row that looks PAST the tokens it consumes (Invert of ConsumesRemaining) is what the premise row_local excludes: the second lookup
     on the matched slice finds nothing and the unwrap panics *)
  (let bad := PSeq [PFlag F_WORD; PInvert (PConsumes PWhitespace)] in
   row_local bad = false /\
   matches ex_true ex_otrue (PMap [bad]) ex_pn_toks ex_pn_src = Ok 2 /\
   proper_noun_body ex_true ex_otrue [bad] [] (firstn 2 ex_pn_toks) ex_pn_src = Panic PUnwrap) /\
  pairs_adjacent (word_indices ex_modal_toks) = [(0, 2); (2, 5)].
Proof.
  split; [repeat constructor; cbn; lia|]. vm_compute. repeat split; reflexivity.
Qed.
