(* FuzzyProofs.v — the fuzzy searches of the three back-ends: every outcome the (unstable) sorts may
   produce consists of dictionary words with true distances within the bound, ordered, capped, and
   complete up to the cap. *)
Require Import Base EditDistance DictModel Fuzzy EditDistanceProofs DictProofs ListLemmas.
From Coq Require Import Lia Permutation Sorting.Sorted.

(* ------------------------------------------------------------------------------------------ *)
(** * list facts missing from the 8.16 library *)
Lemma in_firstn {A} (l : list A) k x : In x (firstn k l) -> In x l.
Proof. intros H. rewrite <- (firstn_skipn k l). apply in_or_app. now left. Qed.

Lemma filter_nil_all {A} (f : A -> bool) l : (forall x, In x l -> f x = false) -> filter f l = [].
Proof.
  induction l as [|x l IH]; intros H; cbn [filter]; [reflexivity|].
  rewrite (H x (or_introl eq_refl)). apply IH. intros y Hy. apply H. now right.
Qed.

Lemma filter_permutation {A} (f : A -> bool) l l' : Permutation l l' -> Permutation (filter f l) (filter f l').
Proof.
  induction 1 as [|x l l' _ IH|x y l|l l' l'' _ IH1 _ IH2]; cbn [filter].
  - constructor.
  - destruct (f x); [now constructor|exact IH].
  - destruct (f x), (f y); try reflexivity. apply perm_swap.
  - now transitivity (filter f l').
Qed.

Lemma NoDup_app_l {A} (l1 l2 : list A) : NoDup (l1 ++ l2) -> NoDup l1.
Proof.
  induction l1 as [|x l1 IH]; cbn [app]; intros H; [constructor|].
  inversion H as [|? ? Hn ND]; subst. constructor; [|now apply IH].
  intros Hin. apply Hn. apply in_or_app. now left.
Qed.

(* ------------------------------------------------------------------------------------------ *)
(** * "sort by a key, keep the first k": every outcome of an arbitrary (unstable) sort *)
Section TopK.
  Context {A : Type} (key : A -> nat).
  Definition key_le (a b : A) : Prop := key a <= key b.

  (* r is what `sorted_by_key(key).take(k)` can return for the candidates `cands` *)
  Definition topk_outcome (cands : list A) (k : nat) (r : list A) : Prop :=
    exists s, Permutation s cands /\ StronglySorted key_le s /\ r = firstn k s.

  Lemma insert_by_sorted x l :
    StronglySorted key_le l -> StronglySorted key_le (insert_by (fun a b => key a <=? key b) x l).
  Proof.
    induction 1 as [|y ys Hs IH Hy]; cbn [insert_by]; [repeat constructor|].
    destruct (Nat.leb_spec (key x) (key y)) as [Hle|Hgt].
    - constructor; [now constructor|]. constructor; [exact Hle|].
      eapply Forall_impl; [|exact Hy]. unfold key_le. intros; lia.
    - constructor; [exact IH|].
      rewrite (insert_by_perm (fun a b => key a <=? key b) x ys).
      constructor; [unfold key_le; lia|exact Hy].
  Qed.

  Lemma isort_sorted l : StronglySorted key_le (isort (fun a b => key a <=? key b) l).
  Proof. induction l as [|x xs IH]; cbn [isort]; [constructor|now apply insert_by_sorted]. Qed.

  (* the executable model's stable sort is one of the outcomes *)
  Lemma isort_topk cands k : topk_outcome cands k (firstn k (isort (fun a b => key a <=? key b) cands)).
  Proof. exists (isort (fun a b => key a <=? key b) cands). repeat split; [apply isort_perm|apply isort_sorted]. Qed.

  Lemma sorted_firstn k s : StronglySorted key_le s -> StronglySorted key_le (firstn k s).
  Proof.
    revert k. induction s as [|x s IH]; intros k H; [now rewrite firstn_nil|].
    destruct k; cbn [firstn]; [constructor|]. inversion H as [|? ? Hs Hx]; subst.
    constructor; [now apply IH|]. rewrite Forall_forall in *. intros y Hy. apply Hx.
    eapply in_firstn; exact Hy.
  Qed.

  Lemma sorted_app_le l1 l2 : StronglySorted key_le (l1 ++ l2) ->
    forall a b, In a l1 -> In b l2 -> key a <= key b.
  Proof.
    induction l1 as [|x l1 IH]; cbn [app]; intros H a b Ha Hb; [contradiction|].
    inversion H as [|? ? Hs Hx]; subst. destruct Ha as [<-|Ha].
    - rewrite Forall_forall in Hx. apply Hx. apply in_or_app. now right.
    - now apply (IH Hs).
  Qed.

  Lemma topk_in cands k r x : topk_outcome cands k r -> In x r -> In x cands.
  Proof.
    intros (s & P & _ & ->) H. eapply Permutation_in; [exact P|]. eapply in_firstn; exact H.
  Qed.

  Lemma topk_sorted cands k r : topk_outcome cands k r -> StronglySorted key_le r.
  Proof. intros (s & _ & S & ->). now apply sorted_firstn. Qed.

  Lemma topk_length cands k r : topk_outcome cands k r -> length r = Nat.min k (length cands).
  Proof. intros (s & P & _ & ->). rewrite firstn_length. now rewrite (Permutation_length P). Qed.

  (* nothing that beats a returned element is left out: a candidate is returned, or the result is
     full and everything in it is at least as good *)
  Lemma topk_complete cands k r c : topk_outcome cands k r -> In c cands ->
    In c r \/ (length r = k /\ forall x, In x r -> key x <= key c).
  Proof.
    intros (s & P & S & ->) Hc.
    apply (Permutation_in _ (Permutation_sym P)) in Hc.
    rewrite <- (firstn_skipn k s) in Hc. apply in_app_or in Hc as [Hc|Hc]; [now left|right].
    split.
    - rewrite firstn_length. assert (k <= length s); [|lia].
      destruct (Nat.le_gt_cases k (length s)) as [H|H]; [exact H|].
      rewrite skipn_all2 in Hc by lia. contradiction.
    - intros x Hx. rewrite <- (firstn_skipn k s) in S. eapply sorted_app_le; eassumption.
  Qed.

  Lemma topk_nodup cands k r : topk_outcome cands k r -> NoDup cands -> NoDup r.
  Proof.
    intros (s & P & _ & ->) ND. apply (Permutation_NoDup (Permutation_sym P)) in ND.
    rewrite <- (firstn_skipn k s) in ND. now apply NoDup_app_l in ND.
  Qed.

  (* if at least k candidates have key <= x, everything returned has key <= x *)
  Lemma sorted_firstn_bound x : forall s k, StronglySorted key_le s ->
    k <= length (filter (fun a => key a <=? x) s) -> forall y, In y (firstn k s) -> key y <= x.
  Proof.
    induction s as [|a s IH]; intros k S Hk y Hy; [rewrite firstn_nil in Hy; contradiction|].
    destruct k; [contradiction|]. cbn [firstn filter] in *. inversion S as [|? ? Ss Ha]; subst.
    destruct (Nat.leb_spec (key a) x) as [Hle|Hgt].
    - cbn [length] in Hk. destruct Hy as [<-|Hy]; [exact Hle|]. apply (IH k Ss); [lia|exact Hy].
    - exfalso. assert (E : filter (fun a0 => key a0 <=? x) s = []).
      { apply filter_nil_all. rewrite Forall_forall in Ha. intros z Hz.
        apply Nat.leb_gt. specialize (Ha z Hz). unfold key_le in Ha. lia. }
      rewrite E in Hk. cbn in Hk. lia.
  Qed.

  Lemma topk_bound cands k r x : topk_outcome cands k r ->
    k <= length (filter (fun a => key a <=? x) cands) -> forall y, In y r -> key y <= x.
  Proof.
    intros (s & P & S & ->) Hk. apply sorted_firstn_bound; [exact S|].
    erewrite Permutation_length; [exact Hk|]. apply Permutation_sym. now apply filter_permutation.
  Qed.
End TopK.

(* ------------------------------------------------------------------------------------------ *)
(** * small facts about the result monad *)
Lemma map_res_total {A B} (f : A -> res B) l :
  (forall x, In x l -> exists y, f x = Ok y) -> exists ys, map_res f l = Ok ys.
Proof.
  induction l as [|x l IH]; intros H; cbn [map_res]; [now exists []|].
  destruct (H x (or_introl eq_refl)) as [y Ey]. rewrite Ey. cbn [bind].
  destruct IH as [ys Eys]; [intros z Hz; apply H; now right|]. rewrite Eys. cbn [bind]. now exists (y :: ys).
Qed.

Lemma map_res_forall2 {A B} (f : A -> res B) l ys :
  map_res f l = Ok ys -> Forall2 (fun x y => f x = Ok y) l ys.
Proof.
  revert ys. induction l as [|x l IH]; intros ys H; cbn [map_res] in H.
  - injection H as <-. constructor.
  - destruct (f x) as [y|] eqn:Ey; cbn [bind] in H; [|discriminate].
    destruct (map_res f l) as [ys'|] eqn:E; cbn [bind] in H; [|discriminate].
    injection H as <-. constructor; [exact Ey|now apply IH].
Qed.

Lemma sorted_map {A B} (f : A -> B) (R : B -> B -> Prop) l :
  StronglySorted R (map f l) <-> StronglySorted (fun a b => R (f a) (f b)) l.
Proof.
  induction l as [|x l IH]; cbn [map]; split; intros H; try constructor; inversion H as [|? ? Hs Hx]; subst.
  - now apply IH.
  - rewrite Forall_map in Hx. exact Hx.
  - now apply IH.
  - rewrite Forall_map. exact Hx.
Qed.

(* ------------------------------------------------------------------------------------------ *)
(** * MutableDictionary::fuzzy_match *)
(* the order MutableDictionary::fuzzy_match sorts its candidates by (fix 5a329ea) *)
Definition scored_R (a b : text * nat) : Prop := scored_le a b = true.

Lemma scored_le_total a b : scored_le a b = true \/ scored_le b a = true.
Proof.
  unfold scored_le. destruct (Nat.ltb_spec (snd a) (snd b)); [now left|].
  destruct (Nat.ltb_spec (snd b) (snd a)); [now right|].
  assert (E : snd a = snd b) by lia. rewrite E, Nat.eqb_refl. apply text_leb_total.
Qed.

Lemma scored_le_trans a b c : scored_le a b = true -> scored_le b c = true -> scored_le a c = true.
Proof.
  unfold scored_le.
  destruct (Nat.ltb_spec (snd a) (snd b)); destruct (Nat.ltb_spec (snd b) (snd c)); destruct (Nat.ltb_spec (snd a) (snd c));
    try reflexivity; try lia;
    destruct (Nat.eqb_spec (snd a) (snd b)); destruct (Nat.eqb_spec (snd b) (snd c)); destruct (Nat.eqb_spec (snd a) (snd c));
    try discriminate; try lia; try reflexivity.
  apply text_leb_trans.
Qed.

Lemma scored_le_antisym a b : scored_R a b -> scored_R b a -> a = b.
Proof.
  unfold scored_R, scored_le. destruct a as [wa da], b as [wb db]. cbn [fst snd].
  destruct (Nat.ltb_spec da db); destruct (Nat.ltb_spec db da); try lia;
    destruct (Nat.eqb_spec da db); destruct (Nat.eqb_spec db da); try discriminate; try lia.
  intros H1 H2. f_equal; [now apply text_leb_antisym|assumption].
Qed.

Lemma scored_R_dist a b : scored_R a b -> snd a <= snd b.
Proof.
  unfold scored_R, scored_le. destruct (Nat.ltb_spec (snd a) (snd b)); [lia|].
  destruct (Nat.eqb_spec (snd a) (snd b)); [lia|discriminate].
Qed.

Lemma sorted_impl {A} (R R' : A -> A -> Prop) l : (forall a b, R a b -> R' a b) ->
  StronglySorted R l -> StronglySorted R' l.
Proof.
  intros H. induction 1 as [|a l _ IH Ha]; constructor; [exact IH|].
  eapply Forall_impl; [|exact Ha]. intros b. apply H.
Qed.

Lemma isort_scored_sorted l : StronglySorted scored_R (isort scored_le l).
Proof. apply (isort_sorted_gen scored_le scored_le_total scored_le_trans). Qed.

Section MutFuzzy.
  Variable is_lower : char -> bool.
  Variable lower : char -> list char.
  Variable dbg : bool.
  Notation word_id := (word_id is_lower lower).
  Notation to_lower := (to_lower is_lower lower).
  Notation mut_meta := (mut_meta is_lower lower).
  Notation wm_wf := (wm_wf is_lower lower).

  Definition min_dist (qn ql w : text) : nat := Nat.min (lev qn w) (lev ql w).
  (* what the closure computes: both calls of edit_distance_min_alloc saturate at u8::MAX *)
  Definition sat_dist (qn ql w : text) : nat := Nat.min (min_dist qn ql w) 255.

  Lemma sat_dist_small qn ql w d : d <= 254 -> sat_dist qn ql w <= d -> sat_dist qn ql w = min_dist qn ql w.
  Proof. unfold sat_dist. lia. Qed.

  (* what the filter_map closure yields over the candidate words *)
  Definition scored_spec (qn ql : text) (d : nat) (ws : list text) : list (text * nat) :=
    flat_map (fun w => if sat_dist qn ql w <=? d then [(w, sat_dist qn ql w)] else []) ws.

  Lemma scored_spec_in qn ql d ws w s :
    In (w, s) (scored_spec qn ql d ws) <-> In w ws /\ s = sat_dist qn ql w /\ s <= d.
  Proof.
    unfold scored_spec. rewrite in_flat_map. split.
    - intros (w' & Hin & H). destruct (Nat.leb_spec (sat_dist qn ql w') d) as [Hle|Hgt]; [|contradiction].
      destruct H as [H|[]]. injection H as -> <-. repeat split; assumption.
    - intros (Hin & -> & Hle). exists w. split; [exact Hin|].
      destruct (Nat.leb_spec (sat_dist qn ql w) d); [now left|lia].
  Qed.

  Lemma scored_spec_cons qn ql d w ws :
    scored_spec qn ql d (w :: ws)
    = (if sat_dist qn ql w <=? d then [(w, sat_dist qn ql w)] else []) ++ scored_spec qn ql d ws.
  Proof. reflexivity. Qed.

  (* the scan never panics — whatever the lengths, the build mode and the content of the two reused buffers *)
  Lemma mut_scan_ok qn ql d :
    forall ws ba bb, mut_scan dbg qn ql d ws ba bb = Ok (scored_spec qn ql d ws).
  Proof.
    induction ws as [|w ws IH]; intros ba bb; cbn [mut_scan]; [reflexivity|].
    destruct (wf_min_alloc_correct dbg qn w ba bb) as (ba1 & bb1 & E1). rewrite E1. cbn [bind].
    destruct (wf_min_alloc_correct dbg ql w ba1 bb1) as (ba2 & bb2 & E2). rewrite E2. cbn [bind].
    rewrite IH. cbn [bind].
    rewrite scored_spec_cons.
    replace (Nat.min (Nat.min (lev qn w) 255) (Nat.min (lev ql w) 255)) with (sat_dist qn ql w)
      by (unfold sat_dist, min_dist; lia).
    destruct (sat_dist qn ql w <=? d); reflexivity.
  Qed.

  Definition attach (m : wordmap) (wd : text * nat) : res fres :=
    match mut_meta m (fst wd) with
    | Some md => Ok (mkfres (fst wd) (snd wd) md)
    | None => Panic PUnwrap
    end.

  Definition proj (r : fres) : text * nat := (r_word r, r_dist r).

  (* the outcome of sort-by-(distance, word)-and-take over the hash-ordered candidates: `s` is THE sorted
     arrangement of the scored candidates (unique: mut_fuzzy_outcome_unique) *)
  Definition mut_fuzzy_outcome (m : wordmap) (q : text) (d k : nat) (r : list fres) : Prop :=
    let qn := normalized q in
    let ql := to_lower qn in
    exists s,
      Permutation s (scored_spec qn ql d (filter (in_window (length qn) d) (mut_words m))) /\
      StronglySorted scored_R s /\
      map_res (attach m) (firstn k s) = Ok r.

  Lemma outcome_topk m q d k r : mut_fuzzy_outcome m q d k r ->
    exists top,
      topk_outcome snd (scored_spec (normalized q) (to_lower (normalized q)) d
                          (filter (in_window (length (normalized q)) d) (mut_words m))) k top /\
      map_res (attach m) top = Ok r.
  Proof.
    intros (s & P & S & E). exists (firstn k s). split; [|exact E].
    exists s. repeat split; [exact P|]. eapply sorted_impl; [|exact S]. intros a b. apply scored_R_dist.
  Qed.

  Lemma attach_inv m top r : map_res (attach m) top = Ok r ->
    top = map proj r /\ forall x, In x r -> mut_meta m (r_word x) = Some (r_meta x).
  Proof.
    intros H. apply map_res_forall2 in H. induction H as [|wd x top r Hx _ IH]; [split; [reflexivity|intros ? []]|].
    destruct IH as [-> IHm]. unfold attach in Hx.
    destruct (mut_meta m (fst wd)) as [md|] eqn:E; [|discriminate]. injection Hx as <-.
    split; [destruct wd; reflexivity|]. intros y [<-|Hy]; [exact E|now apply IHm].
  Qed.

  Lemma wm_same_key (m : wordmap) k e e' : NoDup (map fst m) -> In (k, e) m -> In (k, e') m -> e = e'.
  Proof.
    intros ND H1 H2. apply (wm_get_in m k e ND) in H1. apply (wm_get_in m k e' ND) in H2. congruence.
  Qed.

  Lemma mut_meta_of_word m w : wm_wf m -> In w (mut_words m) ->
    exists e, In (word_id w, e) m /\ e_canon e = w /\ mut_meta m w = Some (e_meta e).
  Proof.
    intros [ND K] Hin. unfold mut_words in Hin. apply in_map_iff in Hin as ([k e] & <- & Hin). cbn [snd].
    pose proof (K k e Hin) as ->. exists e. repeat split; [exact Hin|].
    unfold DictModel.mut_meta, wm_get_with_chars. now rewrite (proj2 (wm_get_in m _ e ND) Hin).
  Qed.

  (* totality, for EVERY query and dictionary (no length bound since fix 7a7de79): the search never
     panics, in debug or release arithmetic, and what it returns is the outcome *)
  Theorem mut_fuzzy_total m q d k :
    wm_wf m ->
    exists r, mut_fuzzy is_lower lower dbg m q d k = Ok r /\ mut_fuzzy_outcome m q d k r.
  Proof.
    intros Hwf. unfold mut_fuzzy, mut_fuzzy_outcome.
    set (qn := normalized q) in *. set (ql := to_lower qn) in *.
    set (cands := filter (in_window (length qn) d) (mut_words m)).
    rewrite (mut_scan_ok qn ql d cands [] []).
    cbn [bind].
    set (s := isort scored_le (scored_spec qn ql d cands)).
    assert (Ps : Permutation s (scored_spec qn ql d cands)) by apply isort_perm.
    destruct (map_res_total (attach m) (firstn k s)) as [r Er].
    { intros [w sc] Hin. apply in_firstn in Hin. apply (Permutation_in _ Ps) in Hin.
      apply scored_spec_in in Hin as (Hin & _).
      apply filter_In in Hin as [Hin _]. destruct (mut_meta_of_word m w Hwf Hin) as (e & _ & _ & E).
      unfold attach. cbn [fst snd]. rewrite E. eauto. }
    exists r. split; [exact Er|]. exists s. repeat split; [exact Ps|apply isort_scored_sorted|exact Er].
  Qed.

  Lemma in_window_of_lev (qn x w : text) d : w <> [] -> length x = length qn -> lev x w <= d ->
    in_window (length qn) d w = true.
  Proof.
    intros Hne Hlen Hd. pose proof (lev_len x w) as [L1 L2]. unfold in_window.
    assert (1 <= length w) by (destruct w; [contradiction|cbn; lia]).
    apply andb_true_iff. split; [|apply Nat.leb_le; lia].
    destruct (Nat.leb_spec (length qn) d); apply Nat.leb_le; lia.
  Qed.

  (* results are ordered by (distance, word) *)
  Definition fres_order (a b : fres) : Prop :=
    r_dist a < r_dist b \/ (r_dist a = r_dist b /\ text_leb (r_word a) (r_word b) = true).

  Lemma scored_R_fres a b : scored_R (proj a) (proj b) -> fres_order a b.
  Proof.
    unfold scored_R, scored_le, proj, fres_order. cbn [fst snd].
    destruct (Nat.ltb_spec (r_dist a) (r_dist b)); [now left|].
    destruct (Nat.eqb_spec (r_dist a) (r_dist b)); [intros Hle; now right|discriminate].
  Qed.

  (* the property, for the outcome *)
  Theorem mut_fuzzy_sound m q d k r :
    wm_wf m -> mut_fuzzy_outcome m q d k r ->
    let qn := normalized q in
    let ql := to_lower qn in
    (* each result is a dictionary word with that word's metadata, at its true (smaller) distance — saturated
       at 255, which only a caller asking for max_distance = 255 can observe — within the bound *)
    (forall x, In x r ->
       (exists e, In (word_id (r_word x), e) m /\ e_canon e = r_word x /\ e_meta e = r_meta x) /\
       r_dist x = Nat.min (min_dist qn ql (r_word x)) 255 /\ r_dist x <= d /\
       (d <= 254 -> r_dist x = min_dist qn ql (r_word x)) /\ r_word x <> []) /\
    (* ordered by distance, ties by the word; capped *)
    StronglySorted fres_order r /\
    StronglySorted (fun a b => r_dist a <= r_dist b) r /\ length r <= k /\
    (* no dictionary word is listed twice *)
    NoDup (map r_word r) /\
    (* complete up to the cap: a non-empty dictionary word within the bound of the query — or of its
       lower-case form when that has the same length — is returned, unless the result is full of
       words that are at least as close *)
    (forall k0 e, In (k0, e) m -> e_canon e <> [] ->
       (lev qn (e_canon e) <= d \/ (length ql = length qn /\ lev ql (e_canon e) <= d)) ->
       (exists x, In x r /\ r_word x = e_canon e) \/
       (length r = k /\ forall x, In x r -> r_dist x <= min_dist qn ql (e_canon e))).
  Proof.
    intros Hwf Hout. pose proof Hout as (s0 & Ps0 & Ss0 & Er0).
    destruct (outcome_topk m q d k r Hout) as (top & Htop & Er). cbv zeta.
    set (qn := normalized q) in *. set (ql := to_lower qn) in *.
    set (cands := filter (in_window (length qn) d) (mut_words m)) in *.
    destruct (attach_inv m top r Er) as [Etop Hmeta]. pose proof Hwf as [ND K].
    assert (Hin_top : forall x, In x r -> In (proj x) (scored_spec qn ql d cands)).
    { intros x Hx. apply (topk_in snd _ _ _ _ Htop). rewrite Etop. now apply in_map. }
    split; [|split; [|split; [|split; [|split]]]].
    - intros x Hx. pose proof (Hin_top x Hx) as Hs. unfold proj in Hs.
      apply scored_spec_in in Hs as (Hc & Hd & Hle).
      apply filter_In in Hc as [Hc Hw].
      split; [|split; [|split; [|split]]].
      + destruct (mut_meta_of_word m _ Hwf Hc) as (e & He & Hcan & Hm).
        exists e. repeat split; [exact He|exact Hcan|]. rewrite (Hmeta x Hx) in Hm. now injection Hm.
      + exact Hd.
      + exact Hle.
      + intros Hd254. rewrite Hd. apply (sat_dist_small qn ql (r_word x) d Hd254). now rewrite <- Hd.
      + intros E. rewrite E in Hw. unfold in_window in Hw. cbn [length] in Hw.
        apply andb_true_iff in Hw as [Hw _]. destruct (length qn <=? d) eqn:El; apply Nat.leb_le in Hw; [lia|].
        apply Nat.leb_gt in El. lia.
    - (* sorted by (distance, word) *)
      destruct (attach_inv m (firstn k s0) r Er0) as [Etop0 _].
      assert (S0 : StronglySorted scored_R (map proj r)).
      { rewrite <- Etop0. clear -Ss0. revert k. induction Ss0 as [|a l _ IH Ha]; intros k; [rewrite firstn_nil; constructor|].
        destruct k; cbn [firstn]; constructor; [apply IH|].
        rewrite Forall_forall in *. intros y Hy. apply Ha. eapply in_firstn; exact Hy. }
      apply (proj1 (sorted_map proj scored_R r)) in S0.
      eapply sorted_impl; [|exact S0]. intros a b. apply scored_R_fres.
    - (* sorted by distance *)
      pose proof (topk_sorted snd _ _ _ Htop) as S. rewrite Etop in S.
      apply (proj1 (sorted_map proj (key_le snd) r)) in S. exact S.
    - pose proof (topk_length snd _ _ _ Htop) as L. rewrite Etop, map_length in L. lia.
    - (* no word twice: the candidates are the spellings of a map with unique ids *)
      assert (NDw : NoDup (mut_words m)).
      { unfold mut_words. apply (NoDup_map_inv word_id). rewrite map_map.
        erewrite map_ext_in; [exact ND|]. intros [k0 e] Hin. cbn [fst snd]. symmetry. now apply K. }
      assert (NDs : NoDup (map fst (scored_spec qn ql d cands))).
      { assert (NDc : NoDup cands) by (now apply NoDup_filter).
        clear -NDc. unfold scored_spec. induction cands as [|w ws IH]; cbn [flat_map map]; [constructor|].
        inversion NDc as [|? ? Hn NDc']; subst. destruct (sat_dist qn ql w <=? d); cbn [app map fst]; [|now apply IH].
        constructor; [|now apply IH]. intros Hin. apply Hn. apply in_map_iff in Hin as ([w' s] & <- & Hin).
        apply (scored_spec_in qn ql d ws w' s) in Hin. tauto. }
      destruct Htop as (s & P & _ & Es).
      assert (NDtop : NoDup (map fst top)).
      { assert (NDms : NoDup (map fst s)).
        { eapply Permutation_NoDup; [|exact NDs]. apply Permutation_map. now apply Permutation_sym. }
        rewrite Es, <- firstn_map. rewrite <- (firstn_skipn k (map fst s)) in NDms.
        now apply NoDup_app_l in NDms. }
      rewrite Etop, map_map in NDtop. exact NDtop.
    - (* complete up to the cap *)
      intros k0 e Hin0 Hne Hcond. set (w := e_canon e) in *.
      assert (Hw : In w cands).
      { apply filter_In. split; [unfold mut_words; apply in_map_iff; now exists (k0, e)|].
        destruct Hcond as [Hd|[Hl Hd]]; [apply (in_window_of_lev qn qn)|apply (in_window_of_lev qn ql)]; auto. }
      assert (Hmd : min_dist qn ql w <= d) by (unfold min_dist; destruct Hcond as [Hd|[_ Hd]]; lia).
      assert (Hsd : sat_dist qn ql w <= min_dist qn ql w) by (unfold sat_dist; lia).
      assert (Hs : In (w, sat_dist qn ql w) (scored_spec qn ql d cands)) by (apply scored_spec_in; repeat split; [exact Hw|lia]).
      destruct (topk_complete snd _ _ _ _ Htop Hs) as [Hin|[Hlen Hall]].
      + left. rewrite Etop in Hin. apply in_map_iff in Hin as (x & Ex & Hx). exists x. split; [exact Hx|].
        unfold proj in Ex. now injection Ex.
      + right. rewrite Etop, map_length in Hlen. split; [exact Hlen|].
        intros x Hx. specialize (Hall (proj x)). cbn [proj snd] in Hall.
        assert (r_dist x <= sat_dist qn ql w); [|lia]. apply Hall. rewrite Etop. now apply in_map.
  Qed.

  (* the outcome is unique and does not depend on the iteration order of the hash map (fix 5a329ea):
     two word maps with the same entries in any order give the same result *)
  Lemma wm_get_perm (m m' : wordmap) id : NoDup (map fst m) -> Permutation m m' -> wm_get m id = wm_get m' id.
  Proof.
    intros ND P. assert (ND' : NoDup (map fst m')) by (eapply Permutation_NoDup; [apply Permutation_map; exact P|exact ND]).
    apply option_ext. intros e. rewrite (wm_get_in m id e ND), (wm_get_in m' id e ND').
    split; intros H; [eapply Permutation_in; [exact P|exact H]|eapply Permutation_in; [apply Permutation_sym; exact P|exact H]].
  Qed.

  Lemma map_res_ext {A B} (f g : A -> res B) l : (forall x, In x l -> f x = g x) -> map_res f l = map_res g l.
  Proof.
    induction l as [|x l IH]; intros H; cbn [map_res]; [reflexivity|].
    rewrite (H x (or_introl eq_refl)), IH; [reflexivity|]. intros y Hy. apply H. now right.
  Qed.

  Theorem mut_fuzzy_outcome_unique m m' q d k r r' :
    wm_wf m -> Permutation m m' ->
    mut_fuzzy_outcome m q d k r -> mut_fuzzy_outcome m' q d k r' -> r = r'.
  Proof.
    intros [ND K] P (s & Ps & Ss & Er) (s' & Ps' & Ss' & Er').
    set (qn := normalized q) in *. set (ql := to_lower qn) in *.
    assert (Pw : Permutation (mut_words m) (mut_words m')) by (unfold mut_words; now apply Permutation_map).
    assert (Pc : Permutation (scored_spec qn ql d (filter (in_window (length qn) d) (mut_words m)))
                             (scored_spec qn ql d (filter (in_window (length qn) d) (mut_words m')))).
    { unfold scored_spec. apply Permutation_flat_map. now apply filter_permutation. }
    assert (E : s = s').
    { apply (sorted_perm_eq scored_R scored_le_antisym); [exact Ss|exact Ss'|].
      rewrite Ps, Ps'. exact Pc. }
    subst s'.
    assert (Ea : map_res (attach m) (firstn k s) = map_res (attach m') (firstn k s)).
    { apply map_res_ext. intros x _. unfold attach, DictModel.mut_meta, wm_get_with_chars.
      now rewrite (wm_get_perm m m' _ ND P). }
    rewrite Ea in Er. rewrite Er in Er'. now injection Er'.
  Qed.
End MutFuzzy.

(* hence the search itself is a function of the set of entries — not of the iteration order of the
   hash map, nor of the build mode *)
Theorem mut_fuzzy_deterministic is_lower lower dbg dbg' m m' q d k :
  wm_wf is_lower lower m -> Permutation m m' ->
  mut_fuzzy is_lower lower dbg m q d k = mut_fuzzy is_lower lower dbg' m' q d k.
Proof.
  intros Hwf P.
  assert (Hwf' : wm_wf is_lower lower m').
  { destruct Hwf as [ND K]. split.
    - eapply Permutation_NoDup; [apply Permutation_map; exact P|exact ND].
    - intros k0 e H. apply K. eapply Permutation_in; [apply Permutation_sym; exact P|exact H]. }
  destruct (mut_fuzzy_total is_lower lower dbg m q d k Hwf) as (r & E & O).
  destruct (mut_fuzzy_total is_lower lower dbg' m' q d k Hwf') as (r' & E' & O').
  rewrite E, E'. f_equal. exact (mut_fuzzy_outcome_unique is_lower lower m m' q d k r r' Hwf P O O').
Qed.

(* ------------------------------------------------------------------------------------------ *)
(** * the automaton stream contract *)
Lemma enum_from_in {A} (l : list A) : forall n i a,
  In (i, a) (enum_from n l) <-> n <= i /\ nth_error l (i - n) = Some a.
Proof.
  induction l as [|x l IH]; intros n i a; cbn [enum_from In].
  - split; [tauto|]. intros [_ H]. destruct (i - n); discriminate.
  - rewrite IH. split.
    + intros [H|[H1 H2]].
      * injection H as <- <-. rewrite Nat.sub_diag. split; [lia|reflexivity].
      * split; [lia|]. replace (i - n) with (S (i - S n)) by lia. exact H2.
    + intros [H1 H2]. destruct (Nat.eq_dec i n) as [->|Hne].
      * rewrite Nat.sub_diag in H2. cbn in H2. injection H2 as <-. now left.
      * right. split; [lia|]. replace (i - n) with (S (i - S n)) in H2 by lia. exact H2.
Qed.

Lemma spec_stream_in levf (ws : list (text * meta)) x d i e :
  In (i, e) (spec_stream levf ws x d) <->
  exists w md, nth_error ws i = Some (w, md) /\ e = levf x w /\ e <= d.
Proof.
  unfold spec_stream. rewrite in_flat_map. split.
  - intros ([j [w md]] & Hin & H). cbn [fst snd] in H. apply enum_from_in in Hin as [_ Hn].
    rewrite Nat.sub_0_r in Hn. destruct (Nat.leb_spec (levf x w) d); [|contradiction].
    destruct H as [H|[]]. injection H as -> <-. exists w, md. repeat split; assumption.
  - intros (w & md & Hn & -> & Hle). exists (i, (w, md)). split.
    + apply enum_from_in. rewrite Nat.sub_0_r. split; [lia|exact Hn].
    + cbn [fst snd]. destruct (Nat.leb_spec (levf x w) d); [now left|lia].
Qed.

(* the length pre-filter of the extracted driver does not change the stream *)
Theorem spec_stream_fast_eq ws x d : spec_stream_fast lev_fast ws x d = spec_stream lev ws x d.
Proof.
  unfold spec_stream_fast, spec_stream. apply flat_map_ext. intros [i [w md]]. cbn [fst snd].
  rewrite lev_fast_correct. pose proof (lev_len x w) as [L1 L2].
  destruct (Nat.ltb_spec (length x + d) (length w)); destruct (Nat.ltb_spec (length w + d) (length x));
    cbn [orb]; try reflexivity; destruct (Nat.leb_spec (lev x w) d); try reflexivity; lia.
Qed.

(* ------------------------------------------------------------------------------------------ *)
(** * FstDictionary::fuzzy_match: every admissible outcome *)
Lemma fres_eqb_eq a b : fres_eqb a b = true -> a = b.
Proof.
  unfold fres_eqb. intros H. apply andb_true_iff in H as [H H3]. apply andb_true_iff in H as [H1 H2].
  apply text_eqb_eq in H1. apply Nat.eqb_eq in H2, H3. destruct a, b; cbn in *; now subst.
Qed.

Lemma sorted_by_dist_sorted l : sorted_by_dist l = true -> StronglySorted (fun a b => r_dist a <= r_dist b) l.
Proof.
  induction l as [|a l IH]; intros H; [constructor|].
  destruct l as [|b l]; [repeat constructor|].
  cbn [sorted_by_dist] in H. apply andb_true_iff in H as [H1 H2]. apply Nat.leb_le in H1.
  specialize (IH H2). constructor; [exact IH|].
  inversion IH as [|? ? _ Hb]; subst. constructor; [exact H1|].
  eapply Forall_impl; [|exact Hb]. cbn. intros; lia.
Qed.

Lemma words_nodup_nodup l : words_nodup l = true -> NoDup (map r_word l).
Proof.
  induction l as [|a l IH]; cbn [words_nodup map]; intros H; [constructor|].
  apply andb_true_iff in H as [H1 H2]. constructor; [|now apply IH].
  intros Hin. apply in_map_iff in Hin as (b & E & Hb).
  apply negb_true_iff in H1. assert (existsb (same_word a) l = true); [|congruence].
  apply existsb_exists. exists b. split; [exact Hb|]. unfold same_word. rewrite E. apply text_eqb_refl.
Qed.

Lemma nub_words_covers l : forall m, In m l -> exists m', In m' (nub_words l) /\ r_word m' = r_word m.
Proof.
  induction l as [|a l IH]; intros m Hin; [contradiction|]. cbn [nub_words].
  destruct (existsb (same_word a) l) eqn:E.
  - destruct Hin as [<-|Hin]; [|now apply IH].
    apply existsb_exists in E as (b & Hb & Eb). apply text_eqb_eq in Eb.
    destruct (IH b Hb) as (m' & Hm' & Ew). exists m'. split; [exact Hm'|congruence].
  - destruct Hin as [<-|Hin]; [exists a; split; [now left|reflexivity]|].
    destruct (IH m Hin) as (m' & Hm' & Ew). exists m'. split; [now right|exact Ew].
Qed.

Lemma max_dist_ge l x : In x l -> r_dist x <= max_dist l.
Proof.
  induction l as [|a l IH]; intros H; [contradiction|]. cbn [max_dist fold_right].
  destruct H as [<-|H]; [lia|]. specialize (IH H). unfold max_dist in IH. lia.
Qed.

Section FstFuzzy.
  Variable is_lower : char -> bool.
  Variable lower : char -> list char.
  Variable stream : list (text * meta) -> text -> nat -> list (nat * nat).
  Notation fst_new := (fst_new is_lower lower).

  (* every outcome the unstable sorts of FstDictionary::fuzzy_match may produce *)
  Definition fst_fuzzy_outcome (f : fst_dict) (q lq : text) (d k : nat) (r : list fres) : Prop :=
    exists merged, fst_merged stream f (normalized q) lq d = Ok merged /\ fst_admissible merged k r = true.

  Variable f : fst_dict.
  Variable d : nat.
  (* the contract of fst::Map::search_with_state + levenshtein_automata for this dictionary's word
     list and this bound (monitored by the harness for max_distance <= 3) *)
  Hypothesis stream_contract : forall x, stream (f_words f) x d = spec_stream lev (f_words f) x d.

  Lemma stream_in x i e : In (i, e) (stream (f_words f) x d) ->
    exists w md, nth_error (f_words f) i = Some (w, md) /\ e = lev x w /\ e <= d.
  Proof. rewrite stream_contract. apply spec_stream_in. Qed.

  (* the zip loop never indexes out of range, and keeps only true (word, distance) pairs *)
  Lemma fst_merged_ok qn lq :
    exists merged, fst_merged stream f qn lq d = Ok merged /\
      forall x, In x merged ->
        In (r_word x, r_meta x) (f_words f) /\
        (r_dist x = lev qn (r_word x) \/ r_dist x = lev lq (r_word x)) /\ r_dist x <= d.
  Proof.
    unfold fst_merged.
    set (g := fun ul => let '(ci, ed) := zip_choose ul in
                        do wm <- nth_chk (f_words f) ci; Ok (mkfres (fst wm) ed (snd wm))).
    assert (Hg : forall ul, In ul (combine (stream (f_words f) qn d) (stream (f_words f) lq d)) ->
                 exists x, g ul = Ok x /\ In (r_word x, r_meta x) (f_words f) /\
                           (r_dist x = lev qn (r_word x) \/ r_dist x = lev lq (r_word x)) /\ r_dist x <= d).
    { intros [[iu du] [il dl]] Hin. pose proof (in_combine_l _ _ _ _ Hin) as Hu.
      pose proof (in_combine_r _ _ _ _ Hin) as Hl.
      apply stream_in in Hu as (wu & mu & Nu & Eu & Lu). apply stream_in in Hl as (wl & ml & Nl & El & Ll).
      unfold g, zip_choose. destruct (du <=? dl).
      - rewrite (nth_chk_ok _ _ _ Nu). cbn [bind fst snd]. eexists. split; [reflexivity|]. cbn [r_word r_meta r_dist].
        split; [eapply nth_error_In; exact Nu|]. split; [now left|exact Lu].
      - rewrite (nth_chk_ok _ _ _ Nl). cbn [bind fst snd]. eexists. split; [reflexivity|]. cbn [r_word r_meta r_dist].
        split; [eapply nth_error_In; exact Nl|]. split; [now right|exact Ll]. }
    destruct (map_res_total g _ (fun ul H => let '(ex_intro _ x (conj E _)) := Hg ul H in ex_intro _ x E)) as [merged Em].
    exists merged. split; [exact Em|].
    apply map_res_forall2 in Em. intros x Hx.
    assert (exists ul, In ul (combine (stream (f_words f) qn d) (stream (f_words f) lq d)) /\ g ul = Ok x) as (ul & Hul & Eg).
    { clear -Em Hx. induction Em as [|a b l l' Hab _ IH]; [contradiction|].
      destruct Hx as [<-|Hx]; [exists a; split; [now left|exact Hab]|].
      destruct (IH Hx) as (ul & H1 & H2). exists ul. split; [now right|exact H2]. }
    destruct (Hg ul Hul) as (x' & Eg' & P). rewrite Eg in Eg'. injection Eg' as <-. exact P.
  Qed.

  (* soundness, order, cap, no repetition — for every admissible outcome *)
  Theorem fst_fuzzy_sound q lq k r :
    fst_fuzzy_outcome f q lq d k r ->
    (forall x, In x r ->
       In (r_word x, r_meta x) (f_words f) /\
       (r_dist x = lev (normalized q) (r_word x) \/ r_dist x = lev lq (r_word x)) /\ r_dist x <= d) /\
    StronglySorted (fun a b => r_dist a <= r_dist b) r /\ length r <= k /\ NoDup (map r_word r).
  Proof.
    intros (merged & Em & Hadm).
    destruct (fst_merged_ok (normalized q) lq) as (merged' & Em' & Hm). rewrite Em in Em'. injection Em' as <-.
    unfold fst_admissible in Hadm. repeat (apply andb_true_iff in Hadm as [Hadm ?]).
    repeat split.
    - rewrite forallb_forall in H1. apply H1 in H3. apply existsb_exists in H3 as (m & Hin & E).
      apply fres_eqb_eq in E. subst m. now apply Hm.
    - rewrite forallb_forall in H1. apply H1 in H3. apply existsb_exists in H3 as (m & Hin & E).
      apply fres_eqb_eq in E. subst m. now apply Hm.
    - rewrite forallb_forall in H1. apply H1 in H3. apply existsb_exists in H3 as (m & Hin & E).
      apply fres_eqb_eq in E. subst m. now apply Hm.
    - now apply sorted_by_dist_sorted.
    - apply Nat.eqb_eq in H0. lia.
    - now apply words_nodup_nodup.
  Qed.

  (* for a lower-case query (String::to_lowercase leaves the normalised query unchanged) the two
     streams coincide, and no word of the FST within the bound is missed: it is returned, unless the
     result is full of words that are at least as close *)
  Theorem fst_fuzzy_complete q k r :
    fst_fuzzy_outcome f q (normalized q) d k r ->
    forall w md, In (w, md) (f_words f) -> lev (normalized q) w <= d ->
      (exists x, In x r /\ r_word x = w) \/
      (length r = k /\ forall x, In x r -> r_dist x <= lev (normalized q) w).
  Proof.
    intros (merged & Em & Hadm) w md Hin Hd. set (qn := normalized q) in *.
    destruct (fst_merged_ok qn qn) as (merged' & Em' & Hm). rewrite Em in Em'. injection Em' as <-.
    (* w's pair is in the stream, hence an entry for w is in merged *)
    assert (exists m0, In m0 merged /\ r_word m0 = w) as (m0 & Hm0 & Ew).
    { apply In_nth_error in Hin as (i & Hi).
      assert (Hs : In (i, lev qn w) (stream (f_words f) qn d)).
      { rewrite stream_contract. apply spec_stream_in. exists w, md. repeat split; assumption. }
      unfold fst_merged in Em. apply map_res_forall2 in Em.
      assert (Hc : In ((i, lev qn w), (i, lev qn w)) (combine (stream (f_words f) qn d) (stream (f_words f) qn d))).
      { clear -Hs. induction (stream (f_words f) qn d) as [|a l IH]; [contradiction|].
        cbn [combine]. destruct Hs as [->|Hs]; [now left|right; now apply IH]. }
      clear -Em Hc Hi. induction Em as [|a b l l' Hab _ IH]; [contradiction|].
      destruct Hc as [->|Hc].
      - exists b. split; [now left|]. unfold zip_choose in Hab. rewrite Nat.leb_refl in Hab.
        rewrite (nth_chk_ok _ _ _ Hi) in Hab. cbn [bind fst snd] in Hab. injection Hab as <-. reflexivity.
      - destruct (IH Hc) as (m0 & H1 & H2). exists m0. split; [now right|exact H2]. }
    unfold fst_admissible in Hadm. repeat (apply andb_true_iff in Hadm as [Hadm ?]).
    rewrite forallb_forall in H. specialize (H m0 Hm0). apply orb_true_iff in H as [H|H].
    - left. apply existsb_exists in H as (x & Hx & E). apply text_eqb_eq in E. exists x. split; [exact Hx|congruence].
    - destruct (existsb (same_word m0) r) eqn:Ein.
      { left. apply existsb_exists in Ein as (x & Hx & E). apply text_eqb_eq in E. exists x. split; [exact Hx|congruence]. }
      right. apply existsb_exists in H as (m' & Hm' & E). apply andb_true_iff in E as [E1 E2].
      apply text_eqb_eq in E1. apply Nat.leb_le in E2.
      assert (Dm' : r_dist m' = lev qn w).
      { destruct (Hm m' Hm') as (_ & [D|D] & _); rewrite D; congruence. }
      split.
      + (* the result is full: its words are distinct words of merged, and w is another one *)
        apply Nat.eqb_eq in H0. apply words_nodup_nodup in H2.
        destruct (nub_words_covers merged m0 Hm0) as (n0 & Hn0 & En0).
        assert (Hlt : S (length r) <= length (nub_words merged)).
        { rewrite <- (map_length r_word r), <- (map_length r_word (nub_words merged)).
          apply (NoDup_incl_length (l := w :: map r_word r)).
          - constructor; [|exact H2]. intros Hc. apply in_map_iff in Hc as (x & Ex & Hx).
            assert (existsb (same_word m0) r = true); [|congruence].
            apply existsb_exists. exists x. split; [exact Hx|]. unfold same_word. rewrite Ex, Ew. apply text_eqb_refl.
          - intros y [<-|Hy].
            + apply in_map_iff. exists n0. split; [congruence|exact Hn0].
            + apply in_map_iff in Hy as (x & <- & Hx). rewrite forallb_forall in H1.
              apply H1 in Hx. apply existsb_exists in Hx as (m & Hmm & E). apply fres_eqb_eq in E. subst m.
              destruct (nub_words_covers merged x Hmm) as (n & Hn & En). apply in_map_iff. exists n. split; [exact En|exact Hn]. }
        lia.
      + intros x Hx. pose proof (max_dist_ge r x Hx). lia.
  Qed.
End FstFuzzy.

(* ------------------------------------------------------------------------------------------ *)
(** * MergedDictionary::fuzzy_match *)
(* "covered up to the cap": the word w (at distance dw) is in the result, or the result is full of
   entries that are at least as close *)
Definition covers (r : list fres) (k : nat) (w : text) (dw : nat) : Prop :=
  (exists x, In x r /\ r_word x = w /\ r_dist x <= dw) \/
  (length r = k /\ forall x, In x r -> r_dist x <= dw).

Lemma concat_res_ok {A} (l : list (res (list A))) (rs : list (list A)) :
  Forall2 (fun r x => r = Ok x) l rs -> concat_res l = Ok (concat rs).
Proof.
  induction 1 as [|r x l rs E _ IH]; cbn [concat_res concat]; [reflexivity|].
  rewrite E. cbn [bind]. rewrite IH. reflexivity.
Qed.

Lemma filter_all_id {A} (p : A -> bool) l : (forall x, In x l -> p x = true) -> filter p l = l.
Proof.
  induction l as [|x l IH]; intros H; cbn [filter]; [reflexivity|].
  rewrite (H x (or_introl eq_refl)). f_equal. apply IH. intros y Hy. apply H. now right.
Qed.

Lemma filter_len_le {A} (p : A -> bool) l : length (filter p l) <= length l.
Proof. induction l as [|x l IH]; cbn [filter]; [lia|]. destruct (p x); cbn [length]; lia. Qed.

Lemma filter_concat_length {A} (p : A -> bool) (rs : list (list A)) ri :
  In ri rs -> length (filter p ri) <= length (filter p (concat rs)).
Proof.
  induction rs as [|r rs IH]; intros H; [contradiction|]. cbn [concat]. rewrite filter_app, app_length.
  destruct H as [->|H]; [lia|]. specialize (IH H). lia.
Qed.

Theorem merged_fuzzy_spec cs q lq d k rs :
  Forall2 (fun c r => d_fuzzy c q lq d k = Ok r) cs rs ->
  merged_fuzzy cs q lq d k = Ok (firstn k (isort dist_le (concat rs))) /\
  topk_outcome r_dist (concat rs) k (firstn k (isort dist_le (concat rs))).
Proof.
  intros H. split; [|apply (isort_topk r_dist)].
  unfold merged_fuzzy. rewrite (concat_res_ok _ rs); [reflexivity|].
  induction H; cbn [map]; constructor; assumption.
Qed.

(* whatever the children returned: the merged result consists of children's results, is ordered and
   capped, and inherits "complete up to the cap" from any child *)
Theorem merged_fuzzy_sound (rs : list (list fres)) k r :
  topk_outcome r_dist (concat rs) k r ->
  (forall x, In x r -> exists ri, In ri rs /\ In x ri) /\
  StronglySorted (fun a b => r_dist a <= r_dist b) r /\ length r <= k /\
  (forall w dw, (exists ri, In ri rs /\ covers ri k w dw) -> covers r k w dw).
Proof.
  intros Htop. repeat split.
  - intros x Hx. apply (topk_in r_dist _ _ _ _ Htop) in Hx. apply in_concat in Hx as (ri & H1 & H2). eauto.
  - apply (topk_sorted r_dist _ _ _ Htop).
  - rewrite (topk_length r_dist _ _ _ Htop). lia.
  - intros w dw (ri & Hri & [(x & Hx & Ew & Hd)|[Hlen Hall]]).
    + assert (Hc : In x (concat rs)) by (apply in_concat; eauto).
      destruct (topk_complete r_dist _ _ _ _ Htop Hc) as [Hin|[Hl Hb]].
      * left. eauto.
      * right. split; [exact Hl|]. intros y Hy. specialize (Hb y Hy). lia.
    + assert (Hk : k <= length (filter (fun a => r_dist a <=? dw) (concat rs))).
      { etransitivity; [|apply (filter_concat_length _ rs ri Hri)].
        rewrite filter_all_id; [lia|]. intros y Hy. apply Nat.leb_le. now apply Hall. }
      right. split.
      * rewrite (topk_length r_dist _ _ _ Htop).
        pose proof (filter_len_le (fun a => r_dist a <=? dw) (concat rs)). lia.
      * apply (topk_bound r_dist _ _ _ _ Htop Hk).
Qed.

(* ------------------------------------------------------------------------------------------ *)
(** * witnesses (ASCII instance of the Unicode data; the stream = its contract) *)
Definition ascii_is_lower (c : char) : bool := (97 <=? c)%N && (c <=? 122)%N.
Definition ascii_lower (c : char) : list char := if (65 <=? c)%N && (c <=? 90)%N then [(c + 32)%N] else [c].
(* plus U+0130 (capital I with dot) whose lower-case form has two characters *)
Definition dot_lower (c : char) : list char := if (c =? 304)%N then [105; 775]%N else ascii_lower c.

Definition w_AB : text := [65; 66]%N.
Definition w_ab : text := [97; 98]%N.
Definition w_abc : text := [97; 98; 99]%N.
Definition w_Abc : text := [65; 98; 99]%N.

(* the positional zip drops a correctly spelt upper-case dictionary word: the lower-case stream is
   empty, so nothing is paired with it *)
Lemma fst_zip_incomplete :
  let f := fst_new ascii_is_lower ascii_lower [(w_AB, 1)] in
  fst_fuzzy (spec_stream lev) f w_AB w_ab 0 10 = Ok [] /\
  In (w_AB, 1) (f_words f) /\ lev (normalized w_AB) w_AB = 0 /\
  fst_contains ascii_is_lower ascii_lower f w_AB = true.
Proof. vm_compute. repeat split. now left. Qed.

(* HISTORY — FstDictionary::new before fix 71c98b2, called directly with two spellings of one id (FC15a):
   the fuzzy index kept "Abc", which the word map had dropped *)
Lemma fst_new_collision_old :
  let ws := [(w_abc, 1); (w_Abc, 2)] in
  let f := fst_new_old ascii_is_lower ascii_lower ws in
  In (w_Abc, 2) (f_words f) /\ ~ In w_Abc (fst_words_iter f) /\
  fst_meta ascii_is_lower ascii_lower f w_Abc = Some 1 /\
  fst_fuzzy (spec_stream lev) f w_Abc w_abc 1 10 = Ok [mkfres w_Abc 0 2; mkfres w_abc 0 1].
Proof.
  cbv zeta. vm_compute. repeat split; [now left|].
  intros [H|[]]. discriminate.
Qed.

(* the same input now: index and word map hold the one spelling "abc" … *)
Lemma fst_new_collision_now :
  let ws := [(w_abc, 1); (w_Abc, 2)] in
  let f := fst_new ascii_is_lower ascii_lower ws in
  f_words f = [(w_abc, 1)] /\ fst_words_iter f = [w_abc] /\
  fst_fuzzy (spec_stream lev) f w_Abc w_abc 1 10 = Ok [mkfres w_abc 0 1].
Proof. vm_compute. repeat split. Qed.

(* … but which of two spellings of one id survives still differs between the constructors (FC15b):
   FstDictionary::new sorts first ("Abc" < "abc": the last in sorted order wins), MutableDictionary keeps the
   last inserted — the premise `NoDup ids` of fst_new_agrees_with_mutable cannot be dropped *)
Lemma fst_new_order :
  let ws := [(w_abc, 1); (w_Abc, 2)] in
  let f := fst_new ascii_is_lower ascii_lower ws in
  let m := mut_extend ascii_is_lower ascii_lower [] ws in
  ~ NoDup (ids_of ascii_is_lower ascii_lower ws) /\
  fst_canon ascii_is_lower ascii_lower f w_abc = Some w_abc /\ mut_canon ascii_is_lower ascii_lower m w_abc = Some w_Abc /\
  fst_exact ascii_is_lower ascii_lower f w_Abc = false /\ mut_exact ascii_is_lower ascii_lower m w_Abc = true /\
  fst_meta ascii_is_lower ascii_lower f w_abc = Some 1 /\ mut_meta ascii_is_lower ascii_lower m w_abc = Some 2.
Proof.
  cbv zeta. split.
  - vm_compute. intros H. inversion H as [|? ? Hn _]; subst. apply Hn. now left.
  - vm_compute. repeat split.
Qed.

(* the u8 result type saturates (F19b): dictionary {"b"}, a query of 256 a's, max_distance = 255 — the word is
   returned at "distance 255" although its distance, 256, exceeds the bound *)
Lemma mut_fuzzy_saturation :
  let m := mut_extend ascii_is_lower ascii_lower [] [(b_1, 1)] in
  mut_fuzzy ascii_is_lower ascii_lower true m (a_n 256) 255 10 = Ok [mkfres b_1 255 1] /\
  min_dist (normalized (a_n 256)) (to_lower ascii_is_lower ascii_lower (normalized (a_n 256))) b_1 = 256.
Proof. vm_compute. repeat split. Qed.

(* MutableDictionary's length window is computed from the query, not from its lower-case form:
   when lower-casing changes the length, an exact match of the lower-case form is dropped *)
Lemma mut_window_uses_query_length :
  let w := [105; 775]%N in
  let m := mut_extend ascii_is_lower dot_lower [] [(w, 1)] in
  let q := [304]%N in
  to_lower ascii_is_lower dot_lower (normalized q) = w /\ lev w w = 0 /\
  mut_fuzzy ascii_is_lower dot_lower true m q 0 10 = Ok [].
Proof. vm_compute. repeat split. Qed.

(* … and it never returns the empty word (the window starts at length 1) *)
Lemma mut_window_skips_empty_word :
  let m := mut_extend ascii_is_lower ascii_lower [] [([], 1)] in
  lev [97%N] [] = 1 /\ mut_contains ascii_is_lower ascii_lower m [] = true /\
  mut_fuzzy ascii_is_lower ascii_lower true m [97%N] 1 10 = Ok [].
Proof. vm_compute. repeat split. Qed.

(* non-vacuity of the fuzzy theorems: a small dictionary, all three back-ends *)
Lemma fuzzy_example :
  let ws := [(w_abc, 1); (w_ab, 2); ([98%N], 3)] in
  let m := mut_extend ascii_is_lower ascii_lower [] ws in
  let f := fst_of_mutable ascii_is_lower ascii_lower m in
  let q := [97; 98; 100]%N in   (* "abd" *)
  mut_fuzzy ascii_is_lower ascii_lower true m q 1 10 = Ok [mkfres w_ab 1 2; mkfres w_abc 1 1] /\
  fst_fuzzy (spec_stream lev) f q q 1 10 = Ok [mkfres w_ab 1 2; mkfres w_abc 1 1] /\
  merged_fuzzy [mut_ops ascii_is_lower ascii_lower true m; fst_ops ascii_is_lower ascii_lower (spec_stream lev) f] q q 1 3
    = Ok [mkfres w_ab 1 2; mkfres w_abc 1 1; mkfres w_ab 1 2].
Proof. vm_compute. repeat split. Qed.

(* ------------------------------------------------------------------------------------------ *)
(** * the executable FST model (stable sorts) is one of the admissible outcomes *)
Definition word_R (a b : fres) : Prop := word_le a b = true.

Lemma isort_word_sorted l : StronglySorted word_R (isort word_le l).
Proof.
  apply isort_sorted_gen; unfold word_le.
  - intros a b. apply text_leb_total.
  - intros a b c. apply text_leb_trans.
Qed.

(* after a sort by word, dedup leaves exactly one entry per word *)
Lemma dedup_from_sorted last l : StronglySorted word_R (last :: l) ->
  NoDup (map r_word (last :: dedup_from same_word last l)) /\
  forall x, In x (last :: l) -> exists y, In y (last :: dedup_from same_word last l) /\ r_word y = r_word x.
Proof.
  revert last. induction l as [|y rest IH]; intros last S.
  - cbn [dedup_from map]. split; [repeat constructor; intros []|]. intros x [<-|[]]. exists last. split; [now left|reflexivity].
  - inversion S as [|? ? S1 F1]; subst. inversion S1 as [|? ? S2 F2]; subst. inversion F1 as [|? ? Hly F1']; subst.
    cbn [dedup_from]. destruct (same_word y last) eqn:E.
    + apply text_eqb_eq in E.
      destruct (IH last) as [ND Cov]; [constructor; assumption|]. split; [exact ND|].
      intros x [<-|[<-|Hx]].
      * apply Cov. now left.
      * exists last. split; [now left|now symmetry].
      * apply Cov. now right.
    + destruct (IH y S1) as [ND Cov]. split.
      * rewrite map_cons. constructor; [|exact ND].
        intros Hin. apply in_map_iff in Hin as (z & Ez & Hz).
        assert (Hz' : In z (y :: rest)) by (destruct Hz as [<-|Hz]; [now left|right; eapply dedup_from_incl; exact Hz]).
        assert (Hyz : word_R y z).
        { destruct Hz' as [<-|Hz']; [unfold word_R, word_le; apply text_leb_refl|].
          rewrite Forall_forall in F2. now apply F2. }
        unfold word_R, word_le in Hly, Hyz. rewrite Ez in Hyz.
        pose proof (text_leb_antisym _ _ Hly Hyz) as Eq.
        apply text_eqb_neq in E. apply E. now symmetry.
      * intros x [<-|Hx]; [exists last; split; [now left|reflexivity]|].
        destruct (Cov x Hx) as (z & Hz & Ez). exists z. split; [now right|exact Ez].
Qed.

Lemma dedup_sorted l : StronglySorted word_R l ->
  NoDup (map r_word (dedup_by same_word l)) /\
  (forall x, In x (dedup_by same_word l) -> In x l) /\
  (forall x, In x l -> exists y, In y (dedup_by same_word l) /\ r_word y = r_word x).
Proof.
  destruct l as [|a l]; intros S; cbn [dedup_by].
  - repeat split; [constructor|tauto|intros x []].
  - destruct (dedup_from_sorted a l S) as [ND Cov]. repeat split; [exact ND| |exact Cov].
    intros x [<-|Hx]; [now left|right; eapply dedup_from_incl; exact Hx].
Qed.

Lemma sorted_sorted_by_dist l : StronglySorted (key_le r_dist) l -> sorted_by_dist l = true.
Proof.
  induction 1 as [|a l _ IH Ha]; [reflexivity|]. destruct l as [|b l]; [reflexivity|].
  change (sorted_by_dist (a :: b :: l)) with ((r_dist a <=? r_dist b) && sorted_by_dist (b :: l)).
  rewrite IH, andb_true_r. inversion Ha; subst. now apply Nat.leb_le.
Qed.

Lemma nodup_words_nodup l : NoDup (map r_word l) -> words_nodup l = true.
Proof.
  induction l as [|a l IH]; cbn [map words_nodup]; intros H; [reflexivity|].
  inversion H as [|? ? Hn ND]; subst. rewrite (IH ND), andb_true_r. apply negb_true_iff.
  destruct (existsb (same_word a) l) eqn:E; [|reflexivity]. exfalso. apply Hn.
  apply existsb_exists in E as (b & Hb & Eb). apply text_eqb_eq in Eb. rewrite Eb. now apply in_map.
Qed.

Lemma nub_words_incl l x : In x (nub_words l) -> In x l.
Proof.
  induction l as [|a l IH]; cbn [nub_words]; [tauto|]. destruct (existsb (same_word a) l); [right; now apply IH|].
  intros [<-|H]; [now left|right; now apply IH].
Qed.

Lemma nub_words_nodup l : NoDup (map r_word (nub_words l)).
Proof.
  induction l as [|a l IH]; cbn [nub_words]; [constructor|].
  destruct (existsb (same_word a) l) eqn:E; [exact IH|]. cbn [map]. constructor; [|exact IH].
  intros Hin. apply in_map_iff in Hin as (b & Eb & Hb). apply nub_words_incl in Hb.
  assert (existsb (same_word a) l = true); [|congruence]. apply existsb_exists. exists b. split; [exact Hb|].
  unfold same_word. rewrite Eb. apply text_eqb_refl.
Qed.

Lemma max_dist_le l b : (forall x, In x l -> r_dist x <= b) -> max_dist l <= b.
Proof.
  induction l as [|a l IH]; intros H; cbn [max_dist fold_right]; [lia|].
  pose proof (H a (or_introl eq_refl)). specialize (IH (fun x Hx => H x (or_intror Hx))). unfold max_dist in IH. lia.
Qed.

Lemma fres_eqb_refl a : fres_eqb a a = true.
Proof. unfold fres_eqb. now rewrite text_eqb_refl, !Nat.eqb_refl. Qed.

Theorem model_outcome_admissible merged k :
  fst_admissible merged k
    (firstn k (isort dist_le (dedup_by same_word (isort word_le merged)))) = true.
Proof.
  set (sw := isort word_le merged). set (dd := dedup_by same_word sw). set (sd := isort dist_le dd).
  destruct (dedup_sorted sw (isort_word_sorted merged)) as (NDdd & Hincl & Hcov). fold dd in NDdd, Hincl, Hcov.
  assert (Psw : Permutation sw merged) by apply isort_perm.
  assert (Psd : Permutation sd dd) by apply isort_perm.
  assert (Ssd : StronglySorted (key_le r_dist) sd) by apply (isort_sorted r_dist).
  assert (Hr_in : forall x, In x (firstn k sd) -> In x merged).
  { intros x Hx. apply in_firstn in Hx. apply (Permutation_in _ Psd) in Hx. apply Hincl in Hx.
    now apply (Permutation_in _ Psw) in Hx. }
  assert (NDsd : NoDup (map r_word sd)).
  { eapply Permutation_NoDup; [|exact NDdd]. apply Permutation_map. now apply Permutation_sym. }
  unfold fst_admissible. repeat (apply andb_true_iff; split).
  - apply sorted_sorted_by_dist. now apply sorted_firstn.
  - apply nodup_words_nodup. rewrite <- firstn_map. rewrite <- (firstn_skipn k (map r_word sd)) in NDsd.
    now apply NoDup_app_l in NDsd.
  - apply forallb_forall. intros x Hx. apply existsb_exists. exists x. split; [now apply Hr_in|apply fres_eqb_refl].
  - apply Nat.eqb_eq. rewrite firstn_length, (Permutation_length Psd). f_equal.
    rewrite <- (map_length r_word dd), <- (map_length r_word (nub_words merged)).
    apply Nat.le_antisymm; apply NoDup_incl_length; try exact NDdd; try apply nub_words_nodup.
    + intros w Hw. apply in_map_iff in Hw as (x & <- & Hx). apply Hincl in Hx. apply (Permutation_in _ Psw) in Hx.
      destruct (nub_words_covers merged x Hx) as (n & Hn & En). apply in_map_iff. exists n. split; [exact En|exact Hn].
    + intros w Hw. apply in_map_iff in Hw as (x & <- & Hx). apply nub_words_incl in Hx.
      apply (Permutation_in _ (Permutation_sym Psw)) in Hx. destruct (Hcov x Hx) as (y & Hy & Ey).
      apply in_map_iff. exists y. split; [exact Ey|exact Hy].
  - apply forallb_forall. intros m Hm.
    apply (Permutation_in _ (Permutation_sym Psw)) in Hm. destruct (Hcov m Hm) as (y & Hy & Ey).
    assert (Hym : In y merged) by (apply Hincl in Hy; now apply (Permutation_in _ Psw) in Hy).
    apply (Permutation_in _ (Permutation_sym Psd)) in Hy. rewrite <- (firstn_skipn k sd) in Hy.
    apply orb_true_iff. apply in_app_or in Hy as [Hy|Hy].
    + left. apply existsb_exists. exists y. split; [exact Hy|]. unfold same_word. rewrite Ey. apply text_eqb_refl.
    + right. apply existsb_exists. exists y. split; [exact Hym|]. apply andb_true_iff. split.
      * unfold same_word. rewrite Ey. apply text_eqb_refl.
      * apply Nat.leb_le. apply max_dist_le. intros x Hx. rewrite <- (firstn_skipn k sd) in Ssd.
        apply (sorted_app_le r_dist _ _ Ssd x y Hx Hy).
Qed.

(* under the stream contract the model's run never panics and is an admissible outcome *)
Theorem fst_fuzzy_total stream f d (Hc : forall x, stream (f_words f) x d = spec_stream lev (f_words f) x d) q lq k :
  exists r, fst_fuzzy stream f q lq d k = Ok r /\ fst_fuzzy_outcome stream f q lq d k r.
Proof.
  destruct (fst_merged_ok stream f d Hc (normalized q) lq) as (merged & Em & _).
  unfold fst_fuzzy. rewrite Em. cbn [bind]. eexists. split; [reflexivity|].
  exists merged. split; [exact Em|apply model_outcome_admissible].
Qed.

Lemma driver_shortcuts :
  (forall s t, lev_fast s t = lev s t) /\
  (forall ws x d, spec_stream_fast lev_fast ws x d = spec_stream lev ws x d) /\
  (forall is_lower lower ws, NoDup (ids_of is_lower lower ws) ->
     mut_extend is_lower lower [] ws = map (entry_of is_lower lower) ws) /\
  (forall is_lower lower ws, adj_sorted ws = true -> NoDup (ids_of is_lower lower ws) ->
     fst_new is_lower lower ws = mkfst (map (entry_of is_lower lower) ws) ws).
Proof. repeat split; [apply lev_fast_correct|apply spec_stream_fast_eq|apply mut_extend_distinct_ids|apply fst_new_bulk]. Qed.

(* the premise of fst_new_agrees_with_mutable is satisfiable (and then FstDictionary::new and
   MutableDictionary agree, here on a re-cased query) *)
Lemma fst_new_agrees_example :
  let ws := [(w_abc, 1); (w_ab, 2); (w_AB ++ [99%N], 3)] in     (* "abc", "ab", "ABc" *)
  NoDup (ids_of ascii_is_lower ascii_lower [(w_abc, 1); (w_ab, 2)]) /\
  ~ NoDup (ids_of ascii_is_lower ascii_lower ws) /\
  fst_exact ascii_is_lower ascii_lower (fst_new ascii_is_lower ascii_lower [(w_abc, 1); (w_ab, 2)]) w_AB = false /\
  fst_canon ascii_is_lower ascii_lower (fst_new ascii_is_lower ascii_lower [(w_abc, 1); (w_ab, 2)]) w_AB = Some w_ab.
Proof.
  cbv zeta. repeat split.
  - vm_compute. repeat constructor; cbn [In]; intros H; repeat destruct H as [H|H]; try discriminate; exact H.
  - vm_compute. intros H. inversion H as [|? ? Hn _]; subst. apply Hn. right. now left.
Qed.
