(* FuzzyProofs.v — the fuzzy searches of the three back-ends: every outcome the (unstable) sorts may
   produce consists of dictionary words with true distances within the bound, ordered, capped, and
   complete up to the cap. *)
Require Import Base EditDistance DictModel Fuzzy EditDistanceProofs DictProofs ListLemmas.
From Coq Require Import Lia Permutation Sorting.Sorted.

(* ------------------------------------------------------------------------------------------ *)
(** * list facts missing from the 8.16 library *)
Lemma in_firstn {A} (l : list A) k x : In x (firstn k l) -> In x l.
Proof. intros H. rewrite <- (firstn_skipn k l). apply in_or_app. now left. Qed.

Lemma filter_nil_all {A} (f : A -> bool) l : (forall x, In x l -> f x = false) -> filter f l = [].
Proof.
  induction l as [|x l IH]; intros H; cbn [filter]; [reflexivity|].
  rewrite (H x (or_introl eq_refl)). apply IH. intros y Hy. apply H. now right.
Qed.

Lemma filter_permutation {A} (f : A -> bool) l l' : Permutation l l' -> Permutation (filter f l) (filter f l').
Proof.
  induction 1 as [|x l l' _ IH|x y l|l l' l'' _ IH1 _ IH2]; cbn [filter].
  - constructor.
  - destruct (f x); [now constructor|exact IH].
  - destruct (f x), (f y); try reflexivity. apply perm_swap.
  - now transitivity (filter f l').
Qed.

Lemma NoDup_app_l {A} (l1 l2 : list A) : NoDup (l1 ++ l2) -> NoDup l1.
Proof.
  induction l1 as [|x l1 IH]; cbn [app]; intros H; [constructor|].
  inversion H as [|? ? Hn ND]; subst. constructor; [|now apply IH].
  intros Hin. apply Hn. apply in_or_app. now left.
Qed.

(* ------------------------------------------------------------------------------------------ *)
(** * "sort by a key, keep the first k": every outcome of an arbitrary (unstable) sort *)
Section TopK.
  Context {A : Type} (key : A -> nat).
  Definition key_le (a b : A) : Prop := key a <= key b.

  (* r is what `sorted_by_key(key).take(k)` can return for the candidates `cands` *)
  Definition topk_outcome (cands : list A) (k : nat) (r : list A) : Prop :=
    exists s, Permutation s cands /\ StronglySorted key_le s /\ r = firstn k s.

  Lemma insert_by_sorted x l :
    StronglySorted key_le l -> StronglySorted key_le (insert_by (fun a b => key a <=? key b) x l).
  Proof.
    induction 1 as [|y ys Hs IH Hy]; cbn [insert_by]; [repeat constructor|].
    destruct (Nat.leb_spec (key x) (key y)) as [Hle|Hgt].
    - constructor; [now constructor|]. constructor; [exact Hle|].
      eapply Forall_impl; [|exact Hy]. unfold key_le. intros; lia.
    - constructor; [exact IH|].
      rewrite (insert_by_perm (fun a b => key a <=? key b) x ys).
      constructor; [unfold key_le; lia|exact Hy].
  Qed.

  Lemma isort_sorted l : StronglySorted key_le (isort (fun a b => key a <=? key b) l).
  Proof. induction l as [|x xs IH]; cbn [isort]; [constructor|now apply insert_by_sorted]. Qed.

  (* the executable model's stable sort is one of the outcomes *)
  Lemma isort_topk cands k : topk_outcome cands k (firstn k (isort (fun a b => key a <=? key b) cands)).
  Proof. exists (isort (fun a b => key a <=? key b) cands). repeat split; [apply isort_perm|apply isort_sorted]. Qed.

  Lemma sorted_firstn k s : StronglySorted key_le s -> StronglySorted key_le (firstn k s).
  Proof.
    revert k. induction s as [|x s IH]; intros k H; [now rewrite firstn_nil|].
    destruct k; cbn [firstn]; [constructor|]. inversion H as [|? ? Hs Hx]; subst.
    constructor; [now apply IH|]. rewrite Forall_forall in *. intros y Hy. apply Hx.
    eapply in_firstn; exact Hy.
  Qed.

  Lemma sorted_app_le l1 l2 : StronglySorted key_le (l1 ++ l2) ->
    forall a b, In a l1 -> In b l2 -> key a <= key b.
  Proof.
    induction l1 as [|x l1 IH]; cbn [app]; intros H a b Ha Hb; [contradiction|].
    inversion H as [|? ? Hs Hx]; subst. destruct Ha as [<-|Ha].
    - rewrite Forall_forall in Hx. apply Hx. apply in_or_app. now right.
    - now apply (IH Hs).
  Qed.

  Lemma topk_in cands k r x : topk_outcome cands k r -> In x r -> In x cands.
  Proof.
    intros (s & P & _ & ->) H. eapply Permutation_in; [exact P|]. eapply in_firstn; exact H.
  Qed.

  Lemma topk_sorted cands k r : topk_outcome cands k r -> StronglySorted key_le r.
  Proof. intros (s & _ & S & ->). now apply sorted_firstn. Qed.

  Lemma topk_length cands k r : topk_outcome cands k r -> length r = Nat.min k (length cands).
  Proof. intros (s & P & _ & ->). rewrite firstn_length. now rewrite (Permutation_length P). Qed.

  (* nothing that beats a returned element is left out: a candidate is returned, or the result is
     full and everything in it is at least as good *)
  Lemma topk_complete cands k r c : topk_outcome cands k r -> In c cands ->
    In c r \/ (length r = k /\ forall x, In x r -> key x <= key c).
  Proof.
    intros (s & P & S & ->) Hc.
    apply (Permutation_in _ (Permutation_sym P)) in Hc.
    rewrite <- (firstn_skipn k s) in Hc. apply in_app_or in Hc as [Hc|Hc]; [now left|right].
    split.
    - rewrite firstn_length. assert (k <= length s); [|lia].
      destruct (Nat.le_gt_cases k (length s)) as [H|H]; [exact H|].
      rewrite skipn_all2 in Hc by lia. contradiction.
    - intros x Hx. rewrite <- (firstn_skipn k s) in S. eapply sorted_app_le; eassumption.
  Qed.

  Lemma topk_nodup cands k r : topk_outcome cands k r -> NoDup cands -> NoDup r.
  Proof.
    intros (s & P & _ & ->) ND. apply (Permutation_NoDup (Permutation_sym P)) in ND.
    rewrite <- (firstn_skipn k s) in ND. now apply NoDup_app_l in ND.
  Qed.

  (* if at least k candidates have key <= x, everything returned has key <= x *)
  Lemma sorted_firstn_bound x : forall s k, StronglySorted key_le s ->
    k <= length (filter (fun a => key a <=? x) s) -> forall y, In y (firstn k s) -> key y <= x.
  Proof.
    induction s as [|a s IH]; intros k S Hk y Hy; [rewrite firstn_nil in Hy; contradiction|].
    destruct k; [contradiction|]. cbn [firstn filter] in *. inversion S as [|? ? Ss Ha]; subst.
    destruct (Nat.leb_spec (key a) x) as [Hle|Hgt].
    - cbn [length] in Hk. destruct Hy as [<-|Hy]; [exact Hle|]. apply (IH k Ss); [lia|exact Hy].
    - exfalso. assert (E : filter (fun a0 => key a0 <=? x) s = []).
      { apply filter_nil_all. rewrite Forall_forall in Ha. intros z Hz.
        apply Nat.leb_gt. specialize (Ha z Hz). unfold key_le in Ha. lia. }
      rewrite E in Hk. cbn in Hk. lia.
  Qed.

  Lemma topk_bound cands k r x : topk_outcome cands k r ->
    k <= length (filter (fun a => key a <=? x) cands) -> forall y, In y r -> key y <= x.
  Proof.
    intros (s & P & S & ->) Hk. apply sorted_firstn_bound; [exact S|].
    erewrite Permutation_length; [exact Hk|]. apply Permutation_sym. now apply filter_permutation.
  Qed.
End TopK.
