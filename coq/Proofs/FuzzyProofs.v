(* FuzzyProofs.v — the fuzzy searches of the three back-ends: every outcome the (unstable) sorts may
   produce consists of dictionary words with true distances within the bound, ordered, capped, and
   complete up to the cap. *)
Require Import Base EditDistance DictModel Fuzzy EditDistanceProofs DictProofs ListLemmas.
From Coq Require Import Lia Permutation Sorting.Sorted.

(* ------------------------------------------------------------------------------------------ *)
(** * list facts missing from the 8.16 library *)
Lemma in_firstn {A} (l : list A) k x : In x (firstn k l) -> In x l.
Proof. intros H. rewrite <- (firstn_skipn k l). apply in_or_app. now left. Qed.

Lemma filter_nil_all {A} (f : A -> bool) l : (forall x, In x l -> f x = false) -> filter f l = [].
Proof.
  induction l as [|x l IH]; intros H; cbn [filter]; [reflexivity|].
  rewrite (H x (or_introl eq_refl)). apply IH. intros y Hy. apply H. now right.
Qed.

Lemma filter_permutation {A} (f : A -> bool) l l' : Permutation l l' -> Permutation (filter f l) (filter f l').
Proof.
  induction 1 as [|x l l' _ IH|x y l|l l' l'' _ IH1 _ IH2]; cbn [filter].
  - constructor.
  - destruct (f x); [now constructor|exact IH].
  - destruct (f x), (f y); try reflexivity. apply perm_swap.
  - now transitivity (filter f l').
Qed.

Lemma NoDup_app_l {A} (l1 l2 : list A) : NoDup (l1 ++ l2) -> NoDup l1.
Proof.
  induction l1 as [|x l1 IH]; cbn [app]; intros H; [constructor|].
  inversion H as [|? ? Hn ND]; subst. constructor; [|now apply IH].
  intros Hin. apply Hn. apply in_or_app. now left.
Qed.

(* ------------------------------------------------------------------------------------------ *)
(** * "sort by a key, keep the first k": every outcome of an arbitrary (unstable) sort *)
Section TopK.
  Context {A : Type} (key : A -> nat).
  Definition key_le (a b : A) : Prop := key a <= key b.

  (* r is what `sorted_by_key(key).take(k)` can return for the candidates `cands` *)
  Definition topk_outcome (cands : list A) (k : nat) (r : list A) : Prop :=
    exists s, Permutation s cands /\ StronglySorted key_le s /\ r = firstn k s.

  Lemma insert_by_sorted x l :
    StronglySorted key_le l -> StronglySorted key_le (insert_by (fun a b => key a <=? key b) x l).
  Proof.
    induction 1 as [|y ys Hs IH Hy]; cbn [insert_by]; [repeat constructor|].
    destruct (Nat.leb_spec (key x) (key y)) as [Hle|Hgt].
    - constructor; [now constructor|]. constructor; [exact Hle|].
      eapply Forall_impl; [|exact Hy]. unfold key_le. intros; lia.
    - constructor; [exact IH|].
      rewrite (insert_by_perm (fun a b => key a <=? key b) x ys).
      constructor; [unfold key_le; lia|exact Hy].
  Qed.

  Lemma isort_sorted l : StronglySorted key_le (isort (fun a b => key a <=? key b) l).
  Proof. induction l as [|x xs IH]; cbn [isort]; [constructor|now apply insert_by_sorted]. Qed.

  (* the executable model's stable sort is one of the outcomes *)
  Lemma isort_topk cands k : topk_outcome cands k (firstn k (isort (fun a b => key a <=? key b) cands)).
  Proof. exists (isort (fun a b => key a <=? key b) cands). repeat split; [apply isort_perm|apply isort_sorted]. Qed.

  Lemma sorted_firstn k s : StronglySorted key_le s -> StronglySorted key_le (firstn k s).
  Proof.
    revert k. induction s as [|x s IH]; intros k H; [now rewrite firstn_nil|].
    destruct k; cbn [firstn]; [constructor|]. inversion H as [|? ? Hs Hx]; subst.
    constructor; [now apply IH|]. rewrite Forall_forall in *. intros y Hy. apply Hx.
    eapply in_firstn; exact Hy.
  Qed.

  Lemma sorted_app_le l1 l2 : StronglySorted key_le (l1 ++ l2) ->
    forall a b, In a l1 -> In b l2 -> key a <= key b.
  Proof.
    induction l1 as [|x l1 IH]; cbn [app]; intros H a b Ha Hb; [contradiction|].
    inversion H as [|? ? Hs Hx]; subst. destruct Ha as [<-|Ha].
    - rewrite Forall_forall in Hx. apply Hx. apply in_or_app. now right.
    - now apply (IH Hs).
  Qed.

  Lemma topk_in cands k r x : topk_outcome cands k r -> In x r -> In x cands.
  Proof.
    intros (s & P & _ & ->) H. eapply Permutation_in; [exact P|]. eapply in_firstn; exact H.
  Qed.

  Lemma topk_sorted cands k r : topk_outcome cands k r -> StronglySorted key_le r.
  Proof. intros (s & _ & S & ->). now apply sorted_firstn. Qed.

  Lemma topk_length cands k r : topk_outcome cands k r -> length r = Nat.min k (length cands).
  Proof. intros (s & P & _ & ->). rewrite firstn_length. now rewrite (Permutation_length P). Qed.

  (* nothing that beats a returned element is left out: a candidate is returned, or the result is
     full and everything in it is at least as good *)
  Lemma topk_complete cands k r c : topk_outcome cands k r -> In c cands ->
    In c r \/ (length r = k /\ forall x, In x r -> key x <= key c).
  Proof.
    intros (s & P & S & ->) Hc.
    apply (Permutation_in _ (Permutation_sym P)) in Hc.
    rewrite <- (firstn_skipn k s) in Hc. apply in_app_or in Hc as [Hc|Hc]; [now left|right].
    split.
    - rewrite firstn_length. assert (k <= length s); [|lia].
      destruct (Nat.le_gt_cases k (length s)) as [H|H]; [exact H|].
      rewrite skipn_all2 in Hc by lia. contradiction.
    - intros x Hx. rewrite <- (firstn_skipn k s) in S. eapply sorted_app_le; eassumption.
  Qed.

  Lemma topk_nodup cands k r : topk_outcome cands k r -> NoDup cands -> NoDup r.
  Proof.
    intros (s & P & _ & ->) ND. apply (Permutation_NoDup (Permutation_sym P)) in ND.
    rewrite <- (firstn_skipn k s) in ND. now apply NoDup_app_l in ND.
  Qed.

  (* if at least k candidates have key <= x, everything returned has key <= x *)
  Lemma sorted_firstn_bound x : forall s k, StronglySorted key_le s ->
    k <= length (filter (fun a => key a <=? x) s) -> forall y, In y (firstn k s) -> key y <= x.
  Proof.
    induction s as [|a s IH]; intros k S Hk y Hy; [rewrite firstn_nil in Hy; contradiction|].
    destruct k; [contradiction|]. cbn [firstn filter] in *. inversion S as [|? ? Ss Ha]; subst.
    destruct (Nat.leb_spec (key a) x) as [Hle|Hgt].
    - cbn [length] in Hk. destruct Hy as [<-|Hy]; [exact Hle|]. apply (IH k Ss); [lia|exact Hy].
    - exfalso. assert (E : filter (fun a0 => key a0 <=? x) s = []).
      { apply filter_nil_all. rewrite Forall_forall in Ha. intros z Hz.
        apply Nat.leb_gt. specialize (Ha z Hz). unfold key_le in Ha. lia. }
      rewrite E in Hk. cbn in Hk. lia.
  Qed.

  Lemma topk_bound cands k r x : topk_outcome cands k r ->
    k <= length (filter (fun a => key a <=? x) cands) -> forall y, In y r -> key y <= x.
  Proof.
    intros (s & P & S & ->) Hk. apply sorted_firstn_bound; [exact S|].
    erewrite Permutation_length; [exact Hk|]. apply Permutation_sym. now apply filter_permutation.
  Qed.
End TopK.

(* ------------------------------------------------------------------------------------------ *)
(** * small facts about the result monad *)
Lemma map_res_total {A B} (f : A -> res B) l :
  (forall x, In x l -> exists y, f x = Ok y) -> exists ys, map_res f l = Ok ys.
Proof.
  induction l as [|x l IH]; intros H; cbn [map_res]; [now exists []|].
  destruct (H x (or_introl eq_refl)) as [y Ey]. rewrite Ey. cbn [bind].
  destruct IH as [ys Eys]; [intros z Hz; apply H; now right|]. rewrite Eys. cbn [bind]. now exists (y :: ys).
Qed.

Lemma map_res_forall2 {A B} (f : A -> res B) l ys :
  map_res f l = Ok ys -> Forall2 (fun x y => f x = Ok y) l ys.
Proof.
  revert ys. induction l as [|x l IH]; intros ys H; cbn [map_res] in H.
  - injection H as <-. constructor.
  - destruct (f x) as [y|] eqn:Ey; cbn [bind] in H; [|discriminate].
    destruct (map_res f l) as [ys'|] eqn:E; cbn [bind] in H; [|discriminate].
    injection H as <-. constructor; [exact Ey|now apply IH].
Qed.

Lemma sorted_map {A B} (f : A -> B) (R : B -> B -> Prop) l :
  StronglySorted R (map f l) <-> StronglySorted (fun a b => R (f a) (f b)) l.
Proof.
  induction l as [|x l IH]; cbn [map]; split; intros H; try constructor; inversion H as [|? ? Hs Hx]; subst.
  - now apply IH.
  - rewrite Forall_map in Hx. exact Hx.
  - now apply IH.
  - rewrite Forall_map. exact Hx.
Qed.

(* ------------------------------------------------------------------------------------------ *)
(** * MutableDictionary::fuzzy_match *)
Section MutFuzzy.
  Variable is_lower : char -> bool.
  Variable lower : char -> list char.
  Variable dbg : bool.
  Notation word_id := (word_id is_lower lower).
  Notation to_lower := (to_lower is_lower lower).
  Notation mut_meta := (mut_meta is_lower lower).
  Notation wm_wf := (wm_wf is_lower lower).

  Definition min_dist (qn ql w : text) : nat := Nat.min (lev qn w) (lev ql w).

  (* what the filter_map closure computes, when nothing overflows *)
  Definition scored_spec (qn ql : text) (d : nat) (ws : list text) : list (text * nat) :=
    flat_map (fun w => if min_dist qn ql w <=? d then [(w, min_dist qn ql w)] else []) ws.

  Lemma scored_spec_in qn ql d ws w s :
    In (w, s) (scored_spec qn ql d ws) <-> In w ws /\ s = min_dist qn ql w /\ s <= d.
  Proof.
    unfold scored_spec. rewrite in_flat_map. split.
    - intros (w' & Hin & H). destruct (Nat.leb_spec (min_dist qn ql w') d) as [Hle|Hgt]; [|contradiction].
      destruct H as [H|[]]. injection H as -> <-. repeat split; assumption.
    - intros (Hin & -> & Hle). exists w. split; [exact Hin|].
      destruct (Nat.leb_spec (min_dist qn ql w) d); [now left|lia].
  Qed.

  Lemma scored_spec_cons qn ql d w ws :
    scored_spec qn ql d (w :: ws)
    = (if min_dist qn ql w <=? d then [(w, min_dist qn ql w)] else []) ++ scored_spec qn ql d ws.
  Proof. reflexivity. Qed.

  (* the scan neither overflows nor depends on what the two reused buffers hold *)
  Lemma mut_scan_ok qn ql d : length qn <= 254 -> length ql <= 254 ->
    forall ws ba bb, (forall w, In w ws -> length w <= 254) ->
    mut_scan dbg qn ql d ws ba bb = Ok (scored_spec qn ql d ws).
  Proof.
    intros Hqn Hql. induction ws as [|w ws IH]; intros ba bb Hws; cbn [mut_scan]; [reflexivity|].
    assert (Hw : length w <= 254) by (apply Hws; now left).
    destruct (wf_min_alloc_correct dbg qn w ba bb Hqn Hw) as (ba1 & bb1 & E1). rewrite E1. cbn [bind].
    destruct (wf_min_alloc_correct dbg ql w ba1 bb1 Hql Hw) as (ba2 & bb2 & E2). rewrite E2. cbn [bind].
    rewrite IH by (intros z Hz; apply Hws; now right). cbn [bind].
    rewrite scored_spec_cons. unfold min_dist.
    destruct (Nat.min (lev qn w) (lev ql w) <=? d); reflexivity.
  Qed.

  Definition attach (m : wordmap) (wd : text * nat) : res fres :=
    match mut_meta m (fst wd) with
    | Some md => Ok (mkfres (fst wd) (snd wd) md)
    | None => Panic PUnwrap
    end.

  Definition proj (r : fres) : text * nat := (r_word r, r_dist r).

  (* every outcome of the (unstable) sort-and-take over the hash-ordered candidates *)
  Definition mut_fuzzy_outcome (m : wordmap) (q : text) (d k : nat) (r : list fres) : Prop :=
    let qn := normalized q in
    let ql := to_lower qn in
    exists top,
      topk_outcome snd (scored_spec qn ql d (filter (in_window (length qn) d) (mut_words m))) k top /\
      map_res (attach m) top = Ok r.

  Lemma attach_inv m top r : map_res (attach m) top = Ok r ->
    top = map proj r /\ forall x, In x r -> mut_meta m (r_word x) = Some (r_meta x).
  Proof.
    intros H. apply map_res_forall2 in H. induction H as [|wd x top r Hx _ IH]; [split; [reflexivity|intros ? []]|].
    destruct IH as [-> IHm]. unfold attach in Hx.
    destruct (mut_meta m (fst wd)) as [md|] eqn:E; [|discriminate]. injection Hx as <-.
    split; [destruct wd; reflexivity|]. intros y [<-|Hy]; [exact E|now apply IHm].
  Qed.

  Lemma wm_same_key (m : wordmap) k e e' : NoDup (map fst m) -> In (k, e) m -> In (k, e') m -> e = e'.
  Proof.
    intros ND H1 H2. apply (wm_get_in m k e ND) in H1. apply (wm_get_in m k e' ND) in H2. congruence.
  Qed.

  Lemma mut_meta_of_word m w : wm_wf m -> In w (mut_words m) ->
    exists e, In (word_id w, e) m /\ e_canon e = w /\ mut_meta m w = Some (e_meta e).
  Proof.
    intros [ND K] Hin. unfold mut_words in Hin. apply in_map_iff in Hin as ([k e] & <- & Hin). cbn [snd].
    pose proof (K k e Hin) as ->. exists e. repeat split; [exact Hin|].
    unfold DictModel.mut_meta, wm_get_with_chars. now rewrite (proj2 (wm_get_in m _ e ND) Hin).
  Qed.

  (* the model's deterministic run is one of the outcomes, and it neither panics nor overflows
     as long as query and words have at most 254 characters *)
  Theorem mut_fuzzy_total m q d k :
    wm_wf m ->
    length (normalized q) <= 254 -> length (to_lower (normalized q)) <= 254 ->
    (forall w, In w (mut_words m) -> length w <= 254) ->
    exists r, mut_fuzzy is_lower lower dbg m q d k = Ok r /\ mut_fuzzy_outcome m q d k r.
  Proof.
    intros Hwf Hqn Hql Hws. unfold mut_fuzzy, mut_fuzzy_outcome.
    set (qn := normalized q) in *. set (ql := to_lower qn) in *.
    set (cands := filter (in_window (length qn) d) (mut_words m)).
    rewrite (mut_scan_ok qn ql d Hqn Hql cands [] []) by (intros w Hw; apply Hws; apply filter_In in Hw; tauto).
    cbn [bind].
    set (top := firstn k (isort (fun a b => snd a <=? snd b) (scored_spec qn ql d cands))).
    assert (Htop : topk_outcome snd (scored_spec qn ql d cands) k top) by apply isort_topk.
    destruct (map_res_total (attach m) top) as [r Er].
    { intros [w s] Hin. apply (topk_in snd _ _ _ _ Htop) in Hin. apply scored_spec_in in Hin as (Hin & _).
      apply filter_In in Hin as [Hin _]. destruct (mut_meta_of_word m w Hwf Hin) as (e & _ & _ & E).
      unfold attach. cbn [fst snd]. rewrite E. eauto. }
    exists r. split; [exact Er|]. exists top. split; [exact Htop|exact Er].
  Qed.

  Lemma in_window_of_lev (qn x w : text) d : w <> [] -> length x = length qn -> lev x w <= d ->
    in_window (length qn) d w = true.
  Proof.
    intros Hne Hlen Hd. pose proof (lev_len x w) as [L1 L2]. unfold in_window.
    assert (1 <= length w) by (destruct w; [contradiction|cbn; lia]).
    apply andb_true_iff. split; [|apply Nat.leb_le; lia].
    destruct (Nat.leb_spec (length qn) d); apply Nat.leb_le; lia.
  Qed.

  (* the property, for every outcome *)
  Theorem mut_fuzzy_sound m q d k r :
    wm_wf m -> mut_fuzzy_outcome m q d k r ->
    let qn := normalized q in
    let ql := to_lower qn in
    (* each result is a dictionary word with that word's metadata, at its true (smaller) distance, within the bound *)
    (forall x, In x r ->
       (exists e, In (word_id (r_word x), e) m /\ e_canon e = r_word x /\ e_meta e = r_meta x) /\
       r_dist x = min_dist qn ql (r_word x) /\ r_dist x <= d /\ r_word x <> []) /\
    (* ordered by distance, capped *)
    StronglySorted (fun a b => r_dist a <= r_dist b) r /\ length r <= k /\
    (* no dictionary word is listed twice *)
    NoDup (map r_word r) /\
    (* complete up to the cap: a non-empty dictionary word within the bound of the query — or of its
       lower-case form when that has the same length — is returned, unless the result is full of
       words that are at least as close *)
    (forall k0 e, In (k0, e) m -> e_canon e <> [] ->
       (lev qn (e_canon e) <= d \/ (length ql = length qn /\ lev ql (e_canon e) <= d)) ->
       (exists x, In x r /\ r_word x = e_canon e) \/
       (length r = k /\ forall x, In x r -> r_dist x <= min_dist qn ql (e_canon e))).
  Proof.
    intros Hwf (top & Htop & Er). cbv zeta.
    set (qn := normalized q) in *. set (ql := to_lower qn) in *.
    set (cands := filter (in_window (length qn) d) (mut_words m)) in *.
    destruct (attach_inv m top r Er) as [Etop Hmeta]. pose proof Hwf as [ND K].
    assert (Hin_top : forall x, In x r -> In (proj x) (scored_spec qn ql d cands)).
    { intros x Hx. apply (topk_in snd _ _ _ _ Htop). rewrite Etop. now apply in_map. }
    repeat split.
    - (* dictionary word + metadata *)
      pose proof (Hin_top x H) as Hs. unfold proj in Hs. apply scored_spec_in in Hs as (Hc & _ & _).
      apply filter_In in Hc as [Hc _]. destruct (mut_meta_of_word m _ Hwf Hc) as (e & He & Hcan & Hm).
      exists e. repeat split; [exact He|exact Hcan|]. rewrite (Hmeta x H) in Hm. now injection Hm.
    - pose proof (Hin_top x H) as Hs. unfold proj in Hs. apply scored_spec_in in Hs. tauto.
    - pose proof (Hin_top x H) as Hs. unfold proj in Hs. apply scored_spec_in in Hs. lia.
    - pose proof (Hin_top x H) as Hs. unfold proj in Hs. apply scored_spec_in in Hs as (Hc & _ & _).
      apply filter_In in Hc as [_ Hw]. intros E. rewrite E in Hw. unfold in_window in Hw. cbn [length] in Hw.
      apply andb_true_iff in Hw as [Hw _]. destruct (length qn <=? d) eqn:El; apply Nat.leb_le in Hw; [lia|].
      apply Nat.leb_gt in El. lia.
    - (* sorted *)
      pose proof (topk_sorted snd _ _ _ Htop) as S. rewrite Etop in S.
      apply (proj1 (sorted_map proj (key_le snd) r)) in S. exact S.
    - pose proof (topk_length snd _ _ _ Htop) as L. rewrite Etop, map_length in L. lia.
    - (* no word twice: the candidates are the spellings of a map with unique ids *)
      assert (NDw : NoDup (mut_words m)).
      { unfold mut_words. apply (NoDup_map_inv word_id). rewrite map_map.
        erewrite map_ext_in; [exact ND|]. intros [k0 e] Hin. cbn [fst snd]. symmetry. now apply K. }
      assert (NDs : NoDup (map fst (scored_spec qn ql d cands))).
      { assert (NDc : NoDup cands) by (now apply NoDup_filter).
        clear -NDc. unfold scored_spec. induction cands as [|w ws IH]; cbn [flat_map map]; [constructor|].
        inversion NDc as [|? ? Hn NDc']; subst. destruct (min_dist qn ql w <=? d); cbn [app map fst]; [|now apply IH].
        constructor; [|now apply IH]. intros Hin. apply Hn. apply in_map_iff in Hin as ([w' s] & <- & Hin).
        apply (scored_spec_in qn ql d ws w' s) in Hin. tauto. }
      destruct Htop as (s & P & _ & Es).
      assert (NDtop : NoDup (map fst top)).
      { assert (NDms : NoDup (map fst s)).
        { eapply Permutation_NoDup; [|exact NDs]. apply Permutation_map. now apply Permutation_sym. }
        rewrite Es, <- firstn_map. rewrite <- (firstn_skipn k (map fst s)) in NDms.
        now apply NoDup_app_l in NDms. }
      rewrite Etop, map_map in NDtop. exact NDtop.
    - (* complete up to the cap *)
      intros k0 e Hin0 Hne Hcond. set (w := e_canon e) in *.
      assert (Hw : In w cands).
      { apply filter_In. split; [unfold mut_words; apply in_map_iff; now exists (k0, e)|].
        destruct Hcond as [Hd|[Hl Hd]]; [apply (in_window_of_lev qn qn)|apply (in_window_of_lev qn ql)]; auto. }
      assert (Hmd : min_dist qn ql w <= d) by (unfold min_dist; destruct Hcond as [Hd|[_ Hd]]; lia).
      assert (Hs : In (w, min_dist qn ql w) (scored_spec qn ql d cands)) by (apply scored_spec_in; auto).
      destruct (topk_complete snd _ _ _ _ Htop Hs) as [Hin|[Hlen Hall]].
      + left. rewrite Etop in Hin. apply in_map_iff in Hin as (x & Ex & Hx). exists x. split; [exact Hx|].
        unfold proj in Ex. now injection Ex.
      + right. rewrite Etop, map_length in Hlen. split; [exact Hlen|].
        intros x Hx. specialize (Hall (proj x)). cbn [proj snd] in Hall. apply Hall. rewrite Etop. now apply in_map.
  Qed.
End MutFuzzy.

(* ------------------------------------------------------------------------------------------ *)
(** * the automaton stream contract *)
Lemma enum_from_in {A} (l : list A) : forall n i a,
  In (i, a) (enum_from n l) <-> n <= i /\ nth_error l (i - n) = Some a.
Proof.
  induction l as [|x l IH]; intros n i a; cbn [enum_from In].
  - split; [tauto|]. intros [_ H]. destruct (i - n); discriminate.
  - rewrite IH. split.
    + intros [H|[H1 H2]].
      * injection H as <- <-. rewrite Nat.sub_diag. split; [lia|reflexivity].
      * split; [lia|]. replace (i - n) with (S (i - S n)) by lia. exact H2.
    + intros [H1 H2]. destruct (Nat.eq_dec i n) as [->|Hne].
      * rewrite Nat.sub_diag in H2. cbn in H2. injection H2 as <-. now left.
      * right. split; [lia|]. replace (i - n) with (S (i - S n)) in H2 by lia. exact H2.
Qed.

Lemma spec_stream_in levf (ws : list (text * meta)) x d i e :
  In (i, e) (spec_stream levf ws x d) <->
  exists w md, nth_error ws i = Some (w, md) /\ e = levf x w /\ e <= d.
Proof.
  unfold spec_stream. rewrite in_flat_map. split.
  - intros ([j [w md]] & Hin & H). cbn [fst snd] in H. apply enum_from_in in Hin as [_ Hn].
    rewrite Nat.sub_0_r in Hn. destruct (Nat.leb_spec (levf x w) d); [|contradiction].
    destruct H as [H|[]]. injection H as -> <-. exists w, md. repeat split; assumption.
  - intros (w & md & Hn & -> & Hle). exists (i, (w, md)). split.
    + apply enum_from_in. rewrite Nat.sub_0_r. split; [lia|exact Hn].
    + cbn [fst snd]. destruct (Nat.leb_spec (levf x w) d); [now left|lia].
Qed.

(* the length pre-filter of the extracted driver does not change the stream *)
Theorem spec_stream_fast_eq ws x d : spec_stream_fast lev_fast ws x d = spec_stream lev ws x d.
Proof.
  unfold spec_stream_fast, spec_stream. apply flat_map_ext. intros [i [w md]]. cbn [fst snd].
  rewrite lev_fast_correct. pose proof (lev_len x w) as [L1 L2].
  destruct (Nat.ltb_spec (length x + d) (length w)); destruct (Nat.ltb_spec (length w + d) (length x));
    cbn [orb]; try reflexivity; destruct (Nat.leb_spec (lev x w) d); try reflexivity; lia.
Qed.

(* ------------------------------------------------------------------------------------------ *)
(** * FstDictionary::fuzzy_match: every admissible outcome *)
Lemma fres_eqb_eq a b : fres_eqb a b = true -> a = b.
Proof.
  unfold fres_eqb. intros H. apply andb_true_iff in H as [H H3]. apply andb_true_iff in H as [H1 H2].
  apply text_eqb_eq in H1. apply Nat.eqb_eq in H2, H3. destruct a, b; cbn in *; now subst.
Qed.

Lemma sorted_by_dist_sorted l : sorted_by_dist l = true -> StronglySorted (fun a b => r_dist a <= r_dist b) l.
Proof.
  induction l as [|a l IH]; intros H; [constructor|].
  destruct l as [|b l]; [repeat constructor|].
  cbn [sorted_by_dist] in H. apply andb_true_iff in H as [H1 H2]. apply Nat.leb_le in H1.
  specialize (IH H2). constructor; [exact IH|].
  inversion IH as [|? ? _ Hb]; subst. constructor; [exact H1|].
  eapply Forall_impl; [|exact Hb]. cbn. intros; lia.
Qed.

Lemma words_nodup_nodup l : words_nodup l = true -> NoDup (map r_word l).
Proof.
  induction l as [|a l IH]; cbn [words_nodup map]; intros H; [constructor|].
  apply andb_true_iff in H as [H1 H2]. constructor; [|now apply IH].
  intros Hin. apply in_map_iff in Hin as (b & E & Hb).
  apply negb_true_iff in H1. assert (existsb (same_word a) l = true); [|congruence].
  apply existsb_exists. exists b. split; [exact Hb|]. unfold same_word. rewrite E. apply text_eqb_refl.
Qed.

Lemma nub_words_covers l : forall m, In m l -> exists m', In m' (nub_words l) /\ r_word m' = r_word m.
Proof.
  induction l as [|a l IH]; intros m Hin; [contradiction|]. cbn [nub_words].
  destruct (existsb (same_word a) l) eqn:E.
  - destruct Hin as [<-|Hin]; [|now apply IH].
    apply existsb_exists in E as (b & Hb & Eb). apply text_eqb_eq in Eb.
    destruct (IH b Hb) as (m' & Hm' & Ew). exists m'. split; [exact Hm'|congruence].
  - destruct Hin as [<-|Hin]; [exists a; split; [now left|reflexivity]|].
    destruct (IH m Hin) as (m' & Hm' & Ew). exists m'. split; [now right|exact Ew].
Qed.

Lemma max_dist_ge l x : In x l -> r_dist x <= max_dist l.
Proof.
  induction l as [|a l IH]; intros H; [contradiction|]. cbn [max_dist fold_right].
  destruct H as [<-|H]; [lia|]. specialize (IH H). unfold max_dist in IH. lia.
Qed.

Section FstFuzzy.
  Variable is_lower : char -> bool.
  Variable lower : char -> list char.
  Variable stream : list (text * meta) -> text -> nat -> list (nat * nat).
  Notation fst_new := (fst_new is_lower lower).

  (* every outcome the unstable sorts of FstDictionary::fuzzy_match may produce *)
  Definition fst_fuzzy_outcome (f : fst_dict) (q lq : text) (d k : nat) (r : list fres) : Prop :=
    exists merged, fst_merged stream f (normalized q) lq d = Ok merged /\ fst_admissible merged k r = true.

  Variable f : fst_dict.
  Variable d : nat.
  (* the contract of fst::Map::search_with_state + levenshtein_automata for this dictionary's word
     list and this bound (monitored by the harness for max_distance <= 3) *)
  Hypothesis stream_contract : forall x, stream (f_words f) x d = spec_stream lev (f_words f) x d.

  Lemma stream_in x i e : In (i, e) (stream (f_words f) x d) ->
    exists w md, nth_error (f_words f) i = Some (w, md) /\ e = lev x w /\ e <= d.
  Proof. rewrite stream_contract. apply spec_stream_in. Qed.

  (* the zip loop never indexes out of range, and keeps only true (word, distance) pairs *)
  Lemma fst_merged_ok qn lq :
    exists merged, fst_merged stream f qn lq d = Ok merged /\
      forall x, In x merged ->
        In (r_word x, r_meta x) (f_words f) /\
        (r_dist x = lev qn (r_word x) \/ r_dist x = lev lq (r_word x)) /\ r_dist x <= d.
  Proof.
    unfold fst_merged.
    set (g := fun ul => let '(ci, ed) := zip_choose ul in
                        do wm <- nth_chk (f_words f) ci; Ok (mkfres (fst wm) ed (snd wm))).
    assert (Hg : forall ul, In ul (combine (stream (f_words f) qn d) (stream (f_words f) lq d)) ->
                 exists x, g ul = Ok x /\ In (r_word x, r_meta x) (f_words f) /\
                           (r_dist x = lev qn (r_word x) \/ r_dist x = lev lq (r_word x)) /\ r_dist x <= d).
    { intros [[iu du] [il dl]] Hin. pose proof (in_combine_l _ _ _ _ Hin) as Hu.
      pose proof (in_combine_r _ _ _ _ Hin) as Hl.
      apply stream_in in Hu as (wu & mu & Nu & Eu & Lu). apply stream_in in Hl as (wl & ml & Nl & El & Ll).
      unfold g, zip_choose. destruct (du <=? dl).
      - rewrite (nth_chk_ok _ _ _ Nu). cbn [bind fst snd]. eexists. split; [reflexivity|]. cbn [r_word r_meta r_dist].
        split; [eapply nth_error_In; exact Nu|]. split; [now left|exact Lu].
      - rewrite (nth_chk_ok _ _ _ Nl). cbn [bind fst snd]. eexists. split; [reflexivity|]. cbn [r_word r_meta r_dist].
        split; [eapply nth_error_In; exact Nl|]. split; [now right|exact Ll]. }
    destruct (map_res_total g _ (fun ul H => let '(ex_intro _ x (conj E _)) := Hg ul H in ex_intro _ x E)) as [merged Em].
    exists merged. split; [exact Em|].
    apply map_res_forall2 in Em. intros x Hx.
    assert (exists ul, In ul (combine (stream (f_words f) qn d) (stream (f_words f) lq d)) /\ g ul = Ok x) as (ul & Hul & Eg).
    { clear -Em Hx. induction Em as [|a b l l' Hab _ IH]; [contradiction|].
      destruct Hx as [<-|Hx]; [exists a; split; [now left|exact Hab]|].
      destruct (IH Hx) as (ul & H1 & H2). exists ul. split; [now right|exact H2]. }
    destruct (Hg ul Hul) as (x' & Eg' & P). rewrite Eg in Eg'. injection Eg' as <-. exact P.
  Qed.

  (* soundness, order, cap, no repetition — for every admissible outcome *)
  Theorem fst_fuzzy_sound q lq k r :
    fst_fuzzy_outcome f q lq d k r ->
    (forall x, In x r ->
       In (r_word x, r_meta x) (f_words f) /\
       (r_dist x = lev (normalized q) (r_word x) \/ r_dist x = lev lq (r_word x)) /\ r_dist x <= d) /\
    StronglySorted (fun a b => r_dist a <= r_dist b) r /\ length r <= k /\ NoDup (map r_word r).
  Proof.
    intros (merged & Em & Hadm).
    destruct (fst_merged_ok (normalized q) lq) as (merged' & Em' & Hm). rewrite Em in Em'. injection Em' as <-.
    unfold fst_admissible in Hadm. repeat (apply andb_true_iff in Hadm as [Hadm ?]).
    repeat split.
    - rewrite forallb_forall in H1. apply H1 in H3. apply existsb_exists in H3 as (m & Hin & E).
      apply fres_eqb_eq in E. subst m. now apply Hm.
    - rewrite forallb_forall in H1. apply H1 in H3. apply existsb_exists in H3 as (m & Hin & E).
      apply fres_eqb_eq in E. subst m. now apply Hm.
    - rewrite forallb_forall in H1. apply H1 in H3. apply existsb_exists in H3 as (m & Hin & E).
      apply fres_eqb_eq in E. subst m. now apply Hm.
    - now apply sorted_by_dist_sorted.
    - apply Nat.eqb_eq in H0. lia.
    - now apply words_nodup_nodup.
  Qed.

  (* for a lower-case query (String::to_lowercase leaves the normalised query unchanged) the two
     streams coincide, and no word of the FST within the bound is missed: it is returned, unless the
     result is full of words that are at least as close *)
  Theorem fst_fuzzy_complete q k r :
    fst_fuzzy_outcome f q (normalized q) d k r ->
    forall w md, In (w, md) (f_words f) -> lev (normalized q) w <= d ->
      (exists x, In x r /\ r_word x = w) \/
      (length r = k /\ forall x, In x r -> r_dist x <= lev (normalized q) w).
  Proof.
    intros (merged & Em & Hadm) w md Hin Hd. set (qn := normalized q) in *.
    destruct (fst_merged_ok qn qn) as (merged' & Em' & Hm). rewrite Em in Em'. injection Em' as <-.
    (* w's pair is in the stream, hence an entry for w is in merged *)
    assert (exists m0, In m0 merged /\ r_word m0 = w) as (m0 & Hm0 & Ew).
    { apply In_nth_error in Hin as (i & Hi).
      assert (Hs : In (i, lev qn w) (stream (f_words f) qn d)).
      { rewrite stream_contract. apply spec_stream_in. exists w, md. repeat split; assumption. }
      unfold fst_merged in Em. apply map_res_forall2 in Em.
      assert (Hc : In ((i, lev qn w), (i, lev qn w)) (combine (stream (f_words f) qn d) (stream (f_words f) qn d))).
      { clear -Hs. induction (stream (f_words f) qn d) as [|a l IH]; [contradiction|].
        cbn [combine]. destruct Hs as [->|Hs]; [now left|right; now apply IH]. }
      clear -Em Hc Hi. induction Em as [|a b l l' Hab _ IH]; [contradiction|].
      destruct Hc as [->|Hc].
      - exists b. split; [now left|]. unfold zip_choose in Hab. rewrite Nat.leb_refl in Hab.
        rewrite (nth_chk_ok _ _ _ Hi) in Hab. cbn [bind fst snd] in Hab. injection Hab as <-. reflexivity.
      - destruct (IH Hc) as (m0 & H1 & H2). exists m0. split; [now right|exact H2]. }
    unfold fst_admissible in Hadm. repeat (apply andb_true_iff in Hadm as [Hadm ?]).
    rewrite forallb_forall in H. specialize (H m0 Hm0). apply orb_true_iff in H as [H|H].
    - left. apply existsb_exists in H as (x & Hx & E). apply text_eqb_eq in E. exists x. split; [exact Hx|congruence].
    - destruct (existsb (same_word m0) r) eqn:Ein.
      { left. apply existsb_exists in Ein as (x & Hx & E). apply text_eqb_eq in E. exists x. split; [exact Hx|congruence]. }
      right. apply existsb_exists in H as (m' & Hm' & E). apply andb_true_iff in E as [E1 E2].
      apply text_eqb_eq in E1. apply Nat.leb_le in E2.
      assert (Dm' : r_dist m' = lev qn w).
      { destruct (Hm m' Hm') as (_ & [D|D] & _); rewrite D; congruence. }
      split.
      + (* the result is full: its words are distinct words of merged, and w is another one *)
        apply Nat.eqb_eq in H0. apply words_nodup_nodup in H2.
        destruct (nub_words_covers merged m0 Hm0) as (n0 & Hn0 & En0).
        assert (Hlt : S (length r) <= length (nub_words merged)).
        { rewrite <- (map_length r_word r), <- (map_length r_word (nub_words merged)).
          apply (NoDup_incl_length (l := w :: map r_word r)).
          - constructor; [|exact H2]. intros Hc. apply in_map_iff in Hc as (x & Ex & Hx).
            assert (existsb (same_word m0) r = true); [|congruence].
            apply existsb_exists. exists x. split; [exact Hx|]. unfold same_word. rewrite Ex, Ew. apply text_eqb_refl.
          - intros y [<-|Hy].
            + apply in_map_iff. exists n0. split; [congruence|exact Hn0].
            + apply in_map_iff in Hy as (x & <- & Hx). rewrite forallb_forall in H1.
              apply H1 in Hx. apply existsb_exists in Hx as (m & Hmm & E). apply fres_eqb_eq in E. subst m.
              destruct (nub_words_covers merged x Hmm) as (n & Hn & En). apply in_map_iff. exists n. split; [exact En|exact Hn]. }
        lia.
      + intros x Hx. pose proof (max_dist_ge r x Hx). lia.
  Qed.
End FstFuzzy.
