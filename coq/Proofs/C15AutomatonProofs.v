(* C15AutomatonProofs.v — the Levenshtein-automaton x key-list product of Model/C15Automaton.v satisfies the stream
   contract: la_search = spec_stream lev, for every word list, query and bound (unbounded induction); hence the FST
   theorems hold UNCONDITIONALLY for `stream := la_search`. *)
Require Import Base EditDistance DictModel Fuzzy C15Suggest C15Automaton EditDistanceProofs DictProofs FuzzyProofs
  C15SuggestProofs C15CompleteProofs ListLemmas.
From Coq Require Import Lia Permutation Sorting.Sorted.

(* ---------- the state is the Wagner–Fischer row ---------- *)
Lemma rowD_hd s tp : hd 0 (rowD s tp) = length tp.
Proof. unfold rowD. cbn [seq map hd firstn]. apply lev_nil_l. Qed.

Lemma la_start_row x : la_start x = rowD x [].
Proof. unfold la_start. now rewrite rowD_nil. Qed.

Lemma la_step_row x p c : la_step x (rowD x p) c = rowD x (p ++ [c]).
Proof. unfold la_step. rewrite rowD_hd. apply next_row_ok. Qed.

Lemma la_fold_row x : forall w p, fold_left (la_step x) w (rowD x p) = rowD x (p ++ w).
Proof.
  induction w as [|c w IH]; intros p; cbn [fold_left].
  - now rewrite app_nil_r.
  - rewrite la_step_row, IH, <- app_assoc. reflexivity.
Qed.

Lemma la_run_row x w : la_run x w = rowD x w.
Proof. unfold la_run. rewrite la_start_row, la_fold_row. reflexivity. Qed.

Lemma rowD_last s tp : last (rowD s tp) 0 = lev s tp.
Proof. unfold rowD. rewrite seq_S, map_app. cbn [map plus]. now rewrite last_last, firstn_all. Qed.

(* the state after reading w holds the distance of every prefix of the query to w; its last cell is lev x w *)
Theorem la_run_spec x w :
  (forall i, i <= length x -> nth_error (la_run x w) i = Some (lev (firstn i x) w)) /\
  last (la_run x w) 0 = lev x w /\
  (forall d, la_distance d (la_run x w) = if lev x w <=? d then Some (lev x w) else None).
Proof.
  rewrite la_run_row. split; [|split].
  - intros i Hi. now apply rowD_nth.
  - apply rowD_last.
  - intros d. unfold la_distance. now rewrite rowD_last.
Qed.

(* ---------- a state that cannot match stays that way: fst's pruning loses nothing ---------- *)
Definition dead (d : nat) (row : list nat) : Prop := forall v, In v row -> d < v.

Lemma can_match_false_dead d row : la_can_match d row = false <-> dead d row.
Proof.
  unfold la_can_match, dead. split.
  - intros H v Hv. destruct (Nat.leb_spec v d) as [Hle|]; [|assumption].
    exfalso. assert (existsb (fun v => v <=? d) row = true) as E.
    { apply existsb_exists. exists v. split; [assumption|now apply Nat.leb_le]. }
    congruence.
  - intros H. destruct (existsb (fun v => v <=? d) row) eqn:E; [|reflexivity].
    apply existsb_exists in E as (v & Hv & Hle). apply Nat.leb_le in Hle. specialize (H v Hv). lia.
Qed.

Lemma lev_row_dead d b : forall s pt diag left,
  d < diag -> d < left -> (forall v, In v pt -> d < v) ->
  forall v, In v (lev_row diag left s pt b) -> d < v.
Proof.
  induction s as [|a s IH]; intros pt diag left Hd Hl Hp v Hv; [destruct Hv|].
  destruct pt as [|p pt]; [destruct Hv|]. cbn [lev_row] in Hv.
  assert (Hpd : d < p) by (apply Hp; now left).
  set (v0 := Nat.min (Nat.min (p + 1) (left + 1)) (diag + cost a b)) in *.
  assert (Hv0 : d < v0) by (unfold v0; lia).
  destruct Hv as [<-|Hv]; [assumption|].
  eapply IH; [exact Hpd|exact Hv0| |exact Hv]. intros u Hu. apply Hp. now right.
Qed.

Lemma la_step_dead x d row c : dead d row -> dead d (la_step x row c).
Proof.
  intros H. unfold la_step, next_row. destruct row as [|p0 pt]; [intros v []|].
  cbn [hd]. assert (H0 : d < p0) by (apply H; now left).
  intros v [<-|Hv]; [lia|].
  apply (lev_row_dead d c x pt p0 (S p0)); [exact H0|lia| |exact Hv].
  intros u Hu. apply H. right. exact Hu.
Qed.

Lemma la_fold_dead x d : forall w row, dead d row -> dead d (fold_left (la_step x) w row).
Proof. induction w as [|c w IH]; intros row H; cbn [fold_left]; [assumption|]. apply IH. now apply la_step_dead. Qed.

(* pruning is sound: once the state of a prefix cannot match, no extension is within the bound *)
Theorem la_prune_sound x d p :
  la_can_match d (la_run x p) = false -> forall r, d < lev x (p ++ r).
Proof.
  intros H r. apply can_match_false_dead in H. rewrite la_run_row in H.
  pose proof (la_fold_dead x d r _ H) as Hd. rewrite la_fold_row in Hd.
  rewrite <- (rowD_last x (p ++ r)). apply Hd.
  unfold rowD. rewrite seq_S, map_app. cbn [map plus]. rewrite last_last. apply in_or_app. right. now left.
Qed.

(* the walk with pruning: either it reaches the row of the whole key, or the key is beyond the bound *)
Lemma la_walk_spec x d : forall w p,
  match la_walk x d (rowD x p) w with
  | Some row => row = rowD x (p ++ w)
  | None => d < lev x (p ++ w)
  end.
Proof.
  induction w as [|c w IH]; intros p; cbn [la_walk].
  - now rewrite app_nil_r.
  - rewrite la_step_row. destruct (la_can_match d (rowD x (p ++ [c]))) eqn:E.
    + specialize (IH (p ++ [c])). rewrite <- app_assoc in IH. exact IH.
    + rewrite <- la_run_row in E. pose proof (la_prune_sound x d (p ++ [c]) E w) as H.
      now rewrite <- app_assoc in H.
Qed.

(* ---------- the product satisfies the stream contract ---------- *)
Theorem la_search_correct words x d : la_search words x d = spec_stream lev words x d.
Proof.
  unfold la_search, spec_stream. apply flat_map_ext. intros [i [w md]]. cbn [fst snd].
  pose proof (la_walk_spec x d w []) as H. rewrite <- la_start_row in H. cbn [app] in H.
  destruct (la_walk x d (la_start x) w) as [row|].
  - subst row. unfold la_distance. rewrite rowD_last. destruct (lev x w <=? d); reflexivity.
  - destruct (Nat.leb_spec (lev x w) d); [lia|reflexivity].
Qed.

Theorem la_search_contract words x d : stream_contract words x d (la_search words x d).
Proof. apply stream_contract_iff. apply la_search_correct. Qed.

(* ---------- FstDictionary::fuzzy_match / suggest_correct_spelling over the automaton product: no hypothesis ---------- *)
Theorem fst_fuzzy_automaton (f : fst_dict) q lq d k :
  exists r, fst_fuzzy la_search f q lq d k = Ok r /\
    (forall x, In x r ->
       In (r_word x, r_meta x) (f_words f) /\
       (r_dist x = lev (normalized q) (r_word x) \/ r_dist x = lev lq (r_word x)) /\ r_dist x <= d) /\
    StronglySorted (fun a b => r_dist a <= r_dist b) r /\ length r <= k /\ NoDup (map r_word r).
Proof.
  assert (Hc : forall x, la_search (f_words f) x d = spec_stream lev (f_words f) x d)
    by (intros x; apply la_search_correct).
  destruct (fst_fuzzy_total la_search f d Hc q lq k) as (r & Hr & Ho).
  exists r. split; [exact Hr|]. exact (fst_fuzzy_sound la_search f d Hc q lq k r Ho).
Qed.

Theorem fst_answers_completely_automaton is_lower lower ws q d k :
  answers_completely (fst_ops is_lower lower la_search (fst_new is_lower lower ws)) q (normalized q) d k.
Proof. apply fst_answers_completely. intros x. apply la_search_correct. Qed.

Theorem suggest_fst_automaton is_common is_lower lower (f : fst_dict) mw lq limit dist :
  exists r sug,
    fst_fuzzy la_search f mw lq dist limit = Ok r /\
    suggest is_common (fst_ops is_lower lower la_search f) mw lq limit dist = Ok sug /\
    Permutation sug (map r_word r) /\ length sug <= limit /\ NoDup sug /\
    forall w, In w sug ->
      In w (map fst (f_words f)) /\ (lev (normalized mw) w <= dist \/ lev lq w <= dist).
Proof. apply suggest_fst. intros x. apply la_search_correct. Qed.

(* non-vacuity: "ab" against [ab; abc; b; bbbb], bound 1 — "bbbb" is abandoned after "bb" (row [2;2;2]) *)
Example la_example :
  let ws := [(w_ab, 2); (w_abc, 1); ([98%N], 3); ([98; 98; 98; 98]%N, 4)] in
  la_search ws w_ab 1 = [(0, 0); (1, 1); (2, 1)] /\
  la_run w_ab [98; 98]%N = [2; 2; 1] /\ la_run w_ab [98; 98; 98]%N = [3; 3; 2] /\
  la_walk w_ab 1 (la_start w_ab) [98; 98; 98; 98]%N = None /\
  la_can_match 1 (la_run w_ab [98; 98; 98]%N) = false /\ lev w_ab [98; 98; 98; 98]%N = 3.
Proof. vm_compute. repeat split; reflexivity. Qed.
