(* C14Hash.v — C14, phase 3: what exactly is asked of the hash.
   IgnoredLints stores DefaultHasher (SipHash-1-3, fixed zero keys) over the derived Hash of LintContext; the model
   takes `hash : ctx -> N` as ANY function.  "Only that lint" needs — and needs exactly — that the function does not
   collide on the contexts in play:
     ignored_iff          : on a universe where hash is injective, a lint is ignored after a history IFF its context is
                            the context of a lint of that history (hides and only in one statement);
     collision_hides      : conversely, ANY collision hash c1 = hash c2 between the contexts of two lints makes ignoring
                            the first hide the second — injectivity on the explored universe is not a convenience of the
                            proof, it is necessary.
   The harness monitors the hypothesis on the universe it explores: every context it meets is kept by stored hash, two
   different contexts with the same stored hash are counted and REPORTED (monitor `hash_injective_on: collisions`, with the
   pair as a sample) — a collision is a fact about SipHash, not a failure of the property. *)
Require Import Base Suggestion Ignore ListLemmas IgnoreProofs.

Lemma contexts_of_In ctxf hist cs : contexts_of ctxf hist cs ->
  forall c, In c cs <-> exists l d, In (l, d) hist /\ ctxf l d = Ok c.
Proof.
  intros H. induction H as [|[l0 d0] c0 h t H0 Ht IH]; intros c.
  - split; [intros []|intros [l [d [[] _]]]].
  - cbn [fst snd] in H0. cbn [In]. rewrite IH. split.
    + intros [<-|[l [d [Hin E]]]]; [exists l0, d0; auto|exists l, d; auto].
    + intros [l [d [[E|Hin] Ec]]].
      * inversion E. subst. left. congruence.
      * right. exists l, d. auto.
Qed.

Theorem ignored_iff (hash : ctx -> N) hist cs l d c s' :
  contexts_of context hist cs -> ignore_all context hash [] hist = Ok s' ->
  context l d = Ok c -> hash_injective_on hash (c :: cs) ->
  (is_ignored context hash s' l d = Ok true <-> In c cs).
Proof.
  intros Hcs Es Ec Hinj. rewrite (is_ignored_spec context hash _ _ _ _ Ec).
  pose proof (ignore_all_spec context hash _ _ _ Es (hash c)) as Spec.
  rewrite (contexts_of_In _ _ _ Hcs). split.
  - intros E. assert (ig_mem (hash c) s' = true) as Em by congruence.
    apply ig_mem_In in Em. apply Spec in Em. destruct Em as [[]|[l1 [d1 [c1 [Hin [Ec1 Eh]]]]]].
    assert (c1 = c) as ->.
    { apply Hinj; [right; apply (contexts_of_In _ _ _ Hcs); exists l1, d1; auto|left; reflexivity|exact Eh]. }
    exists l1, d1. auto.
  - intros [l1 [d1 [Hin Ec1]]]. f_equal. apply ig_mem_In. apply Spec. right. exists l1, d1, c. auto.
Qed.

Theorem collision_hides (hash : ctx -> N) l1 d1 l2 d2 c1 c2 s s1 :
  context l1 d1 = Ok c1 -> context l2 d2 = Ok c2 -> hash c1 = hash c2 ->
  ignore_lint context hash s l1 d1 = Ok s1 ->
  is_ignored context hash s1 l2 d2 = Ok true /\
  forall ls ls', remove_ignored context hash s1 ls d2 = Ok ls' -> ~ In l2 ls'.
Proof.
  intros E1 E2 Eh Ei. rewrite (ignore_lint_spec context hash _ _ _ _ E1) in Ei. injection Ei as <-.
  assert (ig_mem (hash c2) (ig_insert (hash c1) s) = true) as Em
    by (apply ig_mem_In, ig_insert_In; left; symmetry; exact Eh).
  split; [rewrite (is_ignored_spec context hash _ _ _ _ E2), Em; reflexivity|].
  intros ls ls' Er Hin.
  destruct (ig_insert (hash c1) s) as [|h0 s0] eqn:Es; [discriminate Em|].
  cbn [remove_ignored] in Er. apply (retain_spec context hash _ _ _ _ Er) in Hin.
  destruct Hin as [_ [c [Ec Em']]]. rewrite E2 in Ec. injection Ec as <-. congruence.
Qed.

(* non-vacuity: a hash that forgets the tokens collides on the two `recieve` lints of the regression witness, and
   hides the second one; the identity-like numbering used by the driver is injective on them *)
Require Import IgnoreWitness.
Example collision_example :
  exists c1 c2, context f13o_l1 f13o_d1 = Ok c1 /\ context f13o_l2 f13o_d1 = Ok c2 /\ c1 <> c2 /\
    (fun c : ctx => c_kind c) c1 = (fun c : ctx => c_kind c) c2.
Proof.
  pose proof f13o_differ as D.
  destruct (context f13o_l1 f13o_d1) as [c1|] eqn:E1; [|vm_compute in E1; discriminate].
  destruct (context f13o_l2 f13o_d1) as [c2|] eqn:E2; [|vm_compute in E2; discriminate].
  exists c1, c2. split; [reflexivity|]. split; [reflexivity|]. split; [congruence|].
  vm_compute in E1, E2. injection E1 as <-. injection E2 as <-. reflexivity.
Qed.
