(* EffectsChecked.v — the checkers of Model/Effects.v evaluated (vm_compute) on the tables GENERATED from /repo
   (Model/Tables_effects.v), and lifted to the Prop-level statements by the generic lemmas of EffectsProofs.v.
   Re-checked on every ./check C10: when Cargo.lock, a Cargo.toml, the audited table or a workspace source
   changes so that a checker answers false, the corresponding `reflexivity` fails and the obligation is broken. *)
Require Import Base EffectsBase Effects Tables_effects EffectsProofs.
From Coq Require Import String Ascii.
Open Scope string_scope.
Open Scope list_scope.

(* diagnostics for the build log (.work/C10/log.txt): what the checkers below object to — all empty when they pass *)
Eval vm_compute in
  (filter (fun c => negb (class_ok workspace_members crate_class c)) (reach_set lock_graph ship_roots)).
Eval vm_compute in
  (filter (fun s => (is_net_kind (s_kind s) && negb (site_mem s allowed_net_sites)) ||
                    (is_write_kind (s_kind s) && negb (site_mem s allowed_write_sites)) ||
                    (is_proc_kind (s_kind s) && negb (site_mem s allowed_proc_sites))) effect_sites).
Eval vm_compute in (default_address, is_loopback_literal default_address, config_paths_ok config_fields).

Lemma crates_checked : check_crates lock_graph crate_class workspace_members ship_roots = true.
Proof. vm_compute. reflexivity. Qed.

Lemma net_sites_checked : net_sites_only_listener effect_sites = true.
Proof. vm_compute. reflexivity. Qed.

Lemma write_sites_checked : write_sites_only_configured effect_sites = true.
Proof. vm_compute. reflexivity. Qed.

Lemma proc_sites_checked : proc_sites_only_open effect_sites = true.
Proof. vm_compute. reflexivity. Qed.

Lemma config_paths_checked : config_paths_ok config_fields = true.
Proof. vm_compute. reflexivity. Qed.

Lemma listener_checked : listener_ok effect_sites default_address default_address_definitions = true.
Proof. vm_compute. reflexivity. Qed.

(* ---- lifted ---- *)
Lemma no_client_crate : forall c, Reach lock_graph ship_roots c -> CrateOk workspace_members crate_class c.
Proof. exact (check_crates_sound _ _ _ _ crates_checked). Qed.

Lemma reachable_exact : forall c, Reach lock_graph ship_roots c <-> In c (reach_set lock_graph ship_roots).
Proof. exact (check_crates_reach_exact _ _ _ _ crates_checked). Qed.

Lemma net_sites : forall s, In s effect_sites -> is_net_kind (s_kind s) = true -> In s allowed_net_sites.
Proof. exact (sites_within_sound _ _ _ net_sites_checked). Qed.

Lemma write_sites :
  (forall s, In s effect_sites -> is_write_kind (s_kind s) = true -> In s allowed_write_sites) /\
  ConfigPathsOk config_fields.
Proof. split; [exact (sites_within_sound _ _ _ write_sites_checked) | exact (config_paths_ok_spec _ config_paths_checked)]. Qed.

Lemma proc_sites : forall s, In s effect_sites -> is_proc_kind (s_kind s) = true -> In s allowed_proc_sites.
Proof. exact (sites_within_sound _ _ _ proc_sites_checked). Qed.

Lemma open_only_on_command : forall s, In s effect_sites -> s_kind s = KProcess ->
  s_file s = "harper-ls/src/backend.rs" /\ s_fn s = "execute_command" /\ s_api s = "open::that" /\
  s_arg s = "&first" /\ s_arm s = "HarperOpen".
Proof.
  intros s Hin Hk. assert (Hp : is_proc_kind (s_kind s) = true) by (rewrite Hk; reflexivity).
  pose proof (proc_sites s Hin Hp) as H.
  cbn [allowed_proc_sites In] in H. destruct H as [H | [H | []]]; subst s.
  - cbn. repeat split; reflexivity.
  - cbn in Hk. discriminate Hk.
Qed.

Lemma listener_loopback : ListenerOk effect_sites default_address default_address_definitions.
Proof. exact (listener_ok_spec _ _ _ listener_checked). Qed.

(* ---- non-vacuity: the tables are not empty, the interesting rows exist ---- *)
Lemma reach_nontrivial :
  200 <= List.length (reach_set lock_graph ship_roots) /\
  (exists v, In ("tokio", v) (reach_set lock_graph ship_roots) /\ class_of crate_class ("tokio", v) = Some CNetRuntime) /\
  (exists v, In ("open", v) (reach_set lock_graph ship_roots) /\ class_of crate_class ("open", v) = Some CProcess).
Proof.
  split; [vm_compute; repeat constructor |].
  split.
  - destruct (find (fun c => String.eqb (fst c) "tokio") (reach_set lock_graph ship_roots)) as [[n v] |] eqn:E;
      [| vm_compute in E; discriminate E].
    pose proof (find_some _ _ E) as [Hin Hn]. cbn [fst] in Hn. apply String.eqb_eq in Hn. subst n.
    exists v. split; [exact Hin |]. vm_compute in E. inversion E; subst. vm_compute. reflexivity.
  - destruct (find (fun c => String.eqb (fst c) "open") (reach_set lock_graph ship_roots)) as [[n v] |] eqn:E;
      [| vm_compute in E; discriminate E].
    pose proof (find_some _ _ E) as [Hin Hn]. cbn [fst] in Hn. apply String.eqb_eq in Hn. subst n.
    exists v. split; [exact Hin |]. vm_compute in E. inversion E; subst. vm_compute. reflexivity.
Qed.

(* the net-client class is inhabited in the audited table, by a crate that only a [dev-dependencies] edge reaches:
   leaving those edges out is what keeps it away from the shipped crates *)
Lemma dev_only_client_not_shipped :
  exists c, In c (map snd dev_only_edges) /\ class_of crate_class c = Some CNetClient /\ ~ Reach lock_graph ship_roots c.
Proof.
  destruct (find (fun c => match class_of crate_class c with Some CNetClient => true | _ => false end)
                 (map snd dev_only_edges)) as [c |] eqn:E; [| vm_compute in E; discriminate E].
  pose proof (find_some _ _ E) as [Hin Hc]. exists c. split; [exact Hin |].
  split; [destruct (class_of crate_class c) as [[] |]; try discriminate Hc; reflexivity |].
  intros Hr. apply reachable_exact in Hr. apply pmem_In in Hr.
  vm_compute in E. inversion E; subst c. vm_compute in Hr. discriminate Hr.
Qed.

Lemma sites_nontrivial :
  List.length (filter (fun s => is_net_kind (s_kind s)) effect_sites) = 3 /\
  4 <= List.length (filter (fun s => is_write_kind (s_kind s)) effect_sites) /\
  5 <= List.length (filter (fun s => skind_eqb (s_kind s) KLocal) effect_sites) /\
  In (mksite "harper-ls/src/dictionary_io.rs" "save_dict" KLocal "tmp_name.push" """.tmp""" "" "") effect_sites /\
  List.length (filter (fun s => skind_eqb (s_kind s) KProcess) effect_sites) = 1 /\
  100 <= scanned_files.
Proof.
  split; [vm_compute; reflexivity |]. split; [vm_compute; repeat constructor |]. split; [vm_compute; repeat constructor |].
  split; [apply site_mem_In; vm_compute; reflexivity |]. split; [vm_compute; reflexivity | vm_compute; repeat constructor].
Qed.
