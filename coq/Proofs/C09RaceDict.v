(* C09RaceDict.v — C09, the FIFTH flag of race_shape (Model/C09Race.v): `a dictionary file of u is changed after the handler of
   the last effective critical section read it` is SOUND for arbitrary histories and every schedule (invariant DInv on top of
   RInv of C09RaceGen.v): the dictionary files only grow in length, a changing write makes its file strictly longer, every
   handler between its dictionary read and its critical section holds a snapshot no longer than the file and strictly
   shorter once a changing write has followed the read; the entry of u carries the snapshot of the handler of its last
   effective critical section. *)
Require Import Base Server ServerLemmas ServerProofs ServerSeq ServerConc C09DictLock C09Batch C09BatchProofs C09Seq C09Race C09RaceProofs C09RaceGen.

(* ---------- the trace side: the flag, event by event ---------- *)
Lemma after_last_snoc : forall p l x, after_last p (l ++ [x]) = if p x then [] else after_last p l ++ [x].
Proof.
  intros p. induction l as [|a l IH]; intro x; cbn [app after_last existsb].
  - destruct (p x); reflexivity.
  - rewrite existsb_app, IH. cbn [existsb]. rewrite orb_false_r.
    destruct (p x); destruct (existsb p l); destruct (p a); reflexivity.
Qed.

Lemma split_last_none : forall p tr pre best, existsb p tr = false -> split_last p pre tr best = best.
Proof.
  intros p. induction tr as [|e tr IH]; intros pre best H; cbn [split_last existsb] in *; [reflexivity|].
  apply orb_false_iff in H as [H1 H2]. rewrite H1. apply IH, H2.
Qed.

Lemma split_last_found : forall p a e b pre best, p e = true -> existsb p b = false ->
  split_last p pre (a ++ e :: b) best = Some (rev pre ++ a, e, b).
Proof.
  intros p. induction a as [|x a IH]; intros e b pre best He Hb; cbn [app split_last].
  - rewrite He, (split_last_none p b _ _ Hb), app_nil_r. reflexivity.
  - rewrite (IH e b _ _ He Hb). cbn [rev]. rewrite <- app_assoc. reflexivity.
Qed.

Lemma split_last_spec : forall p tr,
  (existsb p tr = false /\ split_last p [] tr None = None) \/
  (exists a e b, tr = a ++ e :: b /\ p e = true /\ existsb p b = false /\ split_last p [] tr None = Some (a, e, b)).
Proof.
  intros p tr. induction tr as [|x tr IH] using rev_ind.
  - left. split; reflexivity.
  - destruct (p x) eqn:Px.
    + right. exists tr, x, []. repeat split; [exact Px|].
      exact (split_last_found p tr x [] [] None Px eq_refl).
    + destruct IH as [[N E]|(a & e & b & -> & Pe & Nb & E)].
      * left. assert (N' : existsb p (tr ++ [x]) = false) by (rewrite existsb_app, N; cbn; rewrite Px; reflexivity).
        split; [exact N'|apply split_last_none, N'].
      * right. exists a, e, (b ++ [x]).
        assert (Nb' : existsb p (b ++ [x]) = false) by (rewrite existsb_app, Nb; cbn; rewrite Px; reflexivity).
        rewrite <- app_assoc, <- app_comm_cons. repeat split; [exact Pe|exact Nb'|].
        exact (split_last_found p a e (b ++ [x]) [] None Pe Nb').
Qed.

Section Chan.
  Variable rd : nat -> xevent -> bool.
  Variable ch : xevent -> bool.
  (* a changing write follows the last read of handler id (the start, if it has not read) *)
  Definition dirty (id : nat) (tr : list xevent) : bool := existsb ch (after_last (rd id) tr).
  (* one half of rf_dict *)
  Definition ddirty (u : url) (tr : list xevent) : bool :=
    match split_last (eff_upd u) [] tr None with
    | Some (pre, XUpd id _ _ _ _ _, post) => existsb ch (after_last (rd id) pre ++ post)
    | _ => existsb ch tr
    end.

  Lemma dirty_snoc : forall id tr x, dirty id (tr ++ [x]) = if rd id x then false else dirty id tr || ch x.
  Proof.
    intros id tr x. unfold dirty. rewrite after_last_snoc. destruct (rd id x); [reflexivity|].
    rewrite existsb_app. cbn [existsb]. rewrite orb_false_r. reflexivity.
  Qed.

  Lemma ddirty_snoc_upd : forall u tr id u' t eff snap reb, eff_upd u (XUpd id u' t eff snap reb) = true ->
    ddirty u (tr ++ [XUpd id u' t eff snap reb]) = dirty id tr.
  Proof.
    intros u tr id u' t eff snap reb H. unfold ddirty, dirty.
    rewrite (split_last_found (eff_upd u) tr _ [] [] None H eq_refl). cbn [rev app]. rewrite app_nil_r. reflexivity.
  Qed.

  Lemma ddirty_snoc_other : forall u tr x, eff_upd u x = false -> ddirty u (tr ++ [x]) = ddirty u tr || ch x.
  Proof.
    intros u tr x H. unfold ddirty.
    destruct (split_last_spec (eff_upd u) tr) as [[N E]|(a & e & b & -> & Pe & Nb & E)].
    - rewrite E. rewrite split_last_none by (rewrite existsb_app, N; cbn; rewrite H; reflexivity).
      rewrite existsb_app. cbn [existsb]. rewrite orb_false_r. reflexivity.
    - rewrite E. rewrite <- app_assoc, <- app_comm_cons.
      rewrite (split_last_found (eff_upd u) a e (b ++ [x]) [] None Pe) by (rewrite existsb_app, Nb; cbn; rewrite H; reflexivity).
      cbn [rev app]. destruct e; try discriminate Pe.
      rewrite app_assoc, existsb_app. cbn [existsb]. rewrite orb_false_r. reflexivity.
  Qed.

  Lemma dirty_nil : forall id, dirty id [] = false.
  Proof. reflexivity. Qed.
  Lemma ddirty_nil : forall u, ddirty u [] = false.
  Proof. reflexivity. Qed.
End Chan.

Definition dirtyU := dirty is_readU chg_writeU.
Definition dirtyF (u : url) := dirty is_readF (chg_writeF u).
Definition ddU := ddirty is_readU chg_writeU.
Definition ddF (u : url) := ddirty is_readF (chg_writeF u) u.

Lemma rf_dict_dd : forall w0 wf u tr, rf_dict (race_shape w0 wf u tr) = ddU u tr || ddF u tr.
Proof.
  intros w0 wf u tr. unfold race_shape, ddU, ddF, ddirty. cbn [rf_dict].
  destruct (split_last (eff_upd u) [] tr None) as [[[pre e] post]|]; [destruct e|]; reflexivity.
Qed.

(* ---------- the program side ---------- *)
(* no critical section is reached before the next read of the user / file dictionary *)
Fixpoint safeU (p : list instr) : bool :=
  match p with [] => true | IReadUD :: _ => true | IUpdate :: _ => false | _ :: r => safeU r end.
Fixpoint safeF (p : list instr) : bool :=
  match p with [] => true | IReadFD :: _ => true | IUpdate :: _ => false | _ :: r => safeF r end.
Definition dhead (p : list instr) : bool := match p with i :: _ => dict_instr i | [] => false end.
(* an add-word command between its load and its save re-reads the dictionaries before any critical section *)
Definition dshape (p : list instr) : bool := if dhead p then safeU p && safeF p else true.

Definition nU (w : world) : nat := length (w_udict w).
Definition nF (u : url) (w : world) : nat := length (fdict_of w u).

Definition evs_of (id : nat) (i : instr) (l : locals) (w : world) : list xevent :=
  match i with
  | IReadUD => [XReadU id]
  | IReadFD => [XReadF id]
  | IWriteUD => [XWriteU (negb (list_eqb (add_word (l_word l) (l_ud l)) (w_udict w)))]
  | IWriteFD => [XWriteF (l_url l) (negb (list_eqb (add_word (l_word l) (l_fd l)) (fdict_of w (l_url l))))]
  | IUpdate => match l_text l with
               | Some t => [XUpd id (l_url l) t (upd_eff l w) (l_snap l) (upd_reb l w)]
               | None => []
               end
  | ICfgRebuild _ => [XRebuild (s_cfg w) (keys (s_docs w))]
  | IPublish => [XPub (l_url l) (s_cfg w)]
  | _ => []
  end.

Lemma xevents_evs : forall id y hs i p, find_h id (y_flight y) = Some hs -> h_prog hs = i :: p ->
  xevents (CRun id) y = evs_of id i (h_loc hs) (y_world y).
Proof. intros id y hs i p Hf Hp. unfold xevents. rewrite Hf, Hp. destruct i; reflexivity. Qed.

Lemma clean_dshape : forall p, clean p = true -> dshape p = true.
Proof.
  intros [|i p] H; [reflexivity|]. unfold dshape, dhead. cbn [clean forallb] in H.
  apply andb_true_iff in H as [H _]. apply negb_true_iff in H. rewrite H. reflexivity.
Qed.

Lemma add_word_len : forall x l,
  length l <= length (add_word x l) /\ (list_eqb (add_word x l) l = false -> length l < length (add_word x l)).
Proof.
  intros x l. unfold add_word. destruct (existsb (Nat.eqb x) l).
  - split; [lia|]. rewrite list_eqb_refl. discriminate.
  - rewrite app_length. cbn [length]. split; intros; lia.
Qed.

(* the dictionary files only grow in length; a changing write makes its file strictly longer *)
Lemma exec_measure : forall u id i p l w push l' w',
  exec i l w = Some (push, l', w') ->
  (holdsU (i :: p) = true -> l_ud l = w_udict w) ->
  (holdsF (i :: p) = true -> l_fd l = fdict_of w (l_url l) /\ is_file (l_url l) = true) ->
  nU w <= nU w' /\ (existsb chg_writeU (evs_of id i l w) = true -> nU w < nU w') /\
  nF u w <= nF u w' /\ (existsb (chg_writeF u) (evs_of id i l w) = true -> nF u w < nF u w').
Proof.
  intros u id i p l w push l' w' H HU HF. destruct (dict_instr i) eqn:Ed.
  - destruct i; try discriminate Ed; cbn [exec] in H.
    + destruct (s_dlock w); [discriminate|]. inversion H; subst. unfold nU, nF, fdict_of. cbn. repeat split; try lia; discriminate.
    + inversion H; subst. unfold nU, nF, fdict_of. cbn. repeat split; try lia; discriminate.
    + inversion H; subst; clear H. specialize (HU eq_refl). unfold nU, nF, fdict_of. cbn. rewrite HU.
      destruct (add_word_len (l_word l') (w_udict w)) as [A B].
      repeat split; try lia; try discriminate. rewrite orb_false_r. intro X. apply negb_true_iff in X. exact (B X).
    + destruct (s_dlock w); [discriminate|]. destruct (is_file (l_url l)); inversion H; subst; unfold nU, nF, fdict_of; cbn; repeat split; try lia; discriminate.
    + inversion H; subst. unfold nU, nF, fdict_of. cbn. repeat split; try lia; discriminate.
    + inversion H; subst; clear H. destruct (HF eq_refl) as [Efd Efile]. unfold nU, nF.
      rewrite (fdict_of_upsert w (l_url l') u _ Efile). cbn [w_udict set_dlock set_fdict evs_of existsb chg_writeF].
      rewrite Efd. destruct (add_word_len (l_word l') (fdict_of w (l_url l'))) as [A B].
      destruct (url_eqb u (l_url l')) eqn:E.
      * apply url_eqb_eq in E. subst u. rewrite url_eqb_refl. cbn [andb]. rewrite ?orb_false_r.
        repeat split; try lia; try discriminate. intro X. rewrite ?orb_false_r in X. apply negb_true_iff in X. exact (B X).
      * rewrite url_eqb_sym, E. cbn. repeat split; try lia; discriminate.
  - destruct (exec_nondict _ _ _ _ _ _ Ed H) as (Eu & Efd & _). unfold nU, nF. rewrite Eu, (fdict_of_same _ _ u Efd).
    assert (X : existsb chg_writeU (evs_of id i l w) = false /\ existsb (chg_writeF u) (evs_of id i l w) = false).
    { destruct i; try discriminate Ed; cbn; try (split; reflexivity). destruct (l_text l); split; reflexivity. }
    destruct X as [X1 X2]. rewrite X1, X2. repeat split; try lia; discriminate.
Qed.

Lemma safeU_clean_push : forall push p, existsb (fun i => match i with IReadUD | IUpdate => true | _ => false end) push = false ->
  safeU (push ++ p) = safeU p.
Proof.
  induction push as [|i push IH]; intros p H; [reflexivity|]. cbn [existsb] in H. apply orb_false_iff in H as [H1 H2].
  cbn [app]. destruct i; try discriminate H1; cbn [safeU]; apply IH, H2.
Qed.
Lemma safeF_clean_push : forall push p, existsb (fun i => match i with IReadFD | IUpdate => true | _ => false end) push = false ->
  safeF (push ++ p) = safeF p.
Proof.
  induction push as [|i push IH]; intros p H; [reflexivity|]. cbn [existsb] in H. apply orb_false_iff in H as [H1 H2].
  cbn [app]. destruct i; try discriminate H1; cbn [safeF]; apply IH, H2.
Qed.

(* one instr of a handler: the program keeps dshape; if a critical section is ahead with no read before it, either the
   handler has just read (its snapshot is the file) or it was in that position before and keeps its snapshot and url *)
Lemma exec_snap : forall i p l w push l' w',
  exec i l w = Some (push, l', w') -> shape (i :: p) = true -> wfprog (i :: p) = true -> dshape (i :: p) = true ->
  dshape (push ++ p) = true /\
  (safeU (push ++ p) = false ->
     (i = IReadUD /\ l_ud l' = w_udict w') \/ (i <> IReadUD /\ safeU (i :: p) = false /\ l_ud l' = l_ud l)) /\
  (safeF (push ++ p) = false ->
     (i = IReadFD /\ l_fd l' = fdict_of w' (l_url l')) \/
     (i <> IReadFD /\ safeF (i :: p) = false /\ l_fd l' = l_fd l /\ l_url l' = l_url l)).
Proof.
  intros i p l w push l' w' H S Wf Ds. destruct (dict_instr i) eqn:Ed.
  - assert (X : safeU (push ++ p) = true /\ safeF (push ++ p) = true).
    { unfold dshape, dhead in Ds. rewrite Ed in Ds. apply andb_true_iff in Ds as [D1 D2].
      destruct i; try discriminate Ed; exec_cases H; cbn [app safeU safeF] in *; split; assumption. }
    destruct X as [X1 X2]. rewrite X1, X2. split; [|split; discriminate].
    unfold dshape. rewrite X1, X2. destruct (dhead (push ++ p)); reflexivity.
  - destruct (exec_nondict _ _ _ _ _ _ Ed H) as (_ & _ & _ & Cp & _).
    assert (Cl : clean p = true).
    { destruct i; try discriminate Ed; cbn [wfprog clean forallb dict_instr negb andb] in Wf; exact Wf. }
    split; [apply clean_dshape; rewrite clean_app, Cp, Cl; reflexivity|].
    destruct i; try discriminate Ed; try discriminate S.
    all: exec_cases H.
    all: cbn [app safeU safeF l_ud l_fd l_url lset_url lset_text lset_lang lset_ans lset_snap lset_ud lset_fd lset_word lset_queue lset_ver update_seq w_udict].
    all: split; intro X; try discriminate X.
    all: try (right; repeat split; try discriminate; try reflexivity; exact X).
    all: try (left; split; reflexivity).
    all: cbn [shape] in S; destruct p; [discriminate X|discriminate S].
Qed.

(* ---------- the critical section: the dictionaries of the entry it leaves ---------- *)
Lemma iupdate_entry_dict : forall l w push l' w' e',
  exec IUpdate l w = Some (push, l', w') -> updf l w = true -> notcode (l_lang l) = true -> nocode_docs (s_docs w) ->
  (forall e, lookup (l_url l) (s_docs w) = Some e -> e_base e = e_dict e) ->
  lookup (l_url l) (s_docs w') = Some e' ->
  e_dict e' = mkdict (l_ud l) (l_fd l) 0 /\ e_base e' = e_dict e'.
Proof.
  intros l w push l' w' e' H F Nl Nd B L'. cbn [exec] in H. unfold updf, upd_eff, upd_entry0 in F.
  destruct (s_lock w); [discriminate|].
  destruct (l_text l) as [t|]; [|discriminate F].
  set (d := mkdict (l_ud l) (l_fd l) 0) in *.
  set (e0 := match lookup (l_url l) (s_docs w) with Some e => e | None => new_entry (l_lang l) d (l_snap l) end) in *.
  assert (B0 : e_base e0 = e_dict e0).
  { unfold e0. destruct (lookup (l_url l) (s_docs w)) as [e|] eqn:L; [apply B; reflexivity|reflexivity]. }
  assert (N0 : notcode (e_lang e0) = true).
  { unfold e0. destruct (lookup (l_url l) (s_docs w)) as [e|] eqn:L; [exact (nocode_lookup _ _ _ Nd L)|exact Nl]. }
  destruct (stale (l_ver l) (e_ver e0)); [discriminate F|]. cbn [negb andb] in F.
  set (e2 := rebase d (l_snap l) (bump (l_ver l) e0)) in *.
  assert (D2 : e_dict e2 = d /\ e_base e2 = d).
  { unfold e2, rebase.
    assert (Bb : e_base (bump (l_ver l) e0) = e_base e0) by (unfold bump; destruct (l_ver l); reflexivity).
    assert (Db : e_dict (bump (l_ver l) e0) = e_dict e0) by (unfold bump; destruct (l_ver l); reflexivity).
    destruct (dictv_eqb (e_base (bump (l_ver l) e0)) d) eqn:E; [|split; reflexivity].
    apply dictv_eqb_eq in E. rewrite Db, <- B0, <- Bb. split; exact E. }
  assert (L2 : e_lang e2 = e_lang e0) by apply lang_rebase_bump.
  rewrite L2 in H. destruct (e_lang e0) as [lg|] eqn:El; [|discriminate F].
  unfold sq_has_parser in F. destruct (kind lg) eqn:K; try discriminate F.
  - inversion H; subst. cbn [s_docs set_docs] in L'. rewrite lookup_upsert, url_eqb_refl in L'. inversion L'; subst e'.
    cbn [e_dict e_base e_set_doc]. destruct D2 as [D2a D2b]. rewrite D2a, D2b. split; reflexivity.
  - destruct lg; cbn in K; try discriminate K. discriminate N0.
Qed.

Lemma exec_ddoc : forall u i p l w push l' w',
  exec i l w = Some (push, l', w') -> shape (i :: p) = true -> notcode (l_lang l) = true -> nocode_docs (s_docs w) ->
  (forall e, lookup u (s_docs w) = Some e -> e_base e = e_dict e) ->
  forall e', lookup u (s_docs w') = Some e' ->
    e_base e' = e_dict e' /\
    (if upd_flag u i l w then e_dict e' = mkdict (l_ud l) (l_fd l) 0
     else exists e, lookup u (s_docs w) = Some e /\ e_dict e' = e_dict e).
Proof.
  intros u i p l w push l' w' H S Nl Nd B e' L'.
  destruct i; try discriminate S.
  all: try match type of H with exec IUpdate _ _ = _ =>
      destruct (iupdate_cases _ _ _ _ _ H Nl Nd) as (_ & _ & C); cbn [upd_flag];
      destruct C as [[-> F]|[[-> F]|(t & e & Et & F & Ew & _)]]; rewrite F;
      [rewrite andb_false_r; split; [exact (B e' L')|exists e'; split; [exact L'|reflexivity]]
      |rewrite andb_false_r; cbn [s_docs set_docs] in L'; rewrite lookup_remove in L';
       destruct (url_eqb u (l_url l)); [discriminate L'|split; [exact (B e' L')|exists e'; split; [exact L'|reflexivity]]]
      |rewrite andb_true_r; destruct (url_eqb (l_url l) u) eqn:E;
       [apply url_eqb_eq in E; subst u;
        destruct (iupdate_entry_dict _ _ _ _ _ e' H F Nl Nd B L') as [D1 D2]; split; [exact D2|exact D1]
       |rewrite Ew in L'; cbn [s_docs set_docs] in L'; rewrite lookup_upsert, url_eqb_sym, E in L';
        split; [exact (B e' L')|exists e'; split; [exact L'|reflexivity]]]] end.
  all: cbn [upd_flag]; exec_cases H.
  all: try (split; [exact (B e' L')|exists e'; split; [exact L'|reflexivity]]).
  - (* IIgnore *)
    cbn [s_docs set_docs] in L'. rewrite lookup_upsert in L'. destruct (url_eqb u (l_url l')) eqn:E.
    + apply url_eqb_eq in E. subst u. inversion L'; subst. cbn [e_base e_dict e_add_ign].
      split; [apply B; assumption|exists e; split; [assumption|reflexivity]].
    + split; [exact (B e' L')|exists e'; split; [exact L'|reflexivity]].
  - (* IClose *)
    cbn in L'. rewrite lookup_remove in L'. destruct (url_eqb u (l_url l')); [discriminate L'|].
    split; [exact (B e' L')|exists e'; split; [exact L'|reflexivity]].
  - (* ICfgRebuild *)
    cbn in L'. rewrite lookup_map_val in L'. destruct (lookup u (s_docs w)) as [e0|] eqn:Lu; [|discriminate L'].
    inversion L'; subst. cbn [e_base e_dict e_set_lcfg]. split; [apply B; reflexivity|exists e0; split; reflexivity].
Qed.

(* ---------- the events of one instr and the flag ---------- *)
Lemma evs_dirtyU_read : forall id l w tr, dirtyU id (tr ++ evs_of id IReadUD l w) = false.
Proof. intros. unfold dirtyU. cbn [evs_of]. rewrite dirty_snoc. cbn [is_readU]. rewrite Nat.eqb_refl. reflexivity. Qed.
Lemma evs_dirtyF_read : forall u id l w tr, dirtyF u id (tr ++ evs_of id IReadFD l w) = false.
Proof. intros. unfold dirtyF. cbn [evs_of]. rewrite dirty_snoc. cbn [is_readF]. rewrite Nat.eqb_refl. reflexivity. Qed.

Lemma evs_dirtyU : forall id j i l w tr, (i <> IReadUD \/ j <> id) ->
  dirtyU j (tr ++ evs_of id i l w) = dirtyU j tr || existsb chg_writeU (evs_of id i l w).
Proof.
  intros id j i l w tr H. unfold dirtyU.
  destruct i; cbn [evs_of]; try destruct (l_text l);
    try (rewrite app_nil_r; cbn [existsb]; rewrite orb_false_r; reflexivity);
    try (rewrite dirty_snoc; cbn [is_readU existsb chg_writeU]; rewrite ?orb_false_r; reflexivity).
  all: rewrite dirty_snoc; cbn [is_readU existsb chg_writeU]; rewrite ?orb_false_r.
  all: destruct (id =? j) eqn:E; [|reflexivity]; apply Nat.eqb_eq in E; destruct H as [H|H]; [congruence|subst; congruence].
Qed.
Lemma evs_dirtyF : forall u id j i l w tr, (i <> IReadFD \/ j <> id) ->
  dirtyF u j (tr ++ evs_of id i l w) = dirtyF u j tr || existsb (chg_writeF u) (evs_of id i l w).
Proof.
  intros u id j i l w tr H. unfold dirtyF.
  destruct i; cbn [evs_of]; try destruct (l_text l);
    try (rewrite app_nil_r; cbn [existsb]; rewrite orb_false_r; reflexivity);
    try (rewrite dirty_snoc; cbn [is_readF existsb chg_writeF]; rewrite ?orb_false_r; reflexivity).
  all: rewrite dirty_snoc; cbn [is_readF existsb chg_writeF]; rewrite ?orb_false_r.
  all: destruct (id =? j) eqn:E; [|reflexivity]; apply Nat.eqb_eq in E; destruct H as [H|H]; [congruence|subst; congruence].
Qed.

Lemma evs_ddU : forall u id i l w tr,
  ddU u (tr ++ evs_of id i l w) = if upd_flag u i l w then dirtyU id tr else ddU u tr || existsb chg_writeU (evs_of id i l w).
Proof.
  intros u id i l w tr. unfold ddU, dirtyU.
  destruct i; cbn [evs_of upd_flag];
    try (rewrite app_nil_r; cbn [existsb]; rewrite orb_false_r; reflexivity);
    try (rewrite ddirty_snoc_other by reflexivity; cbn [existsb]; rewrite ?orb_false_r; reflexivity).
  unfold updf. destruct (l_text l) as [t|].
  - destruct (url_eqb (l_url l) u && upd_eff l w) eqn:E.
    + apply ddirty_snoc_upd. exact E.
    + rewrite ddirty_snoc_other by exact E. cbn [existsb]. rewrite ?orb_false_r. reflexivity.
  - rewrite andb_false_r, app_nil_r. cbn [existsb]. rewrite orb_false_r. reflexivity.
Qed.
Lemma evs_ddF : forall u id i l w tr,
  ddF u (tr ++ evs_of id i l w) = if upd_flag u i l w then dirtyF u id tr else ddF u tr || existsb (chg_writeF u) (evs_of id i l w).
Proof.
  intros u id i l w tr. unfold ddF, dirtyF.
  destruct i; cbn [evs_of upd_flag];
    try (rewrite app_nil_r; cbn [existsb]; rewrite orb_false_r; reflexivity);
    try (rewrite ddirty_snoc_other by reflexivity; cbn [existsb]; rewrite ?orb_false_r; reflexivity).
  unfold updf. destruct (l_text l) as [t|].
  - destruct (url_eqb (l_url l) u && upd_eff l w) eqn:E.
    + apply ddirty_snoc_upd. exact E.
    + rewrite ddirty_snoc_other by exact E. cbn [existsb]. rewrite ?orb_false_r. reflexivity.
  - rewrite andb_false_r, app_nil_r. cbn [existsb]. rewrite orb_false_r. reflexivity.
Qed.

Lemma grow : forall a n n' d c, a <= n -> (d = true -> a < n) -> n <= n' -> (c = true -> n < n') ->
  a <= n' /\ (d || c = true -> a < n').
Proof.
  intros a n n' d c H0 H1 H2 H3. split; [lia|]. intro X. apply orb_true_iff in X as [X|X]; [specialize (H1 X)|specialize (H3 X)]; lia.
Qed.

(* ---------- the invariant ---------- *)
Definition hokU (tr : list xevent) (w : world) (hs : hstate) : Prop :=
  safeU (h_prog hs) = false ->
  length (l_ud (h_loc hs)) <= nU w /\ (dirtyU (h_id hs) tr = true -> length (l_ud (h_loc hs)) < nU w).
Definition hokF (u : url) (tr : list xevent) (w : world) (hs : hstate) : Prop :=
  safeF (h_prog hs) = false -> l_url (h_loc hs) = u ->
  length (l_fd (h_loc hs)) <= nF u w /\ (dirtyF u (h_id hs) tr = true -> length (l_fd (h_loc hs)) < nF u w).
Definition dok (u : url) (tr : list xevent) (w : world) (e : entry) : Prop :=
  e_base e = e_dict e /\
  (length (dv_user (e_dict e)) <= nU w /\ (ddU u tr = true -> length (dv_user (e_dict e)) < nU w)) /\
  (length (dv_file (e_dict e)) <= nF u w /\ (ddF u tr = true -> length (dv_file (e_dict e)) < nF u w)).

Record DInv (u : url) (tr : list xevent) (y : sys) : Prop := mkDInv {
  di_ds : forall hs, In hs (y_flight y) -> dshape (h_prog hs) = true;
  di_hU : forall hs, In hs (y_flight y) -> hokU tr (y_world y) hs;
  di_hF : forall hs, In hs (y_flight y) -> hokF u tr (y_world y) hs;
  di_doc : forall e, lookup u (s_docs (y_world y)) = Some e -> dok u tr (y_world y) e
}.

Lemma prog_dshape : forall o, dshape (prog o) = true /\ safeU (prog o) = true /\ safeF (prog o) = true.
Proof. intro o. destruct o; repeat split; reflexivity. Qed.

Lemma dinv_step : forall u w0 tr c y y', RInv u w0 tr y -> DInv u tr y -> step c y = Some y' ->
  DInv u (tr ++ xevents c y) y'.
Proof.
  intros u w0 tr c y y' R I H. pose proof (ri_l _ _ _ _ R) as L.
  destruct c as [|id].
  - (* CAdmit *)
    cbn [xevents]. rewrite app_nil_r. cbn [step] in H. destruct (y_todo y) as [|o rest] eqn:T; [discriminate|].
    destruct (length (y_flight y) <? max_in_flight); [|discriminate]. inversion H; subst y'; clear H.
    destruct (client_effect_server o (y_world y)) as [Ed _].
    destruct (client_effect_dict o (y_world y)) as (Eu & Ef & _).
    assert (NU : nU (client_effect o (y_world y)) = nU (y_world y)) by (unfold nU; rewrite Eu; reflexivity).
    assert (NF : nF u (client_effect o (y_world y)) = nF u (y_world y)) by (unfold nF; rewrite (fdict_of_same _ _ u Ef); reflexivity).
    destruct (prog_dshape o) as (P1 & P2 & P3).
    constructor; cbn [y_world y_flight].
    + intros hs Hin. apply in_app_or in Hin as [Hin|[<-|[]]]; [exact (di_ds _ _ _ I hs Hin)|exact P1].
    + intros hs Hin. unfold hokU. rewrite NU. apply in_app_or in Hin as [Hin|[<-|[]]]; [exact (di_hU _ _ _ I hs Hin)|].
      cbn [h_prog]. rewrite P2. discriminate.
    + intros hs Hin. unfold hokF. rewrite NF. apply in_app_or in Hin as [Hin|[<-|[]]]; [exact (di_hF _ _ _ I hs Hin)|].
      cbn [h_prog]. rewrite P3. discriminate.
    + intros e Le. rewrite Ed in Le. unfold dok. rewrite NU, NF. exact (di_doc _ _ _ I e Le).
  - (* a handler runs *)
    cbn [step] in H.
    destruct (find_h id (y_flight y)) as [hs|] eqn:Hf; [|discriminate].
    destruct (h_prog hs) as [|i p] eqn:Hp; [discriminate|].
    destruct (exec i (h_loc hs) (y_world y)) as [[[push l'] w']|] eqn:He; [|discriminate].
    inversion H; subst y'; clear H.
    rewrite (xevents_evs id y hs i p Hf Hp).
    destruct (find_h_In _ _ _ Hf) as [Hin Hi].
    destruct (ri_hs _ _ _ _ R hs Hin) as [Sh Nl]. rewrite Hp in Sh.
    pose proof (ri_docs _ _ _ _ R) as Nd.
    pose proof (li_wf y L hs Hin) as Wf. rewrite Hp in Wf.
    pose proof (li_ok y L hs Hin) as Ok. unfold held_ok in Ok. rewrite Hp in Ok. destruct Ok as [OkU OkF].
    pose proof (di_ds _ _ _ I hs Hin) as Ds. rewrite Hp in Ds.
    pose proof (li_ids y L) as ND.
    destruct (exec_measure u id i p _ _ _ _ _ He OkU OkF) as (MU1 & MU2 & MF1 & MF2).
    destruct (exec_snap i p _ _ _ _ _ He Sh Wf Ds) as (Ds' & SU & SF).
    pose proof (di_hU _ _ _ I hs Hin) as HU. unfold hokU in HU. rewrite Hp, Hi in HU.
    pose proof (di_hF _ _ _ I hs Hin) as HF. unfold hokF in HF. rewrite Hp, Hi in HF.
    constructor; cbn [y_world y_flight].
    + intros a Ha. destruct (replace_h_In _ _ ND a Ha) as [(-> & _ & _)|(A & _)]; [exact Ds'|exact (di_ds _ _ _ I a A)].
    + intros a Ha. unfold hokU. destruct (replace_h_In _ _ ND a Ha) as [(-> & _ & _)|(A & Ne)]; cbn [h_id h_prog h_loc] in *.
      * intro Sf. destruct (SU Sf) as [[-> E]|(Ne & Sold & E)].
        -- rewrite E, evs_dirtyU_read. split; [unfold nU; lia|discriminate].
        -- rewrite E, (evs_dirtyU id id i _ _ tr (or_introl Ne)). destruct (HU Sold) as [Le Lt]. exact (grow _ _ _ _ _ Le Lt MU1 MU2).
      * intro Sf. rewrite (evs_dirtyU id (h_id a) i _ _ tr (or_intror Ne)).
        destruct (di_hU _ _ _ I a A Sf) as [Le Lt]. exact (grow _ _ _ _ _ Le Lt MU1 MU2).
    + intros a Ha. unfold hokF. destruct (replace_h_In _ _ ND a Ha) as [(-> & _ & _)|(A & Ne)]; cbn [h_id h_prog h_loc] in *.
      * intros Sf Eu. destruct (SF Sf) as [[-> E]|(Ne & Sold & E & Eurl)].
        -- rewrite E, Eu, evs_dirtyF_read. split; [unfold nF; lia|discriminate].
        -- rewrite E, (evs_dirtyF u id id i _ _ tr (or_introl Ne)). rewrite Eurl in Eu. destruct (HF Sold Eu) as [Le Lt].
           exact (grow _ _ _ _ _ Le Lt MF1 MF2).
      * intros Sf Eu. rewrite (evs_dirtyF u id (h_id a) i _ _ tr (or_intror Ne)).
        destruct (di_hF _ _ _ I a A Sf Eu) as [Le Lt]. exact (grow _ _ _ _ _ Le Lt MF1 MF2).
    + intros e' Le'.
      assert (B : forall e, lookup u (s_docs (y_world y)) = Some e -> e_base e = e_dict e)
        by (intros e Le; exact (proj1 (di_doc _ _ _ I e Le))).
      destruct (exec_ddoc u _ _ _ _ _ _ _ He Sh Nl Nd B e' Le') as [B' X].
      unfold dok. rewrite evs_ddU, evs_ddF. split; [exact B'|].
      destruct (upd_flag u i (h_loc hs) (y_world y)) eqn:Uf.
      * assert (Ei : i = IUpdate) by (destruct i; try discriminate Uf; reflexivity). subst i.
        cbn [upd_flag] in Uf. apply andb_true_iff in Uf as [Eu _]. apply url_eqb_eq in Eu.
        rewrite X. cbn [dv_user dv_file].
        destruct (HU eq_refl) as [LeU LtU]. destruct (HF eq_refl Eu) as [LeF LtF].
        split; (split; [lia|intro D; try specialize (LtU D); try specialize (LtF D); lia]).
      * destruct X as (e & Le & ->). destruct (di_doc _ _ _ I e Le) as (_ & [LeU LtU] & [LeF LtF]).
        split; [exact (grow _ _ _ _ _ LeU LtU MU1 MU2)|exact (grow _ _ _ _ _ LeF LtF MF1 MF2)].
Qed.

Lemma dinv_run : forall u w0 cs tr y y', RInv u w0 tr y -> DInv u tr y -> run cs y = Some y' ->
  DInv u (tr ++ xtrace cs y) y'.
Proof.
  intros u w0. induction cs as [|c cs IH]; intros tr y y' R I H; cbn [run xtrace] in *.
  - inversion H; subst. rewrite app_nil_r. exact I.
  - destruct (step c y) as [y1|] eqn:S; [|discriminate]. rewrite app_assoc. apply (IH _ y1 y'); [| |exact H].
    + exact (rinv_step u w0 tr c y y1 R S).
    + exact (dinv_step u w0 tr c y y1 R I S).
Qed.

(* the start: u's entry (if doc_state has one) has base_dict = dict, and its dictionaries are not longer than the
   dictionary files (true when the entry is up to date with the files, dict_start_uptodate) *)
Definition race_dict_start (w0 : world) (u : url) : Prop :=
  forall e, lookup u (s_docs w0) = Some e ->
    e_base e = e_dict e /\ length (dv_user (e_dict e)) <= length (w_udict w0) /\
    length (dv_file (e_dict e)) <= length (fdict_of w0 u).

Definition dict_startb (w0 : world) (u : url) : bool :=
  match lookup u (s_docs w0) with
  | Some e => dictv_eqb (e_base e) (e_dict e) &&
              list_eqb (dv_user (e_dict e)) (w_udict w0) && list_eqb (dv_file (e_dict e)) (fdict_of w0 u)
  | None => true
  end.
Lemma dict_start_uptodate : forall w0 u, dict_startb w0 u = true -> race_dict_start w0 u.
Proof.
  intros w0 u H e Le. unfold dict_startb in H. rewrite Le in H.
  apply andb_true_iff in H as [H H3]. apply andb_true_iff in H as [H1 H2].
  apply dictv_eqb_eq in H1. apply list_eqb_eq in H2, H3. rewrite H2, H3. split; [exact H1|split; lia].
Qed.

Lemma dinv_init : forall u w0 h, race_dict_start w0 u -> DInv u [] (init h w0).
Proof.
  intros u w0 h St. constructor; cbn [init y_world y_flight].
  - intros hs [].
  - intros hs [].
  - intros hs [].
  - intros e Le. destruct (St e Le) as (B & LU & LF). unfold dok, nU, nF.
    split; [exact B|]. split; (split; [assumption|discriminate]).
Qed.

(* ---------- the theorems ---------- *)
(* the fifth flag is sound: for EVERY history of the class and EVERY schedule, if a dictionary file of u was changed
   after the handler of u's last effective critical section read it (after the start when there is none), the last word
   of u is wrong *)
Theorem race_dict_sound : forall w0 h u cs y cd,
  race_gen_start w0 u -> race_dict_start w0 u -> forallb okop h = true ->
  run cs (init h w0) = Some y -> quiescent y ->
  lookup u (w_open (y_world y)) = Some cd -> kind (cd_lang cd) <> KNone ->
  rf_dict (race_shape w0 (y_world y) u (xtrace cs (init h w0))) = true ->
  lastword (y_world y) u <> expected (y_world y) u.
Proof.
  intros w0 h u cs y cd St Sd Hh R Q Lc Hk F E.
  pose proof (race_last_is_doc_state w0 h u cs y St Hh R Q) as P.
  destruct St as (Hd & Nd & Hp).
  pose proof (rinv_init u w0 h Hd Nd Hh Hp) as R0.
  pose proof (dinv_run u w0 cs [] _ _ R0 (dinv_init u w0 h Sd) R) as D. cbn [app] in D.
  assert (X : exists a, expected (y_world y) u = PDiag a /\ dv_user (a_dict a) = w_udict (y_world y) /\
                        dv_file (a_dict a) = fdict_of (y_world y) u).
  { unfold expected. rewrite Lc. destruct (kind (cd_lang cd)); try congruence; eexists; (split; [reflexivity|]); split; reflexivity. }
  destruct X as (a & Ea & A1 & A2). rewrite Ea in E. rewrite E in P. cbn [pstrip] in P. unfold psv in P.
  destruct (lookup u (s_docs (y_world y))) as [e|] eqn:Le; [|discriminate P].
  destruct (e_text e); [|discriminate P]. destruct (e_lang e); [|discriminate P].
  inversion P as [[P1 P2 P3 P4 P5 P6 P7]].
  destruct (di_doc _ _ _ D e Le) as (_ & [_ LtU] & [_ LtF]).
  rewrite rf_dict_dd in F. apply orb_true_iff in F as [F|F].
  - specialize (LtU F). rewrite <- P3, A1 in LtU. unfold nU in LtU. lia.
  - specialize (LtF F). rewrite <- P3, A2 in LtF. unfold nF in LtF. lia.
Qed.

(* the 'if' direction of race_overtaken, all FIVE flags, ALL histories of the class, ALL schedules *)
Theorem race_flags_sound5 : forall w0 h u cs y cd,
  race_gen_start w0 u -> race_dict_start w0 u -> forallb okop h = true ->
  run cs (init h w0) = Some y -> quiescent y ->
  lookup u (w_open (y_world y)) = Some cd -> kind (cd_lang cd) <> KNone ->
  race_overtaken w0 (y_world y) u (xtrace cs (init h w0)) = true ->
  lastword (y_world y) u <> expected (y_world y) u.
Proof.
  intros w0 h u cs y cd St Sd Hh R Q Lc Hk F.
  unfold race_overtaken in F.
  destruct (rf_dict (race_shape w0 (y_world y) u (xtrace cs (init h w0)))) eqn:Fd.
  - exact (race_dict_sound w0 h u cs y cd St Sd Hh R Q Lc Hk Fd).
  - apply (race_flags_sound w0 h u cs y cd St Hh R Q Lc Hk). cbv zeta. rewrite orb_false_r in F. exact F.
Qed.

(* a didChange has read both dictionaries when an add-word command (sent after it, naming another document) saves the
   user dictionary; the didChange then runs its critical section: flag `dictionary` alone, the last word lacks word 5 *)
Definition dict_example_h : list op := [Change uA (tx 1) 2; AddUser 5 uB].
Definition dict_example_cs : list choice :=
  [CAdmit; CAdmit] ++ repeat (CRun 0) 6 ++ repeat (CRun 1) 5 ++ repeat (CRun 0) 2.

Lemma race_dict_example :
  race_gen_start race_wA uA /\ race_dict_start race_wA uA /\ forallb okop dict_example_h = true /\
  exists y cd a, run dict_example_cs (init dict_example_h race_wA) = Some y /\ quiescent y /\
    lookup uA (w_open (y_world y)) = Some cd /\ kind (cd_lang cd) <> KNone /\
    lastword (y_world y) uA = PDiag a /\
    race_shape race_wA (y_world y) uA (xtrace dict_example_cs (init dict_example_h race_wA)) = mkflags false true false false false /\
    (a_text a, dv_user (a_dict a), w_udict (y_world y)) = (tx 1, [], [5]).
Proof.
  split; [split; [reflexivity|split; [apply nocode_docsb_ok; vm_compute; reflexivity|vm_compute; reflexivity]]|].
  split; [apply dict_start_uptodate; vm_compute; reflexivity|].
  split; [reflexivity|].
  eexists. eexists. eexists. split; [vm_compute; reflexivity|].
  split; [split; reflexivity|]. split; [vm_compute; reflexivity|]. split; [cbn; discriminate|].
  split; [vm_compute; reflexivity|]. split; vm_compute; reflexivity.
Qed.
