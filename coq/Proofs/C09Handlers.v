(* C09Handlers.v — C09: the call skeleton of the harper-ls handlers, as tools/tables/c09handlers.py reads it from
   harper-ls/src/backend.rs on every run (Model/Tables_c09handlers.v), is the one the hand-written models follow.
   Each line is the source-level counterpart of a piece of Model/Server.v (`prog`, `exec`) and of the big-step
   specification Model/C09Seq.v (`sstep`).  When the code changes shape this lemma fails (or the translator raises)
   and the models have to be re-read against the code. *)
From Coq Require Import List String.
Import ListNotations.
Require Import Tables_c09handlers.
Local Open Scope string_scope.

Definition expected_skeletons : list (string * list string) :=
  [ (* prog (Open ..) = prog (Change ..) = update_seq ++ [IPublish];  sstep: update_publish *)
    ("did_open", ["update_document"; "publish_diagnostics"]);
    ("did_change", ["update_document"; "publish_diagnostics"]);
    (* prog (Save u) = [IReadFile; IPublish];  sstep: reread u *)
    ("did_save", ["update_document_from_file"; "publish_diagnostics"]);
    (* [IClose; IUnlock]: the guard lives to the end of the function *)
    ("did_close", ["doc_state.lock"; "docs.remove"; "send"]);
    (* [IDelete tg; IDelSend ..; IUnlock] *)
    ("did_change_watched_files", ["doc_state.lock"; "for"; "docs.retain"; "for"; "send"]);
    (* [ICfgSet c; ICfgRebuild order; (IReadFile; IPublish) per key];  sstep: set_scfg, map e_set_lcfg, reread_all *)
    ("did_change_configuration",
     ["update_config_from_obj"; "doc_state.lock"; "config.read"; "for"; "docs.values_mut"; "docs.keys"; "for";
      "update_document_from_file"; "publish_diagnostics"]);
    (* IReadFile pushes update_seq;  disk_text *)
    ("update_document_from_file", ["fs.read_to_string"; "update_document"]);
    (* IPublish = send u (pubval w u) *)
    ("publish_diagnostics", ["generate_diagnostics"; "send"]);
    ("generate_diagnostics", ["config.read"; "doc_state.lock"; "docs.get_mut"]);
    (* ICfgReq; IAnswer; IRecv *)
    ("pull_config", ["client.configuration"; "update_config_from_obj"]);
    (* update_seq = [ICfgReq; IAnswer; IRecv; ISnap; IReadUD; IReadFD; IUpdate]: the configuration is pulled first, copied,
       the dictionary files are read, THEN the lock is taken; the version check is the first thing under the lock *)
    ("update_document",
     ["pull_config"; "config.read"; "generate_file_dictionary"; "doc_state.lock"; "docs.entry"; "return(outdated)";
      "docs.remove"; "use_ident_dict"; "use_ident_dict"; "docs.remove"; "Document::new"]);
    (* [IIdentUD; IIdentFD; IIdentFinish] with the doc_state mutex held *)
    ("use_ident_dict", ["generate_file_dictionary"]);
    (* IRecord *)
    ("execute_command/HarperRecordLint", ["stats.write"]);
    (* [ILoadUD; ITmpUD; IWriteUD; IReadFile; IPublish]: lock, load, save, guard dropped, THEN the document is re-read *)
    ("execute_command/HarperAddToUserDict",
     ["dict_write_lock.lock"; "load_user_dictionary"; "save_user_dictionary"; "drop(_guard)"; "update_document_from_file";
      "publish_diagnostics"]);
    (* [ILoadFD; (ITmpFD; IWriteFD); IReadFile; IPublish] *)
    ("execute_command/HarperAddToFileDict",
     ["dict_write_lock.lock"; "load_file_dictionary"; "save_file_dictionary"; "drop(_guard)"; "update_document_from_file";
      "publish_diagnostics"]);
    (* [IIgnore k] pushing [IPublish] *)
    ("execute_command/HarperIgnoreLint", ["doc_state.lock"; "docs.get_mut"; "drop(doc_lock)"; "publish_diagnostics"]);
    ("execute_command/<before the match>", []) ].

Lemma handler_skeletons : c09_skeletons = expected_skeletons.
Proof. reflexivity. Qed.
