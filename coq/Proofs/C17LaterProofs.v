(* C17LaterProofs.v — C17: the passes after condense_dotted_initialisms (Model/C17Later.v: condense_ellipsis,
   condense_latin, the metadata loop; match_quotes / articles_imply_nouns are the identity on this token abstraction)
   never create, remove or alter a Number token — for ARBITRARY token lists and sources, whenever they return.
   This discharges the former hypothesis `numbers_preserved pp` of the C17 theorems for the modelled passes.
   Structure: one generic lemma about Document::condense_pattern for any matcher whose positive matches cover
   touchable (K) tokens only and any edit that keeps a touched token in the class K2 (relation `sub` of
   C17MultiText.v), instantiated for the ellipsis pattern (K = Period) and the latin pattern (K = Word, white space,
   Period).  Number.condense_contractions is shown to be the same generic function at the contraction matcher. *)
Require Import Base Overlap Suggestion Tables_number Number NumberArith ListLemmas SuggestionProofs.
Require Import NumberLex NumberPasses NumberProofs C17Texts C17MultiText C17Later.
From Coq Require Import List Arith NArith Bool Lia.
Import ListNotations.
Local Open Scope list_scope.

(* ------------------------------------------------------------------------------------------------ *)
(* small list facts                                                                                   *)
(* ------------------------------------------------------------------------------------------------ *)
Lemma cw_at (p : token -> bool) : forall (l : list token) (j : nat), j < count_while p l -> at_ p l j.
Proof.
  induction l as [|x r IH]; intros j Hj; cbn [count_while] in Hj; [lia|].
  destruct (p x) eqn:E; [|lia].
  destruct j as [|j]; [exists x; split; [reflexivity | exact E]|].
  destruct (IH j) as [t [Ht Hp]]; [lia|]. exists t. split; [exact Ht | exact Hp].
Qed.
Lemma nth_skipn0 {A} : forall (k : nat) (l : list A), nth_error (skipn k l) 0 = nth_error l k.
Proof.
  induction k as [|k IH]; intros l.
  - destruct l; reflexivity.
  - destruct l as [|x r]; [reflexivity|]. cbn [skipn]. rewrite IH. reflexivity.
Qed.
Lemma at_len (P : token -> bool) (l : list token) (j : nat) : at_ P l j -> j < length l.
Proof. intros [t [Ht _]]. apply nth_error_Some. congruence. Qed.
Lemma at_app_r (P : token -> bool) (pre l : list token) (j : nat) : at_ P l j -> at_ P (pre ++ l) (length pre + j).
Proof.
  intros [t [Ht Hp]]. exists t. split; [|exact Hp]. rewrite nth_error_app2 by lia.
  replace (length pre + j - length pre) with j by lia. exact Ht.
Qed.

(* ------------------------------------------------------------------------------------------------ *)
(* Document::condense_pattern, generic                                                                *)
(* ------------------------------------------------------------------------------------------------ *)
Section Generic.
  Variable m : matcher.
  Variable edit : token -> token.
  Variables K K2 : token -> bool.
  (* a positive match covers touchable tokens only (hence lies inside the list) *)
  Hypothesis m_good : forall l n, m l = Ok n -> 0 < n -> forall j, j < n -> at_ K l j.
  (* a touched token stays in the class K2 whatever span it is given *)
  Hypothesis edit_good : forall t h, K t = true \/ K2 t = true -> K2 (edit (mktok h (tkind t))) = true.

  Definition gmatch (copy : list token) (s : span) : Prop :=
    sstart s < send s /\ forall j, sstart s <= j < send s -> at_ K copy j.

  Lemma matches_from_g_spec : forall (l pre : list token) (i : nat) (found : list span),
    length pre = i -> matches_from_g m i l = Ok found -> forall s, In s found -> gmatch (pre ++ l) s.
  Proof.
    induction l as [|x tl IH]; intros pre i found Hi HE s Hin.
    - cbn [matches_from_g] in HE. injection HE as <-. contradiction.
    - cbn [matches_from_g] in HE. destruct (m (x :: tl)) as [n|p] eqn:Em; cbn [bind] in HE; [|discriminate].
      destruct (matches_from_g m (S i) tl) as [r|p] eqn:Er; cbn [bind] in HE; [|discriminate].
      injection HE as <-. apply in_app_or in Hin. destruct Hin as [Hin|Hin].
      + destruct (0 <? n) eqn:E0; [|contradiction]. destruct Hin as [<-|[]]. apply Nat.ltb_lt in E0.
        unfold gmatch, span_new_with_len. cbn [sstart send]. split; [lia|].
        intros j Hj. replace j with (length pre + (j - i)) by lia. apply at_app_r.
        apply (m_good _ _ Em E0). lia.
      + replace (pre ++ x :: tl) with ((pre ++ [x]) ++ tl) by (rewrite <- app_assoc; reflexivity).
        apply (IH (pre ++ [x]) (S i) r); [rewrite app_length; cbn; lia | exact Er | exact Hin].
  Qed.

  Lemma find_all_matches_g_spec (l : list token) (found : list span) :
    find_all_matches_g m l = Ok found -> forall s, In s found -> gmatch l s.
  Proof.
    unfold find_all_matches_g. destruct (matches_from_g m 0 l) as [f|p] eqn:Ef; cbn [bind]; [|discriminate].
    intros HE s Hin. injection HE as <-.
    assert (Hin' : In s f) by (destruct (length f <? 2); [exact Hin | eapply ri_in; exact Hin]).
    exact (matches_from_g_spec l [] 0 f eq_refl Ef s Hin').
  Qed.

  Lemma cp_apply_g_spec : forall (ms : list span) (copy toks : list token) (rm : list nat) toks' rm',
    Forall2 (upd K K2) copy toks -> (forall s, In s ms -> gmatch copy s) ->
    cp_apply_g edit ms toks rm = Ok (toks', rm') ->
    Forall2 (upd K K2) copy toks'
    /\ (forall j, In j rm' -> In j rm \/ exists s, In s ms /\ sstart s < j < send s).
  Proof.
    induction ms as [|s ms IH]; intros copy toks rm toks' rm' HF Hms HE.
    - cbn [cp_apply_g] in HE. injection HE as <- <-. split; [exact HF | intros j Hj; left; exact Hj].
    - cbn [cp_apply_g] in HE.
      destruct (slice_chk toks (sstart s) (send s)) as [sl|p]; cbn [bind] in HE; [|discriminate].
      destruct (hull sl) as [h|]; [|discriminate].
      unfold nth_chk in HE. destruct (nth_error toks (sstart s)) as [t|] eqn:Et; cbn [bind] in HE; [|discriminate].
      destruct (set_nth_ok toks (sstart s) t (edit (mktok h (tkind t))) Et) as (pa & pb & Htoks & Hpa & Hset).
      rewrite Hset in HE. cbn [bind] in HE.
      destruct (Hms s (or_introl eq_refl)) as (Hlt & Hat).
      destruct (Hat (sstart s)) as [x0 [Hx0 Kx0]]; [lia|].
      destruct (Forall2_nth _ _ _ _ _ HF Et) as [x [Hx Hxt]]. rewrite Hx0 in Hx. injection Hx as <-.
      assert (Knew : K2 (edit (mktok h (tkind t))) = true).
      { apply edit_good. destruct Hxt as [->|[_ Hy]]; [left; exact Kx0 | right; exact Hy]. }
      destruct (IH copy (pa ++ edit (mktok h (tkind t)) :: pb) (rm ++ seq (S (sstart s)) (send s - S (sstart s))) toks' rm') as (HF' & Hrm').
      + eapply Forall2_upd_set_at; [exact HF | exact Htoks |]. intros x1 Hx1 _. right.
        rewrite Hpa, Hx0 in Hx1. injection Hx1 as <-. split; [exact Kx0 | exact Knew].
      + intros s' Hs'. apply Hms. right. exact Hs'.
      + exact HE.
      + split; [exact HF'|]. intros j Hj. destruct (Hrm' j Hj) as [Hin|[s' [Hs' Hr]]].
        * apply in_app_or in Hin. destruct Hin as [Hin|Hin]; [left; exact Hin|].
          right. exists s. split; [left; reflexivity|]. apply in_seq in Hin. lia.
        * right. exists s'. split; [right; exact Hs' | exact Hr].
  Qed.

  (* the result is the input with some K-tokens replaced by K2-tokens and some K-tokens removed *)
  Lemma condense_pattern_g_sub (toks toks' : list token) :
    condense_pattern_g m edit toks = Ok toks' -> sub K K2 toks toks'.
  Proof.
    unfold condense_pattern_g.
    destruct (find_all_matches_g m toks) as [ms|p] eqn:Ems; cbn [bind]; [|discriminate].
    destruct (cp_apply_g edit ms toks []) as [[t1 rm]|p] eqn:Ecp; cbn [bind fst snd]; [|discriminate].
    intros HE. injection HE as <-.
    destruct (cp_apply_g_spec ms toks toks [] t1 rm (Forall2_refl_upd K K2 toks)
                (find_all_matches_g_spec toks ms Ems) Ecp) as (HF & Hrm).
    apply ri_sub; [exact HF|]. intros j Hj _. rewrite Nat.sub_0_r.
    destruct (Hrm j Hj) as [[]|[s [Hs Hr]]].
    destruct (find_all_matches_g_spec toks ms Ems s Hs) as (_ & Hat). apply Hat. lia.
  Qed.
End Generic.

(* ------------------------------------------------------------------------------------------------ *)
(* the two patterns                                                                                   *)
(* ------------------------------------------------------------------------------------------------ *)
Lemma ellipsis_good (l : list token) (n : nat) :
  ellipsis_at l = Ok n -> 0 < n -> forall j, j < n -> at_ is_period l j.
Proof.
  unfold ellipsis_at. intros HE. injection HE as <-.
  match goal with |- context [if ?c then _ else _] => destruct c end; intros Hn j Hj; [|lia]. apply cw_at. exact Hj.
Qed.

(* Word, white space, Period: everything the latin pattern can cover *)
Definition wsp (t : token) : bool := is_word t || is_whitespace_tok t || is_period t.
Definition nn (t : token) : bool := negb (is_number t).

Lemma wordset_at_word src ws l n : wordset_at src ws l = Ok n -> n <> 0 -> at_ is_word l 0.
Proof.
  destruct l as [|t r]; cbn [wordset_at]; [intros H; injection H as <-; congruence|].
  destruct (is_word t) eqn:W; cbn [negb]; [|intros H; injection H as <-; congruence].
  intros _ _. exists t. split; [reflexivity | exact W].
Qed.
Lemma anycap_at_word src w l n : anycap_at src w l = Ok n -> n <> 0 -> at_ is_word l 0.
Proof.
  destruct l as [|t r]; cbn [anycap_at]; [intros H; injection H as <-; congruence|].
  destruct (is_word t) eqn:W; cbn [negb]; [|intros H; injection H as <-; congruence].
  intros _ _. exists t. split; [reflexivity | exact W].
Qed.
Lemma period_at_period l : period_at l <> 0 -> at_ is_period l 0.
Proof.
  destruct l as [|t r]; cbn [period_at]; [congruence|]. destruct (is_period t) eqn:P; [|congruence].
  intros _. exists t. split; [reflexivity | exact P].
Qed.
Lemma at_skipn (P : token -> bool) (k : nat) (l : list token) : at_ P (skipn k l) 0 -> at_ P l k.
Proof. intros [t [Ht Hp]]. rewrite nth_skipn0 in Ht. exists t. split; assumption. Qed.
Lemma at_weaken (P Q : token -> bool) l j : (forall t, P t = true -> Q t = true) -> at_ P l j -> at_ Q l j.
Proof. intros H [t [Ht Hp]]. exists t. split; [exact Ht | apply H; exact Hp]. Qed.

Lemma wsp_word t : is_word t = true -> wsp t = true.
Proof. unfold wsp. intros ->. reflexivity. Qed.
Lemma wsp_ws t : is_whitespace_tok t = true -> wsp t = true.
Proof. unfold wsp. intros ->. apply orb_true_iff. left. apply orb_true_r. Qed.
Lemma wsp_period t : is_period t = true -> wsp t = true.
Proof. unfold wsp. intros ->. apply orb_true_r. Qed.

Lemma latin_alt1_good src l n : latin_alt1 src l = Ok n -> forall j, j < n -> at_ wsp l j.
Proof.
  unfold latin_alt1. destruct (wordset_at src latin_wordset l) as [a|p] eqn:Ea; cbn [bind]; [|discriminate].
  destruct (a =? 0) eqn:E0; [intros H; injection H as <-; lia|]. apply Nat.eqb_neq in E0.
  destruct (period_at (skipn 1 l) =? 0) eqn:E1; [intros H; injection H as <-; lia|]. apply Nat.eqb_neq in E1.
  intros H j Hj. injection H as <-.
  assert (j = 0 \/ j = 1) as [->| ->] by lia.
  - eapply at_weaken; [exact wsp_word | eapply wordset_at_word; eassumption].
  - eapply at_weaken; [exact wsp_period | apply at_skipn, period_at_period; exact E1].
Qed.

Lemma latin_alt2_good src l n : latin_alt2 src l = Ok n -> forall j, j < n -> at_ wsp l j.
Proof.
  unfold latin_alt2. destruct (anycap_at src latin_first l) as [a|p] eqn:Ea; cbn [bind]; [|discriminate].
  destruct (a =? 0) eqn:E0; [intros H; injection H as <-; lia|]. apply Nat.eqb_neq in E0.
  set (w := count_while is_whitespace_tok (skipn 1 l)).
  destruct (w =? 0) eqn:Ew; [intros H; injection H as <-; lia|].
  destruct (anycap_at src latin_second (skipn (1 + w) l)) as [b|p] eqn:Eb; cbn [bind]; [|discriminate].
  destruct (b =? 0) eqn:E2; [intros H; injection H as <-; lia|]. apply Nat.eqb_neq in E2.
  destruct (period_at (skipn (2 + w) l) =? 0) eqn:E3; [intros H; injection H as <-; lia|]. apply Nat.eqb_neq in E3.
  intros H j Hj. injection H as <-.
  assert (j = 0 \/ (1 <= j < 1 + w) \/ j = 1 + w \/ j = 2 + w) as [->|[Hr|[->| ->]]] by lia.
  - eapply at_weaken; [exact wsp_word | eapply anycap_at_word; eassumption].
  - destruct (cw_at is_whitespace_tok (skipn 1 l) (j - 1)) as [t [Ht Hp]]; [fold w; lia|].
    exists t. split; [|apply wsp_ws; exact Hp].
    destruct l as [|x r]; [destruct (j - 1); discriminate|]. cbn [skipn] in Ht.
    replace j with (S (j - 1)) by lia. exact Ht.
  - eapply at_weaken; [exact wsp_word | apply at_skipn; eapply anycap_at_word; eassumption].
  - eapply at_weaken; [exact wsp_period | apply at_skipn, period_at_period; exact E3].
Qed.

Lemma latin_good src (l : list token) (n : nat) : latin_at src l = Ok n -> 0 < n -> forall j, j < n -> at_ wsp l j.
Proof.
  unfold latin_at. destruct (latin_alt1 src l) as [a|p] eqn:Ea; cbn [bind]; [|discriminate].
  destruct (latin_alt2 src l) as [b|p] eqn:Eb; cbn [bind]; [|discriminate].
  intros H _ j Hj. injection H as <-.
  destruct (Nat.max_spec a b) as [[_ E]|[_ E]]; rewrite E in Hj.
  - eapply latin_alt2_good; eassumption.
  - eapply latin_alt1_good; eassumption.
Qed.

Lemma wsp_not_number t : wsp t = true -> is_number t = false.
Proof.
  unfold wsp, is_whitespace_tok, is_word, is_space, is_newline, is_period, is_number.
  destruct (tkind t); cbn; congruence.
Qed.
Lemma period_not_number t : is_period t = true -> is_number t = false.
Proof. unfold is_period, is_number. destruct (tkind t); congruence. Qed.

Lemma condense_ellipsis_sub toks toks' : condense_ellipsis toks = Ok toks' -> sub is_period inert toks toks'.
Proof.
  apply (condense_pattern_g_sub (ellipsis_at) to_ellipsis is_period inert).
  - exact ellipsis_good.
  - intros t h _. reflexivity.
Qed.
Lemma condense_latin_sub src toks toks' : condense_latin src toks = Ok toks' -> sub wsp nn toks toks'.
Proof.
  apply (condense_pattern_g_sub (latin_at src) (fun t => t) wsp nn).
  - exact (latin_good src).
  - intros t h [Hk|Hk]; unfold nn, is_number; cbn [tkind].
    + apply wsp_not_number in Hk. unfold is_number in Hk. rewrite Hk. reflexivity.
    + exact Hk.
Qed.

(* ------------------------------------------------------------------------------------------------ *)
(* the later passes leave the Number tokens alone — arbitrary token list, arbitrary source              *)
(* ------------------------------------------------------------------------------------------------ *)
Theorem later_passes_numbers (src : text) (toks toks' : list token) :
  later_passes src toks = Ok toks' ->
  filter is_number toks' = filter is_number toks /\ rule toks' = rule toks.
Proof.
  unfold later_passes.
  destruct (condense_ellipsis toks) as [t1|p] eqn:E1; cbn [bind]; [|discriminate].
  destruct (condense_latin src t1) as [t2|p] eqn:E2; cbn [bind]; [|discriminate].
  destruct (meta_loop src t2) as [u|p]; cbn [bind]; [|discriminate].
  intros H. injection H as <-.
  assert (Hf : filter is_number t2 = filter is_number toks).
  { rewrite (sub_filter wsp nn is_number _ _ (condense_latin_sub src _ _ E2)).
    - apply (sub_filter is_period inert is_number _ _ (condense_ellipsis_sub _ _ E1)).
      + exact period_not_number.
      + intros y Hy. apply inert_spec in Hy. tauto.
    - exact wsp_not_number.
    - intros y Hy. unfold nn in Hy. apply negb_true_iff in Hy. exact Hy. }
  split; [exact Hf|]. rewrite <- (rule_filter t2), Hf. apply rule_filter.
Qed.

(* the total function the old hypothesis was about: the later passes, keeping the list when they panic *)
Definition later_total (src : text) (l : list token) : list token :=
  match later_passes src l with Ok l' => l' | Panic _ => l end.
Theorem later_total_preserves : numbers_preserved later_total.
Proof.
  intros src l. unfold later_total. destruct (later_passes src l) as [l'|p] eqn:E; [|reflexivity].
  apply (later_passes_numbers src l l' E).
Qed.

(* ------------------------------------------------------------------------------------------------ *)
(* the main theorems over the whole of Document::parse                                                *)
(* ------------------------------------------------------------------------------------------------ *)
Theorem lint_list_doc_thm :
  forall (U : uni) (ut : text -> nat) (et : text -> nat -> option nat),
  ascii_laws U ->
  forall (l : list inst) (post : text),
  mctx_ok U l post = true ->
  (exists T, doc_tokens U ut et (mtext l post) = Ok T)
  /\ (forall T', doc_final U ut et (mtext l post) = Ok T' -> filter is_number T' = mlist 0 l)
  /\ (forall r, lint_doc U ut et (mtext l post) = Ok r -> r = Some (mexpected 0 l)).
Proof.
  intros U ut et HU l post Hctx.
  destruct (doc_multi_shape U ut et HU l post Hctx) as (T & HT & Hf).
  assert (Hsfx : Forall has_sfx l).
  { unfold mctx_ok in Hctx. rewrite !andb_true_iff in Hctx. destruct Hctx as [[Hseg _] _].
    eapply segs_ok_sfx. exact Hseg. }
  split; [exists T; exact HT|]. split.
  - intros T'. unfold doc_final. rewrite HT. cbn [bind]. intros HL.
    destruct (later_passes_numbers _ _ _ HL) as [Hn _]. rewrite Hn. exact Hf.
  - intros r. unfold lint_doc, doc_final. rewrite HT. cbn [bind].
    destruct (later_passes (mtext l post) T) as [T'|p] eqn:HL; cbn [bind]; [|discriminate].
    intros H. injection H as <-.
    destruct (later_passes_numbers _ _ _ HL) as [_ Hr]. rewrite Hr, <- rule_filter, Hf. apply rule_mlist. exact Hsfx.
Qed.

(* ------------------------------------------------------------------------------------------------ *)
(* Number.condense_contractions is the generic condense_pattern at the contraction matcher             *)
(* ------------------------------------------------------------------------------------------------ *)
Lemma matches_from_g_contraction : forall (l : list token) (i : nat),
  matches_from_g (contraction_m) i l = Ok (matches_from i l).
Proof.
  induction l as [|x tl IH]; intros i; [reflexivity|].
  cbn [matches_from_g matches_from]. unfold contraction_m at 1. cbn [bind]. rewrite IH. reflexivity.
Qed.
Lemma cp_apply_g_id : forall (ms : list span) (toks : list token) (rm : list nat),
  cp_apply_g (fun t => t) ms toks rm = cp_apply ms toks rm.
Proof.
  induction ms as [|s ms IH]; intros toks rm; [reflexivity|].
  cbn [cp_apply_g cp_apply]. destruct (slice_chk toks (sstart s) (send s)) as [sl|p]; cbn [bind]; [|reflexivity].
  destruct (hull sl); [|reflexivity].
  destruct (nth_chk toks (sstart s)) as [t|p]; cbn [bind]; [|reflexivity].
  destruct (set_nth toks (sstart s) (mktok s0 (tkind t))) as [t'|p]; cbn [bind]; [|reflexivity]. apply IH.
Qed.
Theorem condense_contractions_generic (toks : list token) :
  condense_contractions_g toks = condense_contractions toks.
Proof.
  unfold condense_contractions_g, condense_pattern_g, find_all_matches_g, condense_contractions, find_all_matches.
  rewrite matches_from_g_contraction. cbn [bind]. rewrite cp_apply_g_id. reflexivity.
Qed.

(* non-vacuity witness for Properties/C17.v *)
From Coq Require Import String.
Definition ex_later : list inst :=
  [mkinst (txt "Smith et al. came ") (txt "2") 115%N 116%N; mkinst (txt "... etc. and ") (txt "3") 114%N 100%N].
