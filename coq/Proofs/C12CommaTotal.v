(* C12CommaTotal.v — CommaFixes::lint never panics on a token list whose comma tokens are non-empty and inside the source
   and whose adjacent tokens are in order (start of a token <= end of the next): the checked model returns what the
   unchecked one (the one proved paragraph-local) computes. *)
From Coq Require Import List Arith NArith Lia Bool.
Require Import Base Overlap ParaSplit ParaSplitProofs Tables_c12rules C12Comma C12CommaProofs.
Import ListNotations.

(* a comma token covers at least one character of the source *)
Definition comma_ok (src : text) (t : tok) : Prop :=
  tkind t = KComma -> sstart (tspan t) < send (tspan t) /\ send (tspan t) <= length src.
(* the token passed last starts at or before the end of the current one *)
Definition prev_ok (o1 : option tok) (t : tok) : Prop :=
  match o1 with Some t1 => sstart (tspan t1) <= send (tspan t) | None => True end.
Fixpoint ordered (o1 : option tok) (ts : list tok) : Prop :=
  match ts with [] => True | t :: r => prev_ok o1 t /\ ordered (Some t) r end.

Lemma slice_nonempty {A} (l : list A) s e : s < e -> e <= length l -> exists c r, slice l s e = c :: r.
Proof.
  intros H1 H2. unfold slice. destruct (firstn (e - s) (skipn s l)) as [|c r] eqn:E.
  - apply (f_equal (@length A)) in E. rewrite firstn_length, skipn_length in E. cbn [length] in E. lia.
  - now exists c, r.
Qed.

Section Total.
  Variable unl : tok -> bool.

  Lemma cf_at_chk_ok src o0 o1 t o3 o4 :
    comma_ok src t -> prev_ok o1 t ->
    cf_at_chk unl src o0 o1 t o3 o4 = Ok (cf_at unl src o0 o1 t o3 o4).
  Proof.
    intros Hc Hp. unfold cf_at_chk, cf_at. destruct (tkind t) eqn:Ek; try reflexivity.
    destruct (Hc Ek) as [H1 H2].
    rewrite get_content_ok by lia. cbn [bind].
    destruct (slice_nonempty src _ _ H1 H2) as (c & r & E). rewrite E. cbn [hd_error].
    destruct (run_arms cf_arms (view unl o0) (view unl o1) _ _ _) as [[w id]|] eqn:Ea; [|reflexivity].
    destruct w.
    - reflexivity.
    - destruct o1 as [t1|]; [reflexivity|].
      apply arms_span_comma in Ea; [discriminate|]. cbn [view]. discriminate.
    - destruct o1 as [t1|].
      + cbn [cf_span_chk cf_span_of prev_ok] in *. unfold span_new.
        destruct (send (tspan t) <? sstart (tspan t1)) eqn:E2; [apply Nat.ltb_lt in E2; lia|]. reflexivity.
      + apply arms_span_comma in Ea; [discriminate|]. cbn [view]. discriminate.
  Qed.

  Lemma cf_go_chk_ok src : forall ts p2 p1,
    Forall (comma_ok src) ts -> ordered p1 ts ->
    cf_go_chk unl src p2 p1 ts = Ok (cf_go unl src p2 p1 ts).
  Proof.
    induction ts as [|t r IH]; intros p2 p1 Hc Ho; [reflexivity|].
    inversion Hc as [|? ? Hct Hcr]; subst. destruct Ho as [Hp Hr].
    cbn [cf_go_chk cf_go]. rewrite cf_at_chk_ok by assumption. cbn [bind].
    rewrite IH by assumption. reflexivity.
  Qed.

  Theorem comma_fixes_total ts src :
    Forall (comma_ok src) ts -> ordered None ts -> comma_fixes_chk unl ts src = Ok (comma_fixes unl ts src).
  Proof. intros Hc Ho. now apply cf_go_chk_ok. Qed.
End Total.

(* both conditions are needed: a zero-width comma token panics in `.first().unwrap()`, a Space that starts behind the
   end of the comma in Span::new *)
Lemma comma_total_needs :
  comma_fixes_chk (fun _ => false) [mktok (mkspan 1 1) KComma] [97; 44]%N = Panic PUnwrap /\
  comma_fixes_chk (fun _ => false)
    [mktok (mkspan 0 1) KWord; mktok (mkspan 3 4) KSpace; mktok (mkspan 1 2) KComma; mktok (mkspan 2 3) KWord] [97; 44; 98; 32]%N
  = Panic PSpanOrder /\
  comma_fixes_chk (fun _ => false)
    [mktok (mkspan 0 1) KWord; mktok (mkspan 1 2) KSpace; mktok (mkspan 2 3) KComma; mktok (mkspan 3 4) KWord] [97; 32; 44; 98]%N
  = Ok [mklint (mkspan 1 3) 21].
Proof. repeat split; vm_compute; reflexivity. Qed.
