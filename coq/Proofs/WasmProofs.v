(* WasmProofs.v — lemmas about Model/Wasm.v (the harper_wasm::Linter state machine). *)
Require Import Base Overlap Suggestion LintJson Wasm ListLemmas OverlapProofs SuggestionProofs LintJsonProofs.
From Coq Require Import Sorting.Sorted Sorting.Permutation.

(* ---------- small list facts ---------- *)
Lemma Forall2_flat_map_single {A B} (g : A -> list B) (P : A -> B -> Prop) l :
  (forall a, In a l -> exists b, g a = [b] /\ P a b) -> Forall2 P l (flat_map g l).
Proof.
  induction l as [|a l IH]; intros H; cbn [flat_map]; [constructor|].
  destruct (H a (or_introl eq_refl)) as [b [-> Pb]]. cbn [app].
  constructor; [exact Pb|]. apply IH. intros x Hx. apply H. now right.
Qed.

Lemma Forall2_Forall_transfer {A B} (P : A -> B -> Prop) (Q : A -> Prop) (Q' : B -> Prop) l l' :
  (forall a b, P a b -> Q a -> Q' b) -> Forall2 P l l' -> Forall Q l -> Forall Q' l'.
Proof.
  intros T F. induction F as [|a b l l' Pab F IH]; intros HQ; [constructor|].
  inversion HQ; subst. constructor; [eapply T; eassumption|now apply IH].
Qed.

Lemma FOP_Forall2 {A B} (R : A -> A -> Prop) (R' : B -> B -> Prop) (P : A -> B -> Prop) :
  (forall a a' b b', P a b -> P a' b' -> R a a' -> R' b b') ->
  forall l l', Forall2 P l l' -> ForallOrdPairs R l -> ForallOrdPairs R' l'.
Proof.
  intros T l l' F. induction F as [|a b l l' Pab F IH]; intros H; [constructor|].
  inversion H as [|? ? Ha Hl]; subst. constructor; [|now apply IH].
  eapply Forall2_Forall_transfer; [|exact F|exact Ha].
  intros a' b' Pab' Raa'. eapply T; eassumption.
Qed.

Lemma FOP_filter {A} (R : A -> A -> Prop) p l : ForallOrdPairs R l -> ForallOrdPairs R (filter p l).
Proof.
  induction 1 as [|a l Ha Hl IH]; cbn [filter]; [constructor|].
  destruct (p a); [|exact IH]. constructor; [|exact IH].
  apply Forall_forall. intros x Hx. apply filter_In in Hx. destruct Hx as [Hx _].
  rewrite Forall_forall in Ha. now apply Ha.
Qed.

Lemma filter_filter {A} (p q : A -> bool) l : filter p (filter q l) = filter (fun x => q x && p x) l.
Proof.
  induction l as [|x l IH]; cbn [filter]; [reflexivity|].
  destruct (q x); cbn [andb filter]; [destruct (p x); now rewrite IH|exact IH].
Qed.

Lemma FOP_map {A B} (f : A -> B) (R : B -> B -> Prop) l :
  ForallOrdPairs (fun a b => R (f a) (f b)) l -> ForallOrdPairs R (map f l).
Proof.
  induction 1 as [|a l Ha Hl IH]; cbn [map]; constructor; [|exact IH].
  apply Forall_forall. intros y Hy. apply in_map_iff in Hy. destruct Hy as [x [<- Hx]].
  rewrite Forall_forall in Ha. now apply Ha.
Qed.

(* ---------- remove_overlaps on full lints ---------- *)
Lemma number_In i raw l :
  In l (number i raw) -> exists r, nth_error raw (lid l - i) = Some r /\ lspan l = rspan r /\ i <= lid l.
Proof.
  revert i. induction raw as [|r raw IH]; intros i H; cbn [number] in H; [contradiction|].
  destruct H as [<-|H].
  - exists r. cbn [lid lspan]. rewrite Nat.sub_diag. cbn [nth_error]. auto.
  - destruct (IH (S i) H) as [r' [Hn [Hs Hi]]]. exists r'.
    replace (lid l - i) with (S (lid l - S i)) by lia. cbn [nth_error]. repeat split; try assumption; lia.
Qed.

Definition corresponds (raw : list rlint) (l : lint) (r : rlint) : Prop :=
  nth_error raw (lid l) = Some r /\ lspan l = rspan r.

Lemma ro_full_Forall2 raw : Forall2 (corresponds raw) (remove_overlaps (number 0 raw)) (ro_full raw).
Proof.
  unfold ro_full. apply Forall2_flat_map_single. intros l Hl.
  apply ro_kept_in in Hl. destruct (number_In 0 raw l Hl) as [r [Hn [Hs _]]].
  rewrite Nat.sub_0_r in Hn. exists r. rewrite Hn. split; [reflexivity|]. split; assumption.
Qed.

Lemma ro_full_In raw r : In r (ro_full raw) -> In r raw.
Proof.
  unfold ro_full. intros H. apply in_flat_map in H. destruct H as [l [_ H]].
  destruct (nth_error raw (lid l)) eqn:E; [|contradiction].
  destruct H as [<-|[]]. eapply nth_error_In; eassumption.
Qed.

Definition rdisjoint (a b : rlint) : Prop :=
  send (rspan a) <= sstart (rspan b) /\
  overlaps (rspan a) (rspan b) = false /\ overlaps (rspan b) (rspan a) = false /\
  forall c, ~ ((sstart (rspan a) <= c < send (rspan a)) /\ (sstart (rspan b) <= c < send (rspan b))).

Lemma number_wf i raw : Forall (fun r => span_wf (rspan r)) raw -> Forall lwf (number i raw).
Proof.
  revert i. induction raw as [|r raw IH]; intros i H; cbn [number]; [constructor|].
  inversion H; subst. constructor; [assumption|now apply IH].
Qed.

(* C13 lifted to full lints *)
Lemma ro_full_disjoint raw :
  Forall (fun r => span_wf (rspan r)) raw -> ForallOrdPairs rdisjoint (ro_full raw).
Proof.
  intros W. eapply FOP_Forall2; [|apply ro_full_Forall2|apply ro_disjoint, number_wf, W].
  intros a a' b b' [_ Hs] [_ Hs'] D. unfold disjoint_pair, covers, lstart, lend in D. unfold rdisjoint.
  rewrite <- Hs, <- Hs'. exact D.
Qed.

(* ---------- remove_ignored ---------- *)
Lemma hmem_In h s : hmem h s = true <-> In h s.
Proof.
  unfold hmem. rewrite existsb_exists. split.
  - intros [x [Hx E]]. apply N.eqb_eq in E. now subst.
  - intros H. exists h. split; [assumption|apply N.eqb_refl].
Qed.

Lemma remove_ignored_filter ign c ls :
  remove_ignored ign c ls = filter (fun l => negb (hmem (c l) ign)) ls.
Proof.
  destruct ign as [|h t]; [|reflexivity]. cbn [remove_ignored hmem existsb negb].
  induction ls as [|x xs IH]; cbn [filter]; [reflexivity|now rewrite <- IH].
Qed.

Lemma remove_ignored_ext a b c ls :
  (forall h, hmem h a = hmem h b) -> remove_ignored a c ls = remove_ignored b c ls.
Proof.
  intros H. rewrite !remove_ignored_filter. apply filter_ext. intros l. now rewrite H.
Qed.

Lemma hmem_hadd s h x : hmem x (hadd s h) = hmem x s || (x =? h)%N.
Proof.
  unfold hadd. destruct (hmem h s) eqn:E.
  - destruct (x =? h)%N eqn:X; [|now rewrite orb_false_r].
    apply N.eqb_eq in X. subst. now rewrite E.
  - unfold hmem. rewrite existsb_app. cbn [existsb]. now rewrite orb_false_r.
Qed.

Lemma hmem_fold_hadd hs : forall s x, hmem x (fold_left hadd hs s) = hmem x s || hmem x hs.
Proof.
  induction hs as [|h hs IH]; intros s x; cbn [fold_left].
  - cbn. now rewrite orb_false_r.
  - rewrite IH, hmem_hadd. cbn [hmem existsb]. now rewrite orb_assoc.
Qed.

(* ---------- problem text ---------- *)
Lemma get_content_in (t : text) sp :
  span_in (length t) sp -> get_content sp t = Ok (slice t (sstart sp) (send sp)).
Proof.
  intros [H1 H2]. unfold get_content, try_get_content.
  destruct (send sp <? sstart sp) eqn:E1; [apply Nat.ltb_lt in E1; lia|].
  destruct (length t <? send sp) eqn:E3; [apply Nat.ltb_lt in E3; lia|].
  destruct (length t <=? sstart sp) eqn:E2; cbn [orb bind]; [|reflexivity].
  apply Nat.leb_le in E2. unfold span_len, sub_chk.
  destruct (send sp <? sstart sp) eqn:E4; [discriminate|]. cbn [bind].
  replace (send sp - sstart sp) with 0 by lia. cbn [Nat.eqb]. unfold slice.
  replace (send sp - sstart sp) with 0 by lia. reflexivity.
Qed.

Definition with_text (t : text) (lang : language) (l : rlint) : wlint :=
  mkwl l (slice t (sstart (rspan l)) (send (rspan l))) lang.

Lemma attach_in_bounds t lang ls :
  Forall (fun l => span_in (length t) (rspan l)) ls -> attach t lang ls = Ok (map (with_text t lang) ls).
Proof.
  induction 1 as [|l ls Hl _ IH]; cbn [attach map]; [reflexivity|].
  rewrite (get_content_in _ _ Hl). cbn [bind]. rewrite IH. reflexivity.
Qed.

Lemma attach_filter t lang p ls ws :
  attach t lang ls = Ok ws -> attach t lang (filter p ls) = Ok (filter (fun w => p (winner w)) ws).
Proof.
  revert ws. induction ls as [|l ls IH]; intros ws H; cbn [attach] in H.
  - injection H as <-. reflexivity.
  - destruct (get_content (rspan l) t) as [pt|] eqn:E; cbn [bind] in H; [|discriminate].
    destruct (attach t lang ls) as [ws'|] eqn:E2; cbn [bind] in H; [|discriminate].
    injection H as <-. cbn [filter winner]. specialize (IH ws' eq_refl).
    destruct (p l); [|exact IH]. cbn [attach]. rewrite E. cbn [bind]. rewrite IH. reflexivity.
Qed.

Lemma attach_shape t lang ls ws :
  attach t lang ls = Ok ws -> map winner ws = ls /\ Forall (fun w => wlang w = lang) ws.
Proof.
  revert ws. induction ls as [|l ls IH]; intros ws H; cbn [attach] in H.
  - injection H as <-. split; constructor.
  - destruct (get_content (rspan l) t) as [pt|] eqn:E; cbn [bind] in H; [|discriminate].
    destruct (attach t lang ls) as [ws'|] eqn:E2; cbn [bind] in H; [|discriminate].
    injection H as <-. destruct (IH ws' eq_refl) as [M F]. split; [cbn [map winner]; now rewrite M|].
    constructor; [reflexivity|exact F].
Qed.


(* ---------- sorted association maps ---------- *)
Definition amap_sorted {V} (m : list (N * V)) : Prop := StronglySorted N.lt (map fst m).

Lemma aget_ains {V} k k' (v : V) m :
  aget k (ains k' v m) = if (k =? k')%N then Some v else aget k m.
Proof.
  induction m as [|[k0 v0] r IH]; cbn [ains aget]; [reflexivity|].
  destruct (N.compare k' k0) eqn:C.
  - apply N.compare_eq in C. subst k0. cbn [aget]. destruct (k =? k')%N; reflexivity.
  - cbn [aget]. reflexivity.
  - cbn [aget]. rewrite IH. destruct (k =? k0)%N eqn:E0; [|reflexivity].
    apply N.eqb_eq in E0. subst k0. destruct (k =? k')%N eqn:E1; [|reflexivity].
    apply N.eqb_eq in E1. subst k'. rewrite N.compare_refl in C. discriminate.
Qed.

Lemma ains_keys_In {V} k (v : V) m x : In x (map fst (ains k v m)) -> x = k \/ In x (map fst m).
Proof.
  induction m as [|[k0 v0] r IH]; cbn [ains map fst In]; [intros [H|[]]; now left|].
  destruct (N.compare k k0) eqn:C; cbn [map fst In].
  - apply N.compare_eq in C. subst. intros [H|H]; [now left|right; now right].
  - intros [H|[H|H]]; [now left|right; now left|right; now right].
  - intros [H|H]; [right; now left|]. apply IH in H. destruct H; [now left|right; now right].
Qed.

Lemma ains_sorted {V} k (v : V) m : amap_sorted m -> amap_sorted (ains k v m).
Proof.
  unfold amap_sorted. induction m as [|[k0 v0] r IH]; cbn [ains map fst]; intros S.
  - repeat constructor.
  - inversion S as [|? ? Sr Hall]; subst. destruct (N.compare k k0) eqn:C; cbn [map fst].
    + apply N.compare_eq in C. subst. constructor; assumption.
    + rewrite N.compare_lt_iff in C. constructor; [exact S|]. constructor; [exact C|].
      eapply Forall_impl; [|exact Hall]. intros; lia.
    + rewrite N.compare_gt_iff in C. constructor; [now apply IH|].
      apply Forall_forall. intros x Hx. apply ains_keys_In in Hx. destruct Hx as [->|Hx]; [exact C|].
      rewrite Forall_forall in Hall. now apply Hall.
Qed.

Lemma aget_Some_In {V} k (v : V) m : aget k m = Some v -> In (k, v) m.
Proof.
  induction m as [|[k0 v0] r IH]; cbn [aget]; [discriminate|].
  destruct (k =? k0)%N eqn:E; [apply N.eqb_eq in E; subst; intros H; injection H as <-; now left|].
  intros H. right. now apply IH.
Qed.

Lemma aget_None_notin {V} k (m : list (N * V)) : aget k m = None <-> ~ In k (map fst m).
Proof.
  induction m as [|[k0 v0] r IH]; cbn [aget map fst In]; [tauto|].
  destruct (k =? k0)%N eqn:E.
  - apply N.eqb_eq in E. subst. split; [discriminate|tauto].
  - apply N.eqb_neq in E. rewrite IH. split; [intros H [C|C]; [congruence|tauto]|tauto].
Qed.

Lemma In_aget_nodup {V} k (v : V) m : NoDup (map fst m) -> In (k, v) m -> aget k m = Some v.
Proof.
  induction m as [|[k0 v0] r IH]; cbn [aget map fst In]; [tauto|]. intros ND [H|H].
  - injection H as -> ->. now rewrite N.eqb_refl.
  - inversion ND as [|? ? Hn ND']; subst. destruct (k =? k0)%N eqn:E; [|now apply IH].
    apply N.eqb_eq in E. subst. exfalso. apply Hn. apply in_map_iff. exists (k0, v). split; [reflexivity|assumption].
Qed.

Lemma sorted_nodup {V} (m : list (N * V)) : amap_sorted m -> NoDup (map fst m).
Proof.
  unfold amap_sorted. induction 1 as [|a l S IH Hall]; constructor; [|exact IH].
  intros C. rewrite Forall_forall in Hall. specialize (Hall _ C). lia.
Qed.

Lemma aget_perm {V} k (a b : list (N * V)) : NoDup (map fst a) -> Permutation a b -> aget k a = aget k b.
Proof.
  intros ND P. assert (NoDup (map fst b)) as NDb by (eapply Permutation_NoDup; [apply Permutation_map; exact P|exact ND]).
  destruct (aget k a) as [v|] eqn:E.
  - symmetry. apply In_aget_nodup; [exact NDb|]. eapply Permutation_in; [exact P|]. now apply aget_Some_In.
  - destruct (aget k b) as [v|] eqn:E'; [|reflexivity].
    apply aget_Some_In in E'. apply (Permutation_in _ (Permutation_sym P)) in E'.
    apply (In_aget_nodup _ _ _ ND) in E'. congruence.
Qed.

Lemma amap_ext {V} (m1 : list (N * V)) : forall m2, amap_sorted m1 -> amap_sorted m2 ->
  (forall k, aget k m1 = aget k m2) -> m1 = m2.
Proof.
  assert (forall (m : list (N * V)) k0, Forall (N.lt k0) (map fst m) -> aget k0 m = None) as Hsmall.
  { intros m k0 H. apply aget_None_notin. intros C. rewrite Forall_forall in H. specialize (H _ C). lia. }
  induction m1 as [|[k1 v1] r1 IH]; intros m2 S1 S2 E.
  - destruct m2 as [|[k2 v2] r2]; [reflexivity|]. specialize (E k2). cbn [aget] in E. rewrite N.eqb_refl in E. discriminate.
  - destruct m2 as [|[k2 v2] r2]; [specialize (E k1); cbn [aget] in E; rewrite N.eqb_refl in E; discriminate|].
    unfold amap_sorted in S1, S2. cbn [map fst] in S1, S2.
    inversion S1 as [|? ? S1' H1]; subst. inversion S2 as [|? ? S2' H2]; subst.
    assert (k1 = k2) as ->.
    { pose proof (E k1) as Ea. pose proof (E k2) as Eb. cbn [aget] in Ea, Eb. rewrite N.eqb_refl in Ea, Eb.
      destruct (k1 =? k2)%N eqn:E12; [now apply N.eqb_eq|]. rewrite N.eqb_sym, E12 in Eb.
      symmetry in Ea. apply aget_Some_In in Ea. apply aget_Some_In in Eb.
      apply (in_map fst) in Ea. apply (in_map fst) in Eb. cbn [fst] in Ea, Eb.
      rewrite Forall_forall in H1, H2. specialize (H1 _ Eb). specialize (H2 _ Ea). lia. }
    assert (v1 = v2) as -> by (specialize (E k2); cbn [aget] in E; rewrite N.eqb_refl in E; congruence).
    f_equal. apply IH; [exact S1'|exact S2'|]. intros k. specialize (E k). cbn [aget] in E.
    destruct (k =? k2)%N eqn:Ek; [|exact E]. apply N.eqb_eq in Ek. subst k.
    rewrite (Hsmall _ _ H1), (Hsmall _ _ H2). reflexivity.
Qed.

Lemma aget_fold_ains {V} (es : list (N * V)) : forall d k, NoDup (map fst es) ->
  aget k (fold_left (fun acc e => ains (fst e) (snd e) acc) es d)
  = match aget k es with Some v => Some v | None => aget k d end.
Proof.
  induction es as [|[k0 v0] es IH]; intros d k ND; cbn [fold_left aget fst snd]; [reflexivity|].
  inversion ND as [|? ? Hn ND']; subst. rewrite IH by exact ND'. rewrite aget_ains.
  destruct (k =? k0)%N eqn:E; [|reflexivity]. apply N.eqb_eq in E. subst.
  apply aget_None_notin in Hn. now rewrite Hn.
Qed.

Lemma fold_ains_sorted {V} (es : list (N * V)) : forall d, amap_sorted d ->
  amap_sorted (fold_left (fun acc e => ains (fst e) (snd e) acc) es d).
Proof. induction es as [|e es IH]; intros d S; cbn [fold_left]; [exact S|]. apply IH. now apply ains_sorted. Qed.

Section WasmFacts.
  Variable curated : config.
  Variable word_id : text -> N.
  Variable raw_lints : text -> language -> config -> dict -> nat -> list rlint.
  Variable ctx : rlint -> text -> language -> dict -> N.

  Notation lint := (api_lint curated raw_lints ctx).
  Notation lint_kept := (lint_kept curated raw_lints ctx).
  Notation step := (step curated word_id raw_lints ctx).
  Notation run := (run curated word_id raw_lints ctx).

  Definition raw_of (st : state) (t : text) (lang : language) : list rlint :=
    raw_lints t lang (cfg_fill_with_curated curated (s_cfg st)) (s_lint_dict st) (s_dialect st).

  (* what a well-formed answer of `lint` is *)
  Definition lints_wellformed (raw : list rlint) (t : text) (lang : language) (ls : list wlint) : Prop :=
    Forall (fun w => span_in (length t) (rspan (winner w))
                     /\ wproblem w = slice t (sstart (rspan (winner w))) (send (rspan (winner w)))
                     /\ wlang w = lang
                     /\ In (winner w) raw) ls
    /\ ForallOrdPairs (fun a b => rdisjoint (winner a) (winner b)) ls.

  Lemma lint_kept_spec st t lang :
    lint_kept st t lang =
    filter (fun l => negb (hmem (ctx l t lang (s_lint_dict st)) (s_ignored st))) (ro_full (raw_of st t lang)).
  Proof. unfold Wasm.lint_kept. now rewrite remove_ignored_filter. Qed.

  Theorem lint_wellformed st t lang :
    Forall (fun l => span_in (length t) (rspan l)) (raw_of st t lang) ->
    exists ls, lint st t lang = Ok ls /\ lints_wellformed (raw_of st t lang) t lang ls.
  Proof.
    intros B. set (raw := raw_of st t lang) in *.
    assert (Forall (fun l => span_in (length t) (rspan l)) (lint_kept st t lang)) as BK.
    { rewrite lint_kept_spec. apply Forall_forall. intros l Hl. apply filter_In in Hl. destruct Hl as [Hl _].
      rewrite Forall_forall in B. apply B. now apply ro_full_In. }
    exists (map (with_text t lang) (lint_kept st t lang)). split.
    - unfold api_lint. now apply attach_in_bounds.
    - split.
      + apply Forall_forall. intros w Hw. apply in_map_iff in Hw. destruct Hw as [l [<- Hl]].
        cbn [with_text winner wproblem wlang]. rewrite Forall_forall in BK. repeat split; try now apply BK.
        rewrite lint_kept_spec in Hl. apply filter_In in Hl. apply ro_full_In. tauto.
      + apply FOP_map. cbn [with_text winner]. rewrite lint_kept_spec. apply FOP_filter.
        apply ro_full_disjoint. eapply Forall_impl; [|exact B]. intros l [H _]. exact H.
  Qed.

  (* ... for every history: every answer to a lint call is well-formed *)
  Definition answer_ok (c : call) (o : out) : Prop :=
    match c with
    | CLint t lang => exists ls, o = OLints ls /\ exists raw, lints_wellformed raw t lang ls
    | _ => True
    end.

  Theorem history_wellformed :
    (forall t lang cfg d dia, Forall (fun l => span_in (length t) (rspan l)) (raw_lints t lang cfg d dia)) ->
    forall cs st, Forall2 answer_ok cs (snd (run st cs)).
  Proof.
    intros B cs. induction cs as [|c cs IH]; intros st; cbn [Wasm.run]; [constructor|].
    destruct (step st c) as [st1 o] eqn:E. specialize (IH st1).
    destruct (run st1 cs) as [st2 os] eqn:E2. cbn [snd] in *. constructor.
    - destruct c; cbn [answer_ok]; try exact I.
      cbn [Wasm.step] in E. destruct (lint_wellformed st t lang (B _ _ _ _ _)) as [ls [H W]].
      rewrite H in E. injection E as _ <-. exists ls. split; [reflexivity|]. eexists; exact W.
    - exact IH.
  Qed.

  (* ---------- apply_suggestion ---------- *)
  Theorem apply_spec_wasm st t l s :
    span_in (length t) (rspan (winner l)) ->
    let sp := rspan (winner l) in
    step st (CApply t l s) =
      (push_record st t l, OText (firstn (sstart sp) t ++ repl s (slice t (sstart sp) (send sp)) ++ skipn (send sp) t))
    /\ length (s_stats (push_record st t l)) = S (length (s_stats st))
    /\ s_cfg (push_record st t l) = s_cfg st /\ s_user (push_record st t l) = s_user st
    /\ s_lint_dict (push_record st t l) = s_lint_dict st /\ s_ignored (push_record st t l) = s_ignored st
    /\ s_dialect (push_record st t l) = s_dialect st.
  Proof.
    intros H sp. cbn [Wasm.step]. rewrite (apply_spec s _ t H). unfold splice. fold sp.
    split; [reflexivity|]. cbn [push_record s_stats s_cfg s_user s_lint_dict s_ignored s_dialect].
    rewrite app_length. cbn [length]. repeat split; lia.
  Qed.

  (* ---------- ignore_lint ---------- *)
  Theorem ignore_spec st t lang ls l :
    lint st t lang = Ok ls -> In l ls ->
    let st' := fst (step st (CIgnore t l)) in
    let same (w : wlint) := (ctx (winner w) t lang (s_lint_dict st) =? ctx (winner l) t lang (s_lint_dict st))%N in
    lint st' t lang = Ok (filter (fun w => negb (same w)) ls)
    /\ ~ In l (filter (fun w => negb (same w)) ls)
    /\ s_cfg st' = s_cfg st /\ s_user st' = s_user st /\ s_lint_dict st' = s_lint_dict st
    /\ s_stats st' = s_stats st /\ s_dialect st' = s_dialect st.
  Proof.
    intros HL Hin st' same. unfold api_lint in HL.
    destruct (attach_shape _ _ _ _ HL) as [HM HLang].
    assert (wlang l = lang) as El by (rewrite Forall_forall in HLang; now apply HLang).
    split; [|split].
    - unfold api_lint. subst st'. cbn [Wasm.step fst].
      assert (lint_kept (ignore_lint ctx st t l) t lang
              = filter (fun r => negb (ctx r t lang (s_lint_dict st) =? ctx (winner l) t lang (s_lint_dict st))%N) (lint_kept st t lang)) as EK.
      { rewrite !lint_kept_spec. unfold raw_of. cbn [ignore_lint s_cfg s_lint_dict s_dialect s_ignored]. rewrite El.
        rewrite filter_filter. apply filter_ext. intros r. now rewrite hmem_hadd, negb_orb. }
      rewrite EK. unfold same.
      exact (attach_filter t lang (fun r => negb (ctx r t lang (s_lint_dict st) =? ctx (winner l) t lang (s_lint_dict st))%N) _ _ HL).
    - intros C. apply filter_In in C. destruct C as [_ C]. unfold same in C. rewrite N.eqb_refl in C. discriminate.
    - subst st'. cbn [Wasm.step fst ignore_lint s_cfg s_user s_lint_dict s_stats s_dialect]. auto.
  Qed.

  (* ---------- lint reads the state only through cfg, lint dictionary, dialect and ignore-set membership ---------- *)
  Lemma lint_congr st1 st2 t lang :
    s_cfg st1 = s_cfg st2 -> s_lint_dict st1 = s_lint_dict st2 -> s_dialect st1 = s_dialect st2 ->
    (forall h, hmem h (s_ignored st1) = hmem h (s_ignored st2)) ->
    lint st1 t lang = lint st2 t lang.
  Proof.
    intros Hc Hd Hdi Hi. unfold api_lint, Wasm.lint_kept. rewrite Hc, Hd, Hdi. f_equal.
    apply remove_ignored_ext. exact Hi.
  Qed.

  (* ---------- the ignore set only grows unless it is cleared ---------- *)
  Lemma step_ignored_grows st c h :
    c <> CClearIgnored -> hmem h (s_ignored st) = true -> hmem h (s_ignored (fst (step st c))) = true.
  Proof.
    intros NC H. destruct c; cbn [Wasm.step fst]; try exact H; try congruence.
    - cbn [ignore_lint s_ignored]. rewrite hmem_hadd, H. reflexivity.
    - destruct (ignored_from_json json) as [hs|]; cbn [fst]; [|exact H].
      cbn [set_ignored s_ignored]. rewrite hmem_fold_hadd, H. reflexivity.
    - unfold import_words. destruct (_ <? _); cbn [synchronize s_ignored]; exact H.
    - destruct c as [c|]; cbn [fst set_cfg s_ignored]; exact H.
  Qed.

  Lemma run_ignored_grows cs : forall st h,
    Forall (fun c => c <> CClearIgnored) cs -> hmem h (s_ignored st) = true ->
    hmem h (s_ignored (fst (run st cs))) = true.
  Proof.
    induction cs as [|c cs IH]; intros st h F H; cbn [Wasm.run]; [exact H|].
    inversion F as [|? ? Hc Hcs]; subst.
    pose proof (step_ignored_grows st c h Hc H) as H1.
    destruct (step st c) as [st1 o]. cbn [fst] in H1. specialize (IH st1 h Hcs H1).
    destruct (run st1 cs) as [st2 os]. exact IH.
  Qed.

  (* an ignored context stays away in every later answer, whatever is called in between, until the
     ignore list is cleared.  NB: the context is computed with the lint dictionary of the moment. *)
  Theorem ignore_persistent st t l cs t2 lang2 ls :
    Forall (fun c => c <> CClearIgnored) cs ->
    let st1 := fst (step st (CIgnore t l)) in
    let st2 := fst (run st1 cs) in
    lint st2 t2 lang2 = Ok ls ->
    Forall (fun w => ctx (winner w) t2 lang2 (s_lint_dict st2) <> ctx (winner l) t (wlang l) (s_lint_dict st)) ls.
  Proof.
    intros F st1 st2 HL.
    assert (hmem (ctx (winner l) t (wlang l) (s_lint_dict st)) (s_ignored st2) = true) as HI.
    { apply run_ignored_grows; [exact F|]. subst st1. cbn [Wasm.step fst ignore_lint s_ignored].
      rewrite hmem_hadd, N.eqb_refl. apply orb_true_r. }
    unfold api_lint in HL. destruct (attach_shape _ _ _ _ HL) as [HM _].
    apply Forall_forall. intros w Hw C.
    assert (In (winner w) (lint_kept st2 t2 lang2)) as Hk by (rewrite <- HM; now apply in_map).
    rewrite lint_kept_spec in Hk. apply filter_In in Hk. destruct Hk as [_ Hk].
    rewrite C, HI in Hk. discriminate.
  Qed.

  (* ---------- export / clear / import of the ignore list ---------- *)
  Theorem ignored_roundtrip st :
    exists j, step st CExportIgnored = (st, OJson j) /\
      ignored_from_json j = Some (s_ignored st) /\
      (forall st', exists st2, step st' (CImportIgnored j) = (st2, OUnit) /\
         (forall h, hmem h (s_ignored st2) = hmem h (s_ignored st') || hmem h (s_ignored st)) /\
         s_cfg st2 = s_cfg st' /\ s_user st2 = s_user st' /\ s_lint_dict st2 = s_lint_dict st' /\
         s_stats st2 = s_stats st' /\ s_dialect st2 = s_dialect st') /\
      let st1 := fst (step st CClearIgnored) in
      let st2 := fst (step st1 (CImportIgnored j)) in
      (forall h, hmem h (s_ignored st2) = hmem h (s_ignored st)) /\
      (forall t lang, lint st2 t lang = lint st t lang).
  Proof.
    exists (print_ignored (s_ignored st)). split; [reflexivity|].
    pose proof (ignored_json_roundtrip (s_ignored st)) as RT. split; [exact RT|]. split.
    - intros st'. cbn [Wasm.step]. rewrite RT. eexists. split; [reflexivity|].
      cbn [set_ignored s_ignored s_cfg s_user s_lint_dict s_stats s_dialect]. split; [|auto].
      intros h. apply hmem_fold_hadd.
    - cbn [Wasm.step fst]. rewrite RT. cbn [fst set_ignored s_ignored].
      assert (forall h, hmem h (fold_left hadd (s_ignored st) []) = hmem h (s_ignored st)) as E
        by (intros h; now rewrite hmem_fold_hadd).
      split; [exact E|]. intros t lang. apply lint_congr; try reflexivity. exact E.
  Qed.

  (* ---------- custom words ---------- *)
  Definition dict_wf (d : dict) : Prop := amap_sorted d /\ Forall (fun kw => fst kw = word_id (snd kw)) d.
  Definition entry (w : text) : N * text := (word_id w, w).

  Lemma dict_extend_entries ws : forall d,
    dict_extend word_id d ws = fold_left (fun acc e => ains (fst e) (snd e) acc) (map entry ws) d.
  Proof. induction ws as [|w ws IH]; intros d; cbn [dict_extend fold_left map]; [reflexivity|]. apply IH. Qed.

  Lemma ains_In {V} k (v : V) m e : In e (ains k v m) -> e = (k, v) \/ In e m.
  Proof.
    induction m as [|[k0 v0] r IH]; cbn [ains In]; [intros [H|[]]; now left|].
    destruct (N.compare k k0); cbn [In].
    - intros [H|H]; [now left|right; now right].
    - intros [H|[H|H]]; [now left|right; now left|right; now right].
    - intros [H|H]; [right; now left|]. apply IH in H. destruct H; [now left|right; now right].
  Qed.

  Lemma dict_extend_wf ws : forall d, dict_wf d -> dict_wf (dict_extend word_id d ws).
  Proof.
    induction ws as [|w ws IH]; intros d W; cbn [dict_extend fold_left]; [exact W|].
    apply IH. destruct W as [S K]. split; [now apply ains_sorted|].
    apply Forall_forall. intros e He. apply ains_In in He. destruct He as [->|He]; [reflexivity|].
    rewrite Forall_forall in K. now apply K.
  Qed.

  Lemma dict_wf_nil : dict_wf [].
  Proof. split; constructor. Qed.

  (* importing the exported words, in any order, into an empty dictionary rebuilds the dictionary *)
  Theorem words_reimport d ws : dict_wf d -> Permutation ws (map snd d) -> dict_extend word_id [] ws = d.
  Proof.
    intros [S K] P.
    assert (map entry (map snd d) = d) as Ed.
    { clear S P. induction d as [|[k w] d IH]; cbn [map snd]; [reflexivity|].
      inversion K as [|? ? Hk Hd]; subst. cbn [fst snd] in Hk. unfold entry at 1. rewrite <- Hk. f_equal. now apply IH. }
    assert (Permutation (map entry ws) d) as Pe by (rewrite <- Ed; now apply Permutation_map).
    assert (NoDup (map fst (map entry ws))) as ND.
    { eapply Permutation_NoDup; [apply Permutation_map, Permutation_sym, Pe|now apply sorted_nodup]. }
    apply amap_ext.
    - rewrite dict_extend_entries. apply fold_ains_sorted. constructor.
    - exact S.
    - intros k. rewrite dict_extend_entries, aget_fold_ains by exact ND. cbn [aget].
      rewrite (aget_perm k _ _ ND Pe). now destruct (aget k d).
  Qed.

  Lemma cfg_merge_clear_id c : forall a, cfg_merge_from a (cfg_clear c) = a.
  Proof. unfold cfg_merge_from, cfg_clear. induction c as [|kv c IH]; intros a; cbn [map fold_left snd]; [reflexivity|apply IH]. Qed.

  (* a second linter that imports the exported words ends up synchronised on exactly those words *)
  Theorem words_roundtrip st dia ws :
    dict_wf (s_user st) -> Permutation ws (export_words st) ->
    let st2 := import_words curated word_id (new curated dia) ws in
    s_user st2 = s_user st /\ s_lint_dict st2 = s_user st /\ s_cfg st2 = cfg_clear curated /\ s_ignored st2 = []
    /\ export_words st2 = export_words st.
  Proof.
    intros W P st2. unfold export_words in *. pose proof (words_reimport _ _ W P) as E.
    subst st2. unfold import_words, new. cbn [s_user s_cfg s_lint_dict s_ignored s_stats s_dialect length].
    rewrite E. destruct (0 <? length (s_user st)) eqn:L; cbn [synchronize s_user s_lint_dict s_cfg s_ignored].
    - rewrite cfg_merge_clear_id. auto.
    - apply Nat.ltb_ge in L. destruct (s_user st); [auto|cbn [length] in L; lia].
  Qed.

  (* hence the same behaviour — provided the first linter was synchronised with what it exports *)
  Corollary words_roundtrip_behaviour st st' ws :
    dict_wf (s_user st) -> Permutation ws (export_words st) ->
    s_lint_dict st = s_user st ->
    s_user st' = [] -> s_lint_dict st' = [] -> s_dialect st' = s_dialect st ->
    (forall h, hmem h (s_ignored st') = hmem h (s_ignored st)) ->
    let st2 := import_words curated word_id st' ws in
    s_cfg st2 = s_cfg st ->
    forall t lang, lint st2 t lang = lint st t lang.
  Proof.
    intros W P Sy U Ld D I st2 C t lang. apply lint_congr; [exact C| | |].
    - subst st2. unfold import_words. rewrite U. cbn [s_user length s_cfg s_lint_dict s_ignored s_stats s_dialect].
      unfold export_words in P. rewrite (words_reimport _ _ W P).
      destruct (0 <? length (s_user st)) eqn:L; cbn [synchronize s_lint_dict s_user]; [now rewrite Sy|].
      apply Nat.ltb_ge in L. rewrite Sy, Ld. destruct (s_user st); [reflexivity|cbn [length] in L; lia].
    - subst st2. unfold import_words. destruct (_ <? _); cbn [synchronize s_dialect]; exact D.
    - subst st2. unfold import_words. destruct (_ <? _); cbn [synchronize s_ignored]; exact I.
  Qed.

  (* ... and it need not be: a respelling-only import leaves the linter on the old spelling *)
  Theorem words_desync dia w1 w2 :
    w1 <> w2 -> word_id w1 = word_id w2 ->
    let st := fst (run (new curated dia) [CImportWords [w1]; CImportWords [w2]]) in
    let st2 := import_words curated word_id (new curated dia) (export_words st) in
    export_words st = [w2] /\ s_user st = [(word_id w1, w2)]
    /\ s_lint_dict st = [(word_id w1, w1)] /\ s_lint_dict st2 = [(word_id w1, w2)]
    /\ s_lint_dict st <> s_lint_dict st2
    /\ s_cfg st = s_cfg st2 /\ s_ignored st = s_ignored st2 /\ s_dialect st = s_dialect st2
    /\ (forall t lang,
          lint st t lang = attach t lang (ro_full (raw_lints t lang (cfg_fill_with_curated curated (cfg_clear curated)) [(word_id w1, w1)] dia))
          /\ lint st2 t lang = attach t lang (ro_full (raw_lints t lang (cfg_fill_with_curated curated (cfg_clear curated)) [(word_id w1, w2)] dia))).
  Proof.
    intros Hne Hid st st2.
    assert (st = mkst (cfg_clear curated) [(word_id w1, w2)] [(word_id w1, w1)] [] [] dia) as Est.
    { subst st. cbn [Wasm.run Wasm.step fst]. unfold import_words, new, dict_extend.
      cbn [s_user s_cfg s_lint_dict s_ignored s_stats s_dialect fold_left ains length Nat.ltb Nat.leb synchronize].
      rewrite cfg_merge_clear_id. cbn [s_user s_cfg s_lint_dict s_ignored s_stats s_dialect fold_left ains length].
      rewrite <- Hid, N.compare_refl. cbn [length Nat.ltb Nat.leb s_user s_cfg s_lint_dict s_ignored s_stats s_dialect]. reflexivity. }
    assert (st2 = mkst (cfg_clear curated) [(word_id w1, w2)] [(word_id w1, w2)] [] [] dia) as Est2.
    { subst st2. rewrite Est. unfold export_words, import_words, new, dict_extend.
      cbn [map snd s_user s_cfg s_lint_dict s_ignored s_stats s_dialect fold_left ains length Nat.ltb Nat.leb].
      unfold synchronize. cbn [s_user s_cfg s_lint_dict s_ignored s_stats s_dialect].
      rewrite cfg_merge_clear_id, Hid. reflexivity. }
    rewrite Est, Est2. cbn [s_user s_cfg s_lint_dict s_ignored s_stats s_dialect export_words map snd].
    repeat split; try reflexivity.
    intros C. injection C as C. apply Hne. exact C.
  Qed.

  (* ---------- configuration: the overlay around lint, and what synchronize_lint_dict does to it ---------- *)
  Lemma aget_cfg_merge_from (b : config) : forall (a : config) k, NoDup (map fst b) ->
    aget k (cfg_merge_from a b) = match aget k b with Some (Some v) => Some (Some v) | _ => aget k a end.
  Proof.
    unfold cfg_merge_from. induction b as [|[k0 v0] b IH]; intros a k ND; cbn [fold_left aget fst snd]; [reflexivity|].
    inversion ND as [|? ? Hn ND']; subst. rewrite IH by exact ND'.
    destruct (k =? k0)%N eqn:E.
    - apply N.eqb_eq in E. subst k0. apply aget_None_notin in Hn. rewrite Hn.
      destruct v0 as [v|]; [rewrite aget_ains, N.eqb_refl|]; reflexivity.
    - destruct (aget k b) as [[v|]|]; try reflexivity; destruct v0 as [v'|]; try reflexivity; now rewrite aget_ains, E.
  Qed.

  Lemma cfg_merge_inherits (b : config) : forall (a : config) k,
    aget k (cfg_merge_from a b) = aget k a \/ exists v, aget k (cfg_merge_from a b) = Some (Some v).
  Proof.
    unfold cfg_merge_from. induction b as [|[k0 v0] b IH]; intros a k; cbn [fold_left fst snd]; [now left|].
    destruct v0 as [v|]; [|apply IH].
    destruct (IH (ains k0 (Some v) a) k) as [H|H]; [|right; exact H].
    rewrite aget_ains in H. destruct (k =? k0)%N; [right; exists v; exact H|left; exact H].
  Qed.

  Lemma cfg_merge_sorted (b : config) : forall a, amap_sorted a -> amap_sorted (cfg_merge_from a b).
  Proof.
    unfold cfg_merge_from. induction b as [|[k0 v0] b IH]; intros a S; cbn [fold_left fst snd]; [exact S|].
    apply IH. destruct v0; [now apply ains_sorted|exact S].
  Qed.

  Lemma aget_cfg_clear (c : config) k :
    aget k (cfg_clear c) = match aget k c with Some _ => Some None | None => None end.
  Proof.
    unfold cfg_clear. induction c as [|[k0 v0] c IH]; cbn [map aget fst]; [reflexivity|].
    destruct (k =? k0)%N; [reflexivity|exact IH].
  Qed.

  Lemma cfg_clear_sorted (c : config) : amap_sorted c -> amap_sorted (cfg_clear c).
  Proof. unfold amap_sorted, cfg_clear. rewrite map_map. intros S. exact S. Qed.

  (* the configuration the rules see during lint: the user's explicit choices over the curated defaults;
     null / absent entries fall back to the default *)
  Theorem config_overlay (c : config) k : amap_sorted c ->
    aget k (cfg_fill_with_curated curated c)
    = match aget k c with Some (Some v) => Some (Some v) | _ => aget k curated end.
  Proof. intros S. unfold cfg_fill_with_curated. apply aget_cfg_merge_from. now apply sorted_nodup. Qed.

  (* invariant of every configuration reachable from Linter::new: sorted, an unset entry is a curated
     rule, every curated rule has an entry *)
  Definition cfg_ok (c : config) : Prop :=
    amap_sorted c /\
    forall k, match aget k c with
              | Some None => aget k curated <> None
              | Some (Some _) => True
              | None => aget k curated = None
              end.

  Lemma cfg_ok_new : amap_sorted curated -> cfg_ok (cfg_clear curated).
  Proof.
    intros S. split; [now apply cfg_clear_sorted|]. intros k. rewrite aget_cfg_clear.
    destruct (aget k curated); [discriminate|reflexivity].
  Qed.

  Lemma cfg_ok_merge c x : cfg_ok c -> cfg_ok (cfg_merge_from c x).
  Proof.
    intros [S K]. split; [now apply cfg_merge_sorted|]. intros k. specialize (K k).
    destruct (cfg_merge_inherits x c k) as [H|[v H]]; rewrite H; [exact K|exact I].
  Qed.

  (* synchronize_lint_dict gives back the configuration it found *)
  Theorem sync_keeps_config c : amap_sorted curated -> cfg_ok c -> cfg_merge_from (cfg_clear curated) c = c.
  Proof.
    intros SC [S K]. apply amap_ext; [apply cfg_merge_sorted; now apply cfg_clear_sorted|exact S|].
    intros k. rewrite aget_cfg_merge_from by (now apply sorted_nodup). specialize (K k).
    rewrite aget_cfg_clear. destruct (aget k c) as [[v|]|]; [reflexivity| |].
    - destruct (aget k curated); [reflexivity|congruence].
    - now rewrite K.
  Qed.

  Lemma step_cfg_ok st c : amap_sorted curated -> cfg_ok (s_cfg st) -> cfg_ok (s_cfg (fst (step st c))).
  Proof.
    intros SC H. destruct c; cbn [Wasm.step fst]; try exact H.
    - destruct (ignored_from_json json); exact H.
    - unfold import_words. destruct (_ <? _); cbn [synchronize s_cfg]; [|exact H].
      now rewrite sync_keeps_config.
    - destruct c as [c|]; cbn [fst set_cfg s_cfg]; [now apply cfg_ok_merge|exact H].
  Qed.

  Theorem run_cfg_ok cs : forall st, amap_sorted curated -> cfg_ok (s_cfg st) -> cfg_ok (s_cfg (fst (run st cs))).
  Proof.
    induction cs as [|c cs IH]; intros st SC H; cbn [Wasm.run]; [exact H|].
    pose proof (step_cfg_ok st c SC H) as H1. destruct (step st c) as [st1 o]. cbn [fst] in H1.
    specialize (IH st1 SC H1). destruct (run st1 cs) as [st2 os]. exact IH.
  Qed.

  (* in every history that starts with Linter::new, importing words never changes the configuration *)
  Theorem import_words_keeps_config dia cs ws : amap_sorted curated ->
    let st := fst (run (new curated dia) cs) in
    s_cfg (import_words curated word_id st ws) = s_cfg st.
  Proof.
    intros SC st. assert (cfg_ok (s_cfg st)) as H by (apply run_cfg_ok; [exact SC|now apply cfg_ok_new]).
    unfold import_words. destruct (_ <? _); cbn [synchronize s_cfg]; [now apply sync_keeps_config|reflexivity].
  Qed.
End WasmFacts.

(* ---------- a toy instance of the Section variables, for witnesses and non-vacuity examples:
   WordId = the length of the word (so equally long words collide, as re-cased spellings do);
   the only rule reports a text that is not, as a whole, a word of the user dictionary ---------- *)
Definition toy_word_id (w : text) : N := N.of_nat (length w).
Definition text_eqb (a b : text) : bool := if list_eq_dec N.eq_dec a b then true else false.
Definition toy_raw (t : text) (_ : language) (_ : config) (d : dict) (_ : nat) : list rlint :=
  if existsb (fun kw => text_eqb (snd kw) t) d then []
  else [mkrl (mkspan 0 (length t)) Spelling [] [] 63].
Definition toy_ctx (l : rlint) (_ : text) (_ : language) (_ : dict) : N := N.of_nat (sstart (rspan l)).

Theorem words_roundtrip_refuted :
  exists (curated : config) (word_id : text -> N) raw_lints ctx (cs : list call) (t : text) (lang : language),
    let st := fst (run curated word_id raw_lints ctx (new curated 0) cs) in
    let st2 := import_words curated word_id (new curated 0) (export_words st) in
    api_lint curated raw_lints ctx st t lang <> api_lint curated raw_lints ctx st2 t lang.
Proof.
  exists [], toy_word_id, toy_raw, toy_ctx, [CImportWords [[97; 98]%N]; CImportWords [[65; 66]%N]], [97; 98]%N, Plain.
  vm_compute. discriminate.
Qed.
