(* WasmProofs.v — lemmas about Model/Wasm.v (the harper_wasm::Linter state machine). *)
Require Import Base Overlap Suggestion LintJson Wasm ListLemmas OverlapProofs SuggestionProofs LintJsonProofs.
From Coq Require Import Sorting.Sorted Sorting.Permutation.

(* ---------- small list facts ---------- *)
Lemma Forall2_flat_map_single {A B} (g : A -> list B) (P : A -> B -> Prop) l :
  (forall a, In a l -> exists b, g a = [b] /\ P a b) -> Forall2 P l (flat_map g l).
Proof.
  induction l as [|a l IH]; intros H; cbn [flat_map]; [constructor|].
  destruct (H a (or_introl eq_refl)) as [b [-> Pb]]. cbn [app].
  constructor; [exact Pb|]. apply IH. intros x Hx. apply H. now right.
Qed.

Lemma Forall2_Forall_transfer {A B} (P : A -> B -> Prop) (Q : A -> Prop) (Q' : B -> Prop) l l' :
  (forall a b, P a b -> Q a -> Q' b) -> Forall2 P l l' -> Forall Q l -> Forall Q' l'.
Proof.
  intros T F. induction F as [|a b l l' Pab F IH]; intros HQ; [constructor|].
  inversion HQ; subst. constructor; [eapply T; eassumption|now apply IH].
Qed.

Lemma FOP_Forall2 {A B} (R : A -> A -> Prop) (R' : B -> B -> Prop) (P : A -> B -> Prop) :
  (forall a a' b b', P a b -> P a' b' -> R a a' -> R' b b') ->
  forall l l', Forall2 P l l' -> ForallOrdPairs R l -> ForallOrdPairs R' l'.
Proof.
  intros T l l' F. induction F as [|a b l l' Pab F IH]; intros H; [constructor|].
  inversion H as [|? ? Ha Hl]; subst. constructor; [|now apply IH].
  eapply Forall2_Forall_transfer; [|exact F|exact Ha].
  intros a' b' Pab' Raa'. eapply T; eassumption.
Qed.

Lemma FOP_filter {A} (R : A -> A -> Prop) p l : ForallOrdPairs R l -> ForallOrdPairs R (filter p l).
Proof.
  induction 1 as [|a l Ha Hl IH]; cbn [filter]; [constructor|].
  destruct (p a); [|exact IH]. constructor; [|exact IH].
  apply Forall_forall. intros x Hx. apply filter_In in Hx. destruct Hx as [Hx _].
  rewrite Forall_forall in Ha. now apply Ha.
Qed.

Lemma filter_filter {A} (p q : A -> bool) l : filter p (filter q l) = filter (fun x => q x && p x) l.
Proof.
  induction l as [|x l IH]; cbn [filter]; [reflexivity|].
  destruct (q x); cbn [andb filter]; [destruct (p x); now rewrite IH|exact IH].
Qed.

Lemma FOP_map {A B} (f : A -> B) (R : B -> B -> Prop) l :
  ForallOrdPairs (fun a b => R (f a) (f b)) l -> ForallOrdPairs R (map f l).
Proof.
  induction 1 as [|a l Ha Hl IH]; cbn [map]; constructor; [|exact IH].
  apply Forall_forall. intros y Hy. apply in_map_iff in Hy. destruct Hy as [x [<- Hx]].
  rewrite Forall_forall in Ha. now apply Ha.
Qed.

(* ---------- remove_overlaps on full lints ---------- *)
Lemma number_In i raw l :
  In l (number i raw) -> exists r, nth_error raw (lid l - i) = Some r /\ lspan l = rspan r /\ i <= lid l.
Proof.
  revert i. induction raw as [|r raw IH]; intros i H; cbn [number] in H; [contradiction|].
  destruct H as [<-|H].
  - exists r. cbn [lid lspan]. rewrite Nat.sub_diag. cbn [nth_error]. auto.
  - destruct (IH (S i) H) as [r' [Hn [Hs Hi]]]. exists r'.
    replace (lid l - i) with (S (lid l - S i)) by lia. cbn [nth_error]. repeat split; try assumption; lia.
Qed.

Definition corresponds (raw : list rlint) (l : lint) (r : rlint) : Prop :=
  nth_error raw (lid l) = Some r /\ lspan l = rspan r.

Lemma ro_full_Forall2 raw : Forall2 (corresponds raw) (remove_overlaps (number 0 raw)) (ro_full raw).
Proof.
  unfold ro_full. apply Forall2_flat_map_single. intros l Hl.
  apply ro_kept_in in Hl. destruct (number_In 0 raw l Hl) as [r [Hn [Hs _]]].
  rewrite Nat.sub_0_r in Hn. exists r. rewrite Hn. split; [reflexivity|]. split; assumption.
Qed.

Lemma ro_full_In raw r : In r (ro_full raw) -> In r raw.
Proof.
  unfold ro_full. intros H. apply in_flat_map in H. destruct H as [l [_ H]].
  destruct (nth_error raw (lid l)) eqn:E; [|contradiction].
  destruct H as [<-|[]]. eapply nth_error_In; eassumption.
Qed.

Definition rdisjoint (a b : rlint) : Prop :=
  send (rspan a) <= sstart (rspan b) /\
  overlaps (rspan a) (rspan b) = false /\ overlaps (rspan b) (rspan a) = false /\
  forall c, ~ ((sstart (rspan a) <= c < send (rspan a)) /\ (sstart (rspan b) <= c < send (rspan b))).

Lemma number_wf i raw : Forall (fun r => span_wf (rspan r)) raw -> Forall lwf (number i raw).
Proof.
  revert i. induction raw as [|r raw IH]; intros i H; cbn [number]; [constructor|].
  inversion H; subst. constructor; [assumption|now apply IH].
Qed.

(* C13 lifted to full lints *)
Lemma ro_full_disjoint raw :
  Forall (fun r => span_wf (rspan r)) raw -> ForallOrdPairs rdisjoint (ro_full raw).
Proof.
  intros W. eapply FOP_Forall2; [|apply ro_full_Forall2|apply ro_disjoint, number_wf, W].
  intros a a' b b' [_ Hs] [_ Hs'] D. unfold disjoint_pair, covers, lstart, lend in D. unfold rdisjoint.
  rewrite <- Hs, <- Hs'. exact D.
Qed.

(* ---------- remove_ignored ---------- *)
Lemma hmem_In h s : hmem h s = true <-> In h s.
Proof.
  unfold hmem. rewrite existsb_exists. split.
  - intros [x [Hx E]]. apply N.eqb_eq in E. now subst.
  - intros H. exists h. split; [assumption|apply N.eqb_refl].
Qed.

Lemma remove_ignored_filter ign c ls :
  remove_ignored ign c ls = filter (fun l => negb (hmem (c l) ign)) ls.
Proof.
  destruct ign as [|h t]; [|reflexivity]. cbn [remove_ignored hmem existsb negb].
  induction ls as [|x xs IH]; cbn [filter]; [reflexivity|now rewrite <- IH].
Qed.

Lemma remove_ignored_ext a b c ls :
  (forall h, hmem h a = hmem h b) -> remove_ignored a c ls = remove_ignored b c ls.
Proof.
  intros H. rewrite !remove_ignored_filter. apply filter_ext. intros l. now rewrite H.
Qed.

Lemma hmem_hadd s h x : hmem x (hadd s h) = hmem x s || (x =? h)%N.
Proof.
  unfold hadd. destruct (hmem h s) eqn:E.
  - destruct (x =? h)%N eqn:X; [|now rewrite orb_false_r].
    apply N.eqb_eq in X. subst. now rewrite E.
  - unfold hmem. rewrite existsb_app. cbn [existsb]. now rewrite orb_false_r.
Qed.

Lemma hmem_fold_hadd hs : forall s x, hmem x (fold_left hadd hs s) = hmem x s || hmem x hs.
Proof.
  induction hs as [|h hs IH]; intros s x; cbn [fold_left].
  - cbn. now rewrite orb_false_r.
  - rewrite IH, hmem_hadd. cbn [hmem existsb]. now rewrite orb_assoc.
Qed.

(* ---------- problem text ---------- *)
Lemma get_content_in (t : text) sp :
  span_in (length t) sp -> get_content sp t = Ok (slice t (sstart sp) (send sp)).
Proof.
  intros [H1 H2]. unfold get_content, try_get_content.
  destruct (send sp <? sstart sp) eqn:E1; [apply Nat.ltb_lt in E1; lia|].
  destruct (length t <? send sp) eqn:E3; [apply Nat.ltb_lt in E3; lia|].
  destruct (length t <=? sstart sp) eqn:E2; cbn [orb bind]; [|reflexivity].
  apply Nat.leb_le in E2. unfold span_len, sub_chk.
  destruct (send sp <? sstart sp) eqn:E4; [discriminate|]. cbn [bind].
  replace (send sp - sstart sp) with 0 by lia. cbn [Nat.eqb]. unfold slice.
  replace (send sp - sstart sp) with 0 by lia. reflexivity.
Qed.

Definition with_text (t : text) (lang : language) (l : rlint) : wlint :=
  mkwl l (slice t (sstart (rspan l)) (send (rspan l))) lang.

Lemma attach_in_bounds t lang ls :
  Forall (fun l => span_in (length t) (rspan l)) ls -> attach t lang ls = Ok (map (with_text t lang) ls).
Proof.
  induction 1 as [|l ls Hl _ IH]; cbn [attach map]; [reflexivity|].
  rewrite (get_content_in _ _ Hl). cbn [bind]. rewrite IH. reflexivity.
Qed.

Lemma attach_filter t lang p ls ws :
  attach t lang ls = Ok ws -> attach t lang (filter p ls) = Ok (filter (fun w => p (winner w)) ws).
Proof.
  revert ws. induction ls as [|l ls IH]; intros ws H; cbn [attach] in H.
  - injection H as <-. reflexivity.
  - destruct (get_content (rspan l) t) as [pt|] eqn:E; cbn [bind] in H; [|discriminate].
    destruct (attach t lang ls) as [ws'|] eqn:E2; cbn [bind] in H; [|discriminate].
    injection H as <-. cbn [filter winner]. specialize (IH ws' eq_refl).
    destruct (p l); [|exact IH]. cbn [attach]. rewrite E. cbn [bind]. rewrite IH. reflexivity.
Qed.

Lemma attach_shape t lang ls ws :
  attach t lang ls = Ok ws -> map winner ws = ls /\ Forall (fun w => wlang w = lang) ws.
Proof.
  revert ws. induction ls as [|l ls IH]; intros ws H; cbn [attach] in H.
  - injection H as <-. split; constructor.
  - destruct (get_content (rspan l) t) as [pt|] eqn:E; cbn [bind] in H; [|discriminate].
    destruct (attach t lang ls) as [ws'|] eqn:E2; cbn [bind] in H; [|discriminate].
    injection H as <-. destruct (IH ws' eq_refl) as [M F]. split; [cbn [map winner]; now rewrite M|].
    constructor; [reflexivity|exact F].
Qed.


(* ---------- sorted association maps ---------- *)
Definition amap_sorted {V} (m : list (N * V)) : Prop := StronglySorted N.lt (map fst m).

Lemma aget_ains {V} k k' (v : V) m :
  aget k (ains k' v m) = if (k =? k')%N then Some v else aget k m.
Proof.
  induction m as [|[k0 v0] r IH]; cbn [ains aget]; [reflexivity|].
  destruct (N.compare k' k0) eqn:C.
  - apply N.compare_eq in C. subst k0. cbn [aget]. destruct (k =? k')%N; reflexivity.
  - cbn [aget]. reflexivity.
  - cbn [aget]. rewrite IH. destruct (k =? k0)%N eqn:E0; [|reflexivity].
    apply N.eqb_eq in E0. subst k0. destruct (k =? k')%N eqn:E1; [|reflexivity].
    apply N.eqb_eq in E1. subst k'. rewrite N.compare_refl in C. discriminate.
Qed.

Lemma ains_keys_In {V} k (v : V) m x : In x (map fst (ains k v m)) -> x = k \/ In x (map fst m).
Proof.
  induction m as [|[k0 v0] r IH]; cbn [ains map fst In]; [intros [H|[]]; now left|].
  destruct (N.compare k k0) eqn:C; cbn [map fst In].
  - apply N.compare_eq in C. subst. intros [H|H]; [now left|right; now right].
  - intros [H|[H|H]]; [now left|right; now left|right; now right].
  - intros [H|H]; [right; now left|]. apply IH in H. destruct H; [now left|right; now right].
Qed.

Lemma ains_sorted {V} k (v : V) m : amap_sorted m -> amap_sorted (ains k v m).
Proof.
  unfold amap_sorted. induction m as [|[k0 v0] r IH]; cbn [ains map fst]; intros S.
  - repeat constructor.
  - inversion S as [|? ? Sr Hall]; subst. destruct (N.compare k k0) eqn:C; cbn [map fst].
    + apply N.compare_eq in C. subst. constructor; assumption.
    + rewrite N.compare_lt_iff in C. constructor; [exact S|]. constructor; [exact C|].
      eapply Forall_impl; [|exact Hall]. intros; lia.
    + rewrite N.compare_gt_iff in C. constructor; [now apply IH|].
      apply Forall_forall. intros x Hx. apply ains_keys_In in Hx. destruct Hx as [->|Hx]; [exact C|].
      rewrite Forall_forall in Hall. now apply Hall.
Qed.

Lemma aget_Some_In {V} k (v : V) m : aget k m = Some v -> In (k, v) m.
Proof.
  induction m as [|[k0 v0] r IH]; cbn [aget]; [discriminate|].
  destruct (k =? k0)%N eqn:E; [apply N.eqb_eq in E; subst; intros H; injection H as <-; now left|].
  intros H. right. now apply IH.
Qed.

Lemma aget_None_notin {V} k (m : list (N * V)) : aget k m = None <-> ~ In k (map fst m).
Proof.
  induction m as [|[k0 v0] r IH]; cbn [aget map fst In]; [tauto|].
  destruct (k =? k0)%N eqn:E.
  - apply N.eqb_eq in E. subst. split; [discriminate|tauto].
  - apply N.eqb_neq in E. rewrite IH. split; [intros H [C|C]; [congruence|tauto]|tauto].
Qed.

Lemma In_aget_nodup {V} k (v : V) m : NoDup (map fst m) -> In (k, v) m -> aget k m = Some v.
Proof.
  induction m as [|[k0 v0] r IH]; cbn [aget map fst In]; [tauto|]. intros ND [H|H].
  - injection H as -> ->. now rewrite N.eqb_refl.
  - inversion ND as [|? ? Hn ND']; subst. destruct (k =? k0)%N eqn:E; [|now apply IH].
    apply N.eqb_eq in E. subst. exfalso. apply Hn. apply in_map_iff. exists (k0, v). split; [reflexivity|assumption].
Qed.

Lemma sorted_nodup {V} (m : list (N * V)) : amap_sorted m -> NoDup (map fst m).
Proof.
  unfold amap_sorted. induction 1 as [|a l S IH Hall]; constructor; [|exact IH].
  intros C. rewrite Forall_forall in Hall. specialize (Hall _ C). lia.
Qed.

Lemma aget_perm {V} k (a b : list (N * V)) : NoDup (map fst a) -> Permutation a b -> aget k a = aget k b.
Proof.
  intros ND P. assert (NoDup (map fst b)) as NDb by (eapply Permutation_NoDup; [apply Permutation_map; exact P|exact ND]).
  destruct (aget k a) as [v|] eqn:E.
  - symmetry. apply In_aget_nodup; [exact NDb|]. eapply Permutation_in; [exact P|]. now apply aget_Some_In.
  - destruct (aget k b) as [v|] eqn:E'; [|reflexivity].
    apply aget_Some_In in E'. apply (Permutation_in _ (Permutation_sym P)) in E'.
    apply (In_aget_nodup _ _ _ ND) in E'. congruence.
Qed.

Lemma amap_ext {V} (m1 : list (N * V)) : forall m2, amap_sorted m1 -> amap_sorted m2 ->
  (forall k, aget k m1 = aget k m2) -> m1 = m2.
Proof.
  assert (forall (m : list (N * V)) k0, Forall (N.lt k0) (map fst m) -> aget k0 m = None) as Hsmall.
  { intros m k0 H. apply aget_None_notin. intros C. rewrite Forall_forall in H. specialize (H _ C). lia. }
  induction m1 as [|[k1 v1] r1 IH]; intros m2 S1 S2 E.
  - destruct m2 as [|[k2 v2] r2]; [reflexivity|]. specialize (E k2). cbn [aget] in E. rewrite N.eqb_refl in E. discriminate.
  - destruct m2 as [|[k2 v2] r2]; [specialize (E k1); cbn [aget] in E; rewrite N.eqb_refl in E; discriminate|].
    unfold amap_sorted in S1, S2. cbn [map fst] in S1, S2.
    inversion S1 as [|? ? S1' H1]; subst. inversion S2 as [|? ? S2' H2]; subst.
    assert (k1 = k2) as ->.
    { pose proof (E k1) as Ea. pose proof (E k2) as Eb. cbn [aget] in Ea, Eb. rewrite N.eqb_refl in Ea, Eb.
      destruct (k1 =? k2)%N eqn:E12; [now apply N.eqb_eq|]. rewrite N.eqb_sym, E12 in Eb.
      symmetry in Ea. apply aget_Some_In in Ea. apply aget_Some_In in Eb.
      apply (in_map fst) in Ea. apply (in_map fst) in Eb. cbn [fst] in Ea, Eb.
      rewrite Forall_forall in H1, H2. specialize (H1 _ Eb). specialize (H2 _ Ea). lia. }
    assert (v1 = v2) as -> by (specialize (E k2); cbn [aget] in E; rewrite N.eqb_refl in E; congruence).
    f_equal. apply IH; [exact S1'|exact S2'|]. intros k. specialize (E k). cbn [aget] in E.
    destruct (k =? k2)%N eqn:Ek; [|exact E]. apply N.eqb_eq in Ek. subst k.
    rewrite (Hsmall _ _ H1), (Hsmall _ _ H2). reflexivity.
Qed.

Lemma aget_fold_ains {V} (es : list (N * V)) : forall d k, NoDup (map fst es) ->
  aget k (fold_left (fun acc e => ains (fst e) (snd e) acc) es d)
  = match aget k es with Some v => Some v | None => aget k d end.
Proof.
  induction es as [|[k0 v0] es IH]; intros d k ND; cbn [fold_left aget fst snd]; [reflexivity|].
  inversion ND as [|? ? Hn ND']; subst. rewrite IH by exact ND'. rewrite aget_ains.
  destruct (k =? k0)%N eqn:E; [|reflexivity]. apply N.eqb_eq in E. subst.
  apply aget_None_notin in Hn. now rewrite Hn.
Qed.

Lemma fold_ains_sorted {V} (es : list (N * V)) : forall d, amap_sorted d ->
  amap_sorted (fold_left (fun acc e => ains (fst e) (snd e) acc) es d).
Proof. induction es as [|e es IH]; intros d S; cbn [fold_left]; [exact S|]. apply IH. now apply ains_sorted. Qed.

(* ---------- MutableDictionary's PartialEq on the model's dictionaries ---------- *)
Lemma text_eqb_eq a : forall b, text_eqb a b = true <-> a = b.
Proof.
  induction a as [|x a IH]; intros [|y b]; cbn [text_eqb].
  - split; reflexivity.
  - split; discriminate.
  - split; discriminate.
  - rewrite andb_true_iff, N.eqb_eq, IH. split; [intros [-> ->]; reflexivity|intros H; injection H as -> ->; auto].
Qed.

Lemma dict_eqb_eq a : forall b, dict_eqb a b = true <-> a = b.
Proof.
  induction a as [|[k w] a IH]; intros [|[k' w'] b]; cbn [dict_eqb].
  - split; reflexivity.
  - split; discriminate.
  - split; discriminate.
  - rewrite !andb_true_iff, N.eqb_eq, text_eqb_eq, IH.
    split; [intros [[-> ->] ->]; reflexivity|intros H; injection H as -> -> ->; auto].
Qed.

Section WasmFacts.
  Variable curated : config.
  Variable word_id : text -> N.
  Variable raw_lints : text -> language -> config -> dict -> nat -> list rlint.
  Variable ctx : rlint -> text -> language -> dict -> N.

  Notation lint := (api_lint curated raw_lints ctx).
  Notation lint_kept := (lint_kept curated raw_lints ctx).
  Notation step := (step curated word_id raw_lints ctx).
  Notation run := (run curated word_id raw_lints ctx).

  Definition raw_of (st : state) (t : text) (lang : language) : list rlint :=
    raw_lints t lang (cfg_fill_with_curated curated (s_cfg st)) (s_lint_dict st) (s_dialect st).

  (* what a well-formed answer of `lint` is *)
  Definition lints_wellformed (raw : list rlint) (t : text) (lang : language) (ls : list wlint) : Prop :=
    Forall (fun w => span_in (length t) (rspan (winner w))
                     /\ wproblem w = slice t (sstart (rspan (winner w))) (send (rspan (winner w)))
                     /\ wlang w = lang
                     /\ In (winner w) raw) ls
    /\ ForallOrdPairs (fun a b => rdisjoint (winner a) (winner b)) ls.

  Lemma lint_kept_spec st t lang :
    lint_kept st t lang =
    filter (fun l => negb (hmem (ctx l t lang (s_lint_dict st)) (s_ignored st))) (ro_full (raw_of st t lang)).
  Proof. unfold Wasm.lint_kept. now rewrite remove_ignored_filter. Qed.

  Theorem lint_wellformed st t lang :
    Forall (fun l => span_in (length t) (rspan l)) (raw_of st t lang) ->
    exists ls, lint st t lang = Ok ls /\ lints_wellformed (raw_of st t lang) t lang ls.
  Proof.
    intros B. set (raw := raw_of st t lang) in *.
    assert (Forall (fun l => span_in (length t) (rspan l)) (lint_kept st t lang)) as BK.
    { rewrite lint_kept_spec. apply Forall_forall. intros l Hl. apply filter_In in Hl. destruct Hl as [Hl _].
      rewrite Forall_forall in B. apply B. now apply ro_full_In. }
    exists (map (with_text t lang) (lint_kept st t lang)). split.
    - unfold api_lint. now apply attach_in_bounds.
    - split.
      + apply Forall_forall. intros w Hw. apply in_map_iff in Hw. destruct Hw as [l [<- Hl]].
        cbn [with_text winner wproblem wlang]. rewrite Forall_forall in BK. repeat split; try now apply BK.
        rewrite lint_kept_spec in Hl. apply filter_In in Hl. apply ro_full_In. tauto.
      + apply FOP_map. cbn [with_text winner]. rewrite lint_kept_spec. apply FOP_filter.
        apply ro_full_disjoint. eapply Forall_impl; [|exact B]. intros l [H _]. exact H.
  Qed.

  (* ... for every history: every answer to a lint call is well-formed *)
  Definition answer_ok (c : call) (o : out) : Prop :=
    match c with
    | CLint t lang => exists ls, o = OLints ls /\ exists raw, lints_wellformed raw t lang ls
    | _ => True
    end.

  Theorem history_wellformed :
    (forall t lang cfg d dia, Forall (fun l => span_in (length t) (rspan l)) (raw_lints t lang cfg d dia)) ->
    forall cs st, Forall2 answer_ok cs (snd (run st cs)).
  Proof.
    intros B cs. induction cs as [|c cs IH]; intros st; cbn [Wasm.run]; [constructor|].
    destruct (step st c) as [st1 o] eqn:E. specialize (IH st1).
    destruct (run st1 cs) as [st2 os] eqn:E2. cbn [snd] in *. constructor.
    - destruct c; cbn [answer_ok]; try exact I.
      cbn [Wasm.step] in E. destruct (lint_wellformed st t lang (B _ _ _ _ _)) as [ls [H W]].
      rewrite H in E. injection E as _ <-. exists ls. split; [reflexivity|]. eexists; exact W.
    - exact IH.
  Qed.

  (* ---------- apply_suggestion ---------- *)
  Theorem apply_spec_wasm st t l s :
    span_in (length t) (rspan (winner l)) ->
    let sp := rspan (winner l) in
    step st (CApply t l s) =
      (push_record st t l, OText (firstn (sstart sp) t ++ repl s (slice t (sstart sp) (send sp)) ++ skipn (send sp) t))
    /\ length (s_stats (push_record st t l)) = S (length (s_stats st))
    /\ s_cfg (push_record st t l) = s_cfg st /\ s_user (push_record st t l) = s_user st
    /\ s_lint_dict (push_record st t l) = s_lint_dict st /\ s_ignored (push_record st t l) = s_ignored st
    /\ s_dialect (push_record st t l) = s_dialect st.
  Proof.
    intros H sp. cbn [Wasm.step]. rewrite (apply_spec s _ t H). unfold splice. fold sp.
    split; [reflexivity|]. cbn [push_record s_stats s_cfg s_user s_lint_dict s_ignored s_dialect].
    rewrite app_length. cbn [length]. repeat split; lia.
  Qed.

  (* ---------- ignore_lint ---------- *)
  Theorem ignore_spec st t lang ls l :
    lint st t lang = Ok ls -> In l ls ->
    let st' := fst (step st (CIgnore t l)) in
    let same (w : wlint) := (ctx (winner w) t lang (s_lint_dict st) =? ctx (winner l) t lang (s_lint_dict st))%N in
    lint st' t lang = Ok (filter (fun w => negb (same w)) ls)
    /\ ~ In l (filter (fun w => negb (same w)) ls)
    /\ s_cfg st' = s_cfg st /\ s_user st' = s_user st /\ s_lint_dict st' = s_lint_dict st
    /\ s_stats st' = s_stats st /\ s_dialect st' = s_dialect st.
  Proof.
    intros HL Hin st' same. unfold api_lint in HL.
    destruct (attach_shape _ _ _ _ HL) as [HM HLang].
    assert (wlang l = lang) as El by (rewrite Forall_forall in HLang; now apply HLang).
    split; [|split].
    - unfold api_lint. subst st'. cbn [Wasm.step fst].
      assert (lint_kept (ignore_lint ctx st t l) t lang
              = filter (fun r => negb (ctx r t lang (s_lint_dict st) =? ctx (winner l) t lang (s_lint_dict st))%N) (lint_kept st t lang)) as EK.
      { rewrite !lint_kept_spec. unfold raw_of. cbn [ignore_lint s_cfg s_lint_dict s_dialect s_ignored]. rewrite El.
        rewrite filter_filter. apply filter_ext. intros r. now rewrite hmem_hadd, negb_orb. }
      rewrite EK. unfold same.
      exact (attach_filter t lang (fun r => negb (ctx r t lang (s_lint_dict st) =? ctx (winner l) t lang (s_lint_dict st))%N) _ _ HL).
    - intros C. apply filter_In in C. destruct C as [_ C]. unfold same in C. rewrite N.eqb_refl in C. discriminate.
    - subst st'. cbn [Wasm.step fst ignore_lint s_cfg s_user s_lint_dict s_stats s_dialect]. auto.
  Qed.

  (* ---------- lint reads the state only through cfg, lint dictionary, dialect and ignore-set membership ---------- *)
  Lemma lint_congr st1 st2 t lang :
    s_cfg st1 = s_cfg st2 -> s_lint_dict st1 = s_lint_dict st2 -> s_dialect st1 = s_dialect st2 ->
    (forall h, hmem h (s_ignored st1) = hmem h (s_ignored st2)) ->
    lint st1 t lang = lint st2 t lang.
  Proof.
    intros Hc Hd Hdi Hi. unfold api_lint, Wasm.lint_kept. rewrite Hc, Hd, Hdi. f_equal.
    apply remove_ignored_ext. exact Hi.
  Qed.

  (* ---------- the ignore set only grows unless it is cleared ---------- *)
  Lemma step_ignored_grows st c h :
    c <> CClearIgnored -> hmem h (s_ignored st) = true -> hmem h (s_ignored (fst (step st c))) = true.
  Proof.
    intros NC H. destruct c; cbn [Wasm.step fst]; try exact H; try congruence.
    - cbn [ignore_lint s_ignored]. rewrite hmem_hadd, H. reflexivity.
    - destruct (ignored_from_json json) as [hs|]; cbn [fst]; [|exact H].
      cbn [set_ignored s_ignored]. rewrite hmem_fold_hadd, H. reflexivity.
    - unfold import_words. destruct (dict_eqb _ _); cbn [synchronize s_ignored]; exact H.
    - destruct c as [c|]; cbn [fst set_cfg s_ignored]; exact H.
  Qed.

  Lemma run_ignored_grows cs : forall st h,
    Forall (fun c => c <> CClearIgnored) cs -> hmem h (s_ignored st) = true ->
    hmem h (s_ignored (fst (run st cs))) = true.
  Proof.
    induction cs as [|c cs IH]; intros st h F H; cbn [Wasm.run]; [exact H|].
    inversion F as [|? ? Hc Hcs]; subst.
    pose proof (step_ignored_grows st c h Hc H) as H1.
    destruct (step st c) as [st1 o]. cbn [fst] in H1. specialize (IH st1 h Hcs H1).
    destruct (run st1 cs) as [st2 os]. exact IH.
  Qed.

  (* an ignored context stays away in every later answer, whatever is called in between, until the
     ignore list is cleared.  NB: the context is computed with the lint dictionary of the moment. *)
  Theorem ignore_persistent st t l cs t2 lang2 ls :
    Forall (fun c => c <> CClearIgnored) cs ->
    let st1 := fst (step st (CIgnore t l)) in
    let st2 := fst (run st1 cs) in
    lint st2 t2 lang2 = Ok ls ->
    Forall (fun w => ctx (winner w) t2 lang2 (s_lint_dict st2) <> ctx (winner l) t (wlang l) (s_lint_dict st)) ls.
  Proof.
    intros F st1 st2 HL.
    assert (hmem (ctx (winner l) t (wlang l) (s_lint_dict st)) (s_ignored st2) = true) as HI.
    { apply run_ignored_grows; [exact F|]. subst st1. cbn [Wasm.step fst ignore_lint s_ignored].
      rewrite hmem_hadd, N.eqb_refl. apply orb_true_r. }
    unfold api_lint in HL. destruct (attach_shape _ _ _ _ HL) as [HM _].
    apply Forall_forall. intros w Hw C.
    assert (In (winner w) (lint_kept st2 t2 lang2)) as Hk by (rewrite <- HM; now apply in_map).
    rewrite lint_kept_spec in Hk. apply filter_In in Hk. destruct Hk as [_ Hk].
    rewrite C, HI in Hk. discriminate.
  Qed.

  (* ---------- export / clear / import of the ignore list ---------- *)
  Theorem ignored_roundtrip st :
    exists j, step st CExportIgnored = (st, OJson j) /\
      ignored_from_json j = Some (s_ignored st) /\
      (forall st', exists st2, step st' (CImportIgnored j) = (st2, OUnit) /\
         (forall h, hmem h (s_ignored st2) = hmem h (s_ignored st') || hmem h (s_ignored st)) /\
         s_cfg st2 = s_cfg st' /\ s_user st2 = s_user st' /\ s_lint_dict st2 = s_lint_dict st' /\
         s_stats st2 = s_stats st' /\ s_dialect st2 = s_dialect st') /\
      let st1 := fst (step st CClearIgnored) in
      let st2 := fst (step st1 (CImportIgnored j)) in
      (forall h, hmem h (s_ignored st2) = hmem h (s_ignored st)) /\
      (forall t lang, lint st2 t lang = lint st t lang).
  Proof.
    exists (print_ignored (s_ignored st)). split; [reflexivity|].
    pose proof (ignored_json_roundtrip (s_ignored st)) as RT. split; [exact RT|]. split.
    - intros st'. cbn [Wasm.step]. rewrite RT. eexists. split; [reflexivity|].
      cbn [set_ignored s_ignored s_cfg s_user s_lint_dict s_stats s_dialect]. split; [|auto].
      intros h. apply hmem_fold_hadd.
    - cbn [Wasm.step fst]. rewrite RT. cbn [fst set_ignored s_ignored].
      assert (forall h, hmem h (fold_left hadd (s_ignored st) []) = hmem h (s_ignored st)) as E
        by (intros h; now rewrite hmem_fold_hadd).
      split; [exact E|]. intros t lang. apply lint_congr; try reflexivity. exact E.
  Qed.

  (* the explicit choice a configuration makes for a rule (what merge_from copies; a null entry and an
     absent entry both make none) *)
  Definition explicit (k : N) (c : config) : option bool :=
    match aget k c with Some (Some b) => Some b | _ => None end.
  Definition cfg_equiv (c c' : config) : Prop := forall k, explicit k c = explicit k c'.
  (* ---------- the fact about harper-core the full-strength ignore clause rests on (a premise of the
     theorem that uses it; monitored on the real code by the harness) ---------- *)
  (* LintContext::from_lint blanks the dictionary metadata of the word tokens (fix 483b7cf), and the
     dictionary enters a Document only through that metadata: the context hash is the same under every
     user dictionary *)
  Definition ctx_ignores_dict : Prop := forall l t lang d d', ctx l t lang d = ctx l t lang d'.

  (* an ignored lint stays away — full strength: whatever is called in between (import_words,
     set_lint_config, imports of other ignore lists, ...) until clear_ignored_lints, no later answer on
     any text contains a lint with the ignored context, and no later answer on the same text contains
     the ignored lint *)
  Theorem ignore_persistent_full st t l cs t2 lang2 ls :
    ctx_ignores_dict ->
    Forall (fun c => c <> CClearIgnored) cs ->
    let st1 := fst (step st (CIgnore t l)) in
    let st2 := fst (run st1 cs) in
    lint st2 t2 lang2 = Ok ls ->
    Forall (fun w => (forall d d', ctx (winner w) t2 lang2 d <> ctx (winner l) t (wlang l) d')
                     /\ (t2 = t -> lang2 = wlang l -> winner w <> winner l)) ls.
  Proof.
    intros HC F st1 st2 HL.
    pose proof (ignore_persistent st t l cs t2 lang2 ls F HL) as P.
    eapply Forall_impl; [|exact P]. cbn beta. intros w Hw.
    assert (forall d d', ctx (winner w) t2 lang2 d <> ctx (winner l) t (wlang l) d') as A.
    { intros d d' C. apply Hw. rewrite (HC _ _ _ _ d), (HC (winner l) _ _ _ d'). exact C. }
    split; [exact A|]. intros -> -> E. apply (A [] []). now rewrite E.
  Qed.

  (* ---------- custom words ---------- *)
  Definition dict_wf (d : dict) : Prop := amap_sorted d /\ Forall (fun kw => fst kw = word_id (snd kw)) d.
  Definition entry (w : text) : N * text := (word_id w, w).

  Lemma dict_extend_entries ws : forall d,
    dict_extend word_id d ws = fold_left (fun acc e => ains (fst e) (snd e) acc) (map entry ws) d.
  Proof. induction ws as [|w ws IH]; intros d; cbn [dict_extend fold_left map]; [reflexivity|]. apply IH. Qed.

  Lemma ains_In {V} k (v : V) m e : In e (ains k v m) -> e = (k, v) \/ In e m.
  Proof.
    induction m as [|[k0 v0] r IH]; cbn [ains In]; [intros [H|[]]; now left|].
    destruct (N.compare k k0); cbn [In].
    - intros [H|H]; [now left|right; now right].
    - intros [H|[H|H]]; [now left|right; now left|right; now right].
    - intros [H|H]; [right; now left|]. apply IH in H. destruct H; [now left|right; now right].
  Qed.

  Lemma dict_extend_wf ws : forall d, dict_wf d -> dict_wf (dict_extend word_id d ws).
  Proof.
    induction ws as [|w ws IH]; intros d W; cbn [dict_extend fold_left]; [exact W|].
    apply IH. destruct W as [S K]. split; [now apply ains_sorted|].
    apply Forall_forall. intros e He. apply ains_In in He. destruct He as [->|He]; [reflexivity|].
    rewrite Forall_forall in K. now apply K.
  Qed.

  Lemma dict_wf_nil : dict_wf [].
  Proof. split; constructor. Qed.

  (* importing the exported words, in any order, into an empty dictionary rebuilds the dictionary *)
  Theorem words_reimport d ws : dict_wf d -> Permutation ws (map snd d) -> dict_extend word_id [] ws = d.
  Proof.
    intros [S K] P.
    assert (map entry (map snd d) = d) as Ed.
    { clear S P. induction d as [|[k w] d IH]; cbn [map snd]; [reflexivity|].
      inversion K as [|? ? Hk Hd]; subst. cbn [fst snd] in Hk. unfold entry at 1. rewrite <- Hk. f_equal. now apply IH. }
    assert (Permutation (map entry ws) d) as Pe by (rewrite <- Ed; now apply Permutation_map).
    assert (NoDup (map fst (map entry ws))) as ND.
    { eapply Permutation_NoDup; [apply Permutation_map, Permutation_sym, Pe|now apply sorted_nodup]. }
    apply amap_ext.
    - rewrite dict_extend_entries. apply fold_ains_sorted. constructor.
    - exact S.
    - intros k. rewrite dict_extend_entries, aget_fold_ains by exact ND. cbn [aget].
      rewrite (aget_perm k _ _ ND Pe). now destruct (aget k d).
  Qed.

  Lemma cfg_merge_clear_id c : forall a, cfg_merge_from a (cfg_clear c) = a.
  Proof. unfold cfg_merge_from, cfg_clear. induction c as [|kv c IH]; intros a; cbn [map fold_left snd]; [reflexivity|apply IH]. Qed.

  (* import_words, as a case split on "did the user dictionary change" *)
  Lemma import_words_cases st ws :
    let u := dict_extend word_id (s_user st) ws in
    (u = s_user st /\ import_words curated word_id st ws = st)
    \/ (u <> s_user st /\
        import_words curated word_id st ws =
          mkst (cfg_merge_from (cfg_clear curated) (s_cfg st)) u u (s_ignored st) (s_stats st) (s_dialect st)).
  Proof.
    intros u. unfold import_words. cbn [s_user s_cfg s_lint_dict s_ignored s_stats s_dialect]. fold u.
    destruct (dict_eqb u (s_user st)) eqn:E.
    - left. apply dict_eqb_eq in E. split; [exact E|]. rewrite E. now destruct st.
    - right. split; [intros C; apply dict_eqb_eq in C; congruence|reflexivity].
  Qed.

  (* the lint dictionary is the user dictionary: established by Linter::new, kept by every call
     (import_words re-synchronises whenever the user dictionary changed — fix ba0a239) *)
  Definition synced (st : state) : Prop := s_lint_dict st = s_user st.

  Lemma import_words_synced st ws : synced st -> synced (import_words curated word_id st ws).
  Proof.
    intros H. destruct (import_words_cases st ws) as [[_ ->]|[_ ->]]; [exact H|reflexivity].
  Qed.

  Lemma step_synced st c : synced st -> synced (fst (step st c)).
  Proof.
    intros H. destruct c; cbn [Wasm.step fst]; try exact H.
    - destruct (ignored_from_json json); exact H.
    - now apply import_words_synced.
    - destruct c as [c|]; exact H.
  Qed.

  (* invariants of a history, generically *)
  Lemma run_invariant (P : state -> Prop) :
    (forall st c, P st -> P (fst (step st c))) -> forall cs st, P st -> P (fst (run st cs)).
  Proof.
    intros HS cs. induction cs as [|c cs IH]; intros st H; cbn [Wasm.run]; [exact H|].
    pose proof (HS st c H) as H1. destruct (step st c) as [st1 o]. cbn [fst] in H1.
    specialize (IH st1 H1). destruct (run st1 cs) as [st2 os]. exact IH.
  Qed.

  Theorem run_synced cs st : synced st -> synced (fst (run st cs)).
  Proof. apply run_invariant. exact step_synced. Qed.

  Lemma step_dict_wf st c : dict_wf (s_user st) -> dict_wf (s_user (fst (step st c))).
  Proof.
    intros H. destruct c; cbn [Wasm.step fst]; try exact H.
    - destruct (ignored_from_json json); exact H.
    - destruct (import_words_cases st ws) as [[_ ->]|[_ ->]]; [exact H|]. cbn [s_user]. now apply dict_extend_wf.
    - destruct c as [c|]; exact H.
  Qed.

  Lemma step_dialect st c : s_dialect (fst (step st c)) = s_dialect st.
  Proof.
    destruct c; cbn [Wasm.step fst]; try reflexivity.
    - destruct (ignored_from_json json); reflexivity.
    - destruct (import_words_cases st ws) as [[_ ->]|[_ ->]]; reflexivity.
    - destruct c as [c|]; reflexivity.
  Qed.

  (* a second linter that imports the exported words ends up synchronised on exactly those words *)
  Theorem words_roundtrip st dia ws :
    dict_wf (s_user st) -> Permutation ws (export_words st) ->
    let st2 := import_words curated word_id (new curated dia) ws in
    s_user st2 = s_user st /\ s_lint_dict st2 = s_user st /\ s_cfg st2 = cfg_clear curated /\ s_ignored st2 = []
    /\ export_words st2 = export_words st.
  Proof.
    intros W P st2. unfold export_words in *. pose proof (words_reimport _ _ W P) as E.
    subst st2. destruct (import_words_cases (new curated dia) ws) as [[Hu ->]|[_ ->]];
      cbn [new s_user s_cfg s_lint_dict s_ignored s_stats s_dialect] in *; rewrite E in *.
    - rewrite <- Hu. auto.
    - rewrite cfg_merge_clear_id. auto.
  Qed.

  (* ---------- configuration: the overlay around lint, what set_lint_config and synchronize_lint_dict do to it ---------- *)
  Lemma aget_cfg_merge_from (b : config) : forall (a : config) k, NoDup (map fst b) ->
    aget k (cfg_merge_from a b) = match aget k b with Some (Some v) => Some (Some v) | _ => aget k a end.
  Proof.
    unfold cfg_merge_from. induction b as [|[k0 v0] b IH]; intros a k ND; cbn [fold_left aget fst snd]; [reflexivity|].
    inversion ND as [|? ? Hn ND']; subst. rewrite IH by exact ND'.
    destruct (k =? k0)%N eqn:E.
    - apply N.eqb_eq in E. subst k0. apply aget_None_notin in Hn. rewrite Hn.
      destruct v0 as [v|]; [rewrite aget_ains, N.eqb_refl|]; reflexivity.
    - destruct (aget k b) as [[v|]|]; try reflexivity; destruct v0 as [v'|]; try reflexivity; now rewrite aget_ains, E.
  Qed.

  Lemma cfg_merge_inherits (b : config) : forall (a : config) k,
    aget k (cfg_merge_from a b) = aget k a \/ exists v, aget k (cfg_merge_from a b) = Some (Some v).
  Proof.
    unfold cfg_merge_from. induction b as [|[k0 v0] b IH]; intros a k; cbn [fold_left fst snd]; [now left|].
    destruct v0 as [v|]; [|apply IH].
    destruct (IH (ains k0 (Some v) a) k) as [H|H]; [|right; exact H].
    rewrite aget_ains in H. destruct (k =? k0)%N; [right; exists v; exact H|left; exact H].
  Qed.

  Lemma cfg_merge_sorted (b : config) : forall a, amap_sorted a -> amap_sorted (cfg_merge_from a b).
  Proof.
    unfold cfg_merge_from. induction b as [|[k0 v0] b IH]; intros a S; cbn [fold_left fst snd]; [exact S|].
    apply IH. destruct v0; [now apply ains_sorted|exact S].
  Qed.

  Lemma aget_cfg_clear (c : config) k :
    aget k (cfg_clear c) = match aget k c with Some _ => Some None | None => None end.
  Proof.
    unfold cfg_clear. induction c as [|[k0 v0] c IH]; cbn [map aget fst]; [reflexivity|].
    destruct (k =? k0)%N; [reflexivity|exact IH].
  Qed.

  Lemma cfg_clear_sorted (c : config) : amap_sorted c -> amap_sorted (cfg_clear c).
  Proof. unfold amap_sorted, cfg_clear. rewrite map_map. intros S. exact S. Qed.

  (* the configuration the rules see during lint: the user's explicit choices over the curated defaults;
     null / absent entries fall back to the default *)
  Theorem config_overlay (c : config) k : amap_sorted c ->
    aget k (cfg_fill_with_curated curated c)
    = match aget k c with Some (Some v) => Some (Some v) | _ => aget k curated end.
  Proof. intros S. unfold cfg_fill_with_curated. apply aget_cfg_merge_from. now apply sorted_nodup. Qed.

  Lemma explicit_merge (a b : config) k : amap_sorted b ->
    explicit k (cfg_merge_from a b) = match explicit k b with Some v => Some v | None => explicit k a end.
  Proof.
    intros S. unfold explicit. rewrite aget_cfg_merge_from by (now apply sorted_nodup).
    destruct (aget k b) as [[v|]|]; reflexivity.
  Qed.

  Lemma explicit_clear (c : config) k : explicit k (cfg_clear c) = None.
  Proof. unfold explicit. rewrite aget_cfg_clear. now destruct (aget k c). Qed.

  (* set_lint_config_from_json REPLACES the explicit choices (fix b67a243: clear, then merge): afterwards
     a rule is explicitly on/off exactly when the new configuration says so; every key the linter knew
     stays listed (as null when the new configuration does not choose) *)
  Theorem set_config_replaces st c k : amap_sorted c ->
    let st' := fst (step st (CSetConfig (Some c))) in
    explicit k (s_cfg st') = explicit k c
    /\ aget k (s_cfg st') = match aget k c with
                            | Some (Some v) => Some (Some v)
                            | _ => match aget k (s_cfg st) with Some _ => Some None | None => None end
                            end
    /\ s_user st' = s_user st /\ s_lint_dict st' = s_lint_dict st /\ s_ignored st' = s_ignored st
    /\ s_stats st' = s_stats st /\ s_dialect st' = s_dialect st.
  Proof.
    intros S st'. subst st'. cbn [Wasm.step fst set_cfg s_cfg s_user s_lint_dict s_ignored s_stats s_dialect].
    split; [|split; [|auto]].
    - rewrite explicit_merge by exact S. rewrite explicit_clear. now destruct (explicit k c).
    - rewrite aget_cfg_merge_from by (now apply sorted_nodup). now rewrite aget_cfg_clear.
  Qed.

  (* invariant of every configuration reachable from Linter::new: sorted, and every curated rule is listed *)
  Definition cfg_inv (c : config) : Prop :=
    amap_sorted c /\ forall k, aget k curated <> None -> aget k c <> None.

  Lemma cfg_inv_new : amap_sorted curated -> cfg_inv (cfg_clear curated).
  Proof.
    intros S. split; [now apply cfg_clear_sorted|]. intros k H. rewrite aget_cfg_clear.
    destruct (aget k curated); [discriminate|congruence].
  Qed.

  Lemma cfg_inv_merge c x : cfg_inv c -> cfg_inv (cfg_merge_from c x).
  Proof.
    intros [S K]. split; [now apply cfg_merge_sorted|]. intros k Hk. specialize (K k Hk).
    destruct (cfg_merge_inherits x c k) as [H|[v H]]; rewrite H; [exact K|discriminate].
  Qed.

  Lemma cfg_inv_clear c : cfg_inv c -> cfg_inv (cfg_clear c).
  Proof.
    intros [S K]. split; [now apply cfg_clear_sorted|]. intros k Hk. specialize (K k Hk).
    rewrite aget_cfg_clear. destruct (aget k c); [discriminate|congruence].
  Qed.

  (* synchronize_lint_dict (new curated group with cleared config, saved config merged back): explicit
     choices and the entries of curated rules come back as they were; the one thing lost is a null entry
     of a key that is not a curated rule *)
  Lemma aget_sync c k : amap_sorted c -> cfg_inv c ->
    aget k (cfg_merge_from (cfg_clear curated) c)
    = match aget k c with
      | Some (Some v) => Some (Some v)
      | Some None => match aget k curated with Some _ => Some None | None => None end
      | None => None
      end.
  Proof.
    intros S [_ K]. rewrite aget_cfg_merge_from by (now apply sorted_nodup). rewrite aget_cfg_clear.
    destruct (aget k c) as [[v|]|] eqn:E; try reflexivity.
    destruct (aget k curated) eqn:E2; [|reflexivity]. exfalso. apply (K k); [congruence|exact E].
  Qed.

  Lemma cfg_inv_sync c : amap_sorted curated -> cfg_inv c -> cfg_inv (cfg_merge_from (cfg_clear curated) c).
  Proof. intros SC H. apply cfg_inv_merge. now apply cfg_inv_new. Qed.

  Lemma step_cfg_inv st c : amap_sorted curated -> cfg_inv (s_cfg st) -> cfg_inv (s_cfg (fst (step st c))).
  Proof.
    intros SC H. destruct c; cbn [Wasm.step fst]; try exact H.
    - destruct (ignored_from_json json); exact H.
    - destruct (import_words_cases st ws) as [[_ ->]|[_ ->]]; [exact H|]. cbn [s_cfg]. now apply cfg_inv_sync.
    - destruct c as [c|]; cbn [fst set_cfg s_cfg]; [|exact H]. apply cfg_inv_merge. now apply cfg_inv_clear.
  Qed.

  Theorem run_cfg_inv cs st : amap_sorted curated -> cfg_inv (s_cfg st) -> cfg_inv (s_cfg (fst (run st cs))).
  Proof. intros SC. apply (run_invariant (fun st => cfg_inv (s_cfg st))). intros; now apply step_cfg_inv. Qed.

  (* in every history that starts with Linter::new, import_words (with its rebuild + re-merge) keeps every
     explicit choice and every entry of a curated rule; the only thing that can change is that a null
     entry of a name that is no curated rule disappears *)
  Theorem import_words_keeps_config dia cs ws k : amap_sorted curated ->
    let st := fst (run (new curated dia) cs) in
    let a := aget k (s_cfg (import_words curated word_id st ws)) in
    let b := aget k (s_cfg st) in
    explicit k (s_cfg (import_words curated word_id st ws)) = explicit k (s_cfg st)
    /\ (a = b \/ (b = Some None /\ aget k curated = None /\ a = None)).
  Proof.
    intros SC st a b. assert (cfg_inv (s_cfg st)) as H by (apply run_cfg_inv; [exact SC|now apply cfg_inv_new]).
    subst a b. destruct (import_words_cases st ws) as [[_ ->]|[_ ->]]; [split; [reflexivity|now left]|].
    cbn [s_cfg]. unfold explicit. rewrite (aget_sync _ k (proj1 H) H).
    destruct (aget k (s_cfg st)) as [[v|]|]; [split; [reflexivity|now left]| |split; [reflexivity|now left]].
    destruct (aget k curated) eqn:E; [split; [reflexivity|now left]|]. split; [reflexivity|]. right. auto.
  Qed.

  (* ---------- lint reads the stored configuration through the explicit choices: fill_with_curated starts
     from the curated configuration and copies only the Some entries, so null / absent entries of the
     stored configuration leave no trace in the configuration the rules see ---------- *)
  Lemma fill_equiv c c' : amap_sorted curated -> amap_sorted c -> amap_sorted c' -> cfg_equiv c c' ->
    cfg_fill_with_curated curated c = cfg_fill_with_curated curated c'.
  Proof.
    intros SC S S' E. unfold cfg_fill_with_curated. apply amap_ext; try (now apply cfg_merge_sorted).
    intros k. rewrite !aget_cfg_merge_from by (now apply sorted_nodup).
    specialize (E k). unfold explicit in E.
    destruct (aget k c) as [[v|]|], (aget k c') as [[v'|]|]; try reflexivity; try discriminate; congruence.
  Qed.

  Lemma lint_congr_cfg st1 st2 t lang :
    amap_sorted curated ->
    amap_sorted (s_cfg st1) -> amap_sorted (s_cfg st2) -> cfg_equiv (s_cfg st1) (s_cfg st2) ->
    s_lint_dict st1 = s_lint_dict st2 -> s_dialect st1 = s_dialect st2 ->
    (forall h, hmem h (s_ignored st1) = hmem h (s_ignored st2)) ->
    lint st1 t lang = lint st2 t lang.
  Proof.
    intros SC S1 S2 E Hd Hdi Hi. unfold api_lint, Wasm.lint_kept.
    rewrite (fill_equiv _ _ SC S1 S2 E).
    rewrite Hd, Hdi. f_equal. apply remove_ignored_ext. exact Hi.
  Qed.

  (* ---------- "exporting then importing the custom words restores the same behaviour", full strength:
     for EVERY history on a linter, a second linter built with Linter::new that is given the first one's
     configuration (get/set_lint_config), ignore list (export/import) and exported words — in any order —
     exports the same words and lints every text in both languages exactly as the first one does ---------- *)
  Theorem words_roundtrip_full dia cs ws :
    amap_sorted curated ->
    let st := fst (run (new curated dia) cs) in
    Permutation ws (export_words st) ->
    let st2 := fst (run (new curated dia)
                      [CSetConfig (Some (s_cfg st)); CImportIgnored (print_ignored (s_ignored st)); CImportWords ws]) in
    export_words st2 = export_words st /\ s_user st2 = s_user st /\ s_lint_dict st2 = s_lint_dict st
    /\ forall t lang, lint st2 t lang = lint st t lang.
  Proof.
    intros SC st P st2.
    assert (synced st) as Sy by (apply run_synced; reflexivity).
    assert (dict_wf (s_user st)) as W.
    { apply (run_invariant (fun s => dict_wf (s_user s))); [exact step_dict_wf|apply dict_wf_nil]. }
    assert (s_dialect st = dia) as D.
    { apply (run_invariant (fun s => s_dialect s = dia)); [intros s c H; now rewrite step_dialect|reflexivity]. }
    assert (cfg_inv (s_cfg st)) as CI by (apply run_cfg_inv; [exact SC|now apply cfg_inv_new]).
    pose proof (words_reimport _ _ W P) as E.
    set (c1 := cfg_merge_from (cfg_clear (cfg_clear curated)) (s_cfg st)).
    assert (amap_sorted c1) as S1 by (apply cfg_merge_sorted; now do 2 apply cfg_clear_sorted).
    assert (forall k, explicit k c1 = explicit k (s_cfg st)) as E1.
    { intros k. unfold c1. rewrite explicit_merge by (exact (proj1 CI)). rewrite explicit_clear.
      now destruct (explicit k (s_cfg st)). }
    set (sta := mkst c1 [] [] (fold_left hadd (s_ignored st) []) [] dia).
    assert (st2 = import_words curated word_id sta ws) as E2.
    { subst st2. cbn [Wasm.run Wasm.step fst]. rewrite (ignored_json_roundtrip (s_ignored st)).
      cbn [fst set_ignored set_cfg new s_cfg s_user s_lint_dict s_ignored s_stats s_dialect]. reflexivity. }
    assert (s_user st2 = s_user st /\ s_lint_dict st2 = s_lint_dict st /\ s_dialect st2 = s_dialect st
            /\ s_ignored st2 = fold_left hadd (s_ignored st) []
            /\ amap_sorted (s_cfg st2) /\ cfg_equiv (s_cfg st2) (s_cfg st)) as [Hu [Hl [Hd [Hi [Hs He]]]]].
    { rewrite E2. destruct (import_words_cases sta ws) as [[Hu ->]|[_ ->]];
        cbn [sta s_user s_cfg s_lint_dict s_ignored s_stats s_dialect] in *; rewrite E in *.
      - rewrite Sy, <- Hu. repeat split; auto.
      - rewrite Sy. repeat split; auto.
        + apply cfg_merge_sorted. now apply cfg_clear_sorted.
        + intros k. rewrite explicit_merge by exact S1. rewrite explicit_clear, E1.
          now destruct (explicit k (s_cfg st)). }
    split; [unfold export_words; now rewrite Hu|]. split; [exact Hu|]. split; [exact Hl|].
    intros t lang. apply lint_congr_cfg; try assumption; [exact (proj1 CI)|].
    intros h. rewrite Hi, hmem_fold_hadd. reflexivity.
  Qed.
End WasmFacts.

(* ---------- a toy instance of the Section variables, for witnesses and non-vacuity examples:
   WordId = the length of the word (so equally long words collide, as re-cased spellings do);
   the only rule reports a text that is not, as a whole, a word of the user dictionary ---------- *)
Definition toy_word_id (w : text) : N := N.of_nat (length w).
Definition toy_raw (t : text) (_ : language) (_ : config) (d : dict) (_ : nat) : list rlint :=
  if existsb (fun kw => text_eqb (snd kw) t) d then []
  else [mkrl (mkspan 0 (length t)) Spelling [] [] 63].
Definition toy_ctx (l : rlint) (_ : text) (_ : language) (_ : dict) : N := N.of_nat (sstart (rspan l)).

(* HISTORY (regression witness over the OLD import_words, before fix ba0a239; finding C16-F15): with
   "synchronise only when the word count grew", `import [ab]; import [AB]` (one WordId) exported [AB] but
   linted with {ab}; a linter rebuilt from the export linted "ab" differently. *)
Theorem words_roundtrip_old_refuted :
  let st1 := import_words_old [] toy_word_id (new [] 0) [[97; 98]%N] in
  let st := import_words_old [] toy_word_id st1 [[65; 66]%N] in
  let st2 := import_words_old [] toy_word_id (new [] 0) (export_words st) in
  api_lint [] toy_raw toy_ctx st [97; 98]%N Plain <> api_lint [] toy_raw toy_ctx st2 [97; 98]%N Plain.
Proof. vm_compute. discriminate. Qed.
