(* C02ZeroWidthSuffix.v — phase 6: condense_number_suffixes (+ condense_indices) on vectors with floating zero-width
   ParagraphBreaks.  The pass reads Span::len / get_content of the token b only behind `a.is_number() && b.is_word()`:
   the premise of C02GapPasses.condense_number_suffixes_good (EVERY token non-empty and inside the text) is weakened to
   the WORD tokens (goodw).  The four lemmas below are CondSuffixQuotes.ns_step / ns_loop_spec / merged_group /
   chunks_spec and C02GapPasses.condense_number_suffixes_good re-proved under the weaker premise (same proofs; `good`
   of the operand is derived from the is_word test at the three places it is used); the specification functions
   hit / mark / starts / upd and ci_update_spec are CondSuffixQuotes' (imported, not edited). *)
Require Import Base Overlap OverlapProofs Tables_lexer Lexer Condense ListLemmas TokenInv CondenseInv LexerProofs
  C02Gapped C02ZeroWidth CondSuffixQuotes.
From Coq Require Import List Arith ZArith Lia.
Import ListNotations.

Definition goodw (src : text) (t : token) : Prop := is_word (tkind_of t) = true -> good src t.

Lemma ns_step_w src n pre a b r idx :
  idx = length pre -> goodw src b ->
  ns_loop src (S n) idx (pre ++ a :: b :: r) =
  match hit src a b with
  | Some s => do '(toksF, st) <- ns_loop src n (S idx) (pre ++ mark_tok a s :: b :: r);
              Ok (toksF, idx :: st)
  | None => ns_loop src n (S idx) (pre ++ a :: b :: r)
  end.
Proof.
  intros Hidx Hb. cbn [ns_loop]. unfold nth_chk.
  assert (nth_error (pre ++ a :: b :: r) (idx + 1) = Some b) as ->.
  { rewrite (cons_app_assoc pre a). apply nth_error_mid. rewrite app_length. cbn [length]. lia. }
  rewrite (nth_error_mid pre a (b :: r) idx Hidx). cbn [bind].
  unfold hit.
  destruct (is_number (tkind_of a) && is_word (tkind_of b)) eqn:E; [|reflexivity].
  assert (good src b) as Hb' by (apply Hb; apply andb_prop in E; destruct E as [_ E]; exact E).
  rewrite (span_len_good src b Hb'). cbn [bind].
  destruct (tlen b =? 2); cbn [negb]; [|reflexivity].
  rewrite (get_content_good src b Hb'). cbn [bind].
  destruct (suffix_of_chars (slice src (tstart b) (tend b))) as [sfx|]; [|reflexivity].
  apply andb_prop in E. destruct E as [Ea _].
  unfold mark_tok. destruct (tkind_of a) as [| | |nb| | | | | | | |]; try discriminate.
  cbn [set_suffix bind]. rewrite (set_nth_mid pre _ a (b :: r) idx Hidx). cbn [bind].
  reflexivity.
Qed.

Lemma ns_loop_spec_w src : forall l pre idx,
  idx = length pre -> Forall (goodw src) l ->
  ns_loop src (length l - 1) idx (pre ++ l) = Ok (pre ++ mark src l, starts src idx l).
Proof.
  induction l as [|a l IH]; intros pre idx Hidx HF; [reflexivity|].
  destruct l as [|b r]; [reflexivity|].
  inversion HF as [|a0 l0 Ha HF']; subst a0 l0.
  assert (goodw src b) as Hb by (inversion HF'; assumption).
  change (length (a :: b :: r) - 1) with (S (length r)).
  rewrite (ns_step_w src (length r) pre a b r idx Hidx Hb).
  cbn [mark starts hd_hit].
  destruct (hit src a b) as [s|].
  - rewrite (cons_app_assoc pre (mark_tok a s)).
    specialize (IH (pre ++ [mark_tok a s]) (S idx)).
    change (length (b :: r) - 1) with (length r - 0) in IH. rewrite Nat.sub_0_r in IH.
    rewrite IH; [|rewrite app_length; cbn [length]; lia|exact HF'].
    cbn [bind]. rewrite <- app_assoc. reflexivity.
  - rewrite (cons_app_assoc pre a).
    specialize (IH (pre ++ [a]) (S idx)).
    change (length (b :: r) - 1) with (length r - 0) in IH. rewrite Nat.sub_0_r in IH.
    rewrite IH; [|rewrite app_length; cbn [length]; lia|exact HF'].
    rewrite <- app_assoc. reflexivity.
Qed.

Lemma merged_group_w src x y s : hit src x y = Some s -> goodw src y ->
  exists k, G_suffix src [x; y] k /\ with_end (mark_tok x s) (tend y) = group_token [x; y] k.
Proof.
  intros Hh Hy. destruct (hit_some src x y s Hh) as [nb [Hx [Hyk [Hl Hs]]]].
  exists (KNumber (with_suffix nb s)). split.
  - right. exists x, y, nb, (slice src (tstart y) (tend y)), s.
    split; [reflexivity|]. split; [exact Hx|]. split; [exact Hyk|]. split; [exact Hl|].
    split; [apply get_content_good; apply Hy; rewrite Hyk; reflexivity|]. split; [exact Hs|reflexivity].
  - unfold mark_tok. rewrite Hx. reflexivity.
Qed.

Lemma chunks_spec_w src : forall n l pre idx a S',
  length l <= n -> idx = length pre -> Forall (goodw src) l ->
  starts src idx l = a :: S' ->
  exists mid, ci_chunks 2 (pre ++ upd src l) (a :: S') = Ok mid /\ idx <= a /\
    Grouped (G_suffix src) l
      (firstn (a - idx) (upd src l) ++ mid ++ skipn (last (a :: S') 0 + 2) (pre ++ upd src l)).
Proof.
  induction n as [|n IH]; intros l pre idx a S' Hlen Hidx HF Hst.
  - destruct l; [discriminate Hst|cbn [length] in Hlen; lia].
  - destruct l as [|x l']; [discriminate Hst|].
    inversion HF as [|x0 l0 Hx HF']; subst x0 l0.
    cbn [starts upd] in *. destruct (hd_hit src x l') as [s|] eqn:E.
    + apply hd_hit_some in E. destruct E as [y [r [-> Hhit]]].
      assert (a = idx) as -> by congruence.
      assert (S' = starts src (S idx) (y :: r)) as -> by congruence. clear Hst.
      inversion HF' as [|y0 r0 Hy HFr]; subst y0 r0.
      destruct (hit_some src x y s Hhit) as [nb [_ [Hyk _]]].
      assert (hd_hit src y r = None) as Hnone
        by (destruct r as [|z r']; [reflexivity|cbn [hd_hit]; apply hit_word_none; exact Hyk]).
      cbn [starts upd hd]. rewrite Hnone.
      destruct (merged_group_w src x y s Hhit Hy) as [k [HGk Hm]]. rewrite Hm.
      set (m := group_token [x; y] k).
      rewrite Nat.sub_diag. cbn [firstn app].
      destruct (starts src (S (S idx)) r) as [|b S''] eqn:ES.
      * exists [m]. rewrite ci_chunks_one. unfold nth_chk.
        rewrite (nth_error_mid pre m _ idx Hidx). cbn [bind].
        split; [reflexivity|]. split; [lia|]. cbn [last app].
        rewrite (two_app_assoc pre m y).
        rewrite skipn_app_len by (rewrite app_length; cbn [length]; lia).
        rewrite (starts_nil_upd src r _ ES).
        apply (Grouped_cons (G_suffix src) [x; y] k r r ltac:(discriminate) HGk).
        apply grouped_refl. apply G_suffix_single.
      * destruct (IH r (pre ++ [m; y]) (S (S idx)) b S'') as [mid' [Hmid [Hle HG]]].
        -- cbn [length] in Hlen. lia.
        -- rewrite app_length. cbn [length]. lia.
        -- exact HFr.
        -- exact ES.
        -- rewrite <- (two_app_assoc pre m y) in Hmid, HG.
           assert (b + 1 < S (S idx) + length r) as Hb
             by (apply (starts_bounds src r (S (S idx)) b); rewrite ES; left; reflexivity).
           exists (m :: firstn (b - (idx + 2)) (upd src r) ++ mid').
           rewrite ci_chunks_more. unfold nth_chk.
           rewrite (nth_error_mid pre m _ idx Hidx). cbn [bind].
           unfold slice_chk.
           assert (b <? idx + 2 = false) as -> by (apply Nat.ltb_ge; lia).
           assert (length (pre ++ m :: y :: upd src r) <? b = false) as ->.
           { apply Nat.ltb_ge. rewrite app_length. cbn [length]. rewrite upd_length. lia. }
           cbn [orb bind]. rewrite Hmid. cbn [bind].
           rewrite (two_app_assoc pre m y) at 1.
           rewrite skipn_app_len by (rewrite app_length; cbn [length]; lia).
           split; [reflexivity|]. split; [lia|].
           change (last (idx :: b :: S'') 0) with (last (b :: S'') 0).
           cbn [app]. rewrite <- app_assoc.
           replace (b - S (S idx)) with (b - (idx + 2)) in HG by lia.
           apply (Grouped_cons (G_suffix src) [x; y] k r _ ltac:(discriminate) HGk HG).
    + rewrite (cons_app_assoc pre x).
      destruct (IH l' (pre ++ [x]) (S idx) a S') as [mid [Hmid [Hle HG]]].
      * cbn [length] in Hlen. lia.
      * rewrite app_length. cbn [length]. lia.
      * exact HF'.
      * exact Hst.
      * exists mid. split; [exact Hmid|]. split; [lia|].
        replace (a - idx) with (S (a - S idx)) by lia. cbn [firstn app].
        pose proof (Grouped_cons (G_suffix src) [x] (tkind_of x) l' _ ltac:(discriminate)
                      (G_suffix_single src x) HG) as H.
        rewrite group_token_single in H. exact H.
Qed.

Theorem condense_number_suffixes_w : forall src ts, Forall (goodw src) ts ->
  exists ts', condense_number_suffixes src ts = Ok ts' /\ Grouped (G_suffix src) ts ts'.
Proof.
  intros src ts HF.
  unfold condense_number_suffixes. destruct (length ts <? 2) eqn:E2.
  - exists ts. split; [reflexivity|]. apply grouped_refl. apply G_suffix_single.
  - pose proof (ns_loop_spec_w src ts [] 0 eq_refl HF) as Hns. cbn [app length] in Hns.
    rewrite Hns. cbn [bind]. unfold condense_indices.
    pose proof (ci_update_spec src ts [] 0 eq_refl) as Hup. cbn [app] in Hup.
    rewrite Hup. cbn [bind].
    destruct (starts src 0 ts) as [|a S'] eqn:ES.
    + exists ts. rewrite (starts_nil_upd src ts 0 ES). cbn [length rev ci_chunks bind].
      unfold slice_chk.
      assert (0 <? 0 = false) as -> by reflexivity.
      assert (length ts <? 0 = false) as -> by reflexivity.
      rewrite Nat.ltb_irrefl. rewrite Nat.sub_diag.
      cbn [orb bind skipn firstn app]. rewrite Nat.sub_0_r. rewrite firstn_all.
      split; [reflexivity|]. apply grouped_refl. apply G_suffix_single.
    + destruct (chunks_spec_w src (length ts) ts [] 0 a S' (le_n _) eq_refl HF ES) as [mid [Hmid [_ HG]]].
      cbn [app] in Hmid, HG. rewrite Nat.sub_0_r in HG.
      assert (a + 1 < 0 + length ts) as Ha
        by (apply (starts_bounds src ts 0 a); rewrite ES; left; reflexivity).
      assert (last (a :: S') 0 + 1 < 0 + length ts) as Hl
        by (apply (starts_bounds src ts 0); rewrite ES; apply last_in).
      destruct (rev_last_head S' a) as [rr Hrev].
      exists (firstn a (upd src ts) ++ mid ++ skipn (last (a :: S') 0 + 2) (upd src ts)).
      split; [|exact HG].
      unfold slice_chk at 1.
      assert (a <? 0 = false) as -> by reflexivity.
      assert (length (upd src ts) <? a = false) as ->
        by (apply Nat.ltb_ge; rewrite upd_length; lia).
      cbn [orb bind skipn]. rewrite Nat.sub_0_r. rewrite Hmid. cbn [bind]. rewrite Hrev.
      unfold slice_chk.
      assert (length (upd src ts) <? last (a :: S') 0 + 2 = false) as ->
        by (apply Nat.ltb_ge; rewrite upd_length; lia).
      rewrite Nat.ltb_irrefl. cbn [orb bind].
      rewrite (firstn_all2 (skipn (last (a :: S') 0 + 2) (upd src ts)))
        by (rewrite skipn_length; lia).
      reflexivity.
Qed.

(* a Number + two-letter Word group holds no break *)
Lemma pb_rule_suffix src : pb_rule (G_suffix src).
Proof.
  intros g k [[t [-> ->]]|(x & y & nbr & cs & sfx & -> & Kx & Ky & _)] HF.
  - left. exists t. auto.
  - right. apply nb_cover; [exact HF|]. unfold nb.
    constructor; [rewrite Kx; discriminate|]. constructor; [rewrite Ky; discriminate|constructor].
Qed.

Lemma pbgapped_goodw src a ts : PbGapped a (length src) ts -> Forall (goodw src) ts.
Proof.
  intros H. destruct (pbgapped_facts _ _ _ H) as (W1 & W2 & _ & _ & W5).
  rewrite Forall_forall in *. intros t Hin K. specialize (W1 t Hin). specialize (W2 t Hin). specialize (W5 t Hin).
  cbn beta in *. assert (tstart t < tend t) as C.
  { destruct (Nat.eq_dec (tstart t) (tend t)) as [E|N]; [|lia]. rewrite (W5 E) in K. discriminate. }
  split; [exact C|apply W2; exact C].
Qed.

Theorem condense_number_suffixes_pb : forall src a ts, PbGapped a (length src) ts ->
  exists ts', condense_number_suffixes src ts = Ok ts' /\ Grouped (G_suffix src) ts ts' /\
    PbGapped a (length src) ts'.
Proof.
  intros src a ts H.
  destruct (condense_number_suffixes_w src ts (pbgapped_goodw src a ts H)) as [ts' [E Gr]].
  exists ts'. split; [exact E|]. split; [exact Gr|].
  eapply grouped_pbgapped; [apply pb_rule_suffix|exact Gr|exact H].
Qed.

(* the dictionary look-up loop reads Word tokens only *)
Lemma word_lookup_goodw src : forall ts, Forall (goodw src) ts -> word_lookup_check src ts = Ok tt.
Proof.
  induction ts as [|t ts IH]; intros HF; [reflexivity|].
  inversion HF as [|t0 ts0 Ht Hts]; subst. cbn [word_lookup_check].
  destruct (is_word (tkind_of t)) eqn:K; [|apply IH; assumption].
  rewrite (get_content_good src t (Ht K)). cbn [bind]. apply IH. assumption.
Qed.

Print Assumptions condense_number_suffixes_pb.

(* ================= the whole of Document::parse on a vector with floating zero-width ParagraphBreaks ================= *)
Require Import CondSpaces CondPattern CondPatterns3 CondInitialisms DocumentProofs C02Quotes C02WrappersProofs C02GapPasses C02MarkdownProofs.

(* ---------- condense_spaces invents no quote: every output token is an input token or a Space (ANY vector) ---------- *)
Definition from_or_space (copy : list token) (t : token) : Prop := In t copy \/ exists n, tkind_of t = KSpace n.

Lemma in_firstn_in {A} (x : A) n l : In x (firstn n l) -> In x l.
Proof. intros H. rewrite <- (firstn_skipn n l). apply in_or_app. left. exact H. Qed.
Lemma in_skipn_in {A} (x : A) n l : In x (skipn n l) -> In x l.
Proof. intros H. rewrite <- (firstn_skipn n l). apply in_or_app. right. exact H. Qed.

Lemma cs_outer_tokens : forall fuel copy cursor upd q,
  cs_outer fuel copy cursor = Ok (upd, q) -> Forall (from_or_space copy) upd.
Proof.
  induction fuel as [|f IH]; intros copy cursor upd q H; [discriminate|].
  cbn [cs_outer] in H. destruct (nth_error copy cursor) as [start|] eqn:En; [|injection H as <- _; constructor].
  assert (NS : forall r, (do '(rest, q0) <- cs_outer f copy (cursor + 1); Ok (start :: rest, q0)) = Ok (upd, r) ->
               Forall (from_or_space copy) upd).
  { intros r Hr. destruct (cs_outer f copy (cursor + 1)) as [[rest q0]|pk] eqn:Eo; cbn [bind] in Hr; [|discriminate].
    injection Hr as <- _. constructor; [left; eapply nth_error_In; exact En|eapply IH; exact Eo]. }
  destruct (tkind_of start) eqn:K; try (eapply NS; exact H).
  clear NS.
  destruct (cs_inner (length copy) copy cursor n (tend start)) as [[[[cur' cnt] e] rm]|pk] eqn:Ei; cbn [bind] in H; [|discriminate].
  destruct (cs_outer f copy (cur' + 1)) as [[rest q0]|pk] eqn:Eo; cbn [bind] in H; [|discriminate].
  injection H as <- _. constructor; [right; eexists; reflexivity|].
  apply Forall_app. split; [|eapply IH; exact Eo].
  rewrite Forall_forall. intros t Hin. left. unfold slice in Hin.
  apply in_firstn_in in Hin. apply in_skipn_in in Hin. exact Hin.
Qed.

Lemma condense_spaces_notwins ts ts' : condense_spaces ts = Ok ts' -> Forall notwin ts -> Forall notwin ts'.
Proof.
  unfold condense_spaces. intros H N.
  destruct (cs_outer (S (length ts)) ts 0) as [[upd q]|pk] eqn:E; cbn [bind] in H; [|discriminate].
  injection H as <-. eapply sub_forall; [apply C02MarkdownProofs.remove_indices_sub|].
  eapply Forall_impl; [|exact (cs_outer_tokens _ _ _ _ _ E)].
  intros t [Hin|[n Hk]].
  - rewrite Forall_forall in N. apply N. exact Hin.
  - intros tw Hq. unfold quote_twin in Hq. rewrite Hk in Hq. discriminate.
Qed.

(* the passes after newlines_to_breaks (phase 7: split off so that vectors which are PbGapped only from there on —
   inert zero-width Newlines, C02ZeroWidthNl.v — can reuse them) *)
Definition document_tail (src : text) (t3 : list token) : res (list token) :=
  do t4 <- condense_number_suffixes src t3;
  do t5 <- condense_contractions src t4;
  do t6 <- condense_dotted_initialisms t5;
  do t7 <- condense_ellipsis src t6;
  do t8 <- condense_latin src t7;
  do t9 <- match_quotes t8;
  do _ <- word_lookup_check src t9;
  Ok t9.

Lemma document_passes_tail src ts :
  document_passes src ts =
  (do t1 <- condense_spaces ts; do t2 <- condense_newlines t1; document_tail src (newlines_to_breaks t2)).
Proof. reflexivity. Qed.

Theorem document_tail_pb src t3 : PbGapped 0 (length src) t3 ->
  exists t9, document_tail src t3 = Ok t9 /\ PbGapped 0 (length src) t9 /\
    QuotesOkBut (unpaired_quote t9) t9 /\ (Forall notwin t3 -> QuotesOk t9).
Proof.
  intros T3.
  destruct (condense_number_suffixes_pb src _ _ T3) as [t4 [E4 [G4 T4]]].
  destruct (condense_contractions_pb src _ _ _ T4) as [t5 [E5 [G5 T5]]].
  destruct (condense_dotted_initialisms_pb _ _ _ T5) as [t6 [E6 [G6 T6]]].
  destruct (condense_ellipsis_pb src _ _ _ T6) as [t7 [E7 [G7 T7]]].
  destruct (condense_latin_pb src _ _ T7) as [t8 [E8 [G8 T8]]].
  destruct (match_quotes_pb _ _ _ T8) as [t9 [E9 [SB [T9 [QB QO]]]]].
  exists t9. split; [|split; [exact T9|split]].
  - unfold document_tail.
    rewrite E4. cbn [bind]. rewrite E5. cbn [bind]. rewrite E6. cbn [bind].
    rewrite E7. cbn [bind]. rewrite E8. cbn [bind]. rewrite E9. cbn [bind].
    rewrite (word_lookup_goodw src t9 (pbgapped_goodw src 0 t9 T9)). reflexivity.
  - assert (quote_indices t9 0 = quote_indices t8 0) as EQ.
    { destruct SB as [_ S2]. clear -S2. generalize 0. revert t9 S2.
      induction t8 as [|x l IH]; intros t9 S2 i.
      - destruct t9; [reflexivity|discriminate].
      - destruct t9 as [|y l']; [discriminate|]. cbn [map] in S2. injection S2 as A B.
        cbn [quote_indices]. rewrite (IH l' B (S i)).
        assert (is_quote (tkind_of y) = is_quote (tkind_of x)) as ->; [|reflexivity].
        unfold strip_twin in A. destruct (tkind_of y) as [|p| | | | | | | | | |];
          destruct (tkind_of x) as [|p0| | | | | | | | | |]; try discriminate; try reflexivity;
          try (destruct p; discriminate); try (destruct p0; discriminate).
        destruct p; destruct p0; try discriminate; reflexivity. }
    unfold unpaired_quote. rewrite EQ. exact QB.
  - intros N3. apply QO.
    assert (Forall notwin t4) as N4.
    { eapply (grouped_notwins (G_suffix src)); [|exact G4|exact N3].
      intros g k _ [[t [-> ->]]|[x [y [nb [cs [sfx [-> [_ [_ [_ [_ [_ ->]]]]]]]]]]]]; [gn_single|gn_other]. }
    assert (Forall notwin t5) as N5.
    { eapply (grouped_notwins (G_pattern_in t4 (contraction_matches src) (fun k => k))); [|exact G5|exact N4].
      intros g k Hne [[t [-> ->]]|[pre [rest [_ [_ ->]]]]]; [gn_single|].
      left. exists (hd dummy_tok g). split; [apply hd_in; exact Hne|reflexivity]. }
    assert (Forall notwin t6) as N6.
    { eapply (grouped_notwins G_initialism); [|exact G6|exact N5].
      intros g k _ [[t [-> ->]]|[_ [_ ->]]]; [gn_single|gn_other]. }
    assert (Forall notwin t7) as N7.
    { eapply (grouped_notwins (G_pattern_in t6 (ellipsis_matches src) (fun _ => KPunct PEllipsis))); [|exact G7|exact N6].
      intros g k _ [[t [-> ->]]|[pre [rest [_ [_ ->]]]]]; [gn_single|gn_other]. }
    eapply (grouped_notwins (G_pattern_in t7 (latin_matches src) (fun k => k))); [|exact G8|exact N7].
    intros g k Hne [[t [-> ->]]|[pre [rest [_ [_ ->]]]]]; [gn_single|].
    left. exists (hd dummy_tok g). split; [apply hd_in; exact Hne|reflexivity].
Qed.

(* notwin through condense_newlines / newlines_to_breaks (groupings on ANY vector) *)
Lemma newlines_notwins t1 t2 : Grouped G_newlines t1 t2 -> Forall notwin t1 -> Forall notwin t2.
Proof.
  intros G2 N1. eapply (grouped_notwins G_newlines); [|exact G2|exact N1].
  intros g k _ [[t [-> ->]]|[ns [_ [_ ->]]]]; [gn_single|gn_other].
Qed.

Lemma breaks_notwins t2 : Forall notwin t2 -> Forall notwin (newlines_to_breaks t2).
Proof.
  intros N2. eapply (grouped_notwins G_breaks); [|apply newlines_to_breaks_grouped|exact N2].
  intros g k _ [t [-> ->]]. unfold newline_to_break.
  destruct (tkind_of t) as [ |p| |nb|sn|n| | | | | | ] eqn:E;
    try (left; exists t; split; [left; reflexivity|reflexivity]).
  destruct (2 <=? n).
  - right. intros tw. cbn [tkind_of]. discriminate.
  - left. exists t. split; [left; reflexivity|reflexivity].
Qed.

Theorem document_passes_pb src t0 : PbGapped 0 (length src) t0 ->
  exists t9, document_passes src t0 = Ok t9 /\ PbGapped 0 (length src) t9 /\
    QuotesOkBut (unpaired_quote t9) t9 /\ (NoTwins t0 -> QuotesOk t9).
Proof.
  intros T0.
  destruct (condense_spaces_pb _ _ _ T0) as [t1 [E1 T1]].
  destruct (condense_newlines_pb _ _ _ T1) as [t2 [E2 [G2 T2]]].
  destruct (newlines_to_breaks_pb _ _ _ T2) as [G3 T3].
  destruct (document_tail_pb src _ T3) as [t9 [E9 [T9 [QB QO]]]].
  exists t9. split; [|split; [exact T9|split; [exact QB|]]].
  - rewrite document_passes_tail, E1. cbn [bind]. rewrite E2. cbn [bind]. exact E9.
  - intros NT. apply QO. apply breaks_notwins. eapply newlines_notwins; [exact G2|].
    eapply condense_spaces_notwins; [exact E1|exact NT].
Qed.

Print Assumptions document_passes_pb.
