(* C02Findings.v — phase 5:
   (1) exact characterisation of the two open findings:
       F7  — a Word token of a plain-English document contains whitespace IF AND ONLY IF its text is
             `et <blanks/newlines> al.` (et_al_text): the classifier of known/C02.json is provably the failing class;
       F28 — on a gapped vector every token of Document::parse spans a run g of consecutive tokens of the VECTOR, and
             it covers a character that no token of the run covers IF AND ONLY IF the run is not contiguous in the
             TEXT (two neighbours x y of the run with tend x < tstart y): the structural test of the harness marker
             `[condensed across a gap]` is exactly non-contiguity.
   (2) Document::parse over Markdown tokens, end to end, for the event streams whose Markdown::parse output has no
       zero-width token (`_partial`), and the LIMITS of any statement about vectors with zero-width tokens: three
       machine-checked witnesses showing that the token invariant TokInv alone (zero-width breaks at arbitrary
       positions) is preserved by no means by condense_spaces / condense_newlines / condense_latin. *)
Require Import Base Overlap Mask MaskProofs.
Require Import OverlapProofs Tables_lexer Lexer Condense ListLemmas TokenInv CondenseInv LexerProofs
  CondPatterns3 CondPattern CondSpaces CondInitialisms CondSuffixQuotes Shape DocumentProofs
  C02Wrappers C02Gapped C02WrappersProofs C02Quotes C02GapPasses C02Markdown C02MarkdownProofs.
From Coq Require Import List Arith NArith Lia ZArith.
Import ListNotations.

(* ====================== F7: exactly the `et al.` class ====================== *)
Lemma et_al_has_ws u (laws : uni_laws u) txt : et_al_text txt -> ~ no_ws u txt.
Proof.
  intros (e & t & w & a & l & E & _ & _ & _ & _ & Hne & Hw) Hno.
  destruct laws as [_ [Hascii _]].
  destruct w as [|c w']; [contradiction|].
  subst txt. unfold no_ws in Hno.
  inversion Hno as [|x1 l1 _ H1]; subst. inversion H1 as [|x2 l2 _ H2]; subst.
  cbn [app] in H2. inversion H2 as [|x3 l3 Hc _]; subst.
  inversion Hw as [|x4 l4 Hc4 _]; subst.
  rewrite Hascii in Hc by (destruct Hc4 as [->|[->| ->]]; reflexivity).
  destruct Hc4 as [->|[->| ->]]; discriminate Hc.
Qed.

Definition word_ws_iff u (s : text) (t : token) : Prop :=
  tkind_of t = KWord -> (~ no_ws u (tok_text s t) <-> et_al_text (tok_text s t)).

Theorem document_word_ws_iff u (laws : uni_laws u) s :
  exists ts, document_plain u s = Ok ts /\ Forall (word_ws_iff u s) ts.
Proof.
  destruct (document_plain_ok u laws s) as [ts [E [_ [Sh _]]]].
  exists ts. split; [exact E|].
  unfold Shape in Sh. eapply Forall_impl; [|exact Sh].
  intros t [_ K] Hk. rewrite Hk in K. cbn [kind_shape] in K. split.
  - intros Hn. destruct K as [K|[_ K]]; [contradiction|exact K].
  - apply et_al_has_ws. exact laws.
Qed.

(* ====================== F28: across a gap = the run is not contiguous ====================== *)
Definition covered_by (g : list token) (p : nat) : Prop := exists t, In t g /\ tstart t <= p < tend t.
Definition Contiguous (g : list token) : Prop := Tiling (group_start g) (group_end g) g.
Definition AllCovered (g : list token) : Prop := forall p, group_start g <= p < group_end g -> covered_by g p.

Lemma tiling_covered a b g : Tiling a b g -> forall p, a <= p < b -> covered_by g p.
Proof.
  induction 1 as [a|a b t ts Hs Hlt HT IH]; intros p Hp; [lia|].
  destruct (Nat.lt_ge_cases p (tend t)) as [Hl|Hg].
  - exists t. split; [left; reflexivity|lia].
  - destruct (IH p ltac:(lia)) as [x [Hin Hx]]. exists x. split; [right; exact Hin|exact Hx].
Qed.

Lemma gapped_contiguous_iff a b g : g <> [] -> Gapped a b g -> (Contiguous g <-> AllCovered g).
Proof.
  intros Hne HG. split.
  - intros HT p Hp. eapply tiling_covered; eauto.
  - unfold Contiguous, AllCovered. clear Hne.
    induction HG as [a b Hab|a b t ts Hs Hlt HT IH]; intros HC.
    + cbn in HC. unfold group_end. cbn. constructor.
    + cbn [group_start]. unfold group_end. rewrite last_cons_tok.
      destruct ts as [|t2 ts2].
      * cbn [last]. constructor; [reflexivity|exact Hlt|constructor].
      * constructor; [reflexivity|exact Hlt|].
        inversion HT as [|a0 b0 t0 ts0 Hs2 Hlt2 HT2]; subst a0 b0 t0 ts0.
        pose proof (gapped_in_range _ _ _ HT2) as R2. rewrite Forall_forall in R2.
        assert (Hend : tend t2 <= tend (last (t2 :: ts2) t)).
        { destruct (gapped_group _ _ (t2 :: ts2) ltac:(discriminate) HT) as [_ [_ _]].
          rewrite last_cons_tok. destruct ts2 as [|t3 ts3]; [cbn [last]; lia|].
          destruct (gapped_group _ _ (t3 :: ts3) ltac:(discriminate) HT2) as [G1 [G2 _]].
          cbn [group_start] in G1, G2. unfold group_end in G2. rewrite last_cons_tok in G2.
          rewrite last_cons_tok. lia. }
        assert (Hadj : tstart t2 = tend t).
        { destruct (Nat.eq_dec (tstart t2) (tend t)) as [E|NE]; [exact E|exfalso].
          cbn [group_start] in HC. unfold group_end in HC. rewrite last_cons_tok in HC.
          destruct (HC (tend t) ltac:(lia)) as [x [Hin Hx]].
          destruct Hin as [<-|[<-|Hin]]; [lia|lia|]. specialize (R2 x Hin). cbn beta in R2. lia. }
        rewrite <- Hadj.
        assert (HT' : Gapped (tend t) b (t2 :: ts2)) by exact HT.
        specialize (IH). cbn [group_start] in IH. unfold group_end in IH. rewrite last_cons_tok in IH.
        rewrite last_cons_tok. apply IH.
        intros p Hp. cbn [group_start] in HC. unfold group_end in HC. rewrite !last_cons_tok in HC.
        destruct (HC p ltac:(lia)) as [x [Hin Hx]].
        destruct Hin as [<-|Hin]; [lia|]. exists x. split; [exact Hin|exact Hx].
Qed.

(* a grouping of a gapped vector: every group is gapped, so a fact about gapped runs holds of every group *)
Lemma grouped_gapped_groups (Q : list token -> Prop) (G : list token -> tkind -> Prop) :
  (forall a b g, g <> [] -> Gapped a b g -> Q g) ->
  forall ts ts', Grouped G ts ts' -> forall a b, Gapped a b ts -> Grouped (fun g k => G g k /\ Q g) ts ts'.
Proof.
  intros HQ ts ts' H. induction H as [|g k rest rest' Hne Hg Hrest IH]; intros a b HT; [constructor|].
  apply gapped_app_inv in HT. destruct HT as [m [Tg Tr]].
  constructor; [exact Hne|split; [exact Hg|eapply HQ; eauto]|eapply IH; eauto].
Qed.

Definition gap_rule (g : list token) (k : tkind) : Prop := True /\ (Contiguous g <-> AllCovered g).

Theorem document_passes_gap_iff src t0 : Gapped 0 (length src) t0 ->
  exists t9, document_passes src t0 = Ok t9 /\ Gapped 0 (length src) t9 /\ Grouped gap_rule t0 t9.
Proof.
  intros T0. destruct (document_passes_gapped src t0 T0) as [t9 [E [T9 [C _]]]].
  exists t9. split; [exact E|]. split; [exact T9|].
  unfold gap_rule. eapply (grouped_gapped_groups (fun g => Contiguous g <-> AllCovered g)); [|exact C|exact T0].
  intros a b g Hne HG. eapply gapped_contiguous_iff; eauto.
Qed.

(* non-vacuity on the F28 witness: the Ellipsis 1..9 spans the run [`.` 1..2 ; `.` 8..9], which is not contiguous,
   and position 2 is covered by no token of the run *)
Example gap_iff_example :
  let g := [mktok (mkspan 1 2) (KPunct PPeriod); mktok (mkspan 8 9) (KPunct PPeriod)] in
  Gapped 0 9 g /\ group_token g (KPunct PEllipsis) = mktok (mkspan 1 9) (KPunct PEllipsis) /\
  ~ Contiguous g /\ ~ covered_by g 2.
Proof.
  cbv zeta. split; [|split; [reflexivity|split]].
  - repeat (constructor; [cbn; lia|cbn; lia|]). constructor. cbn. lia.
  - intros H. unfold Contiguous in H. inversion H as [|a b t ts Hs1 Hlt1 H2]. inversion H2 as [|a' b' t' ts' Hs2 Hlt2 HT3].
    cbn in Hs2. lia.
  - intros [t [[<-|[<-|[]]] Hx]]; cbn in Hx; lia.
Qed.

(* ====================== Document::parse over Markdown tokens ====================== *)
(* a vector with the token invariant, every token covering characters: a gapped tiling *)
Lemma ordered_covering_gapped n : forall ts lo,
  OrderedFrom lo ts -> Forall covers_chars ts -> Forall (fun t => tstart t < tend t -> tend t <= n) ts -> lo <= n ->
  Gapped lo n ts.
Proof.
  induction ts as [|t ts IH]; intros lo HO HC HB Hlo; [constructor; exact Hlo|].
  inversion HC as [|x l Hc HC']; subst. inversion HB as [|x l Hb HB']; subst.
  inversion HO as [|lo0 t0 ts0 Hz _|lo0 t0 ts0 _ Hl HO']; subst; [contradiction|].
  unfold covers_chars in Hc. constructor; [exact Hl|exact Hc|]. apply IH; auto.
Qed.

Lemma tokinv_covering_gapped n ts : TokInv n ts -> Forall covers_chars ts -> Gapped 0 n ts.
Proof.
  intros [_ [HB [HO _]]] HC. apply ordered_covering_gapped; auto. lia.
Qed.

(* under the contract of the event stream: Markdown::parse delivers the token invariant (markdown_glue); when its
   tokens all cover characters (no zero-width break survives: single-block documents, whose trailing ParagraphBreak
   is popped), Document::parse over them never panics, the document's tokens are a gapped tiling of the text, each
   spanning a run of consecutive Markdown tokens, quotes paired up to the unpaired one.
   PARTIAL: vectors that keep a zero-width Newline / ParagraphBreak are not covered (see the limits below). *)
Theorem document_markdown_partial u ilt src evs :
  Forall valid_char src -> md_contract src evs ->
  exists ts, markdown_parse u ilt src evs = Ok ts /\ TokInv (length src) ts /\
    (Forall covers_chars ts ->
     exists t9, document_markdown u ilt src evs = Ok t9 /\ Gapped 0 (length src) t9 /\ Coarse ts t9 /\
       QuotesOkBut (unpaired_quote t9) t9 /\ (NoTwins ts -> QuotesOk t9)).
Proof.
  intros Hv Hc. destruct (markdown_glue u ilt src evs Hv Hc) as (raw & ts & _ & E & _ & _ & TI & _).
  exists ts. split; [exact E|]. split; [exact TI|]. intros HC.
  destruct (document_passes_gapped src ts (tokinv_covering_gapped _ _ TI HC)) as [t9 [E9 R]].
  exists t9. split; [unfold document_markdown; rewrite E; cbn [bind]; exact E9|exact R].
Qed.

(* non-vacuity: the stream of `x ![[a|]] Old _a_ b` (FC02c) — five covering tokens, the document has the same five *)
Example document_markdown_example :
  md_contract md_back_src md_back_evs /\
  markdown_parse ascii_uni false md_back_src md_back_evs = Ok md_back_out /\
  Forall covers_chars md_back_out /\
  document_markdown ascii_uni false md_back_src md_back_evs = Ok md_back_out.
Proof.
  split; [vm_compute; reflexivity|]. split; [vm_compute; reflexivity|]. split.
  - unfold md_back_out, covers_chars. repeat constructor; cbn; lia.
  - vm_compute. reflexivity.
Qed.

(* ---------- LIMITS: why TokInv (zero-width breaks anywhere) is not an invariant of Document::parse ---------- *)
Definition zw (p n : nat) : token := mktok (mkspan p p) (KNewline n).

(* (a) condense_newlines merges a zero-width Newline with a covering one that follows it in the vector: the merged
   token 1..4 overlaps the Word 0..3 — TokInv in, not ordered / disjoint out *)
Definition lim_a_src : text := [97; 98; 99; 10]%N.
Definition lim_a_in : list token := [mktok (mkspan 0 3) KWord; zw 1 1; mktok (mkspan 3 4) (KNewline 1)].
Definition lim_a_out : list token := [mktok (mkspan 0 3) KWord; mktok (mkspan 1 4) KParagraphBreak].
Example zero_width_newline_limit :
  TokInv (length lim_a_src) lim_a_in /\ Forall (fun t => tend t <= length lim_a_src) lim_a_in /\
  document_passes lim_a_src lim_a_in = Ok lim_a_out /\ ~ OrderedDisjoint lim_a_out.
Proof.
  split; [|split; [|split]].
  - unfold TokInv, lim_a_in, zw. split; [repeat constructor; cbn; lia|].
    split; [unfold InBounds; repeat constructor; cbn; lia|].
    split; [|unfold ZeroWidthOnlyBreaks; repeat constructor; cbn; intros; trivial; lia].
    unfold OrderedDisjoint. apply OF_cons; [unfold covers_chars; cbn; lia|cbn; lia|].
    apply OF_zero; [unfold covers_chars; cbn; lia|].
    apply OF_cons; [unfold covers_chars; cbn; lia|cbn; lia|constructor].
  - unfold lim_a_in, zw. repeat constructor; cbn; lia.
  - vm_compute. reflexivity.
  - unfold OrderedDisjoint, lim_a_out. intros H.
    inversion H as [|lo1 x1 l1 Hz1 Hr1|lo1 x1 l1 Hc1 Hl1 H2]; subst; [apply Hz1; unfold covers_chars; cbn; lia|].
    inversion H2 as [|lo2 x2 l2 Hz2 Hr2|lo2 x2 l2 Hc2 Hl Hr2]; subst; [apply Hz2; unfold covers_chars; cbn; lia|].
    cbn in Hl. lia.
Qed.

(* (b) the double cursor increment of condense_spaces: after absorbing one Space the loop skips a token; when that
   token is zero-width, the NEXT Space is absorbed too and the skipped token stays behind the merged Space — the
   pass is not a grouping of the vector any more (on gapped vectors it is: condense_spaces_gapped) *)
Definition lim_b_in : list token :=
  [mktok (mkspan 0 1) (KSpace 1); mktok (mkspan 1 2) (KSpace 2); zw 2 2; mktok (mkspan 2 3) (KSpace 1)].
Example zero_width_space_quirk_limit :
  TokInv 3 lim_b_in /\ condense_spaces lim_b_in = Ok [mktok (mkspan 0 3) (KSpace 4); zw 2 2].
Proof.
  split; [|vm_compute; reflexivity].
  unfold TokInv, lim_b_in, zw. split; [repeat constructor; cbn; lia|].
  split; [unfold InBounds; repeat constructor; cbn; lia|].
  split; [|unfold ZeroWidthOnlyBreaks; repeat constructor; cbn; intros; trivial; lia].
  unfold OrderedDisjoint. apply OF_cons; [unfold covers_chars; cbn; lia|cbn; lia|].
  apply OF_cons; [unfold covers_chars; cbn; lia|cbn; lia|].
  apply OF_zero; [unfold covers_chars; cbn; lia|].
  apply OF_cons; [unfold covers_chars; cbn; lia|cbn; lia|constructor].
Qed.

(* (c) TokInv bounds only the tokens that cover characters: a zero-width Newline beyond the text is taken into the
   hull of `et <newline> al.` by condense_latin, the Word 0..100 is out of bounds and the dictionary look-up's
   get_content panics — Document::parse is NOT total on TokInv vectors (it is when every token ends inside the text
   and the vector is gapped: document_passes_gapped) *)
Definition lim_c_src : text := [101; 116; 32; 97; 108; 46]%N.
Definition lim_c_in : list token :=
  [mktok (mkspan 0 2) KWord; zw 100 1; mktok (mkspan 3 5) KWord; mktok (mkspan 5 6) (KPunct PPeriod)].
Example zero_width_out_of_text_limit :
  TokInv (length lim_c_src) lim_c_in /\ document_passes lim_c_src lim_c_in = Panic PIndex.
Proof.
  split; [|vm_compute; reflexivity].
  unfold TokInv, lim_c_in, zw. split; [repeat apply Forall_cons; try apply Forall_nil; cbn; lia|].
  split; [unfold InBounds; repeat apply Forall_cons; try apply Forall_nil; cbn; lia|].
  split; [|unfold ZeroWidthOnlyBreaks; repeat apply Forall_cons; try apply Forall_nil; cbn; intros; trivial; lia].
  unfold OrderedDisjoint. apply OF_cons; [unfold covers_chars; cbn; lia|cbn; lia|].
  apply OF_zero; [unfold covers_chars; cbn; lia|].
  apply OF_cons; [unfold covers_chars; cbn; lia|cbn; lia|].
  apply OF_cons; [unfold covers_chars; cbn; lia|cbn; lia|constructor].
Qed.

Print Assumptions document_word_ws_iff.
Print Assumptions document_passes_gap_iff.
Print Assumptions document_markdown_partial.
