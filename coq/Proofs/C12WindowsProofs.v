(* C12WindowsProofs.v — UnclosedQuotes (exact body) and the kind-guarded window rules are paragraph-local.

   unclosed_quotes_local   no side condition at all: the rule looks at one token at a time and reads of a quote only
                           whether twin_loc is None, which moving the token (shift_tok: span + n, twin + k) keeps.
                           The no-quote premise of the property is therefore NOT consumed by the rule; it is consumed one
                           level below, by match_quotes (C12CondQuotes.match_quotes_split: with a Quote token in P the
                           TOKENS of P ++ D are not tokens(P) ++ shift tokens(D) — twins pair across the cut).
   guarded_local           a guard position accepts Word or Space/Newline, never ParagraphBreak; so a window that
                           contains a break fails the guard, `guarded_rule g h` IS `window_rule |g| (guarded_g0 g h)`
                           (ParaSplit's window rule that skips windows with a break) and window_local applies. *)
From Coq Require Import List Arith Lia Bool.
Require Import Base Overlap ParaSplit ParaSplitProofs Tables_c12rules C12Windows.
Import ListNotations.

(* ---------- UnclosedQuotes ---------- *)
Lemma unclosed_quote_tok_shift n k t :
  unclosed_quote_tok (shift_tok n k t) = map (shift_lint n) (unclosed_quote_tok t).
Proof.
  destruct t as [sp kd]. unfold unclosed_quote_tok, shift_tok. cbn [tkind tspan].
  destruct kd as [| | | | | | | | | |[j|]| |]; reflexivity.
Qed.

Lemma unclosed_quotes_split A B n k s1 s2 s3 :
  unclosed_quotes (A ++ map (shift_tok n k) B) s1
  = unclosed_quotes A s2 ++ map (shift_lint n) (unclosed_quotes B s3).
Proof.
  unfold unclosed_quotes. rewrite flat_map_app. f_equal.
  induction B as [|b B IH]; [reflexivity|].
  cbn [map flat_map]. rewrite map_app, IH, unclosed_quote_tok_shift. reflexivity.
Qed.

Theorem unclosed_quotes_local : para_local unclosed_quotes.
Proof. intros A B P D _ _. apply unclosed_quotes_split. Qed.

(* what the rule reports: exactly the quote tokens without a twin, each with its own span *)
Lemma unclosed_quotes_spec ts src l :
  In l (unclosed_quotes ts src) <-> exists t, In t ts /\ tkind t = KQuote None /\ l = mklint (tspan t) 255.
Proof.
  unfold unclosed_quotes. rewrite in_flat_map. split.
  - intros (t & Ht & Hl). exists t. split; [exact Ht|]. unfold unclosed_quote_tok in Hl.
    destruct (tkind t) as [| | | | | | | | | |[j|]| |]; try contradiction.
    destruct Hl as [<-|[]]. split; reflexivity.
  - intros (t & Ht & Hk & ->). exists t. split; [exact Ht|]. unfold unclosed_quote_tok. rewrite Hk. now left.
Qed.

(* ---------- guarded windows ---------- *)
Lemma kpat_rejects_break p k : is_paragraph_break k = true -> kpat_ok p k = false.
Proof. destruct k; try discriminate. destruct p; reflexivity. Qed.

Lemma guard_no_break g : forall c, guard_matches g c = true -> has_break c = false.
Proof.
  induction g as [|p g IH]; intros [|t c] H; cbn [guard_matches] in H; try discriminate; [reflexivity|].
  apply andb_true_iff in H. destruct H as [H1 H2]. unfold has_break. cbn [existsb].
  destruct (is_paragraph_break (tkind t)) eqn:E.
  - rewrite (kpat_rejects_break p _ E) in H1. discriminate.
  - cbn [orb]. exact (IH c H2).
Qed.

Lemma kpat_rel p k : kpat_ok p (rel_kind k) = kpat_ok p k.
Proof. destruct k as [| | | | | | | | | |[j|]| |]; reflexivity. Qed.

Lemma guard_rel g s : forall c, guard_matches g (rel_chunk s c) = guard_matches g c.
Proof.
  induction g as [|p g IH]; intros [|t c]; try reflexivity.
  unfold rel_chunk. cbn [map guard_matches]. fold (rel_chunk s c). rewrite IH.
  unfold rel_tok. cbn [tkind]. now rewrite kpat_rel.
Qed.

Lemma has_break_rel s c : has_break (rel_chunk s c) = has_break c.
Proof.
  unfold has_break, rel_chunk. induction c as [|t c IH]; [reflexivity|].
  cbn [map existsb]. rewrite IH. f_equal. unfold rel_tok. cbn [tkind].
  destruct (tkind t) as [| | | | | | | | | |[j|]| |]; reflexivity.
Qed.

Lemma lift_guarded_break g h c src : has_break c = true -> lift (guarded_g0 g h) c src = [].
Proof.
  intros Hb. unfold lift. destruct (hull c) as [sp|]; [|reflexivity].
  unfold guarded_g0. rewrite guard_rel.
  destruct (guard_matches g c) eqn:E; [|reflexivity].
  rewrite (guard_no_break g c E) in Hb. discriminate.
Qed.

(* the loop as written equals the window rule that skips every window containing a ParagraphBreak *)
Lemma guarded_is_window g h ts src :
  guarded_rule g h ts src = window_rule (length g) (guarded_g0 g h) ts src.
Proof.
  unfold guarded_rule, window_rule. apply flat_map_ext. intros c.
  destruct (has_break c) eqn:E; [now apply lift_guarded_break|reflexivity].
Qed.

Theorem guarded_local g h : g <> [] -> para_local (guarded_rule g h).
Proof.
  intros Hg A B P D HA Hin. rewrite !guarded_is_window.
  apply window_local; [|exact HA|exact Hin].
  destruct g; [contradiction|cbn [length]; lia].
Qed.

(* a guarded rule reports nothing for a window that reaches across a ParagraphBreak, whatever h is *)
Lemma guarded_silent_across_break g h c src : has_break c = true -> lift (guarded_g0 g h) c src = [].
Proof. apply lift_guarded_break. Qed.

(* every guard of the generated table is non-empty (recomputed on every run) *)
Lemma window_guards_nonempty : forallb (fun ng => negb (Nat.eqb (length (snd ng)) 0)) window_guards = true.
Proof. vm_compute. reflexivity. Qed.
