(* DocumentProofs.v — Document::new_plain_english as a whole: the passes of Document::parse, in the order the
   code applies them, keep the tiling PlainEnglish::parse establishes, never panic, and keep / establish
   the lexical shape of every token kind (C02_document_tiling, C02_document_shape). *)
Require Import Base Overlap OverlapProofs Tables_lexer Lexer Condense ListLemmas TokenInv CondenseInv LexerProofs
  CondPatterns3 CondPattern CondSpaces CondInitialisms CondSuffixQuotes Shape NumberFinite.
From Coq Require Import Lia ZArith.

(* ================= a Grouped pass carries a per-token invariant Q to Q' ================= *)
Lemma grouped_inv (Q Q' : token -> Prop) (G : list token -> tkind -> Prop) :
  (forall g k a b, g <> [] -> Tiling a b g -> Forall Q g -> G g k -> Q' (group_token g k)) ->
  forall ts ts', Grouped G ts ts' -> forall a b, Tiling a b ts -> Forall Q ts -> Forall Q' ts'.
Proof.
  intros HG ts ts' H. induction H as [|g k rest rest' Hne Hg Hrest IH]; intros a b HT HQ; [constructor|].
  apply tiling_app_inv in HT. destruct HT as [m [Tg Tr]].
  apply Forall_app in HQ. destruct HQ as [Qg Qr].
  constructor; [eapply HG; eauto|eapply IH; eauto].
Qed.

Lemma same_spans_tiling ts : forall ts', map tspan ts' = map tspan ts ->
  forall a b, Tiling a b ts -> Tiling a b ts'.
Proof.
  induction ts as [|t ts IH]; intros ts' E a b HT.
  - destruct ts'; [exact HT|discriminate].
  - destruct ts' as [|t' ts']; [discriminate|]. cbn [map] in E. injection E as E1 E2.
    inversion HT as [|a0 b0 t0 ts0 Hs Hlt Hrest]; subst.
    assert (tstart t' = tstart t /\ tend t' = tend t) as [S1 S2] by (unfold tstart, tend; rewrite E1; auto).
    constructor; [exact S1|rewrite S2; exact Hlt|rewrite S2; apply IH; assumption].
Qed.

(* ================= tiling of the whole document ================= *)
Section Pipeline.
  Variable src : text.

  (* what the passes before match_quotes do, pass by pass, on a tiling of the text *)
  Record passes_run (t0 : list token) (t8 : list token) : Prop := {
    pr_t1 : list token; pr_t2 : list token; pr_t4 : list token; pr_t5 : list token;
    pr_t6 : list token; pr_t7 : list token;
    pr_e1 : condense_spaces t0 = Ok pr_t1;            pr_g1 : Grouped G_spaces t0 pr_t1;
    pr_e2 : condense_newlines pr_t1 = Ok pr_t2;       pr_g2 : Grouped G_newlines pr_t1 pr_t2;
    pr_g3 : Grouped G_breaks pr_t2 (newlines_to_breaks pr_t2);
    pr_e4 : condense_number_suffixes src (newlines_to_breaks pr_t2) = Ok pr_t4;
    pr_g4 : Grouped (G_suffix src) (newlines_to_breaks pr_t2) pr_t4;
    pr_e5 : condense_contractions src pr_t4 = Ok pr_t5;
    pr_g5 : Grouped (G_pattern (contraction_matches src) (fun k => k)) pr_t4 pr_t5;
    pr_e6 : condense_dotted_initialisms pr_t5 = Ok pr_t6;  pr_g6 : Grouped G_initialism pr_t5 pr_t6;
    pr_e7 : condense_ellipsis src pr_t6 = Ok pr_t7;
    pr_g7 : Grouped (G_pattern (ellipsis_matches src) (fun _ => KPunct PEllipsis)) pr_t6 pr_t7;
    pr_e8 : condense_latin src pr_t7 = Ok t8;
    pr_g8 : Grouped (G_pattern_in pr_t7 (latin_matches src) (fun k => k)) pr_t7 t8;
    pr_T1 : Tiling 0 (length src) pr_t1; pr_T2 : Tiling 0 (length src) pr_t2;
    pr_T3 : Tiling 0 (length src) (newlines_to_breaks pr_t2); pr_T4 : Tiling 0 (length src) pr_t4;
    pr_T5 : Tiling 0 (length src) pr_t5; pr_T6 : Tiling 0 (length src) pr_t6;
    pr_T7 : Tiling 0 (length src) pr_t7; pr_T8 : Tiling 0 (length src) t8
  }.

  Lemma passes_exist t0 : Tiling 0 (length src) t0 -> exists t8, passes_run t0 t8.
  Proof.
    intros T0.
    destruct (condense_spaces_grouped _ _ _ T0) as [t1 [E1 G1]].
    pose proof (grouped_tiling _ _ _ G1 _ _ T0) as T1.
    destruct (condense_newlines_grouped _ _ _ T1) as [t2 [E2 G2]].
    pose proof (grouped_tiling _ _ _ G2 _ _ T1) as T2.
    pose proof (newlines_to_breaks_grouped t2) as G3.
    pose proof (grouped_tiling _ _ _ G3 _ _ T2) as T3.
    destruct (condense_number_suffixes_grouped src _ T3) as [t4 [E4 G4]].
    pose proof (grouped_tiling _ _ _ G4 _ _ T3) as T4.
    destruct (contraction_ok src t4) as [MO5 ME5].
    destruct (condense_pattern_grouped _ (fun k => k) _ _ _ T4 MO5 ME5) as [t5 [E5 G5]].
    pose proof (grouped_tiling _ _ _ G5 _ _ T4) as T5.
    destruct (condense_dotted_initialisms_grouped _ _ _ T5) as [t6 [E6 G6]].
    pose proof (grouped_tiling _ _ _ G6 _ _ T5) as T6.
    destruct (ellipsis_ok src t6) as [MO7 ME7].
    destruct (condense_pattern_grouped _ (fun _ => KPunct PEllipsis) _ _ _ T6 MO7 ME7) as [t7 [E7 G7]].
    pose proof (grouped_tiling _ _ _ G7 _ _ T6) as T7.
    destruct (latin_ok src t7 T7) as [MO8 ME8].
    destruct (condense_pattern_grouped_in _ (fun k => k) _ _ _ T7 MO8 ME8) as [t8 [E8 G8]].
    pose proof (grouped_tiling _ _ _ G8 _ _ T7) as T8.
    exists t8. econstructor; eassumption.
  Qed.

  Lemma passes_run_document t0 t8 : passes_run t0 t8 -> NoTwins t8 ->
    exists t9, document_passes src t0 = Ok t9 /\ Tiling 0 (length src) t9 /\ SameButTwins t8 t9 /\ QuotesOk t9.
  Proof.
    intros R NT. destruct R.
    destruct (match_quotes_spec t8 NT) as [t9 [E9 [SB QO]]].
    assert (Tiling 0 (length src) t9) as T9 by (destruct SB as [S1 _]; eapply same_spans_tiling; [exact S1|assumption]).
    exists t9. split; [|auto].
    unfold document_passes. rewrite pr_e1. cbn [bind]. rewrite pr_e2. cbn [bind]. cbv zeta.
    rewrite pr_e4. cbn [bind]. rewrite pr_e5. cbn [bind]. rewrite pr_e6. cbn [bind].
    rewrite pr_e7. cbn [bind]. rewrite pr_e8. cbn [bind]. rewrite E9. cbn [bind].
    rewrite (word_lookup_ok src t9 T9). reflexivity.
  Qed.
End Pipeline.

(* ================= quote tokens leave the lexer without a twin ================= *)
Definition notwin (t : token) : Prop := forall tw, quote_twin t = Some tw -> tw = None.
Definition notwin_kind (k : tkind) : Prop := forall tw, k = KPunct (PQuote tw) -> tw = None.

Lemma notwin_of_kind sp k : notwin_kind k -> notwin (mktok sp k).
Proof.
  intros H tw. unfold quote_twin. cbn [tkind_of]. destruct k; try discriminate.
  destruct p; try discriminate. intros E. injection E as <-. apply (H twin_loc). reflexivity.
Qed.

Lemma notwin_kind_of t : notwin t -> notwin_kind (tkind_of t).
Proof. intros H tw E. apply H. unfold quote_twin. rewrite E. reflexivity. Qed.

Lemma lex_token_notwin u src n k : lex_token u src = Some (n, k) -> notwin_kind k.
Proof.
  unfold lex_token.
  repeat match goal with
         | |- or_else ?a _ = Some _ -> _ =>
             let E := fresh "E" in destruct a as [[n' k']|] eqn:E; cbn [or_else];
             [intros H; assert (n' = n /\ k' = k) as [-> ->] by (split; congruence); clear H|]
         end.
  - intros tw Hk. unfold lex_regexish in E. destruct src as [|c r]; [discriminate|]. destruct (ceq c 91); [|discriminate].
    destruct (regex_loop u r 1); [|discriminate]. congruence.
  - intros tw Hk. unfold lex_punctuation, lex_quote in E0. destruct src as [|c r]; [discriminate|].
    destruct (mem_n c quote_chars); [congruence|].
    destruct (punct_from_char c) as [p|] eqn:P; [|discriminate].
    assert (p = PQuote tw) as -> by congruence. exfalso. exact (from_char_not_quote c tw P).
  - intros tw Hk. unfold lex_tabs in E1. cbv zeta in E1. destruct (_ =? 0); congruence.
  - intros tw Hk. unfold lex_spaces in E2. cbv zeta in E2. destruct (_ =? 0); congruence.
  - intros tw Hk. unfold lex_newlines in E3. cbv zeta in E3. destruct (_ =? 0); congruence.
  - intros tw Hk. unfold lex_plural_digit in E4.
    destruct src as [|c0 r1]; [discriminate|]. destruct (negb _); [discriminate|].
    destruct r1 as [|c t]; [discriminate|]. cbv zeta in E4.
    destruct (ceq c 39).
    + destruct t as [|c' t']; [discriminate|]. destruct (ceq c' 115); [|discriminate].
      destruct t' as [|d t'']; [congruence|]. destruct (negb _); congruence.
    + destruct (ceq c 115); [|discriminate].
      destruct t as [|d t'']; [congruence|]. destruct (negb _); congruence.
  - intros tw Hk. unfold lex_hex_number in E5. destruct src as [|c0 [|c1 [|c2 r]]]; try discriminate.
    destruct (_ || _ || _); [discriminate|]. cbv zeta in E5.
    destruct (negb _); [discriminate|]. destruct (_ <? _)%N; congruence.
  - intros tw Hk. unfold lex_long_decade in E6.
    destruct src as [|c0 [|c1 [|c2 [|c3 [|c4 rest]]]]]; try discriminate.
    repeat match type of E6 with (if ?b then None else _) = _ => destruct b; [discriminate|] end.
    destruct rest as [|c5 r]; [congruence|]. destruct (u_alphanumeric u c5); congruence.
  - intros tw Hk. unfold lex_number in E7. destruct src as [|c0 r]; [discriminate|].
    destruct (negb _); [discriminate|]. cbv zeta in E7.
    destruct (rposition _ _); [|discriminate].
    apply longest_float_shape in E7. destruct E7 as [_ [neg [mant [ex [EK _]]]]]. congruence.
  - intros tw Hk. unfold lex_url in E8. destruct (position (ceq 58) src); [|discriminate].
    destruct (negb _); [discriminate|]. destruct (lex_ip_schemepart u _); congruence.
  - intros tw Hk. unfold lex_email_address in E9. cbv zeta in E9.
    destruct (rposition _ _); [|discriminate]. destruct (negb _); [discriminate|].
    destruct (lex_hostname _); [|discriminate]. destruct (_ =? 0); congruence.
  - intros tw Hk. unfold lex_hostname_token in E10. destruct (lex_hostname src); [|discriminate].
    destruct (_ <=? 1); [discriminate|]. destruct (negb _); [discriminate|].
    destruct (nth_error _ _); [destruct (ceq _ 46); [discriminate|]|]; congruence.
  - intros tw Hk. unfold lex_word in E11. cbv zeta in E11. destruct (_ =? 0); congruence.
  - unfold lex_catch. intros H tw Hk. congruence.
Qed.

(* ================= PlainEnglish::parse establishes the shapes ================= *)
Lemma plain_loop_inv u (laws : uni_laws u) s : forall fuel cursor ts,
  cursor <= length s -> plain_loop u fuel cursor (skipn cursor s) = Ok ts ->
  Shape u false false s ts /\ NoTwins ts.
Proof.
  induction fuel as [|f IH]; intros cursor ts Hc H.
  - destruct (skipn cursor s) eqn:R; cbn in H; [|discriminate].
    assert (ts = []) as -> by congruence. split; constructor.
  - destruct (skipn cursor s) as [|c r] eqn:R.
    + cbn in H. assert (ts = []) as -> by congruence. split; constructor.
    + cbn [plain_loop] in H.
      destruct (lex_token u (c :: r)) as [[n k]|] eqn:E; [|discriminate].
      pose proof (lex_progress u (c :: r) n k ltac:(discriminate) E) as [Hn1 Hn2].
      assert (length (c :: r) = length s - cursor) as LR by (rewrite <- R; apply skipn_length).
      unfold span_new in H. replace (cursor + n <? cursor) with false in H by (symmetry; apply Nat.ltb_ge; lia).
      cbn [bind] in H.
      rewrite <- R in H. rewrite skipn_skipn in H. rewrite (Nat.add_comm n cursor) in H.
      destruct (plain_loop u f (cursor + n) (skipn (cursor + n) s)) as [tl|] eqn:Etl; [|discriminate].
      cbn [bind] in H. assert (ts = mktok (mkspan cursor (cursor + n)) k :: tl) as -> by congruence.
      destruct (IH (cursor + n) tl ltac:(nlia) Etl) as [Stl Ntl].
      split; constructor; auto.
      * split; [cbn; nlia|]. unfold tok_text, tstart, tend, slice. cbn [tspan sstart send tkind_of].
        replace (cursor + n - cursor) with n by lia. rewrite R.
        apply (lex_token_shape u laws). exact E.
      * apply notwin_of_kind. eapply lex_token_notwin. exact E.
Qed.

Lemma plain_parse_inv u (laws : uni_laws u) s ts :
  plain_parse u s = Ok ts -> Shape u false false s ts /\ NoTwins ts.
Proof. unfold plain_parse. intros H. apply (plain_loop_inv u laws s (length s) 0 ts); [lia|exact H]. Qed.

(* ================= what each grouping rule does to the text under a token ================= *)
Section Rules.
  Variable u : uni.
  Hypothesis laws : uni_laws u.
  Variable src : text.

  Lemma group_text g : forall a b, Tiling a b g -> b <= length src ->
    slice src a b = flat_map (tok_text src) g.
  Proof.
    intros a b H. induction H as [a|a b t ts Hs Hlt Hts IH]; intros Hb.
    - unfold slice. rewrite Nat.sub_diag. reflexivity.
    - cbn [flat_map]. pose proof (tiling_le _ _ _ Hts) as L.
      rewrite (slice_split src a (tend t) b) by lia. rewrite IH by exact Hb.
      unfold tok_text. rewrite Hs. reflexivity.
  Qed.

  Lemma tiling_end_le g : forall a b n, g <> [] -> Tiling a b g -> Forall (fun t => tend t <= n) g -> b <= n.
  Proof.
    intros a b n Hne H. induction H as [a|a b t ts Hs Hlt Hts IH]; intros F; [contradiction|].
    inversion F; subst. destruct ts as [|t2 ts2]; [inversion Hts; subst; assumption|].
    apply IH; [discriminate|assumption].
  Qed.

  Lemma shape_ends s e g : Forall (tok_shape u s e src) g -> Forall (fun t => tend t <= length src) g.
  Proof. intros H. eapply Forall_impl; [|exact H]. intros t [H1 _]. exact H1. Qed.

  Lemma group_token_shape s e s' e' g k a b :
    g <> [] -> Tiling a b g -> Forall (tok_shape u s e src) g ->
    kind_shape u s' e' (flat_map (tok_text src) g) k -> tok_shape u s' e' src (group_token g k).
  Proof.
    intros Hne HT HQ HK.
    pose proof (tiling_end_le g a b (length src) Hne HT (shape_ends s e g HQ)) as Hb.
    destruct (tiling_group a b g Hne HT) as [Hs [He _]].
    unfold tok_shape, group_token, tok_text, tstart, tend. cbn [tspan sstart send tkind_of].
    rewrite Hs, He. split; [exact Hb|]. rewrite (group_text g a b HT Hb). exact HK.
  Qed.

  Lemma single_rule s e s' e' t :
    (s = true -> s' = true) -> (e = true -> e' = true) ->
    tok_shape u s e src t -> tok_shape u s' e' src (group_token [t] (tkind_of t)).
  Proof.
    intros Hs He [H1 H2]. rewrite group_token_single. split; [exact H1|].
    eapply kind_shape_mono; eauto.
  Qed.

  Lemma is_word_eq k : is_word k = true -> k = KWord.
  Proof. destruct k; try discriminate. reflexivity. Qed.
  Lemma is_period_eq k : is_period k = true -> k = KPunct PPeriod.
  Proof. destruct k; try discriminate. destruct p; try discriminate. reflexivity. Qed.
  Lemma is_apostrophe_eq k : is_apostrophe k = true -> k = KPunct PApostrophe.
  Proof. destruct k; try discriminate. destruct p; try discriminate. reflexivity. Qed.

  (* texts of tokens of a given kind *)
  Lemma word_text_no_ws s t : tok_shape u s false src t -> tkind_of t = KWord -> no_ws u (tok_text src t).
  Proof. intros [_ H] E. rewrite E in H. cbn in H. destruct H as [H|[H _]]; [exact H|discriminate]. Qed.

  Lemma period_text s e t : tok_shape u s e src t -> tkind_of t = KPunct PPeriod -> tok_text src t = [46%N].
  Proof.
    intros [_ H] E. rewrite E in H. cbn in H. destruct H as [c [H1 H2]]. rewrite H1.
    apply from_char_period in H2. subst. reflexivity.
  Qed.

  Lemma apostrophe_text_no_ws s e t : tok_shape u s e src t -> tkind_of t = KPunct PApostrophe ->
    no_ws u (tok_text src t).
  Proof.
    intros [_ H] E. rewrite E in H. cbn in H. destruct H as [c [H1 H2]]. rewrite H1.
    apply from_char_apostrophe in H2. constructor; [|constructor].
    destruct H2 as [-> | ->]; [apply (c39_not_ws u laws)|destruct laws as [_ [_ L]]; exact L].
  Qed.

  Lemma no_ws_app a b : no_ws u a -> no_ws u b -> no_ws u (a ++ b).
  Proof. unfold no_ws. intros. apply Forall_app. auto. Qed.
  Lemma no_ws_period : no_ws u [46%N].
  Proof. constructor; [apply (c46_not_ws u laws)|constructor]. Qed.

  (* ---- condense_spaces ---- *)
  Lemma rule_spaces s e g k a b :
    g <> [] -> Tiling a b g -> Forall (tok_shape u s e src) g -> G_spaces g k ->
    tok_shape u s e src (group_token g k).
  Proof.
    intros Hne HT HQ [[t [-> ->]]|[t1 [t2 [n1 [n2 [-> [K1 [K2 ->]]]]]]]].
    - inversion HQ; subst. apply (single_rule s e s e); auto.
    - apply (group_token_shape s e s e _ _ a b Hne HT HQ).
      inversion HQ as [|? ? Q1 HQ2]; subst. inversion HQ2 as [|? ? Q2 _]; subst.
      destruct Q1 as [_ Q1]. destruct Q2 as [_ Q2]. rewrite K1 in Q1. rewrite K2 in Q2.
      cbn [kind_shape] in *. destruct Q1 as [B1 U1]. destruct Q2 as [B2 U2].
      cbn [flat_map]. rewrite app_nil_r. split; [apply Forall_app; auto|].
      rewrite space_units_app. lia.
  Qed.

  (* ---- condense_newlines ---- *)
  Lemma newline_run_text s e : forall g ns,
    Forall (tok_shape u s e src) g -> map tkind_of g = map KNewline ns ->
    flat_map (tok_text src) g = repeat 10%N (list_sum ns).
  Proof.
    induction g as [|t g IH]; intros ns HQ E.
    - destruct ns; [reflexivity|discriminate].
    - destruct ns as [|n ns]; [discriminate|]. cbn [map] in E. injection E as E1 E2.
      inversion HQ as [|? ? Q1 HQ2]; subst. destruct Q1 as [_ Q1]. rewrite E1 in Q1. cbn [kind_shape] in Q1.
      cbn [flat_map list_sum]. rewrite Q1, (IH ns HQ2 E2). apply repeat_app_n.
  Qed.

  Lemma rule_newlines s e g k a b :
    g <> [] -> Tiling a b g -> Forall (tok_shape u s e src) g -> G_newlines g k ->
    tok_shape u s e src (group_token g k).
  Proof.
    intros Hne HT HQ [[t [-> ->]]|[ns [_ [E ->]]]].
    - inversion HQ; subst. apply (single_rule s e s e); auto.
    - apply (group_token_shape s e s e _ _ a b Hne HT HQ). cbn [kind_shape].
      apply (newline_run_text s e); assumption.
  Qed.

  (* ---- newlines_to_breaks ---- *)
  Lemma rule_breaks s e g k a b :
    g <> [] -> Tiling a b g -> Forall (tok_shape u s e src) g -> G_breaks g k ->
    tok_shape u s e src (group_token g k).
  Proof.
    intros Hne HT HQ [t [-> ->]]. inversion HQ as [|? ? Q1 _]; subst.
    unfold newline_to_break. destruct (tkind_of t) as [ |p| |nb|sn|n| | | | | | ] eqn:E;
      try (apply (single_rule s e s e); auto; fail).
    destruct (2 <=? n) eqn:L; [|apply (single_rule s e s e); auto].
    cbn [tkind_of]. apply (group_token_shape s e s e _ _ a b Hne HT HQ).
    destruct Q1 as [_ Q1]. rewrite E in Q1. cbn [kind_shape] in Q1. cbn [flat_map kind_shape].
    rewrite app_nil_r. exists n. split; [apply Nat.leb_le; exact L|exact Q1].
  Qed.

  (* ---- condense_contractions ---- *)
  Lemma rule_contraction s g k a b :
    g <> [] -> Tiling a b g -> Forall (tok_shape u s false src) g ->
    G_pattern (contraction_matches src) (fun k => k) g k ->
    tok_shape u s false src (group_token g k).
  Proof.
    intros Hne HT HQ [[t [-> ->]]|[rest [M ->]]].
    - inversion HQ; subst. apply (single_rule s false s false); auto.
    - destruct (contraction_match_inv src g rest Hne M) as [x [y [z [-> [Wx [Ay Wz]]]]]].
      apply is_word_eq in Wx, Wz. apply is_apostrophe_eq in Ay.
      apply (group_token_shape s false s false _ _ a b Hne HT HQ).
      inversion HQ as [|? ? Q1 HQ2]; subst. inversion HQ2 as [|? ? Q2 HQ3]; subst.
      inversion HQ3 as [|? ? Q3 _]; subst.
      cbn [hd]. rewrite Wx. cbn [kind_shape flat_map]. left. rewrite app_nil_r.
      apply no_ws_app; [eapply word_text_no_ws; eauto|].
      apply no_ws_app; [eapply apostrophe_text_no_ws; eauto|eapply word_text_no_ws; eauto].
  Qed.

  (* ---- condense_dotted_initialisms ---- *)
  Lemma init_pairs_text s g : InitPairs g -> Forall (tok_shape u s false src) g ->
    no_ws u (flat_map (tok_text src) g).
  Proof.
    intros H. induction H as [w p Hw _ Hp|w p r Hw _ Hp _ IH]; intros HQ.
    - inversion HQ as [|? ? Q1 HQ2]; subst. inversion HQ2 as [|? ? Q2 _]; subst.
      cbn [flat_map]. rewrite app_nil_r. apply is_word_eq in Hw. apply is_period_eq in Hp.
      apply no_ws_app; [eapply word_text_no_ws; eauto|].
      rewrite (period_text s false p Q2 Hp). apply no_ws_period.
    - inversion HQ as [|? ? Q1 HQ2]; subst. inversion HQ2 as [|? ? Q2 HQ3]; subst.
      cbn [flat_map]. apply is_word_eq in Hw. apply is_period_eq in Hp.
      apply no_ws_app; [eapply word_text_no_ws; eauto|].
      apply no_ws_app; [rewrite (period_text s false p Q2 Hp); apply no_ws_period|apply IH; assumption].
  Qed.

  Lemma rule_initialism s g k a b :
    g <> [] -> Tiling a b g -> Forall (tok_shape u s false src) g -> G_initialism g k ->
    tok_shape u s false src (group_token g k).
  Proof.
    intros Hne HT HQ [[t [-> ->]]|[IP [_ ->]]].
    - inversion HQ; subst. apply (single_rule s false s false); auto.
    - apply (group_token_shape s false s false _ _ a b Hne HT HQ). cbn [kind_shape]. left.
      apply (init_pairs_text s); assumption.
  Qed.

  (* ---- condense_number_suffixes ---- *)
  Lemma lit_denotes_with_suffix nb sfx lit : lit_denotes nb lit -> lit_denotes (with_suffix nb sfx) lit.
  Proof. unfold lit_denotes, with_suffix. cbn. auto. Qed.

  Lemma rule_suffix e g k a b :
    g <> [] -> Tiling a b g -> Forall (tok_shape u false e src) g -> G_suffix src g k ->
    tok_shape u true e src (group_token g k).
  Proof.
    intros Hne HT HQ [[t [-> ->]]|[x [y [nb [cs [sfx [-> [Kx [Ky [Ly [GC [SC ->]]]]]]]]]]]].
    - inversion HQ; subst. apply (single_rule false e true e); auto.
    - apply (group_token_shape false e true e _ _ a b Hne HT HQ).
      inversion HQ as [|? ? Q1 HQ2]; subst. inversion HQ2 as [|? ? Q2 _]; subst.
      destruct Q1 as [_ Q1]. rewrite Kx in Q1. cbn [kind_shape] in Q1. unfold number_shape in Q1.
      destruct (n_suffix nb) eqn:NS; [destruct Q1 as [Q1 _]; discriminate|].
      cbn [kind_shape flat_map]. rewrite app_nil_r. unfold number_shape. cbn [with_suffix n_suffix].
      split; [reflexivity|].
      (* the content of y is its text, two characters *)
      assert (tok_ok src y) as OKy.
      { pose proof (tiling_nonempty _ _ _ HT) as NE. inversion NE as [|? ? _ NE2]; subst.
        inversion NE2 as [|? ? N2 _]; subst. destruct Q2 as [E2 _]. split; assumption. }
      destruct (get_content_ok src y OKy) as [GC' _]. rewrite GC' in GC.
      assert (cs = tok_text src y) as -> by (unfold tok_text; congruence).
      pose proof (slice_length_ok src y OKy) as SL. fold (tok_text src y) in SL.
      unfold tlen in Ly. rewrite Ly in SL.
      destruct (tok_text src y) as [|c1 [|c2 [|c3 r]]] eqn:TY; cbn in SL; try discriminate.
      cbn [suffix_of_chars] in SC.
      exists (tok_text src x), c1, c2. split; [reflexivity|]. split; [|exact SC].
      apply lit_denotes_with_suffix. exact Q1.
  Qed.

  (* ---- condense_ellipsis ---- *)
  Lemma periods_text s e : forall g, Forall (fun t => is_period (tkind_of t) = true) g ->
    Forall (tok_shape u s e src) g ->
    length (flat_map (tok_text src) g) = length g /\ Forall (fun c => c = 46%N) (flat_map (tok_text src) g).
  Proof.
    induction g as [|t g IH]; intros HP HQ; [split; [reflexivity|constructor]|].
    inversion HP as [|? ? P1 HP2]; subst. inversion HQ as [|? ? Q1 HQ2]; subst.
    destruct (IH HP2 HQ2) as [L F]. apply is_period_eq in P1.
    cbn [flat_map]. rewrite (period_text s e t Q1 P1). cbn [app length]. split; [lia|constructor; auto].
  Qed.

  Lemma rule_ellipsis s e g k a b :
    g <> [] -> Tiling a b g -> Forall (tok_shape u s e src) g ->
    G_pattern (ellipsis_matches src) (fun _ => KPunct PEllipsis) g k ->
    tok_shape u s e src (group_token g k).
  Proof.
    intros Hne HT HQ [[t [-> ->]]|[rest [M ->]]].
    - inversion HQ; subst. apply (single_rule s e s e); auto.
    - destruct (ellipsis_match_inv src g rest Hne M) as [L2 HP].
      apply (group_token_shape s e s e _ _ a b Hne HT HQ). cbn [kind_shape punct_shape]. right.
      destruct (periods_text s e g HP HQ) as [L F]. split; [lia|exact F].
  Qed.
End Rules.

(* ---- condense_latin: the one pass that puts whitespace inside a Word (finding F7) ---- *)
Section RuleLatin.
  Variable u : uni.
  Hypothesis laws : uni_laws u.
  Variable src : text.

  Lemma two_chars_ic (cs : text) x y : length cs = 2 -> zip_all_eq_ic cs [x; y] = true ->
    exists c d, cs = [c; d] /\ eq_ignore_ascii_case c x = true /\ eq_ignore_ascii_case d y = true.
  Proof.
    intros L Z. destruct cs as [|c [|d [|z r]]]; cbn in L; try discriminate.
    cbn [zip_all_eq_ic] in Z. apply andb_prop in Z. destruct Z as [Z1 Z2].
    apply andb_prop in Z2. destruct Z2 as [Z2 _]. exists c, d. auto.
  Qed.

  Lemma ws_tokens_text s e : forall ws,
    Forall (fun t => is_whitespace_kind (tkind_of t) = true) ws ->
    Forall (tok_shape u s e src) ws ->
    Forall (fun c => c = 32 \/ c = 9 \/ c = 10)%N (flat_map (tok_text src) ws).
  Proof.
    induction ws as [|t ws IH]; intros HW HQ; [constructor|].
    inversion HW as [|? ? W1 HW2]; subst. inversion HQ as [|? ? Q1 HQ2]; subst.
    cbn [flat_map]. apply Forall_app. split; [|apply IH; assumption].
    destruct Q1 as [_ Q1]. destruct (tkind_of t) eqn:E; try discriminate; cbn [kind_shape] in Q1.
    - destruct Q1 as [B _]. eapply Forall_impl; [|exact B]. intros c [-> | ->]; auto.
    - rewrite Q1. clear. induction n; cbn; constructor; auto.
  Qed.

  Lemma rule_latin s ts g k a b :
    Forall (tok_ok src) ts ->
    g <> [] -> Tiling a b g -> Forall (tok_shape u s false src) g ->
    G_pattern_in ts (latin_matches src) (fun k => k) g k ->
    tok_shape u s true src (group_token g k).
  Proof.
    intros OKts Hne HT HQ [[t [-> ->]]|[pre [rest [Ets [M ->]]]]].
    - inversion HQ; subst. apply (single_rule u src s false s true); auto.
    - assert (Forall (tok_ok src) (g ++ rest)) as OK.
      { rewrite Ets in OKts. apply Forall_app in OKts. destruct OKts as [_ OK]. exact OK. }
      apply (group_token_shape u src s false s true _ _ a b Hne HT HQ).
      destruct (latin_match_inv src g rest Hne OK M)
        as [[w [p [-> [Ww [Pp _]]]]]|[w1 [ws [w2 [p [-> [Wne [HW [W1 [W2 [Pp [L1 [Z1 [L2 Z2]]]]]]]]]]]]]].
      + inversion HQ as [|? ? Q1 HQ2]; subst. inversion HQ2 as [|? ? Q2 _]; subst.
        apply is_word_eq in Ww. apply is_period_eq in Pp.
        cbn [hd]. rewrite Ww. cbn [kind_shape flat_map]. left. rewrite app_nil_r.
        apply (no_ws_app u); [eapply word_text_no_ws; eauto|].
        rewrite (period_text u src s false p Q2 Pp). apply (no_ws_period u laws).
      + apply is_word_eq in W1. cbn [hd]. rewrite W1. cbn [kind_shape]. right. split; [reflexivity|].
        inversion HQ as [|? ? Q1 HQ2]; subst. apply Forall_app in HQ2. destruct HQ2 as [QW HQ3].
        inversion HQ3 as [|? ? Q2 HQ4]; subst. inversion HQ4 as [|? ? Q3 _]; subst.
        apply is_period_eq in Pp.
        (* the four texts *)
        assert (tok_ok src w1 /\ tok_ok src w2) as [OK1 OK2].
        { apply Forall_app in OK. destruct OK as [OKg _]. inversion OKg as [|? ? O1 OKr]; subst.
          apply Forall_app in OKr. destruct OKr as [_ OKr]. inversion OKr; subst. split; assumption. }
        pose proof (slice_length_ok src w1 OK1) as SL1. pose proof (slice_length_ok src w2 OK2) as SL2.
        rewrite L1 in SL1. rewrite L2 in SL2.
        destruct (two_chars_ic _ 101%N 116%N SL1 Z1) as [ce [ct [T1 [Ie It]]]].
        destruct (two_chars_ic _ 97%N 108%N SL2 Z2) as [ca [cl [T2 [Ia Il]]]].
        assert (tok_text src w1 = [ce; ct]) as T1' by exact T1.
        assert (tok_text src w2 = [ca; cl]) as T2' by exact T2.
        exists ce, ct, (flat_map (tok_text src) ws), ca, cl.
        split.
        { cbn [flat_map]. rewrite flat_map_app. cbn [flat_map]. rewrite T1', T2'.
          rewrite (period_text u src s false p Q3 Pp). cbn [app]. reflexivity. }
        split; [exact Ie|]. split; [exact It|]. split; [exact Ia|]. split; [exact Il|].
        split; [|apply (ws_tokens_text s false); assumption].
        (* the whitespace text is not empty: the first whitespace token covers at least one character *)
        destruct ws as [|t0 ws0]; [contradiction|]. cbn [flat_map].
        assert (tok_ok src t0) as OK0.
        { apply Forall_app in OK. destruct OK as [OKg _]. inversion OKg as [|? ? _ OKr]; subst.
          inversion OKr; subst. assumption. }
        pose proof (slice_length_ok src t0 OK0) as SL0. destruct OK0 as [NE0 _].
        unfold tok_text at 1. intros Z. apply app_eq_nil in Z. destruct Z as [Z _]. rewrite Z in SL0. cbn in SL0. lia.
  Qed.
End RuleLatin.

(* ================= no pass invents a twin ================= *)
Lemma notwin_group g k :
  Forall notwin g -> (exists t, In t g /\ k = tkind_of t) \/ (forall tw, k <> KPunct (PQuote tw)) ->
  notwin (group_token g k).
Proof.
  intros F [[t [Hin ->]]|Hk].
  - apply notwin_of_kind. apply notwin_kind_of. rewrite Forall_forall in F. apply F. exact Hin.
  - apply notwin_of_kind. intros tw E. exfalso. exact (Hk tw E).
Qed.

Lemma hd_in (g : list token) : g <> [] -> In (hd dummy_tok g) g.
Proof. destruct g; [contradiction|]. intros _. left. reflexivity. Qed.

Ltac nt_single := left; eexists; split; [left; reflexivity|reflexivity].
Ltac nt_other := right; intros tw; discriminate.

Lemma nt_spaces g k a b : g <> [] -> Tiling a b g -> Forall notwin g -> G_spaces g k -> notwin (group_token g k).
Proof.
  intros _ _ F [[t [-> ->]]|[t1 [t2 [n1 [n2 [-> [_ [_ ->]]]]]]]]; apply notwin_group; auto; [nt_single|nt_other].
Qed.
Lemma nt_newlines g k a b : g <> [] -> Tiling a b g -> Forall notwin g -> G_newlines g k -> notwin (group_token g k).
Proof.
  intros _ _ F [[t [-> ->]]|[ns [_ [_ ->]]]]; apply notwin_group; auto; [nt_single|nt_other].
Qed.
Lemma nt_breaks g k a b : g <> [] -> Tiling a b g -> Forall notwin g -> G_breaks g k -> notwin (group_token g k).
Proof.
  intros _ _ F [t [-> ->]]. apply notwin_group; auto. unfold newline_to_break.
  destruct (tkind_of t) as [ |p| |nb|sn|n| | | | | | ] eqn:E; try (nt_single; fail).
  destruct (2 <=? n); [nt_other|nt_single].
Qed.
Lemma nt_pattern_id m g k a b : g <> [] -> Tiling a b g -> Forall notwin g ->
  G_pattern m (fun k => k) g k -> notwin (group_token g k).
Proof.
  intros Hne _ F [[t [-> ->]]|[rest [_ ->]]]; apply notwin_group; auto; [nt_single|].
  left. exists (hd dummy_tok g). split; [apply hd_in; exact Hne|reflexivity].
Qed.
Lemma nt_pattern_in_id ts m g k a b : g <> [] -> Tiling a b g -> Forall notwin g ->
  G_pattern_in ts m (fun k => k) g k -> notwin (group_token g k).
Proof.
  intros Hne _ F [[t [-> ->]]|[pre [rest [_ [_ ->]]]]]; apply notwin_group; auto; [nt_single|].
  left. exists (hd dummy_tok g). split; [apply hd_in; exact Hne|reflexivity].
Qed.
Lemma nt_ellipsis m g k a b : g <> [] -> Tiling a b g -> Forall notwin g ->
  G_pattern m (fun _ => KPunct PEllipsis) g k -> notwin (group_token g k).
Proof.
  intros _ _ F [[t [-> ->]]|[rest [_ ->]]]; apply notwin_group; auto; [nt_single|nt_other].
Qed.
Lemma nt_initialism g k a b : g <> [] -> Tiling a b g -> Forall notwin g -> G_initialism g k -> notwin (group_token g k).
Proof.
  intros _ _ F [[t [-> ->]]|[_ [_ ->]]]; apply notwin_group; auto; [nt_single|nt_other].
Qed.
Lemma nt_suffix src g k a b : g <> [] -> Tiling a b g -> Forall notwin g -> G_suffix src g k -> notwin (group_token g k).
Proof.
  intros _ _ F [[t [-> ->]]|[x [y [nb [cs [sfx [-> [_ [_ [_ [_ [_ ->]]]]]]]]]]]]; apply notwin_group; auto;
    [nt_single|nt_other].
Qed.

(* match_quotes changes nothing a shape depends on *)
Lemma strip_twin_shape u s e txt k : kind_shape u s e txt (strip_twin k) <-> kind_shape u s e txt k.
Proof. destruct k; cbn; try tauto. destruct p; cbn; tauto. Qed.

Lemma same_but_twins_shape u s e src : forall ts ts', SameButTwins ts ts' ->
  Shape u s e src ts -> Shape u s e src ts'.
Proof.
  intros ts ts' [S1 S2]. revert ts' S1 S2. induction ts as [|t ts IH]; intros ts' S1 S2 H.
  - destruct ts'; [constructor|discriminate].
  - destruct ts' as [|t' ts']; [discriminate|]. cbn [map] in S1, S2.
    injection S1 as A1 A2. injection S2 as B1 B2. inversion H as [|? ? Q HQ]; subst.
    constructor; [|apply IH; assumption].
    destruct Q as [Q1 Q2]. unfold tok_shape, tok_text, tstart, tend in *. rewrite A1. split; [exact Q1|].
    apply strip_twin_shape. rewrite B1. apply strip_twin_shape. exact Q2.
Qed.

(* ================= the whole document ================= *)
Theorem document_plain_ok u (laws : uni_laws u) s :
  exists ts, document_plain u s = Ok ts /\ Tiling 0 (length s) ts /\ Shape u true true s ts /\ QuotesOk ts.
Proof.
  destruct (plain_tiling u s) as [t0 [E0 T0]].
  destruct (plain_parse_inv u laws s t0 E0) as [S0 N0].
  destruct (passes_exist s t0 T0) as [t8 R]. pose proof R as R'. destruct R'.
  (* shapes, pass by pass *)
  pose proof (grouped_inv _ _ _ (rule_spaces u s false false) _ _ pr_g1 _ _ T0 S0) as S1.
  pose proof (grouped_inv _ _ _ (rule_newlines u s false false) _ _ pr_g2 _ _ pr_T1 S1) as S2.
  pose proof (grouped_inv _ _ _ (rule_breaks u s false false) _ _ pr_g3 _ _ pr_T2 S2) as S3.
  pose proof (grouped_inv _ _ _ (rule_suffix u s false) _ _ pr_g4 _ _ pr_T3 S3) as S4.
  pose proof (grouped_inv _ _ _ (rule_contraction u laws s true) _ _ pr_g5 _ _ pr_T4 S4) as S5.
  pose proof (grouped_inv _ _ _ (rule_initialism u laws s true) _ _ pr_g6 _ _ pr_T5 S5) as S6.
  pose proof (grouped_inv _ _ _ (rule_ellipsis u s true false) _ _ pr_g7 _ _ pr_T6 S6) as S7.
  pose proof (grouped_inv _ _ _ (fun g k a b => rule_latin u laws s true pr_t7 g k a b (tiling_tok_ok s pr_t7 pr_T7)) _ _ pr_g8 _ _ pr_T7 S7) as S8.
  (* no twins, pass by pass *)
  change (NoTwins t0) with (Forall notwin t0) in N0.
  pose proof (grouped_inv _ _ _ nt_spaces _ _ pr_g1 _ _ T0 N0) as N1.
  pose proof (grouped_inv _ _ _ nt_newlines _ _ pr_g2 _ _ pr_T1 N1) as N2.
  pose proof (grouped_inv _ _ _ nt_breaks _ _ pr_g3 _ _ pr_T2 N2) as N3.
  pose proof (grouped_inv _ _ _ (nt_suffix s) _ _ pr_g4 _ _ pr_T3 N3) as N4.
  pose proof (grouped_inv _ _ _ (nt_pattern_id _) _ _ pr_g5 _ _ pr_T4 N4) as N5.
  pose proof (grouped_inv _ _ _ nt_initialism _ _ pr_g6 _ _ pr_T5 N5) as N6.
  pose proof (grouped_inv _ _ _ (nt_ellipsis _) _ _ pr_g7 _ _ pr_T6 N6) as N7.
  pose proof (grouped_inv _ _ _ (nt_pattern_in_id _ _) _ _ pr_g8 _ _ pr_T7 N7) as N8.
  destruct (passes_run_document s t0 t8 R N8) as [t9 [E9 [T9 [SB QO]]]].
  exists t9. split; [unfold document_plain; rewrite E0; cbn [bind]; exact E9|].
  split; [exact T9|]. split; [|exact QO].
  eapply same_but_twins_shape; [exact SB|exact S8].
Qed.


(* ---- the tiling part needs no Unicode law at all ---- *)
Lemma plain_loop_notwins u : forall fuel cursor rest ts, plain_loop u fuel cursor rest = Ok ts -> NoTwins ts.
Proof.
  induction fuel as [|f IH]; intros cursor rest ts H.
  - destruct rest; cbn in H; [|discriminate]. assert (ts = []) as -> by congruence. constructor.
  - destruct rest as [|c r]; [cbn in H; assert (ts = []) as -> by congruence; constructor|].
    cbn [plain_loop] in H. destruct (lex_token u (c :: r)) as [[n k]|] eqn:E; [|discriminate].
    destruct (span_new cursor (cursor + n)) as [sp|]; [|discriminate]. cbn [bind] in H.
    destruct (plain_loop u f (cursor + n) (skipn n (c :: r))) as [tl|] eqn:Etl; [|discriminate].
    cbn [bind] in H. assert (ts = mktok sp k :: tl) as -> by congruence.
    constructor; [|eapply IH; exact Etl].
    apply notwin_of_kind. eapply lex_token_notwin. exact E.
Qed.

Theorem document_plain_tiling u s :
  exists ts, document_plain u s = Ok ts /\ Tiling 0 (length s) ts /\ QuotesOk ts.
Proof.
  destruct (plain_tiling u s) as [t0 [E0 T0]].
  pose proof (plain_loop_notwins u _ _ _ _ E0) as N0.
  destruct (passes_exist s t0 T0) as [t8 R]. pose proof R as R'. destruct R'.
  change (NoTwins t0) with (Forall notwin t0) in N0.
  pose proof (grouped_inv _ _ _ nt_spaces _ _ pr_g1 _ _ T0 N0) as N1.
  pose proof (grouped_inv _ _ _ nt_newlines _ _ pr_g2 _ _ pr_T1 N1) as N2.
  pose proof (grouped_inv _ _ _ nt_breaks _ _ pr_g3 _ _ pr_T2 N2) as N3.
  pose proof (grouped_inv _ _ _ (nt_suffix s) _ _ pr_g4 _ _ pr_T3 N3) as N4.
  pose proof (grouped_inv _ _ _ (nt_pattern_id _) _ _ pr_g5 _ _ pr_T4 N4) as N5.
  pose proof (grouped_inv _ _ _ nt_initialism _ _ pr_g6 _ _ pr_T5 N5) as N6.
  pose proof (grouped_inv _ _ _ (nt_ellipsis _) _ _ pr_g7 _ _ pr_T6 N6) as N7.
  pose proof (grouped_inv _ _ _ (nt_pattern_in_id _ _) _ _ pr_g8 _ _ pr_T7 N7) as N8.
  destruct (passes_run_document s t0 t8 R N8) as [t9 [E9 [T9 [SB QO]]]].
  exists t9. split; [unfold document_plain; rewrite E0; cbn [bind]; exact E9|]. split; assumption.
Qed.

(* the raw token stream has the shapes too (no condensing has happened yet) *)
Theorem plain_parse_shape u (laws : uni_laws u) s ts :
  plain_parse u s = Ok ts -> Shape u false false s ts.
Proof. intros H. apply (plain_parse_inv u laws s ts H). Qed.

(* ================= finding F7: the Latin pattern puts a space inside a Word ================= *)
Theorem word_with_space_witness :
  document_plain ascii_uni [101; 116; 32; 97; 108; 46]%N = Ok [mktok (mkspan 0 6) KWord]
  /\ u_whitespace ascii_uni 32 = true.
Proof. split; vm_compute; reflexivity. Qed.

Lemma ascii_uni_laws : uni_laws ascii_uni.
Proof.
  split; [|split].
  - intros c H. cbn in H. cbn.
    unfold is_ascii_alphabetic, is_ascii_upper, is_ascii_lower in H.
    apply orb_prop in H. destruct H as [H|H]; apply in_range_true in H;
      (apply orb_false_intro; [apply in_range_false; lia|apply N.eqb_neq; lia]).
  - intros c _. reflexivity.
  - reflexivity.
Qed.

(* ================= b5c1992: no decimal Number token carries a value that overflows f64 ================= *)
Definition number_finite (t : token) : Prop :=
  match tkind_of t with
  | KNumber nb => n_radix nb = 10 -> below_overflow (n_mant nb) (n_exp10 nb)
  | _ => True
  end.

Lemma shape_number_finite u s e src ts : Shape u s e src ts -> Forall number_finite ts.
Proof.
  intros H. eapply Forall_impl; [|exact H]. intros t [_ K]. unfold number_finite.
  destruct (tkind_of t) as [ |p| |nb|sn|n| | | | | | ]; try exact I.
  cbn [kind_shape] in K. unfold number_shape in K. intros R.
  assert (lit_denotes nb (tok_text src t) \/ exists lit, lit_denotes nb lit) as [D|[lit D]].
  { destruct (n_suffix nb); [right|left; exact K]. destruct K as [_ [lit [a [b [_ [D _]]]]]]. exists lit. exact D. }
  - destruct D as [[_ [_ [F _]]]|[R16 _]]; [apply f64_finite_spec; exact F|rewrite R in R16; discriminate].
  - destruct D as [[_ [_ [F _]]]|[R16 _]]; [apply f64_finite_spec; exact F|rewrite R in R16; discriminate].
Qed.

Theorem document_numbers_finite u (laws : uni_laws u) s :
  exists ts, document_plain u s = Ok ts /\ Forall number_finite ts.
Proof.
  destruct (document_plain_ok u laws s) as [ts [E [_ [S _]]]]. exists ts. split; [exact E|].
  eapply shape_number_finite. exact S.
Qed.

(* history (F16, repaired by b5c1992): `1e999` used to be ONE Number token whose f64 is +infinity; now the
   longest FINITE prefix `1e99` is taken and the last `9` is a number of its own *)
Theorem number_overflow_witness :
  plain_parse ascii_uni [49; 101; 57; 57; 57]%N
  = Ok [mktok (mkspan 0 4) (KNumber (mknumber false 1 99%Z None 10 0));
        mktok (mkspan 4 5) (KNumber (mknumber false 9 0%Z None 10 0))]
  /\ parse_f64 [49; 101; 57; 57; 57]%N = Some (false, 1%N, 999%Z) /\ f64_finite 1 999 = false.
Proof. vm_compute. repeat split; reflexivity. Qed.

(* history (FC17a, repaired by dcfd71f): number suffixes are attached BEFORE contractions are condensed, so
   `2st's` is Number(2, st) ' s  — with the old order the contraction `st's` formed first and no suffix was set *)
Theorem suffix_before_contraction_witness :
  document_plain ascii_uni [50; 115; 116; 39; 115]%N
  = Ok [mktok (mkspan 0 3) (KNumber (mknumber false 2 0%Z (Some SufSt) 10 0));
        mktok (mkspan 3 4) (KPunct PApostrophe); mktok (mkspan 4 5) KWord].
Proof. vm_compute. reflexivity. Qed.

Print Assumptions document_plain_ok.
Print Assumptions document_plain_tiling.
