(* ListLemmas.v — list facts missing from the 8.16 standard library, shared by all proofs. *)
From Coq Require Export List Arith Lia.
Export ListNotations.

Lemma skipn_skipn {A} (x y : nat) (l : list A) : skipn x (skipn y l) = skipn (x + y) l.
Proof.
  revert l. induction y as [|y IH]; intros l.
  - now rewrite Nat.add_0_r.
  - rewrite Nat.add_succ_r. destruct l as [|h t]; cbn [skipn]; [now rewrite !skipn_nil|apply IH].
Qed.

Lemma skipn_all3 {A} (l : list A) n : length l <= n -> skipn n l = [].
Proof. apply skipn_all2. Qed.
