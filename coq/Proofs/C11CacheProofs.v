(* C11CacheProofs.v — the chunk cache of LintGroup::lint is invisible (Model/C11Cache.v), and therefore the
   toggle law of C11 holds on a long-lived LintGroup with a warm cache. *)
From Coq Require Import List NArith Bool Arith Lia.
Require Import Base LintGroupCfg LintGroupCfgProofs C11Cache.
Import ListNotations.

Lemma mapM_app {A B} (f : A -> res B) (a b : list A) :
  mapM f (a ++ b) = (do x <- mapM f a; do y <- mapM f b; Ok (x ++ y)).
Proof.
  induction a as [|h t IH]; cbn [app mapM bind].
  - destruct (mapM f b); reflexivity.
  - destruct (f h) as [y|p]; cbn [bind]; [|reflexivity]. rewrite IH.
    destruct (mapM f t) as [t'|p]; cbn [bind]; [|reflexivity].
    destruct (mapM f b) as [b'|p]; cbn [bind]; reflexivity.
Qed.

Lemma mapM_flat_map_cong {A B C} (f f' : B -> res C) (F F' : A -> list B) (l : list A) :
  (forall x, In x l -> mapM f (F x) = mapM f' (F' x)) -> mapM f (flat_map F l) = mapM f' (flat_map F' l).
Proof.
  induction l as [|h t IH]; intros H; cbn [flat_map]; [reflexivity|].
  rewrite !mapM_app, (H h (or_introl eq_refl)), IH; [reflexivity|]. intros x Hx. apply H. now right.
Qed.

Section CacheFacts.
  Variables body doc chunk srule prule : Type.
  Variable chunks : doc -> list chunk.
  Variable chunk_start : chunk -> option nat.
  Variable run_struct : srule -> doc -> list (glint body).
  Variable run_pat : prule -> doc -> chunk -> list (glint body).
  Variables CK HK : Type.
  Variable ck_eqb : CK -> CK -> bool.
  Variable hk_eqb : HK -> HK -> bool.
  Variable chunk_key : doc -> chunk -> CK.
  Variable cfg_hash : config -> HK.
  (* the cache compares keys with an equality test that is sound (LruCache: Eq on (CharString, u64, u64)) *)
  Hypothesis ck_eqb_sound : forall a b, ck_eqb a b = true -> a = b.
  Hypothesis hk_eqb_sound : forall a b, hk_eqb a b = true -> a = b.

  Variable g : group srule prule.
  Variable P : config -> Prop.       (* the configurations the history uses *)
  Variable D : doc -> Prop.          (* the documents the history lints *)

  Notation LCC := (lint_chunk_c body doc chunk srule prule chunk_start run_pat CK HK ck_eqb hk_eqb chunk_key cfg_hash).
  Notation LCSC := (lint_chunks_c body doc chunk srule prule chunk_start run_pat CK HK ck_eqb hk_eqb chunk_key cfg_hash).
  Notation LGC := (lint_group_c body doc chunk srule prule chunks chunk_start run_struct run_pat CK HK ck_eqb hk_eqb chunk_key cfg_hash).
  Notation RUN := (run_hist body doc chunk srule prule chunks chunk_start run_struct run_pat CK HK ck_eqb hk_eqb chunk_key cfg_hash).
  Notation LG := (lint_group chunks chunk_start run_struct run_pat).
  Notation LT := (lint_tagged chunks chunk_start run_struct run_pat).
  Notation CACHE := (cache body CK HK).

  (* the hypothesis C05 uses for the configuration hash: injective on the configurations in play *)
  Definition hash_inj_on : Prop := forall c1 c2, P c1 -> P c2 -> cfg_hash c1 = cfg_hash c2 -> c1 = c2.
  (* the chunk component of the key determines what each pattern rule reports, relative to the chunk start
     (C05: rule_fun + injectivity of the token hash) *)
  Definition rel_fun_on : Prop :=
    forall d d' ch ch' st st' e, D d -> D d' -> In ch (chunks d) -> In ch' (chunks d') ->
      chunk_key d ch = chunk_key d' ch' -> chunk_start ch = Some st -> chunk_start ch' = Some st' ->
      In e (g_patterns g) ->
      mapM (pull_lint st) (run_pat (snd e) d ch) = mapM (pull_lint st') (run_pat (snd e) d' ch').

  Hypothesis Hhash : hash_inj_on.
  Hypothesis Hrel : rel_fun_on.

  Definition rel (cfg : config) (d : doc) (ch : chunk) (st : nat) : res (list (glint body)) :=
    mapM (pull_lint st) (chunk_pattern_lints run_pat (g_with_cfg g cfg) d ch).

  Lemma rel_fun cfg d d' ch ch' st st' : D d -> D d' -> In ch (chunks d) -> In ch' (chunks d') ->
    chunk_key d ch = chunk_key d' ch' -> chunk_start ch = Some st -> chunk_start ch' = Some st' ->
    rel cfg d ch st = rel cfg d' ch' st'.
  Proof.
    intros Dd Dd' Hc Hc' Hk Hs Hs'. unfold rel, chunk_pattern_lints. cbn [g_with_cfg g_cfg g_patterns].
    apply mapM_flat_map_cong. intros e He.
    destruct (is_rule_enabled cfg (fst e)); [|reflexivity].
    now apply (Hrel d d' ch ch' st st' e).
  Qed.

  (* every entry is what the miss path computes for every (configuration, document, chunk) with that key *)
  Definition inv (c : CACHE) : Prop :=
    forall k v, In (k, v) c -> forall cfg d ch st, P cfg -> D d -> In ch (chunks d) -> chunk_start ch = Some st ->
      (chunk_key d ch, cfg_hash cfg) = k -> rel cfg d ch st = Ok v.

  Lemma c_get_in k (c : CACHE) v : c_get body CK HK ck_eqb hk_eqb k c = Some v -> In (k, v) c.
  Proof.
    induction c as [|[k' v'] t IH]; cbn [c_get]; [discriminate|].
    destruct (key_eqb CK HK ck_eqb hk_eqb k k') eqn:E.
    - intros [= <-]. left. unfold key_eqb in E. apply andb_true_iff in E. destruct E as [E1 E2].
      apply ck_eqb_sound in E1. apply hk_eqb_sound in E2. destruct k, k'. cbn [fst snd] in *. now subst.
    - intros H. right. now apply IH.
  Qed.

  Lemma inv_evict keep (c : CACHE) : inv c -> inv (c_evict body CK HK keep c).
  Proof. intros H k v Hin. unfold c_evict in Hin. apply filter_In in Hin. now apply H. Qed.

  Lemma chunk_step (c : CACHE) cfg d keep ch : inv c -> P cfg -> D d -> In ch (chunks d) ->
    inv (fst (LCC (g_with_cfg g cfg) d c keep ch)) /\
    snd (LCC (g_with_cfg g cfg) d c keep ch) = lint_chunk chunk_start run_pat (g_with_cfg g cfg) d ch.
  Proof.
    intros Hi Pc Dd Hch. unfold lint_chunk_c, lint_chunk. destruct (chunk_start ch) as [st|] eqn:Hs; [|now split].
    cbn [g_with_cfg g_cfg].
    pose proof (inv_evict keep c Hi) as Hi'. set (c' := c_evict body CK HK keep c) in *.
    fold (g_with_cfg g cfg). fold (rel cfg d ch st).
    destruct (c_get body CK HK ck_eqb hk_eqb (chunk_key d ch, cfg_hash cfg) c') as [hit|] eqn:G.
    - apply c_get_in in G. rewrite (Hi' _ _ G cfg d ch st Pc Dd Hch Hs eq_refl). cbn [fst snd bind]. now split.
    - destruct (rel cfg d ch st) as [r|p] eqn:R; cbn [fst snd bind]; [|now split].
      split; [|reflexivity].
      intros k v [Hin|Hin]; [|now apply Hi'].
      injection Hin as <- <-. intros cfg2 d2 ch2 st2 Pc2 Dd2 Hch2 Hs2 Hk. injection Hk as Hk1 Hk2.
      rewrite (Hhash cfg2 cfg Pc2 Pc Hk2). rewrite <- R. now apply rel_fun.
  Qed.

  Lemma chunks_step chs : forall (c : CACHE) evs cfg d, inv c -> P cfg -> D d -> incl chs (chunks d) ->
    inv (fst (LCSC (g_with_cfg g cfg) d c evs chs)) /\
    snd (LCSC (g_with_cfg g cfg) d c evs chs) = lint_chunks chunk_start run_pat (g_with_cfg g cfg) d chs.
  Proof.
    induction chs as [|ch t IH]; intros c evs cfg d Hi Pc Dd Hincl; cbn [lint_chunks_c lint_chunks]; [now split|].
    destruct (chunk_step c cfg d (hd (fun _ => true) evs) ch Hi Pc Dd (Hincl ch (or_introl eq_refl))) as [I1 E1].
    rewrite E1. destruct (lint_chunk chunk_start run_pat (g_with_cfg g cfg) d ch) as [a|p] eqn:L; cbn [fst snd bind].
    - assert (Ht : incl t (chunks d)) by (intros x Hx; apply Hincl; now right).
      destruct (IH _ (tl evs) cfg d I1 Pc Dd Ht) as [I2 E2]. split; [exact I2|]. rewrite E2.
      now destruct (lint_chunks chunk_start run_pat (g_with_cfg g cfg) d t).
    - now split.
  Qed.

  (* one lint call on a long-lived LintGroup: the cache stays valid and the answer is the miss path's *)
  Lemma group_step (c : CACHE) evs cfg d : inv c -> P cfg -> D d ->
    inv (fst (LGC (g_with_cfg g cfg) d c evs)) /\ snd (LGC (g_with_cfg g cfg) d c evs) = LG (g_with_cfg g cfg) d.
  Proof.
    intros Hi Pc Dd. unfold lint_group_c, lint_group.
    destruct (chunks_step (chunks d) c evs cfg d Hi Pc Dd (incl_refl _)) as [I E]. cbn [fst snd].
    split; [exact I|]. rewrite E. now destruct (lint_chunks chunk_start run_pat (g_with_cfg g cfg) d (chunks d)).
  Qed.

  Lemma run_hist_spec h : forall cfg (c : CACHE), inv c -> P cfg ->
    (forall c', In (HSetCfg c') h -> P c') -> (forall d evs, In (HLint d evs) h -> D d) ->
    RUN g h cfg c = map (fun cd => LG (g_with_cfg g (fst cd)) (snd cd)) (trace doc CK HK h cfg).
  Proof.
    induction h as [|[cfg'|d evs] t IH]; intros cfg c Hi Pc HP HD; cbn [run_hist trace map]; [reflexivity| |].
    - apply IH; auto.
      + apply HP. now left.
      + intros c' Hc'. apply HP. now right.
      + intros d evs Hd. apply (HD d evs). now right.
    - assert (Dd : D d) by (apply (HD d evs); now left).
      destruct (group_step c evs cfg d Hi Pc Dd) as [I E]. cbn [fst snd]. rewrite E. f_equal.
      apply IH; auto.
      + intros c' Hc'. apply HP. now right.
      + intros d' evs' Hd. apply (HD d' evs'). now right.
  Qed.

  (* the joint statement: on ANY history from an empty cache, two lint calls of the same document under
     configurations that agree on every switch but r report, apart from r's own lints, the same lints in the same
     order — whatever was cached in between, whatever was evicted *)
  Theorem toggle_warm h cfg0 i j ci cj d r :
    (forall c', In (HSetCfg c') h -> P c') -> P cfg0 -> (forall d evs, In (HLint d evs) h -> D d) ->
    nth_error (trace doc CK HK h cfg0) i = Some (ci, d) ->
    nth_error (trace doc CK HK h cfg0) j = Some (cj, d) ->
    (forall k, k <> r -> is_rule_enabled ci k = is_rule_enabled cj k) ->
    rel_ok chunks chunk_start run_pat g d ->
    nth_error (RUN g h cfg0 []) i = Some (Ok (map snd (LT (g_with_cfg g ci) d))) /\
    nth_error (RUN g h cfg0 []) j = Some (Ok (map snd (LT (g_with_cfg g cj) d))) /\
    filter (not_tag body r) (LT (g_with_cfg g ci) d) = filter (not_tag body r) (LT (g_with_cfg g cj) d).
  Proof.
    intros HP P0 HD Ni Nj Hagree Hok.
    assert (I0 : inv []) by (intros k v []).
    rewrite (run_hist_spec h cfg0 [] I0 P0 HP HD).
    split; [|split].
    - rewrite (map_nth_error _ _ _ Ni). cbn [fst snd]. f_equal.
      apply (lint_group_ok body doc chunk srule prule chunks chunk_start run_struct run_pat).
      now apply rel_ok_with_cfg.
    - rewrite (map_nth_error _ _ _ Nj). cbn [fst snd]. f_equal.
      apply (lint_group_ok body doc chunk srule prule chunks chunk_start run_struct run_pat).
      now apply rel_ok_with_cfg.
    - now apply toggle_others_unchanged.
  Qed.
End CacheFacts.

(* ---- the instance the correspondence runs: key ids compared by Nat.eqb, the configuration hash = the sequence
   of Hasher::write calls of impl Hash; there the hash hypothesis is a theorem (hash_calls_inj) ---- *)
Require Import LintGroupCfgJson.

Lemma leqb_sound {A} (eqb : A -> A -> bool) : (forall a b, eqb a b = true -> a = b) ->
  forall a b, leqb eqb a b = true -> a = b.
Proof.
  intros H a. induction a as [|x a IH]; intros [|y b]; cbn [leqb]; try discriminate; [reflexivity|].
  intros E. apply andb_true_iff in E. destruct E as [E1 E2]. f_equal; [now apply H|now apply IH].
Qed.
Lemma hk_eqb_calls_sound a b : hk_eqb_calls a b = true -> a = b.
Proof. apply leqb_sound, leqb_sound. intros x y E. now apply N.eqb_eq. Qed.
Lemma nat_eqb_sound a b : Nat.eqb a b = true -> a = b.
Proof. apply Nat.eqb_eq. Qed.
Lemma hash_calls_inj_on (P : config -> Prop) : hash_inj_on (list (list N)) hash_calls P.
Proof. intros c1 c2 _ _. apply hash_calls_inj. Qed.

(* with a hasher that separates sequences of write calls: no hypothesis about the hash is left *)
Theorem toggle_warm_calls (body doc chunk srule prule : Type) (chunks : doc -> list chunk) (chunk_start : chunk -> option nat)
    (run_struct : srule -> doc -> list (glint body)) (run_pat : prule -> doc -> chunk -> list (glint body))
    (CK : Type) (ck_eqb : CK -> CK -> bool) (chunk_key : doc -> chunk -> CK)
    (g : group srule prule) (D : doc -> Prop) (h : list (hop doc CK (list (list N)))) (cfg0 : config) (i j : nat)
    (ci cj : config) (d : doc) (r : key) :
  (forall a b : CK, ck_eqb a b = true -> a = b) ->
  rel_fun_on body doc chunk srule prule chunks chunk_start run_pat CK chunk_key g D ->
  (forall d0 evs, In (HLint d0 evs) h -> D d0) ->
  nth_error (trace doc CK (list (list N)) h cfg0) i = Some (ci, d) ->
  nth_error (trace doc CK (list (list N)) h cfg0) j = Some (cj, d) ->
  (forall k : key, k <> r -> is_rule_enabled ci k = is_rule_enabled cj k) ->
  rel_ok chunks chunk_start run_pat g d ->
  let out := run_hist body doc chunk srule prule chunks chunk_start run_struct run_pat CK (list (list N)) ck_eqb hk_eqb_calls
               chunk_key hash_calls g h cfg0 [] in
  nth_error out i = Some (Ok (map snd (lint_tagged chunks chunk_start run_struct run_pat (g_with_cfg g ci) d))) /\
  nth_error out j = Some (Ok (map snd (lint_tagged chunks chunk_start run_struct run_pat (g_with_cfg g cj) d))) /\
  filter (not_tag body r) (lint_tagged chunks chunk_start run_struct run_pat (g_with_cfg g ci) d) =
  filter (not_tag body r) (lint_tagged chunks chunk_start run_struct run_pat (g_with_cfg g cj) d).
Proof.
  intros Hck Hrel HD Ni Nj Hag Hok.
  exact (toggle_warm body doc chunk srule prule chunks chunk_start run_struct run_pat CK (list (list N)) ck_eqb hk_eqb_calls
           chunk_key hash_calls Hck hk_eqb_calls_sound g (fun _ => True) D (hash_calls_inj_on _) Hrel h cfg0 i j ci cj d r
           (fun _ _ => I) I HD Ni Nj Hag Hok).
Qed.
