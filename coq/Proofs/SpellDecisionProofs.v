(* SpellDecisionProofs.v — C06: what SpellCheck::lint decides, proved over Model/SpellDecision.v. *)
Require Import Base Tables_spellnorm SpellDecision ListLemmas.

(* ---------- text equality ---------- *)
Lemma text_eqb_refl (a : text) : text_eqb a a = true.
Proof. induction a as [|x a IH]; cbn [text_eqb]; [reflexivity|]. now rewrite N.eqb_refl, IH. Qed.

Lemma text_eqb_eq (a b : text) : text_eqb a b = true <-> a = b.
Proof.
  split; [|intros ->; apply text_eqb_refl].
  revert b. induction a as [|x a IH]; intros [|y b] H; cbn [text_eqb] in H; try discriminate; [reflexivity|].
  apply andb_true_iff in H as [H1 H2]. apply N.eqb_eq in H1. subst y. f_equal. now apply IH.
Qed.

Lemma text_eqb_neq (a b : text) : text_eqb a b = false <-> a <> b.
Proof.
  split.
  - intros H E. apply text_eqb_eq in E. congruence.
  - intros H. destruct (text_eqb a b) eqn:E; [|reflexivity]. apply text_eqb_eq in E. contradiction.
Qed.

Lemma dialect_eqb_eq a b : dialect_eqb a b = true <-> a = b.
Proof. destruct a, b; cbn; split; intros H; try reflexivity; try discriminate. Qed.

(* ---------- normalisation: the table maps into characters it leaves alone ---------- *)
Definition normalize_table_closed : bool :=
  forallb (fun p => negb (existsb (fun q => N.eqb (fst q) (snd p)) normalize_table)) normalize_table.

Lemma normalize_table_is_closed : normalize_table_closed = true.
Proof. vm_compute. reflexivity. Qed.

Lemma char_to_normalized_idem (c : char) :
  char_to_normalized (char_to_normalized c) = char_to_normalized c.
Proof.
  unfold char_to_normalized at 2 3.
  destruct (find (fun p => N.eqb (fst p) c) normalize_table) as [p|] eqn:F.
  - apply find_some in F as [Hin _].
    pose proof normalize_table_is_closed as Hc. unfold normalize_table_closed in Hc.
    rewrite forallb_forall in Hc. specialize (Hc p Hin). apply negb_true_iff in Hc.
    unfold char_to_normalized.
    destruct (find (fun q => N.eqb (fst q) (snd p)) normalize_table) as [q|] eqn:F2; [|reflexivity].
    apply find_some in F2 as [Hq Heq].
    assert (existsb (fun q0 => N.eqb (fst q0) (snd p)) normalize_table = true) as Hex.
    { apply existsb_exists. exists q. split; assumption. }
    congruence.
  - unfold char_to_normalized. now rewrite F.
Qed.

Lemma normalized_idem (w : text) : normalized (normalized w) = normalized w.
Proof.
  unfold normalized. rewrite map_map. apply map_ext. intros c. apply char_to_normalized_idem.
Qed.

Lemma normalized_app (a b : text) : normalized (a ++ b) = normalized a ++ normalized b.
Proof. apply map_app. Qed.

Lemma normalized_length (w : text) : length (normalized w) = length w.
Proof. apply map_length. Qed.

(* ---------- generic list helper ---------- *)
Lemma flat_map_singleton {A} (l : list A) : flat_map (fun x => [x]) l = l.
Proof. induction l as [|x l IH]; cbn; [reflexivity|]. now rewrite IH. Qed.

Lemma flat_map_flat_map {A B C} (f : A -> list B) (g : B -> list C) (l : list A) :
  flat_map g (flat_map f l) = flat_map (fun x => flat_map g (f x)) l.
Proof.
  induction l as [|x l IH]; cbn [flat_map]; [reflexivity|]. now rewrite flat_map_app, IH.
Qed.

Lemma flat_map_ext_in {A B} (f g : A -> list B) (l : list A) :
  (forall x, In x l -> f x = g x) -> flat_map f l = flat_map g l.
Proof.
  induction l as [|x l IH]; intros H; cbn [flat_map]; [reflexivity|].
  rewrite (H x) by (now left). rewrite IH; [reflexivity|]. intros y Hy. apply H. now right.
Qed.

Section Proofs.
  Variable lc uc : char -> list char.
  Variable is_lower is_upper : char -> bool.
  Variable fuzzy : dict -> text -> nat -> list text.
  Variable keep : cache -> text * list text -> bool.

  Notation to_lower := (to_lower lc is_lower).
  Notation word_id := (word_id lc is_lower).
  Notation lookup := (lookup lc is_lower).
  Notation get_word_metadata := (get_word_metadata lc is_lower).
  Notation contains_exact_word := (contains_exact_word lc is_lower).
  Notation accepts := (accepts lc is_lower).
  Notation backoff := (backoff fuzzy).
  Notation retain_dialect := (retain_dialect lc is_lower).
  Notation suggest := (suggest lc is_lower fuzzy).
  Notation cap_first := (cap_first uc).
  Notation finish := (finish uc is_upper).
  Notation lint_word := (lint_word lc uc is_lower is_upper fuzzy).
  Notation lint_doc := (lint_doc lc uc is_lower is_upper fuzzy).
  Notation cached_suggest := (cached_suggest lc is_lower fuzzy keep).
  Notation lint_word_cached := (lint_word_cached lc uc is_lower is_upper fuzzy keep).
  Notation lint_doc_cached := (lint_doc_cached lc uc is_lower is_upper fuzzy keep).
  Notation upper := (upper uc).
  Notation capitalise := (capitalise uc).

  (* the dictionary is a map: one entry per id (HashMap<WordId, _>) *)
  Definition dict_nodup (D : dict) : Prop := NoDup (map (fun e => word_id (canon e)) D).

  (* "the dictionary lists e" *)
  Definition listed (D : dict) (e : entry) : Prop := In e D.

  (* ---------- lookup ---------- *)
  Lemma lookup_some D k e : lookup D k = Some e -> In e D /\ word_id (canon e) = k.
  Proof.
    unfold SpellDecision.lookup. intros H. apply find_some in H as [H1 H2]. split; [assumption|].
    now apply text_eqb_eq.
  Qed.

  Lemma lookup_none D k : lookup D k = None <-> (forall e, In e D -> word_id (canon e) <> k).
  Proof.
    unfold SpellDecision.lookup. split.
    - intros H e He E. pose proof (find_none _ _ H e He) as F. cbn in F.
      apply text_eqb_neq in F. contradiction.
    - intros H. destruct (find _ D) as [e|] eqn:F; [|reflexivity].
      apply find_some in F as [F1 F2]. apply text_eqb_eq in F2. exfalso. eapply H; eassumption.
  Qed.

  Lemma lookup_listed D e : dict_nodup D -> In e D -> lookup D (word_id (canon e)) = Some e.
  Proof.
    unfold dict_nodup, SpellDecision.lookup. induction D as [|h D IH]; intros ND Hin; [contradiction|].
    cbn [map] in ND. inversion ND as [|? ? Hnot ND']; subst. cbn [find].
    destruct Hin as [->|Hin].
    - now rewrite text_eqb_refl.
    - destruct (text_eqb (word_id (canon h)) (word_id (canon e))) eqn:E.
      + apply text_eqb_eq in E. exfalso. apply Hnot. rewrite E.
        apply (in_map (fun e0 => word_id (canon e0))) in Hin. exact Hin.
      + now apply IH.
  Qed.

  Lemma lookup_same_id D e k : dict_nodup D -> In e D -> word_id (canon e) = k -> lookup D k = Some e.
  Proof. intros ND Hin <-. now apply lookup_listed. Qed.

  Lemma word_id_normalized (w : text) : word_id (normalized w) = word_id w.
  Proof. unfold SpellDecision.word_id. now rewrite normalized_idem. Qed.

  (* ---------- contains_exact_word: exactly "some entry is spelt like the word, up to normalisation" ---------- *)
  Lemma exact_sound D w : contains_exact_word D w = true -> exists e, In e D /\ normalized (canon e) = normalized w.
  Proof.
    unfold SpellDecision.contains_exact_word. destruct (lookup D _) as [f|] eqn:L; [|discriminate].
    intros H. apply text_eqb_eq in H. apply lookup_some in L as [L1 _]. eauto.
  Qed.

  Lemma exact_complete D w e : dict_nodup D -> In e D -> normalized (canon e) = normalized w ->
    contains_exact_word D w = true.
  Proof.
    intros ND Hin E. unfold SpellDecision.contains_exact_word.
    rewrite (lookup_same_id D e); try assumption.
    - rewrite E. apply text_eqb_refl.
    - rewrite word_id_normalized. unfold SpellDecision.word_id. now rewrite E.
  Qed.

  Lemma exact_spec D w : dict_nodup D ->
    (contains_exact_word D w = true <-> exists e, In e D /\ normalized (canon e) = normalized w).
  Proof.
    intros ND. split; [apply exact_sound|]. intros (e & H1 & H2). eapply exact_complete; eassumption.
  Qed.

  (* ---------- the decision, characterised ---------- *)
  Theorem accepts_spec D d w : dict_nodup D ->
    (accepts D d w = true <->
       (exists e, In e D /\ word_id (canon e) = word_id w /\ dialect_ok (edialect e) d = true) /\
       (exists e', In e' D /\ (normalized (canon e') = normalized w \/
                               normalized (canon e') = normalized (to_lower w)))).
  Proof.
    intros ND. unfold SpellDecision.accepts, accept_facts, SpellDecision.get_word_metadata. split.
    - destruct (lookup D (word_id w)) as [e|] eqn:L; cbn [option_map]; [|discriminate].
      intros H. apply andb_true_iff in H as [Hd Hx]. apply lookup_some in L as [L1 L2]. split.
      + exists e. auto.
      + apply orb_true_iff in Hx as [Hx|Hx]; apply exact_sound in Hx as (e' & A & B); exists e'; auto.
    - intros [(e & He & Hid & Hd) (e' & He' & Hc)].
      rewrite (lookup_same_id D e) by assumption. cbn [option_map]. rewrite Hd. cbn [andb].
      apply orb_true_iff. destruct Hc as [Hc|Hc]; [left|right]; eapply exact_complete; eassumption.
  Qed.

  (* the same decision from the facts the harness dumps *)
  Lemma accepts_facts D d w :
    accepts D d w = accept_facts (option_map edialect (get_word_metadata D w)) d
                                 (contains_exact_word D w) (contains_exact_word D (to_lower w)).
  Proof. reflexivity. Qed.

  (* ---------- positive half: what is accepted ---------- *)
  (* the canonical spelling of a listed, dialect-compatible entry — whatever characters it is stored with
     (before ebb53b3 this needed `normalized (canon e) = canon e`: see exact_old_rejects_own_entry) *)
  Theorem canonical_accepted D d e : dict_nodup D -> In e D ->
    dialect_ok (edialect e) d = true ->
    accepts D d (canon e) = true.
  Proof.
    intros ND Hin Hd. apply accepts_spec; [assumption|]. split.
    - exists e. auto.
    - exists e. split; [assumption|]. now left.
  Qed.

  (* any spelling that lower-cases (and normalises) to the entry and has its id *)
  Theorem variant_accepted D d e w : dict_nodup D -> In e D ->
    dialect_ok (edialect e) d = true ->
    word_id w = word_id (canon e) -> normalized (to_lower w) = normalized (canon e) ->
    accepts D d w = true.
  Proof.
    intros ND Hin Hd Hid Hl. apply accepts_spec; [assumption|]. split.
    - exists e. auto.
    - exists e. split; [assumption|]. right. now rewrite Hl.
  Qed.

  (* ---------- negative half ---------- *)
  Theorem unlisted_rejected D d w : (forall e, In e D -> word_id (canon e) <> word_id w) -> accepts D d w = false.
  Proof.
    intros H. unfold SpellDecision.accepts, SpellDecision.get_word_metadata.
    apply lookup_none in H. rewrite H. reflexivity.
  Qed.

  Theorem other_dialect_rejected D d e w d' : dict_nodup D -> In e D -> word_id (canon e) = word_id w ->
    edialect e = Some d' -> d' <> d -> accepts D d w = false.
  Proof.
    intros ND Hin Hid Hd Hne. unfold SpellDecision.accepts, SpellDecision.get_word_metadata.
    rewrite (lookup_same_id D e) by assumption. cbn [option_map accept_facts]. rewrite Hd. cbn [dialect_ok].
    destruct (dialect_eqb d' d) eqn:E; [|reflexivity]. apply dialect_eqb_eq in E. contradiction.
  Qed.

  (* ---------- suggestions ---------- *)
  Lemma backoff_in D w fuel : forall dist cur r s,
    backoff D w fuel dist cur = Ok r -> In s r -> In s cur \/ exists k, In s (fuzzy D w k).
  Proof.
    induction fuel as [|f IH]; intros dist cur r s H Hs; cbn [SpellDecision.backoff] in H.
    - destruct (is_nil cur && (dist <? backoff_bound)); [discriminate|]. inversion H; subst. now left.
    - destruct (is_nil cur && (dist <? backoff_bound)).
      + apply IH with (s := s) in H; [|assumption]. destruct H as [H|H]; [right; eauto|now right].
      + inversion H; subst. now left.
  Qed.

  Lemma backoff_fuel_ok D w fuel : forall dist cur,
    backoff_bound - dist <= fuel -> exists r, backoff D w fuel dist cur = Ok r.
  Proof.
    induction fuel as [|f IH]; intros dist cur Hf; cbn [SpellDecision.backoff].
    - destruct (is_nil cur); cbn [andb]; [|eauto].
      destruct (dist <? backoff_bound) eqn:E; [|eauto]. apply Nat.ltb_lt in E. lia.
    - destruct (is_nil cur && (dist <? backoff_bound)) eqn:E; [|eauto].
      apply IH. lia.
  Qed.

  (* the loop really ran to its exit condition: the result is non-empty or every distance was tried *)
  Lemma backoff_exit D w fuel : forall dist cur r,
    backoff D w fuel dist cur = Ok r ->
    r = cur /\ (cur <> [] \/ backoff_bound <= dist) \/
    exists k, dist <= k < backoff_bound /\ r = fuzzy D w k /\
              (forall j, dist <= j < k -> fuzzy D w j = []) /\ (r <> [] \/ S k = backoff_bound) /\ cur = [].
  Proof.
    induction fuel as [|f IH]; intros dist cur r H; cbn [SpellDecision.backoff] in H.
    - destruct (is_nil cur && (dist <? backoff_bound)) eqn:E; [discriminate|]. inversion H; subst. left.
      split; [reflexivity|]. apply andb_false_iff in E as [E|E].
      + left. destruct r; [discriminate|congruence].
      + right. apply Nat.ltb_ge in E. lia.
    - destruct (is_nil cur && (dist <? backoff_bound)) eqn:E.
      + apply andb_true_iff in E as [E1 E2]. apply Nat.ltb_lt in E2.
        assert (cur = []) as -> by (destruct cur; [reflexivity|discriminate]).
        right. apply IH in H as [[-> Hc]|(k & Hk & -> & Hz & Hx & Hcur)].
        * exists dist. repeat split; try lia. destruct Hc as [Hc|Hc]; [now left|right; lia].
        * exists k. repeat split; try lia; try assumption.
          intros j Hj. destruct (Nat.eq_dec j dist) as [->|Hne]; [assumption|]. apply Hz. lia.
      + inversion H; subst. left. split; [reflexivity|]. apply andb_false_iff in E as [E|E].
        * left. destruct r; [discriminate|congruence].
        * right. apply Nat.ltb_ge in E. lia.
  Qed.

  Lemma retain_in D d l : forall r s, retain_dialect D d l = Ok r -> In s r ->
    In s l /\ exists e, get_word_metadata D s = Some e /\ dialect_ok (edialect e) d = true.
  Proof.
    induction l as [|v t IH]; intros r s H Hs; cbn [SpellDecision.retain_dialect] in H.
    - inversion H; subst. contradiction.
    - destruct (get_word_metadata D v) as [e|] eqn:M; [|discriminate].
      destruct (retain_dialect D d t) as [t'|] eqn:R; cbn [bind] in H; [|discriminate].
      inversion H; subst; clear H.
      destruct (dialect_ok (edialect e) d) eqn:Ok1.
      + destruct Hs as [<-|Hs].
        * split; [now left|]. eauto.
        * destruct (IH t' s eq_refl Hs) as [A B]. split; [now right|assumption].
      + destruct (IH t' s eq_refl Hs) as [A B]. split; [now right|assumption].
  Qed.

  Lemma retain_total D d l : (forall v, In v l -> get_word_metadata D v <> None) ->
    exists r, retain_dialect D d l = Ok r.
  Proof.
    induction l as [|v t IH]; intros H; cbn [SpellDecision.retain_dialect]; [eauto|].
    destruct (get_word_metadata D v) as [e|] eqn:M.
    - destruct IH as [r Hr]; [intros x Hx; apply H; now right|]. rewrite Hr. cbn [bind]. eauto.
    - exfalso. apply (H v); [now left|assumption].
  Qed.

  (* retain keeps the order and exactly the compatible ones *)
  Lemma retain_filter D d l r : retain_dialect D d l = Ok r ->
    r = filter (fun v => match get_word_metadata D v with Some e => dialect_ok (edialect e) d | None => false end) l.
  Proof.
    revert r. induction l as [|v t IH]; intros r H; cbn [SpellDecision.retain_dialect] in H.
    - now inversion H.
    - cbn [filter]. destruct (get_word_metadata D v) as [e|] eqn:M; [|discriminate].
      destruct (retain_dialect D d t) as [t'|] eqn:R; cbn [bind] in H; [|discriminate].
      inversion H; subst; clear H. rewrite (IH t' eq_refl). reflexivity.
  Qed.

  Lemma cap_first_total (H_uc : forall c, uc c <> []) s : exists s', cap_first s = Ok s'.
  Proof.
    destruct s as [|f t]; cbn [SpellDecision.cap_first]; [eauto|].
    destruct (uc f) as [|u us] eqn:E; [exfalso; now apply (H_uc f)|eauto].
  Qed.

  Lemma map_res_in {A B} (f : A -> res B) l : forall r y, map_res f l = Ok r -> In y r -> exists x, In x l /\ f x = Ok y.
  Proof.
    induction l as [|x t IH]; intros r y H Hy; cbn [map_res] in H.
    - inversion H; subst. contradiction.
    - destruct (f x) as [y0|] eqn:F; cbn [bind] in H; [|discriminate].
      destruct (map_res f t) as [t'|] eqn:R; cbn [bind] in H; [|discriminate].
      inversion H; subst; clear H. destruct Hy as [<-|Hy].
      + exists x. split; [now left|assumption].
      + destruct (IH t' y eq_refl Hy) as (x' & A1 & A2). exists x'. split; [now right|assumption].
  Qed.

  Lemma map_res_total {A B} (f : A -> res B) l : (forall x, exists y, f x = Ok y) -> exists r, map_res f l = Ok r.
  Proof.
    intros H. induction l as [|x t [r IH]]; cbn [map_res]; [eauto|].
    destruct (H x) as [y Hy]. rewrite Hy, IH. cbn [bind]. eauto.
  Qed.

  Lemma map_res_length {A B} (f : A -> res B) l : forall r, map_res f l = Ok r -> length r = length l.
  Proof.
    induction l as [|x t IH]; intros r H; cbn [map_res] in H.
    - now inversion H.
    - destruct (f x); cbn [bind] in H; [|discriminate].
      destruct (map_res f t) as [t'|]; cbn [bind] in H; [|discriminate].
      inversion H; subst. cbn [length]. f_equal. now apply IH.
  Qed.

  Lemma finish_in w cands sg s : finish w cands = Ok sg -> In s sg ->
    exists c, In c cands /\ (s = c \/ cap_first c = Ok s).
  Proof.
    unfold SpellDecision.finish. intros H Hs.
    assert (forall x, In x (firstn suggestions_kept cands) -> In x cands) as Hf
      by (intros x Hx; rewrite <- (firstn_skipn suggestions_kept cands); apply in_or_app; now left).
    destruct w as [|f t].
    - inversion H; subst. exists s. split; [now apply Hf|now left].
    - destruct (is_upper f).
      + destruct (map_res_in _ _ _ _ H Hs) as (c & Hc & Hcap). exists c. split; [now apply Hf|now right].
      + inversion H; subst. exists s. split; [now apply Hf|now left].
  Qed.

  Lemma finish_total (H_uc : forall c, uc c <> []) w cands : exists sg, finish w cands = Ok sg.
  Proof.
    unfold SpellDecision.finish. destruct w as [|f t]; [eauto|]. destruct (is_upper f); [|eauto].
    apply map_res_total. intros x. now apply cap_first_total.
  Qed.

  Lemma finish_length w cands sg : finish w cands = Ok sg -> length sg <= suggestions_kept.
  Proof.
    unfold SpellDecision.finish. intros H.
    assert (length (firstn suggestions_kept cands) <= suggestions_kept) as L by apply firstn_le_length.
    destruct w as [|f t]; [inversion H; now subst|]. destruct (is_upper f).
    - apply map_res_length in H. lia.
    - inversion H; now subst.
  Qed.

  (* C15's theorem about the fuzzy search, as far as C06 needs it: results are dictionary words *)
  Definition fuzzy_listed : Prop := forall D w k s, In s (fuzzy D w k) -> exists e, In e D /\ canon e = s.

  Lemma suggest_in (HF : fuzzy_listed) D d w r s : dict_nodup D -> suggest D d w = Ok r -> In s r ->
    exists e, In e D /\ canon e = s /\ dialect_ok (edialect e) d = true.
  Proof.
    intros ND H Hs. unfold SpellDecision.suggest in H.
    destruct (backoff D w backoff_fuel backoff_start []) as [raw|] eqn:B; cbn [bind] in H; [|discriminate].
    destruct (retain_in _ _ _ _ _ H Hs) as [Hraw (e' & M & Hd)].
    destruct (backoff_in _ _ _ _ _ _ _ B Hraw) as [[]|(k & Hk)].
    destruct (HF _ _ _ _ Hk) as (e & He & Hc).
    unfold SpellDecision.get_word_metadata in M. rewrite <- Hc in M. rewrite (lookup_listed D e ND He) in M.
    inversion M; subst e'. eauto.
  Qed.

  Lemma suggest_total (HF : fuzzy_listed) D d w : dict_nodup D -> exists r, suggest D d w = Ok r.
  Proof.
    intros ND. unfold SpellDecision.suggest.
    destruct (backoff_fuel_ok D w backoff_fuel backoff_start []) as [raw B]; [unfold backoff_fuel; lia|].
    rewrite B. cbn [bind]. apply retain_total. intros v Hv M.
    destruct (backoff_in _ _ _ _ _ _ _ B Hv) as [[]|(k & Hk)].
    destruct (HF _ _ _ _ Hk) as (e & He & Hc).
    unfold SpellDecision.get_word_metadata in M. rewrite <- Hc in M. rewrite (lookup_listed D e ND He) in M.
    discriminate.
  Qed.

  (* ---------- one word token ---------- *)
  Lemma lint_word_cases D d src sp r : lint_word D d src sp = Ok r ->
    exists w, get_content sp src = Ok w /\
      match r with
      | None => accepts D d w = true
      | Some l => accepts D d w = false /\ sl_span l = sp /\
                  exists cands, suggest D d w = Ok cands /\ finish w cands = Ok (sl_sugg l)
      end.
  Proof.
    unfold SpellDecision.lint_word. destruct (get_content sp src) as [w|] eqn:G; cbn [bind]; [|discriminate].
    intros H. exists w. split; [reflexivity|].
    destruct (accepts D d w) eqn:A.
    - inversion H; subst. reflexivity.
    - destruct (suggest D d w) as [cands|] eqn:S; cbn [bind] in H; [|discriminate].
      destruct (finish w cands) as [sg|] eqn:F; cbn [bind] in H; [|discriminate].
      inversion H; subst. cbn. repeat split. eauto.
  Qed.

  Lemma lint_word_accepted D d src sp w : get_content sp src = Ok w -> accepts D d w = true ->
    lint_word D d src sp = Ok None.
  Proof. intros G A. unfold SpellDecision.lint_word. rewrite G. cbn [bind]. now rewrite A. Qed.

  Lemma lint_word_rejected (H_uc : forall c, uc c <> []) (HF : fuzzy_listed) D d src sp w :
    dict_nodup D -> get_content sp src = Ok w -> accepts D d w = false ->
    exists sg, lint_word D d src sp = Ok (Some (mkslint sp sg)).
  Proof.
    intros ND G A. unfold SpellDecision.lint_word. rewrite G. cbn [bind]. rewrite A.
    destruct (suggest_total HF D d w ND) as [cands S]. rewrite S. cbn [bind].
    destruct (finish_total H_uc w cands) as [sg F]. rewrite F. cbn [bind]. eauto.
  Qed.

  (* ---------- the whole document ---------- *)
  Lemma lint_doc_in D d src words : forall ls, lint_doc D d src words = Ok ls ->
    forall l, In l ls <-> exists sp, In sp words /\ lint_word D d src sp = Ok (Some l).
  Proof.
    induction words as [|sp rest IH]; intros ls H l; cbn [SpellDecision.lint_doc] in H.
    - inversion H; subst. split; [intros []|intros (sp & [] & _)].
    - destruct (lint_word D d src sp) as [r|] eqn:W; cbn [bind] in H; [|discriminate].
      destruct (lint_doc D d src rest) as [rs|] eqn:R; cbn [bind] in H; [|discriminate].
      inversion H; subst; clear H. specialize (IH rs eq_refl l). split.
      + intros Hin. destruct r as [l0|].
        * destruct Hin as [<-|Hin]; [exists sp; split; [now left|assumption]|].
          apply IH in Hin as (sp' & A & B). exists sp'. split; [now right|assumption].
        * apply IH in Hin as (sp' & A & B). exists sp'. split; [now right|assumption].
      + intros (sp' & [<-|A] & B).
        * rewrite W in B. inversion B; subst. now left.
        * assert (In l rs) as Hrs by (apply IH; eauto). destruct r; [now right|assumption].
  Qed.

  Lemma lint_doc_total D d src words :
    (forall sp, In sp words -> exists r, lint_word D d src sp = Ok r) -> exists ls, lint_doc D d src words = Ok ls.
  Proof.
    induction words as [|sp rest IH]; intros H; cbn [SpellDecision.lint_doc]; [eauto|].
    destruct (H sp) as [r Hr]; [now left|]. rewrite Hr. cbn [bind].
    destruct IH as [rs Hrs]; [intros x Hx; apply H; now right|]. rewrite Hrs. cbn [bind]. eauto.
  Qed.

  (* the lints come in token order: their spans are the reported word spans, in order *)
  Lemma lint_doc_spans D d src words : forall ls, lint_doc D d src words = Ok ls ->
    map sl_span ls = filter (fun sp => match lint_word D d src sp with Ok (Some _) => true | _ => false end) words.
  Proof.
    induction words as [|sp rest IH]; intros ls H; cbn [SpellDecision.lint_doc] in H.
    - now inversion H.
    - cbn [filter]. destruct (lint_word D d src sp) as [r|] eqn:W; cbn [bind] in H; [|discriminate].
      destruct (lint_doc D d src rest) as [rs|] eqn:R; cbn [bind] in H; [|discriminate].
      inversion H; subst; clear H. specialize (IH rs eq_refl). destruct r as [l|].
      + cbn [map]. f_equal; [|assumption]. apply lint_word_cases in W as (w & _ & _ & E & _). exact E.
      + assumption.
  Qed.

  (* ---------- the word cache is transparent ---------- *)
  Definition cache_valid (D : dict) (d : dialect) (c : cache) : Prop :=
    forall k v, In (k, v) c -> suggest D d k = Ok v.

  Lemma cache_get_in c w v : cache_get c w = Some v -> In (w, v) c.
  Proof.
    induction c as [|[k x] t IH]; cbn [cache_get]; [discriminate|].
    destruct (text_eqb k w) eqn:E.
    - intros H. inversion H; subst. apply text_eqb_eq in E. subst. now left.
    - intros H. right. now apply IH.
  Qed.

  Lemma cache_put_valid D d c w v : cache_valid D d c -> suggest D d w = Ok v -> cache_valid D d (cache_put keep c w v).
  Proof.
    intros Hc Hs k x Hin. unfold cache_put in Hin. apply filter_In in Hin as [[E|Hin] _].
    - inversion E; subst. assumption.
    - now apply Hc.
  Qed.

  Lemma cached_suggest_spec D d c w r c' : cache_valid D d c -> cached_suggest D d c w = Ok (r, c') ->
    suggest D d w = Ok r /\ cache_valid D d c'.
  Proof.
    intros Hc. unfold SpellDecision.cached_suggest. destruct (cache_get c w) as [hit|] eqn:G.
    - intros H. inversion H; subst. split; [|assumption]. apply Hc. now apply cache_get_in.
    - destruct (suggest D d w) as [s|] eqn:S; cbn [bind]; [|discriminate].
      intros H. inversion H; subst. split; [reflexivity|]. now apply cache_put_valid.
  Qed.

  Lemma cached_suggest_total D d c w r : cache_valid D d c -> suggest D d w = Ok r ->
    exists c', cached_suggest D d c w = Ok (r, c').
  Proof.
    intros Hc S. unfold SpellDecision.cached_suggest. destruct (cache_get c w) as [hit|] eqn:G.
    - apply cache_get_in in G. apply Hc in G. rewrite S in G. inversion G; subst. eauto.
    - rewrite S. cbn [bind]. eauto.
  Qed.

  Lemma lint_word_cached_eq D d c src sp r : cache_valid D d c -> lint_word D d src sp = Ok r ->
    exists c', lint_word_cached D d c src sp = Ok (r, c') /\ cache_valid D d c'.
  Proof.
    intros Hc. unfold SpellDecision.lint_word, SpellDecision.lint_word_cached.
    destruct (get_content sp src) as [w|]; cbn [bind]; [|discriminate].
    destruct (accepts D d w).
    - intros H. inversion H; subst. eauto.
    - destruct (suggest D d w) as [cands|] eqn:S; cbn [bind]; [|discriminate].
      destruct (cached_suggest_total D d c w cands Hc S) as [c' Hc'].
      rewrite Hc'. cbn [bind]. destruct (finish w cands) as [sg|]; cbn [bind]; [|discriminate].
      intros H. inversion H; subst. exists c'. split; [reflexivity|].
      eapply cached_suggest_spec; eassumption.
  Qed.

  Theorem cache_transparent D d src words : forall c ls, cache_valid D d c ->
    lint_doc D d src words = Ok ls ->
    exists c', lint_doc_cached D d c src words = Ok (ls, c') /\ cache_valid D d c'.
  Proof.
    induction words as [|sp rest IH]; intros c ls Hc H; cbn [SpellDecision.lint_doc] in H;
      cbn [SpellDecision.lint_doc_cached].
    - inversion H; subst. eauto.
    - destruct (lint_word D d src sp) as [r|] eqn:W; cbn [bind] in H; [|discriminate].
      destruct (lint_doc D d src rest) as [rs|] eqn:R; cbn [bind] in H; [|discriminate].
      inversion H; subst; clear H.
      destruct (lint_word_cached_eq D d c src sp r Hc W) as (c1 & E1 & V1). rewrite E1. cbn [bind].
      destruct (IH c1 rs V1 eq_refl) as (c2 & E2 & V2). rewrite E2. cbn [bind]. eauto.
  Qed.

  Lemma cache_valid_nil D d : cache_valid D d [].
  Proof. intros k v []. Qed.

  (* ================= the C06 statements ================= *)

  (* Unicode: a lower-case character is its own lower-case mapping (monitored over all code points) *)
  Definition lower_fix : Prop := forall c, is_lower c = true -> lc c = [c].

  Lemma to_lower_flat (HL : lower_fix) w : to_lower w = flat_map lc w.
  Proof.
    unfold SpellDecision.to_lower. destruct (forallb is_lower w) eqn:E; [|reflexivity].
    rewrite forallb_forall in E. rewrite (flat_map_ext_in lc (fun x => [x])).
    - symmetry. apply flat_map_singleton.
    - intros x Hx. apply HL. now apply E.
  Qed.

  (* per-character premise of the case theorems: upper-casing then lower-casing is lower-casing, and the
     upper-case mapping yields no character that normalisation rewrites *)
  Definition case_regular (ch : char) : Prop :=
    flat_map lc (uc ch) = lc ch /\ normalized (uc ch) = uc ch.

  Lemma lower_upper (HL : lower_fix) c : Forall case_regular c -> to_lower (upper c) = to_lower c.
  Proof.
    intros H. rewrite !to_lower_flat by assumption. unfold SpellDecision.upper. rewrite flat_map_flat_map.
    apply flat_map_ext_in. intros x Hx. rewrite Forall_forall in H. now apply H.
  Qed.

  Lemma normalized_flat_map (f : char -> list char) c :
    (forall x, In x c -> normalized (f x) = f x) -> normalized (flat_map f c) = flat_map f c.
  Proof.
    induction c as [|x c IH]; intros H; cbn [flat_map]; [reflexivity|].
    rewrite normalized_app, H by (now left). rewrite IH; [reflexivity|]. intros y Hy. apply H. now right.
  Qed.

  Lemma normalized_upper c : Forall case_regular c -> normalized (upper c) = upper c.
  Proof.
    intros H. apply normalized_flat_map. intros x Hx. rewrite Forall_forall in H. now apply H.
  Qed.

  Lemma lower_capitalise (HL : lower_fix) c : Forall case_regular (firstn 1 c) -> to_lower (capitalise c) = to_lower c.
  Proof.
    intros H. rewrite !to_lower_flat by assumption. destruct c as [|f t]; [reflexivity|].
    cbn [SpellDecision.capitalise firstn] in *. inversion H as [|? ? [H1 _] _]; subst.
    rewrite flat_map_app. cbn [flat_map]. now rewrite H1.
  Qed.

  Lemma normalized_capitalise c : normalized c = c -> Forall case_regular (firstn 1 c) ->
    normalized (capitalise c) = capitalise c.
  Proof.
    intros Hn H. destruct c as [|f t]; [reflexivity|].
    cbn [SpellDecision.capitalise firstn] in *. inversion H as [|? ? [_ H2] _]; subst.
    rewrite normalized_app, H2. f_equal. unfold normalized in Hn. cbn [map] in Hn. now inversion Hn as [[A B]]; rewrite !B.
  Qed.

  (* C06, positive half, at the level of a document: a word token whose text is the canonical spelling of a
     listed entry of the active dialect — or, when that spelling is lower-case, its capitalised or upper-case
     form — draws no lint.  `In sp words /\ get_content sp src = Ok w` is the premise single_word_token: the
     word stands in the text as one Word token. *)
  Definition lower_case (c : text) : Prop := to_lower c = c.

  (* the three forms of the property text are accepted (the decision alone, no document) *)
  Lemma listed_forms_accepts (HL : lower_fix) D d e w :
    dict_nodup D -> In e D -> dialect_ok (edialect e) d = true ->
    ( w = canon e
      \/ (normalized (canon e) = canon e /\ lower_case (canon e) /\ w = capitalise (canon e) /\
          Forall case_regular (firstn 1 (canon e)))
      \/ (normalized (canon e) = canon e /\ lower_case (canon e) /\ w = upper (canon e) /\
          Forall case_regular (canon e)) ) ->
    accepts D d w = true.
  Proof.
    intros ND Hin Hd Hw.
    destruct Hw as [->|[(Hn & Hlc & -> & Hr)|(Hn & Hlc & -> & Hr)]].
    - now apply canonical_accepted.
    - apply (variant_accepted D d e); try assumption.
      + unfold SpellDecision.word_id. rewrite normalized_capitalise, Hn by assumption.
        now apply lower_capitalise.
      + rewrite lower_capitalise by assumption. unfold lower_case in Hlc. now rewrite Hlc.
    - apply (variant_accepted D d e); try assumption.
      + unfold SpellDecision.word_id. rewrite normalized_upper, Hn by assumption. now apply lower_upper.
      + rewrite lower_upper by assumption. unfold lower_case in Hlc. now rewrite Hlc.
  Qed.

  Theorem listed_accepted (HL : lower_fix) D d e src words sp w ls :
    dict_nodup D -> In e D -> dialect_ok (edialect e) d = true ->
    In sp words -> get_content sp src = Ok w ->
    ( w = canon e
      \/ (normalized (canon e) = canon e /\ lower_case (canon e) /\ w = capitalise (canon e) /\
          Forall case_regular (firstn 1 (canon e)))
      \/ (normalized (canon e) = canon e /\ lower_case (canon e) /\ w = upper (canon e) /\
          Forall case_regular (canon e)) ) ->
    lint_doc D d src words = Ok ls ->
    lint_word D d src sp = Ok None /\ forall l, In l ls -> sl_span l = sp -> False.
  Proof.
    intros ND Hin Hd Hsp G Hw HL'.
    pose proof (listed_forms_accepts HL D d e w ND Hin Hd Hw) as A.
    pose proof (lint_word_accepted D d src sp w G A) as W. split; [assumption|].
    intros l Hl Hspan. apply (lint_doc_in D d src words ls HL' l) in Hl as (sp' & _ & B).
    pose proof B as B'. apply lint_word_cases in B' as (w' & _ & _ & E & _). rewrite Hspan in E. subst sp'.
    rewrite W in B. discriminate.
  Qed.

  (* C06, converse: a word token whose id no entry has is reported, and the lint's span is the token's span *)
  Theorem unlisted_reported (H_uc : forall c, uc c <> []) (HF : fuzzy_listed) D d src words sp w :
    dict_nodup D -> (forall sp', In sp' words -> span_in (length src) sp') ->
    In sp words -> get_content sp src = Ok w ->
    (forall e, In e D -> word_id (canon e) <> word_id w) ->
    exists ls sg, lint_doc D d src words = Ok ls /\ In (mkslint sp sg) ls.
  Proof.
    intros ND Hb Hsp G Hun.
    destruct (lint_word_rejected H_uc HF D d src sp w ND G (unlisted_rejected D d w Hun)) as [sg W].
    destruct (lint_doc_total D d src words) as [ls L].
    - intros sp' Hsp'. specialize (Hb sp' Hsp').
      destruct (get_content sp' src) as [w'|] eqn:G'.
      + destruct (accepts D d w') eqn:A.
        * exists None. now apply (lint_word_accepted D d src sp' w').
        * destruct (lint_word_rejected H_uc HF D d src sp' w' ND G' A) as [sg' W']. eauto.
      + exfalso. unfold get_content, try_get_content in G'. destruct Hb as [B1 B2].
        destruct ((send sp' <? sstart sp') || (length src <=? sstart sp') || (length src <? send sp')) eqn:C.
        * unfold span_len, sub_chk in G'. destruct (send sp' <? sstart sp') eqn:C1; [apply Nat.ltb_lt in C1; lia|].
          cbn [bind] in G'. destruct (send sp' - sstart sp' =? 0) eqn:Z; [discriminate|].
          apply Nat.eqb_neq in Z. cbn [orb] in C. apply orb_true_iff in C as [C|C].
          -- apply Nat.leb_le in C. lia.
          -- apply Nat.ltb_lt in C. lia.
        * discriminate.
    - exists ls, sg. split; [assumption|]. apply (lint_doc_in D d src words ls L). eauto.
  Qed.

  Theorem other_dialect_reported (H_uc : forall c, uc c <> []) (HF : fuzzy_listed) D d src sp w e d' :
    dict_nodup D -> get_content sp src = Ok w ->
    In e D -> word_id (canon e) = word_id w -> edialect e = Some d' -> d' <> d ->
    exists sg, lint_word D d src sp = Ok (Some (mkslint sp sg)).
  Proof.
    intros ND G Hin Hid Hd Hne. apply (lint_word_rejected H_uc HF D d src sp w ND G).
    eapply other_dialect_rejected; eassumption.
  Qed.

  (* C06, suggestions: each is the canonical spelling of an entry of the active dialect, or that spelling with
     its first character replaced by the first character of its upper-case mapping; at most three *)
  Theorem suggestions_in_dictionary (HF : fuzzy_listed) D d src sp l : dict_nodup D ->
    lint_word D d src sp = Ok (Some l) ->
    length (sl_sugg l) <= suggestions_kept /\
    forall s, In s (sl_sugg l) ->
      exists e, In e D /\ dialect_ok (edialect e) d = true /\ (s = canon e \/ cap_first (canon e) = Ok s).
  Proof.
    intros ND H. apply lint_word_cases in H as (w & _ & _ & _ & cands & S & F). split.
    - eapply finish_length; eassumption.
    - intros s Hs. destruct (finish_in _ _ _ _ F Hs) as (c & Hc & Hcs).
      destruct (suggest_in HF D d w cands c ND S Hc) as (e & He & Hce & Hd). exists e. subst c. auto.
  Qed.

  (* totality: on tokens inside the text the model never panics and never runs out of fuel *)
  Theorem lint_doc_never_panics (H_uc : forall c, uc c <> []) (HF : fuzzy_listed) D d src words :
    dict_nodup D -> (forall sp, In sp words -> span_in (length src) sp) ->
    exists ls, lint_doc D d src words = Ok ls.
  Proof.
    intros ND Hb. apply lint_doc_total. intros sp Hsp. specialize (Hb sp Hsp).
    destruct (get_content sp src) as [w|] eqn:G.
    - destruct (accepts D d w) eqn:A.
      + exists None. now apply (lint_word_accepted D d src sp w).
      + destruct (lint_word_rejected H_uc HF D d src sp w ND G A) as [sg W]. eauto.
    - exfalso. unfold get_content, try_get_content in G. destruct Hb as [B1 B2].
      destruct ((send sp <? sstart sp) || (length src <=? sstart sp) || (length src <? send sp)) eqn:C.
      + unfold span_len, sub_chk in G. destruct (send sp <? sstart sp) eqn:C1; [apply Nat.ltb_lt in C1; lia|].
        cbn [bind] in G. destruct (send sp - sstart sp =? 0) eqn:Z; [discriminate|].
        apply Nat.eqb_neq in Z. cbn [orb] in C. apply orb_true_iff in C as [C|C].
        * apply Nat.leb_le in C. lia.
        * apply Nat.ltb_lt in C. lia.
      + discriminate.
  Qed.
End Proofs.

(* ---------- the ASCII instance satisfies the hypotheses (non-vacuity) ---------- *)
Lemma ascii_lower_fix : lower_fix ascii_lc ascii_is_lower.
Proof.
  intros c H. unfold ascii_lc, ascii_is_upper. unfold ascii_is_lower in H.
  apply andb_true_iff in H as [H1 H2]. apply N.leb_le in H1. apply N.leb_le in H2.
  destruct ((65 <=? c)%N && (c <=? 90)%N) eqn:E; [|reflexivity].
  apply andb_true_iff in E as [E1 E2]. apply N.leb_le in E2. lia.
Qed.

Lemma ascii_uc_nonempty : forall c, ascii_uc c <> [].
Proof. intros c. unfold ascii_uc. destruct (ascii_is_lower c); discriminate. Qed.

Lemma no_fuzzy_listed : fuzzy_listed no_fuzzy.
Proof. intros D w k s []. Qed.

(* ---------- F24: a listed entry that is not one Word token is reported ---------- *)
Lemma f24_nodup : dict_nodup ascii_lc ascii_is_lower f24_dict.
Proof.
  unfold dict_nodup. vm_compute. repeat constructor; cbn; intuition discriminate.
Qed.

Theorem multi_token_refuted :
  exists D d e src words ls,
    dict_nodup ascii_lc ascii_is_lower D /\ In e D /\ dialect_ok (edialect e) d = true /\
    normalized (canon e) = canon e /\ src = canon e /\
    lint_doc ascii_lc ascii_uc ascii_is_lower ascii_is_upper no_fuzzy D d src words = Ok ls /\
    ls <> [] /\ (forall l, In l ls -> In (sl_span l) words) /\
    ~ In (mkspan 0 (length src)) words.
Proof.
  exists f24_dict, American, (mkentry w_socio_political None), w_socio_political, f24_words,
         [mkslint (mkspan 0 5) []].
  split; [exact f24_nodup|]. split; [now left|]. split; [reflexivity|]. split; [vm_compute; reflexivity|].
  split; [reflexivity|]. split; [vm_compute; reflexivity|]. split; [discriminate|]. split.
  - intros l [<-|[]]. now left.
  - cbn. intros [H|[H|[]]]; discriminate.
Qed.

(* ---------- history (FC07a, fixed by ebb53b3): with the comparison `canonical_spelling == normalized(word)` an entry
   stored with a typographic apostrophe did not match itself; the current comparison accepts it (canonical_accepted
   needs no premise about the entry's characters any more) ---------- *)
Definition w_blorfs_curly : text := [98;108;111;114;102;8217;115]%N.          (* blorf’s, U+2019 *)
Example exact_old_rejects_own_entry :
  let D := [mkentry w_blorfs_curly None] in
  dict_nodup ascii_lc ascii_is_lower D /\
  contains_exact_word_old ascii_lc ascii_is_lower D w_blorfs_curly = false /\
  contains_exact_word ascii_lc ascii_is_lower D w_blorfs_curly = true /\
  accepts ascii_lc ascii_is_lower D American w_blorfs_curly = true.
Proof.
  cbv zeta. split; [unfold dict_nodup; vm_compute; repeat constructor; cbn; intuition discriminate|].
  repeat split; vm_compute; reflexivity.
Qed.
