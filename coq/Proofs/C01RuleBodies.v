(* C01RuleBodies.v — the F31 class, statically: for every `impl PatternLinter for` rule whose pattern and whose
   literal uses of the matched slice tools/tables/rulebodies.py can read (Model/Tables_rulebodies.v, regenerated
   from /repo on every run) each `matched_tokens[k]`, `[a..b]`, `[a..]`, `[len - k]` and `match len { .. _ => panic }`
   stays inside EVERY slice run_on_chunk can hand to match_to_lint — by computation over the table
   (rule_table_ok) lifted through the soundness of min_len / max_len (C01LenProofs.rule_uses_safe). *)
Require Import Base Overlap TokenSeq Pattern C01Len C01LenProofs Tables_rulebodies.
From Coq Require Import List String Lia.
Import ListNotations.

Lemma rule_table_ok : forallb rule_ok rule_table = true.
Proof. vm_compute. reflexivity. Qed.

Theorem rule_bodies_indices_safe : forall leaf oracle src r, In r rule_table ->
  forall chunk l, run_on_chunk leaf oracle (r_pat r) chunk src = Ok l ->
  Forall (fun ab => forall u, In u (r_uses r) -> use_run (slice chunk (fst ab) (snd ab)) u = Ok tt) l.
Proof.
  intros leaf oracle src r Hin. apply rule_uses_safe.
  pose proof rule_table_ok as H. rewrite forallb_forall in H. exact (H r Hin).
Qed.

Definition codes (s : string) : text := map (fun a => N.of_nat (Ascii.nat_of_ascii a)) (list_ascii_of_string s).

(* every impl site is in exactly one of the three lists, and the rules that are NOT classified are these, by name *)
Definition expected_unclassified : list string := ["ModalOf"; "ProperNounCapitalizationLinter"]%string.
Lemma rule_census :
  List.length rule_table + List.length rules_nothing_to_check + List.length rules_unclassified = rule_impl_count /\
  map (fun x => fst (fst x)) rules_unclassified = expected_unclassified /\
  List.length rule_table = 20 /\
  rule_len_possible rule_table (codes "Dashes") 3 = Some true /\ rule_len_possible rule_table (codes "Dashes") 4 = Some false /\
  rule_len_possible rule_table (codes "ModalOf") 3 = None.
Proof. vm_compute. repeat split; reflexivity. Qed.

(* the bounds are sharp enough to matter: the table holds rules whose least match is 2, 3, 5 and 7 tokens long,
   bounded (Dashes: 2..3) and unbounded ones *)
(* names, for statements in files that do not import String *)
Definition nm_Dashes := "Dashes"%string.  Definition nm_ChockFull := "ChockFull"%string.  Definition nm_ThenThan := "ThenThan"%string.
Definition nm_ToHop := "ToHop"%string.  Definition nm_TheHowWhy := "TheHowWhy"%string.  Definition nm_ModalOf := "ModalOf"%string.
Definition nm_ImpliedInstantiatedCompoundNouns := "ImpliedInstantiatedCompoundNouns"%string.
Definition bounds_of (name : string) : option (nat * option nat) :=
  match find (fun r => text_eqb (r_name r) (codes name)) rule_table with
  | Some r => Some (min_len (r_pat r), max_len (r_pat r))
  | None => None
  end.
Lemma rule_bounds_examples :
  bounds_of "Dashes" = Some (2, Some 3) /\ bounds_of "ChockFull" = Some (3, None) /\
  bounds_of "ThenThan" = Some (5, None) /\ bounds_of "ToHop" = Some (7, None) /\
  bounds_of "ImpliedInstantiatedCompoundNouns" = Some (5, None) /\ bounds_of "TheHowWhy" = Some (3, None).
Proof. vm_compute. repeat split; reflexivity. Qed.

(* a use that is NOT safe is rejected by the static test, and really panics in the model:
   `matched_tokens[3]` in a rule whose pattern is word-whitespace-word (least match 3) *)
Definition bad_row : rule_row :=
  mkrule (codes "Bad") (PSeq [PFlag F_WORD; PWhitespace; PFlag F_WORD]) [UIdx 3].
Lemma static_test_rejects :
  rule_ok bad_row = false /\
  let ts := [mktok (mkspan 0 1) 0 1%N 0; mktok (mkspan 1 2) 1 2%N 1; mktok (mkspan 2 3) 0 1%N 2] in
  run_on_chunk (fun _ _ _ => Ok true) (fun _ _ _ => Ok true) (r_pat bad_row) ts [] = Ok [(0, 3)] /\
  use_run (slice ts 0 3) (UIdx 3) = Panic PIndex /\ use_run (slice ts 0 3) (UIdx 2) = Ok tt.
Proof. vm_compute. repeat split; reflexivity. Qed.
