(* C03RootsProofs.v (phase 5) — the chunk premise `prules_ok` of the LintGroup::lint theorems, PROVED for every pattern rule
   whose body builds the span of its lints from the matched tokens by the expressions of Model/C03Roots.v — and the table
   (regenerated from the Rust sources on every run) says that this is every `impl PatternLinter for` of linting/**,
   among them every rule LintGroup registers as a pattern rule.  No side condition is left: a token's own span and the
   hull of a sub-slice have none (an index out of range panics or leaves: no lint).
   Also: every span whose content a pattern rule body READS (get_content / get_content_string) is such an expression
   over the matched tokens, hence lies inside the chunk, hence inside the source: the read is a plain slice, no panic. *)
From Coq Require Import List Arith NArith Bool String Lia.
Require Import Base Cache CacheProofs TokenSeq Pattern C03LintGroup C03LintGroupProofs C03Roots Tables_c03roots.
Import ListNotations.
Local Open Scope nat_scope.

Lemma pts_min_in x l : In (pts_min x l) (x :: l).
Proof.
  revert x. induction l as [|y l IH]; intros x; cbn [pts_min]; [now left|].
  destruct (IH (Nat.min x y)) as [E|H]; [|right; now right].
  rewrite <- E. destruct (Nat.min_spec x y) as [[_ M]|[_ M]]; rewrite M; [now left|right; now left].
Qed.
Lemma pts_max_in x l : In (pts_max x l) (x :: l).
Proof.
  revert x. induction l as [|y l IH]; intros x; cbn [pts_max]; [now left|].
  destruct (IH (Nat.max x y)) as [E|H]; [|right; now right].
  rewrite <- E. destruct (Nat.max_spec x y) as [[_ M]|[_ M]]; rewrite M; [right; now left|now left].
Qed.

Section Within.
  Variable kind : Type.
  Notation toks := (list (Cache.tok kind)).

  (* a token inside the window [lo, hi] *)
  Definition tok_within (lo hi : nat) (t : Cache.tok kind) : Prop :=
    lo <= sstart (snd t) /\ sstart (snd t) <= send (snd t) /\ send (snd t) <= hi.
  Definition span_within (lo hi : nat) (s : span) : Prop := lo <= sstart s /\ sstart s <= send s /\ send s <= hi.

  (* TokenStringExt::span of tokens inside a window lies inside the window (min and max are attained) *)
  Lemma hull_of_within lo hi (sl : toks) s :
    Forall (tok_within lo hi) sl -> hull_of sl = Ok (Some s) -> span_within lo hi s.
  Proof.
    intros F H. pose proof (hull_of_wf kind sl s H) as W.
    assert (Hp : forall p, In p (flat_map tok_points sl) -> lo <= p <= hi).
    { intros p Hin. apply in_flat_map in Hin. destruct Hin as (t & Ht & Hp). rewrite Forall_forall in F.
      destruct (F t Ht) as (A & B & C). cbn [tok_points In] in Hp. destruct Hp as [<-|[<-|[]]]; lia. }
    unfold hull_of in H. destruct (flat_map tok_points sl) as [|x [|y r]] eqn:E; [discriminate| |].
    - destruct (span_new x x) as [s'|] eqn:E2; cbn [bind] in H; [|discriminate]. injection H as <-.
      apply span_new_ok in E2. destruct E2 as [-> _]. unfold span_within. cbn [sstart send].
      specialize (Hp x (or_introl eq_refl)). lia.
    - destruct (span_new (pts_min x (y :: r)) (pts_max x (y :: r))) as [s'|] eqn:E2; cbn [bind] in H; [|discriminate].
      injection H as <-. apply span_new_ok in E2. destruct E2 as [-> E2]. unfold span_within. cbn [sstart send].
      pose proof (Hp _ (pts_min_in x (y :: r))). pose proof (Hp _ (pts_max_in x (y :: r))). lia.
  Qed.

  Lemma In_firstn_skipn {A} (x : A) n m (l : list A) : In x (firstn n (skipn m l)) -> In x l.
  Proof.
    intros H.
    assert (H1 : forall n (l0 : list A), In x (firstn n l0) -> In x l0).
    { induction n0 as [|n0 IH]; intros [|y l0]; cbn [firstn In]; try tauto. intros [E|H0]; [now left|right; now apply IH]. }
    assert (H2 : forall n (l0 : list A), In x (skipn n l0) -> In x l0).
    { induction n0 as [|n0 IH]; intros [|y l0]; cbn [skipn In]; try tauto. intros H0. right. now apply IH. }
    eapply H2, H1, H.
  Qed.

  (* THE EXPRESSION LANGUAGE STAYS INSIDE: whatever span an expression denotes on a slice whose tokens lie in a window lies
     in that window — for every value of the run-time indices *)
  Theorem eval_src_within lo hi (mt : toks) dyn a s :
    Forall (tok_within lo hi) mt -> eval_src mt dyn a = Some s -> span_within lo hi s.
  Proof.
    intros F E. destruct a as [i|l h|]; cbn [eval_src] in E; [| |discriminate].
    - destruct (eval_idx (List.length mt) dyn i) as [k|]; [|discriminate].
      destruct (nth_error mt k) as [t|] eqn:N; cbn [option_map] in E; [|discriminate]. injection E as <-.
      apply nth_error_In in N. rewrite Forall_forall in F. exact (F t N).
    - destruct (match l with None => Some 0 | Some i => eval_idx (List.length mt) dyn i end) as [a0|]; [|discriminate].
      destruct (match h with HNone => Some (List.length mt) | HExcl i => eval_idx (List.length mt) dyn i
                | HIncl i => option_map S (eval_idx (List.length mt) dyn i) end) as [b0|]; [|discriminate].
      unfold slice_chk in E. destruct ((b0 <? a0) || (List.length mt <? b0)); [discriminate|].
      destruct (hull_of (firstn (b0 - a0) (skipn a0 mt))) as [[s'|]|] eqn:H; try discriminate. injection E as <-.
      eapply hull_of_within; [|exact H]. apply Forall_forall. intros t Ht. apply In_firstn_skipn in Ht.
      rewrite Forall_forall in F. now apply F.
  Qed.

  (* the tokens of a chunk with start <= end lie in the window of the chunk's hull *)
  Lemma chunk_within (ts : toks) sp :
    toks_wf kind ts -> hull_of ts = Ok (Some sp) -> Forall (tok_within (sstart sp) (send sp)) ts.
  Proof.
    intros Hw Ho. pose proof (hull_of_below kind ts sp Ho) as Hlo. pose proof (hull_of_above kind ts sp Ho) as Hhi.
    unfold toks_wf in Hw. rewrite Forall_forall in *. intros t Ht.
    specialize (Hlo t Ht). specialize (Hhi t Ht). specialize (Hw t Ht). cbn beta in *. unfold tok_within. lia.
  Qed.

  (* a READ of a pattern rule body: the span is inside the source, get_content is total and returns that many characters *)
  Theorem eval_src_read_ok (ts mt : toks) sp dyn a s (src : text) :
    toks_wf kind ts -> hull_of ts = Ok (Some sp) -> send sp <= List.length src -> incl mt ts ->
    eval_src mt dyn a = Some s ->
    exists chars, get_content s src = Ok chars /\ List.length chars = send s - sstart s.
  Proof.
    intros Hw Ho Hb Hi E.
    assert (F : Forall (tok_within (sstart sp) (send sp)) mt).
    { pose proof (chunk_within ts sp Hw Ho) as F. rewrite Forall_forall in *. intros t Ht. apply F, Hi, Ht. }
    destruct (eval_src_within _ _ mt dyn a s F E) as (A & B & C).
    apply get_content_inside; lia.
  Qed.
End Within.
Arguments tok_within {kind}.

(* ---------- a rule of the table satisfies the chunk premise, with no side condition ---------- *)
Section Rule.
  Variable leaf : nat -> TokenSeq.tok -> text -> res bool.
  Variable oracle : nat -> list TokenSeq.tok -> text -> res bool.

  Lemma body_lint_within asts sel t src (ts mt : list (Cache.tok pkind)) sp :
    toks_wf pkind ts -> hull_of ts = Ok (Some sp) -> incl mt ts ->
    Forall (lint_within sp) (body_lint asts sel t src mt).
  Proof.
    intros Hw Ho Hi. unfold body_lint.
    destruct (sel t mt src) as [[[i dyn] payload]|]; [|constructor].
    destruct (nth_error asts i) as [a|]; [|constructor].
    destruct (eval_src mt dyn a) as [s|] eqn:E; [|constructor].
    constructor; [|constructor].
    assert (F : Forall (tok_within (sstart sp) (send sp)) mt).
    { pose proof (chunk_within pkind ts sp Hw Ho) as F. rewrite Forall_forall in *. intros x Hx. apply F, Hi, Hx. }
    exact (eval_src_within pkind _ _ mt dyn a s F E).
  Qed.

  Theorem pattern_prule_within p asts sel t src (ts : list (Cache.tok pkind)) sp :
    toks_wf pkind ts -> hull_of ts = Ok (Some sp) ->
    Forall (lint_within sp) (pattern_prule leaf oracle p asts sel t src ts).
  Proof.
    intros Hw Ho. unfold pattern_prule.
    destruct (run_on_chunk leaf oracle p (map to_tok ts) src) as [ranges|]; [|constructor].
    apply Forall_flat_map_intro. intros ab _. apply (body_lint_within asts sel t src ts); try assumption.
    intros x Hx. unfold slice in Hx. eapply In_firstn_skipn, Hx.
  Qed.
End Rule.

(* a rule of the table: run_on_chunk with ANY pattern, and a body whose Lint constructions have the spans the table
   records for some `impl PatternLinter for` whose sources are all rooted in the matched tokens *)
Definition table_rule (r : prule pkind) : Prop :=
  exists row leaf oracle p sel,
    In row pattern_rule_bodies /\ row_lints_matched row = true /\
    r = pattern_prule leaf oracle p (row_lint_asts row) sel.

Theorem table_pattern_rules_ok (plinters : list (N * prule pkind)) :
  (forall n r, In (n, r) plinters -> table_rule r) -> prules_ok pkind plinters.
Proof.
  intros H n r t src ts sp Hin Hw Ho _.
  destruct (H n r Hin) as (row & leaf & oracle & p & sel & _ & _ & ->).
  now apply pattern_prule_within.
Qed.

(* ---------- what the table says today (re-checked on every run) ---------- *)
Definition name_is_row (n : string) : bool := existsb (fun r => String.eqb (p_name r) n) pattern_rule_bodies.
(* the rows whose Lint sources are NOT all rooted in the matched tokens / whose reads are not: none *)
Definition rows_not_matched : list string := map p_name (filter (fun r => negb (row_lints_matched r)) pattern_rule_bodies).
Definition rows_reads_not_matched : list string := map p_name (filter (fun r => negb (row_reads_matched r)) pattern_rule_bodies).

Lemma table_all_rooted_in_matched_tokens :
  rows_not_matched = [] /\ rows_reads_not_matched = [] /\
  pattern_files_lints_outside = [] /\
  forallb name_is_row curated_pattern_rules = true /\
  forallb (fun fr => name_is_row (snd fr)) other_pattern_registrations = true /\
  20 <= List.length curated_pattern_rules /\ 30 <= List.length pattern_rule_bodies.
Proof. repeat split; vm_compute; try reflexivity; repeat constructor. Qed.

(* census of the Suggestion payloads built in pattern rule bodies: none reads a span that is not an expression over the
   matched tokens; the rules that read matched tokens beyond the lint's own span are listed (computed, not pinned) *)
Definition payload_other (e : string * string * payload_src) : bool := match snd e with POther => true | _ => false end.
Definition payloads_beyond_lint_span : list string :=
  map (fun e => fst (fst e)) (filter (fun e => match snd e with PMatched => true | _ => false end) pattern_suggestion_payloads).
Lemma pattern_suggestion_payloads_known :
  filter payload_other pattern_suggestion_payloads = [] /\ 30 <= List.length pattern_suggestion_payloads.
Proof. split; vm_compute; [reflexivity|repeat constructor]. Qed.

Lemma table_rows_matched row : In row pattern_rule_bodies -> row_lints_matched row = true.
Proof.
  intros Hin. destruct (row_lints_matched row) eqn:E; [reflexivity|exfalso].
  assert (Hf : In (p_name row) rows_not_matched).
  { unfold rows_not_matched. apply in_map. apply filter_In. split; [exact Hin|]. now rewrite E. }
  destruct table_all_rooted_in_matched_tokens as [R _]. rewrite R in Hf. exact Hf.
Qed.

(* LintGroup::lint with pattern rules of the table: the theorem over histories needs a premise on the WHOLE-DOCUMENT
   rules only *)
Theorem table_lintgroup_history_in_bounds
    (cfg : Type) (enabled : cfg -> N -> bool) (cfg_hash : cfg -> N) (tok_hash : list (Cache.tok pkind) -> N)
    (linters : list (N * wrule pkind)) (plinters : list (N * prule pkind)) :
  wrules_ok pkind linters ->
  (forall n r, In (n, r) plinters -> table_rule r) ->
  forall h st, hist_ok cfg pkind h -> cache_ok (lg_cache st) ->
    exists st' outs, lg_run cfg pkind enabled cfg_hash tok_hash linters plinters h st = Ok (st', outs) /\
                     cache_ok (lg_cache st') /\ map fst outs = hist_docs cfg pkind h /\ outs_in pkind outs.
Proof.
  intros HW HT. apply lg_history_in_bounds; [exact HW|]. now apply table_pattern_rules_ok.
Qed.

(* ---------- non-vacuity: the row of Hereby (`matched_tokens[0..3].span()?`) as a rule of a LintGroup ---------- *)
Definition exr_row : prow := nth 10 pattern_rule_bodies (mkprow ""%string ""%string []).
Definition exr_sel : body_sel := fun _ _ _ => Some (0, fun _ => 0, 5%N).
Definition exr_rule : prule pkind :=
  pattern_prule (fun _ _ _ => Ok true) (fun _ _ _ => Ok true) (PSeq [PAny; PAny; PAny]) (row_lint_asts exr_row) exr_sel.
(* "ab cd ef." at 2..11 of a document: word space word space word punct *)
Definition exr_chunk : list (Cache.tok pkind) :=
  [((0, 1%N, 0), mkspan 2 4); ((1, 2%N, 1), mkspan 4 5); ((0, 1%N, 2), mkspan 5 7);
   ((1, 2%N, 3), mkspan 7 8); ((0, 1%N, 4), mkspan 8 10); ((2, 4%N, 5), mkspan 10 11)].
Example table_rule_example :
  p_name exr_row = "Hereby"%string /\ row_lint_asts exr_row = [AHull (Some (IConst 0)) (HExcl (IConst 3))] /\
  table_rule exr_rule /\
  hull_of exr_chunk = Ok (Some (mkspan 2 11)) /\
  exr_rule 0 [] exr_chunk = [mkclint (mkspan 2 7) 5%N; mkclint (mkspan 7 11) 5%N] /\
  eval_src exr_chunk (fun _ => 0) (ATok (ILenMinus 3)) = Some (mkspan 7 8) /\
  eval_src exr_chunk (fun j => 4 + j) (AHull (Some (IDyn 0)) (HIncl (IDyn 1))) = Some (mkspan 8 11) /\
  eval_src exr_chunk (fun _ => 6) (ATok (IDyn 0)) = None /\
  eval_src (firstn 2 exr_chunk) (fun _ => 0) (AHull (Some (IConst 0)) (HExcl (IConst 3))) = None.
Proof.
  split; [vm_compute; reflexivity|]. split; [vm_compute; reflexivity|].
  split.
  { exists exr_row, (fun _ _ _ => Ok true), (fun _ _ _ => Ok true), (PSeq [PAny; PAny; PAny]), exr_sel.
    split; [|split; [vm_compute; reflexivity|reflexivity]].
    unfold exr_row. apply nth_In. vm_compute. repeat constructor. }
  repeat split; vm_compute; reflexivity.
Qed.
