(* C15SuggestProofs.v — suggest_correct_spelling / order_suggestions (harper-core/src/spell/mod.rs):
   the suggestions are exactly the words of the dictionary's fuzzy result (nothing added, nothing
   dropped), in the UNIQUE stable arrangement by score; for a MutableDictionary and for an
   FstDictionary built from one the whole answer is a function of the SET of entries. *)
Require Import Base EditDistance DictModel Fuzzy C15Suggest EditDistanceProofs DictProofs FuzzyProofs ListLemmas.
From Coq Require Import ZArith Lia Permutation Sorting.Sorted.

(* ------------------------------------------------------------------------------------------ *)
(** * the stable sort by an integer key: Vec::sort_by_key *)
Section StableSort.
  Context {A : Type} (key : A -> Z).
  Definition zkey_le (a b : A) : Prop := (key a <= key b)%Z.
  Definition zle (a b : A) : bool := (key a <=? key b)%Z.
  Definition has_key (z : Z) (a : A) : bool := (key a =? z)%Z.

  (* s is a stable sort of l: same elements, ascending keys, and the elements of each key in their
     original relative order *)
  Definition stable_sort_of (l s : list A) : Prop :=
    Permutation s l /\ StronglySorted zkey_le s /\ forall z, filter (has_key z) s = filter (has_key z) l.

  Lemma zle_total a b : zle a b = true \/ zle b a = true.
  Proof. unfold zle. destruct (Z.leb_spec (key a) (key b)); [now left|right; apply Z.leb_le; lia]. Qed.
  Lemma zle_trans a b c : zle a b = true -> zle b c = true -> zle a c = true.
  Proof. unfold zle. rewrite !Z.leb_le. lia. Qed.

  Lemma isort_zsorted l : StronglySorted zkey_le (isort zle l).
  Proof.
    eapply sorted_impl; [|apply (isort_sorted_gen zle zle_total zle_trans)].
    intros a b H. unfold zkey_le, zle in *. now apply Z.leb_le.
  Qed.

  Lemma filter_insert_by z x l :
    filter (has_key z) (insert_by zle x l) = filter (has_key z) (x :: l).
  Proof.
    induction l as [|y ys IH]; cbn [insert_by]; [reflexivity|].
    destruct (zle x y) eqn:E; [reflexivity|].
    cbn [filter] in *. unfold zle in E. apply Z.leb_gt in E.
    destruct (has_key z y) eqn:Hy; destruct (has_key z x) eqn:Hx; rewrite IH; try reflexivity.
    unfold has_key in *. apply Z.eqb_eq in Hx, Hy. lia.
  Qed.

  Lemma filter_isort z l : filter (has_key z) (isort zle l) = filter (has_key z) l.
  Proof.
    induction l as [|x xs IH]; cbn [isort]; [reflexivity|].
    rewrite filter_insert_by. cbn [filter]. now rewrite IH.
  Qed.

  (* the model's sort is a stable sort ... *)
  Lemma isort_stable l : stable_sort_of l (isort zle l).
  Proof. repeat split; [apply isort_perm|apply isort_zsorted|intros z; apply filter_isort]. Qed.

  (* ... and a stable sort has exactly one outcome, whatever the algorithm *)
  Lemma stable_sorted_eq : forall s t, StronglySorted zkey_le s -> StronglySorted zkey_le t ->
    Permutation s t -> (forall z, filter (has_key z) s = filter (has_key z) t) -> s = t.
  Proof.
    induction s as [|a s IH]; intros t Ss St P F.
    - apply Permutation_nil in P. now subst.
    - destruct t as [|b t]; [apply Permutation_sym, Permutation_nil in P; discriminate|].
      inversion Ss as [|? ? Ss' Fa]; subst. inversion St as [|? ? St' Fb]; subst.
      rewrite Forall_forall in Fa, Fb.
      assert (Ek : key a = key b).
      { assert (Ha : In a (b :: t)) by (eapply Permutation_in; [exact P|now left]).
        assert (Hb : In b (a :: s)) by (eapply Permutation_in; [apply Permutation_sym; exact P|now left]).
        destruct Ha as [->|Ha]; [reflexivity|]. destruct Hb as [->|Hb]; [reflexivity|].
        specialize (Fa _ Hb). specialize (Fb _ Ha). unfold zkey_le in *. lia. }
      assert (a = b) as ->.
      { specialize (F (key a)). cbn [filter] in F.
        assert (Ha : has_key (key a) a = true) by (unfold has_key; apply Z.eqb_refl).
        assert (Hb : has_key (key a) b = true) by (unfold has_key; rewrite Ek; apply Z.eqb_refl).
        rewrite Ha, Hb in F. now injection F. }
      f_equal. apply IH; [exact Ss'|exact St'|eapply Permutation_cons_inv; exact P|].
      intros z. specialize (F z). cbn [filter] in F. destruct (has_key z b); [now injection F|exact F].
  Qed.

  Theorem stable_sort_unique l s : stable_sort_of l s -> s = isort zle l.
  Proof.
    intros (P & S & F). destruct (isort_stable l) as (P' & S' & F').
    apply stable_sorted_eq; [exact S|exact S'|now rewrite P, P'|].
    intros z. now rewrite F, F'.
  Qed.
End StableSort.

(* ------------------------------------------------------------------------------------------ *)
(** * order_suggestions / suggest_correct_spelling over any dictionary *)
Section Suggest.
  Variable is_common : meta -> bool.
  Notation score := (score_suggestion is_common).
  Notation order_suggestions := (order_suggestions is_common).
  Notation suggest := (suggest is_common).

  Lemma score_le_zle mw : score_le is_common mw = zle (score mw).
  Proof. reflexivity. Qed.

  (* no i32 operation of score_suggestion can overflow: the distance is a u8 *)
  Lemma score_range mw x : r_dist x <= 255 ->
    score mw x = i32_max \/ (-25 <= score mw x <= 2550)%Z.
  Proof.
    intros H. unfold score_suggestion. destruct mw as [|m0 mw']; [now left|].
    destruct (r_word x) as [|s0 w']; [now left|]. right. cbv zeta.
    repeat match goal with |- context [if ?c then _ else _] => destruct c end; lia.
  Qed.

  (* the suggestions are the words of the fuzzy matches — every one of them, each as often as it was
     matched — arranged by THE stable sort on the score *)
  Theorem order_suggestions_spec mw matches :
    exists s, order_suggestions mw matches = map r_word s /\
      stable_sort_of (score mw) matches s /\
      (forall s', stable_sort_of (score mw) matches s' -> s' = s) /\
      Permutation (order_suggestions mw matches) (map r_word matches) /\
      length (order_suggestions mw matches) = length matches.
  Proof.
    exists (isort (zle (score mw)) matches). unfold C15Suggest.order_suggestions. rewrite score_le_zle.
    split; [reflexivity|]. split; [apply isort_stable|]. split; [intros s'; apply stable_sort_unique|].
    split; [apply Permutation_map, isort_perm|].
    rewrite map_length. apply Permutation_length, isort_perm.
  Qed.

  (* suggest_correct_spelling = the dictionary's fuzzy_match (ONE call, with the caller's bound and cap),
     re-ordered: it panics exactly when the fuzzy search does *)
  Theorem suggest_spec (c : dict_ops) mw lq limit dist :
    (forall r, d_fuzzy c mw lq dist limit = Ok r -> suggest c mw lq limit dist = Ok (order_suggestions mw r)) /\
    (forall p, d_fuzzy c mw lq dist limit = Panic p -> suggest c mw lq limit dist = Panic p).
  Proof. unfold C15Suggest.suggest. split; intros ? E; rewrite E; reflexivity. Qed.

  Lemma suggest_in (c : dict_ops) mw lq limit dist r sug w :
    d_fuzzy c mw lq dist limit = Ok r -> suggest c mw lq limit dist = Ok sug ->
    (In w sug <-> exists x, In x r /\ r_word x = w).
  Proof.
    intros E S. rewrite (proj1 (suggest_spec c mw lq limit dist) r E) in S. injection S as <-.
    destruct (order_suggestions_spec mw r) as (_ & _ & _ & _ & P & _).
    split; intros H.
    - apply (Permutation_in _ P) in H. apply in_map_iff in H as (x & Ex & Hx). eauto.
    - destruct H as (x & Hx & Ex). apply (Permutation_in _ (Permutation_sym P)).
      apply in_map_iff. eauto.
  Qed.

  (* ---------- MutableDictionary ---------- *)
  Variable is_lower : char -> bool.
  Variable lower : char -> list char.
  Notation word_id := (word_id is_lower lower).
  Notation to_lower := (to_lower is_lower lower).
  Notation wm_wf := (wm_wf is_lower lower).

  (* never panics; every suggestion is a non-empty dictionary word within the bound of the normalised
     query or of its lower-case form (true Levenshtein distance, for bounds <= 254: F19b); no word
     twice; at most `limit` suggestions *)
  Theorem suggest_mutable dbg m mw lq limit dist :
    wm_wf m ->
    let qn := normalized mw in
    let ql := to_lower qn in
    exists r sug,
      mut_fuzzy is_lower lower dbg m mw dist limit = Ok r /\
      suggest (mut_ops is_lower lower dbg m) mw lq limit dist = Ok sug /\
      Permutation sug (map r_word r) /\ length sug <= limit /\ NoDup sug /\
      forall w, In w sug ->
        (exists e, In (word_id w, e) m /\ e_canon e = w) /\ w <> [] /\
        (dist <= 254 -> lev qn w <= dist \/ lev ql w <= dist).
  Proof.
    intros Hwf qn ql.
    destruct (mut_fuzzy_total is_lower lower dbg m mw dist limit Hwf) as (r & E & O).
    destruct (mut_fuzzy_sound is_lower lower m mw dist limit r Hwf O) as (Hx & _ & _ & Hlen & ND & _).
    exists r, (order_suggestions mw r).
    destruct (order_suggestions_spec mw r) as (_ & _ & _ & _ & P & L).
    split; [exact E|]. split; [now apply (proj1 (suggest_spec _ mw lq limit dist))|].
    split; [exact P|]. split; [lia|]. split; [eapply Permutation_NoDup; [apply Permutation_sym; exact P|exact ND]|].
    intros w Hw. apply (Permutation_in _ P) in Hw. apply in_map_iff in Hw as (x & <- & Hin).
    destruct (Hx x Hin) as ((e & He & Hc & _) & _ & Hle & Hex & Hne).
    split; [exists e; now split|]. split; [exact Hne|].
    intros H254. specialize (Hex H254). fold qn ql in Hex. unfold min_dist in Hex. lia.
  Qed.

  (* the suggestions (words AND order) are a function of the SET of entries: neither the iteration order of
     the hash map, nor the build mode, nor the (unused) lower-case string matters *)
  Theorem suggest_mutable_deterministic dbg dbg' m m' mw lq lq' limit dist :
    wm_wf m -> Permutation m m' ->
    suggest (mut_ops is_lower lower dbg m) mw lq limit dist
    = suggest (mut_ops is_lower lower dbg' m') mw lq' limit dist.
  Proof.
    intros Hwf P. unfold C15Suggest.suggest, mut_ops. cbn [d_fuzzy].
    now rewrite (mut_fuzzy_deterministic is_lower lower dbg dbg' m m' mw dist limit Hwf P).
  Qed.

  (* ---------- FstDictionary ---------- *)
  (* FstDictionary::from(MutableDictionary) does not depend on the iteration order of the hash map it is
     built from: the sort by spelling has one outcome because the spellings of a word map are distinct *)
  Lemma sorted_strengthen {B C} (R : B -> B -> Prop) (g : B -> C) l :
    StronglySorted R l -> NoDup (map g l) ->
    StronglySorted (fun a b => R a b /\ (g a = g b -> a = b)) l.
  Proof.
    induction 1 as [|a l _ IH Ha]; intros ND; [constructor|]. cbn [map] in ND.
    inversion ND as [|? ? Hn ND']; subst. constructor; [now apply IH|].
    rewrite Forall_forall in *. intros b Hb. split; [now apply Ha|].
    intros E. exfalso. apply Hn. rewrite E. now apply in_map.
  Qed.

  Lemma wsort_perm_eq (l l' : list (text * meta)) :
    NoDup (map fst l) -> Permutation l l' -> wsort l = wsort l'.
  Proof.
    intros ND P. unfold wsort.
    set (le := fun x y : text * meta => text_leb (fst x) (fst y)).
    assert (T : forall a b, le a b = true \/ le b a = true) by (intros; apply text_leb_total).
    assert (Tr : forall a b c, le a b = true -> le b c = true -> le a c = true)
      by (intros a b c; apply text_leb_trans).
    apply (sorted_perm_eq (fun a b => le a b = true /\ (fst a = fst b -> a = b))).
    - intros a b [H1 H1'] [H2 _]. apply H1'. now apply text_leb_antisym.
    - apply sorted_strengthen; [apply (isort_sorted_gen le T Tr)|].
      eapply Permutation_NoDup; [apply Permutation_map, Permutation_sym, isort_perm|exact ND].
    - apply sorted_strengthen; [apply (isort_sorted_gen le T Tr)|].
      eapply Permutation_NoDup; [apply Permutation_map; etransitivity; [exact P|apply Permutation_sym, isort_perm]|exact ND].
    - rewrite !isort_perm. exact P.
  Qed.

  Theorem fst_of_mutable_perm m m' :
    wm_wf m -> Permutation m m' ->
    fst_of_mutable is_lower lower m = fst_of_mutable is_lower lower m'.
  Proof.
    intros Hwf P. unfold fst_of_mutable, fst_new.
    rewrite (wsort_perm_eq _ (map (fun kv => (e_canon (snd kv), e_meta (snd kv))) m')); [reflexivity| |now apply Permutation_map].
    pose proof (entries_of_nodup is_lower lower m Hwf) as ND. unfold entries_of in ND.
    destruct Hwf as [NDk K]. apply (NoDup_map_inv word_id). rewrite !map_map. cbn [fst].
    erewrite map_ext_in; [exact NDk|]. intros [k e] Hin. cbn [fst snd]. symmetry. now apply K.
  Qed.

  (* under the stream contract: no panic, every suggestion is a word of the FST's list within the bound of
     the normalised query or of String::to_lowercase of it, no word twice, at most `limit` *)
  Theorem suggest_fst stream (f : fst_dict) mw lq limit dist :
    (forall x, stream (f_words f) x dist = spec_stream lev (f_words f) x dist) ->
    exists r sug,
      fst_fuzzy stream f mw lq dist limit = Ok r /\
      suggest (fst_ops is_lower lower stream f) mw lq limit dist = Ok sug /\
      Permutation sug (map r_word r) /\ length sug <= limit /\ NoDup sug /\
      forall w, In w sug ->
        In w (map fst (f_words f)) /\ (lev (normalized mw) w <= dist \/ lev lq w <= dist).
  Proof.
    intros Hc.
    destruct (fst_fuzzy_total stream f dist Hc mw lq limit) as (r & E & O).
    destruct (fst_fuzzy_sound stream f dist Hc mw lq limit r O) as (Hx & _ & Hlen & ND).
    exists r, (order_suggestions mw r).
    destruct (order_suggestions_spec mw r) as (_ & _ & _ & _ & P & L).
    split; [exact E|]. split; [now apply (proj1 (suggest_spec _ mw lq limit dist))|].
    split; [exact P|]. split; [lia|]. split; [eapply Permutation_NoDup; [apply Permutation_sym; exact P|exact ND]|].
    intros w Hw. apply (Permutation_in _ P) in Hw. apply in_map_iff in Hw as (x & <- & Hin).
    destruct (Hx x Hin) as (Hw & Hd & Hle). split.
    - apply in_map_iff. exists (r_word x, r_meta x). now split.
    - destruct Hd as [Hd|Hd]; rewrite Hd in Hle; [now left|now right].
  Qed.

  (* hence the suggestions of an FstDictionary built from a MutableDictionary do not depend on the hash order
     of that dictionary either (the model's sorts are functions of their input, like Rust's) *)
  Theorem suggest_fst_deterministic stream m m' mw lq limit dist :
    wm_wf m -> Permutation m m' ->
    suggest (fst_ops is_lower lower stream (fst_of_mutable is_lower lower m)) mw lq limit dist
    = suggest (fst_ops is_lower lower stream (fst_of_mutable is_lower lower m')) mw lq limit dist.
  Proof. intros Hwf P. now rewrite (fst_of_mutable_perm m m' Hwf P). Qed.

  Theorem fst_of_mutable_deterministic stream m m' mw lq limit dist :
    wm_wf m -> Permutation m m' ->
    fst_of_mutable is_lower lower m = fst_of_mutable is_lower lower m' /\
    suggest (fst_ops is_lower lower stream (fst_of_mutable is_lower lower m)) mw lq limit dist
    = suggest (fst_ops is_lower lower stream (fst_of_mutable is_lower lower m')) mw lq limit dist.
  Proof. intros Hwf P. split; [now apply fst_of_mutable_perm|now apply suggest_fst_deterministic]. Qed.
End Suggest.

(* ------------------------------------------------------------------------------------------ *)
(** * witnesses *)
Definition odd_common (md : meta) : bool := Nat.odd md.

(* "ths" against {this (common), the (common), thus, "th's", tis}: the four heuristics and the stable
   tie ("this"/"thus": both score 0 ... see the Example in Properties/C15.v) *)
Definition w_ths : text := [116; 104; 115]%N.
Definition w_this : text := [116; 104; 105; 115]%N.
Definition w_thus : text := [116; 104; 117; 115]%N.
Definition w_the : text := [116; 104; 101]%N.
Definition w_th's : text := [116; 104; 39; 115]%N.
Definition w_tis : text := [116; 105; 115]%N.
Definition w_as : text := [97; 115]%N.

Lemma suggest_example :
  let m := mut_extend ascii_is_lower ascii_lower []
             [(w_this, 1); (w_thus, 2); (w_the, 1); (w_th's, 2); (w_tis, 2); (w_as, 2)] in
  mut_fuzzy ascii_is_lower ascii_lower true m w_ths 1 10
    = Ok [mkfres w_th's 1 2; mkfres w_the 1 1; mkfres w_this 1 1; mkfres w_thus 1 2; mkfres w_tis 1 2] /\
  map (score_suggestion odd_common w_ths)
      [mkfres w_th's 1 2; mkfres w_the 1 1; mkfres w_this 1 1; mkfres w_thus 1 2; mkfres w_tis 1 2]
    = [-10; -5; -10; -5; -5]%Z /\
  suggest odd_common (mut_ops ascii_is_lower ascii_lower true m) w_ths w_ths 10 1
    = Ok [w_th's; w_this; w_the; w_thus; w_tis] /\
  suggest odd_common (mut_ops ascii_is_lower ascii_lower true m) w_ths w_ths 2 1 = Ok [w_th's; w_the] /\
  score_suggestion odd_common [] (mkfres w_the 1 1) = i32_max /\
  score_suggestion odd_common w_ths (mkfres [] 3 1) = i32_max.
Proof. cbv zeta. repeat split; vm_compute; reflexivity. Qed.
