(* C07LangProofs.v — the server with per-document dictionaries AND a stored language per document (Model/C07Lang.v) answers
   like the reference that keeps nothing but the language each open document was first opened with: for EVERY history,
   including didOpen of an open document with another language id, didChange / hidden updates of documents that are not
   open, languages without a parser, didClose.  This replaces the hypothesis "the language of a url is fixed" (well_kinded)
   of C07_ident_check by a theorem; what is left is `lop_ok`: whether a language has identifiers is a function of the
   language id. *)
Require Import Base DictIO DictIOProofs C07Ident C07IdentProofs C07Lang.
From Coq Require Import Permutation.

Lemma url_eqb_refl : forall u, url_eqb u u = true.
Proof. intros [p|p]; cbn [url_eqb]; apply weqb_refl. Qed.
Lemma url_eqb_false_sym : forall a b, url_eqb a b = false -> url_eqb b a = false.
Proof.
  intros a b H. destruct (url_eqb b a) eqn:E; [|reflexivity]. apply url_eqb_eq in E. subst b. now rewrite url_eqb_refl in H.
Qed.

Lemma aget_adel : forall (A : Type) u u' (m : list (url * A)),
  aget u' (adel u m) = if url_eqb u' u then None else aget u' m.
Proof.
  intros A u u' m. unfold adel. induction m as [|[k v] r IH]; cbn [filter aget fst].
  - now destruct (url_eqb u' u).
  - destruct (url_eqb u k) eqn:E; cbn [negb].
    + apply url_eqb_eq in E. subst k. rewrite IH. destruct (url_eqb u' u); reflexivity.
    + cbn [aget]. rewrite IH. destruct (url_eqb u' u) eqn:E2; [|reflexivity].
      apply url_eqb_eq in E2. subst u'. now rewrite E.
Qed.
Lemma aget_aset : forall (A : Type) u u' (v : A) (m : list (url * A)),
  aget u' (aset u v m) = if url_eqb u' u then Some v else aget u' m.
Proof.
  intros A u u' v m. unfold aset. cbn [aget]. destruct (url_eqb u' u) eqn:E; [reflexivity|]. now rewrite aget_adel, E.
Qed.
Lemma aget_none_notin : forall (A : Type) u (m : list (url * A)) e, aget u m = None -> In e m -> url_eqb u (fst e) = false.
Proof.
  intros A u m e. induction m as [|[k v] r IH]; intros H Hin; [contradiction|]. cbn [aget] in H.
  destruct (url_eqb u k) eqn:E; [discriminate|]. destruct Hin as [Hin|Hin]; [subst e; exact E|now apply IH].
Qed.
Lemma icache_get_aget : forall u c, icache_get u c = aget u c.
Proof. intros u c. induction c as [|[k v] r IH]; [reflexivity|]. cbn [icache_get aget]. now rewrite IH. Qed.
Lemma icache_set_aset : forall u d c, icache_set u d c = aset u d c.
Proof. reflexivity. Qed.

Section LangProofs.
  Variable is_lower : N -> bool.
  Variable lower : N -> list N.
  Variable curated : dict.
  Variable iter_order : list word -> list word.
  Hypothesis iter_perm : forall l, Permutation (iter_order l) l.
  Variable src_lang : lang -> bool.

  Notation icache_ok := (icache_ok is_lower lower curated).
  Notation istep := (istep is_lower lower curated iter_order).
  Notation iref_step := (iref_step is_lower lower curated iter_order).
  Notation lupdate := (lupdate is_lower lower curated iter_order).
  Notation lref_update := (lref_update is_lower lower curated).
  Notation lstep := (lstep is_lower lower curated iter_order).
  Notation lref_step := (lref_step is_lower lower curated iter_order).
  Notation lrun := (lrun is_lower lower curated iter_order).
  Notation lref := (lref is_lower lower curated iter_order).
  Notation children := (children is_lower lower curated).
  Notation flags := (flags is_lower lower).
  Notation ident_dict := (ident_dict is_lower lower).
  Notation run_fs := (run_fs is_lower lower curated iter_order).
  Notation step_op := (step_op is_lower lower curated iter_order).

  Definition is_src_of (m : lmap) (u : url) : bool :=
    match aget u m with Some l => src_lang l | None => false end.
  (* the invariant: the C07Ident invariant for "source = the stored language has identifiers", and only documents
     with a stored language have a dictionary state *)
  Definition linv (c : icache) (m : lmap) : Prop :=
    icache_ok (is_src_of m) c /\ forall u, aget u m = None -> aget u c = None.

  Lemma icache_ok_ext : forall is1 is2 c, icache_ok is1 c -> (forall e, In e c -> is2 (fst e) = is1 (fst e)) -> icache_ok is2 c.
  Proof.
    intros is1 is2 c H Hext. unfold C07IdentProofs.icache_ok in *. apply Forall_forall. intros e He.
    destruct (proj1 (Forall_forall _ _) H e He) as [H1 H2]. split; [exact H1|]. rewrite (Hext e He). exact H2.
  Qed.
  Lemma icache_ok_adel : forall is1 u c, icache_ok is1 c -> icache_ok is1 (adel u c).
  Proof.
    intros is1 u c H. unfold C07IdentProofs.icache_ok, adel in *. apply Forall_forall. intros e He.
    apply filter_In in He. destruct He as [He _]. exact (proj1 (Forall_forall _ _) H e He).
  Qed.
  Lemma linv_nil : linv [] [].
  Proof. split; [constructor|reflexivity]. Qed.
  Lemma linv_del : forall c m u, linv c m -> linv (adel u c) (adel u m).
  Proof.
    intros c m u [H1 H2]. split.
    - apply (icache_ok_ext (is_src_of m)); [now apply icache_ok_adel|].
      intros e He. unfold adel in He. apply filter_In in He. destruct He as [_ He]. apply negb_true_iff in He.
      unfold is_src_of. rewrite aget_adel. now rewrite (url_eqb_false_sym _ _ He).
    - intros u'. rewrite !aget_adel. destruct (url_eqb u' u); [reflexivity|apply H2].
  Qed.
  (* storing for u the language it already has, or a language for a url without state *)
  Lemma linv_set_ok : forall c m u l decl, linv c m -> eff_lang m u decl = Some l -> icache_ok (is_src_of (aset u l m)) c.
  Proof.
    intros c m u l decl [H1 H2] E. apply (icache_ok_ext (is_src_of m)); [exact H1|].
    intros e He. unfold is_src_of. rewrite aget_aset. destruct (url_eqb (fst e) u) eqn:X; [|reflexivity].
    apply url_eqb_eq in X. unfold eff_lang in E. destruct (aget u m) as [l0|] eqn:G.
    - inversion E; subst l0. now rewrite X, G.
    - pose proof (aget_none_notin _ u c e (H2 u G) He) as Y. rewrite X, url_eqb_refl in Y. discriminate.
  Qed.
  Lemma linv_after_set : forall c m u l d, icache_ok (is_src_of (aset u l m)) (icache_set u d c) ->
    (forall u', aget u' m = None -> aget u' c = None) -> linv (icache_set u d c) (aset u l m).
  Proof.
    intros c m u l d H1 H2. split; [exact H1|]. intros u'. rewrite icache_set_aset, !aget_aset.
    destruct (url_eqb u' u); [discriminate|apply H2].
  Qed.

  Lemma lupdate_spec : forall s c m u decl a, linv c m -> alts_ok src_lang a ->
    exists c', linv c' (fst (lref_update s m u decl a)) /\
      lupdate (s, c, m) u decl a = ((s, c', fst (lref_update s m u decl a)), snd (lref_update s m u decl a)).
  Proof.
    intros s c m u decl a Hinv Ha. unfold C07Lang.lupdate, C07Lang.lref_update.
    destruct (eff_lang m u decl) as [l|] eqn:E; [|exists (adel u c); split; [now apply linv_del|reflexivity]].
    pose proof (Ha l) as Hl. destruct (alt_of a l) as [toks|ids toks|] eqn:A; cbn [fst snd].
    - pose proof (linv_set_ok c m u l decl Hinv E) as Hok.
      assert (Hk : well_kinded (is_src_of (aset u l m)) (IBase (LintDoc u toks))).
      { cbn [well_kinded]. unfold is_src_of. now rewrite aget_aset, url_eqb_refl. }
      destruct (istep_spec is_lower lower curated iter_order iter_perm _ s c _ Hok Hk) as [c' [Hc' Hs]].
      assert (Ec : c' = icache_set u (update_doc is_lower lower curated iter_order c s u None) c).
      { cbn [C07Ident.istep C07Ident.iref_step] in Hs. now inversion Hs. }
      rewrite Hs. cbn [C07Ident.iref_step DictIO.step_op fst snd]. exists c'. split; [|reflexivity].
      subst c'. apply linv_after_set; [exact Hc'|apply Hinv].
    - pose proof (linv_set_ok c m u l decl Hinv E) as Hok.
      assert (Hk : well_kinded (is_src_of (aset u l m)) (LintSrc u ids toks)).
      { cbn [well_kinded]. unfold is_src_of. now rewrite aget_aset, url_eqb_refl. }
      destruct (istep_spec is_lower lower curated iter_order iter_perm _ s c _ Hok Hk) as [c' [Hc' Hs]].
      assert (Ec : c' = icache_set u (update_doc is_lower lower curated iter_order c s u (Some (ident_dict ids))) c).
      { cbn [C07Ident.istep C07Ident.iref_step] in Hs. now inversion Hs. }
      rewrite Hs. cbn [C07Ident.iref_step fst snd]. exists c'. split; [|reflexivity].
      subst c'. apply linv_after_set; [exact Hc'|apply Hinv].
    - exists (adel u c). split; [now apply linv_del|reflexivity].
  Qed.

  Lemma lstep_spec : forall s c m o, linv c m -> lop_ok src_lang o ->
    exists c', linv c' (snd (fst (lref_step (s, m) o))) /\
      lstep (s, c, m) o = ((fst (fst (lref_step (s, m) o)), c', snd (fst (lref_step (s, m) o))), snd (lref_step (s, m) o)).
  Proof.
    intros s c m o Hinv Ho. destruct o as [sc w|sc w i| |u l a|u a|u a|u]; cbn [C07Lang.lstep C07Lang.lref_step lop_ok] in *.
    - exists c. split; [exact Hinv|reflexivity].
    - exists []. split; [apply linv_nil|reflexivity].
    - exists []. split; [apply linv_nil|reflexivity].
    - destruct (lupdate_spec s c m u (Some l) a Hinv Ho) as [c' [H1 H2]]. rewrite H2.
      destruct (lref_update s m u (Some l) a) as [m' out]. exists c'. now split.
    - destruct (lupdate_spec s c m u None a Hinv Ho) as [c' [H1 H2]]. rewrite H2.
      destruct (lref_update s m u None a) as [m' out]. exists c'. now split.
    - destruct (lupdate_spec s c m u None a Hinv Ho) as [c' [H1 H2]]. rewrite H2.
      destruct (lref_update s m u None a) as [m' out]. exists c'. now split.
    - exists (adel u c). split; [now apply linv_del|reflexivity].
  Qed.

  (* every output, the disk and the stored languages are those of the reference, from any state satisfying the invariant *)
  Theorem lang_transparent_inv : forall h s c m, linv c m -> Forall (lop_ok src_lang) h ->
    snd (lrun (s, c, m) h) = snd (lref (s, m) h) /\
    fst (fst (fst (lrun (s, c, m) h))) = fst (fst (lref (s, m) h)) /\
    snd (fst (lrun (s, c, m) h)) = snd (fst (lref (s, m) h)).
  Proof.
    induction h as [|o r IH]; intros s c m Hinv Hk; [repeat split|].
    inversion Hk as [|? ? Ho Hr]; subst. cbn [C07Lang.lrun C07Lang.lref].
    destruct (lstep_spec s c m o Hinv Ho) as [c' [Hc' Hs]]. rewrite Hs.
    destruct (lref_step (s, m) o) as [[s1 m1] out]. cbn [fst snd] in *.
    destruct (IH s1 c' m1 Hc' Hr) as [H1 [H2 H3]].
    destruct (lrun (s1, c', m1) r) as [st'' outs]. destruct (lref (s1, m1) r) as [st2 outs']. cbn [fst snd] in *.
    split; [now f_equal|split; assumption].
  Qed.
  Theorem lang_transparent : forall h s, Forall (lop_ok src_lang) h ->
    snd (lrun (s, [], []) h) = snd (lref (s, []) h) /\
    fst (fst (fst (lrun (s, [], []) h))) = fst (fst (lref (s, []) h)) /\
    snd (fst (lrun (s, [], []) h)) = snd (fst (lref (s, []) h)).
  Proof. intros h s Hk. now apply lang_transparent_inv; [apply linv_nil|]. Qed.

  (* the disk only sees the add commands: the theorems over DictIO.run (C07_add_sequential, ...) apply *)
  Fixpoint lbase (h : list lop) : list op :=
    match h with
    | [] => []
    | LAdd sc w :: r => AddWord sc w :: lbase r
    | LCrash sc w i :: r => CrashAdd sc w i :: lbase r
    | _ :: r => lbase r
    end.
  Lemma lref_fs : forall h st, fst (fst (lref st h)) = run_fs (fst st) (lbase h).
  Proof.
    induction h as [|o r IH]; intros [s m]; [reflexivity|]. cbn [C07Lang.lref].
    destruct (lref_step (s, m) o) as [[s1 m1] out] eqn:E. specialize (IH (s1, m1)).
    destruct (lref (s1, m1) r) as [st2 outs]. cbn [fst] in *. rewrite IH.
    destruct o as [sc w|sc w i| |u l a|u a|u a|u]; cbn [C07Lang.lref_step lbase] in E |- *.
    - rewrite run_fs_cons. now inversion E.
    - rewrite run_fs_cons. now inversion E.
    - now inversion E.
    - destruct (lref_update s m u (Some l) a). now inversion E.
    - destruct (lref_update s m u None a). now inversion E.
    - now inversion E.
    - now inversion E.
  Qed.
  Lemma lref_snoc : forall h st o, snd (lref st (h ++ [o])) = snd (lref st h) ++ [snd (lref_step (fst (lref st h)) o)].
  Proof.
    induction h as [|a r IH]; intros st o.
    - cbn [app C07Lang.lref fst snd]. destruct (lref_step st o). reflexivity.
    - cbn [app C07Lang.lref]. destruct (lref_step st a) as [st1 out]. specialize (IH st1 o).
      destruct (lref st1 (r ++ [o])) as [s2 outs]. destruct (lref st1 r) as [s3 outs3]. cbn [fst snd] in *. now rewrite IH.
  Qed.

  (* THE statement: after ANY history, a didOpen of u with language id l and a text that reads as `a` is answered with the
     dictionary files as they are now, in the language the document state of u already has (the one it was FIRST opened
     with since it was last created) — l only counts when u has no state *)
  Theorem lang_check : forall h s u l a,
    Forall (lop_ok src_lang) h -> alts_ok src_lang a ->
    let disk := run_fs s (lbase h) in
    let m := snd (fst (lref (s, []) h)) in
    snd (lrun (s, [], []) (h ++ [LOpen u l a])) =
    snd (lref (s, []) h) ++
    [match alt_of a (match aget u m with Some l0 => l0 | None => l end) with
     | APlain toks => flags (children disk u) toks
     | ASrc ids toks => flags (children disk u ++ [ident_dict ids]) toks
     | ANone => []
     end].
  Proof.
    intros h s u l a Hk Ha disk m.
    assert (Hk' : Forall (lop_ok src_lang) (h ++ [LOpen u l a])).
    { apply Forall_app. split; [exact Hk|]. constructor; [exact Ha|constructor]. }
    destruct (lang_transparent _ s Hk') as [H _]. rewrite H, lref_snoc. f_equal. f_equal.
    subst m. unfold disk. clear disk. replace (run_fs s (lbase h)) with (fst (fst (lref (s, []) h))) by apply (lref_fs h (s, [])).
    destruct (lref (s, []) h) as [[s1 m1] outs]. cbn [fst snd].
    cbn [C07Lang.lref_step]. unfold C07Lang.lref_update, eff_lang.
    destruct (aget u m1) as [l0|]; [destruct (alt_of a l0)|destruct (alt_of a l)]; reflexivity.
  Qed.

  (* a didOpen of a document that has a state is a didChange: the language id it carries is ignored *)
  Lemma lang_sticky : forall s m u l0 l1 a, aget u m = Some l0 ->
    lref_update s m u (Some l1) a = lref_update s m u None a /\
    fst (lref_update s m u (Some l1) a) = match alt_of a l0 with ANone => adel u m | _ => aset u l0 m end.
  Proof.
    intros s m u l0 l1 a H. unfold C07Lang.lref_update, eff_lang. rewrite H. split; [reflexivity|].
    destruct (alt_of a l0); reflexivity.
  Qed.
End LangProofs.

(* ---- a concrete history: /m.rs opened as rust (0), re-opened as plaintext (1): still read as rust; after didClose the
        plaintext reading is in force; a didChange of a document that is not open yields no document ---- *)
Definition l_rust : lang := 0.
Definition l_text : lang := 1.
Definition src_ex (l : lang) : bool := Nat.eqb l 0.
Definition a_ex : alts := [(l_rust, ASrc [w_foo_bar] [w_foo_bar; w_zorgle]); (l_text, APlain [w_foo_bar; w_zorgle; w_alpha])].
Definition h_lang : list lop :=
  [LOpen u_src l_rust a_ex; LOpen u_src l_text a_ex; LAdd SUser w_zorgle; LHidden u_src a_ex; LChange u_src a_ex;
   LClose u_src; LChange u_src a_ex; LOpen u_src l_text a_ex; LOpen u_src 7 a_ex; LRestart; LOpen u_src 7 a_ex; LOpen u_src l_rust a_ex].
Lemma lang_example :
  Forall (lop_ok src_ex) h_lang /\
  snd (lrun a_is_lower a_lower [] id_order (fs_empty, [], []) h_lang) =
    [[false; true]; [false; true]; []; []; [false; false]; []; []; [true; false; true]; [true; false; true]; []; []; [false; false]] /\
  snd (lref a_is_lower a_lower [] id_order (fs_empty, []) h_lang) =
    [[false; true]; [false; true]; []; []; [false; false]; []; []; [true; false; true]; [true; false; true]; []; []; [false; false]].
Proof.
  split.
  - assert (Ha : alts_ok src_ex a_ex).
    { intro l. destruct l as [|[|l]]; cbn; reflexivity. }
    unfold h_lang. repeat constructor; exact Ha.
  - vm_compute. split; reflexivity.
Qed.
