(* C06WordsProofs.v — when is a text exactly one Word token?  Characterisation over C02's lexer model
   (Lexer.v, Condense.v; both frozen):
     letters_one_word      a non-empty string of lingual characters           |
     apostrophe_one_word   letters, one apostrophe (' or ’), letters          |-> document_plain u w = Ok [Word [0,|w|)]
   covering lex_word, lex_plural_digit (`as`, `a's` are glued there), the contraction pass of Document::parse
   and every other sub-lexer / pass standing in the way.  The Unicode facts used are `letter_laws` (what
   CharExt::is_english_lingual excludes); the harness checks them over every scalar value in every run. *)
Require Import Base Overlap Tables_lexer Lexer Condense ListLemmas TokenInv CondPattern C06Words.
From Coq Require Import Lia.

Local Open Scope N_scope.
Definition letter_laws (u : uni) : Prop :=
  (forall c, u_lingual u c = true -> u_alphabetic u c = true) /\
  (forall c, u_lingual u c = true -> u_numeric u c = false) /\
  (forall c, u_lingual u c = true -> punct_from_char c = None) /\
  (forall c, u_lingual u c = true -> mem_n c quote_chars = false) /\
  (forall c, u_lingual u c = true -> c <> 9 /\ c <> 10 /\ c <> 32) /\
  (forall c, u_lingual u c = true -> is_ascii_digit c = false) /\
  (forall c, is_apostrophe_char c = true -> u_alphanumeric u c = false /\ u_lingual u c = false).
Local Close Scope N_scope.

(* ---------- list facts ---------- *)
Lemma position_none {A} (p : A -> bool) l : forallb (fun x => negb (p x)) l = true -> position p l = None.
Proof.
  induction l as [|x l IH]; cbn [forallb position]; [reflexivity|]. intros H. apply andb_true_iff in H as [H1 H2].
  apply negb_true_iff in H1. rewrite H1, (IH H2). reflexivity.
Qed.
Lemma rposition_none {A} (p : A -> bool) l : forallb (fun x => negb (p x)) l = true -> rposition p l = None.
Proof.
  induction l as [|x l IH]; cbn [forallb rposition]; [reflexivity|]. intros H. apply andb_true_iff in H as [H1 H2].
  apply negb_true_iff in H1. rewrite H1, (IH H2). reflexivity.
Qed.
Lemma forallb_firstn {A} (p : A -> bool) n l : forallb p l = true -> forallb p (firstn n l) = true.
Proof.
  revert l. induction n as [|n IH]; intros [|x l] H; cbn [firstn forallb] in *; try reflexivity.
  apply andb_true_iff in H as [H1 H2]. rewrite H1, (IH l H2). reflexivity.
Qed.
Lemma forallb_skipn {A} (p : A -> bool) n l : forallb p l = true -> forallb p (skipn n l) = true.
Proof.
  revert l. induction n as [|n IH]; intros [|x l] H; cbn [skipn forallb] in *; try reflexivity; try exact H.
  apply andb_true_iff in H as [H1 H2]. exact (IH l H2).
Qed.
Lemma existsb_none {A} (p : A -> bool) l : forallb (fun x => negb (p x)) l = true -> existsb p l = false.
Proof.
  induction l as [|x l IH]; cbn [forallb existsb]; [reflexivity|]. intros H. apply andb_true_iff in H as [H1 H2].
  apply negb_true_iff in H1. rewrite H1, (IH H2). reflexivity.
Qed.
Lemma count_while_all {A} (p : A -> bool) a : forallb p a = true -> count_while p a = length a.
Proof.
  induction a as [|x a IH]; cbn [forallb count_while length]; [reflexivity|]. intros H.
  apply andb_true_iff in H as [H1 H2]. rewrite H1, (IH H2). reflexivity.
Qed.
Lemma count_while_app_stop {A} (p : A -> bool) a x r :
  forallb p a = true -> p x = false -> count_while p (a ++ x :: r) = length a.
Proof.
  induction a as [|y a IH]; cbn [forallb app count_while length]; intros H Hx; [rewrite Hx; reflexivity|].
  apply andb_true_iff in H as [H1 H2]. rewrite H1, (IH H2 Hx). reflexivity.
Qed.

(* the three characters a URL, an e-mail address and a host name need: `:` `@` `.` *)
Definition safe (c : N) : bool := negb (ceq 58 c) && negb (ceq 64 c) && negb (mem_n c [46%N]).

Section Letters.
  Variable u : uni.
  Hypothesis laws : letter_laws u.

  Definition wordc (c : N) : bool := u_lingual u c || is_ascii_digit c.

  Lemma ling_neq c k : u_lingual u c = true -> punct_from_char k <> None -> ceq c k = false /\ ceq k c = false.
  Proof.
    destruct laws as (_ & _ & Lp & _). intros H Hk. unfold ceq.
    destruct (N.eqb_spec c k) as [->|Hn]; [rewrite (Lp k H) in Hk; contradiction|].
    split; [reflexivity|]. apply N.eqb_neq. congruence.
  Qed.
  Lemma ling_not_digit c : u_lingual u c = true -> is_ascii_digit c = false.
  Proof. destruct laws as (_ & _ & _ & _ & _ & Ld & _). exact (Ld c). Qed.
  Lemma ling_neq_digit c k : u_lingual u c = true -> is_ascii_digit k = true -> ceq c k = false.
  Proof.
    intros H Hk. unfold ceq. destruct (N.eqb_spec c k) as [->|Hn]; [|reflexivity].
    rewrite (ling_not_digit k H) in Hk. discriminate.
  Qed.
  Lemma ling_alnum c : u_lingual u c = true -> u_alphanumeric u c = true.
  Proof. destruct laws as (La & _). intros H. unfold u_alphanumeric. rewrite (La c H). reflexivity. Qed.
  Lemma ling_safe c : u_lingual u c = true -> safe c = true.
  Proof.
    intros H. unfold safe, mem_n. cbn [existsb].
    destruct (ling_neq c 58 H) as [_ ->]; [cbv; discriminate|].
    destruct (ling_neq c 64 H) as [_ ->]; [cbv; discriminate|].
    destruct (ling_neq c 46 H) as [E _]; [cbv; discriminate|]. unfold ceq in E. rewrite E. reflexivity.
  Qed.
  Lemma apos_cases q : is_apostrophe_char q = true -> q = 39%N \/ q = 8217%N.
  Proof.
    unfold is_apostrophe_char, ceq. intros H. apply orb_prop in H as [H|H]; apply N.eqb_eq in H; auto.
  Qed.
  Lemma apos_safe q : is_apostrophe_char q = true -> safe q = true.
  Proof. intros H. destruct (apos_cases q H) as [->| ->]; reflexivity. Qed.
  Lemma apos_not_wordc q : is_apostrophe_char q = true -> wordc q = false.
  Proof.
    destruct laws as (_ & _ & _ & _ & _ & _ & Lq). intros H. unfold wordc. destruct (Lq q H) as [_ ->].
    destruct (apos_cases q H) as [->| ->]; reflexivity.
  Qed.

  (* ----- every sub-lexer tried before lex_word, except lex_plural_digit, declines a text that starts with a
           letter and contains no `:` `@` `.` ----- *)
  Lemma letter_start_dispatch c0 r :
    u_lingual u c0 = true -> forallb safe (c0 :: r) = true ->
    lex_token u (c0 :: r) =
      or_else (lex_plural_digit u (c0 :: r)) (or_else (lex_word u (c0 :: r)) (lex_catch (c0 :: r))).
  Proof.
    intros H0 Hs. pose proof laws as (_ & Ln & Lp & Lq & Lw & _).
    assert (E91 : ceq c0 91 = false) by (apply (ling_neq c0 91 H0); cbv; discriminate).
    assert (E9 : ceq 9 c0 = false) by (unfold ceq; apply N.eqb_neq; destruct (Lw c0 H0) as (A & _); congruence).
    assert (E10 : ceq 10 c0 = false) by (unfold ceq; apply N.eqb_neq; destruct (Lw c0 H0) as (_ & A & _); congruence).
    assert (E32 : ceq 32 c0 = false) by (unfold ceq; apply N.eqb_neq; destruct (Lw c0 H0) as (_ & _ & A); congruence).
    assert (E48 : ceq c0 48 = false) by (apply ling_neq_digit; [exact H0|reflexivity]).
    assert (E49 : ceq c0 49 = false) by (apply ling_neq_digit; [exact H0|reflexivity]).
    assert (E50 : ceq c0 50 = false) by (apply ling_neq_digit; [exact H0|reflexivity]).
    assert (R : lex_regexish u (c0 :: r) = None) by (unfold lex_regexish; rewrite E91; reflexivity).
    assert (P : lex_punctuation (c0 :: r) = None)
      by (unfold lex_punctuation, lex_quote; rewrite (Lq c0 H0), (Lp c0 H0); reflexivity).
    assert (T : lex_tabs (c0 :: r) = None) by (unfold lex_tabs; cbn [count_while]; rewrite E9; reflexivity).
    assert (S : lex_spaces (c0 :: r) = None) by (unfold lex_spaces; cbn [count_while]; rewrite E32; reflexivity).
    assert (Nl : lex_newlines (c0 :: r) = None) by (unfold lex_newlines; cbn [count_while]; rewrite E10; reflexivity).
    assert (Hx : lex_hex_number u (c0 :: r) = None).
    { unfold lex_hex_number. destruct r as [|c1 [|c2 r']]; try reflexivity. rewrite E48. reflexivity. }
    assert (Dc : lex_long_decade u (c0 :: r) = None).
    { unfold lex_long_decade. destruct r as [|c1 [|c2 [|c3 [|c4 r']]]]; try reflexivity. rewrite E49, E50. reflexivity. }
    assert (Nb : lex_number u (c0 :: r) = None) by (unfold lex_number; rewrite (Ln c0 H0); reflexivity).
    assert (S58 : forallb (fun x => negb (ceq 58 x)) (c0 :: r) = true).
    { eapply forallb_forall. intros x Hx'. eapply forallb_forall in Hs; [|exact Hx']. unfold safe in Hs.
      apply andb_true_iff in Hs as [Hs _]. apply andb_true_iff in Hs as [Hs _]. exact Hs. }
    assert (S64 : forallb (fun x => negb (ceq 64 x)) (c0 :: r) = true).
    { eapply forallb_forall. intros x Hx'. eapply forallb_forall in Hs; [|exact Hx']. unfold safe in Hs.
      apply andb_true_iff in Hs as [Hs _]. apply andb_true_iff in Hs as [_ Hs]. exact Hs. }
    assert (S46 : forallb (fun x => negb (N.eqb 46 x)) (c0 :: r) = true).
    { eapply forallb_forall. intros x Hx'. eapply forallb_forall in Hs; [|exact Hx']. unfold safe, mem_n in Hs.
      apply andb_true_iff in Hs as [_ Hs]. cbn [existsb] in Hs. rewrite orb_false_r in Hs.
      rewrite N.eqb_sym. exact Hs. }
    assert (Ur : lex_url u (c0 :: r) = None) by (unfold lex_url; rewrite (position_none _ _ S58); reflexivity).
    assert (Em : lex_email_address u (c0 :: r) = None).
    { unfold lex_email_address. rewrite (rposition_none (ceq 64)); [reflexivity|]. apply forallb_firstn. exact S64. }
    assert (Ho : lex_hostname_token (c0 :: r) = None).
    { unfold lex_hostname_token. destruct (lex_hostname (c0 :: r)) as [len|]; [|reflexivity].
      destruct (len <=? 1); [reflexivity|].
      match goal with |- context [mem_n ?x ?l] => assert (M : mem_n x l = false) end.
      { unfold mem_n. apply existsb_none. unfold slice. apply forallb_firstn. apply forallb_skipn. exact S46. }
      rewrite M. reflexivity. }
    unfold lex_token. rewrite R, P, T, S, Nl, Hx, Dc, Nb, Ur, Em, Ho. cbn [or_else].
    destruct (lex_plural_digit u (c0 :: r)); reflexivity.
  Qed.

  (* what may follow the letters: nothing, or an apostrophe and more letters *)
  Definition tail_ok (rest : text) : Prop :=
    rest = [] \/ exists q b, rest = q :: b /\ is_apostrophe_char q = true /\ all_letters u b = true.

  Lemma tail_safe rest : tail_ok rest -> forallb safe rest = true.
  Proof.
    intros [->|(q & b & -> & Hq & Hb)]; [reflexivity|]. cbn [forallb]. rewrite (apos_safe q Hq). cbn [andb].
    apply forallb_forall. intros x Hx. apply ling_safe. unfold all_letters in Hb.
    eapply forallb_forall in Hb; eassumption.
  Qed.
  Lemma letters_safe a : all_letters u a = true -> forallb safe a = true.
  Proof.
    intros Ha. apply forallb_forall. intros x Hx. apply ling_safe. unfold all_letters in Ha.
    eapply forallb_forall in Ha; eassumption.
  Qed.

  Lemma lex_word_letters a rest : a <> [] -> all_letters u a = true -> tail_ok rest ->
    lex_word u (a ++ rest) = Some (length a, KWord).
  Proof.
    intros Hne Ha Ht. unfold lex_word. fold wordc.
    assert (Hw : forallb wordc a = true).
    { apply forallb_forall. intros x Hx. unfold wordc. unfold all_letters in Ha.
      eapply forallb_forall in Ha; [|exact Hx]. rewrite Ha. reflexivity. }
    assert (E : count_while wordc (a ++ rest) = length a).
    { destruct Ht as [->|(q & b & -> & Hq & _)]; [rewrite app_nil_r; apply count_while_all; exact Hw|].
      apply count_while_app_stop; [exact Hw|apply apos_not_wordc; exact Hq]. }
    change (fun c => u_lingual u c || is_ascii_digit c) with wordc. rewrite E.
    destruct a; [contradiction|]. reflexivity.
  Qed.

  (* lex_plural_digit on letters (+ tail): declines, or answers what lex_word answers, or — for `x's` — glues
     the whole text into one Word *)
  Lemma plural_digit_letters a rest : a <> [] -> all_letters u a = true -> tail_ok rest ->
    lex_plural_digit u (a ++ rest) = None \/
    lex_plural_digit u (a ++ rest) = Some (length a, KWord) \/
    (exists c0, a = [c0] /\ rest = [39; 115]%N /\ lex_plural_digit u (a ++ rest) = Some (3, KWord)).
  Proof.
    intros Hne Ha Ht. destruct a as [|c0 a']; [contradiction|]. cbn [all_letters forallb] in Ha.
    apply andb_true_iff in Ha as [H0 Ha']. cbn [app]. unfold lex_plural_digit.
    destruct (negb (is_ascii_alphanumeric c0)); [left; reflexivity|].
    destruct a' as [|c1 a''].
    - cbn [app]. destruct Ht as [->|(q & b & -> & Hq & Hb)]; [left; reflexivity|].
      destruct (apos_cases q Hq) as [->| ->].
      + change (ceq 39 39) with true. cbn iota.
        destruct b as [|c t]; [left; reflexivity|]. destruct (ceq c 115) eqn:Ec; [|left; reflexivity].
        destruct t as [|d t'].
        * right; right. exists c0. unfold ceq in Ec. apply N.eqb_eq in Ec. subst c. repeat split; reflexivity.
        * cbn [all_letters forallb] in Hb. apply andb_true_iff in Hb as [_ Hb]. apply andb_true_iff in Hb as [Hd _].
          rewrite (ling_alnum d Hd). left; reflexivity.
      + change (ceq 8217 39) with false. cbn iota. change (ceq 8217 115) with false. left; reflexivity.
    - cbn [app forallb] in *. apply andb_true_iff in Ha' as [H1 Ha''].
      destruct (ling_neq c1 39 H1) as [E39 _]; [cbv; discriminate|]. rewrite E39.
      destruct (ceq c1 115); [|left; reflexivity].
      destruct a'' as [|d a3].
      + cbn [app]. destruct Ht as [->|(q & b & -> & Hq & Hb)]; [right; left; reflexivity|].
        destruct laws as (_ & _ & _ & _ & _ & _ & Lq). destruct (Lq q Hq) as [-> _]. right; left; reflexivity.
      + cbn [app forallb] in *. apply andb_true_iff in Ha'' as [Hd _]. rewrite (ling_alnum d Hd). left; reflexivity.
  Qed.

  (* the first token of  letters ++ tail *)
  Lemma lex_token_letters a rest : a <> [] -> all_letters u a = true -> tail_ok rest ->
    lex_token u (a ++ rest) = Some (length a, KWord) \/
    (exists c0, a = [c0] /\ rest = [39; 115]%N /\ lex_token u (a ++ rest) = Some (3, KWord)).
  Proof.
    intros Hne Ha Ht.
    assert (D : lex_token u (a ++ rest) =
                or_else (lex_plural_digit u (a ++ rest)) (or_else (lex_word u (a ++ rest)) (lex_catch (a ++ rest)))).
    { destruct a as [|c0 a']; [contradiction|]. cbn [app]. apply letter_start_dispatch.
      - cbn [all_letters forallb] in Ha. apply andb_true_iff in Ha as [H0 _]. exact H0.
      - change (c0 :: a' ++ rest) with ((c0 :: a') ++ rest). rewrite forallb_app.
        apply andb_true_iff. split; [apply letters_safe; exact Ha|apply tail_safe; exact Ht]. }
    rewrite D, (lex_word_letters a rest Hne Ha Ht).
    destruct (plural_digit_letters a rest Hne Ha Ht) as [E|[E|(c0 & -> & -> & E)]]; rewrite E; cbn [or_else].
    - left; reflexivity.
    - left; reflexivity.
    - right. exists c0. repeat split; reflexivity.
  Qed.

  (* the apostrophe token *)
  Lemma lex_token_apostrophe q b : is_apostrophe_char q = true -> lex_token u (q :: b) = Some (1, KPunct PApostrophe).
  Proof.
    intros Hq. unfold lex_token, lex_regexish, lex_punctuation, lex_quote.
    destruct (apos_cases q Hq) as [->| ->]; reflexivity.
  Qed.

  (* ---------- PlainEnglish::parse ---------- *)
  Lemma plain_step f cur c r n k : lex_token u (c :: r) = Some (n, k) ->
    plain_loop u (S f) cur (c :: r) =
      (do tl <- plain_loop u f (cur + n) (skipn n (c :: r)); Ok (mktok (mkspan cur (cur + n)) k :: tl)).
  Proof.
    intros E. cbn [plain_loop]. rewrite E. unfold span_new.
    replace (cur + n <? cur) with false by (symmetry; apply Nat.ltb_ge; lia). reflexivity.
  Qed.
  Lemma plain_loop_nil f cur : plain_loop u f cur [] = Ok [].
  Proof. destruct f; reflexivity. Qed.

  Lemma plain_letters a : a <> [] -> all_letters u a = true ->
    plain_parse u a = Ok [mktok (mkspan 0 (length a)) KWord].
  Proof.
    intros Hne Ha. unfold plain_parse.
    destruct (lex_token_letters a [] Hne Ha (or_introl eq_refl)) as [E|(c0 & _ & Hr & _)]; [|discriminate].
    rewrite app_nil_r in E. destruct a as [|c r]; [contradiction|]. cbn [length].
    rewrite (plain_step _ 0 c r _ _ E). rewrite skipn_all. rewrite plain_loop_nil. reflexivity.
  Qed.

  Definition apos_tokens (la lb : nat) : list token :=
    [mktok (mkspan 0 la) KWord; mktok (mkspan la (la + 1)) (KPunct PApostrophe);
     mktok (mkspan (la + 1) (la + 1 + lb)) KWord].

  Lemma plain_apostrophe a q b : a <> [] -> b <> [] -> all_letters u a = true -> is_apostrophe_char q = true ->
    all_letters u b = true ->
    plain_parse u (a ++ q :: b) = Ok (apos_tokens (length a) (length b)) \/
    plain_parse u (a ++ q :: b) = Ok [mktok (mkspan 0 (length (a ++ q :: b))) KWord].
  Proof.
    intros Ha0 Hb0 Ha Hq Hb. unfold plain_parse.
    assert (Ht : tail_ok (q :: b)) by (right; exists q, b; auto).
    destruct (lex_token_letters a (q :: b) Ha0 Ha Ht) as [E|(c0 & -> & Hr & E)].
    - left. destruct a as [|c r]; [contradiction|]. destruct b as [|cb rb]; [contradiction|].
      rewrite app_length. cbn [length app] in *. rewrite !Nat.add_succ_r.
      rewrite (plain_step _ 0 c (r ++ q :: cb :: rb) _ _ E).
      change (c :: r ++ q :: cb :: rb) with ((c :: r) ++ q :: cb :: rb).
      rewrite skipn_app, skipn_all2 by (cbn [length]; lia). cbn [length]. rewrite Nat.sub_diag. cbn [skipn app].
      rewrite (plain_step _ _ q (cb :: rb) _ _ (lex_token_apostrophe q (cb :: rb) Hq)). cbn [skipn].
      destruct (lex_token_letters (cb :: rb) [] Hb0 Hb (or_introl eq_refl)) as [Eb|(c0 & _ & Hr & _)]; [|discriminate].
      rewrite app_nil_r in Eb. cbn [Nat.add].
      rewrite (plain_step _ _ cb rb _ _ Eb). rewrite skipn_all. rewrite plain_loop_nil. cbn [bind length].
      unfold apos_tokens. cbn [length Nat.add]. reflexivity.
    - right. injection Hr as -> ->. cbn [app length] in *. rewrite (plain_step _ 0 c0 _ _ _ E).
      cbn [skipn]. rewrite plain_loop_nil. reflexivity.
  Qed.
End Letters.

(* ---------- the passes of Document::parse on these token vectors ---------- *)
Lemma get_content_whole (w : text) : w <> [] -> get_content (mkspan 0 (length w)) w = Ok w.
Proof.
  intros Hne. unfold get_content, try_get_content, slice. cbn [sstart send].
  destruct w as [|c r]; [contradiction|].
  replace (0 <? 0) with false by reflexivity. replace (length (c :: r) <=? 0) with false by reflexivity.
  rewrite Nat.ltb_irrefl. cbn [orb bind skipn]. rewrite Nat.sub_0_r, firstn_all. reflexivity.
Qed.

Lemma latin_single (w : text) : w <> [] -> latin_matches w [mktok (mkspan 0 (length w)) KWord] = Ok 0.
Proof.
  intros Hne. unfold latin_matches.
  assert (A1 : latin_alt1 w [mktok (mkspan 0 (length w)) KWord] = Ok 0).
  { unfold latin_alt1, wordset_matches. cbn [tkind_of is_word negb tspan]. rewrite (get_content_whole w Hne). cbn [bind].
    match goal with |- context [if ?b then 1 else 0] => destruct b end; reflexivity. }
  assert (A2 : latin_alt2 w [mktok (mkspan 0 (length w)) KWord] = Ok 0).
  { unfold latin_alt2, anycap_matches. cbn [tkind_of is_word negb tspan]. unfold span_len, sub_chk. cbn [sstart send].
    replace (length w <? 0) with false by reflexivity. cbn [bind].
    match goal with |- context [if negb ?b then Ok 0 else _] => destruct b end; cbn [negb bind]; [|reflexivity].
    rewrite (get_content_whole w Hne). cbn [bind].
    match goal with |- context [if ?b then 1 else 0] => destruct b end; reflexivity. }
  rewrite A1, A2. reflexivity.
Qed.

Lemma passes_single_word (w : text) : w <> [] ->
  document_passes w [mktok (mkspan 0 (length w)) KWord] = Ok [mktok (mkspan 0 (length w)) KWord].
Proof.
  intros Hne. unfold document_passes.
  assert (L : condense_latin w [mktok (mkspan 0 (length w)) KWord] = Ok [mktok (mkspan 0 (length w)) KWord]).
  { unfold condense_latin, condense_pattern, find_all_matches. cbn [fam_scan]. rewrite (latin_single w Hne). reflexivity. }
  cbn -[condense_latin get_content]. rewrite L. cbn -[get_content]. rewrite (get_content_whole w Hne). reflexivity.
Qed.

Lemma passes_apostrophe (w : text) la lb : 0 < la -> 0 < lb -> length w = la + 1 + lb ->
  document_passes w (apos_tokens la lb) = Ok [mktok (mkspan 0 (length w)) KWord].
Proof.
  intros Ha Hb Hl. unfold document_passes, apos_tokens.
  assert (Hne : w <> []) by (intros ->; cbn in Hl; lia).
  assert (C : condense_contractions w
                [mktok (mkspan 0 la) KWord; mktok (mkspan la (la + 1)) (KPunct PApostrophe);
                 mktok (mkspan (la + 1) (la + 1 + lb)) KWord] = Ok [mktok (mkspan 0 (length w)) KWord]).
  { unfold condense_contractions, condense_pattern, find_all_matches. cbn [fam_scan contraction_matches tkind_of is_word
      is_apostrophe andb bind Nat.eqb overlap_idx remove_indices Nat.add].
    cbn [cp_apply sstart send]. unfold slice_chk. cbn [length Nat.ltb Nat.leb orb skipn firstn Nat.sub].
    cbn [bind].
    rewrite (hull_tiling 0 (la + 1 + lb)).
    - cbn [bind nth_chk nth_error set_nth tkind_of seq Nat.sub Nat.add app remove_indices Nat.eqb]. rewrite Hl. reflexivity.
    - discriminate.
    - repeat constructor; cbn; lia. }
  cbn -[condense_contractions condense_latin condense_dotted_initialisms condense_ellipsis match_quotes word_lookup_check].
  rewrite C. apply (passes_single_word w Hne).
Qed.

(* ---------- the characterisation ---------- *)
Section OneWord.
  Variable u : uni.
  Hypothesis laws : letter_laws u.

  Theorem letters_document w : w <> [] -> all_letters u w = true ->
    document_plain u w = Ok [mktok (mkspan 0 (length w)) KWord].
  Proof.
    intros Hne Hw. unfold document_plain. rewrite (plain_letters u laws w Hne Hw). cbn [bind].
    apply passes_single_word. exact Hne.
  Qed.

  Theorem apostrophe_document a q b : a <> [] -> b <> [] -> all_letters u a = true ->
    is_apostrophe_char q = true -> all_letters u b = true ->
    document_plain u (a ++ q :: b) = Ok [mktok (mkspan 0 (length (a ++ q :: b))) KWord].
  Proof.
    intros Ha0 Hb0 Ha Hq Hb. unfold document_plain.
    assert (Hne : a ++ q :: b <> []) by (destruct a; discriminate).
    destruct (plain_apostrophe u laws a q b Ha0 Hb0 Ha Hq Hb) as [E|E]; rewrite E; cbn [bind].
    - apply passes_apostrophe.
      + destruct a; [contradiction|cbn; lia].
      + destruct b; [contradiction|cbn; lia].
      + rewrite app_length. cbn [length]. lia.
    - apply passes_single_word. exact Hne.
  Qed.

  (* the shapes covered: letters, or letters ' letters *)
  Definition simple_word (w : text) : Prop :=
    (w <> [] /\ all_letters u w = true) \/
    (exists a q b, w = a ++ q :: b /\ a <> [] /\ b <> [] /\ all_letters u a = true /\
                   is_apostrophe_char q = true /\ all_letters u b = true).

  Theorem simple_word_document w : simple_word w -> document_plain u w = Ok [mktok (mkspan 0 (length w)) KWord].
  Proof.
    intros [[Hne Hw]|(a & q & b & -> & Ha0 & Hb0 & Ha & Hq & Hb)];
      [apply letters_document; assumption|apply apostrophe_document; assumption].
  Qed.

  Theorem simple_word_one_word w : simple_word w -> one_word u w = true.
  Proof.
    intros H. unfold one_word. rewrite (simple_word_document w H). cbn [tkind_of is_word tstart tend tspan sstart send andb].
    rewrite !Nat.eqb_refl. reflexivity.
  Qed.

  Theorem simple_word_doc_words w : simple_word w -> doc_words u w = Ok [mkspan 0 (length w)].
  Proof. intros H. unfold doc_words. rewrite (simple_word_document w H). reflexivity. Qed.
End OneWord.

(* one_word, unfolded: exactly one token, a Word, covering the text *)
Lemma one_word_spec u w : one_word u w = true -> doc_words u w = Ok [mkspan 0 (length w)].
Proof.
  unfold one_word, doc_words. destruct (document_plain u w) as [[|t [|t' ts]]|]; try discriminate.
  intros H. apply andb_true_iff in H as [H H3]. apply andb_true_iff in H as [H1 H2].
  apply Nat.eqb_eq in H2, H3. destruct t as [[s e] k]. cbn in H1, H2, H3. subst s e.
  destruct k; try discriminate. reflexivity.
Qed.
