(* C12MergeProofs.v — remove_overlaps over the union of paragraph-local rules is paragraph-local
   (merge_linters! and CurrencyPlacement), PROVIDED every lint the sub-rules report for the first part lies inside
   it: starts before |P| and ends at or before |P| (lint_inside).  The strict `start < |P|` is needed: the sort key
   is (start, MAX - end), so an EMPTY lint |P|..|P| of the first part would sort BEHIND a non-empty lint of the
   second part that starts at |P| (ro_needs_strict). *)
Require Import Base Overlap OverlapProofs ParaSplit ParaSplitProofs ListLemmas C12Merge.
From Coq Require Import List Arith Lia Bool Sorting.Permutation.
Import ListNotations.

Definition lint_inside (n : nat) (l : lint) : Prop := lstart l < n /\ lend l <= n.
Definition isA (n : nat) (l : lint) : bool := lstart l <? n.
Definition rule_inside (r : list tok -> text -> list lint) : Prop :=
  forall A P, in_bounds (length P) A -> Forall (lint_inside (length P)) (r A P).
(* a per-slice body reports inside the slice's characters *)
Definition g0_inside (g0 : list tok -> text -> list lint) : Prop :=
  forall c chars, Forall (lint_inside (length chars)) (g0 c chars).

Lemma lstart_shift n l : lstart (shift_lint n l) = lstart l + n.
Proof. reflexivity. Qed.
Lemma lend_shift n l : lend (shift_lint n l) = lend l + n.
Proof. reflexivity. Qed.

Lemma ltb_add_r a b n : (a + n <? b + n) = (a <? b).
Proof. apply Bool.eq_true_iff_eq. rewrite !Nat.ltb_lt. lia. Qed.
Lemma eqb_add_r a b n : (a + n =? b + n) = (a =? b).
Proof. apply Bool.eq_true_iff_eq. rewrite !Nat.eqb_eq. lia. Qed.
Lemma leb_add_r a b n : (a + n <=? b + n) = (a <=? b).
Proof. apply Bool.eq_true_iff_eq. rewrite !Nat.leb_le. lia. Qed.

Lemma key_le_shift n a b : key_le (shift_lint n a) (shift_lint n b) = key_le a b.
Proof. unfold key_le. now rewrite !lstart_shift, !lend_shift, ltb_add_r, eqb_add_r, leb_add_r. Qed.

Lemma linsert_shift n x l : linsert (shift_lint n x) (map (shift_lint n) l) = map (shift_lint n) (linsert x l).
Proof.
  induction l as [|y ys IH]; [reflexivity|]. cbn [map linsert]. rewrite key_le_shift.
  destruct (key_le x y); cbn [map]; [reflexivity|now rewrite IH].
Qed.

Lemma lsort_shift n l : lsort (map (shift_lint n) l) = map (shift_lint n) (lsort l).
Proof. induction l as [|x xs IH]; [reflexivity|]. cbn [map lsort]. now rewrite IH, linsert_shift. Qed.

(* ---------- the sort separates the two sides ---------- *)
Lemma linsert_A n x SA SB :
  isA n x = true -> Forall (fun b => isA n b = false) SB -> linsert x (SA ++ SB) = linsert x SA ++ SB.
Proof.
  intros Hx HB. induction SA as [|a SA IH].
  - cbn [app linsert]. destruct SB as [|y ys]; [reflexivity|]. cbn [linsert].
    inversion HB as [|? ? Hy _]; subst. unfold isA in *. apply Nat.ltb_lt in Hx. apply Nat.ltb_ge in Hy.
    unfold key_le. replace (lstart x <? lstart y) with true by (symmetry; apply Nat.ltb_lt; lia). reflexivity.
  - cbn [app linsert]. destruct (key_le x a); [reflexivity|]. now rewrite IH.
Qed.

Lemma linsert_B n x SA SB :
  isA n x = false -> Forall (fun a => isA n a = true) SA -> linsert x (SA ++ SB) = SA ++ linsert x SB.
Proof.
  intros Hx HA. induction HA as [|a SA Ha _ IH]; [reflexivity|].
  cbn [app linsert]. unfold isA in *. apply Nat.ltb_ge in Hx. apply Nat.ltb_lt in Ha.
  unfold key_le at 1.
  replace (lstart x <? lstart a) with false by (symmetry; apply Nat.ltb_ge; lia).
  replace (lstart x =? lstart a) with false by (symmetry; apply Nat.eqb_neq; lia).
  cbn [orb andb]. now rewrite IH.
Qed.

Lemma Forall_lsort (Q : lint -> Prop) l : Forall Q l -> Forall Q (lsort l).
Proof.
  intros H. rewrite Forall_forall in *. intros x Hx. apply H.
  eapply Permutation_in; [apply sort_perm|exact Hx].
Qed.

Lemma Forall_filter {A} (f : A -> bool) l : Forall (fun x => f x = true) (filter f l).
Proof. apply Forall_forall. intros x Hx. now apply filter_In in Hx. Qed.

Lemma sort_split n X :
  lsort X = lsort (filter (isA n) X) ++ lsort (filter (fun l => negb (isA n l)) X).
Proof.
  induction X as [|x X IH]; [reflexivity|]. cbn [lsort filter]. rewrite IH.
  destruct (isA n x) eqn:E; cbn [negb lsort].
  - apply (linsert_A n); [exact E|]. apply Forall_lsort.
    eapply Forall_impl; [|apply Forall_filter]. cbn beta. intros a Ha. now apply negb_true_iff in Ha.
  - apply (linsert_B n); [exact E|]. apply Forall_lsort. apply Forall_filter.
Qed.

(* ---------- the sweep ---------- *)
Fixpoint cur_after (cur : nat) (ls : list lint) : nat :=
  match ls with
  | [] => cur
  | l :: r => if lstart l <? cur then cur_after cur r else cur_after (lend l) r
  end.

Lemma sweep_kept_app cur X Y : sweep_kept cur (X ++ Y) = sweep_kept cur X ++ sweep_kept (cur_after cur X) Y.
Proof.
  revert cur. induction X as [|x X IH]; intros cur; [reflexivity|].
  cbn [app sweep_kept cur_after]. destruct (lstart x <? cur); [apply IH|].
  cbn [app]. f_equal. apply IH.
Qed.

Lemma cur_after_le n cur X : cur <= n -> Forall (fun l => lend l <= n) X -> cur_after cur X <= n.
Proof.
  intros Hc H. revert cur Hc. induction H as [|x X Hx _ IH]; intros cur Hc; [exact Hc|].
  cbn [cur_after]. destruct (lstart x <? cur); apply IH; assumption.
Qed.

Lemma sweep_shift_eq c n L :
  sweep_kept (c + n) (map (shift_lint n) L) = map (shift_lint n) (sweep_kept c L).
Proof.
  revert c. induction L as [|l L IH]; intros c; [reflexivity|].
  cbn [map sweep_kept]. rewrite lstart_shift, ltb_add_r.
  destruct (lstart l <? c); [apply IH|]. cbn [map]. f_equal. rewrite lend_shift. apply IH.
Qed.

Lemma sweep_shift_0 c n L :
  c <= n -> sweep_kept c (map (shift_lint n) L) = map (shift_lint n) (sweep_kept 0 L).
Proof.
  intros Hc. destruct L as [|l L]; [reflexivity|]. cbn [map sweep_kept]. rewrite lstart_shift.
  replace (lstart l + n <? c) with false by (symmetry; apply Nat.ltb_ge; lia).
  replace (lstart l <? 0) with false by (symmetry; apply Nat.ltb_ge; lia).
  cbn [map]. f_equal. rewrite lend_shift. apply sweep_shift_eq.
Qed.

(* ---------- filters over the interleaved union ---------- *)
Lemma filter_true {A} (f : A -> bool) l : (forall x, In x l -> f x = true) -> filter f l = l.
Proof.
  induction l as [|x l IH]; intros H; [reflexivity|]. cbn [filter].
  rewrite (H x (or_introl eq_refl)), IH; [reflexivity|]. intros y Hy. apply H. now right.
Qed.
Lemma filter_false {A} (f : A -> bool) l : (forall x, In x l -> f x = false) -> filter f l = [].
Proof.
  induction l as [|x l IH]; intros H; [reflexivity|]. cbn [filter].
  rewrite (H x (or_introl eq_refl)). apply IH. intros y Hy. apply H. now right.
Qed.

Lemma isA_shift n b : isA n (shift_lint n b) = false.
Proof. unfold isA. rewrite lstart_shift. apply Nat.ltb_ge. lia. Qed.

Section Mixed.
  Context {T : Type}.
  Variable n : nat.
  Variables fa fb : T -> list lint.

  Lemma filter_mixed_A subs :
    (forall r, In r subs -> Forall (lint_inside n) (fa r)) ->
    filter (isA n) (flat_map (fun r => fa r ++ map (shift_lint n) (fb r)) subs) = flat_map fa subs.
  Proof.
    induction subs as [|r subs IH]; intros H; [reflexivity|]. cbn [flat_map].
    rewrite !filter_app, IH by (intros r' Hr'; apply H; now right). f_equal.
    rewrite filter_true, filter_false; [apply app_nil_r| |].
    - intros x Hx. apply in_map_iff in Hx. destruct Hx as (b & <- & _). apply isA_shift.
    - intros x Hx. specialize (H r (or_introl eq_refl)). rewrite Forall_forall in H.
      destruct (H x Hx) as [Hs _]. now apply Nat.ltb_lt.
  Qed.

  Lemma filter_mixed_B subs :
    (forall r, In r subs -> Forall (lint_inside n) (fa r)) ->
    filter (fun l => negb (isA n l)) (flat_map (fun r => fa r ++ map (shift_lint n) (fb r)) subs)
    = map (shift_lint n) (flat_map fb subs).
  Proof.
    induction subs as [|r subs IH]; intros H; [reflexivity|]. cbn [flat_map].
    rewrite !filter_app, IH by (intros r' Hr'; apply H; now right). rewrite map_app. f_equal.
    rewrite filter_false, filter_true; [reflexivity| |].
    - intros x Hx. apply in_map_iff in Hx. destruct Hx as (b & <- & _). now rewrite isA_shift.
    - intros x Hx. specialize (H r (or_introl eq_refl)). rewrite Forall_forall in H.
      destruct (H x Hx) as [Hs _]. apply negb_false_iff. now apply Nat.ltb_lt.
  Qed.

  (* remove_overlaps over the interleaved union splits *)
  Lemma ro_mixed subs :
    (forall r, In r subs -> Forall (lint_inside n) (fa r)) ->
    remove_overlaps (flat_map (fun r => fa r ++ map (shift_lint n) (fb r)) subs)
    = remove_overlaps (flat_map fa subs) ++ map (shift_lint n) (remove_overlaps (flat_map fb subs)).
  Proof.
    intros H. rewrite !remove_overlaps_spec by (right; exact I).
    rewrite (sort_split n), filter_mixed_A, filter_mixed_B by exact H.
    rewrite lsort_shift, sweep_kept_app. f_equal. apply sweep_shift_0.
    apply cur_after_le; [lia|]. apply Forall_lsort. apply Forall_forall. intros x Hx.
    apply in_flat_map in Hx. destruct Hx as (r & Hr & Hx). specialize (H r Hr). rewrite Forall_forall in H.
    now destruct (H x Hx).
  Qed.
End Mixed.

(* ---------- the two rule shapes ---------- *)
Theorem merge_local subs :
  Forall para_local subs -> Forall rule_inside subs -> para_local (merge_rule subs).
Proof.
  intros HL HI A B P D HA Hin. unfold merge_rule.
  rewrite (flat_map_ext_in (fun r => r (A ++ map (shift_tok (length P) (length A)) B) (P ++ D))
                           (fun r => r A P ++ map (shift_lint (length P)) (r B D))).
  2:{ rewrite Forall_forall in HL. intros r Hr. now apply (HL r Hr). }
  apply (ro_mixed (length P) (fun r => r A P) (fun r => r B D)).
  rewrite Forall_forall in HI. intros r Hr. now apply (HI r Hr).
Qed.

Theorem then_remove_overlaps_local r :
  para_local r -> rule_inside r -> para_local (then_remove_overlaps r).
Proof.
  intros HL HI A B P D HA Hin.
  pose proof (merge_local [r] (Forall_cons _ HL (Forall_nil _)) (Forall_cons _ HI (Forall_nil _)) A B P D HA Hin) as H.
  unfold merge_rule in H. cbn [flat_map] in H. rewrite !app_nil_r in H. exact H.
Qed.

(* an instance of an iterator schema reports inside the first part when its per-slice body reports inside the slice *)
Theorem schema_inside p g0 : g0_inside g0 -> rule_inside (schema_rule p g0).
Proof.
  intros Hg A P Hin. unfold schema_rule. apply Forall_forall. intros l Hl.
  apply in_flat_map in Hl. destruct Hl as (c & Hc & Hl).
  pose proof (iter_by_in_bounds p _ _ Hin) as Hb. rewrite Forall_forall in Hb. specialize (Hb c Hc).
  unfold lift in Hl. destruct (hull c) as [sp|] eqn:Eh; [|destruct Hl].
  destruct (hull_in_bounds _ _ _ Hb Eh) as [H1 H2].
  apply in_map_iff in Hl. destruct Hl as (l0 & <- & Hl0).
  specialize (Hg (rel_chunk (sstart sp) c) (slice P (sstart sp) (send sp))). rewrite Forall_forall in Hg.
  destruct (Hg l0 Hl0) as [Ha Hb'].
  assert (Hlen : length (slice P (sstart sp) (send sp)) <= send sp - sstart sp).
  { unfold slice. apply firstn_le_length. }
  unfold lint_inside. rewrite lstart_shift, lend_shift. lia.
Qed.

(* the strictness of `start < |P|`: an empty lint 2..2 of the first part and a lint 0..1 of the second part moved
   by 2 (2..3): together the empty lint sorts behind 2..3 and is dropped (2 < cur = 3); alone both are kept *)
Lemma ro_needs_strict :
  let a := mklint (mkspan 2 2) 0 in let b := mklint (mkspan 0 1) 1 in
  remove_overlaps ([a] ++ map (shift_lint 2) [b]) = [shift_lint 2 b] /\
  remove_overlaps [a] ++ map (shift_lint 2) (remove_overlaps [b]) = [a; shift_lint 2 b].
Proof. split; vm_compute; reflexivity. Qed.
