(* C13Maximal.v — phase 4: is what remove_overlaps keeps a MAXIMAL conflict-free subset (no dropped lint could
   be added back without conflict)?  Yes for every dropped lint that covers at least one character; no for
   zero-width lints (they cover nothing, so they conflict with nothing, and are dropped all the same when they
   start inside or at the start of a kept lint).  Also: what the CLI's printed report shows (cover_positions). *)
Require Import Base Overlap OverlapProofs C13Callers.
From Coq Require Import Sorting.Sorted Sorting.Permutation.

Definition no_common_char (a b : lint) : Prop := forall c, ~ (covers a c /\ covers b c).

Lemma no_common_char_sym a b : no_common_char a b -> no_common_char b a.
Proof. unfold no_common_char. intros H c [X Y]. exact (H c (conj Y X)). Qed.

(* pairwise statements about a symmetric relation do not depend on the order of the list *)
Lemma FOP_perm {A} (R : A -> A -> Prop) (l l' : list A) :
  (forall a b, R a b -> R b a) -> Permutation l l' -> ForallOrdPairs R l -> ForallOrdPairs R l'.
Proof.
  intros Sym P. induction P as [|x l l' P IH|x y l|l l' l'' P1 IH1 P2 IH2]; intros F.
  - exact F.
  - inversion F as [|? ? Hx Fl]; subst. constructor; [eapply Permutation_Forall; eassumption|now apply IH].
  - inversion F as [|? ? Hy Fx]; subst. inversion Fx as [|? ? Hx Fl]; subst.
    inversion Hy as [|? ? Ryx Hyl]; subst.
    constructor; [constructor; [now apply Sym|exact Hx]|constructor; assumption].
  - auto.
Qed.

(* a dropped lint that covers a character shares its first character with a kept lint — in both senses the code
   base has for "overlap": a common character, and Span::overlaps_with (either way round) *)
Lemma ro_dropped_conflicts ls d : In d (dropped ls) -> lstart d < lend d ->
  exists k, In k (remove_overlaps ls) /\ covers k (lstart d) /\ covers d (lstart d) /\
            overlaps (lspan k) (lspan d) = true /\ overlaps (lspan d) (lspan k) = true.
Proof.
  intros Hd Hne. destruct (ro_dropped_inside ls d Hd) as [k [Hk Hin]].
  exists k. split; [exact Hk|]. unfold covers. split; [exact Hin|]. split; [lia|].
  unfold overlaps. fold (lstart k) (lend k) (lstart d) (lend d).
  split; apply andb_true_iff; split; apply Nat.ltb_lt; lia.
Qed.

(* maximality in the greedy sense: putting a dropped non-empty lint back — anywhere — yields a list with two
   lints that share a character *)
Theorem ro_maximal ls d ks :
  In d (dropped ls) -> lstart d < lend d -> Permutation ks (d :: remove_overlaps ls) ->
  ~ ForallOrdPairs no_common_char ks.
Proof.
  intros Hd Hne P F.
  apply (FOP_perm _ _ _ no_common_char_sym P) in F.
  inversion F as [|? ? Hall _]; subst.
  destruct (ro_dropped_conflicts ls d Hd Hne) as [k [Hk [C1 [C2 _]]]].
  rewrite Forall_forall in Hall. exact (Hall k Hk (lstart d) (conj C2 C1)).
Qed.

Lemma dropped_in ls d : In d (dropped ls) -> In d ls.
Proof.
  intros H. destruct (ro_sublist ls) as [_ [_ P]].
  eapply Permutation_in; [exact P|]. apply in_or_app. now right.
Qed.

(* the exact picture, for well-formed spans: a dropped lint can be added back without two lints sharing a
   character if and only if it is zero-width *)
Theorem ro_maximal_iff ls d : Forall lwf ls -> In d (dropped ls) ->
  (ForallOrdPairs no_common_char (d :: remove_overlaps ls) <-> lstart d = lend d).
Proof.
  intros W Hd. split.
  - intros F. assert (lwf d) as Wd by (rewrite Forall_forall in W; apply W, dropped_in, Hd).
    unfold lwf in Wd. destruct (Nat.eq_dec (lstart d) (lend d)) as [E|N]; [exact E|].
    exfalso. apply (ro_maximal ls d (d :: remove_overlaps ls) Hd); [lia|reflexivity|exact F].
  - intros E. constructor.
    + apply Forall_forall. intros k _ c [[X Y] _]. lia.
    + pose proof (ro_disjoint ls W) as D. induction D as [|a l Ha D IH]; constructor; [|exact IH].
      eapply Forall_impl; [|exact Ha]. intros b [_ [_ [_ H]]]. exact H.
Qed.

(* the counter-examples to unrestricted maximality.  (1) a zero-width lint at the START of a kept lint is
   dropped although [d; k] satisfies the very predicate C13_disjoint states (end <= start, overlaps_with false
   both ways, no common character) and is sorted; (2) strictly inside a kept lint it shares no character
   either, though Span::overlaps_with says true *)
Lemma ro_zero_width_not_maximal :
  (let k := mklint (mkspan 2 4) 0 in let d := mklint (mkspan 2 2) 1 in let ls := [k; d] in
   Forall lwf ls /\ remove_overlaps ls = [k] /\ dropped ls = [d] /\
   ForallOrdPairs disjoint_pair (d :: remove_overlaps ls)) /\
  (let k := mklint (mkspan 0 4) 0 in let d := mklint (mkspan 2 2) 1 in let ls := [d; k] in
   Forall lwf ls /\ remove_overlaps ls = [k] /\ dropped ls = [d] /\
   ForallOrdPairs no_common_char (d :: remove_overlaps ls) /\ overlaps (lspan k) (lspan d) = true).
Proof.
  split; cbv zeta.
  - split; [repeat constructor|]. split; [vm_compute; reflexivity|]. split; [vm_compute; reflexivity|].
    replace (remove_overlaps _) with [mklint (mkspan 2 4) 0] by (vm_compute; reflexivity).
    constructor; [|constructor; constructor]. constructor; [|constructor].
    unfold disjoint_pair, covers. cbn. repeat split; try reflexivity; try lia.
  - split; [repeat constructor|]. split; [vm_compute; reflexivity|]. split; [vm_compute; reflexivity|].
    replace (remove_overlaps _) with [mklint (mkspan 0 4) 0] by (vm_compute; reflexivity).
    split; [|vm_compute; reflexivity].
    constructor; [|constructor; constructor]. constructor; [|constructor].
    unfold no_common_char, covers. cbn. intros c. lia.
Qed.

Lemma maximal_example :
  let ls := [mklint (mkspan 0 4) 0; mklint (mkspan 3 6) 1; mklint (mkspan 4 5) 2] in
  let d := mklint (mkspan 3 6) 1 in
  Forall lwf ls /\ In d (dropped ls) /\ lstart d < lend d /\
  map lid (remove_overlaps ls) = [0; 2] /\ Permutation [mklint (mkspan 0 4) 0; d; mklint (mkspan 4 5) 2] (d :: remove_overlaps ls).
Proof.
  cbv zeta. split; [repeat constructor|].
  split; [vm_compute; now left|]. split; [cbn; lia|]. split; [vm_compute; reflexivity|].
  replace (remove_overlaps _) with [mklint (mkspan 0 4) 0; mklint (mkspan 4 5) 2] by (vm_compute; reflexivity).
  apply perm_swap.
Qed.

(* ---------- what the CLI's report shows ---------- *)
Lemma cover_positions_spec ks c :
  In c (cover_positions ks) <-> exists k, In k ks /\ covers k c.
Proof.
  unfold cover_positions, covers. rewrite in_flat_map. split.
  - intros [k [Hk Hc]]. exists k. split; [exact Hk|]. apply in_seq in Hc. lia.
  - intros [k [Hk Hc]]. exists k. split; [exact Hk|]. apply in_seq. lia.
Qed.

(* for well-formed raw lints no character is coloured twice: the coloured positions of the report are a
   duplicate-free, increasing list *)
Lemma cover_positions_sorted_from lo ks :
  Forall lwf ks -> Forall (fun k => lo <= lstart k) ks -> ForallOrdPairs (fun a b => lend a <= lstart b) ks ->
  StronglySorted lt (cover_positions ks) /\ Forall (le lo) (cover_positions ks).
Proof.
  revert lo. induction ks as [|k ks IH]; intros lo W G C; cbn [cover_positions flat_map].
  - split; constructor.
  - inversion W as [|? ? Wk Wr]; subst. inversion G as [|? ? Gk Gr]; subst. inversion C as [|? ? Ck Cr]; subst.
    destruct (IH (lend k) Wr Ck Cr) as [S L]. unfold lwf in Wk. split.
    + fold (cover_positions ks). clear IH. 
      assert (forall n s, (forall x, In x (cover_positions ks) -> s + n <= x) ->
                StronglySorted lt (seq s n ++ cover_positions ks)) as H.
      { induction n as [|n IHn]; intros s Hx; cbn [seq app]; [exact S|].
        constructor; [apply IHn; intros x Hin; specialize (Hx x Hin); lia|].
        apply Forall_forall. intros x Hin. apply in_app_or in Hin as [Hin|Hin].
        - apply in_seq in Hin. lia.
        - specialize (Hx x Hin). lia. }
      apply H. intros x Hin. rewrite Forall_forall in L. specialize (L x Hin). lia.
    + fold (cover_positions ks). apply Forall_forall. intros x Hin. apply in_app_or in Hin as [Hin|Hin].
      * apply in_seq in Hin. lia.
      * rewrite Forall_forall in L. specialize (L x Hin). lia.
Qed.

Theorem cli_report_spec count spans n rep :
  let raw := number_from 0 (map pair_span spans) in
  (run_cli_report count spans = (Some n, None) -> count = true /\ n = length spans) /\
  (run_cli_report count spans = (None, None) -> count = false /\ spans = []) /\
  (run_cli_report count spans = (None, Some rep) ->
     count = false /\ spans <> [] /\
     (forall c, In c (fst rep) <-> exists k, In k (remove_overlaps raw) /\ covers k c) /\
     map snd (snd rep) = map lid (remove_overlaps raw) /\
     (Forall lwf raw -> StronglySorted lt (fst rep))).
Proof.
  cbv zeta. unfold run_cli_report, cli_lint.
  assert (length (number_from 0 (map pair_span spans)) = length spans) as Len.
  { generalize 0. induction spans as [|s t IH]; intros i; cbn; [reflexivity|now rewrite IH]. }
  destruct count.
  - split; [|split]; intros H; try discriminate. injection H as <-. now split.
  - destruct spans as [|s t]; cbn [map number_from].
    + split; [|split]; intros H; try discriminate. now split.
    + split; [|split]; intros H; try discriminate. injection H as <-.
      split; [reflexivity|]. split; [discriminate|]. cbn [fst snd].
      split; [intros c; apply cover_positions_spec|]. split.
      * rewrite map_map. reflexivity.
      * intros W. pose proof (ro_disjoint _ W) as D.
        apply (cover_positions_sorted_from 0).
        -- apply Forall_forall. intros k Hk. rewrite Forall_forall in W. apply W. now apply ro_kept_in.
        -- apply Forall_forall. intros; lia.
        -- clear -D. induction D as [|a l Ha D IH]; constructor; [|exact IH].
           eapply Forall_impl; [|exact Ha]. intros b [H _]. exact H.
Qed.

(* ---------- what remove_indices requires of its queue ---------- *)
(* C13_remove_indices_spec asks for StronglySorted lt: STRICTLY increasing.  The premise cannot be weakened to
   "non-decreasing": after removing index r the closure waits for the next queue entry, and a second r never comes
   (i has moved on), so every later index is ignored — [1;1;2] removes only position 1. *)
Lemma remove_indices_needs_strict :
  StronglySorted le [1; 1; 2] /\ ~ StronglySorted lt [1; 1; 2] /\
  remove_indices 0 [1; 1; 2] [10; 11; 12] = [10; 12] /\ filter_idx 0 [1; 1; 2] [10; 11; 12] = [10].
Proof.
  split; [repeat constructor|]. split.
  - intros S. inversion S as [|? ? _ H]; subst. inversion H as [|? ? C _]; subst. lia.
  - split; vm_compute; reflexivity.
Qed.

(* and the sweep of remove_overlaps never produces such a queue, equal lints included: every index is pushed at
   most once (sweep_sorted), so remove_overlaps = "filter by position" on every input *)
Lemma ro_is_filter_idx ls : 2 <= length ls ->
  remove_overlaps ls = filter_idx 0 (sweep 0 0 (lsort ls)) (lsort ls).
Proof.
  intros H. unfold remove_overlaps. destruct (length ls <? 2) eqn:E; [apply Nat.ltb_lt in E; lia|].
  cbv zeta. apply remove_indices_filter0, sweep_sorted.
Qed.

Lemma exact_duplicates_example :
  let a := mklint (mkspan 10 20) 7 in let b := mklint (mkspan 12 15) 8 in
  remove_overlaps [a; a; b] = [a] /\ remove_overlaps [b; a; a; a] = [a] /\
  sweep 0 0 (lsort [a; a; b]) = [1; 2] /\
  (let z := mklint (mkspan 5 5) 9 in remove_overlaps [z; z; a] = [z; z; a]).
Proof. cbv zeta. repeat split; vm_compute; reflexivity. Qed.
