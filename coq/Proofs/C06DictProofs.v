(* C06DictProofs.v — theorems over the part of Tables_f24.v that the translator derives from the SOURCES of the curated
   dictionary (harper-core/dictionary.dict expanded by harper-core/affixes.json; tools/tables/_c06dict.py):
   dict_nonsimple_entries = every canonical spelling that is not a simple word (letters, or letters ' letters).

   * f24_table_from_dictionary: the entries among them that the model lexer does not cut into exactly one Word token
     ARE the committed F24 table f24_entries — a dictionary change that adds / removes a multi-token entry breaks this
     proof (vm_compute), not only the harness comparison;
   * dict_nonsimple_sound: no entry of the derived table is a simple word (the translator's classification, one
     direction; the other direction — every other entry is a simple word — is the harness's `M` / `NC` cases);
   * f24_digit_law + dict_alnum_one_word: the extended characterisation (C06AlnumProofs) applies to the table's own
     Unicode predicates. *)
Require Import Base Overlap Tables_lexer Lexer Condense Tables_f24 C06Words C06WordsProofs C06TextProofs C06AlnumProofs.
From Coq Require Import Lia.

(* membership in a table of texts, decided *)
Definition mem_text (e : text) (l : list text) : bool :=
  existsb (fun y => if list_eq_dec N.eq_dec e y then true else false) l.
Lemma mem_text_In e l : mem_text e l = true -> In e l.
Proof.
  unfold mem_text. intros H. apply existsb_exists in H as (y & Hy & E).
  destruct (list_eq_dec N.eq_dec e y) as [->|]; [exact Hy|discriminate].
Qed.

Theorem f24_table_from_dictionary :
  filter (fun e => negb (one_word f24_uni e)) dict_nonsimple_entries = f24_entries.
Proof. vm_compute. reflexivity. Qed.

Theorem dict_nonsimple_multi_iff e : In e dict_nonsimple_entries ->
  (one_word f24_uni e = false <-> In e f24_entries).
Proof.
  intros H. rewrite <- f24_table_from_dictionary. rewrite filter_In. split.
  - intros E. split; [exact H|]. rewrite E. reflexivity.
  - intros [_ E]. apply negb_true_iff in E. exact E.
Qed.

Theorem f24_entries_in_dictionary e : In e f24_entries -> In e dict_nonsimple_entries.
Proof. rewrite <- f24_table_from_dictionary. intros H. apply filter_In in H as [H _]. exact H. Qed.

Lemma dict_nonsimple_ok_check : forallb (fun e => is_ok (document_plain f24_uni e)) dict_nonsimple_entries = true.
Proof. vm_compute. reflexivity. Qed.

Theorem dict_nonsimple_no_panic e : In e dict_nonsimple_entries -> exists ts, document_plain f24_uni e = Ok ts.
Proof.
  intros H. pose proof dict_nonsimple_ok_check as C. rewrite forallb_forall in C. specialize (C e H).
  destruct (document_plain f24_uni e) as [ts|]; [eauto|discriminate].
Qed.

Lemma dict_nonsimple_size : length dict_nonsimple_entries = dict_nonsimple_count /\ NoDup dict_nonsimple_entries.
Proof.
  split; [vm_compute; reflexivity|].
  assert (D : forall (l : list (list N)),
             (fix nd (l : list (list N)) : bool :=
                match l with [] => true | x :: r => negb (existsb (fun y => if list_eq_dec N.eq_dec x y then true else false) r) && nd r end) l = true ->
             NoDup l).
  { induction l as [|x r IH]; [constructor|]. intros H. apply andb_true_iff in H as [H1 H2]. constructor; [|apply IH; exact H2].
    intros Hin. apply negb_true_iff in H1. assert (E : existsb (fun y => if list_eq_dec N.eq_dec x y then true else false) r = true).
    { apply existsb_exists. exists x. split; [exact Hin|]. destruct (list_eq_dec N.eq_dec x x); [reflexivity|contradiction]. }
    rewrite E in H1. discriminate. }
  apply D. vm_compute. reflexivity.
Qed.

(* ---------- simple_word, decided ---------- *)
Definition simple_wordb (u : uni) (w : text) : bool :=
  (negb (length w =? 0) && all_letters u w) ||
  match split_apos w with
  | Some (a, b) => negb (length a =? 0) && negb (length b =? 0) && all_letters u a && all_letters u b
  | None => false
  end.

Lemma split_apos_app (a : text) (q : char) (b : text) :
  forallb (fun c => negb (is_apostrophe_char c)) a = true -> is_apostrophe_char q = true ->
  split_apos (a ++ q :: b) = Some (a, b).
Proof.
  intros Ha Hq. induction a as [|c r IH]; cbn [app split_apos]; [rewrite Hq; reflexivity|].
  cbn [forallb] in Ha. apply andb_true_iff in Ha as [Hc Hr]. apply negb_true_iff in Hc. rewrite Hc, (IH Hr). reflexivity.
Qed.

Lemma simple_wordb_complete u : letter_laws u -> forall w, simple_word u w -> simple_wordb u w = true.
Proof.
  intros laws w [[Hne Hw]|(a & q & b & -> & Ha0 & Hb0 & Ha & Hq & Hb)]; unfold simple_wordb.
  - rewrite Hw. destruct w; [contradiction|reflexivity].
  - apply orb_true_iff. right.
    assert (Hna : forallb (fun c => negb (is_apostrophe_char c)) a = true).
    { apply forallb_forall. intros x Hx. unfold all_letters in Ha. eapply forallb_forall in Ha; [|exact Hx].
      destruct (is_apostrophe_char x) eqn:E; [|reflexivity].
      destruct laws as (_ & _ & _ & _ & _ & _ & Lq). destruct (Lq x E) as [_ L]. rewrite L in Ha. discriminate. }
    rewrite (split_apos_app a q b Hna Hq), Ha, Hb. destruct a; [contradiction|]. destruct b; [contradiction|]. reflexivity.
Qed.

Lemma dict_nonsimple_check : forallb (fun e => negb (simple_wordb f24_uni e)) dict_nonsimple_entries = true.
Proof. vm_compute. reflexivity. Qed.

Theorem dict_nonsimple_sound e : In e dict_nonsimple_entries -> ~ simple_word f24_uni e.
Proof.
  intros H S. pose proof dict_nonsimple_check as C. rewrite forallb_forall in C. specialize (C e H).
  rewrite (simple_wordb_complete f24_uni f24_letter_laws e S) in C. discriminate.
Qed.

(* ---------- the extended characterisation on the table's own predicates ---------- *)
Lemma f24_digit_law : digit_law f24_uni.
Proof.
  intros c H. apply digit_range in H.
  assert (E : (c = 48 \/ c = 49 \/ c = 50 \/ c = 51 \/ c = 52 \/ c = 53 \/ c = 54 \/ c = 55 \/ c = 56 \/ c = 57)%N) by lia.
  repeat destruct E as [->|E]; try subst c; vm_compute; reflexivity.
Qed.

Theorem dict_alnum_one_word e : alnum_wordb f24_uni e = true -> one_word f24_uni e = true.
Proof.
  intros H. apply (alnum_word_one_word f24_uni f24_letter_laws f24_digit_law). apply alnum_wordb_sound. exact H.
Qed.

(* the dictionary's own alnum words are not in the F24 table *)
Theorem dict_alnum_not_f24 e : alnum_wordb f24_uni e = true -> ~ In e f24_entries.
Proof.
  intros H Hin. destruct (f24_entries_not_one_word e Hin) as [N _]. rewrite (dict_alnum_one_word e H) in N. discriminate.
Qed.

Lemma ascii_digit_law : digit_law ascii_uni0.
Proof. intros c H. exact H. Qed.

(* ---------- the decision on a word of the extended class, written alone ---------- *)
Require Import Tables_spellnorm SpellDecision SpellDecisionProofs.

Theorem alnum_word_alone_reported (u : uni) (lc uc : char -> list char) (is_lower is_upper : char -> bool)
    (fuzzy : dict -> text -> nat -> list text) :
  letter_laws u -> digit_law u -> (forall c, uc c <> []) -> fuzzy_listed fuzzy ->
  forall D d w, dict_nodup lc is_lower D -> alnum_word u w ->
  (forall e, In e D -> word_id lc is_lower (canon e) <> word_id lc is_lower w) ->
  exists sg, lint_text u lc uc is_lower is_upper fuzzy D d w = Ok [mkslint (mkspan 0 (length w)) sg].
Proof.
  intros L Dl Huc HF D d w ND A Hun.
  exact (one_word_alone_reported u lc uc is_lower is_upper fuzzy Huc HF D d w ND (alnum_word_one_word u L Dl w A) Hun).
Qed.

Theorem alnum_word_alone_accepted (u : uni) (lc uc : char -> list char) (is_lower is_upper : char -> bool)
    (fuzzy : dict -> text -> nat -> list text) :
  letter_laws u -> digit_law u -> lower_fix lc is_lower ->
  forall D d e w, dict_nodup lc is_lower D -> In e D -> dialect_ok (edialect e) d = true ->
  alnum_word u w -> listed_form lc uc is_lower e w ->
  lint_text u lc uc is_lower is_upper fuzzy D d w = Ok [].
Proof.
  intros L Dl HL D d e w ND Hin Hd A Hw.
  exact (one_word_alone_accepted u lc uc is_lower is_upper fuzzy HL D d e w ND Hin Hd (alnum_word_one_word u L Dl w A) Hw).
Qed.
