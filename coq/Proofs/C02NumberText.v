(* C02NumberText.v — "a number token's text denotes its numeric value and ordinal suffix", at full strength and
   independently of the parsing FUNCTIONS of the model: the text of a Number token is
        literal ++ suffix letters
   where the literal is described by a GRAMMAR (DecLit: sign, integer digits, optional `.` + fraction digits,
   optional exponent; or HexLit: `0x` + hex digits) and the stored value is the POSITIONAL value of those digits
   (pos_value: sum of digit * base^position), the stored exponent the written exponent minus the number of fraction
   digits, the stored precision the number of characters after the last `.`, and the two suffix letters are the ones
   NumberSuffix::from_chars maps to the stored suffix.  DecLit is proved EQUIVALENT to Lexer.parse_f64 (the dec2flt
   grammar as the model runs it), so nothing is lost or added by the characterisation. *)
Require Import Base Overlap Tables_lexer Lexer Condense ListLemmas TokenInv CondenseInv LexerProofs Shape
  NumberFinite DocumentProofs.
From Coq Require Import List Arith NArith NArithRing ZArith Lia.
Import ListNotations.

(* ---------- positional value ---------- *)
Fixpoint pos_value (base : N) (dv : N -> N) (ds : text) : N :=
  match ds with
  | [] => 0%N
  | d :: r => (dv d * base ^ N.of_nat (length r) + pos_value base dv r)%N
  end.

Lemma horner_pos base dv : forall ds acc,
  fold_left (fun a c => (a * base + dv c)%N) ds acc = (acc * base ^ N.of_nat (length ds) + pos_value base dv ds)%N.
Proof.
  induction ds as [|d r IH]; intros acc.
  - cbn. rewrite N.mul_1_r, N.add_0_r. reflexivity.
  - cbn [fold_left pos_value length]. rewrite IH. rewrite Nat2N.inj_succ, N.pow_succ_r'.
    rewrite N.mul_add_distr_r, <- !N.mul_assoc, !N.add_assoc. reflexivity.
Qed.

Lemma digits_val_pos ds : digits_val ds = pos_value 10 digit_val ds.
Proof. unfold digits_val. rewrite horner_pos. cbn. reflexivity. Qed.
Lemma hex_digits_val_pos ds : hex_digits_val ds = pos_value 16 hex_val ds.
Proof. unfold hex_digits_val. rewrite horner_pos. cbn. reflexivity. Qed.

(* ---------- the grammar of a decimal literal ---------- *)
Definition all_digits (ds : text) : Prop := Forall (fun c => is_ascii_digit c = true) ds.
Definition no_digit_head (r : text) : Prop := match r with c :: _ => is_ascii_digit c = false | [] => True end.
Definition sign_of (sg : text) (neg : bool) : Prop :=
  (sg = [] /\ neg = false) \/ (sg = [43%N] /\ neg = false) \/ (sg = [45%N] /\ neg = true).

(* the exponent part: nothing (E = 0), or [eE] sign? digit+ *)
Definition ExpPart (ee : text) (E : Z) : Prop :=
  (ee = [] /\ E = 0%Z) \/
  exists m sg eneg ds, ee = m :: sg ++ ds /\ (m = 101%N \/ m = 69%N) /\ sign_of sg eneg /\ ds <> [] /\ all_digits ds /\
    E = (if eneg then - Z.of_N (pos_value 10 digit_val ds) else Z.of_N (pos_value 10 digit_val ds))%Z.

(* lit = sign? ip [. fp] exponent?   denotes   (-1)^neg * (ip.fp) * 10^E,  stored as  mant = the digits ip fp read as
   one integer,  ex = E - |fp| *)
Definition DecLit (lit : text) (neg : bool) (mant : N) (ex : Z) : Prop :=
  exists sg ip dotfp fp ee E,
    lit = sg ++ ip ++ dotfp ++ ee /\ sign_of sg neg /\ all_digits ip /\ all_digits fp /\
    ((dotfp = [] /\ fp = []) \/ dotfp = 46%N :: fp) /\ (ip <> [] \/ fp <> []) /\
    ExpPart ee E /\
    mant = pos_value 10 digit_val (ip ++ fp) /\ ex = (E - Z.of_nat (length fp))%Z.

Lemma span_digits_spec : forall l d r, span_digits l = (d, r) -> l = d ++ r /\ all_digits d /\ no_digit_head r.
Proof.
  induction l as [|c t IH]; intros d r H; cbn [span_digits] in H.
  - inversion H; subst. repeat split; constructor.
  - destruct (is_ascii_digit c) eqn:E.
    + destruct (span_digits t) as [d' r'] eqn:E'. inversion H; subst. destruct (IH d' r eq_refl) as [H1 [H2 H3]].
      split; [cbn [app]; f_equal; exact H1|]. split; [constructor; assumption|exact H3].
    + inversion H; subst. repeat split; [constructor|cbn; exact E].
Qed.

Lemma span_digits_complete : forall d r, all_digits d -> no_digit_head r -> span_digits (d ++ r) = (d, r).
Proof.
  induction d as [|c d IH]; intros r Hd Hr; cbn [app].
  - destruct r as [|c r]; [reflexivity|]. cbn [span_digits]. cbn in Hr. rewrite Hr. reflexivity.
  - inversion Hd; subst. cbn [span_digits]. rewrite H1, (IH r H2 Hr). reflexivity.
Qed.

Lemma split_sign_spec l neg l1 : split_sign l = (neg, l1) ->
  exists sg, l = sg ++ l1 /\ sign_of sg neg /\
    (sg = [] -> match l1 with c :: _ => c <> 43%N /\ c <> 45%N | [] => True end).
Proof.
  unfold split_sign. destruct l as [|c t].
  - intros H; inversion H; subst. exists []. split; [reflexivity|]. split; [left; auto|auto].
  - unfold ceq. destruct (N.eqb_spec c 43) as [->|N1].
    + intros H; inversion H; subst. exists [43%N]. split; [reflexivity|]. split; [right; left; auto|discriminate].
    + destruct (N.eqb_spec c 45) as [->|N2]; intros H; inversion H; subst.
      * exists [45%N]. split; [reflexivity|]. split; [right; right; auto|discriminate].
      * exists []. split; [reflexivity|]. split; [left; auto|]. intros _. split; assumption.
Qed.

Lemma digit_not_sign c : is_ascii_digit c = true -> c <> 43%N /\ c <> 45%N /\ c <> 46%N /\ c <> 101%N /\ c <> 69%N.
Proof.
  unfold is_ascii_digit, in_range. intros H. apply andb_true_iff in H as [H1 H2].
  apply N.leb_le in H1, H2. repeat split; intros ->; lia.
Qed.

Lemma split_sign_complete sg neg l1 : sign_of sg neg ->
  match l1 with c :: _ => c <> 43%N /\ c <> 45%N | [] => True end ->
  split_sign (sg ++ l1) = (neg, l1).
Proof.
  intros [[-> ->]|[[-> ->]|[-> ->]]] H; cbn [app]; [|reflexivity|reflexivity].
  unfold split_sign. destruct l1 as [|c t]; [reflexivity|]. destruct H as [H1 H2]. unfold ceq.
  destruct (N.eqb_spec c 43); [contradiction|]. destruct (N.eqb_spec c 45); [contradiction|]. reflexivity.
Qed.

Lemma parse_exp_spec l e : parse_exp l = Some e ->
  exists sg eneg ds, l = sg ++ ds /\ sign_of sg eneg /\ ds <> [] /\ all_digits ds /\
    e = (if eneg then - Z.of_N (pos_value 10 digit_val ds) else Z.of_N (pos_value 10 digit_val ds))%Z.
Proof.
  unfold parse_exp. destruct (split_sign l) as [neg l1] eqn:E1. destruct (span_digits l1) as [ds r] eqn:E2.
  destruct (split_sign_spec _ _ _ E1) as [sg [H1 [H2 _]]]. destruct (span_digits_spec _ _ _ E2) as [H3 [H4 _]].
  destruct ds as [|d ds]; [discriminate|]. destruct r; [|discriminate]. intros H; inversion H; subst.
  rewrite app_nil_r. exists sg, neg, (d :: ds). rewrite digits_val_pos.
  repeat split; try assumption; try discriminate.
Qed.

Lemma parse_exp_complete sg eneg ds : sign_of sg eneg -> ds <> [] -> all_digits ds ->
  parse_exp (sg ++ ds) = Some (if eneg then - Z.of_N (pos_value 10 digit_val ds) else Z.of_N (pos_value 10 digit_val ds))%Z.
Proof.
  intros Hs Hne Hd. unfold parse_exp. rewrite (split_sign_complete sg eneg ds Hs).
  2:{ destruct ds as [|c t]; [exact I|]. inversion Hd; subst. destruct (digit_not_sign c H1) as (A & B & _). auto. }
  rewrite <- (app_nil_r ds) at 1. rewrite (span_digits_complete ds [] Hd I).
  destruct ds; [contradiction|]. rewrite digits_val_pos. destruct eneg; reflexivity.
Qed.

(* the model's str::parse::<f64> accepts exactly the literals of the grammar, with exactly the denoted value *)
Theorem parse_f64_declit lit neg mant ex : parse_f64 lit = Some (neg, mant, ex) <-> DecLit lit neg mant ex.
Proof.
  split.
  - unfold parse_f64. destruct (split_sign lit) as [ng s1] eqn:E1. destruct (span_digits s1) as [ip r1] eqn:E2.
    destruct (split_sign_spec _ _ _ E1) as [sg [H1 [H2 _]]]. destruct (span_digits_spec _ _ _ E2) as [H3 [H4 H5]].
    set (P := match r1 with
              | c :: t => if ceq c 46 then span_digits t else ([], r1)
              | [] => ([], [])
              end).
    assert (HP : exists fp r2 dotfp, P = (fp, r2) /\ r1 = dotfp ++ r2 /\ all_digits fp /\
                   ((dotfp = [] /\ fp = []) \/ dotfp = 46%N :: fp)).
    { unfold P. destruct r1 as [|c t].
      - exists [], [], []. repeat split; [constructor|left; auto].
      - unfold ceq. destruct (N.eqb_spec c 46) as [->|Hn].
        + destruct (span_digits t) as [fp r2] eqn:E3. destruct (span_digits_spec _ _ _ E3) as [F1 [F2 _]].
          exists fp, r2, (46%N :: fp). repeat split; [cbn [app]; f_equal; exact F1|exact F2|right; reflexivity].
        + exists [], (c :: t), []. repeat split; [constructor|left; auto]. }
    destruct HP as (fp & r2 & dotfp & -> & Hr1 & Hfp & Hdot).
    intros H.
    assert (Hne : ip <> [] \/ fp <> []).
    { destruct ip; [|left; discriminate]. destruct fp; [discriminate|right; discriminate]. }
    assert (Hbody : (match r2 with
                     | [] => Some (ng, digits_val (ip ++ fp), (- Z.of_nat (length fp))%Z)
                     | c :: t => if ceq c 101 || ceq c 69
                                 then match parse_exp t with
                                      | Some e => Some (ng, digits_val (ip ++ fp), (e + - Z.of_nat (length fp))%Z)
                                      | None => None
                                      end
                                 else None
                     end) = Some (neg, mant, ex)).
    { destruct ip; [destruct fp; [discriminate|exact H]|exact H]. }
    clear H. subst lit s1 r1.
    destruct r2 as [|c t].
    + inversion Hbody; subst. exists sg, ip, dotfp, fp, [], 0%Z. rewrite digits_val_pos.
      assert (HE : ExpPart [] 0%Z) by (left; auto).
      repeat split; try assumption; try reflexivity; lia.
    + unfold ceq in Hbody. destruct ((c =? 101)%N || (c =? 69)%N) eqn:Ec; [|discriminate].
      destruct (parse_exp t) as [e|] eqn:Ee; [|discriminate]. inversion Hbody; subst.
      destruct (parse_exp_spec _ _ Ee) as (sg2 & eneg & ds & -> & S1 & S2 & S3 & ->).
      exists sg, ip, dotfp, fp, (c :: sg2 ++ ds),
        (if eneg then - Z.of_N (pos_value 10 digit_val ds) else Z.of_N (pos_value 10 digit_val ds))%Z.
      rewrite digits_val_pos.
      assert (HE : ExpPart (c :: sg2 ++ ds)
                     (if eneg then - Z.of_N (pos_value 10 digit_val ds) else Z.of_N (pos_value 10 digit_val ds))%Z).
      { right. exists c, sg2, eneg, ds. repeat split; try assumption.
        apply orb_true_iff in Ec as [Ec|Ec]; apply N.eqb_eq in Ec; auto. }
      repeat split; try assumption; try reflexivity; lia.
  - intros (sg & ip & dotfp & fp & ee & E & -> & Hs & Hip & Hfp & Hdot & Hne & HE & -> & ->).
    assert (Hee : no_digit_head ee /\ match ee with c :: _ => c <> 46%N | [] => True end).
    { destruct HE as [[-> _]|(m & sg2 & eneg & ds & -> & Hm & _)]; [split; exact I|].
      cbn. destruct Hm as [-> | ->]; split; try reflexivity; discriminate. }
    destruct Hee as [Hee1 Hee2].
    unfold parse_f64.
    rewrite (split_sign_complete sg neg (ip ++ dotfp ++ ee) Hs).
    2:{ destruct ip as [|c t]; cbn [app].
        - destruct Hdot as [[-> ->]| ->]; [destruct Hne; contradiction|]. cbn [app]. split; discriminate.
        - inversion Hip; subst. destruct (digit_not_sign c H1) as (A & B & _). auto. }
    assert (Hnd : no_digit_head (dotfp ++ ee)).
    { destruct Hdot as [[-> _]| ->]; [exact Hee1|reflexivity]. }
    rewrite (span_digits_complete ip (dotfp ++ ee) Hip Hnd).
    lazymatch goal with |- match ?X with pair _ _ => _ end = _ => assert (HP : X = (fp, ee)) end.
    { destruct Hdot as [[-> ->]| ->]; cbn [app].
      - destruct ee as [|c t]; [reflexivity|]. unfold ceq. destruct (N.eqb_spec c 46); [contradiction|reflexivity].
      - cbn. apply span_digits_complete; assumption. }
    rewrite HP.
    assert (Hgo : (match ee with
                   | [] => Some (neg, digits_val (ip ++ fp), (- Z.of_nat (length fp))%Z)
                   | c :: t => if ceq c 101 || ceq c 69
                               then match parse_exp t with
                                    | Some e => Some (neg, digits_val (ip ++ fp), (e + - Z.of_nat (length fp))%Z)
                                    | None => None
                                    end
                               else None
                   end) = Some (neg, pos_value 10 digit_val (ip ++ fp), (E - Z.of_nat (length fp))%Z)).
    { rewrite digits_val_pos. destruct HE as [[-> ->]|(m & sg2 & eneg & ds & -> & Hm & S1 & S2 & S3 & ->)].
      - reflexivity.
      - rewrite (parse_exp_complete sg2 eneg ds S1 S2 S3).
        assert (ceq m 101 || ceq m 69 = true) as ->.
        { unfold ceq. destruct Hm as [-> | ->]; reflexivity. }
        f_equal. }
    destruct ip; [destruct fp; [destruct Hne; contradiction|exact Hgo]|exact Hgo].
Qed.

(* ---------- the text of a Number token ---------- *)
Definition all_hexdigits (ds : text) : Prop := Forall (fun c => is_ascii_hexdigit c = true) ds.

(* what the property's clause says, kind by kind: decimal literal, hex literal, and the suffix letters *)
Definition literal_denotes (nb : number) (lit : text) : Prop :=
  (n_radix nb = 10 /\ DecLit lit (n_neg nb) (n_mant nb) (n_exp10 nb) /\
   below_overflow (n_mant nb) (n_exp10 nb) /\ n_precision nb = precision_of lit)
  \/ (n_radix nb = 16 /\ exists ds, lit = 48%N :: 120%N :: ds /\ ds <> [] /\ all_hexdigits ds /\
      n_mant nb = pos_value 16 hex_val ds /\ n_neg nb = false /\ n_exp10 nb = 0%Z /\ n_precision nb = 0).

Definition number_text_denotes (nb : number) (txt : text) : Prop :=
  exists lit sfx, txt = lit ++ sfx /\ literal_denotes nb lit /\
    match n_suffix nb with
    | None => sfx = []
    | Some s => exists a b, sfx = [a; b] /\ suffix_from_chars a b = Some s
    end.

Lemma lit_denotes_literal nb lit : lit_denotes nb lit -> literal_denotes nb lit.
Proof.
  intros [(R & P & F & Pr)|(R & ds & E & Hne & Hh & M & Ng & Ex & Pr)].
  - left. split; [exact R|]. split; [apply parse_f64_declit; exact P|]. split; [apply f64_finite_spec; exact F|exact Pr].
  - right. split; [exact R|]. exists ds. split; [exact E|]. split; [exact Hne|]. split.
    + unfold all_hexdigits. apply Forall_forall. intros c Hc. rewrite forallb_forall in Hh. auto.
    + split; [rewrite <- hex_digits_val_pos; exact M|]. auto.
Qed.

Lemma number_shape_denotes sfx nb txt : number_shape sfx nb txt -> number_text_denotes nb txt.
Proof.
  unfold number_shape, number_text_denotes. destruct (n_suffix nb) as [s|] eqn:Es.
  - intros (_ & lit & a & b & -> & D & F). exists lit, [a; b]. split; [reflexivity|].
    split; [eapply lit_denotes_literal; exact D|]. exists a, b. auto.
  - intros D. exists txt, []. split; [rewrite app_nil_r; reflexivity|]. split; [eapply lit_denotes_literal; exact D|reflexivity].
Qed.

Definition number_tok_denotes (src : text) (t : token) : Prop :=
  match tkind_of t with KNumber nb => number_text_denotes nb (tok_text src t) | _ => True end.

Lemma shape_number_text u s e src ts : Shape u s e src ts -> Forall (number_tok_denotes src) ts.
Proof.
  intros H. eapply Forall_impl; [|exact H]. intros t [_ K]. unfold number_tok_denotes.
  destruct (tkind_of t); try exact I. cbn [kind_shape] in K. eapply number_shape_denotes. exact K.
Qed.

(* every Number token of a plain-English document: its text is literal ++ suffix letters as above *)
Theorem document_number_text u (laws : uni_laws u) s :
  exists ts, document_plain u s = Ok ts /\ Forall (number_tok_denotes s) ts.
Proof.
  destruct (document_plain_ok u laws s) as [ts [E [_ [S _]]]]. exists ts. split; [exact E|].
  eapply shape_number_text. exact S.
Qed.

Print Assumptions parse_f64_declit.
Print Assumptions document_number_text.
