(* EffectsSaveProofs.v — C10: the paths save_dict writes (Model/EffectsSave.v) stay inside what the run-time monitor
   accepts (Model/Effects.v), for every URL file path and every clean absolute configured path.  (Before 08b9da8 the
   EMPTY file-dictionary name — document URI `file:///` — put the temporary file NEXT TO the file-dictionary
   directory: finding FC10a, kept below as a history witness over file_dict_plan_old.) *)
Require Import Base EffectsBase Effects EffectsProofs EffectsSave.
From Coq Require Import String.
Open Scope list_scope.

Definition ns (b : bytes) : Prop := forall x, In x b -> x <> slash.
Definition clean (cs : list bytes) : Prop := forall c, In c cs -> c <> dotdot.

Lemma beqb_refl : forall a, beqb a a = true.
Proof. intros a. apply beqb_eq. reflexivity. Qed.

Lemma beqb_neq : forall a b, a <> b -> beqb a b = false.
Proof. intros a b H. destruct (beqb a b) eqn:E; [apply beqb_eq in E; contradiction | reflexivity]. Qed.

(* ---- components ---- *)
Lemma split_aux_ns : forall p cur, ns cur -> forall s, In s (split_aux p cur) -> ns s.
Proof.
  induction p as [| c r IH]; intros cur Hcur s Hin; cbn [split_aux] in Hin.
  - destruct Hin as [E | []]. subst s. intros x Hx. apply Hcur. apply in_rev. exact Hx.
  - destruct (c =? slash)%N eqn:Ec.
    + destruct Hin as [E | Hin].
      * subst s. intros x Hx. apply Hcur. apply in_rev. exact Hx.
      * apply (IH [] (fun x (H : In x []) => match H with end) s Hin).
    + apply (IH (c :: cur)); [| exact Hin].
      intros x [E | Hx]; [subst x; apply N.eqb_neq; exact Ec | apply Hcur; exact Hx].
Qed.

Lemma comps_ns : forall p c, In c (comps p) -> ns c.
Proof.
  intros p c H. unfold comps in H. apply filter_In in H. destruct H as [H _].
  apply (split_aux_ns p [] (fun x (H : In x []) => match H with end) c H).
Qed.

Lemma split_aux_single : forall p cur, ns p -> split_aux p cur = [rev cur ++ p].
Proof.
  induction p as [| c r IH]; intros cur Hp; cbn [split_aux].
  - rewrite app_nil_r. reflexivity.
  - assert (Ec : (c =? slash)%N = false) by (apply N.eqb_neq; apply Hp; left; reflexivity).
    rewrite Ec. rewrite IH; [| intros x Hx; apply Hp; right; exact Hx].
    cbn [rev]. rewrite <- app_assoc. reflexivity.
Qed.

Lemma comps_single : forall n, ns n -> n <> [] -> n <> onedot -> comps n = [n].
Proof.
  intros n Hn H0 H1. unfold comps. rewrite split_aux_single by exact Hn. cbn [rev app filter].
  unfold keep_comp. rewrite (beqb_neq _ _ H0), (beqb_neq _ _ H1). reflexivity.
Qed.

(* ---- file_dict_name: never contains a path separator, so it is ONE relative component (or empty) ---- *)
Lemma file_dict_name_ns : forall fp, ns (file_dict_name fp).
Proof.
  intros fp x Hx. unfold file_dict_name in Hx. apply in_flat_map in Hx. destruct Hx as [c [Hc Hx]].
  apply in_app_or in Hx. destruct Hx as [Hx | [E | []]].
  - exact (comps_ns fp c Hc x Hx).
  - subst x. discriminate.
Qed.

Lemma file_dict_name_percent : forall fp, file_dict_name fp <> [] -> In percent (file_dict_name fp).
Proof.
  intros fp H. unfold file_dict_name in *. destruct (comps fp) as [| c rest]; [exfalso; apply H; reflexivity |].
  cbn [flat_map]. apply in_or_app. left. apply in_or_app. right. left. reflexivity.
Qed.

(* ---- resolve / render ---- *)
Lemma resolve_aux_clean : forall cs acc, clean cs -> resolve_aux cs acc = rev acc ++ cs.
Proof.
  induction cs as [| c r IH]; intros acc H; cbn [resolve_aux].
  - rewrite app_nil_r. reflexivity.
  - rewrite (beqb_neq c dotdot) by (apply H; left; reflexivity).
    rewrite IH by (intros x Hx; apply H; right; exact Hx). cbn [rev]. rewrite <- app_assoc. reflexivity.
Qed.

Lemma resolve_clean : forall cs, clean cs -> resolve cs = cs.
Proof. intros cs H. unfold resolve. rewrite resolve_aux_clean by exact H. reflexivity. Qed.

Lemma render'_snoc : forall l x, render' (l ++ [x]) = render' l ++ slash :: x.
Proof.
  induction l as [| a l IH]; intros x; cbn [app render' flat_map].
  - rewrite app_nil_r. reflexivity.
  - fold (render' (l ++ [x])). fold (render' l). rewrite IH. rewrite <- app_assoc. reflexivity.
Qed.

Lemma render_nonempty : forall cs, cs <> [] -> render cs = render' cs.
Proof. intros [| c cs] H; [exfalso; apply H; reflexivity | reflexivity]. Qed.

Lemma snoc_nonempty : forall (A : Type) (l : list A) x, l ++ [x] <> [].
Proof. intros A l x H. apply app_eq_nil in H. destruct H as [_ H]. discriminate H. Qed.

Lemma tmp_comps_snoc : forall l n, n <> dotdot -> tmp_comps (l ++ [n]) = l ++ [n ++ tmp_suffix].
Proof.
  intros l n H. unfold tmp_comps. rewrite rev_unit. rewrite (beqb_neq _ _ H). rewrite rev_involutive. reflexivity.
Qed.

Lemma clean_snoc : forall l x, clean l -> x <> dotdot -> clean (l ++ [x]).
Proof. intros l x Hl Hx c Hc. apply in_app_or in Hc. destruct Hc as [Hc | [E | []]]; [apply Hl; exact Hc | subst c; exact Hx]. Qed.

(* save_dict on a clean destination l ++ [n]: opens and renames `<dst>.tmp`, onto `<dst>` *)
Lemma save_plan_snoc : forall l n, clean l -> n <> dotdot -> n ++ tmp_suffix <> dotdot ->
  save_plan (l ++ [n]) =
  (render' l ++ slash :: n ++ tmp_suffix, render' l ++ slash :: n ++ tmp_suffix, render' l ++ slash :: n).
Proof.
  intros l n Hl Hn Ht. unfold save_plan. rewrite (tmp_comps_snoc l n Hn).
  rewrite !resolve_clean by (apply clean_snoc; assumption).
  rewrite !render_nonempty by apply snoc_nonempty. rewrite !render'_snoc. reflexivity.
Qed.

(* ---- the directory part of <dir>/<slash-free name> is <dir> ---- *)
Lemma dir_of_aux_noslash : forall t acc cur, ns t -> dir_of_aux t acc cur = acc.
Proof.
  induction t as [| y t IH]; intros acc cur Ht; cbn [dir_of_aux]; [reflexivity |].
  rewrite (proj2 (N.eqb_neq y slash)) by (apply Ht; left; reflexivity).
  apply IH. intros x Hx. apply Ht. right. exact Hx.
Qed.

Lemma dir_of_aux_child : forall n p acc cur, ns n -> dir_of_aux (p ++ slash :: n) acc cur = (acc ++ cur) ++ p.
Proof.
  intros n p. induction p as [| x p IH]; intros acc cur Hn; cbn [app dir_of_aux].
  - rewrite N.eqb_refl. rewrite dir_of_aux_noslash by exact Hn. rewrite app_nil_r. reflexivity.
  - destruct (x =? slash)%N eqn:Ex.
    + rewrite IH by exact Hn. rewrite <- !app_assoc. reflexivity.
    + rewrite IH by exact Hn. rewrite <- !app_assoc. reflexivity.
Qed.

Lemma dir_of_child : forall p n, ns n -> dir_of (p ++ slash :: n) = p.
Proof. intros p n Hn. unfold dir_of. rewrite dir_of_aux_child by exact Hn. reflexivity. Qed.

(* ---- names_file: Path::file_name() is Some ---- *)
Lemma names_file_snoc : forall cs, names_file cs = true -> exists l n, cs = l ++ [n] /\ n <> dotdot.
Proof.
  intros cs H. unfold names_file in H. destruct (rev cs) as [| n r] eqn:E; [discriminate H |].
  exists (rev r), n. split.
  - rewrite <- (rev_involutive cs), E. reflexivity.
  - intros En. subst n. rewrite beqb_refl in H. discriminate H.
Qed.

Lemma names_file_snoc_intro : forall l n, n <> dotdot -> names_file (l ++ [n]) = true.
Proof. intros l n H. unfold names_file. rewrite rev_unit. rewrite (beqb_neq _ _ H). reflexivity. Qed.

Lemma save_dict_plan_snoc : forall l n, n <> dotdot -> save_dict_plan (l ++ [n]) = Some (save_plan (l ++ [n])).
Proof. intros l n H. unfold save_dict_plan. rewrite (names_file_snoc_intro l n H). reflexivity. Qed.

(* ---- the theorems ---- *)

(* HarperAddToFileDict, any document whose URL has a file path with at least one component: the temporary file and the
   dictionary are both files directly inside the configured file-dictionary directory, whatever the URL is
   (absolute, `..`, %2F …: file_dict_name flattens every component into one slash-free name) *)
Lemma file_dict_save_named : forall c filedir fp,
  comps filedir <> [] -> clean (comps filedir) -> m_filedir c = render (comps filedir) ->
  file_dict_name fp <> [] ->
  let d := m_filedir c ++ slash :: file_dict_name fp in
  file_dict_plan filedir (Some fp) = Some (d ++ tmp_suffix, d ++ tmp_suffix, d) /\
  path_allowed c (d ++ tmp_suffix) = true /\ path_allowed c d = true /\ rename_allowed c (d ++ tmp_suffix) d = true.
Proof.
  intros c filedir fp HF Hclean Hm Hname. cbv zeta.
  set (name := file_dict_name fp) in *.
  assert (Hns : ns name) by apply file_dict_name_ns.
  assert (Hpc : In percent name) by (apply file_dict_name_percent; exact Hname).
  assert (Hnd : name <> dotdot) by (intros E; rewrite E in Hpc; destruct Hpc as [E' | [E' | []]]; discriminate E').
  assert (Hn1 : name <> onedot) by (intros E; rewrite E in Hpc; destruct Hpc as [E' | []]; discriminate E').
  assert (Htd : name ++ tmp_suffix <> dotdot).
  { intros E. assert (Hin : In percent (name ++ tmp_suffix)) by (apply in_or_app; left; exact Hpc).
    rewrite E in Hin. destruct Hin as [E' | [E' | []]]; discriminate E'. }
  assert (Hd : dir_of (m_filedir c ++ slash :: name) = m_filedir c) by (apply dir_of_child; exact Hns).
  split; [| split; [| split]].
  - unfold file_dict_plan. fold name. rewrite (beqb_neq _ _ Hname). unfold join_comps.
    destruct name as [| c0 rest] eqn:En; [exfalso; apply Hname; reflexivity |].
    rewrite (proj2 (N.eqb_neq c0 slash)) by (apply Hns; left; reflexivity).
    rewrite <- En in *. rewrite (comps_single name Hns Hname Hn1).
    rewrite (save_dict_plan_snoc _ _ Hnd). f_equal.
    rewrite (save_plan_snoc _ _ Hclean Hnd Htd). rewrite Hm, (render_nonempty _ HF).
    rewrite <- !app_assoc. cbn [app]. reflexivity.
  - unfold path_allowed. replace (m_filedir c ++ slash :: name ++ tmp_suffix) with (tmp_of (m_filedir c ++ slash :: name))
      by (unfold tmp_of; rewrite <- app_assoc; reflexivity).
    replace ((m_filedir c ++ slash :: name) ++ tmp_suffix) with (tmp_of (m_filedir c ++ slash :: name)) by reflexivity.
    rewrite dir_of_tmp, Hd, beqb_refl. rewrite !orb_true_r. reflexivity.
  - unfold path_allowed. rewrite Hd, beqb_refl. rewrite !orb_true_r. reflexivity.
  - unfold rename_allowed, dict_file. rewrite Hd, beqb_refl. rewrite orb_true_r. cbn [andb].
    unfold tmp_of. apply beqb_refl.
Qed.

(* HarperAddToUserDict with a clean absolute userDictPath that names a file: `<user>.tmp` then rename onto `<user>` *)
Theorem user_dict_save_inside : forall c user,
  comps user <> [] -> clean (comps user) -> m_user c = render (comps user) ->
  user_dict_plan user = Some (m_user c ++ tmp_suffix, m_user c ++ tmp_suffix, m_user c) /\
  path_allowed c (m_user c ++ tmp_suffix) = true /\ path_allowed c (m_user c) = true /\
  rename_allowed c (m_user c ++ tmp_suffix) (m_user c) = true.
Proof.
  intros c user HU Hclean Hm.
  destruct (exists_last HU) as [l [n E]].
  assert (Hn : n <> dotdot) by (apply Hclean; rewrite E; apply in_or_app; right; left; reflexivity).
  assert (Hl : clean l) by (intros x Hx; apply Hclean; rewrite E; apply in_or_app; left; exact Hx).
  assert (Ht : n ++ tmp_suffix <> dotdot).
  { intros E'. apply (f_equal (@List.length N)) in E'. rewrite app_length in E'. cbn in E'. lia. }
  split; [| split; [| split]].
  - unfold user_dict_plan. rewrite E, (save_dict_plan_snoc l n Hn). f_equal. rewrite (save_plan_snoc l n Hl Hn Ht).
    rewrite Hm, E, (render_nonempty _ (snoc_nonempty _ l n)), render'_snoc.
    rewrite <- !app_assoc. cbn [app]. reflexivity.
  - unfold path_allowed, tmp_of. rewrite (beqb_refl (m_user c ++ tmp_suffix)). rewrite !orb_true_r. reflexivity.
  - unfold path_allowed. rewrite beqb_refl. reflexivity.
  - unfold rename_allowed, dict_file, tmp_of. rewrite !beqb_refl. reflexivity.
Qed.

(* HarperAddToFileDict, ANY document URI (no hypothesis on the URL or its file path): whenever something is written at
   all, it is `<dir>/<name>.tmp`, renamed onto `<dir>/<name>`, <name> the non-empty slash-free file-dictionary name —
   both files directly inside the configured file-dictionary directory, accepted by the monitor *)
Theorem file_dict_save_inside : forall c filedir fp o s d,
  comps filedir <> [] -> clean (comps filedir) -> m_filedir c = render (comps filedir) ->
  file_dict_plan filedir fp = Some (o, s, d) ->
  (exists p, fp = Some p /\ file_dict_name p <> [] /\ d = m_filedir c ++ slash :: file_dict_name p /\
             o = d ++ tmp_suffix /\ s = o) /\
  path_allowed c o = true /\ path_allowed c d = true /\ rename_allowed c s d = true.
Proof.
  intros c filedir fp o s d HF Hc Hm H. unfold file_dict_plan in H. destruct fp as [p |]; [| discriminate H].
  destruct (beqb (file_dict_name p) []) eqn:E; [discriminate H |].
  assert (Hn : file_dict_name p <> []) by (intros E'; rewrite E', beqb_refl in E; discriminate E).
  destruct (file_dict_save_named c filedir p HF Hc Hm Hn) as [Hp [H1 [H2 H3]]].
  unfold file_dict_plan in Hp. rewrite E in Hp. rewrite H in Hp. inversion Hp; subst o s d.
  split; [| repeat split; assumption].
  exists p. split; [reflexivity |]. split; [exact Hn |]. split; [reflexivity |]. split; reflexivity.
Qed.

(* and a URL whose file path has no component (`file:///`) writes nothing (08b9da8) *)
Lemma file_dict_no_name_nothing : forall filedir p, file_dict_name p = [] -> file_dict_plan filedir (Some p) = None.
Proof. intros filedir p H. unfold file_dict_plan. rewrite H. reflexivity. Qed.

(* HISTORY — FC10a, fixed by 08b9da8.  Over the OLD definition file_dict_plan_old (the empty name was joined too):
   `file:///` has the file path "/", no component; file_dict_path.join("") is "<dir>/", whose file name is the
   directory's own name: save_dict created `<dir>.tmp` NEXT TO the file-dictionary directory and tried to rename it
   onto "<dir>/".  The monitor rejects both system calls; the current definition writes nothing for this input. *)
Lemma file_dict_empty_name_old_refuted :
  let c := mkcfg (bytes_of_string "/s/cfg/user.txt"%string) (bytes_of_string "/s/fd"%string) (bytes_of_string "/s/data/stats.txt"%string) [] in
  exists fp, file_dict_name fp = [] /\
    file_dict_plan_old (m_filedir c) (Some fp) =
      Some (bytes_of_string "/s/fd.tmp"%string, bytes_of_string "/s/fd.tmp"%string, bytes_of_string "/s/fd"%string) /\
    judge c (EvOpen true (bytes_of_string "/s/fd.tmp"%string)) = VWrite /\
    judge c (EvRename (bytes_of_string "/s/fd.tmp"%string) (bytes_of_string "/s/fd"%string)) = VWrite /\
    file_dict_plan (m_filedir c) (Some fp) = None.
Proof. cbv zeta. exists [slash]. vm_compute. repeat split; reflexivity. Qed.

(* non-vacuity of the two theorems, and what an ABSOLUTE or `..` name would do if file_dict_name ever returned one
   (join_comps is PathBuf::join: the seeded change c10-2) *)
Lemma save_plan_examples :
  let b := fun s : string => bytes_of_string s in
  file_dict_name (b "/home/u/proj/../dö c.md"%string) = b "home%u%proj%..%dö c.md%"%string /\
  file_dict_plan (b "/s/fd/"%string) (Some (b "/home/u/a.md"%string)) = Some (b "/s/fd/home%u%a.md%.tmp"%string, b "/s/fd/home%u%a.md%.tmp"%string, b "/s/fd/home%u%a.md%"%string) /\
  file_dict_plan (b "/s/fd"%string) None = None /\
  file_dict_plan (b "/s/fd"%string) (Some (b "/"%string)) = None /\
  file_dict_plan (b "/s/fd"%string) (Some (b "/.//"%string)) = None /\
  user_dict_plan (b "/s//cfg/./user.txt"%string) = Some (b "/s/cfg/user.txt.tmp"%string, b "/s/cfg/user.txt.tmp"%string, b "/s/cfg/user.txt"%string) /\
  user_dict_plan (b "/s/cfg/.."%string) = None /\ user_dict_plan (b "/"%string) = None /\
  user_dict_plan_old (b "/s/cfg/.."%string) = (b "/s/.tmp"%string, b "/s/.tmp"%string, b "/s"%string) /\
  save_plan (join_comps (b "/s/fd"%string) (b "/home/u/draft.md%"%string)) = (b "/home/u/draft.md%.tmp"%string, b "/home/u/draft.md%.tmp"%string, b "/home/u/draft.md%"%string) /\
  save_plan (join_comps (b "/s/fd"%string) (b "../../x%"%string)) = (b "/x%.tmp"%string, b "/x%.tmp"%string, b "/x%"%string).
Proof. cbv zeta. vm_compute. repeat split; reflexivity. Qed.
