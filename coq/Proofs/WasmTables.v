(* WasmTables.v — the source shape Model/Wasm.v and Model/LintJson.v transcribe is still the shape of
   /repo (table regenerated from harper-wasm/src/lib.rs and the serde-derived types on every run). *)
From Coq Require Import String.
Require Import Base Suggestion LintJson Wasm Tables_wasmapi.
From Coq Require Import List.
Import ListNotations.
Open Scope string_scope.

(* the order in which Wasm.api_lint / Wasm.lint_kept do things *)
Definition model_lint_pipeline : list string :=
  ["save_config"; "fill_with_curated"; "lint_group_lint"; "restore_config";
   "remove_overlaps"; "remove_ignored"; "problem_text_of_span"; "wrap"].
(* Wasm.import_words: `let before := s_user st in .. if dict_eqb (s_user st') before then st' else synchronize st'` *)
Definition model_sync_condition : string := "self.user_dictionary != before".
Definition model_import_words_steps : list string :=
  ["snapshot_before"; "extend_words"; "default_metadata"; "compare_with_snapshot"; "synchronize"].
(* Wasm.step on CSetConfig: None = the early `?` return; Some c = cfg_merge_from (cfg_clear (s_cfg st)) c *)
Definition model_set_config_steps : list string := ["parse_or_return_err"; "clear"; "merge_new_config"].
(* Wasm.synchronize; Wasm.step on CApply (push_record, then apply); CImportIgnored (fold hadd = append);
   Wasm.ignore_lint (ctx of the inner lint on (text, wlang l, s_lint_dict)) *)
Definition model_synchronize_steps : list string :=
  ["save_config"; "dictionary_from_user_dictionary"; "new_curated_empty_config"; "merge_saved_config"].

Lemma wasm_source_shape :
  wasm_lint_pipeline = model_lint_pipeline
  /\ wasm_import_words_before = "self.user_dictionary.clone()"
  /\ wasm_import_words_sync_condition = model_sync_condition
  /\ wasm_import_words_steps = model_import_words_steps
  /\ wasm_set_config_json_steps = model_set_config_steps
  /\ wasm_set_config_object_steps = model_set_config_steps
  /\ wasm_synchronize_steps = model_synchronize_steps
  /\ wasm_apply_suggestion_steps = ["push_record"; "apply_to_lint_span"]
  /\ wasm_import_ignored_steps = ["append"]
  /\ wasm_ignore_lint_steps = ["parser_of_lint_language"; "linter_dictionary"; "ignore_inner_on_document"].
Proof. repeat split; vm_compute; reflexivity. Qed.

(* what the premise `ctx_ignores_dict` (the context of an ignored lint is the same under every user
   dictionary) rests on in the source: LintContext::from_lint takes the tokens of [start-2,start), the
   problem span and [end,end+2), and blanks the quote twin index and the WORD METADATA of each; the
   dictionary enters Document::parse only through that metadata; the two parsers harper-wasm builds take no
   dictionary.  (The harness monitors the premise itself on every ignore/lint pair.) *)
Lemma wasm_context_shape :
  lint_context_steps = ["problem_tokens"; "prequel_two_before_start"; "sequel_two_after_end"; "to_fat";
                        "blank_quote_twin_loc"; "blank_word_metadata"]
  /\ document_parse_dictionary_uses = ["dictionary.get_word_metadata(word_source)"]
  /\ wasm_parser_constructors = ["PlainEnglish"; "Markdown::default()"].
Proof. repeat split; vm_compute; reflexivity. Qed.

(* what serde derives the JSON text from = what the printers of LintJson.v write *)
Lemma wasm_serde_shape :
  lint_kind_variants = map kind_name all_kinds
  /\ language_variants = [lang_name Plain; lang_name Markdown]
  /\ suggestion_variants = ["ReplaceWith"; "InsertAfter"; "Remove"]
  /\ core_lint_fields = ["span"; "lint_kind"; "suggestions"; "message"; "priority"]
  /\ core_span_fields = ["start"; "end"] /\ wasm_span_fields = ["start"; "end"]
  /\ wasm_lint_fields = ["inner"; "problem_text"; "language"]
  /\ wasm_suggestion_fields = ["inner"]
  /\ ignored_lints_fields = ["context_hashes"]
  /\ serde_attributes_on_these_types = [].
Proof. repeat split; vm_compute; reflexivity. Qed.
