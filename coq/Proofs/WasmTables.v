(* WasmTables.v — the source shape Model/Wasm.v and Model/LintJson.v transcribe is still the shape of
   /repo (table regenerated from harper-wasm/src/lib.rs and the serde-derived types on every run). *)
From Coq Require Import String.
Require Import Base Suggestion LintJson Wasm Tables_wasmapi.
From Coq Require Import List.
Import ListNotations.
Open Scope string_scope.

(* the order in which Wasm.api_lint / Wasm.lint_kept do things *)
Definition model_lint_pipeline : list string :=
  ["save_config"; "fill_with_curated"; "lint_group_lint"; "restore_config";
   "remove_overlaps"; "remove_ignored"; "problem_text_of_span"; "wrap"].
(* Wasm.import_words: `if init_len <? length (s_user st') then synchronize st' else st'` *)
Definition model_sync_condition : string := "self.user_dictionary.word_count() > init_len".
(* Wasm.synchronize; Wasm.step on CApply (push_record, then apply); CImportIgnored (fold hadd = append);
   Wasm.ignore_lint (ctx of the inner lint on (text, wlang l, s_lint_dict)) *)
Definition model_synchronize_steps : list string :=
  ["save_config"; "dictionary_from_user_dictionary"; "new_curated_empty_config"; "merge_saved_config"].

Lemma wasm_source_shape :
  wasm_lint_pipeline = model_lint_pipeline
  /\ wasm_import_words_init_len = "self.user_dictionary.word_count()"
  /\ wasm_import_words_sync_condition = model_sync_condition
  /\ wasm_synchronize_steps = model_synchronize_steps
  /\ wasm_apply_suggestion_steps = ["push_record"; "apply_to_lint_span"]
  /\ wasm_import_ignored_steps = ["append"]
  /\ wasm_ignore_lint_steps = ["parser_of_lint_language"; "linter_dictionary"; "ignore_inner_on_document"].
Proof. repeat split; vm_compute; reflexivity. Qed.

(* what serde derives the JSON text from = what the printers of LintJson.v write *)
Lemma wasm_serde_shape :
  lint_kind_variants = map kind_name all_kinds
  /\ language_variants = [lang_name Plain; lang_name Markdown]
  /\ suggestion_variants = ["ReplaceWith"; "InsertAfter"; "Remove"]
  /\ core_lint_fields = ["span"; "lint_kind"; "suggestions"; "message"; "priority"]
  /\ core_span_fields = ["start"; "end"] /\ wasm_span_fields = ["start"; "end"]
  /\ wasm_lint_fields = ["inner"; "problem_text"; "language"]
  /\ wasm_suggestion_fields = ["inner"]
  /\ ignored_lints_fields = ["context_hashes"]
  /\ serde_attributes_on_these_types = [].
Proof. repeat split; vm_compute; reflexivity. Qed.
