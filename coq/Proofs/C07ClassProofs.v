(* C07ClassProofs.v — the open findings as EXACT classes over the merged-dictionary model (first child wins):
     F15 accept side   f15_accept_class      FC07b   fc07b_class
     FC07e / the view of the rules   view_changes_iff, fc07e_class
     FC07d, FC07d-ident              fc07d_disappears, fc07d_appears, fc07d_plain_never_appears *)
Require Import Base DictIO DictIOProofs C07Collide C07CollideProofs C07Class.
From Coq Require Import Permutation.

Lemma existsb_false_iff : forall (A : Type) (f : A -> bool) (l : list A),
  existsb f l = false <-> forall x, In x l -> f x = false.
Proof.
  intros A f l. split.
  - intros H x Hx. destruct (f x) eqn:E; [|reflexivity].
    assert (X : existsb f l = true) by (apply existsb_exists; now exists x). congruence.
  - intro H. destruct (existsb f l) eqn:E; [|reflexivity]. apply existsb_exists in E.
    destruct E as [x [Hx Hf]]. rewrite (H x Hx) in Hf. discriminate.
Qed.

Lemma dict_eq_dec : forall a b : dict, {a = b} + {a <> b}.
Proof. repeat decide equality. Qed.

Section ClassProofs.
  Variable is_lower : N -> bool.
  Variable lower : N -> list N.
  Variable curated : dict.
  Variable iter_order : list word -> list word.
  Hypothesis iter_perm : forall l, Permutation (iter_order l) l.

  Notation wid := (word_id is_lower lower).
  Notation accepted := (accepted is_lower lower).
  Notation ce := (contains_exact_word is_lower lower).
  Notation mce := (m_contains_exact is_lower lower).
  Notation m_get_meta := (m_get_meta is_lower lower).
  Notation children := (children is_lower lower curated).
  Notation dict_at := (dict_at is_lower lower).
  Notation dict_wf := (dict_wf is_lower lower).
  Notation adds_to := (adds_to is_lower lower iter_order).
  Notation to_lower := (to_lower is_lower lower).
  Notation keeps := (f15_keepsb is_lower lower).
  Notation dialect_okb := (dialect_okb is_lower lower).
  Notation run_fs := (run_fs is_lower lower curated iter_order).
  Notation last_same_id := (last_same_id is_lower lower).
  Notation extend_words := (extend_words is_lower lower).
  Notation first_uf := (first_uf is_lower lower).
  Notation fs_ok := (fs_ok is_lower lower).

  (* ---------------------------------------------------------------------------------------------- *)
  (*  F15, accept side                                                                                *)
  (* ---------------------------------------------------------------------------------------------- *)
  (* the entry at w's id after the adds pre ++ w :: post: the last later word with that id, else w *)
  Lemma lookup_after_adds : forall p s pre w post,
    fs_ok s -> is_tmp p = false -> Forall line_safe (pre ++ w :: post) ->
    lookup (wid w) (dict_at p (adds_to p (pre ++ w :: post) s)) =
    Some (match last_same_id (wid w) post with Some x => x | None => w end, true).
  Proof.
    intros p s pre w post Hok Hp Hs.
    destruct (adds_to_spec is_lower lower iter_order iter_perm p _ s Hok Hp Hs) as [E _]. rewrite E.
    replace (pre ++ w :: post) with ((pre ++ [w]) ++ post) by (rewrite <- app_assoc; reflexivity).
    unfold DictIO.extend_words. rewrite fold_left_app. fold (extend_words (dict_at p s) (pre ++ [w])).
    fold (extend_words (extend_words (dict_at p s) (pre ++ [w])) post). rewrite extend_lookup_last.
    destruct (last_same_id (wid w) post) as [x|]; [reflexivity|].
    rewrite extend_snoc. unfold DictIO.append_word. apply lookup_insert_same.
  Qed.

  (* the exact test of the target dictionary finds w iff f15_keepsb *)
  Lemma ce_after_adds : forall p s pre w post,
    fs_ok s -> is_tmp p = false -> Forall line_safe (pre ++ w :: post) ->
    ce (dict_at p (adds_to p (pre ++ w :: post) s)) w = keeps w post.
  Proof.
    intros p s pre w post Hok Hp Hs. unfold DictIO.contains_exact_word. rewrite wid_normalized.
    rewrite (lookup_after_adds p s pre w post Hok Hp Hs). cbn [fst]. unfold C07Class.f15_keepsb.
    destruct (last_same_id (wid w) post) as [x|]; [reflexivity|apply weqb_refl].
  Qed.

  (* THE F15 class (accept side): after the adds pre ++ w :: post to a dictionary in scope of document u (any start, any
     curated dictionary, any other dictionary), w is REPORTED again iff the curated entry at its id is of another
     dialect (FC07b), or: the last later add with w's id is another spelling (up to the kind of apostrophe) AND no child
     knows the lower-cased form of w AND no other child has w itself *)
  Theorem f15_accept_class : forall p s pre w post u,
    fs_ok s -> is_tmp p = false -> Forall line_safe (pre ++ w :: post) ->
    (p = UserP \/ exists n, file_dict_name u = Some n /\ p = FileP n) ->
    (accepted (children (adds_to p (pre ++ w :: post) s) u) w = false <->
     dialect_okb curated w = false \/
     (keeps w post = false /\
      mce (children (adds_to p (pre ++ w :: post) s) u) (to_lower w) = false /\
      forall d, In d (children (adds_to p (pre ++ w :: post) s) u) ->
                d <> dict_at p (adds_to p (pre ++ w :: post) s) -> ce d w = false)).
  Proof.
    intros p s pre w post u Hok Hp Hs Hscope. set (s' := adds_to p (pre ++ w :: post) s).
    assert (HceT : ce (dict_at p s') w = keeps w post) by (apply ce_after_adds; assumption).
    pose proof (lookup_after_adds p s pre w post Hok Hp Hs) as HT. fold s' in HT.
    assert (HinT : In (dict_at p s') (children s' u)).
    { unfold DictIO.children. destruct Hscope as [Hu|[n [Hn Hf]]]; subst p; [right; now left|right; right; left].
      unfold DictIO.file_dict. now rewrite Hn. }
    assert (Hmeta : exists e, m_get_meta (children s' u) w = Some e /\ snd e = dialect_okb curated w).
    { destruct (children_good is_lower lower curated s' u) as [U [F [E [HU HF]]]]. rewrite E in HinT |- *.
      cbn [DictIO.m_get_meta]. unfold DictIO.get_meta, C07Class.dialect_okb.
      destruct (lookup (wid w) curated) as [e|] eqn:L1; [now exists e|].
      destruct (lookup (wid w) U) as [e|] eqn:L2;
        [exists e; split; [reflexivity|now apply (wf_lookup_dok is_lower lower U _ _ HU L2)]|].
      destruct (lookup (wid w) F) as [e|] eqn:L3;
        [exists e; split; [reflexivity|now apply (wf_lookup_dok is_lower lower F _ _ HF L3)]|].
      exfalso. destruct HinT as [H|[H|[H|[]]]]; rewrite <- H in HT; congruence. }
    destruct Hmeta as [e [Hm He]]. unfold DictIO.accepted. rewrite Hm, He.
    assert (Hw : mce (children s' u) w = false <->
                 keeps w post = false /\ forall d, In d (children s' u) -> d <> dict_at p s' -> ce d w = false).
    { unfold DictIO.m_contains_exact. rewrite existsb_false_iff. split.
      - intro H. split; [rewrite <- HceT; now apply H|intros d Hd _; now apply H].
      - intros [Hk Ho] d Hd. destruct (dict_eq_dec d (dict_at p s')) as [Heq|Hne]; [subst d; now rewrite HceT|now apply Ho]. }
    destruct (dialect_okb curated w); cbn [andb].
    - split.
      + intro H. right. apply orb_false_iff in H. destruct H as [H1 H2]. apply Hw in H1. destruct H1 as [H1 H3].
        split; [exact H1|split; [exact H2|exact H3]].
      + intros [H|[Hk [Hl Ho]]]; [discriminate|]. apply orb_false_iff. split; [apply Hw; now split|exact Hl].
    - split; [intros _; now left|reflexivity].
  Qed.

  (* ---------------------------------------------------------------------------------------------- *)
  (*  FC07b: with F15 excluded, the added word is reported iff the curated entry at its id is of another dialect  *)
  (* ---------------------------------------------------------------------------------------------- *)
  Theorem fc07b_class : forall s0 h1 sc w h2 u p,
    fs_ok s0 ->
    Forall op_safe (h1 ++ AddWord sc w :: h2) ->
    target sc = Some p ->
    (forall o sc' w', In o h2 -> op_add o = Some (sc', w') -> target sc' = Some p -> wid w' = wid w ->
       normalized w' = normalized w) ->
    (p = UserP \/ exists n, file_dict_name u = Some n /\ p = FileP n) ->
    accepted (children (run_fs s0 (h1 ++ AddWord sc w :: h2)) u) w = dialect_okb curated w.
  Proof.
    intros s0 h1 sc w h2 u p H0 Hs Ht Hcol Hsc. unfold C07Class.dialect_okb.
    destruct (lookup (wid w) curated) as [e|] eqn:L.
    - destruct (snd e) eqn:Hd.
      + apply (add_sequential is_lower lower curated iter_order iter_perm s0 h1 sc w h2 u p); try assumption.
        intros e' He'. congruence.
      + unfold DictIO.accepted, DictIO.children. cbn [DictIO.m_get_meta]. unfold DictIO.get_meta. rewrite L, Hd. reflexivity.
    - apply (add_sequential is_lower lower curated iter_order iter_perm s0 h1 sc w h2 u p); try assumption.
      intros e' He'. congruence.
  Qed.

  (* ---------------------------------------------------------------------------------------------- *)
  (*  the view the rules have of a token (metadata, canonical spelling): first child wins              *)
  (* ---------------------------------------------------------------------------------------------- *)
  Lemma view_now : forall U F idl t,
    m_get_meta ([curated; U; F] ++ idl) t =
    match lookup (wid t) curated with
    | Some e => Some e
    | None => match first_uf U F t with Some e => Some e | None => m_get_meta idl t end
    end.
  Proof.
    intros U F idl t. cbn [app DictIO.m_get_meta]. unfold DictIO.get_meta, C07Class.first_uf.
    destruct (lookup (wid t) curated); [reflexivity|]. destruct (lookup (wid t) U); [reflexivity|].
    destruct (lookup (wid t) F); reflexivity.
  Qed.
  Lemma view_base : forall idl t,
    m_get_meta ([curated] ++ idl) t =
    match lookup (wid t) curated with Some e => Some e | None => m_get_meta idl t end.
  Proof. intros idl t. cbn [app DictIO.m_get_meta]. unfold DictIO.get_meta. reflexivity. Qed.

  Lemma wf_entry : forall D k e, dict_wf D -> lookup k D = Some e ->
    e = (fst e, true) /\ k = wid (fst e) /\ In (fst e) (words_of D).
  Proof.
    intros D k [c b] [_ H] L. apply lookup_in in L. destruct (H k (c, b) L) as [Hk Hb]. cbn [fst snd] in *. subst b.
    split; [reflexivity|split; [exact Hk|]]. unfold words_of. apply in_map_iff. exists (k, (c, true)). now split.
  Qed.
  Lemma first_uf_entry : forall U F t e, dict_wf U -> dict_wf F -> first_uf U F t = Some e ->
    e = (fst e, true) /\ wid (fst e) = wid t /\ (In (fst e) (words_of U) \/ In (fst e) (words_of F)).
  Proof.
    intros U F t e HU HF H. unfold C07Class.first_uf in H. destruct (lookup (wid t) U) as [e'|] eqn:L.
    - inversion H; subst e'. destruct (wf_entry U _ e HU L) as [H1 [H2 H3]]. split; [exact H1|split; [now symmetry|now left]].
    - destruct (wf_entry F _ e HF H) as [H1 [H2 H3]]. split; [exact H1|split; [now symmetry|now right]].
  Qed.

  (* the entry the rules see for token t differs from the one they see WITHOUT the user and file dictionaries
     (harper-core alone: [curated] ++ idl, idl = the identifier dictionary of a source document or nothing) iff
     the curated dictionary has no entry at t's id and the user / file dictionaries have one — (x, default metadata),
     x a word of those dictionaries with t's id: t is a case variant of an added word in scope — that differs from
     what the identifier dictionary says *)
  Theorem view_changes_iff : forall U F idl t, dict_wf U -> dict_wf F ->
    (m_get_meta ([curated; U; F] ++ idl) t <> m_get_meta ([curated] ++ idl) t <->
     lookup (wid t) curated = None /\
     exists x, first_uf U F t = Some (x, true) /\ wid x = wid t /\
               (In x (words_of U) \/ In x (words_of F)) /\ m_get_meta idl t <> Some (x, true)).
  Proof.
    intros U F idl t HU HF. rewrite view_now, view_base.
    destruct (lookup (wid t) curated) as [e|] eqn:L1.
    - split; [intro H; now contradiction H|intros [H _]; discriminate].
    - destruct (first_uf U F t) as [e|] eqn:L2.
      + destruct (first_uf_entry U F t e HU HF L2) as [H1 [H2 H3]]. split.
        * intro H. split; [reflexivity|]. exists (fst e). rewrite <- H1.
          split; [reflexivity|split; [exact H2|split; [exact H3|]]]. intro X. apply H. now rewrite X.
        * intros [_ [x [Hx [_ [_ Hne]]]]]. inversion Hx; subst e. intro X. apply Hne. now rewrite <- X.
      + split; [intro H; now contradiction H|intros [_ [x [Hx _]]]; discriminate].
  Qed.

  (* FC07e: in a plain document the token metadata the rule predicates read changes (None -> Some default) exactly for
     the tokens that are case variants of an added word in scope and unknown to the curated dictionary *)
  Corollary fc07e_class : forall U F t, dict_wf U -> dict_wf F ->
    (m_get_meta [curated; U; F] t <> m_get_meta [curated] t <->
     lookup (wid t) curated = None /\
     exists x, first_uf U F t = Some (x, true) /\ wid x = wid t /\ (In x (words_of U) \/ In x (words_of F))).
  Proof.
    intros U F t HU HF. pose proof (view_changes_iff U F [] t HU HF) as H. cbn [app] in H. rewrite H.
    split.
    - intros [H1 [x [H2 [H3 [H4 _]]]]]. split; [exact H1|]. exists x. now repeat split.
    - intros [H1 [x [H2 [H3 H4]]]]. split; [exact H1|]. exists x. repeat split; try assumption. cbn [DictIO.m_get_meta]. discriminate.
  Qed.

  (* ---------------------------------------------------------------------------------------------- *)
  (*  FC07d / FC07d-ident: SentenceCapitalization against harper-core alone                           *)
  (* ---------------------------------------------------------------------------------------------- *)
  Variable iu : word -> bool.
  Variable cur_proper : word -> bool.
  Notation cap_fires := (cap_fires is_lower lower iu cur_proper curated).

  Lemma rest_view : forall U F idl t,
    m_get_meta ([U; F] ++ idl) t = match first_uf U F t with Some e => Some e | None => m_get_meta idl t end.
  Proof.
    intros U F idl t. cbn [app DictIO.m_get_meta]. unfold DictIO.get_meta, C07Class.first_uf.
    destruct (lookup (wid t) U); [reflexivity|]. destruct (lookup (wid t) F); reflexivity.
  Qed.

  (* the capitalisation lint on t DISAPPEARS (fires with harper-core alone, not with the user / file dictionaries) iff
     curated has no entry at t's id, the first of user / file that has one spells it x with an inner upper-case letter,
     and the identifier dictionary (if any) does not already silence the lint *)
  Theorem fc07d_disappears : forall U F idl t, dict_wf U -> dict_wf F ->
    (cap_fires idl t = true /\ cap_fires ([U; F] ++ idl) t = false <->
     lookup (wid t) curated = None /\
     exists x, first_uf U F t = Some (x, true) /\ wid x = wid t /\ iu x = true /\
               (forall e, m_get_meta idl t = Some e -> iu (fst e) = false)).
  Proof.
    intros U F idl t HU HF. unfold C07Class.cap_fires. rewrite rest_view.
    destruct (lookup (wid t) curated) as [e|] eqn:L1.
    - split; [intros [H1 H2]; rewrite H1 in H2; discriminate|intros [H _]; discriminate].
    - destruct (first_uf U F t) as [e|] eqn:L2.
      + destruct (first_uf_entry U F t e HU HF L2) as [H1 [H2 _]]. split.
        * intros [Ha Hb]. split; [reflexivity|]. exists (fst e). rewrite <- H1. apply negb_false_iff in Hb.
          split; [reflexivity|split; [exact H2|split; [exact Hb|]]].
          intros e' He'. rewrite He' in Ha. now apply negb_true_iff in Ha.
        * intros [_ [x [Hx [_ [Hi Hn]]]]]. inversion Hx; subst e. cbn [fst]. rewrite Hi. split; [|reflexivity].
          destruct (m_get_meta idl t) as [e'|]; [|reflexivity]. now rewrite (Hn e' eq_refl).
      + split; [intros [H1 H2]; rewrite H1 in H2; discriminate|intros [_ [x [Hx _]]]; discriminate].
  Qed.

  (* the lint APPEARS (silent with harper-core alone, fires with the user / file dictionaries) iff curated has no entry, the
     identifier dictionary spells t's id with an inner upper-case letter (that silenced the lint) and the first of user /
     file — which come BEFORE the identifiers — spells it x without one *)
  Theorem fc07d_appears : forall U F idl t, dict_wf U -> dict_wf F ->
    (cap_fires idl t = false /\ cap_fires ([U; F] ++ idl) t = true <->
     lookup (wid t) curated = None /\
     exists x, first_uf U F t = Some (x, true) /\ wid x = wid t /\ iu x = false /\
               exists e, m_get_meta idl t = Some e /\ iu (fst e) = true).
  Proof.
    intros U F idl t HU HF. unfold C07Class.cap_fires. rewrite rest_view.
    destruct (lookup (wid t) curated) as [e|] eqn:L1.
    - split; [intros [H1 H2]; rewrite H1 in H2; discriminate|intros [H _]; discriminate].
    - destruct (first_uf U F t) as [e|] eqn:L2.
      + destruct (first_uf_entry U F t e HU HF L2) as [H1 [H2 _]]. split.
        * intros [Ha Hb]. split; [reflexivity|]. exists (fst e). rewrite <- H1. apply negb_true_iff in Hb.
          split; [reflexivity|split; [exact H2|split; [exact Hb|]]].
          destruct (m_get_meta idl t) as [e'|]; [|discriminate]. exists e'. split; [reflexivity|now apply negb_false_iff in Ha].
        * intros [_ [x [Hx [_ [Hi [e' [He' Hu]]]]]]]. inversion Hx; subst e. cbn [fst]. rewrite Hi, He', Hu. split; reflexivity.
      + split; [intros [H1 H2]; rewrite H1 in H2; discriminate|intros [_ [x [Hx _]]]; discriminate].
  Qed.

  (* in a plain document (no identifier dictionary) the lint never appears: the known fragment FC07d-ident is
     confined to source languages *)
  Corollary fc07d_plain_never_appears : forall U F t, dict_wf U -> dict_wf F ->
    ~ (cap_fires [] t = false /\ cap_fires [U; F] t = true).
  Proof.
    intros U F t HU HF H. apply (fc07d_appears U F [] t HU HF) in H.
    destruct H as [_ [x [_ [_ [_ [e [He _]]]]]]]. discriminate.
  Qed.
End ClassProofs.

(* ---- concrete witnesses ---- *)
(* F15 is asymmetric: zorgle then Zorgle reports zorgle; Zorgle then zorgle keeps Zorgle accepted (through the lower-cased form) *)
Lemma f15_accept_example :
  f15_keepsb a_is_lower a_lower w_zorgle [w_Zorgle] = false /\
  accepted a_is_lower a_lower (children a_is_lower a_lower []
     (adds_to a_is_lower a_lower id_order UserP ([] ++ w_zorgle :: [w_Zorgle]) fs_empty) u_doc) w_zorgle = false /\
  f15_keepsb a_is_lower a_lower w_Zorgle [w_zorgle] = false /\
  m_contains_exact a_is_lower a_lower (children a_is_lower a_lower []
     (adds_to a_is_lower a_lower id_order UserP ([] ++ w_Zorgle :: [w_zorgle]) fs_empty) u_doc)
     (to_lower a_is_lower a_lower w_Zorgle) = true /\
  accepted a_is_lower a_lower (children a_is_lower a_lower []
     (adds_to a_is_lower a_lower id_order UserP ([] ++ w_Zorgle :: [w_zorgle]) fs_empty) u_doc) w_Zorgle = true /\
  f15_keepsb a_is_lower a_lower w_zorgle [w_Zorgle; w_alpha; w_zorgle] = true.
Proof. vm_compute. repeat split. Qed.

(* FC07d: iu = "has an upper-case ASCII letter after the first character" *)
Definition iu_ascii (sp : word) : bool := existsb (fun c => (65 <=? c)%N && (c <=? 90)%N) (tl sp).
Definition w_ZORGLE : word := [90; 79; 82; 71; 76; 69]%N.
Lemma fc07d_example :
  let U := extend_words a_is_lower a_lower [] [w_ZORGLE] in
  let I := extend_words a_is_lower a_lower [] [w_ZORGLE] in
  let U2 := extend_words a_is_lower a_lower [] [w_zorgle] in
  (* plain document: adding ZORGLE silences the lint on "zorgle ..." *)
  cap_fires a_is_lower a_lower iu_ascii (fun _ => false) [] [] w_zorgle = true /\
  cap_fires a_is_lower a_lower iu_ascii (fun _ => false) [] ([U; []] ++ []) w_zorgle = false /\
  (* source document with identifier ZORGLE: silent; adding zorgle makes the lint appear *)
  cap_fires a_is_lower a_lower iu_ascii (fun _ => false) [] [I] w_zorgle = false /\
  cap_fires a_is_lower a_lower iu_ascii (fun _ => false) [] ([U2; []] ++ [I]) w_zorgle = true.
Proof. vm_compute. repeat split. Qed.
