(* C09RaceGen.v — C09, the shape race_overtaken (Model/C09Race.v) for ARBITRARY histories: any number of didOpen /
   didChange / didSave / didClose / add-word commands / configuration changes / ignore commands, any documents, up to
   four handlers in flight, EVERY schedule of the dispatcher `run` - by induction over the schedule (invariant RInv),
   not by exploration.
     race_last_is_doc_state  at quiescence the last word of u is what doc_state would publish now, but for the severity
                             settings (the form `lastword = pubval` takes once commands are in flight)
     race_flags_exact        when the last word is a diagnostics array a: the flags text / parser settings / linter
                             settings / severity settings of race_shape ARE the comparisons of a's components with the
                             newest client text resp. the client's current settings (both directions)
     race_flags_sound        any of these four flags set  ->  the last word is wrong        (the 'if' direction)
     race_text_last / race_text_exact / race_text_sound   the text component alone (also when the last word is [])
   NOT here: the fifth flag (a dictionary file changed after the handler read it - needs the reads of each handler in the
   invariant) and therefore the 'only if' direction (all flags clear -> right), which also needs language / ignore list.
   Class (decidable, `okop`): no source-code document (use_ident_dict keeps the mutex over two file reads and installs the
   text later) and no didChangeWatchedFiles in the history; the start world has no source-code entry.
   Invariant: every handler's program has the shape `shape` (update_document / a re-read is directly followed by
   publish_diagnostics of the same url; nothing follows the loop of did_change_configuration), `owes` = the handler will
   still publish u; doc_state's text / parser settings / linter settings of u = those of the last effective critical
   section / linter build in the trace so far; the last word (severity settings apart) = doc_state's, or some handler in
   flight owes a publication; the severity settings of the last word = those of the last XPub event. *)
Require Import Base Server ServerLemmas ServerProofs ServerSeq ServerConc C09DictLock C09Batch C09BatchProofs C09Seq C09Race C09RaceProofs.

Definition ptext (p : pub) : option text := match p with PDiag a => Some (a_text a) | PEmpty => None end.
(* the text publish_diagnostics(u) would publish now (a function of doc_state alone) *)
Definition ptv (w : world) (u : url) : option text :=
  match lookup u (s_docs w) with
  | Some e => match e_text e, e_lang e with Some t, Some _ => Some t | _, _ => None end
  | None => None
  end.

Lemma ptv_pubval : forall w u, ptext (pubval w u) = ptv w u.
Proof.
  intros w u. unfold pubval, ptv. destruct (lookup u (s_docs w)) as [e|]; [|reflexivity].
  destruct (e_text e), (e_lang e); reflexivity.
Qed.

(* a publication without the severity settings it was sent under; what publish_diagnostics(u) would publish now, without
   the severity settings (a function of doc_state alone) *)
Definition pstrip (p : pub) : option dargs :=
  match p with
  | PDiag a => Some (mkargs (a_text a) (a_lang a) (a_dict a) (a_ddict a) (a_lcfg a) (a_pcfg a) 0 (a_ign a))
  | PEmpty => None
  end.
Definition psv (w : world) (u : url) : option dargs :=
  match lookup u (s_docs w) with
  | Some e => match e_text e, e_lang e with
              | Some t, Some lg => Some (mkargs t lg (e_dict e) (e_ddict e) (e_lcfg e) (e_pcfg e) 0 (e_ign e))
              | _, _ => None
              end
  | None => None
  end.
Lemma psv_pubval : forall w u, pstrip (pubval w u) = psv w u.
Proof.
  intros w u. unfold pubval, psv. destruct (lookup u (s_docs w)) as [e|]; [|reflexivity].
  destruct (e_text e), (e_lang e); reflexivity.
Qed.
Lemma ptext_strip : forall p, ptext p = option_map a_text (pstrip p).
Proof. intros [|a]; reflexivity. Qed.
Lemma ptv_psv : forall w u, ptv w u = option_map a_text (psv w u).
Proof.
  intros w u. unfold ptv, psv. destruct (lookup u (s_docs w)) as [e|]; [|reflexivity].
  destruct (e_text e), (e_lang e); reflexivity.
Qed.

Definition head_pub (p : list instr) : bool := match p with IPublish :: _ => true | _ => false end.
Definition is_nil (p : list instr) : bool := match p with [] => true | _ => false end.
Fixpoint shape (p : list instr) : bool :=
  match p with
  | [] => true
  | IUpdate :: r => head_pub r && shape r
  | IReadFile :: r => head_pub r && shape r
  | ICfgNext :: r => is_nil r
  | ICfgRebuild _ :: r => is_nil r
  | IIdentUD :: _ | IIdentFD :: _ | IIdentFinish :: _ | IDelete _ :: _ | IDelSend :: _ => false
  | _ :: r => shape r
  end.

(* the handler (current url cur, queue q, program p) will publish u before it ends *)
Fixpoint owes (u cur : url) (q : list url) (p : list instr) : bool :=
  match p with
  | [] => false
  | IPublish :: r => url_eqb cur u || owes u cur q r
  | ICfgNext :: _ => mem_url u q
  | _ :: r => owes u cur q r
  end.

Definition notcode (lg : option lang) : bool := match lg with Some LCode => false | _ => true end.
Definition okop (o : op) : bool :=
  match o with Open _ LCode _ _ => false | Delete _ => false | _ => true end.
Definition nocode_docs (m : list (url * entry)) : Prop := forall v e, In (v, e) m -> notcode (e_lang e) = true.

(* the text doc_state holds for u according to the trace: that of the last effective critical section *)
Definition eff_text (u : url) (e : xevent) : option (option text) :=
  match e with XUpd _ u' t eff _ _ => if url_eqb u' u && eff then Some (Some t) else None | _ => None end.
Definition curt (u : url) (w0 : world) (tr : list xevent) : option (option text) :=
  last_some (eff_text u) tr (Some (match lookup u (s_docs w0) with Some e => e_text e | None => None end)).

Definition updf (l : locals) (w : world) : bool :=
  match l_text l with Some _ => upd_eff l w | None => false end.
Definition upd_flag (u : url) (i : instr) (l : locals) (w : world) : bool :=
  match i with IUpdate => url_eqb (l_url l) u && updf l w | _ => false end.

(* ---------- association lists ---------- *)
Lemma In_remove : forall {V} k (m : list (url * V)) x, In x (remove k m) -> In x m.
Proof.
  induction m as [|[k' v] m IH]; cbn; intros x H; [exact H|].
  destruct (url_eqb k k'); [right; apply IH, H|]. destruct H as [H|H]; [left; exact H|right; apply IH, H].
Qed.

Lemma nocode_upsert : forall k e m, nocode_docs m -> notcode (e_lang e) = true -> nocode_docs (upsert k e m).
Proof.
  intros k e m N H v x [E|Hin]; [inversion E; subst; exact H|exact (N v x (In_remove _ _ _ Hin))].
Qed.
Lemma nocode_remove : forall k m, nocode_docs m -> nocode_docs (remove k m).
Proof. intros k m N v x Hin. exact (N v x (In_remove _ _ _ Hin)). Qed.
Lemma nocode_lookup : forall m u e, nocode_docs m -> lookup u m = Some e -> notcode (e_lang e) = true.
Proof. intros m u e N H. apply lookup_In in H as (k & Hin & _). exact (N k e Hin). Qed.

Lemma last_some_app : forall {A} (f : xevent -> option A) a b d, last_some f (a ++ b) d = last_some f b (last_some f a d).
Proof. intros A f. induction a as [|x a IH]; intros b d; cbn; [reflexivity|apply IH]. Qed.

(* ---------- the critical section, by cases ---------- *)
Lemma lang_rebase_bump : forall d c v e, e_lang (rebase d c (bump v e)) = e_lang e.
Proof. intros d c v e. unfold rebase, bump. destruct v; destruct (dictv_eqb _ d); reflexivity. Qed.

Lemma iupdate_cases : forall l w push l' w',
  exec IUpdate l w = Some (push, l', w') -> notcode (l_lang l) = true -> nocode_docs (s_docs w) ->
  push = [] /\ l' = l /\
  ((w' = w /\ updf l w = false) \/
   (w' = set_docs (remove (l_url l) (s_docs w)) w /\ updf l w = false) \/
   (exists t e, l_text l = Some t /\ updf l w = true /\ w' = set_docs (upsert (l_url l) e (s_docs w)) w /\
                e_text e = Some t /\ notcode (e_lang e) = true /\ (exists lg, e_lang e = Some lg) /\
                e_pcfg e = l_snap l /\
                (if upd_reb l w then e_lcfg e = l_snap l
                 else exists eo, lookup (l_url l) (s_docs w) = Some eo /\ e_lcfg e = e_lcfg eo))).
Proof.
  intros l w push l' w' H Nl Nd. cbn [exec] in H. unfold updf, upd_eff, upd_entry0.
  destruct (s_lock w); [discriminate|].
  destruct (l_text l) as [t|]; [|inversion H; subst; repeat split; left; split; reflexivity].
  set (e0 := match lookup (l_url l) (s_docs w) with Some e => e | None => new_entry (l_lang l) (mkdict (l_ud l) (l_fd l) 0) (l_snap l) end) in *.
  assert (N0 : notcode (e_lang e0) = true).
  { unfold e0. destruct (lookup (l_url l) (s_docs w)) as [e|] eqn:L; [exact (nocode_lookup _ _ _ Nd L)|exact Nl]. }
  destruct (stale (l_ver l) (e_ver e0)); [inversion H; subst; repeat split; left; split; reflexivity|].
  cbn [negb andb].
  set (e2 := rebase (mkdict (l_ud l) (l_fd l) 0) (l_snap l) (bump (l_ver l) e0)) in *.
  assert (L2 : e_lang e2 = e_lang e0) by apply lang_rebase_bump.
  rewrite L2 in H. destruct (e_lang e0) as [lg|] eqn:El.
  - unfold sq_has_parser. destruct (kind lg) eqn:K.
    + inversion H; subst. repeat split. right. right. exists t. eexists. repeat split; try reflexivity.
      * cbn. rewrite L2. exact N0.
      * cbn. rewrite L2. exists lg. reflexivity.
      * unfold upd_reb. cbn [e_lcfg e_set_doc]. unfold e2, e0. destruct (lookup (l_url l') (s_docs w)) as [eo|].
        -- unfold rebase.
           assert (Bb : e_base (bump (l_ver l') eo) = e_base eo) by (unfold bump; destruct (l_ver l'); reflexivity).
           rewrite Bb. destruct (dictv_eqb (e_base eo) (mkdict (l_ud l') (l_fd l') 0)); cbn [negb]; [|reflexivity].
           exists eo. split; [reflexivity|]. unfold bump; destruct (l_ver l'); reflexivity.
        -- unfold rebase.
           assert (Bb : e_base (bump (l_ver l') (new_entry (l_lang l') (mkdict (l_ud l') (l_fd l') 0) (l_snap l'))) = mkdict (l_ud l') (l_fd l') 0)
             by (unfold bump; destruct (l_ver l'); reflexivity).
           rewrite Bb, dictv_eqb_refl. unfold bump; destruct (l_ver l'); reflexivity.
    + destruct lg; cbn in K; try discriminate K. discriminate N0.
    + inversion H; subst. repeat split. right. left. split; reflexivity.
  - inversion H; subst. repeat split. right. left. split; reflexivity.
Qed.

(* ---------- one instr of a handler: what it does to the invariant's ingredients ---------- *)
Ltac exec_cases H :=
  cbn [exec] in H;
  repeat match type of H with
         | context [if ?b then _ else _] => destruct b eqn:?
         | context [match ?x with _ => _ end] => destruct x eqn:?
         end; try discriminate H; inversion H; subst; clear H.

Lemma nocode_map_lcfg : forall c m, nocode_docs m -> nocode_docs (map (fun kv => (fst kv, e_set_lcfg c (snd kv))) m).
Proof.
  intros c m N v x Hin. apply in_map_iff in Hin as ([k e] & E & Hin). inversion E; subst. cbn. exact (N _ _ Hin).
Qed.

Lemma exec_shape : forall i p l w push l' w',
  exec i l w = Some (push, l', w') -> shape (i :: p) = true -> notcode (l_lang l) = true -> nocode_docs (s_docs w) ->
  shape (push ++ p) = true /\ notcode (l_lang l') = true /\ nocode_docs (s_docs w').
Proof.
  intros i p l w push l' w' H S Nl Nd.
  destruct i; try discriminate S.
  all: try match type of H with exec IUpdate _ _ = _ =>
      destruct (iupdate_cases _ _ _ _ _ H Nl Nd) as (-> & -> & C); clear H;
      cbn [shape] in S; apply andb_true_iff in S as [S1 S2]; cbn [app];
      destruct C as [[-> _]|[[-> _]|(t & e & _ & _ & -> & _ & Ne & _)]];
      (split; [exact S2|split; [exact Nl|]]); cbn [s_docs set_docs];
      [exact Nd|apply nocode_remove, Nd|apply nocode_upsert; assumption] end.
  all: exec_cases H.
  all: cbn in S |- *; repeat split; try assumption; try reflexivity.
  all: try (apply nocode_remove; assumption).
  all: try (apply nocode_map_lcfg; assumption).
  all: try (apply nocode_upsert; [assumption|cbn; eapply nocode_lookup; eassumption]).
  all: try (apply andb_true_iff in S as [_ S]; exact S).
  all: try (destruct p; [reflexivity|discriminate S]).
Qed.

Lemma exec_text : forall u i p l w push l' w',
  exec i l w = Some (push, l', w') -> shape (i :: p) = true -> notcode (l_lang l) = true -> nocode_docs (s_docs w) ->
  forall e', lookup u (s_docs w') = Some e' ->
    if upd_flag u i l w then e_text e' = l_text l
    else exists e, lookup u (s_docs w) = Some e /\ e_text e' = e_text e.
Proof.
  intros u i p l w push l' w' H S Nl Nd e' L'.
  destruct i; try discriminate S.
  all: try match type of H with exec IUpdate _ _ = _ =>
      destruct (iupdate_cases _ _ _ _ _ H Nl Nd) as (-> & -> & C); clear H; cbn [upd_flag];
      destruct C as [[-> F]|[[-> F]|(t & e & Et & F & -> & Ee & _ & _)]]; rewrite F;
      [rewrite andb_false_r; exists e'; split; [exact L'|reflexivity]
      |rewrite andb_false_r; cbn [s_docs set_docs] in L'; rewrite lookup_remove in L';
       destruct (url_eqb u (l_url l)); [discriminate L'|exists e'; split; [exact L'|reflexivity]]
      |rewrite andb_true_r; cbn [s_docs set_docs] in L'; rewrite lookup_upsert in L'; rewrite (url_eqb_sym (l_url l) u);
       destruct (url_eqb u (l_url l)); [inversion L'; subst; congruence|exists e'; split; [exact L'|reflexivity]]] end.
  all: cbn [upd_flag]; exec_cases H.
  all: try (exists e'; split; [exact L'|reflexivity]).
  - cbn [s_docs set_docs] in L'. rewrite lookup_upsert in L'. destruct (url_eqb u (l_url l')) eqn:E.
    + apply url_eqb_eq in E. subst u. inversion L'; subst. exists e. split; [assumption|reflexivity].
    + exists e'. split; [exact L'|reflexivity].
  - cbn in L'. rewrite lookup_remove in L'. destruct (url_eqb u (l_url l')); [discriminate L'|].
    exists e'. split; [exact L'|reflexivity].
  - cbn in L'. rewrite lookup_map_val in L'. destruct (lookup u (s_docs w)) as [e0|]; [|discriminate L'].
    inversion L'; subst. exists e0. split; reflexivity.
Qed.

Ltac owes_fin :=
  match goal with
  | |- ?o = true \/ _ => let Ow := fresh "Ow" in
      destruct o eqn:Ow; [left; reflexivity|right; right; repeat split; try reflexivity; try exact Ow]
  end.

Lemma psv_other : forall w m u k, url_eqb u k = false ->
  (lookup u m = lookup u (s_docs w)) -> psv (set_docs m w) u = psv w u.
Proof. intros w m u k _ H. unfold psv. cbn [s_docs set_docs]. rewrite H. reflexivity. Qed.

Lemma exec_pub : forall u i p l w push l' w',
  exec i l w = Some (push, l', w') -> shape (i :: p) = true -> notcode (l_lang l) = true -> nocode_docs (s_docs w) ->
  owes u (l_url l') (l_queue l') (push ++ p) = true \/
  pstrip (lastword w' u) = psv w' u \/
  (owes u (l_url l) (l_queue l) (i :: p) = false /\ lastword w' u = lastword w u /\ psv w' u = psv w u).
Proof.
  intros u i p l w push l' w' H S Nl Nd.
  destruct i; try discriminate S.
  all: try match type of H with exec IUpdate _ _ = _ =>
      destruct (iupdate_cases _ _ _ _ _ H Nl Nd) as (-> & -> & C); clear H;
      cbn [shape] in S; apply andb_true_iff in S as [S1 _]; destruct p as [|[] p]; try discriminate S1;
      cbn [app owes];
      destruct (url_eqb (l_url l) u) eqn:E; [left; reflexivity|]; cbn [orb];
      rewrite url_eqb_sym in E;
      destruct C as [[-> _]|[[-> _]|(t & e & _ & _ & -> & _)]];
      [owes_fin
      |assert (X : psv (set_docs (remove (l_url l) (s_docs w)) w) u = psv w u)
         by (apply (psv_other _ _ _ _ E), lookup_remove_neq, E); owes_fin; exact X
      |assert (X : psv (set_docs (upsert (l_url l) e (s_docs w)) w) u = psv w u)
         by (apply (psv_other _ _ _ _ E), lookup_upsert_neq, E); owes_fin; exact X] end.
  all: exec_cases H.
  all: cbn [app owes l_url l_queue lset_url lset_text lset_lang lset_ans lset_snap lset_ud lset_fd lset_word lset_queue lset_ver update_seq].
  all: try solve [owes_fin].
  - (* IPublish *)
    destruct (url_eqb (l_url l') u) eqn:E.
    + apply url_eqb_eq in E. right. left. rewrite lastword_send, E, url_eqb_refl, psv_pubval. reflexivity.
    + cbn [orb]. assert (X : lastword (send (l_url l') (pubval w (l_url l')) w) u = lastword w u)
        by (rewrite lastword_send, url_eqb_sym, E; reflexivity).
      owes_fin. exact X.
  - (* IIgnore: the entry changes, the publication is pushed *)
    destruct (url_eqb (l_url l') u) eqn:E; [left; reflexivity|]. cbn [orb]. rewrite url_eqb_sym in E.
    assert (X : psv (set_docs (upsert (l_url l') (e_add_ign k e) (s_docs w)) w) u = psv w u)
      by (apply (psv_other _ _ _ _ E), lookup_upsert_neq, E).
    owes_fin. exact X.
  - (* IClose *)
    destruct (url_eqb u (l_url l')) eqn:E.
    + apply url_eqb_eq in E. subst u. right. left. unfold lastword, psv.
      cbn [s_log s_docs set_lock send set_log set_docs last_pub]. rewrite url_eqb_refl, lookup_remove_eq. reflexivity.
    + assert (X : lastword (set_lock true (send (l_url l') PEmpty (set_docs (remove (l_url l') (s_docs w)) w))) u = lastword w u).
      { unfold lastword. cbn [s_log s_docs set_lock send set_log set_docs last_pub]. rewrite E. reflexivity. }
      assert (Y : psv (set_lock true (send (l_url l') PEmpty (set_docs (remove (l_url l') (s_docs w)) w))) u = psv w u).
      { unfold psv. cbn [s_log s_docs set_lock send set_log set_docs]. rewrite (lookup_remove_neq _ _ _ E). reflexivity. }
      owes_fin; assumption.
  - (* ICfgRebuild: every document doc_state holds is queued for a re-read and a publication *)
    destruct (lookup u (s_docs w)) as [e|] eqn:Lu.
    + left. apply mem_url_In, order_keys_complete, (lookup_In_keys _ _ _ Lu).
    + right. right. split; [destruct p; [reflexivity|discriminate S]|]. split; [reflexivity|].
      unfold psv. cbn [s_docs set_docs]. rewrite lookup_map_val, Lu. reflexivity.
  - (* ICfgNext *)
    cbn [mem_url existsb]. rewrite (url_eqb_sym u0 u). fold (mem_url u l0). owes_fin.
Qed.

(* ---------- the settings: parser settings (copied by the critical section), linter settings, severity settings ---------- *)
Definition eff_snap (u : url) (e : xevent) : option cfg :=
  match e with XUpd _ u' _ eff snap _ => if url_eqb u' u && eff then Some snap else None | _ => None end.
Definition curp (u : url) (w0 : world) (tr : list xevent) : option cfg :=
  last_some (eff_snap u) tr (option_map e_pcfg (lookup u (s_docs w0))).
Definition curl (u : url) (w0 : world) (tr : list xevent) : option cfg :=
  last_some (linter_of u) tr (option_map e_lcfg (lookup u (s_docs w0))).
Definition curs (u : url) (w0 : world) (tr : list xevent) : option cfg :=
  last_some (pub_of u) tr (match lastword w0 u with PDiag a => Some (a_scfg a) | PEmpty => None end).

Definition lint_flag (u : url) (i : instr) (l : locals) (w : world) : option cfg :=
  match i with
  | IUpdate => if upd_flag u i l w && upd_reb l w then Some (l_snap l) else None
  | ICfgRebuild _ => if mem_url u (keys (s_docs w)) then Some (s_cfg w) else None
  | _ => None
  end.
Definition pub_flag (u : url) (i : instr) (l : locals) : bool :=
  match i with IPublish => url_eqb (l_url l) u | _ => false end.

Lemma exec_cfgs : forall u i p l w push l' w',
  exec i l w = Some (push, l', w') -> shape (i :: p) = true -> notcode (l_lang l) = true -> nocode_docs (s_docs w) ->
  forall e', lookup u (s_docs w') = Some e' ->
    (if upd_flag u i l w then e_pcfg e' = l_snap l else exists e, lookup u (s_docs w) = Some e /\ e_pcfg e' = e_pcfg e) /\
    (match lint_flag u i l w with
     | Some c => e_lcfg e' = c
     | None => exists e, lookup u (s_docs w) = Some e /\ e_lcfg e' = e_lcfg e
     end).
Proof.
  intros u i p l w push l' w' H S Nl Nd e' L'.
  destruct i; try discriminate S.
  all: try match type of H with exec IUpdate _ _ = _ =>
      destruct (iupdate_cases _ _ _ _ _ H Nl Nd) as (-> & -> & C); clear H; cbn [lint_flag upd_flag];
      destruct C as [[-> F]|[[-> F]|(t & e & Et & F & -> & _ & _ & _ & Ep & El)]]; rewrite F;
      [rewrite andb_false_r; cbn [andb]; split; exists e'; (split; [exact L'|reflexivity])
      |rewrite andb_false_r; cbn [andb]; cbn [s_docs set_docs] in L'; rewrite lookup_remove in L';
       destruct (url_eqb u (l_url l)); [discriminate L'|split; exists e'; (split; [exact L'|reflexivity])]
      |rewrite andb_true_r; cbn [s_docs set_docs] in L'; rewrite lookup_upsert in L'; rewrite (url_eqb_sym (l_url l) u);
       destruct (url_eqb u (l_url l)) eqn:E;
       [apply url_eqb_eq in E; subst u; inversion L'; subst e'; cbn [andb]; split; [exact Ep|];
        destruct (upd_reb l w); [exact El|exact El]
       |cbn [andb]; split; exists e'; (split; [exact L'|reflexivity])]] end.
  all: cbn [upd_flag lint_flag]; exec_cases H.
  all: try (split; exists e'; (split; [exact L'|reflexivity])).
  - (* IIgnore *)
    cbn [s_docs set_docs] in L'. rewrite lookup_upsert in L'. destruct (url_eqb u (l_url l')) eqn:E.
    + apply url_eqb_eq in E. subst u. inversion L'; subst. split; exists e; (split; [assumption|reflexivity]).
    + split; exists e'; (split; [exact L'|reflexivity]).
  - (* IClose *)
    cbn in L'. rewrite lookup_remove in L'. destruct (url_eqb u (l_url l')); [discriminate L'|].
    split; exists e'; (split; [exact L'|reflexivity]).
  - (* ICfgRebuild *)
    cbn in L'. rewrite lookup_map_val in L'. destruct (lookup u (s_docs w)) as [e0|] eqn:Lu; [|discriminate L'].
    inversion L'; subst. split; [exists e0; split; reflexivity|].
    assert (M : mem_url u (keys (s_docs w)) = true) by (apply mem_url_In, (lookup_In_keys _ _ _ Lu)).
    rewrite M. reflexivity.
Qed.

Lemma exec_scfg : forall u i p l w push l' w',
  exec i l w = Some (push, l', w') -> shape (i :: p) = true ->
  forall a', lastword w' u = PDiag a' ->
    if pub_flag u i l then a_scfg a' = s_cfg w else lastword w u = PDiag a'.
Proof.
  intros u i p l w push l' w' H S a' La.
  destruct i; try discriminate S; cbn [pub_flag]; exec_cases H; try exact La.
  - (* IPublish *)
    rewrite lastword_send, (url_eqb_sym u) in La. destruct (url_eqb (l_url l') u); [|exact La].
    unfold pubval in La. destruct (lookup (l_url l') (s_docs w)) as [e|]; [|discriminate La].
    destruct (e_text e), (e_lang e); try discriminate La. inversion La. reflexivity.
  - (* IClose *)
    unfold lastword in La |- *. cbn [s_log s_docs set_lock send set_log set_docs last_pub] in La.
    destruct (url_eqb u (l_url l')); [discriminate La|exact La].
Qed.

Lemma xevents_cfgs : forall u id y hs i p,
  find_h id (y_flight y) = Some hs -> h_prog hs = i :: p ->
  (forall d, last_some (eff_snap u) (xevents (CRun id) y) d =
             if upd_flag u i (h_loc hs) (y_world y) then Some (l_snap (h_loc hs)) else d) /\
  (forall d, last_some (linter_of u) (xevents (CRun id) y) d =
             match lint_flag u i (h_loc hs) (y_world y) with Some c => Some c | None => d end) /\
  (forall d, last_some (pub_of u) (xevents (CRun id) y) d =
             if pub_flag u i (h_loc hs) then Some (s_cfg (y_world y)) else d).
Proof.
  intros u id y hs i p Hf Hp. unfold xevents. rewrite Hf, Hp.
  destruct i; try (repeat split; reflexivity).
  - (* IUpdate *)
    cbn [upd_flag lint_flag pub_flag]. unfold updf.
    destruct (l_text (h_loc hs)) as [t|]; [|rewrite andb_false_r; repeat split; reflexivity].
    cbn [last_some eff_snap linter_of pub_of].
    destruct (url_eqb (l_url (h_loc hs)) u && upd_eff (h_loc hs) (y_world y)); cbn [andb];
      [destruct (upd_reb (h_loc hs) (y_world y))|]; repeat split; reflexivity.
  - (* IPublish *)
    cbn [upd_flag lint_flag pub_flag last_some eff_snap linter_of pub_of].
    destruct (url_eqb (l_url (h_loc hs)) u); repeat split; reflexivity.
Qed.

(* ---------- the invariant ---------- *)
Record RInv (u : url) (w0 : world) (tr : list xevent) (y : sys) : Prop := mkRInv {
  ri_l : LInv y;
  ri_hs : forall hs, In hs (y_flight y) -> shape (h_prog hs) = true /\ notcode (l_lang (h_loc hs)) = true;
  ri_docs : nocode_docs (s_docs (y_world y));
  ri_todo : forallb okop (y_todo y) = true;
  ri_text : forall e, lookup u (s_docs (y_world y)) = Some e -> curt u w0 tr = Some (e_text e);
  ri_pub : pstrip (lastword (y_world y) u) = psv (y_world y) u \/
           exists hs, In hs (y_flight y) /\ owes u (l_url (h_loc hs)) (l_queue (h_loc hs)) (h_prog hs) = true;
  ri_pcfg : forall e, lookup u (s_docs (y_world y)) = Some e -> curp u w0 tr = Some (e_pcfg e);
  ri_lcfg : forall e, lookup u (s_docs (y_world y)) = Some e -> curl u w0 tr = Some (e_lcfg e);
  ri_scfg : forall a, lastword (y_world y) u = PDiag a -> curs u w0 tr = Some (a_scfg a)
}.

Lemma client_effect_server : forall o w, s_docs (client_effect o w) = s_docs w /\ s_log (client_effect o w) = s_log w.
Proof.
  intros o w. destruct o; cbn [client_effect];
    repeat match goal with |- context [match ?x with _ => _ end] => destruct x end; split; reflexivity.
Qed.

Lemma okop_prog : forall o, okop o = true -> shape (prog o) = true /\ notcode (l_lang (locals_of o)) = true.
Proof. intros o H. destruct o; try discriminate H; try (split; reflexivity). destruct l; try discriminate H; split; reflexivity. Qed.

Lemma xevents_curt : forall u id y hs i p d,
  find_h id (y_flight y) = Some hs -> h_prog hs = i :: p ->
  last_some (eff_text u) (xevents (CRun id) y) d =
  if upd_flag u i (h_loc hs) (y_world y) then Some (l_text (h_loc hs)) else d.
Proof.
  intros u id y hs i p d Hf Hp. unfold xevents. rewrite Hf, Hp.
  destruct i; try reflexivity. cbn [upd_flag]. unfold updf.
  destruct (l_text (h_loc hs)) as [t|]; [|rewrite andb_false_r; reflexivity].
  cbn [last_some eff_text]. destruct (url_eqb (l_url (h_loc hs)) u && upd_eff (h_loc hs) (y_world y)); reflexivity.
Qed.

Lemma rinv_step : forall u w0 tr c y y', RInv u w0 tr y -> step c y = Some y' -> RInv u w0 (tr ++ xevents c y) y'.
Proof.
  intros u w0 tr c y y' I H. pose proof (linv_step c y y' (ri_l _ _ _ _ I) H) as L'.
  destruct c as [|id].
  - (* CAdmit *)
    cbn [xevents]. rewrite app_nil_r. cbn [step] in H. destruct (y_todo y) as [|o rest] eqn:T; [discriminate|].
    destruct (length (y_flight y) <? max_in_flight); [|discriminate]. inversion H; subst y'; clear H.
    destruct (client_effect_server o (y_world y)) as [Ed El].
    pose proof (ri_todo _ _ _ _ I) as Td. rewrite T in Td. cbn [forallb] in Td. apply andb_true_iff in Td as [To Tr].
    constructor; cbn [y_world y_flight y_todo].
    + exact L'.
    + intros hs Hin. apply in_app_or in Hin as [Hin|[<-|[]]]; [exact (ri_hs _ _ _ _ I hs Hin)|exact (okop_prog o To)].
    + rewrite Ed. exact (ri_docs _ _ _ _ I).
    + exact Tr.
    + rewrite Ed. exact (ri_text _ _ _ _ I).
    + unfold lastword, psv. rewrite Ed, El. destruct (ri_pub _ _ _ _ I) as [A|(hs & Hin & Ow)]; [left; exact A|].
      right. exists hs. split; [apply in_or_app; left; exact Hin|exact Ow].
    + rewrite Ed. exact (ri_pcfg _ _ _ _ I).
    + rewrite Ed. exact (ri_lcfg _ _ _ _ I).
    + unfold lastword. rewrite El. exact (ri_scfg _ _ _ _ I).
  - (* a handler runs *)
    cbn [step] in H.
    destruct (find_h id (y_flight y)) as [hs|] eqn:Hf; [|discriminate].
    destruct (h_prog hs) as [|i p] eqn:Hp; [discriminate|].
    destruct (exec i (h_loc hs) (y_world y)) as [[[push l'] w']|] eqn:He; [|discriminate].
    inversion H; subst y'; clear H.
    destruct (find_h_In _ _ _ Hf) as [Hin Hi].
    destruct (ri_hs _ _ _ _ I hs Hin) as [Sh Nl]. rewrite Hp in Sh.
    pose proof (ri_docs _ _ _ _ I) as Nd.
    destruct (exec_shape _ _ _ _ _ _ _ He Sh Nl Nd) as (Sh' & Nl' & Nd').
    pose proof (li_ids y (ri_l _ _ _ _ I)) as ND.
    constructor; cbn [y_world y_flight y_todo].
    + exact L'.
    + intros a Ha. destruct (replace_h_In _ _ ND a Ha) as [(-> & _ & _)|(A & _)]; [split; assumption|exact (ri_hs _ _ _ _ I a A)].
    + exact Nd'.
    + exact (ri_todo _ _ _ _ I).
    + intros e' Le'. unfold curt. rewrite last_some_app. fold (curt u w0 tr).
      rewrite (xevents_curt u id y hs i p _ Hf Hp).
      pose proof (exec_text u _ _ _ _ _ _ _ He Sh Nl Nd e' Le') as X.
      destruct (upd_flag u i (h_loc hs) (y_world y)); [rewrite X; reflexivity|].
      destruct X as (e & Le & Et). rewrite Et. exact (ri_text _ _ _ _ I e Le).
    + destruct (exec_pub u _ _ _ _ _ _ _ He Sh Nl Nd) as [Ow|[A|(Ow & A & B)]].
      * right. exists (mkh id (push ++ p) l'). split; [|exact Ow].
        apply replace_h_new; cbn [h_id h_prog]; [rewrite <- Hi; apply in_map, Hin|].
        intro E. rewrite E in Ow. discriminate Ow.
      * left. exact A.
      * destruct (ri_pub _ _ _ _ I) as [C|(a & Ha & Oa)]; [left; rewrite A, B; exact C|].
        right. exists a. split; [|exact Oa]. apply replace_h_keeps; [exact Ha|]. cbn [h_id].
        intro E. assert (a = hs) by (eapply (NoDup_map_inj h_id (y_flight y)); [exact ND|exact Ha|exact Hin|congruence]).
        subst a. rewrite Hp in Oa. congruence.
    + intros e' Le'. unfold curp. rewrite last_some_app.
      destruct (xevents_cfgs u id y hs i p Hf Hp) as (X1 & _ & _). rewrite X1.
      destruct (exec_cfgs u _ _ _ _ _ _ _ He Sh Nl Nd e' Le') as [X _].
      destruct (upd_flag u i (h_loc hs) (y_world y)); [rewrite X; reflexivity|].
      destruct X as (e & Le & Et). rewrite Et. exact (ri_pcfg _ _ _ _ I e Le).
    + intros e' Le'. unfold curl. rewrite last_some_app.
      destruct (xevents_cfgs u id y hs i p Hf Hp) as (_ & X2 & _). rewrite X2.
      destruct (exec_cfgs u _ _ _ _ _ _ _ He Sh Nl Nd e' Le') as [_ X].
      destruct (lint_flag u i (h_loc hs) (y_world y)); [rewrite X; reflexivity|].
      destruct X as (e & Le & Et). rewrite Et. exact (ri_lcfg _ _ _ _ I e Le).
    + intros a' La. unfold curs. rewrite last_some_app.
      destruct (xevents_cfgs u id y hs i p Hf Hp) as (_ & _ & X3). rewrite X3.
      pose proof (exec_scfg u _ _ _ _ _ _ _ He Sh a' La) as X.
      destruct (pub_flag u i (h_loc hs)); [rewrite X; reflexivity|exact (ri_scfg _ _ _ _ I a' X)].
Qed.

Lemma rinv_run : forall u w0 cs tr y y', RInv u w0 tr y -> run cs y = Some y' -> RInv u w0 (tr ++ xtrace cs y) y'.
Proof.
  intros u w0. induction cs as [|c cs IH]; intros tr y y' I R; cbn [run xtrace] in *.
  - inversion R; subst. rewrite app_nil_r. exact I.
  - destruct (step c y) as [y1|] eqn:S; [|discriminate]. rewrite app_assoc. apply (IH _ y1 y'); [|exact R].
    exact (rinv_step u w0 tr c y y1 I S).
Qed.

Lemma rinv_init : forall u w0 h, s_dlock w0 = false -> nocode_docs (s_docs w0) -> forallb okop h = true ->
  pstrip (lastword w0 u) = psv w0 u -> RInv u w0 [] (init h w0).
Proof.
  intros u w0 h Hd Nd Hh Hp. constructor; cbn [init y_world y_flight y_todo].
  - apply linv_init, Hd.
  - intros hs [].
  - exact Nd.
  - exact Hh.
  - intros e Le. unfold curt. cbn [last_some]. rewrite Le. reflexivity.
  - left. exact Hp.
  - intros e Le. unfold curp. cbn [last_some]. rewrite Le. reflexivity.
  - intros e Le. unfold curl. cbn [last_some]. rewrite Le. reflexivity.
  - intros a La. unfold curs. cbn [last_some]. rewrite La. reflexivity.
Qed.

(* ---------- the flag rf_text of Model/C09Race.v is what `curt` says ---------- *)
Definition tsel (best : option (list xevent * xevent * list xevent)) (d : option text) : option text :=
  match best with Some (_, XUpd _ _ t _ _ _, _) => Some t | _ => d end.

Lemma split_last_curt : forall u d tr pre best,
  Some (tsel (split_last (eff_upd u) pre tr best) d) = last_some (eff_text u) tr (Some (tsel best d)).
Proof.
  intros u d. induction tr as [|e tr IH]; intros pre best; cbn [split_last last_some]; [reflexivity|].
  rewrite IH. f_equal. destruct e; cbn [eff_upd eff_text]; try reflexivity.
  destruct (url_eqb u0 u && eff); reflexivity.
Qed.

Definition same_text (a b : option text) : bool :=
  match a, b with Some x, Some y => text_eqb x y | _, _ => false end.

Lemma rf_text_curt : forall w0 wf u tr,
  rf_text (race_shape w0 wf u tr) =
  negb (same_text (tsel (split_last (eff_upd u) [] tr None) (match lookup u (s_docs w0) with Some e => e_text e | None => None end))
                  (match lookup u (w_open wf) with Some cd => Some (cd_text cd) | None => None end)).
Proof.
  intros w0 wf u tr. unfold race_shape. cbn [rf_text]. f_equal.
  destruct (split_last (eff_upd u) [] tr None) as [[[pre e] post]|]; [destruct e|]; reflexivity.
Qed.

(* ---------- the theorems ---------- *)
Definition race_gen_start (w0 : world) (u : url) : Prop :=
  s_dlock w0 = false /\ nocode_docs (s_docs w0) /\ pstrip (lastword w0 u) = psv w0 u.

(* at the end of EVERY schedule: the text of the last word is the text doc_state holds, and that is the text of the last
   effective critical section of u in the trace (the initial entry's if there is none) *)
Theorem race_text_last : forall w0 h u cs y,
  race_gen_start w0 u -> forallb okop h = true ->
  run cs (init h w0) = Some y -> quiescent y ->
  ptext (lastword (y_world y) u) = ptv (y_world y) u /\
  forall e, lookup u (s_docs (y_world y)) = Some e -> curt u w0 (xtrace cs (init h w0)) = Some (e_text e).
Proof.
  intros w0 h u cs y (Hd & Nd & Hp) Hh R [Qf _].
  pose proof (rinv_run u w0 cs [] _ _ (rinv_init u w0 h Hd Nd Hh Hp) R) as I. cbn [app] in I.
  split; [|exact (ri_text _ _ _ _ I)].
  rewrite ptext_strip, ptv_psv.
  destruct (ri_pub _ _ _ _ I) as [A|(hs & Hin & _)]; [rewrite A; reflexivity|]. rewrite Qf in Hin. destruct Hin.
Qed.

(* exact for the text component: the last word of a document the client has open carries the newest text IFF the
   flag `text overtaken` is absent and doc_state publishes something for the document *)
Theorem race_text_exact : forall w0 h u cs y cd,
  race_gen_start w0 u -> forallb okop h = true ->
  run cs (init h w0) = Some y -> quiescent y ->
  lookup u (w_open (y_world y)) = Some cd ->
  (ptext (lastword (y_world y) u) = Some (cd_text cd) <->
   rf_text (race_shape w0 (y_world y) u (xtrace cs (init h w0))) = false /\ ptv (y_world y) u <> None).
Proof.
  intros w0 h u cs y cd St Hh R Q Lc.
  destruct (race_text_last w0 h u cs y St Hh R Q) as [A B]. rewrite A.
  rewrite rf_text_curt, Lc. unfold curt in B.
  pose proof (split_last_curt u (match lookup u (s_docs w0) with Some e => e_text e | None => None end)
                (xtrace cs (init h w0)) [] None) as SC. cbn [tsel] in SC. rewrite <- SC in B. clear SC.
  set (ts := tsel (split_last (eff_upd u) [] (xtrace cs (init h w0)) None)
                  (match lookup u (s_docs w0) with Some e => e_text e | None => None end)) in *.
  unfold ptv in *. destruct (lookup u (s_docs (y_world y))) as [e|] eqn:Le.
  - specialize (B e eq_refl). inversion B as [B']. 
    clearbody ts. destruct ts as [t|]; cbv beta iota; [|split; [discriminate|intros [_ C]; congruence]].
    destruct (e_lang e); cbv beta iota; [|split; [discriminate|intros [_ C]; congruence]].
    cbn [same_text]. split.
    + intro E. inversion E; subst. rewrite text_eqb_refl. split; [reflexivity|discriminate].
    + intros [E _]. apply negb_false_iff, text_eqb_eq in E. subst. reflexivity.
  - split; [discriminate|intros [_ C]; congruence].
Qed.

(* the 'if' direction of the shape for its first flag, for ALL histories of the class and ALL schedules *)
Theorem race_text_sound : forall w0 h u cs y cd,
  race_gen_start w0 u -> forallb okop h = true ->
  run cs (init h w0) = Some y -> quiescent y ->
  lookup u (w_open (y_world y)) = Some cd -> kind (cd_lang cd) <> KNone ->
  rf_text (race_shape w0 (y_world y) u (xtrace cs (init h w0))) = true ->
  lastword (y_world y) u <> expected (y_world y) u.
Proof.
  intros w0 h u cs y cd St Hh R Q Lc Hk F E.
  assert (X : ptext (lastword (y_world y) u) = Some (cd_text cd)).
  { rewrite E. unfold expected. rewrite Lc. destruct (kind (cd_lang cd)); try reflexivity. congruence. }
  apply (race_text_exact w0 h u cs y cd St Hh R Q Lc) in X as [X _]. congruence.
Qed.

(* ---------- four of the five flags, exactly ---------- *)
Definition csel (best : option (list xevent * xevent * list xevent)) (d : option cfg) : option cfg :=
  match best with Some (_, XUpd _ _ _ _ snap _, _) => Some snap | _ => d end.

Lemma split_last_curp : forall u d tr pre best,
  csel (split_last (eff_upd u) pre tr best) d = last_some (eff_snap u) tr (csel best d).
Proof.
  intros u d. induction tr as [|e tr IH]; intros pre best; cbn [split_last last_some]; [reflexivity|].
  rewrite IH. f_equal. destruct e; cbn [eff_upd eff_snap]; try (destruct (csel best d); reflexivity).
  destruct (url_eqb u0 u && eff); [reflexivity|destruct (csel best d); reflexivity].
Qed.

Definition cfg_is (c : option cfg) (cF : cfg) : bool := match c with Some x => x =? cF | None => false end.

Lemma rf_cfgs_cur : forall w0 wf u tr,
  rf_pcfg (race_shape w0 wf u tr) = negb (cfg_is (curp u w0 tr) (w_ccfg wf)) /\
  rf_lcfg (race_shape w0 wf u tr) = negb (cfg_is (curl u w0 tr) (w_ccfg wf)) /\
  rf_scfg (race_shape w0 wf u tr) = negb (cfg_is (curs u w0 tr) (w_ccfg wf)).
Proof.
  intros w0 wf u tr. unfold race_shape. cbn [rf_pcfg rf_lcfg rf_scfg]. split; [|split].
  - f_equal. unfold curp.
    pose proof (split_last_curp u (option_map e_pcfg (lookup u (s_docs w0))) tr [] None) as SC. cbn [csel] in SC.
    rewrite <- SC. clear SC.
    destruct (split_last (eff_upd u) [] tr None) as [[[pre e] post]|]; [destruct e|]; cbn [csel cfg_is];
      try reflexivity; try (destruct (lookup u (s_docs w0)); reflexivity).
  - first [reflexivity | f_equal; unfold curl, cfg_is; destruct (lookup u (s_docs w0)); reflexivity].
  - reflexivity.
Qed.

(* at the end of EVERY schedule the last word of u is what doc_state would publish now, but for the severity settings:
   the generalisation of `lastword = pubval` (C09_batch_serialises) to histories with commands and configuration
   changes, where it is false as it stands (pull_config of ANY handler moves the severity settings) *)
Theorem race_last_is_doc_state : forall w0 h u cs y,
  race_gen_start w0 u -> forallb okop h = true ->
  run cs (init h w0) = Some y -> quiescent y ->
  pstrip (lastword (y_world y) u) = psv (y_world y) u.
Proof.
  intros w0 h u cs y (Hd & Nd & Hp) Hh R [Qf _].
  pose proof (rinv_run u w0 cs [] _ _ (rinv_init u w0 h Hd Nd Hh Hp) R) as I. cbn [app] in I.
  destruct (ri_pub _ _ _ _ I) as [A|(hs & Hin & _)]; [exact A|]. rewrite Qf in Hin. destruct Hin.
Qed.

(* the flags text / parser settings / linter settings / severity settings of race_shape ARE the comparisons of the
   corresponding components of the last word with the newest client text resp. the client's current settings *)
Theorem race_flags_exact : forall w0 h u cs y a,
  race_gen_start w0 u -> forallb okop h = true ->
  run cs (init h w0) = Some y -> quiescent y ->
  lastword (y_world y) u = PDiag a ->
  let f := race_shape w0 (y_world y) u (xtrace cs (init h w0)) in
  rf_pcfg f = negb (a_pcfg a =? w_ccfg (y_world y)) /\
  rf_lcfg f = negb (a_lcfg a =? w_ccfg (y_world y)) /\
  rf_scfg f = negb (a_scfg a =? w_ccfg (y_world y)) /\
  forall cd, lookup u (w_open (y_world y)) = Some cd -> rf_text f = negb (text_eqb (a_text a) (cd_text cd)).
Proof.
  intros w0 h u cs y a St Hh R Q La f.
  pose proof (race_last_is_doc_state w0 h u cs y St Hh R Q) as P.
  destruct St as (Hd & Nd & Hp). destruct Q as [Qf Qt].
  pose proof (rinv_run u w0 cs [] _ _ (rinv_init u w0 h Hd Nd Hh Hp) R) as I. cbn [app] in I.
  rewrite La in P. cbn [pstrip] in P. unfold psv in P.
  destruct (lookup u (s_docs (y_world y))) as [e|] eqn:Le; [|discriminate P].
  destruct (e_text e) as [t|] eqn:Et; [|discriminate P]. destruct (e_lang e); [|discriminate P].
  inversion P as [[P1 P2 P3 P4 P5 P6 P7]].
  destruct (rf_cfgs_cur w0 (y_world y) u (xtrace cs (init h w0))) as (F1 & F2 & F3). subst f.
  rewrite F1, F2, F3, (ri_pcfg _ _ _ _ I e Le), (ri_lcfg _ _ _ _ I e Le), (ri_scfg _ _ _ _ I a La). cbn [cfg_is].
  split; [f_equal; f_equal; congruence|]. split; [f_equal; f_equal; congruence|]. split; [reflexivity|].
  intros cd Lc. rewrite rf_text_curt, Lc.
  pose proof (ri_text _ _ _ _ I e Le) as B. unfold curt in B.
  pose proof (split_last_curt u (match lookup u (s_docs w0) with Some e => e_text e | None => None end)
                (xtrace cs (init h w0)) [] None) as SC. cbn [tsel] in SC. rewrite <- SC in B. inversion B as [B'].
  rewrite B', Et. cbn [same_text]. f_equal. f_equal. congruence.
Qed.

(* the 'if' direction of race_overtaken for four of its five flags, ALL histories of the class, ALL schedules *)
Theorem race_flags_sound : forall w0 h u cs y cd,
  race_gen_start w0 u -> forallb okop h = true ->
  run cs (init h w0) = Some y -> quiescent y ->
  lookup u (w_open (y_world y)) = Some cd -> kind (cd_lang cd) <> KNone ->
  let f := race_shape w0 (y_world y) u (xtrace cs (init h w0)) in
  rf_text f || rf_pcfg f || rf_lcfg f || rf_scfg f = true ->
  lastword (y_world y) u <> expected (y_world y) u.
Proof.
  intros w0 h u cs y cd St Hh R Q Lc Hk f F E.
  assert (X : exists a, expected (y_world y) u = PDiag a /\ a_text a = cd_text cd /\ a_pcfg a = w_ccfg (y_world y) /\
                        a_lcfg a = w_ccfg (y_world y) /\ a_scfg a = w_ccfg (y_world y)).
  { unfold expected. rewrite Lc. destruct (kind (cd_lang cd)); try congruence; eexists; (split; [reflexivity|]); repeat split. }
  destruct X as (a & Ea & A1 & A2 & A3 & A4). rewrite Ea in E.
  destruct (race_flags_exact w0 h u cs y a St Hh R Q E) as (F1 & F2 & F3 & F4). specialize (F4 cd Lc).
  subst f. rewrite F1, F2, F3, F4, A1, A2, A3, A4, text_eqb_refl, Nat.eqb_refl in F. discriminate F.
Qed.

(* ---------- decidable start condition, non-vacuity ---------- *)
Definition nocode_docsb (m : list (url * entry)) : bool := forallb (fun kv => notcode (e_lang (snd kv))) m.
Lemma nocode_docsb_ok : forall m, nocode_docsb m = true -> nocode_docs m.
Proof. intros m H v e Hin. unfold nocode_docsb in H. rewrite forallb_forall in H. exact (H (v, e) Hin). Qed.

(* two didChange and an add-word command naming the same (saved) file, all three in flight; the command's re-read of
   the file runs its critical section last: no version, the older text of the file is installed *)
Definition gen_example_h : list op := [Change uA (tx 1) 2; AddUser 5 uA; Change uA (tx 2) 3].
Definition gen_example_cs : list choice :=
  match kexpand [KAdmit; KAdmit; KAdmit; KRun 0; KRun 0; KRun 2; KRun 2; KRun 1; KRun 1] (init gen_example_h race_wA) with
  | Some cs => cs
  | None => []
  end.

Lemma race_gen_example :
  race_gen_start race_wA uA /\ forallb okop gen_example_h = true /\
  exists y cd, run gen_example_cs (init gen_example_h race_wA) = Some y /\ quiescent y /\
    lookup uA (w_open (y_world y)) = Some cd /\ kind (cd_lang cd) <> KNone /\ cd_text cd = tx 2 /\
    length gen_example_cs = 31 /\
    race_shape race_wA (y_world y) uA (xtrace gen_example_cs (init gen_example_h race_wA)) = mkflags true false false false false /\
    ptext (lastword (y_world y) uA) = Some (tx 0).
Proof.
  split; [split; [reflexivity|split; [apply nocode_docsb_ok; vm_compute; reflexivity|vm_compute; reflexivity]]|].
  split; [reflexivity|].
  eexists. eexists. split; [vm_compute; reflexivity|].
  split; [split; reflexivity|]. split; [vm_compute; reflexivity|]. split; [cbn; discriminate|].
  split; [reflexivity|]. split; [vm_compute; reflexivity|]. split; vm_compute; reflexivity.
Qed.

(* a didChange whose configuration round-trip was answered BEFORE a didChangeConfiguration arrives, and which goes on only
   after that handler has finished: it writes the old settings back, parses and publishes under them *)
Definition gen_example2_h : list op := [Change uA (tx 1) 2; CfgChange 1 []].
Definition gen_example2_cs : list choice :=
  [CAdmit; CRun 0; CRun 0; CAdmit] ++ repeat (CRun 1) 13 ++ repeat (CRun 0) 6.

Lemma race_gen_example2 :
  race_gen_start race_wS uA /\ forallb okop gen_example2_h = true /\
  exists y cd a, run gen_example2_cs (init gen_example2_h race_wS) = Some y /\ quiescent y /\
    lookup uA (w_open (y_world y)) = Some cd /\ kind (cd_lang cd) <> KNone /\
    lastword (y_world y) uA = PDiag a /\
    race_shape race_wS (y_world y) uA (xtrace gen_example2_cs (init gen_example2_h race_wS)) = mkflags false false true false true /\
    (a_text a, a_pcfg a, a_lcfg a, a_scfg a, w_ccfg (y_world y)) = (tx 1, 0, 1, 0, 1).
Proof.
  split; [split; [reflexivity|split; [apply nocode_docsb_ok; vm_compute; reflexivity|vm_compute; reflexivity]]|].
  split; [reflexivity|].
  eexists. eexists. eexists. split; [vm_compute; reflexivity|].
  split; [split; reflexivity|]. split; [vm_compute; reflexivity|]. split; [cbn; discriminate|].
  split; [vm_compute; reflexivity|]. split; vm_compute; reflexivity.
Qed.
