(* C03ChunkPremise.v — the chunk premise of C03_lintgroup_history_in_bounds ("a pattern rule keeps its lints inside the
   chunk it is run on") reduced to the side conditions of the span schemas:
     run_on_chunk hands match_to_lint slices chunk[a..b] of the chunk, a < b <= |chunk|   (C01: roc_ranges_are_matches)
     every classified span source (Tables_spanexprs.lint_span_src: a token's span, the hull of some of the tokens,
       Between, SuffixSpan, WithLen1) evaluated over tokens lying in a window [lo, hi] lies in that window
     the tokens of a chunk lie in the window of the chunk's hull (chunk.span())
   => whatever span a rule body builds from the matched tokens by a classified source lies inside the chunk's hull,
   under the source's own side condition (part of src_denotes) and start <= end for the chunk's tokens (C02). *)
From Coq Require Import List String Arith NArith Lia.
Require Import Base Cache CacheProofs SpanSchemas Tables_spanexprs SpanSites TokenSeq Pattern C01LenProofs.
Require Import C03LintGroup C03LintGroupProofs.
Import ListNotations.

Definition span_within (lo hi : nat) (s : span) : Prop := lo <= sstart s /\ sstart s <= send s /\ send s <= hi.

Lemma fold_min_lower l d lo : lo <= d -> Forall (fun x => lo <= x) l -> lo <= fold_right Nat.min d l.
Proof. intros Hd H. induction H; cbn [fold_right]; lia. Qed.

(* every classified source over tokens inside a window stays inside the window *)
Lemma src_denotes_within lo hi ts k s :
  Forall (span_within lo hi) ts -> src_denotes ts k s -> span_within lo hi s.
Proof.
  intros F D.
  assert (Fin : Forall (span_in hi) ts) by (eapply Forall_impl; [|exact F]; intros t (H1 & H2 & H3); split; assumption).
  destruct (lint_src_in_bounds hi ts k s Fin D) as [W B].
  split; [|split; assumption].
  rewrite Forall_forall in F.
  destruct D as [t Ht|sub h Hs Hh|a b s Ha Hb Hab Hs|t s Ht Hl Hs|t Ht Hl].
  - apply (F t Ht).
  - destruct sub as [|t sub']; [discriminate|]. cbn [SpanSchemas.hull] in Hh. injection Hh as <-. cbn [sstart].
    assert (Ft : lo <= sstart t) by (apply (F t); apply Hs; now left).
    apply Nat.min_glb; [exact Ft|]. apply fold_min_lower; [exact Ft|].
    rewrite Forall_map. apply Forall_forall. intros x Hx. apply (F x). apply Hs. now right.
  - apply span_new_ok in Hs. destruct Hs as [-> _]. cbn [sstart]. apply (F a Ha).
  - destruct (suffix_span_in_bounds hi t) as (s' & E & _ & Hlo & _); [rewrite Forall_forall in Fin; now apply Fin|assumption|].
    rewrite E in Hs. injection Hs as <-. pose proof (F t Ht) as (H1 & _). lia.
  - unfold with_len. cbn [sstart]. apply (F t Ht).
Qed.

(* a chunk of Pattern.v's tokens as the cache sees it *)
Definition cview (t : TokenSeq.tok) : Cache.tok nat := (tkid t, tspan t).

Lemma chunk_tokens_within (chunk : list TokenSeq.tok) sp :
  hull_of (map cview chunk) = Ok (Some sp) ->
  Forall (fun t => sstart (tspan t) <= send (tspan t)) chunk ->
  Forall (span_within (sstart sp) (send sp)) (map tspan chunk).
Proof.
  intros Ho Hw. pose proof (hull_of_below nat _ sp Ho) as Hlo. pose proof (hull_of_above nat _ sp Ho) as Hhi.
  rewrite Forall_map in Hlo, Hhi. rewrite Forall_map. rewrite Forall_forall in *.
  intros t Ht. specialize (Hlo t Ht). specialize (Hhi t Ht). specialize (Hw t Ht). cbn [cview snd] in Hlo, Hhi.
  unfold span_within. lia.
Qed.

Lemma In_slice {A} (l : list A) a b x : In x (slice l a b) -> In x l.
Proof.
  unfold slice. intros H.
  assert (H1 : forall n (l0 : list A), In x (firstn n l0) -> In x l0).
  { induction n as [|n IH]; intros [|y l0]; cbn [firstn In]; try tauto. intros [E|H0]; [now left|right; now apply IH]. }
  assert (H2 : forall n (l0 : list A), In x (skipn n l0) -> In x l0).
  { induction n as [|n IH]; intros [|y l0]; cbn [skipn In]; try tauto. intros H0. right. now apply IH. }
  eapply H2, H1, H.
Qed.

(* THE CHUNK PREMISE, for every pattern of the inductive and every chunk: each range run_on_chunk hands to
   match_to_lint is a non-empty slice of the chunk, and every span a classified source denotes over the spans of
   THOSE tokens makes a lint inside the chunk's hull *)
Theorem pattern_lint_within_chunk leaf oracle src p (chunk : list TokenSeq.tok) l sp :
  run_on_chunk leaf oracle p chunk src = Ok l ->
  hull_of (map cview chunk) = Ok (Some sp) ->
  Forall (fun t => sstart (tspan t) <= send (tspan t)) chunk ->
  Forall (fun ab => fst ab < snd ab /\ snd ab <= length chunk /\
            forall k s body, src_denotes (map tspan (slice chunk (fst ab) (snd ab))) k s -> lint_within sp (mkclint s body)) l.
Proof.
  intros Hr Ho Hw.
  pose proof (roc_ranges_are_matches (fun ts => matches leaf oracle p ts src) chunk (S (length chunk)) 0 l Hr) as R.
  pose proof (chunk_tokens_within chunk sp Ho Hw) as Win.
  eapply Forall_impl; [|exact R]. intros [a b] (H1 & H2 & H3 & _). cbn [fst snd] in *.
  split; [exact H3|]. split; [exact H2|]. intros k s body D.
  assert (F : Forall (span_within (sstart sp) (send sp)) (map tspan (slice chunk a b))).
  { rewrite Forall_map. apply Forall_forall. intros t Ht. apply In_slice in Ht.
    rewrite Forall_map, Forall_forall in Win. now apply Win. }
  destruct (src_denotes_within _ _ _ k s F D) as (L1 & L2 & L3).
  unfold lint_within. cbn [cl_span]. auto.
Qed.

(* non-vacuity: the clause at 3..9 of some text, three tokens; the rule's pattern takes the first two tokens; the hull
   of the first match (LHull), its first token (LTokSpan), Between and WithLen1 all lie inside the chunk 3..9 — while a
   span that is NOT one of the sources (one past the last token) does not *)
Definition exc_chunk : list TokenSeq.tok := [mktok (mkspan 3 6) 0 1%N 0; mktok (mkspan 6 7) 1 2%N 1; mktok (mkspan 7 9) 0 1%N 2].
Example chunk_premise_example :
  run_on_chunk (fun _ _ _ => Ok true) (fun _ _ _ => Ok true) (PSeq [PAny; PAny]) exc_chunk [] = Ok [(0, 2)] /\
  hull_of (map cview exc_chunk) = Ok (Some (mkspan 3 9)) /\
  src_denotes (map tspan (slice exc_chunk 0 2)) LHull (mkspan 3 7) /\
  src_denotes (map tspan (slice exc_chunk 0 2)) LTokSpan (mkspan 3 6) /\
  src_denotes (map tspan (slice exc_chunk 0 2)) LBetween (mkspan 3 7) /\
  src_denotes (map tspan (slice exc_chunk 0 2)) LWithLen1 (mkspan 3 4) /\
  lint_within (mkspan 3 9) (mkclint (mkspan 3 7) 0%N) /\ ~ lint_within (mkspan 3 9) (mkclint (mkspan 7 10) 0%N).
Proof.
  split; [vm_compute; reflexivity|]. split; [vm_compute; reflexivity|].
  split; [apply D_hull with (sub := [mkspan 3 6; mkspan 6 7]); [apply incl_refl|reflexivity]|].
  split; [apply D_tok; cbn; auto|].
  split; [apply D_between with (a := mkspan 3 6) (b := mkspan 6 7); cbn; auto|].
  split; [apply (D_withlen1 _ (mkspan 3 6)); cbn; auto|].
  split; unfold lint_within; cbn; lia.
Qed.
