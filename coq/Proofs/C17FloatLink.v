(* C17FloatLink.v — C17: the main theorem with the rule computing on binary64 values (imports C17Float, hence Flocq
   and the classical reals).  `rule64` is CorrectNumberSuffix::lint exactly as Number.rule, except that the value of
   a Number token `VInt n` is read as the binary64 datum `f64_of_N n` (the correctly rounded value of the literal) and
   NumberSuffix::correct_suffix_for is `correct_suffix_for_f64`: the three f64 guards, the saturating cast to u64 and
   the two `%`.  The premise "the trip through f64 is exact below 2^53" is here a lemma (C17Float.f64_suffix_exact),
   not a modelling convention. *)
Require Import Base Overlap Suggestion Tables_number Number NumberArith NumberLex NumberPasses NumberProofs C17Float.
From Coq Require Import String List Arith NArith Bool Lia.
Import ListNotations.
Local Open Scope string_scope.
Local Open Scope list_scope.

Definition csf64 (v : value) : option (option suffix) :=
  match v with VInt n => Some (correct_suffix_for_f64 (f64_of_N n)) | VOther => None end.

Fixpoint rule64 (toks : list token) : option (list mlint) :=
  match toks with
  | [] => Some []
  | t :: r =>
    match tkind t with
    | KNumber v sfx =>
      match pulled_by (span_new_with_len (send (tspan t)) 2) 2 with
      | None => rule64 r
      | Some ss =>
        match sfx with
        | None => rule64 r
        | Some s =>
          match csf64 v with
          | None => None
          | Some None => rule64 r
          | Some (Some c) =>
              if suffix_eqb s c then rule64 r
              else match rule64 r with
                   | Some ls => Some (mkmlint ss [ReplaceWith (to_chars c)] :: ls)
                   | None => None
                   end
          end
        end
      end
    | _ => rule64 r
    end
  end.

Lemma csf64_small (n : N) : (n < two53)%N -> csf64 (VInt n) = correct_suffix_for (VInt n).
Proof. intros Hn. cbn [csf64 correct_suffix_for]. rewrite csf_f64_int by exact Hn. reflexivity. Qed.

Lemma rule64_skip (t : token) (r : list token) : is_number t = false -> rule64 (t :: r) = rule64 r.
Proof. unfold is_number. intros H. cbn [rule64]. destruct (tkind t); try reflexivity. discriminate. Qed.
Lemma rule64_nonum (l : list token) : nonum l -> rule64 l = Some [].
Proof. induction 1 as [|t r Ht _ IH]; [reflexivity|]. rewrite rule64_skip by exact Ht. exact IH. Qed.
Lemma rule64_app_nonum (A l : list token) : nonum A -> rule64 (A ++ l) = rule64 l.
Proof. induction 1 as [|t r Ht _ IH]; [reflexivity|]. cbn [app]. rewrite rule64_skip by exact Ht. exact IH. Qed.
Lemma rule64_filter (l : list token) : rule64 (filter is_number l) = rule64 l.
Proof.
  induction l as [|t r IH]; [reflexivity|]. cbn [filter]. destruct (is_number t) eqn:E.
  - unfold is_number in E. cbn [rule64]. destruct (tkind t); try discriminate. rewrite IH. reflexivity.
  - rewrite rule64_skip by exact E. exact IH.
Qed.

(* on token lists whose suffixed Number tokens all carry integers below 2^53 the two rules agree *)
Definition small_values (l : list token) : Prop :=
  Forall (fun t => match tkind t with KNumber (VInt n) _ => (n < two53)%N | _ => True end) l.
Lemma rule64_rule (l : list token) : small_values l -> rule64 l = rule l.
Proof.
  induction 1 as [|t r Ht _ IH]; [reflexivity|]. cbn [rule64 rule].
  destruct (tkind t) as [v sfx| |?|?| |?| | | | | |]; try exact IH.
  destruct (pulled_by _ 2); [|exact IH]. destruct sfx as [s0|]; [|exact IH].
  destruct v as [n|]; [|reflexivity].
  rewrite (csf64_small n Ht), IH. reflexivity.
Qed.

Definition lint_text64 (U : uni) (ut : text -> nat) (et : text -> nat -> option nat)
  (pp : text -> list token -> list token) (src : text) : res (option (list mlint)) :=
  do t <- doc_tokens U ut et src; Ok (rule64 (pp src t)).

Theorem lint_digits64_thm :
  forall (U : uni) (ut : text -> nat) (et : text -> nat -> option nat) (pp : text -> list token -> list token),
  ascii_laws U -> numbers_preserved pp ->
  forall (D : text) (a b : N) (sx : suffix) (pre post : text),
  D <> [] -> Forall (fun c => is_ascii_digit c = true) D -> (parse_dec D < two53)%N ->
  from_chars [a; b] = Some sx -> ctx_ok U pre D [a; b] post = true ->
  lint_text64 U ut et pp (pre ++ D ++ [a; b] ++ post) = Ok (Some (expected pre D sx (parse_dec D))).
Proof.
  intros U ut et pp (L1 & L2 & L3 & L4) Hpp D a b sx pre post Hne HD Hlt Hfc Hctx.
  apply from_chars_row in Hfc.
  destruct (doc_digits_shape U ut et L1 L2 L3 L4 pre D a b sx post Hne HD Hlt Hfc Hctx) as (A5 & B5 & E5 & HnA5 & HnB5).
  unfold lint_text64. rewrite E5. cbn [bind]. f_equal.
  rewrite <- rule64_filter, Hpp, rule64_filter.
  rewrite rule64_app_nonum by exact HnA5.
  rewrite rule64_rule.
  - pose proof (rule_one [] B5 (mkspan (length pre) (length pre + length D + 2)) (parse_dec D) sx) as R.
    cbn [app] in R. rewrite R; [|constructor | exact HnB5 | cbn [send]; lia].
    cbn [send]. unfold expected.
    replace (length pre + length D + 2 - 2) with (length pre + length D) by lia. reflexivity.
  - constructor; [cbn [tkind]; exact Hlt|].
    clear -HnB5. induction HnB5 as [|t r Ht _ IH]; constructor; [|exact IH].
    unfold is_number in Ht. destruct (tkind t); try exact I. discriminate.
Qed.

Theorem lint_iff64_thm :
  forall (U : uni) (ut : text -> nat) (et : text -> nat -> option nat) (pp : text -> list token -> list token),
  ascii_laws U -> numbers_preserved pp ->
  forall (n : N) (a b : N) (sx : suffix) (pre post : text),
  (n < two53)%N -> from_chars [a; b] = Some sx ->
  ctx_ok U pre (render n) [a; b] post = true ->
  exists ls, lint_text64 U ut et pp (pre ++ render n ++ [a; b] ++ post) = Ok (Some ls)
    /\ (ls = [] <-> sx = ordinal n)
    /\ (sx <> ordinal n ->
        ls = [mkmlint (mkspan (length pre + length (render n)) (length pre + length (render n) + 2))
                      [ReplaceWith (to_chars (ordinal n))]]).
Proof.
  intros U ut et pp HU Hpp n a b sx pre post Hn Hfc Hctx.
  exists (expected pre (render n) sx n).
  split.
  - pose proof (lint_digits64_thm U ut et pp HU Hpp (render n) a b sx pre post (render_nonempty n) (render_digits n)) as H.
    rewrite parse_render in H. apply H; assumption.
  - unfold expected. destruct (suffix_eqb sx (ordinal n)) eqn:E.
    + apply suffix_eqb_spec in E. split; [tauto | intros H; contradiction].
    + assert (sx <> ordinal n) by (intros H; apply suffix_eqb_spec in H; congruence).
      split; [split; [discriminate | tauto] | reflexivity].
Qed.

(* non-vacuity: the f64 rule on concrete documents *)
Definition lint_ascii64 (src : text) : res (option (list mlint)) :=
  lint_text64 ascii_uni no_tail_url no_tail_email id_passes src.
Lemma examples64 :
  lint_ascii64 (txt "The 2st item.") = Ok (Some [mkmlint (mkspan 5 7) [ReplaceWith (txt "nd")]])
  /\ lint_ascii64 (txt "The 2nd item.") = Ok (Some [])
  /\ lint_ascii64 (txt "9007199254740991th") = Ok (Some [mkmlint (mkspan 16 18) [ReplaceWith (txt "st")]]).
Proof. vm_compute. repeat split; reflexivity. Qed.
