(* ServerConc.v — C09, concurrent clause that IS true: if no two handlers in flight concern the same
   document (and the messages are open/change/save/close/ignore/record), every interleaving of the
   handlers' await-to-await segments ends with the right last word for every document. *)
Require Import Base Server ServerLemmas ServerSeq.

Definition hurl (hs : hstate) : url := l_url (h_loc hs).
Definition busy (u : url) (fl : list hstate) : bool := existsb (fun hs => url_eqb (hurl hs) u) fl.
Definition op_target (o : op) : url := l_url (locals_of o).

(* messages covered by the theorem, with the side conditions of the sequential theorem *)
Definition conc_safeb (w : world) (o : op) : bool :=
  match o with
  | Open _ _ _ _ | Change _ _ _ | Save _ | Close _ | Ignore _ _ | RecordLint => op_safeb w o
  | _ => false
  end.

(* a step of the dispatcher that admits a message only when no handler in flight concerns its document *)
Definition xstep (c : choice) (y : sys) : option sys :=
  match c with
  | CAdmit =>
      match y_todo y with
      | o :: _ => if conc_safeb (y_world y) o && negb (busy (op_target o) (y_flight y)) then step CAdmit y else None
      | [] => None
      end
  | CRun id => step (CRun id) y
  end.
Fixpoint xrun (cs : list choice) (y : sys) : option sys :=
  match cs with
  | [] => Some y
  | c :: cs' => match xstep c y with Some y' => xrun cs' y' | None => None end
  end.

Lemma xstep_step : forall c y y', xstep c y = Some y' -> step c y = Some y'.
Proof.
  intros [|id] y y' H; cbn [xstep] in H; [|exact H].
  destruct (y_todo y) as [|o r] eqn:E; [discriminate|].
  destruct (conc_safeb (y_world y) o && negb (busy (op_target o) (y_flight y))); [exact H|discriminate].
Qed.

Lemma xrun_run : forall cs y y', xrun cs y = Some y' -> run cs y = Some y'.
Proof.
  induction cs as [|c cs IH]; intros y y' H; cbn in *; [exact H|].
  destruct (xstep c y) as [y1|] eqn:E; [|discriminate]. rewrite (xstep_step _ _ _ E). apply IH, H.
Qed.

(* what stage_pred, coh and fresh of document v can see of the world *)
Definition same_at (v : url) (w w' : world) : Prop :=
  lookup v (w_open w') = lookup v (w_open w) /\ lookup v (s_docs w') = lookup v (s_docs w) /\
  w_udict w' = w_udict w /\ fdict_of w' v = fdict_of w v /\ w_ccfg w' = w_ccfg w /\ s_cfg w' = s_cfg w /\
  lookup v (w_disk w') = lookup v (w_disk w) /\ lastword w' v = lastword w v.

Lemma same_at_refl : forall v w, same_at v w w.
Proof. intros. repeat split. Qed.

Lemma same_at_want : forall v w w', same_at v w w' -> want_entry w' v = want_entry w v.
Proof.
  intros v w w' (A & B & C & D & E & F & G & H). unfold want_entry, good_entry, cur_dict. rewrite A, C, D, E. reflexivity.
Qed.
Lemma same_at_upd : forall v w w' t lgo nv, same_at v w w' -> upd_entry w' v t lgo nv = upd_entry w v t lgo nv.
Proof.
  intros v w w' t lgo nv (A & B & C & D & E & F & G & H). unfold upd_entry, cur_dict. rewrite B, C, D, E. reflexivity.
Qed.
Lemma same_at_coh : forall v w w', same_at v w w' -> coh w v -> coh w' v.
Proof.
  intros v w w' S X. unfold coh in *. rewrite (same_at_want v w w' S). destruct S as (A & B & _). rewrite B. exact X.
Qed.
Lemma same_at_fresh : forall v w w', same_at v w w' -> fresh w v -> fresh w' v.
Proof.
  intros v w w' (A & B & C & D & E & F & G & H) X. unfold fresh, expected in *. rewrite H, A, C, D, E. exact X.
Qed.
Lemma same_at_reread_ready : forall v w w', same_at v w w' -> reread_ready w v -> reread_ready w' v.
Proof.
  intros v w w' S X. pose proof S as (A & B & C & D & E & F & G & H). unfold reread_ready in *. rewrite G.
  destruct (is_file v); [|eapply same_at_coh; eassumption].
  destruct (lookup v (w_disk w)); [|eapply same_at_coh; eassumption].
  rewrite (same_at_upd v w w' _ _ _ S), (same_at_want v w w' S). exact X.
Qed.

(* ---------- where a handler is, and what holds there ---------- *)
Inductive stage :=
| SUpd (n : nat)       (* n instrs of update_seq ++ [IPublish] done, n <= 6 *)
| SIdent (k : nat)     (* inside use_ident_dict (doc_state mutex held): k of its 3 instrs done, k <= 2 *)
| SPub                 (* [IPublish] *)
| SRead                (* [IReadFile; IPublish] *)
| SClose               (* [IClose; IUnlock] *)
| SUnlock              (* [IUnlock] *)
| SIgn (k : nat)       (* [IIgnore k] *)
| SRec.                (* [IRecord] *)

Definition prog_of (s : stage) : list instr :=
  match s with
  | SUpd n => skipn n (update_seq ++ [IPublish])
  | SIdent k => skipn k [IIdentUD; IIdentFD; IIdentFinish; IPublish]
  | SPub => [IPublish]
  | SRead => [IReadFile; IPublish]
  | SClose => [IClose; IUnlock]
  | SUnlock => [IUnlock]
  | SIgn k => [IIgnore k]
  | SRec => [IRecord]
  end.

Definition ign_pending (w : world) (u : url) (k : nat) : Prop :=
  match lookup u (s_docs w) with
  | Some e => Some (e_add_ign k e) = want_entry w u
  | None => coh w u /\ fresh w u
  end.

(* the entry use_ident_dict is about to complete *)
Definition ident_final (w : world) (u : url) (t : text) (e2 : entry) : entry :=
  e_set_doc t (w_ccfg w) (e_set_dict (with_ident (cur_dict w u) (t_ident t)) (w_ccfg w) (e_set_ident (t_ident t) e2)).

Definition stage_pred (w : world) (l : locals) (s : stage) : Prop :=
  let u := l_url l in
  match s with
  | SUpd n =>
      n <= 6 /\
      (exists t, l_text l = Some t /\ upd_entry w u t (l_lang l) (l_ver l) = want_entry w u) /\
      (n = 2 -> l_ans l = w_ccfg w) /\ (4 <= n -> l_snap l = w_ccfg w) /\
      (5 <= n -> l_ud l = w_udict w) /\ (6 <= n -> l_fd l = fdict_of w u)
  | SIdent k =>
      k <= 2 /\
      (exists t e2, l_text l = Some t /\ lookup u (s_docs w) = Some (e_set_ident (t_ident t) e2) /\
                    Some (ident_final w u t e2) = want_entry w u) /\
      l_snap l = w_ccfg w /\ (1 <= k -> l_ud l = w_udict w) /\ (2 <= k -> l_fd l = fdict_of w u)
  | SPub => coh w u
  | SRead => reread_ready w u
  | SClose => lookup u (w_open w) = None
  | SUnlock => coh w u /\ fresh w u
  | SIgn k => ign_pending w u k
  | SRec => coh w u /\ fresh w u
  end.

Definition stage_ok (w : world) (hs : hstate) : Prop :=
  exists s, h_prog hs = prog_of s /\ stage_pred w (h_loc hs) s.

Lemma same_at_stage : forall w w' l s, same_at (l_url l) w w' -> stage_pred w l s -> stage_pred w' l s.
Proof.
  intros w w' l s S X. pose proof S as (A & B & C & D & E & F & G & H).
  destruct s; cbn [stage_pred] in *.
  - destruct X as (Hn & (t & T1 & T2) & X1 & X2 & X3 & X4).
    split; [exact Hn|]. split; [exists t; split; [exact T1|rewrite (same_at_upd _ _ _ _ _ _ S), (same_at_want _ _ _ S); exact T2]|].
    rewrite E, C, D. repeat split; assumption.
  - destruct X as (Hk & (t & e2 & T1 & T2 & T3) & X1 & X2 & X3).
    split; [exact Hk|]. split; [exists t, e2; split; [exact T1|split; [rewrite B; exact T2|]]|].
    + rewrite (same_at_want _ _ _ S). unfold ident_final, cur_dict in *. rewrite C, D, E. exact T3.
    + rewrite E, C, D. repeat split; assumption.
  - eapply same_at_coh; eassumption.
  - eapply same_at_reread_ready; eassumption.
  - rewrite A. exact X.
  - destruct X; split; [eapply same_at_coh|eapply same_at_fresh]; eassumption.
  - unfold ign_pending in *. rewrite B.
    destruct (lookup (l_url l) (s_docs w)); [rewrite (same_at_want _ _ _ S); exact X|].
    destruct X; split; [eapply same_at_coh|eapply same_at_fresh]; eassumption.
  - destruct X; split; [eapply same_at_coh|eapply same_at_fresh]; eassumption.
Qed.

Record SInv (y : sys) : Prop := mkSInv {
  si_cfg : s_cfg (y_world y) = w_ccfg (y_world y);
  si_ids : NoDup (map h_id (y_flight y));
  si_next : forall hs, In hs (y_flight y) -> h_id hs < y_next y;
  si_urls : NoDup (map hurl (y_flight y));
  si_stage : forall hs, In hs (y_flight y) -> stage_ok (y_world y) hs;
  si_idle : forall u, busy u (y_flight y) = false -> coh (y_world y) u /\ fresh (y_world y) u
}.

(* ---------- bookkeeping of the in-flight list ---------- *)
Lemma find_h_In : forall id fl hs, find_h id fl = Some hs -> In hs fl /\ h_id hs = id.
Proof.
  induction fl as [|h fl IH]; cbn; intros hs H; [discriminate|].
  destruct (h_id h =? id) eqn:E.
  - inversion H; subst. split; [left; reflexivity|apply Nat.eqb_eq, E].
  - destruct (IH hs H). split; [right; assumption|assumption].
Qed.

Lemma busy_false : forall u fl, busy u fl = false <-> forall hs, In hs fl -> hurl hs <> u.
Proof.
  intros u fl. unfold busy. split.
  - intros H hs Hin E. assert (existsb (fun hs => url_eqb (hurl hs) u) fl = true); [|congruence].
    apply existsb_exists. exists hs. split; [exact Hin|apply url_eqb_eq, E].
  - intro H. destruct (existsb _ fl) eqn:E; [|reflexivity]. apply existsb_exists in E as (hs & Hin & Eu).
    apply url_eqb_eq in Eu. exfalso. exact (H hs Hin Eu).
Qed.

(* replacing handler id by a new state: who is in the list afterwards *)
Lemma replace_h_In : forall h' fl, NoDup (map h_id fl) ->
  forall hs, In hs (replace_h h' fl) ->
    (hs = h' /\ h_prog h' <> [] /\ In (h_id h') (map h_id fl)) \/ (In hs fl /\ h_id hs <> h_id h').
Proof.
  induction fl as [|h fl IH]; intros ND hs Hin; cbn in Hin; [contradiction|].
  inversion ND as [|? ? Hnot ND']; subst.
  destruct (h_id h =? h_id h') eqn:E.
  - apply Nat.eqb_eq in E.
    destruct (h_prog h') eqn:Ep.
    + right. split; [right; exact Hin|]. intro Eq. apply Hnot. rewrite E, <- Eq. apply in_map, Hin.
    + destruct Hin as [Hin|Hin].
      * left. subst hs. split; [reflexivity|]. split; [congruence|left; exact E].
      * right. split; [right; exact Hin|]. intro Eq. apply Hnot. rewrite E, <- Eq. apply in_map, Hin.
  - apply Nat.eqb_neq in E. destruct Hin as [Hin|Hin].
    + right. subst hs. split; [left; reflexivity|exact E].
    + destruct (IH ND' hs Hin) as [(A & B & C)|(A & B)]; [left; repeat split; try assumption; right; exact C|right; split; [right; exact A|exact B]].
Qed.

Lemma replace_h_ids : forall h' fl, incl (map h_id (replace_h h' fl)) (map h_id fl).
Proof.
  induction fl as [|h fl IH]; cbn; [apply incl_refl|].
  destruct (h_id h =? h_id h') eqn:E.
  - apply Nat.eqb_eq in E. destruct (h_prog h'); [apply incl_tl, incl_refl|].
    cbn. rewrite <- E. apply incl_refl.
  - cbn. apply incl_cons; [left; reflexivity|apply incl_tl, IH].
Qed.

(* ---------- one instr of one handler ---------- *)
Definition after_step (w' : world) (l' : locals) (rest : list instr) : Prop :=
  match rest with
  | [] => coh w' (l_url l') /\ fresh w' (l_url l')
  | _ => exists s', rest = prog_of s' /\ stage_pred w' l' s'
  end.

Definition frame (u : url) (w w' : world) : Prop :=
  s_cfg w' = w_ccfg w' /\ forall v, v <> u -> same_at v w w'.

Lemma frame_same_world_log : forall u w p, s_cfg w = w_ccfg w -> frame u w (send u p w).
Proof.
  intros u w p Hc. split; [exact Hc|].
  intros v Hv. repeat split. rewrite lastword_send. apply url_eqb_neq in Hv. rewrite Hv. reflexivity.
Qed.

Lemma frame_refl : forall u w, s_cfg w = w_ccfg w -> frame u w w.
Proof. intros u w A. split; [exact A|]. intros v _. apply same_at_refl. Qed.

Lemma frame_docs : forall u w d, s_cfg w = w_ccfg w ->
  (forall v, v <> u -> lookup v d = lookup v (s_docs w)) -> frame u w (set_docs d w).
Proof. intros u w d Hc Hd. split; [exact Hc|]. intros v Hv. repeat split. cbn [s_docs set_docs]. apply Hd, Hv. Qed.

(* the critical section of update_document: either it completes, or it enters use_ident_dict with the
   doc_state mutex held *)
Lemma exec_update : forall w l t push l' w',
  l_text l = Some t -> l_snap l = w_ccfg w -> l_ud l = w_udict w -> l_fd l = fdict_of w (l_url l) ->
  exec IUpdate l w = Some (push, l', w') ->
  l' = l /\
  ((push = [] /\ w' = set_docs (installed w (l_url l) t (l_lang l) (l_ver l)) w) \/
   (exists e2, push = [IIdentUD; IIdentFD; IIdentFinish] /\
      w' = set_lock true (set_docs (upsert (l_url l) (e_set_ident (t_ident t) e2) (s_docs w)) w) /\
      upd_entry w (l_url l) t (l_lang l) (l_ver l) = Some (ident_final w (l_url l) t e2))).
Proof.
  intros w l t push l' w' Ht Hs Hu Hf H. cbn [exec] in H. destruct (s_lock w); [discriminate|].
  rewrite Ht, Hs, Hu, Hf in H. fold (cur_dict w (l_url l)) in H. unfold installed, outdated, upd_entry, ident_final.
  set (e0 := match lookup (l_url l) (s_docs w) with Some e => e | None => _ end) in *.
  destruct (stale (l_ver l) (e_ver e0)); [inversion H; split; [reflexivity|left; split; [reflexivity|symmetry; apply set_docs_id]]|].
  set (e2 := rebase _ _ _) in *.
  destruct (e_lang e2) as [lg|]; [|inversion H; split; [reflexivity|left; split; reflexivity]].
  destruct (kind lg); [inversion H; split; [reflexivity|left; split; reflexivity]| |inversion H; split; [reflexivity|left; split; reflexivity]].
  destruct (e_ident e2 =? t_ident t); inversion H; (split; [reflexivity|]).
  - left. split; reflexivity.
  - right. exists e2. repeat split.
Qed.

Lemma hstep : forall w l s i p push l' w',
  s_cfg w = w_ccfg w ->
  prog_of s = i :: p -> stage_pred w l s -> exec i l w = Some (push, l', w') ->
  l_url l' = l_url l /\ frame (l_url l) w w' /\ after_step w' l' (push ++ p).
Proof.
  intros w l s i p push l' w' Hc Hp Hs H.
  destruct s as [n|k| | | | |k|]; cbn [prog_of] in Hp.
  - (* update_document *)
    cbn [stage_pred] in Hs. destruct Hs as (Hn & (t & T1 & T2) & A2 & A4 & A5 & A6).
    destruct n as [|[|[|[|[|[|[|n]]]]]]]; [| | | | | | |exfalso; lia];
      cbn [skipn update_seq app] in Hp; inversion Hp; subst i p; clear Hp.
    + cbn [exec] in H. inversion H; subst. split; [reflexivity|]. split; [apply frame_refl; assumption|].
      cbn [app after_step]. exists (SUpd 1). split; [reflexivity|]. cbn [stage_pred].
      split; [lia|]. split; [exists t; split; assumption|]. repeat split; intros; lia.
    + cbn [exec] in H. inversion H; subst. split; [reflexivity|]. split; [apply frame_refl; assumption|].
      cbn [app after_step]. exists (SUpd 2). split; [reflexivity|]. cbn [stage_pred l_url lset_ans l_text l_lang l_ver l_ans l_snap l_ud l_fd].
      split; [lia|]. split; [exists t; split; assumption|]. repeat split; intros; try lia.
    + cbn [exec] in H. inversion H; subst. rewrite (A2 eq_refl). split; [reflexivity|].
      assert (S : forall v, same_at v w (set_scfg (w_ccfg w) w)) by (intro v; repeat split; cbn; symmetry; exact Hc).
      split; [split; [reflexivity|intros v _; apply S]|].
      cbn [app after_step]. exists (SUpd 3). split; [reflexivity|]. cbn [stage_pred].
      split; [lia|]. split; [exists t; split; [exact T1|rewrite (same_at_upd _ _ _ _ _ _ (S _)), (same_at_want _ _ _ (S _)); exact T2]|].
      repeat split; intros; lia.
    + cbn [exec] in H. inversion H; subst. split; [reflexivity|]. split; [apply frame_refl; assumption|].
      cbn [app after_step]. exists (SUpd 4). split; [reflexivity|]. cbn [stage_pred l_url lset_snap l_text l_lang l_ver l_ans l_snap l_ud l_fd].
      split; [lia|]. split; [exists t; split; assumption|]. repeat split; intros; try lia; try exact Hc.
    + cbn [exec] in H. inversion H; subst. split; [reflexivity|]. split; [apply frame_refl; assumption|].
      cbn [app after_step]. exists (SUpd 5). split; [reflexivity|]. cbn [stage_pred l_url lset_ud l_text l_lang l_ver l_ans l_snap l_ud l_fd].
      split; [lia|]. split; [exists t; split; assumption|]. repeat split; intros; try lia; try reflexivity; try (apply A4; lia).
    + cbn [exec] in H. inversion H; subst. split; [reflexivity|]. split; [apply frame_refl; assumption|].
      cbn [app after_step]. exists (SUpd 6). split; [reflexivity|]. cbn [stage_pred l_url lset_fd l_text l_lang l_ver l_ans l_snap l_ud l_fd].
      split; [lia|]. split; [exists t; split; assumption|]. repeat split; intros; try lia; try reflexivity; try (apply A4; lia); try (apply A5; lia).
    + destruct (exec_update w l t push l' w' T1 (A4 ltac:(lia)) (A5 ltac:(lia)) (A6 ltac:(lia)) H) as (-> & [(-> & ->)|(e2 & -> & -> & E)]).
      * split; [reflexivity|]. split; [apply frame_docs; [exact Hc|intros v Hv; apply lookup_installed_neq, Hv]|].
        cbn [app after_step]. exists SPub. split; [reflexivity|]. cbn [stage_pred].
        unfold coh. cbn [s_docs set_docs]. rewrite lookup_installed_eq. exact T2.
      * split; [reflexivity|]. split.
        -- split; [exact Hc|]. intros v Hv. apply url_eqb_neq in Hv. repeat split. cbn [s_docs set_lock set_docs]. apply lookup_upsert_neq, Hv.
        -- cbn [app after_step]. exists (SIdent 0). split; [reflexivity|]. cbn [stage_pred].
           split; [lia|]. split; [|split; [apply A4; lia|split; intros; lia]].
           exists t, e2. split; [exact T1|]. split; [cbn [s_docs set_lock set_docs]; apply lookup_upsert_eq|].
           change (Some (ident_final w (l_url l) t e2) = want_entry w (l_url l)). rewrite <- E. exact T2.
  - (* use_ident_dict *)
    cbn [stage_pred] in Hs. destruct Hs as (Hk & (t & e2 & T1 & T2 & T3) & A0 & A1 & A2).
    destruct k as [|[|[|k]]]; [| | |exfalso; lia]; cbn [skipn] in Hp; inversion Hp; subst i p; clear Hp; cbn [exec] in H.
    + inversion H; subst. split; [reflexivity|]. split; [apply frame_refl; assumption|].
      cbn [app after_step]. exists (SIdent 1). split; [reflexivity|]. cbn [stage_pred l_url lset_ud l_text l_snap l_ud l_fd].
      split; [lia|]. split; [exists t, e2; repeat split; assumption|]. split; [exact A0|]. split; intros; [reflexivity|lia].
    + inversion H; subst. split; [reflexivity|]. split; [apply frame_refl; assumption|].
      cbn [app after_step]. exists (SIdent 2). split; [reflexivity|]. cbn [stage_pred l_url lset_fd l_text l_snap l_ud l_fd].
      split; [lia|]. split; [exists t, e2; repeat split; assumption|]. split; [exact A0|]. split; intros; [apply A1; lia|reflexivity].
    + rewrite T1, T2 in H. inversion H; subst. clear H. split; [reflexivity|]. split.
      * split; [exact Hc|]. intros v Hv. apply url_eqb_neq in Hv. repeat split. cbn [s_docs set_lock set_docs]. apply lookup_upsert_neq, Hv.
      * cbn [app after_step]. exists SPub. split; [reflexivity|]. cbn [stage_pred].
        unfold coh. cbn [s_docs set_lock set_docs]. rewrite lookup_upsert_eq.
        match goal with |- _ = want_entry ?W _ => change (want_entry W (l_url l')) with (want_entry w (l_url l')) end.
        rewrite <- T3. unfold ident_final, with_ident, cur_dict. cbn [e_ident e_set_ident dv_user dv_file].
        rewrite A0, (A1 ltac:(lia)), (A2 ltac:(lia)). reflexivity.
  - (* publish *)
    inversion Hp; subst i p. cbn [exec] in H. destruct (s_lock w); [discriminate|]. inversion H; subst.
    split; [reflexivity|]. split; [apply frame_same_world_log; assumption|]. cbn [app after_step].
    cbn [stage_pred] in Hs. split; [exact Hs|]. unfold fresh. rewrite lastword_send, url_eqb_refl.
    change (expected (send (l_url l') (pubval w (l_url l')) w) (l_url l')) with (expected w (l_url l')).
    apply coh_pubval; assumption.
  - (* re-read *)
    inversion Hp; subst i p. cbn [exec] in H. cbn [stage_pred] in Hs. unfold reread_ready in Hs.
    destruct (is_file (l_url l)) eqn:Ef.
    + destruct (lookup (l_url l) (w_disk w)) as [t|] eqn:Ed.
      * inversion H; subst. split; [reflexivity|]. split; [apply frame_refl; assumption|].
        cbn [app]. change (update_seq ++ [IPublish]) with (prog_of (SUpd 0)). unfold after_step. cbn [prog_of skipn update_seq app].
        exists (SUpd 0). split; [reflexivity|]. cbn [stage_pred l_url lset_ver lset_lang lset_text l_text l_lang l_ver].
        split; [lia|]. split; [exists t; split; [reflexivity|exact Hs]|]. repeat split; intros; lia.
      * inversion H; subst. split; [reflexivity|]. split; [apply frame_refl; assumption|].
        cbn [app after_step]. exists SPub. split; [reflexivity|exact Hs].
    + inversion H; subst. split; [reflexivity|]. split; [apply frame_refl; assumption|].
      cbn [app after_step]. exists SPub. split; [reflexivity|exact Hs].
  - (* close *)
    inversion Hp; subst i p. cbn [exec] in H. destruct (s_lock w); [discriminate|]. inversion H; subst. clear H.
    cbn [stage_pred] in Hs. split; [reflexivity|]. split.
    + split; [exact Hc|].
      intros v Hv. apply url_eqb_neq in Hv. repeat split.
      * cbn [s_docs set_lock send set_log set_docs]. apply lookup_remove_neq, Hv.
      * change (lastword (set_lock true (send (l_url l') PEmpty (set_docs (remove (l_url l') (s_docs w)) w))) v)
          with (lastword (send (l_url l') PEmpty w) v). rewrite lastword_send, Hv. reflexivity.
    + cbn [app after_step]. exists SUnlock. split; [reflexivity|]. cbn [stage_pred]. split.
      * unfold coh, want_entry. cbn [s_docs set_lock send set_log set_docs w_open]. rewrite lookup_remove_eq, Hs. reflexivity.
      * unfold fresh, expected. cbn [set_lock send set_log set_docs w_open]. rewrite Hs.
        change (lastword (set_lock true (send (l_url l') PEmpty (set_docs (remove (l_url l') (s_docs w)) w))) (l_url l'))
          with (lastword (send (l_url l') PEmpty w) (l_url l')). rewrite lastword_send, url_eqb_refl. reflexivity.
  - (* unlock *)
    inversion Hp; subst i p. cbn [exec] in H. inversion H; subst. split; [reflexivity|].
    split; [split; [exact Hc|intros v _; repeat split]|].
    cbn [app after_step]. exact Hs.
  - (* ignore *)
    inversion Hp; subst i p. cbn [exec] in H. destruct (s_lock w); [discriminate|].
    cbn [stage_pred] in Hs. unfold ign_pending in Hs.
    destruct (lookup (l_url l) (s_docs w)) as [e|] eqn:Ee.
    + inversion H; subst. clear H.
      split; [reflexivity|]. split.
      * apply frame_docs; [exact Hc|]. intros v Hv. apply url_eqb_neq in Hv. apply lookup_upsert_neq, Hv.
      * cbn [app after_step]. exists SPub. split; [reflexivity|]. cbn [stage_pred].
        unfold coh. cbn [s_docs set_docs]. rewrite lookup_upsert_eq. exact Hs.
    + inversion H; subst. split; [reflexivity|]. split; [apply frame_refl; assumption|]. cbn [app after_step]. exact Hs.
  - (* record *)
    inversion Hp; subst i p. cbn [exec] in H. inversion H; subst. split; [reflexivity|].
    split; [apply frame_refl; assumption|]. cbn [app after_step]. exact Hs.
Qed.

(* ---------- more bookkeeping ---------- *)
Lemma replace_h_keeps : forall h' fl hs, In hs fl -> h_id hs <> h_id h' -> In hs (replace_h h' fl).
Proof.
  induction fl as [|h fl IH]; intros hs Hin Hne; [contradiction|]. cbn.
  destruct Hin as [->|Hin].
  - apply Nat.eqb_neq in Hne. rewrite Hne. left. reflexivity.
  - destruct (h_id h =? h_id h'); [destruct (h_prog h'); [exact Hin|right; exact Hin]|right; apply IH; assumption].
Qed.

Lemma replace_h_new : forall h' fl, In (h_id h') (map h_id fl) -> h_prog h' <> [] -> In h' (replace_h h' fl).
Proof.
  induction fl as [|h fl IH]; intros Hin Hp; [contradiction|]. cbn.
  destruct (h_id h =? h_id h') eqn:E.
  - destruct (h_prog h'); [congruence|left; reflexivity].
  - apply Nat.eqb_neq in E. destruct Hin as [Hin|Hin]; [congruence|right; apply IH; assumption].
Qed.

Lemma replace_h_NoDup_ids : forall h' fl, NoDup (map h_id fl) -> NoDup (map h_id (replace_h h' fl)).
Proof.
  induction fl as [|h fl IH]; intro ND; cbn; [constructor|]. inversion ND as [|? ? Hnot ND']; subst.
  destruct (h_id h =? h_id h') eqn:E.
  - apply Nat.eqb_eq in E. destruct (h_prog h'); [exact ND'|]. cbn. rewrite <- E. constructor; assumption.
  - cbn. constructor; [|apply IH, ND']. intro Hin. apply Hnot. eapply replace_h_ids, Hin.
Qed.

Lemma replace_h_urls : forall h' fl, incl (map hurl (replace_h h' fl)) (hurl h' :: map hurl fl).
Proof.
  induction fl as [|h fl IH]; cbn; [intros x []|].
  destruct (h_id h =? h_id h').
  - destruct (h_prog h'); cbn; intros x Hx; [right; right; exact Hx|destruct Hx as [<-|Hx]; [left; reflexivity|right; right; exact Hx]].
  - cbn. intros x [<-|Hx]; [right; left; reflexivity|]. destruct (IH x Hx) as [<-|Hy]; [left; reflexivity|right; right; exact Hy].
Qed.

Lemma replace_h_NoDup_urls : forall h' fl hs, find_h (h_id h') fl = Some hs -> hurl h' = hurl hs ->
  NoDup (map hurl fl) -> NoDup (map hurl (replace_h h' fl)).
Proof.
  induction fl as [|h fl IH]; intros hs Hf Hu ND; cbn in *; [discriminate|]. inversion ND as [|? ? Hnot ND']; subst.
  destruct (h_id h =? h_id h') eqn:E.
  - inversion Hf; subst hs. destruct (h_prog h'); [exact ND'|]. cbn. rewrite Hu. constructor; assumption.
  - cbn. constructor; [|eapply IH; eassumption].
    intro Hin. apply replace_h_urls in Hin. destruct Hin as [Hin|Hin]; [|exact (Hnot Hin)].
    apply Hnot. rewrite <- Hin, Hu. destruct (find_h_In _ _ _ Hf) as [Hin' _]. apply in_map, Hin'.
Qed.

Lemma NoDup_map_inj : forall {A B} (f : A -> B) l a b, NoDup (map f l) -> In a l -> In b l -> f a = f b -> a = b.
Proof.
  induction l as [|x l IH]; intros a b ND Ha Hb E; [contradiction|]. inversion ND as [|? ? Hnot ND']; subst.
  destruct Ha as [->|Ha], Hb as [->|Hb]; try reflexivity.
  - exfalso. apply Hnot. rewrite E. apply in_map, Hb.
  - exfalso. apply Hnot. rewrite <- E. apply in_map, Ha.
  - eapply IH; eassumption.
Qed.

Lemma busy_In : forall u fl hs, In hs fl -> hurl hs = u -> busy u fl = true.
Proof. intros u fl hs Hin E. unfold busy. apply existsb_exists. exists hs. split; [exact Hin|apply url_eqb_eq, E]. Qed.

(* ---------- a handler advances ---------- *)
Lemma sinv_run_step : forall id y y', SInv y -> step (CRun id) y = Some y' -> SInv y'.
Proof.
  intros id y y' S H. cbn [step] in H.
  destruct (find_h id (y_flight y)) as [hs|] eqn:Ef; [|discriminate].
  destruct (h_prog hs) as [|i p] eqn:Ep; [discriminate|].
  destruct (exec i (h_loc hs) (y_world y)) as [[[push l'] w']|] eqn:Ee; [|discriminate].
  inversion H; subst y'; clear H.
  destruct (find_h_In _ _ _ Ef) as [Hin Hid].
  destruct (si_stage y S hs Hin) as (s & Hs1 & Hs2). rewrite Ep in Hs1. symmetry in Hs1.
  destruct (hstep _ _ _ _ _ _ _ _ (si_cfg y S) Hs1 Hs2 Ee) as (Hu & (Fc & Fs) & Ha).
  set (h' := mkh id (push ++ p) l').
  assert (Hu' : hurl h' = hurl hs) by exact Hu.
  assert (Hid' : h_id h' = h_id hs) by (symmetry; exact Hid).
  constructor; cbn [y_world y_flight y_next].
  - exact Fc.
  - apply replace_h_NoDup_ids, (si_ids y S).
  - intros hs' Hin'. destruct (replace_h_In h' _ (si_ids y S) hs' Hin') as [(-> & _ & _)|(A & _)].
    + cbn [h_id h']. rewrite <- Hid. apply (si_next y S), Hin.
    + apply (si_next y S), A.
  - eapply replace_h_NoDup_urls; [cbn [h_id h']; exact Ef|exact Hu'|exact (si_urls y S)].
  - intros hs' Hin'. destruct (replace_h_In h' _ (si_ids y S) hs' Hin') as [(-> & Hne & _)|(A & B)].
    + cbn [h_prog h'] in Hne. unfold after_step in Ha. unfold stage_ok. cbn [h_prog h_loc h'].
      destruct (push ++ p) eqn:Epp; [congruence|]. exact Ha.
    + assert (Hne : hurl hs' <> hurl hs).
      { intro E. apply B. rewrite Hid'. f_equal. eapply (NoDup_map_inj hurl); [exact (si_urls y S)|exact A|exact Hin|exact E]. }
      destruct (si_stage y S hs' A) as (s' & P1 & P2). exists s'. split; [exact P1|].
      eapply same_at_stage; [|exact P2]. apply Fs. exact Hne.
  - intros v Hb. destruct (url_eq_dec v (hurl hs)) as [->|Hv].
    + unfold after_step in Ha. destruct (push ++ p) eqn:Epp.
      * rewrite Hu in Ha. exact Ha.
      * exfalso. assert (busy (hurl hs) (replace_h h' (y_flight y)) = true); [|congruence].
        eapply busy_In; [|exact Hu']. apply replace_h_new; [cbn [h_id h']; rewrite <- Hid; apply in_map, Hin|unfold h'; cbn [h_prog]; try rewrite Epp; discriminate].
    + assert (Hb0 : busy v (y_flight y) = false).
      { apply busy_false. intros hs' Hin' E. rewrite busy_false in Hb. apply (Hb hs'); [|exact E].
        apply replace_h_keeps; [exact Hin'|]. intro Eid. apply Hv. rewrite <- E. f_equal.
        eapply (NoDup_map_inj h_id); [exact (si_ids y S)|exact Hin'|exact Hin|]. rewrite Eid. exact Hid'. }
      destruct (si_idle y S v Hb0) as [C F]. split; [eapply same_at_coh|eapply same_at_fresh]; try eassumption; apply Fs; exact Hv.
Qed.

(* ---------- a message is admitted ---------- *)
Definition admit_facts (w w0 : world) (u : url) : Prop :=
  s_cfg w0 = w_ccfg w0 /\ forall v, v <> u -> same_at v w w0.

Lemma same_at_open_upsert : forall w u cd v, v <> u -> same_at v w (set_open (upsert u cd (w_open w)) w).
Proof.
  intros w u cd v Hv. apply url_eqb_neq in Hv. repeat split. cbn [w_open set_open]. apply lookup_upsert_neq, Hv.
Qed.

Lemma admit_stage : forall w o id,
  s_cfg w = w_ccfg w -> coh w (op_target o) -> fresh w (op_target o) ->
  conc_safeb w o = true ->
  stage_ok (client_effect o w) (mkh id (prog o) (locals_of o)) /\ admit_facts w (client_effect o w) (op_target o).
Proof.
  intros w o id Hc C F Hs. unfold stage_ok, admit_facts. cbn [h_prog h_loc].
  destruct o as [u l t v|u t v|u|u|tg|x u|x u|u k| |c order]; cbn [conc_safeb op_safeb] in Hs; try discriminate;
    unfold op_target in *; cbn [locals_of l_url lset_ver lset_lang lset_text lset_word loc0] in *.
  - (* open *)
    destruct (lookup u (w_open w)) as [cd0|] eqn:Eo; [discriminate|]. cbn [client_effect].
    assert (Hno : lookup u (s_docs w) = None).
    { unfold coh, want_entry in C. rewrite Eo in C. exact C. }
    split.
    + exists (SUpd 0). split; [reflexivity|]. cbn [stage_pred l_url l_text l_lang l_ver lset_ver lset_lang lset_text loc0].
      split; [lia|]. split; [|repeat split; intros; lia].
      exists t. split; [reflexivity|].
      rewrite upd_entry_new by exact Hno. unfold want_entry. cbn [w_open set_open].
      rewrite lookup_upsert_eq. cbn [cd_lang]. destruct (kind l); reflexivity.
    + split; [exact Hc|]. intros x Hx. apply same_at_open_upsert, Hx.
  - (* change *)
    destruct (lookup u (w_open w)) as [cd|] eqn:Eo; [|discriminate]. cbn [client_effect]. rewrite Eo.
    set (w0 := set_open _ w).
    split.
    + exists (SUpd 0). split; [reflexivity|]. cbn [stage_pred l_url l_text l_lang l_ver lset_ver lset_lang lset_text loc0].
      split; [lia|]. split; [|repeat split; intros; lia]. exists t. split; [reflexivity|].
      unfold want_entry. unfold w0 at 2. cbn [w_open set_open]. rewrite lookup_upsert_eq. cbn [cd_lang].
      destruct (lookup u (s_docs w)) as [e|] eqn:Ee.
      * destruct (coh_entry w u e C Ee) as (cd' & Ho & Hk & ->). rewrite Eo in Ho. inversion Ho; subst cd'.
        rewrite (upd_entry_spec w0 u t None (Some v) (cd_lang cd) (cur_dict w u) (idof (cd_lang cd) (cd_text cd)) (w_ccfg w)
                   (Some (cd_text cd)) (w_ccfg w) (cd_ign cd) (with_ident (cur_dict w u) (idof (cd_lang cd) (cd_text cd))) (cd_ver cd)).
        -- destruct (kind (cd_lang cd)); [reflexivity|reflexivity|congruence].
        -- exact Ee.
        -- exact Hk.
        -- apply idof_plain.
        -- reflexivity.
        -- cbn [stale]. apply Nat.ltb_ge. apply Nat.leb_le, Hs.
      * rewrite upd_entry_absent by exact Ee.
        pose proof (coh_no_entry w u C Ee) as N. rewrite Eo in N. rewrite N. reflexivity.
    + split; [exact Hc|]. intros x Hx. apply same_at_open_upsert, Hx.
  - (* save *)
    set (w0 := client_effect (Save u) w).
    assert (Eo : w_open w0 = w_open w) by (unfold w0; cbn [client_effect]; destruct (lookup u (w_open w)); [destruct (is_file u)|]; reflexivity).
    assert (Ed : s_docs w0 = s_docs w) by (unfold w0; cbn [client_effect]; destruct (lookup u (w_open w)); [destruct (is_file u)|]; reflexivity).
    assert (Ec : w_ccfg w0 = w_ccfg w /\ w_udict w0 = w_udict w /\ w_fdict w0 = w_fdict w /\ s_cfg w0 = s_cfg w /\ s_log w0 = s_log w)
      by (unfold w0; cbn [client_effect]; destruct (lookup u (w_open w)); [destruct (is_file u)|]; repeat split).
    destruct Ec as (Ec & Eu & Ef & Es & El).
    assert (Cu0 : coh w0 u).
    { unfold coh. rewrite Ed, (want_entry_same w w0 u Eo Eu Ef Ec). exact C. }
    split.
    + exists SRead. split; [reflexivity|]. cbn [stage_pred l_url loc0]. unfold reread_ready.
      destruct (is_file u) eqn:Efile; [|exact Cu0].
      destruct (lookup u (w_disk w0)) as [t|] eqn:Edk; [|exact Cu0].
      apply (reread_upd w0 w0 u t Cu0); try reflexivity.
      rewrite Eo. destruct (lookup u (w_open w)) as [cd|] eqn:Eo'; [|exact Logic.I]. right.
      unfold w0 in Edk. cbn [client_effect] in Edk. rewrite Eo', Efile in Edk. cbn [w_disk set_disk] in Edk.
      rewrite lookup_upsert_eq in Edk. congruence.
    + split; [rewrite Es, Ec; exact Hc|].
      intros x Hx. apply url_eqb_neq in Hx. unfold same_at, lastword, fdict_of. rewrite Eo, Ed, Eu, Ef, Ec, Es, El.
      repeat split. unfold w0. cbn [client_effect]. destruct (lookup u (w_open w)); [destruct (is_file u)|]; try reflexivity.
      cbn [w_disk set_disk]. apply lookup_upsert_neq, Hx.
  - (* close *)
    cbn [client_effect]. split.
    + exists SClose. split; [reflexivity|]. cbn [stage_pred l_url loc0 w_open set_open]. apply lookup_remove_eq.
    + split; [exact Hc|]. intros x Hx. apply url_eqb_neq in Hx. repeat split. cbn [w_open set_open]. apply lookup_remove_neq, Hx.
  - (* ignore *)
    cbn [client_effect]. destruct (lookup u (w_open w)) as [cd|] eqn:Eo.
    + split.
      * exists (SIgn k). split; [reflexivity|]. cbn [stage_pred l_url loc0]. unfold ign_pending. cbn [s_docs set_open].
        destruct (lookup u (s_docs w)) as [e|] eqn:Ee.
        -- destruct (coh_entry w u e C Ee) as (cd' & Ho & Hk & ->). rewrite Eo in Ho. inversion Ho; subst cd'.
           unfold want_entry. cbn [w_open set_open]. rewrite lookup_upsert_eq. cbn [cd_lang].
           destruct (kind (cd_lang cd)); [reflexivity|reflexivity|congruence].
        -- pose proof (coh_no_entry w u C Ee) as N. rewrite Eo in N.
           unfold coh, want_entry, fresh, expected, lastword in *. cbn [s_docs set_open w_open s_log]. rewrite Ee, lookup_upsert_eq. cbn [cd_lang]. rewrite N.
           rewrite Eo, N in F. split; [reflexivity|exact F].
      * split; [exact Hc|]. intros x Hx. apply same_at_open_upsert, Hx.
    + split.
      * exists (SIgn k). split; [reflexivity|]. cbn [stage_pred l_url loc0]. unfold ign_pending.
        destruct (lookup u (s_docs w)) as [e|] eqn:Ee; [|split; assumption].
        destruct (coh_entry w u e C Ee) as (cd' & Ho & _). congruence.
      * split; [exact Hc|]. intros x _. apply same_at_refl.
  - (* record *)
    cbn [client_effect]. split.
    + exists SRec. split; [reflexivity|]. cbn [stage_pred]. split; assumption.
    + split; [exact Hc|]. intros x _. apply same_at_refl.
Qed.

Lemma busy_app : forall u a b, busy u (a ++ b) = busy u a || busy u b.
Proof. intros. unfold busy. apply existsb_app. Qed.

Lemma NoDup_app_intro : forall {A} (a b : list A), NoDup a -> NoDup b -> (forall x, In x a -> In x b -> False) -> NoDup (a ++ b).
Proof.
  induction a as [|x a IH]; intros b Ha Hb Hd; cbn; [exact Hb|]. inversion Ha as [|? ? Hn Ha']; subst.
  constructor.
  - intro Hin. apply in_app_or in Hin as [Hin|Hin]; [exact (Hn Hin)|exact (Hd x (or_introl eq_refl) Hin)].
  - apply IH; [exact Ha'|exact Hb|]. intros z Hz Hz'. exact (Hd z (or_intror Hz) Hz').
Qed.

Lemma sinv_admit : forall y y', SInv y -> xstep CAdmit y = Some y' -> SInv y'.
Proof.
  intros y y' S H. cbn [xstep] in H. destruct (y_todo y) as [|o rest] eqn:Et; [discriminate|].
  destruct (conc_safeb (y_world y) o && negb (busy (op_target o) (y_flight y))) eqn:Ec; [|discriminate].
  apply andb_true_iff in Ec as [Hs Hb]. apply negb_true_iff in Hb.
  cbn [step] in H. rewrite Et in H. destruct (length (y_flight y) <? max_in_flight); [|discriminate].
  inversion H; subst y'; clear H.
  destruct (si_idle y S _ Hb) as [C F].
  destruct (admit_stage (y_world y) o (y_next y) (si_cfg y S) C F Hs) as (Hst & Fc & Fs).
  set (hn := mkh (y_next y) (prog o) (locals_of o)) in *.
  assert (Hun : hurl hn = op_target o) by reflexivity.
  constructor; cbn [y_world y_flight y_next].
  - exact Fc.
  - rewrite map_app. cbn [map h_id hn]. apply NoDup_app_intro.
    + exact (si_ids y S).
    + constructor; [intros []|constructor].
    + intros x Hx [<-|[]]. apply in_map_iff in Hx as (hs & E & Hin). pose proof (si_next y S hs Hin). lia.
  - intros hs Hin. apply in_app_or in Hin as [Hin|[<-|[]]]; [pose proof (si_next y S hs Hin); lia|cbn; lia].
  - rewrite map_app. cbn [map]. apply NoDup_app_intro.
    + exact (si_urls y S).
    + constructor; [intros []|constructor].
    + intros x Hx [<-|[]]. apply in_map_iff in Hx as (hs & E & Hin). rewrite busy_false in Hb. apply (Hb hs Hin). rewrite E. exact Hun.
  - intros hs Hin. apply in_app_or in Hin as [Hin|[<-|[]]]; [|exact Hst].
    destruct (si_stage y S hs Hin) as (s & P1 & P2). exists s. split; [exact P1|].
    eapply same_at_stage; [|exact P2]. apply Fs. rewrite busy_false in Hb. apply Hb, Hin.
  - intros v Hv. rewrite busy_app in Hv. apply orb_false_iff in Hv as [Hv1 Hv2].
    destruct (si_idle y S v Hv1) as [Cv Fv].
    assert (Hne : v <> op_target o).
    { intro E. subst v. unfold busy in Hv2. cbn [existsb] in Hv2. rewrite Hun, url_eqb_refl in Hv2. discriminate. }
    split; [eapply same_at_coh|eapply same_at_fresh]; try eassumption; apply Fs, Hne.
Qed.

(* ---------- schedules ---------- *)
Lemma sinv_xstep : forall c y y', SInv y -> xstep c y = Some y' -> SInv y'.
Proof. intros [|id] y y' S H; [eapply sinv_admit|eapply sinv_run_step]; eassumption. Qed.

Lemma sinv_xrun : forall cs y y', SInv y -> xrun cs y = Some y' -> SInv y'.
Proof.
  induction cs as [|c cs IH]; intros y y' S H; cbn in H; [inversion H; subst; exact S|].
  destruct (xstep c y) as [y1|] eqn:E; [|discriminate]. eapply IH; [eapply sinv_xstep; eassumption|exact H].
Qed.

Lemma sinv_init : forall h w, Inv w -> SInv (init h w).
Proof.
  intros h w I. constructor; cbn [init y_world y_flight y_next].
  - exact (inv_cfg w I).
  - constructor.
  - intros hs [].
  - constructor.
  - intros hs [].
  - intros u _. split; [exact (inv_coh w I u)|exact (inv_fresh w I u)].
Qed.

(* C09, concurrent clause that holds: url-exclusive schedules, for every interleaving *)
Theorem exclusive_concurrency : forall h w0 cs y,
  Inv w0 -> xrun cs (init h w0) = Some y -> quiescent y ->
  forall u, lastword (y_world y) u = expected (y_world y) u /\
            (lookup u (w_open (y_world y)) = None -> lastword (y_world y) u = PEmpty).
Proof.
  intros h w0 cs y I H [Hf _] u. pose proof (sinv_xrun cs _ _ (sinv_init h w0 I) H) as S.
  assert (Hb : busy u (y_flight y) = false) by (rewrite Hf; reflexivity).
  destruct (si_idle y S u Hb) as [_ F]. split; [exact F|].
  intro Hn. rewrite F. unfold expected. rewrite Hn. reflexivity.
Qed.

(* such a schedule is a schedule of the unrestricted dispatcher *)
Theorem exclusive_is_schedule : forall cs y y', xrun cs y = Some y' -> run cs y = Some y'.
Proof. exact xrun_run. Qed.

(* non-vacuity: three documents (one of them a source file whose identifiers change), their handlers
   interleaved instr by instr, <= 3 in flight *)
Definition conc_history : list op :=
  [Open (UFile 0 0) LMarkdown (mktext 0 0) 1; Open (UFile 0 1) LCode (mktext 1 4) 1; Open (UUntitled 0) LCode (mktext 2 0) 1;
   Change (UFile 0 0) (mktext 3 0) 2; Save (UFile 0 1); Close (UUntitled 0); Ignore (UFile 0 0) 1].
Fixpoint round_robin (n : nat) (ids : list nat) : list choice :=
  match n with 0 => [] | S n' => map CRun ids ++ round_robin n' ids end.
Definition conc_schedule : list choice :=
  [CAdmit; CAdmit; CAdmit] ++ round_robin 6 [0; 1; 2] ++ [CRun 0; CRun 2; CRun 0; CRun 2] ++ repeat (CRun 1) 5 ++
  [CAdmit; CAdmit; CAdmit] ++ round_robin 2 [3; 4; 5] ++ round_robin 6 [3; 4] ++ [CRun 4; CAdmit; CRun 6; CRun 6].

Example conc_schedule_runs :
  exists y, xrun conc_schedule (init conc_history (world0 0)) = Some y /\ quiescentb y = true /\
    lastword (y_world y) (UFile 0 0) = PDiag (mkargs (mktext 3 0) LMarkdown (mkdict [] [] 0) (mkdict [] [] 0) 0 0 0 [1]) /\
    lastword (y_world y) (UFile 0 1) = PDiag (mkargs (mktext 1 4) LCode (mkdict [] [] 4) (mkdict [] [] 4) 0 0 0 []) /\
    lastword (y_world y) (UUntitled 0) = PEmpty.
Proof. eexists. split; [vm_compute; reflexivity|]. repeat split; vm_compute; reflexivity. Qed.
