(* C09RaceFamA.v — C09: ALL schedules (every interleaving at await granularity, the explorer of Model/C09Race.v) of an
   add-word command that re-reads the document from its file, in flight with a didChange of the same document -
   both orders of sending, user and file dictionary.  203 490 resp. 293 930 schedules per member. *)
Require Import Base Server ServerProofs C09Batch C09Seq C09Race C09RaceProofs.

Definition race_fam_addword : list race_member :=
  [ (race_wA, [AddUser 5 uA; Change uA (tx 1) 2], uA);
    (race_wA, [Change uA (tx 1) 2; AddUser 5 uA], uA);
    (race_wA, [AddFile 5 uA; Change uA (tx 1) 2], uA);
    (race_wA, [Change uA (tx 1) 2; AddFile 5 uA], uA) ].

Lemma race_fam_addword_ok : forallb race_checks race_fam_addword = true.
Proof. vm_compute. reflexivity. Qed.
