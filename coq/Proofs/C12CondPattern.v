(* C12CondPattern.v — Document::condense_pattern (Model/Condense.v, frozen) on a glued token list, for ANY
   matcher: if no match that starts in A looks into B (HL) and the matcher is indifferent to moving the
   tokens of B (HR), then
        condense_pattern m edit (A ++ shift B) = condense_pattern mA edit A ++ shift (condense_pattern mB edit B).
   Steps: fam_scan finds the matches of A followed by the (index-shifted) matches of B; the neighbour-only
   overlap removal of find_all_matches never compares across the seam (a match of A ends inside A);
   cp_apply works match by match, the matches of A only touch the first |A| tokens; remove_indices splits
   because the queue of A is strictly increasing (C02: the kept matches are disjoint and sorted).
   Then HL / HR for the three fixed matchers (contractions, ellipsis, Latin abbreviations) when A ends in a
   ParagraphBreak. *)
Require Import Base Overlap OverlapProofs Tables_lexer Lexer Condense ListLemmas TokenInv CondenseInv LexerProofs
  CondSpaces CondPatterns3 CondPattern C12CondSpaces C12CondSuffix.
From Coq Require Import List Arith Lia.
Import ListNotations.

Definition idx_shift (k : nat) (r : nat) : nat := r + k.
Definition span_shift (k : nat) (s : span) : span := push_by s k.

Lemma span_shift_start k s : sstart (span_shift k s) = sstart s + k.
Proof. reflexivity. Qed.
Lemma span_shift_end k s : send (span_shift k s) = send s + k.
Proof. reflexivity. Qed.

Lemma ltb_add_r x y k : (x + k <? y + k) = (x <? y).
Proof.
  destruct (x <? y) eqn:E; [apply Nat.ltb_lt in E; apply Nat.ltb_lt; lia|apply Nat.ltb_ge in E; apply Nat.ltb_ge; lia].
Qed.
Lemma eqb_add_r x y k : (x + k =? y + k) = (x =? y).
Proof.
  destruct (x =? y) eqn:E; [apply Nat.eqb_eq in E; apply Nat.eqb_eq; lia|apply Nat.eqb_neq in E; apply Nat.eqb_neq; lia].
Qed.

Lemma seq_idx_shift k : forall n a, map (idx_shift k) (seq a n) = seq (a + k) n.
Proof. induction n as [|n IH]; intros a; cbn [seq map]; [reflexivity|]. rewrite IH. reflexivity. Qed.

(* ---------- remove_indices ---------- *)
Lemma ri_shift {X} k : forall (xs : list X) i q,
  remove_indices (i + k) (map (idx_shift k) q) xs = remove_indices i q xs.
Proof.
  induction xs as [|x xs IH]; intros i q; [reflexivity|]. cbn [remove_indices].
  destruct q as [|r q']; cbn [map].
  - f_equal. apply (IH (S i) []).
  - unfold idx_shift at 1. rewrite eqb_add_r. destruct (i =? r).
    + apply (IH (S i) q').
    + f_equal. apply (IH (S i) (r :: q')).
Qed.

Lemma ri_map {X Y} (f : X -> Y) : forall (xs : list X) i q,
  remove_indices i q (map f xs) = map f (remove_indices i q xs).
Proof.
  induction xs as [|x xs IH]; intros i q; [reflexivity|]. cbn [map remove_indices].
  destruct q as [|r q']; [cbn [map]; f_equal; apply IH|].
  destruct (i =? r); [apply IH|cbn [map]; f_equal; apply IH].
Qed.

(* ---------- fam_scan ---------- *)
Lemma fam_scan_ge m : forall ts i f, fam_scan m ts i = Ok f -> Forall (fun s => i <= sstart s) f.
Proof.
  induction ts as [|a ts IH]; intros i f H; cbn [fam_scan] in H.
  - injection H as <-. constructor.
  - destruct (m (a :: ts)) as [len|]; [|discriminate]. cbn [bind] in H.
    destruct (fam_scan m ts (S i)) as [rest|] eqn:E; [|discriminate]. cbn [bind] in H. injection H as <-.
    assert (Forall (fun s => i <= sstart s) rest) as HR
      by (eapply Forall_impl; [|exact (IH _ _ E)]; cbn; intros; lia).
    destruct (len =? 0); [exact HR|]. constructor; [cbn; lia|exact HR].
Qed.

Lemma fam_scan_le m : forall ts i f,
  (forall j n, m (skipn j ts) = Ok n -> n <= length ts - j) ->
  fam_scan m ts i = Ok f -> Forall (fun s => send s <= i + length ts) f.
Proof.
  induction ts as [|a ts IH]; intros i f Hb H; cbn [fam_scan] in H.
  - injection H as <-. constructor.
  - destruct (m (a :: ts)) as [len|] eqn:Em; [|discriminate]. cbn [bind] in H.
    destruct (fam_scan m ts (S i)) as [rest|] eqn:E; [|discriminate]. cbn [bind] in H. injection H as <-.
    assert (Forall (fun s => send s <= i + length (a :: ts)) rest) as HR.
    { eapply Forall_impl; [|apply (IH (S i) rest); [|exact E]].
      - cbn [length]. intros; lia.
      - intros j n Hn. specialize (Hb (S j) n Hn). cbn [length] in Hb. lia. }
    destruct (len =? 0); [exact HR|]. constructor; [|exact HR].
    specialize (Hb 0 len Em). cbn [send length] in *. lia.
Qed.

Lemma matcher_ok_bound m ts : matcher_ok m ts -> forall j n, m (skipn j ts) = Ok n -> n <= length ts - j.
Proof.
  intros Hok j n Hn. destruct (le_lt_dec j (length ts)) as [Hj|Hj].
  - destruct (Hok j Hj) as [n0 [E Hle]]. rewrite E in Hn. injection Hn as <-. exact Hle.
  - destruct (Hok (length ts) (le_n _)) as [n0 [E Hle]].
    rewrite skipn_all2 in Hn by lia. rewrite skipn_all in E. rewrite E in Hn. injection Hn as <-. lia.
Qed.

Lemma fam_scan_idx m : forall ts i k,
  fam_scan m ts (i + k) = do f <- fam_scan m ts i; Ok (map (span_shift k) f).
Proof.
  induction ts as [|a ts IH]; intros i k; cbn [fam_scan]; [reflexivity|].
  destruct (m (a :: ts)) as [len|]; cbn [bind]; [|reflexivity].
  replace (S (i + k)) with (S i + k) by lia. rewrite IH.
  destruct (fam_scan m ts (S i)) as [rest|]; cbn [bind]; [|reflexivity].
  destruct (len =? 0); cbn [map]; [reflexivity|].
  f_equal. f_equal. unfold span_shift, push_by. cbn [sstart send]. f_equal. lia.
Qed.

Lemma fam_scan_map (f : token -> token) m mB :
  (forall s, m (map f s) = mB s) -> forall B i, fam_scan m (map f B) i = fam_scan mB B i.
Proof.
  intros HR. induction B as [|b B IH]; intros i; [reflexivity|]. cbn [map fam_scan].
  change (f b :: map f B) with (map f (b :: B)). rewrite HR, IH. reflexivity.
Qed.

Lemma fam_scan_app m mA B' : forall A i fa fb',
  (forall p s, A = p ++ s -> s <> [] -> m (s ++ B') = mA s) ->
  fam_scan mA A i = Ok fa -> fam_scan m B' (i + length A) = Ok fb' ->
  fam_scan m (A ++ B') i = Ok (fa ++ fb').
Proof.
  induction A as [|a A IH]; intros i fa fb' HL HA HB.
  - cbn [fam_scan] in HA. injection HA as <-. cbn [length] in HB. rewrite Nat.add_0_r in HB. exact HB.
  - cbn [app fam_scan] in *. change (a :: A ++ B') with ((a :: A) ++ B').
    rewrite (HL [] (a :: A) eq_refl ltac:(discriminate)).
    destruct (mA (a :: A)) as [len|]; [|discriminate]. cbn [bind] in *.
    destruct (fam_scan mA A (S i)) as [rest|] eqn:E; [|discriminate]. cbn [bind] in HA. injection HA as <-.
    rewrite (IH (S i) rest fb'); [| |exact E|].
    + cbn [bind]. destruct (len =? 0); reflexivity.
    + intros p s -> Hs. apply (HL (a :: p) s eq_refl Hs).
    + cbn [length] in HB. replace (S i + length A) with (i + S (length A)) by lia. exact HB.
Qed.

(* ---------- overlap_idx ---------- *)
Lemma overlaps_shift k a b : overlaps (span_shift k a) (span_shift k b) = overlaps a b.
Proof. unfold overlaps, span_shift, push_by. cbn [sstart send]. rewrite !ltb_add_r. reflexivity. Qed.

Lemma overlap_idx_map_shift k : forall l i, overlap_idx (map (span_shift k) l) i = overlap_idx l i.
Proof.
  induction l as [|x l IH]; intros i; [reflexivity|]. destruct l as [|y t]; [reflexivity|].
  cbn [map]. rewrite !overlap_idx_cons2. rewrite overlaps_shift.
  specialize (IH (S i)). cbn [map] in IH. rewrite IH. reflexivity.
Qed.

Lemma overlap_idx_idx : forall l i k, overlap_idx l (i + k) = map (idx_shift k) (overlap_idx l i).
Proof.
  induction l as [|x l IH]; intros i k; [reflexivity|]. destruct l as [|y t]; [reflexivity|].
  rewrite !overlap_idx_cons2. replace (S (i + k)) with (S i + k) by lia. rewrite IH.
  destruct (overlaps x y); reflexivity.
Qed.

Lemma overlap_idx_app : forall fa fb i,
  Forall (fun x => Forall (fun y => overlaps x y = false) fb) fa ->
  overlap_idx (fa ++ fb) i = overlap_idx fa i ++ overlap_idx fb (i + length fa).
Proof.
  induction fa as [|x fa IH]; intros fb i HF.
  - cbn [app length]. rewrite Nat.add_0_r. reflexivity.
  - inversion HF as [|x0 l0 Hx HF']; subst. destruct fa as [|x2 fa'].
    + cbn [app length]. destruct fb as [|y t]; [reflexivity|].
      rewrite overlap_idx_cons2. inversion Hx as [|y0 t0 Hxy _]; subst. rewrite Hxy.
      replace (i + 1) with (S i) by lia. reflexivity.
    + cbn [app]. rewrite !overlap_idx_cons2. specialize (IH fb (S i) HF'). cbn [app] in IH. rewrite IH.
      cbn [length]. replace (S i + S (length fa')) with (i + S (S (length fa'))) by lia.
      destruct (overlaps x x2); reflexivity.
Qed.

Lemma overlap_idx_queue : forall l i, QueueIn (S i) (i + length l) (overlap_idx l i).
Proof.
  induction l as [|x l IH]; intros i; [constructor|]. destruct l as [|y t]; [constructor|].
  rewrite overlap_idx_cons2. specialize (IH (S i)).
  replace (S i + length (y :: t)) with (i + length (x :: y :: t)) in IH by (cbn [length]; lia).
  destruct (overlaps x y).
  - constructor; [lia|cbn [length]; lia|exact IH].
  - eapply queue_in_weaken; [|exact IH]. lia.
Qed.

(* ---------- the checked operations of cp_apply ---------- *)
Lemma slice_chk_app_r {X} (l suf sl : list X) a b :
  slice_chk l a b = Ok sl -> slice_chk (l ++ suf) a b = Ok sl.
Proof.
  unfold slice_chk. destruct ((b <? a) || (length l <? b)) eqn:E; [discriminate|].
  apply orb_false_iff in E. destruct E as [E1 E2]. apply Nat.ltb_ge in E1, E2.
  intros H. injection H as <-. rewrite app_length.
  replace ((b <? a) || (length l + length suf <? b)) with false
    by (symmetry; apply orb_false_iff; split; apply Nat.ltb_ge; lia).
  f_equal. rewrite skipn_app. rewrite firstn_app. rewrite skipn_length.
  replace (b - a - (length l - a)) with 0 by lia. cbn [firstn]. rewrite app_nil_r. reflexivity.
Qed.

Lemma nth_chk_app_r {X} (l suf : list X) i t : nth_chk l i = Ok t -> nth_chk (l ++ suf) i = Ok t.
Proof.
  unfold nth_chk. destruct (nth_error l i) eqn:E; [|discriminate]. intros H. injection H as <-.
  rewrite nth_error_app1 by (apply nth_error_Some; congruence). rewrite E. reflexivity.
Qed.

Lemma set_nth_app_r {X} (suf : list X) x : forall (l : list X) i l',
  set_nth l i x = Ok l' -> set_nth (l ++ suf) i x = Ok (l' ++ suf).
Proof.
  induction l as [|h l IH]; intros i l' H; [discriminate|]. destruct i as [|i]; cbn [set_nth app] in *.
  - injection H as <-. reflexivity.
  - destruct (set_nth l i x) as [t'|] eqn:E; [|discriminate]. cbn [bind] in H. injection H as <-.
    rewrite (IH i t' E). reflexivity.
Qed.

Lemma slice_chk_pre {X} (pre l sl : list X) a b :
  slice_chk l a b = Ok sl -> slice_chk (pre ++ l) (a + length pre) (b + length pre) = Ok sl.
Proof.
  unfold slice_chk. destruct ((b <? a) || (length l <? b)) eqn:E; [discriminate|].
  apply orb_false_iff in E. destruct E as [E1 E2]. apply Nat.ltb_ge in E1, E2.
  intros H. injection H as <-. rewrite app_length.
  replace ((b + length pre <? a + length pre) || (length pre + length l <? b + length pre)) with false
    by (symmetry; apply orb_false_iff; split; apply Nat.ltb_ge; lia).
  f_equal. replace (b + length pre - (a + length pre)) with (b - a) by lia.
  rewrite skipn_app. rewrite skipn_all2 by lia. replace (a + length pre - length pre) with a by lia. reflexivity.
Qed.

Lemma nth_error_pre {X} (pre l : list X) i : nth_error (pre ++ l) (i + length pre) = nth_error l i.
Proof. rewrite nth_error_app2 by lia. f_equal. lia. Qed.

Lemma nth_chk_pre {X} (pre l : list X) i : nth_chk (pre ++ l) (i + length pre) = nth_chk l i.
Proof. unfold nth_chk. rewrite nth_error_pre. reflexivity. Qed.

Lemma set_nth_pre {X} (l : list X) i x l' : set_nth l i x = Ok l' ->
  forall pre, set_nth (pre ++ l) (i + length pre) x = Ok (pre ++ l').
Proof.
  intros H. induction pre as [|h pre IH]; cbn [app length].
  - rewrite Nat.add_0_r. exact H.
  - replace (i + S (length pre)) with (S (i + length pre)) by lia. cbn [set_nth]. rewrite IH. reflexivity.
Qed.

Lemma set_nth_length {X} (x : X) : forall l i l', set_nth l i x = Ok l' -> length l' = length l.
Proof.
  induction l as [|h l IH]; intros i l' H; [discriminate|]. destruct i as [|i]; cbn [set_nth] in H.
  - injection H as <-. reflexivity.
  - destruct (set_nth l i x) as [t'|] eqn:E; [|discriminate]. cbn [bind] in H. injection H as <-.
    cbn [length]. rewrite (IH i t' E). reflexivity.
Qed.

Lemma set_nth_map {X Y} (f : X -> Y) x : forall l i l', set_nth l i x = Ok l' ->
  set_nth (map f l) i (f x) = Ok (map f l').
Proof.
  induction l as [|h l IH]; intros i l' H; [discriminate|]. destruct i as [|i]; cbn [set_nth map] in *.
  - injection H as <-. reflexivity.
  - destruct (set_nth l i x) as [t'|] eqn:E; [|discriminate]. cbn [bind] in H. injection H as <-.
    rewrite (IH i t' E). reflexivity.
Qed.

Lemma slice_chk_map {X Y} (f : X -> Y) (l sl : list X) a b :
  slice_chk l a b = Ok sl -> slice_chk (map f l) a b = Ok (map f sl).
Proof.
  unfold slice_chk. rewrite map_length. destruct ((b <? a) || (length l <? b)); [discriminate|].
  intros H. injection H as <-. rewrite skipn_map, firstn_map. reflexivity.
Qed.

Lemma nth_chk_map {X Y} (f : X -> Y) (l : list X) i t : nth_chk l i = Ok t -> nth_chk (map f l) i = Ok (f t).
Proof.
  unfold nth_chk. rewrite nth_error_map. destruct (nth_error l i); [|discriminate].
  intros H. injection H as <-. reflexivity.
Qed.

Lemma hull_lo_shift k : forall r v,
  fold_left (fun m x => Nat.min m (Nat.min (tstart x) (tend x))) (map (shift_tk k) r) (v + k)
  = fold_left (fun m x => Nat.min m (Nat.min (tstart x) (tend x))) r v + k.
Proof.
  induction r as [|x r IH]; intros v; [reflexivity|]. cbn [map fold_left].
  rewrite shift_tk_start, shift_tk_end.
  replace (Nat.min (v + k) (Nat.min (tstart x + k) (tend x + k))) with (Nat.min v (Nat.min (tstart x) (tend x)) + k) by lia.
  apply IH.
Qed.
Lemma hull_hi_shift k : forall r v,
  fold_left (fun m x => Nat.max m (Nat.max (tstart x) (tend x))) (map (shift_tk k) r) (v + k)
  = fold_left (fun m x => Nat.max m (Nat.max (tstart x) (tend x))) r v + k.
Proof.
  induction r as [|x r IH]; intros v; [reflexivity|]. cbn [map fold_left].
  rewrite shift_tk_start, shift_tk_end.
  replace (Nat.max (v + k) (Nat.max (tstart x + k) (tend x + k))) with (Nat.max v (Nat.max (tstart x) (tend x)) + k) by lia.
  apply IH.
Qed.

Lemma hull_shift k sl h : hull sl = Ok h -> hull (map (shift_tk k) sl) = Ok (push_by h k).
Proof.
  destruct sl as [|t r]; [discriminate|]. unfold hull. cbn [map]. rewrite shift_tk_start, shift_tk_end.
  replace (Nat.min (tstart t + k) (tend t + k)) with (Nat.min (tstart t) (tend t) + k) by lia.
  replace (Nat.max (tstart t + k) (tend t + k)) with (Nat.max (tstart t) (tend t) + k) by lia.
  rewrite hull_lo_shift, hull_hi_shift. unfold span_new. rewrite ltb_add_r.
  destruct (_ <? _); [discriminate|]. intros H. injection H as <-. reflexivity.
Qed.

(* ---------- cp_apply ---------- *)
Definition cp_queue (ms : list span) : list nat :=
  flat_map (fun s => seq (sstart s + 1) (send s - (sstart s + 1))) ms.

Ltac cp_step H :=
  cbn [cp_apply] in H;
  match type of H with context [slice_chk ?l ?a ?b] => destruct (slice_chk l a b) as [sl|] eqn:Esl; [|discriminate] end;
  cbn [bind] in H;
  match type of H with context [hull ?s] => destruct (hull s) as [h|] eqn:Eh; [|discriminate] end;
  cbn [bind] in H;
  match type of H with context [nth_chk ?l ?a] => destruct (nth_chk l a) as [t0|] eqn:Et0; [|discriminate] end;
  cbn [bind] in H;
  match type of H with context [set_nth ?l ?a ?x] => destruct (set_nth l a x) as [toks1|] eqn:Es; [|discriminate] end;
  cbn [bind] in H;
  match type of H with context [cp_apply ?e ?ms ?l] => destruct (cp_apply e ms l) as [[tF q']|] eqn:Er; [|discriminate] end;
  cbn [bind] in H; injection H as <- <-.

Lemma cp_apply_app_r edit suf : forall ms toks upd q,
  cp_apply edit ms toks = Ok (upd, q) -> cp_apply edit ms (toks ++ suf) = Ok (upd ++ suf, q).
Proof.
  induction ms as [|s ms IH]; intros toks upd q H.
  - cbn [cp_apply] in *. injection H as <- <-. reflexivity.
  - cp_step H. cbn [cp_apply].
    rewrite (slice_chk_app_r _ suf _ _ _ Esl). cbn [bind]. rewrite Eh. cbn [bind].
    rewrite (nth_chk_app_r _ suf _ _ Et0). cbn [bind]. rewrite (set_nth_app_r suf _ _ _ _ Es). cbn [bind].
    rewrite (IH _ _ _ Er). reflexivity.
Qed.

Lemma cp_apply_pre edit pre : forall ms toks upd q,
  cp_apply edit ms toks = Ok (upd, q) ->
  cp_apply edit (map (span_shift (length pre)) ms) (pre ++ toks) = Ok (pre ++ upd, map (idx_shift (length pre)) q).
Proof.
  induction ms as [|s ms IH]; intros toks upd q H.
  - cbn [cp_apply map] in *. injection H as <- <-. reflexivity.
  - cp_step H. cbn [map cp_apply]. rewrite !span_shift_start, !span_shift_end.
    rewrite (slice_chk_pre pre _ _ _ _ Esl). cbn [bind]. rewrite Eh. cbn [bind].
    rewrite nth_chk_pre, Et0. cbn [bind]. rewrite (set_nth_pre _ _ _ _ Es pre). cbn [bind].
    rewrite (IH _ _ _ Er). cbn [bind]. f_equal. f_equal.
    rewrite map_app, seq_idx_shift. f_equal. f_equal; lia.
Qed.

Lemma cp_apply_tokshift edit k : forall ms toks upd q,
  cp_apply edit ms toks = Ok (upd, q) ->
  cp_apply edit ms (map (shift_tk k) toks) = Ok (map (shift_tk k) upd, q).
Proof.
  induction ms as [|s ms IH]; intros toks upd q H.
  - cbn [cp_apply] in *. injection H as <- <-. reflexivity.
  - cp_step H. cbn [cp_apply].
    rewrite (slice_chk_map (shift_tk k) _ _ _ _ Esl). cbn [bind]. rewrite (hull_shift k _ _ Eh). cbn [bind].
    rewrite (nth_chk_map (shift_tk k) _ _ _ Et0). cbn [bind]. rewrite shift_tk_kind.
    change (mktok (push_by h k) (edit (tkind_of t0))) with (shift_tk k (mktok h (edit (tkind_of t0)))).
    rewrite (set_nth_map (shift_tk k) _ _ _ _ Es). cbn [bind]. rewrite (IH _ _ _ Er). reflexivity.
Qed.

Lemma cp_apply_app_ms edit : forall ms1 ms2 toks u1 q1 u2 q2,
  cp_apply edit ms1 toks = Ok (u1, q1) -> cp_apply edit ms2 u1 = Ok (u2, q2) ->
  cp_apply edit (ms1 ++ ms2) toks = Ok (u2, q1 ++ q2).
Proof.
  induction ms1 as [|s ms1 IH]; intros ms2 toks u1 q1 u2 q2 H1 H2.
  - cbn [cp_apply] in H1. injection H1 as <- <-. exact H2.
  - cp_step H1. cbn [app cp_apply]. rewrite Esl. cbn [bind]. rewrite Eh. cbn [bind]. rewrite Et0. cbn [bind].
    rewrite Es. cbn [bind]. rewrite (IH ms2 _ _ _ _ _ Er H2). cbn [bind]. rewrite app_assoc. reflexivity.
Qed.

Lemma cp_apply_length edit : forall ms toks upd q, cp_apply edit ms toks = Ok (upd, q) -> length upd = length toks.
Proof.
  induction ms as [|s ms IH]; intros toks upd q H.
  - cbn [cp_apply] in H. injection H as <- <-. reflexivity.
  - cp_step H. rewrite (IH _ _ _ Er). eapply set_nth_length. exact Es.
Qed.

Lemma cp_apply_queue edit : forall ms toks upd q, cp_apply edit ms toks = Ok (upd, q) -> q = cp_queue ms.
Proof.
  induction ms as [|s ms IH]; intros toks upd q H.
  - cbn [cp_apply] in H. injection H as <- <-. reflexivity.
  - cp_step H. unfold cp_queue. cbn [flat_map]. f_equal. apply (IH _ _ _ Er).
Qed.

Lemma ds_queue m ts : forall ms lo, DS m ts lo ms -> QueueIn lo (length ts) (cp_queue ms).
Proof.
  induction ms as [|s ms IH]; intros lo HD; [constructor|].
  inversion HD as [|lo' s' rest Hlo [Hm1 [Hm2 _]] HD']; subst.
  unfold cp_queue. cbn [flat_map].
  apply (CondSpaces.queue_in_app lo (send s)); [lia|lia| |apply IH; exact HD'].
  apply queue_in_seq; lia.
Qed.

(* ---------- the theorem ---------- *)
Section Split.
  Variables (m mA mB : list token -> res nat) (edit : tkind -> tkind) (k : nat).
  Variables A B : list token.
  Hypothesis HL : forall p s, A = p ++ s -> s <> [] -> m (s ++ map (shift_tk k) B) = mA s.
  Hypothesis HR : forall s, m (map (shift_tk k) s) = mB s.
  Hypothesis okA : matcher_ok mA A.
  Hypothesis monoA : monotone_ends mA A.

  Lemma find_all_matches_split kA kB :
    find_all_matches mA A = Ok kA -> find_all_matches mB B = Ok kB ->
    find_all_matches m (A ++ map (shift_tk k) B) = Ok (kA ++ map (span_shift (length A)) kB).
  Proof.
    unfold find_all_matches. intros HA HB.
    destruct (fam_scan mA A 0) as [fa|] eqn:EA; [|discriminate]. cbn [bind] in HA. injection HA as <-.
    destruct (fam_scan mB B 0) as [fb|] eqn:EB; [|discriminate]. cbn [bind] in HB. injection HB as <-.
    assert (EB' : fam_scan m (map (shift_tk k) B) (0 + length A) = Ok (map (span_shift (length A)) fb)).
    { rewrite fam_scan_idx. rewrite (fam_scan_map (shift_tk k) m mB HR B 0), EB. reflexivity. }
    rewrite (fam_scan_app m mA (map (shift_tk k) B) A 0 fa _ HL EA EB'). cbn [bind]. f_equal.
    pose proof (fam_scan_le mA A 0 fa (matcher_ok_bound mA A okA) EA) as Hle.
    pose proof (fam_scan_ge mB B 0 fb EB) as Hge.
    rewrite overlap_idx_app.
    2:{ eapply Forall_impl; [|exact Hle]. intros x Hx. cbn beta in Hx.
        apply Forall_forall. intros y Hy. apply in_map_iff in Hy. destruct Hy as [y0 [<- _]].
        unfold overlaps, span_shift, push_by. cbn [sstart send].
        apply andb_false_iff. right. apply Nat.ltb_ge. lia. }
    rewrite remove_indices_app.
    - f_equal. cbn [Nat.add]. rewrite overlap_idx_map_shift.
      change (length fa) with (0 + length fa). rewrite (overlap_idx_idx fb 0 (length fa)).
      rewrite (ri_shift (length fa) _ 0). apply ri_map.
    - eapply queue_in_weaken; [|apply overlap_idx_queue]. lia.
    - intros r Hr. apply overlap_idx_gt in Hr. lia.
  Qed.

  Theorem condense_pattern_split A' B' :
    condense_pattern mA edit A = Ok A' -> condense_pattern mB edit B = Ok B' ->
    condense_pattern m edit (A ++ map (shift_tk k) B) = Ok (A' ++ map (shift_tk k) B').
  Proof.
    unfold condense_pattern. intros HA HB.
    destruct (find_all_matches_spec mA A monoA okA) as [kA [EA DA]].
    rewrite EA in HA. cbn [bind] in HA.
    destruct (find_all_matches mB B) as [kB|] eqn:EB; [|discriminate]. cbn [bind] in HB.
    destruct (cp_apply edit kA A) as [[uA qA]|] eqn:CA; [|discriminate]. cbn [bind] in HA. injection HA as <-.
    destruct (cp_apply edit kB B) as [[uB qB]|] eqn:CB; [|discriminate]. cbn [bind] in HB. injection HB as <-.
    rewrite (find_all_matches_split kA kB EA EB). cbn [bind].
    pose proof (cp_apply_length _ _ _ _ _ CA) as LA.
    pose proof (cp_apply_app_r edit (map (shift_tk k) B) _ _ _ _ CA) as C1.
    pose proof (cp_apply_pre edit uA _ _ _ _ (cp_apply_tokshift edit k _ _ _ _ CB)) as C2.
    rewrite LA in C2.
    rewrite (cp_apply_app_ms edit _ _ _ _ _ _ _ C1 C2). cbn [bind]. f_equal.
    rewrite remove_indices_app.
    - f_equal. rewrite <- LA. rewrite (ri_shift (length uA) _ 0). apply ri_map.
    - cbn [Nat.add]. rewrite LA. rewrite (cp_apply_queue _ _ _ _ _ CA). exact (ds_queue mA A kA 0 DA).
    - intros r Hr. apply in_map_iff in Hr. destruct Hr as [r0 [<- _]]. unfold idx_shift. lia.
  Qed.
End Split.
